import Verif.Proofs.Val.Eq
import Verif.Proofs.Val.DictEq
import Verif.Proofs.Val.HashInj
import Verif.Proofs.Val.Dict
/-!
# C18 — Equality, ordering and hashing obey their laws

Model: `Verif.Model.Val` (ports of the per-kind `Equal` / `Less`… / `HashInput` methods of
`interpreter/value_*.go`, of `StaticType.Equal` / `StaticType.ID` and of the `sema` ID formatters), tag
bytes regenerated from `interpreter/hashablevalue.go` (`Verif.Gen.HashTags`).  Well-formedness `Val.wf`
is what the value constructors guarantee (numbers in range, 8-byte addresses, intersection /
entitlement-set members listed once, no *unknown* type value `TypeValue{Type: nil}`).
-/
namespace Verif.Properties.C18
open Verif.Model.Val Verif.Gen Verif.Proofs.Val Verif.Spec

/-- FX obligation: the `HashInputType` tag bytes are pairwise distinct and fit a byte. -/
theorem hashtags_distinct :
    (HashTags.all.map (·.2)).Nodup ∧ ∀ p ∈ HashTags.all, p.2 < 256 := by decide

/-- FX obligation (pinned expectation): the tag bytes are the ones stored data was hashed with. -/
theorem hashtags_pinned :
    HashTags.all = [("Bool", 0), ("String", 1), ("Enum", 2), ("Address", 3), ("Path", 4), ("Type", 5),
      ("Character", 6), ("Int", 10), ("Int8", 11), ("Int16", 12), ("Int32", 13), ("Int64", 14),
      ("Int128", 15), ("Int256", 16), ("UInt", 18), ("UInt8", 19), ("UInt16", 20), ("UInt32", 21),
      ("UInt64", 22), ("UInt128", 23), ("UInt256", 24), ("Word8", 27), ("Word16", 28), ("Word32", 29),
      ("Word64", 30), ("Word128", 31), ("Word256", 32), ("Fix64", 38), ("Fix128", 39), ("UFix64", 46),
      ("UFix128", 47), ("_Count", 50)] := by decide

/-- FX obligation (pinned expectation): every `HashInput` method of `interpreter/value_*.go` mentions
exactly one tag constant — its own — and no two methods share one. -/
theorem hashinput_uses_own_tag :
    HashTags.uses = [("AddressValue", ["Address"]), ("BoolValue", ["Bool"]), ("CharacterValue", ["Character"]),
      ("CompositeValue", ["Enum"]), ("Fix128Value", ["Fix128"]), ("Fix64Value", ["Fix64"]),
      ("Int128Value", ["Int128"]), ("Int16Value", ["Int16"]), ("Int256Value", ["Int256"]),
      ("Int32Value", ["Int32"]), ("Int64Value", ["Int64"]), ("Int8Value", ["Int8"]), ("IntValue", ["Int"]),
      ("PathValue", ["Path"]), ("StringValue", ["String"]), ("TypeValue", ["Type"]),
      ("UFix128Value", ["UFix128"]), ("UFix64Value", ["UFix64"]), ("UInt128Value", ["UInt128"]),
      ("UInt16Value", ["UInt16"]), ("UInt256Value", ["UInt256"]), ("UInt32Value", ["UInt32"]),
      ("UInt64Value", ["UInt64"]), ("UInt8Value", ["UInt8"]), ("UIntValue", ["UInt"]),
      ("Word128Value", ["Word128"]), ("Word16Value", ["Word16"]), ("Word256Value", ["Word256"]),
      ("Word32Value", ["Word32"]), ("Word64Value", ["Word64"]), ("Word8Value", ["Word8"])] := by decide

/-- **`==` is an equivalence**: reflexive, symmetric, transitive — on all well-formed values (numbers,
strings, characters, booleans, addresses, paths, enums, type values, optionals, arrays and
*dictionaries* of these, nested to any depth).  `Val.keysOK` is what `DictionaryValue` guarantees:
the keys of every dictionary inside are hashable and pairwise unequal (vacuous without dictionaries).
`DictionaryValue.Equal` compares the counts and then looks every entry of the receiver up in the
other dictionary — a one-sided inclusion test; symmetry is the counting argument that an inclusion
between equally many pairwise unequal keys is a bijection (`match_surj`). -/
theorem eq_equiv :
    (∀ a : Val, a.wf = true → a.keysOK = true → eq a a = true) ∧
    (∀ a b : Val, a.wf = true → b.wf = true → a.keysOK = true → b.keysOK = true →
      eq a b = true → eq b a = true) ∧
    (∀ a b c : Val, a.wf = true → b.wf = true → c.wf = true →
      a.keysOK = true → b.keysOK = true → c.keysOK = true →
      eq a b = true → eq b c = true → eq a c = true) :=
  ⟨fun a w k => eqK_refl a ⟨w, k⟩,
   fun a b wa wb ka kb => eqK_symm a b ⟨wa, ka⟩ ⟨wb, kb⟩,
   fun a b c wa wb wc ka kb kc => eqK_trans a b c ⟨wa, ka⟩ ⟨wb, kb⟩ ⟨wc, kc⟩⟩

-- two dictionaries {"é": [T1], 1: nil} listed in different orders, type members permuted: well-formed, equal both ways
example :
    let d1 : Val := .dict (.dict (.prim [0x41]) (.prim [0x42]))
      [(.str [0xc3, 0xa9], .arr (.varr (.prim [0x41])) [.type (some (.inter [[0x49], [0x4a]]))]), (.num .int8 1, .nil)]
    let d2 : Val := .dict (.dict (.prim [0x41]) (.prim [0x42]))
      [(.num .int8 1, .nil), (.str [0xc3, 0xa9], .arr (.varr (.prim [0x41])) [.type (some (.inter [[0x4a], [0x49]]))])]
    d1.wf = true ∧ d1.keysOK = true ∧ d2.wf = true ∧ d2.keysOK = true ∧ eq d1 d2 = true ∧ eq d2 d1 = true := by
  decide

/-- the dictionary-free special case needs the key condition on no side (the earlier partial theorem) -/
theorem eq_equiv_dictFree :
    (∀ a : Val, a.wf = true → a.dictFree = true → eq a a = true) ∧
    (∀ a b : Val, a.wf = true → b.wf = true → a.dictFree = true → eq a b = true → eq b a = true) ∧
    (∀ a b c : Val, a.wf = true → b.wf = true → c.wf = true → a.dictFree = true →
      eq a b = true → eq b c = true → eq a c = true) ∧
    (∀ a : Val, a.dictFree = true → a.keysOK = true) :=
  ⟨eq_refl, eq_symm, eq_trans, keysOK_of_dictFree⟩

example : eq (.arr (.varr (.prim [0x41])) [.some (.str [0xc3, 0xa9]), .type (some (.inter [[0x49], [0x4a]]))])
    (.arr (.varr (.prim [0x41])) [.some (.str [0xc3, 0xa9]), .type (some (.inter [[0x4a], [0x49]]))]) = true := by
  decide

/-- The key condition is needed: `DictionaryValue.Equal` really is one-sided.  On a dictionary that
lists a key twice (not constructible: `Insert` replaces the entry of an equal key) it is not
symmetric. -/
theorem dict_duplicate_key_witness :
    let d1 : Val := .dict (.dict (.prim [0x41]) (.prim [0x42])) [(.bool true, .nil), (.bool true, .nil)]
    let d2 : Val := .dict (.dict (.prim [0x41]) (.prim [0x42])) [(.bool true, .nil), (.bool false, .nil)]
    d1.wf = true ∧ d1.keysOK = false ∧ d2.keysOK = true ∧ eq d1 d2 = true ∧ eq d2 d1 = false := by decide

/-- Recorded region outside `Val.wf`: an *unknown* type value (only produced by decoding a stored
type value whose type is CBOR nil; "Unknown types are never equal to another type") is not equal to
itself. -/
theorem unknown_type_not_reflexive_witness : eq (.type none) (.type none) = false := rfl

/-- `IntersectionStaticType.Equal` is a one-sided inclusion test: on an intersection that lists a
member twice (constructible through the Go API only; the checker and `IntersectionType(...)` reject
it) it is not symmetric — hence `STy.wf` in the theorems above. -/
theorem intersection_duplicate_member_witness :
    STy.equal (.inter [[1], [1]]) (.inter [[1], [2]]) = true ∧
    STy.equal (.inter [[1], [2]]) (.inter [[1], [1]]) = false := by decide

/-- On every comparable pair (two numbers of one kind, two strings, two characters, two booleans):
`<` is irreflexive and transitive, exactly one of `a < b`, `a == b`, `b < a` holds, and `<=`, `>`,
`>=` are the derived relations. -/
theorem order_total :
    (∀ a : Val, lt a a = false) ∧
    (∀ a b c : Val, comparable a b = true → comparable b c = true →
      lt a b = true → lt b c = true → lt a c = true) ∧
    (∀ a b : Val, comparable a b = true →
      (lt a b = true ∧ eq a b = false ∧ lt b a = false) ∨
      (lt a b = false ∧ eq a b = true ∧ lt b a = false) ∨
      (lt a b = false ∧ eq a b = false ∧ lt b a = true)) ∧
    (∀ a b : Val, comparable a b = true →
      le a b = (lt a b || eq a b) ∧ gt a b = lt b a ∧ ge a b = le b a) := by
  refine ⟨?_, ?_, ?_, ?_⟩
  · intro a; cases a <;> simp [lt, bytesCmp_refl]
  · intro a b c hab hbc h1 h2
    cases a <;> cases b <;> simp [comparable] at hab <;> cases c <;> simp [comparable] at hbc <;>
      simp [lt] at h1 h2 ⊢
    · simp [h1, h2]
    · exact bytesCmp_lt_trans _ _ _ h1 h2
    · exact bytesCmp_lt_trans _ _ _ h1 h2
    · omega
  · intro a b h
    cases a <;> cases b <;> simp [comparable] at h
    · rename_i x y; cases x <;> cases y <;> simp [lt, eq]
    · rename_i x y
      simp only [lt, eq]
      rcases bytes_tri x y with ⟨h1, h2, h3⟩ | ⟨h1, h2, h3⟩ | ⟨h1, h2, h3⟩ <;> simp [h1, h2, h3, bytesCmp_refl] <;> first | done | decide
    · rename_i x y
      simp only [lt, eq]
      rcases bytes_tri x y with ⟨h1, h2, h3⟩ | ⟨h1, h2, h3⟩ | ⟨h1, h2, h3⟩ <;> simp [h1, h2, h3, bytesCmp_refl] <;> first | done | decide
    · rename_i k n k' m
      subst h
      simp only [lt, eq]
      by_cases h1 : n < m
      · left; simp [h1]; omega
      · by_cases h2 : n = m
        · right; left; simp [h2]
        · right; right; simp [h1, h2]; omega
  · intro a b h
    cases a <;> cases b <;> simp [comparable] at h
    · rename_i x y; cases x <;> cases y <;> simp [lt, le, gt, ge, eq]
    · rename_i x y
      simp only [lt, le, gt, ge, eq]
      rcases bytes_tri x y with ⟨h1, h2, h3⟩ | ⟨h1, h2, h3⟩ | ⟨h1, h2, h3⟩ <;> simp [h1, h2, h3, bytesCmp_refl] <;> first | done | decide
    · rename_i x y
      simp only [lt, le, gt, ge, eq]
      rcases bytes_tri x y with ⟨h1, h2, h3⟩ | ⟨h1, h2, h3⟩ | ⟨h1, h2, h3⟩ <;> simp [h1, h2, h3, bytesCmp_refl] <;> first | done | decide
    · rename_i k n k' m
      subst h
      simp only [lt, le, gt, ge, eq, beq_self_eq_true, Bool.true_and]
      refine ⟨?_, ?_, ?_⟩ <;> first | trivial | (apply Bool.eq_iff_iff.2; simp; try omega)

example : comparable (.str [0x61]) (.str [0x61, 0x62]) = true ∧ lt (.str [0x61]) (.str [0x61, 0x62]) = true := by decide

/-- Equal values have the same hash input (so equal keys land in the same hash bucket). -/
theorem hash_respects_eq (a b : Val) (wa : a.wf = true) (wb : b.wf = true) (h : eq a b = true) :
    hashInput a = hashInput b := hash_of_eq a b wa wb h

/-- **Equal hash inputs come from equal values** — for all well-formed hashable values other than type
values, of whatever (possibly different) kinds: booleans, strings, characters, addresses, paths, numbers
of the 24 kinds (minimal signed / unsigned big-endian magnitudes for `Int`, `UInt` and the 128/256-bit
kinds, fixed-width two's-complement patterns for the others: each injective on the kind's range) and
enums (tag, type ID and the raw value's hash input are concatenated *without a length prefix*; the
boundary is recognisable because an enum's type ID — identifier characters and `.`, `Val.idPrintable` —
contains no byte ≤ 0x20 while the raw value's tag, an integer kind, is in 10 … 32).  With
`hash_respects_eq`: on these keys `eq a b ↔ hashInput a = hashInput b`.

Full statement `hash_injective` (also for type values, `HashInput = tag ++ StaticType.ID()`): not
proved — it needs the unambiguity of the type-ID grammar (`[T]`, `[T;n]`, `{K:V}`, `{I1,I2}`,
`auth(E1,E2)&T`, `Capability<T>`, …) and the fact that primitive, composite and interface types share
one ID namespace, which the model (IDs are arbitrary bytes, see `type_id_collision_witness`) does not
have; the `eqhash` stream checks "no hash collision of unequal keys" on type values. -/
theorem hash_injective_partial (a b : Val) (wa : a.wf = true) (wb : b.wf = true)
    (pa : a.idPrintable = true) (pb : b.idPrintable = true) (nt : ∀ t, a ≠ .type t)
    (hs : hashInput a ≠ none) (h : hashInput a = hashInput b) : eq a b = true :=
  hash_inj a b wa wb pa pb nt (Option.isSome_iff_ne_none.2 hs) h

-- -129 as Int (two bytes ff 7f) and -129 as Int256: different tags; 2^64 as UInt128 is 01 00…00
example : hashInput (.num .int (-129)) = some [10, 0xff, 0x7f] ∧ hashInput (.num .int256 (-129)) = some [16, 0xff, 0x7f] ∧
    hashInput (.num .uint128 (2 ^ 64)) = some [23, 1, 0, 0, 0, 0, 0, 0, 0, 0] ∧
    (Val.num .int (-129)).wf = true ∧ (Val.enum [0x53, 0x2e, 0x45] .uint8 3).idPrintable = true ∧
    hashInput (.enum [0x53, 0x2e, 0x45] .uint8 3) = some [2, 0x53, 0x2e, 0x45, 19, 3] := by decide

/-- `Val.idPrintable` is needed: without a length prefix, an enum type ID ending in a tag byte collides
(model artefact: real type IDs consist of identifier characters and `.`). -/
theorem enum_id_collision_witness :
    hashInput (.enum [0x41] .int16 0x0b05) = hashInput (.enum [0x41, 0x0c] .int8 5) ∧
    eq (.enum [0x41] .int16 0x0b05) (.enum [0x41, 0x0c] .int8 5) = false ∧
    (Val.enum [0x41, 0x0c] .int8 5).idPrintable = false := by decide

/-- Why type values are outside `hash_injective_partial`: in the model a primitive and a composite type
may carry the same ID bytes (in `/repo` they share one namespace). -/
theorem type_id_collision_witness :
    hashInput (.type (some (.prim [0x41]))) = hashInput (.type (some (.comp [0x41]))) ∧
    eq (.type (some (.prim [0x41]))) (.type (some (.comp [0x41]))) = false := by decide

-- `auth(E2, E1) &T` and `auth(E1, E2) &T` (IDs `E1` = 45 31, `E2` = 45 32, `T` = 54): equal, hash input `05 auth(E1,E2)&T`
example : eq (.type (some (.ref (.set false [[0x45, 0x31], [0x45, 0x32]]) (.prim [0x54]))))
      (.type (some (.ref (.set false [[0x45, 0x32], [0x45, 0x31]]) (.prim [0x54])))) = true ∧
    hashInput (.type (some (.ref (.set false [[0x45, 0x32], [0x45, 0x31]]) (.prim [0x54])))) =
      some [5, 0x61, 0x75, 0x74, 0x68, 0x28, 0x45, 0x31, 0x2c, 0x45, 0x32, 0x29, 0x26, 0x54] := by decide

/-- Type IDs do not depend on the order in which the members of an intersection type or of an
entitlement set are listed (sort, then join). -/
theorem typeid_perm_invariant :
    (∀ xs ys : List Bytes, xs.Perm ys → (STy.inter xs).id = (STy.inter ys).id) ∧
    (∀ (d : Bool) (xs ys : List Bytes) (t : STy), xs.Perm ys →
      (STy.ref (.set d xs) t).id = (STy.ref (.set d ys) t).id) := by
  constructor
  · intro xs ys p; simp [STy.id, interID_perm p]
  · intro d xs ys t p; simp [STy.id, Auth.id, formatEntitlementSet, sortIDs_perm p]

example : (STy.inter [[0x4b], [0x49], [0x4a]]).id = [0x7b, 0x49, 0x2c, 0x4a, 0x2c, 0x4b, 0x7d] ∧
    [[0x4b], [0x49], [0x4a]].Perm [[0x49], [0x4a], [0x4b]] := by
  decide

/-- Equal hashable values are interchangeable as dictionary keys: in the association-list
dictionary keyed by `eq`, inserting `a` and then an equal `b` leaves the size unchanged, and either
key finds the value stored last.  (Keys are well-formed and dictionary-free; every hashable value is.) -/
theorem dict_key {V : Type} (a b : Val) (x y : V)
    (wa : a.wf = true ∧ a.dictFree = true) (wb : b.wf = true ∧ b.dictFree = true) (h : eq a b = true)
    (d : List (Val × V)) (hd : ∀ e ∈ d, e.1.wf = true ∧ e.1.dictFree = true) :
    (KeyDict.insert eq b y (KeyDict.insert eq a x d)).length = (KeyDict.insert eq a x d).length ∧
    KeyDict.lookup eq a (KeyDict.insert eq b y (KeyDict.insert eq a x d)) = some y ∧
    KeyDict.lookup eq b (KeyDict.insert eq b y (KeyDict.insert eq a x d)) = some y :=
  insert_insert_eq eq (fun v => v.wf = true ∧ v.dictFree = true)
    (fun a p => eq_refl a p.1 p.2)
    (fun a b pa pb h => eq_symm a b pa.1 pb.1 pa.2 h)
    (fun a b c pa pb pc h1 h2 => eq_trans a b c pa.1 pb.1 pc.1 pa.2 h1 h2)
    a b x y wa wb h d hd

/-- every hashable value is dictionary-free (so `dict_key` covers all keys) -/
theorem hashable_dictFree (a : Val) (h : hashInput a ≠ none) : a.dictFree = true := by
  cases a <;> simp [hashInput] at h <;> rfl

example :
    (KeyDict.insert eq (.str [0xc3, 0xa9]) 2 (KeyDict.insert eq (.str [0xc3, 0xa9]) 1 ([] : List (Val × Nat)))).length = 1 ∧
    KeyDict.lookup eq (.str [0xc3, 0xa9]) (KeyDict.insert eq (.str [0xc3, 0xa9]) 2 (KeyDict.insert eq (.str [0xc3, 0xa9]) 1 ([] : List (Val × Nat)))) = some 2 := by
  decide

end Verif.Properties.C18
