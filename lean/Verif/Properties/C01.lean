import Verif.Proofs.Lang2Typing
/-!
# C01 — Checker-accepted programs never fail with internal errors

The L2 evaluator (`Verif.Model.Lang2`, tied to /repo by the streams `nointernal`, `copysem`, `resown`,
`refinv`) models the interpreter's run-time defensive checks as explicit `internalErr` outcomes
(`invalidatedResource`, `memberType`, `transferType`, plus the model-internal `typeMismatch` /
`unbound`).  Full-strength statement: for every program accepted by a typing judgment of the whole
fragment, `run` never returns `internalErr`.  Proved here: the scalar expression sub-fragment
(`defensive_checks_silent_partial`) and declarations of such expressions (`decl_silent_partial`);
`conditional_not_boxed_witness` proves that the model exhibits the known finding of the unchanged tree.
The whole-language part of C01 is the direct-oracle stream `nointernal` (exploration, not proof).
-/
namespace Verif.Properties.C01
open Verif.Model.Lang2

/-- **no defensive check fires** for a well-typed scalar expression (integer / boolean literals,
variables, unary and binary operators, `&&`, `||`, the conditional operator) evaluated in an environment
that is typed by `Γ`: for every program, fuel and state the outcome is never an internal error, a
successful outcome has the expression's type, and the state is unchanged. -/
theorem defensive_checks_silent_partial (p : Program) (Γ : TEnv) (n : Nat) (e : Expr) (τ : STy) (s : State)
    (ht : typeOf Γ e = some τ) (henv : EnvOk Γ s.env) :
    (∀ k, (eval p n e s).out ≠ .internalErr k) ∧
    (∀ v, (eval p n e s).out = .ok v → v.hasTy τ) ∧
    (eval p n e s).st = s := by
  obtain ⟨hst, _, hout⟩ := eval_sound p Γ n e τ s ht henv
  refine ⟨fun k hk => ?_, fun v hv => ?_, hst⟩
  · rw [hk] at hout; exact hout
  · rw [hv] at hout; exact hout

/-- the model exhibits the known finding `conditional-result-not-boxed`: optional chaining on a
conditional expression whose branch value is not boxed ends in the internal member-access type error
(`MemberAccessTypeError` of the interpreter), although the Go checker accepts the program. -/
theorem conditional_not_boxed_witness :
    (match (run
      ⟨[⟨"main", [], .opt (.int .int),
          [.ret (some (.member true false (.cond (.boolLit true) (.call "S" []) .nilLit) "x"))]⟩],
       [⟨"S", false, [⟨false, "x", .int .int⟩], some ([], [.assign false (.member false false (.var "self") "x") (.int .int) (.intLit .int 1)]), [], none⟩]⟩
      30).out with
     | .internalErr .memberType => true
     | _ => false) = true := by decide

/-! ### non-vacuity -/

example : typeOf [("a", .int .int), ("c", .bool)]
    (.cond (.and (.var "c") (.binary .lt (.var "a") (.intLit .int 3))) (.binary .add (.var "a") (.intLit .int 1)) (.unary .neg (.var "a")))
    = some (.int .int) := by decide

example : EnvOk [("a", .int .int), ("c", .bool)] [("a", .int .int 5), ("c", .bool true)] := by
  intro x τ h
  simp only [TEnv.lookup, List.find?] at h
  by_cases hx : x = "a"
  · subst hx; simp at h; subst h; exact ⟨_, rfl, rfl⟩
  · by_cases hc : x = "c"
    · subst hc; simp at h; subst h; exact ⟨_, rfl, trivial⟩
    · have h1 : ("a" == x) = false := by simpa using fun e => hx e.symm
      have h2 : ("c" == x) = false := by simpa using fun e => hc e.symm
      simp [h1, h2] at h

end Verif.Properties.C01
