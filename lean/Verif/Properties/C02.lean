import Verif.Proofs.Lang2Env
/-!
# C02 — Resources are never duplicated or lost at run time

Theorems about the μCadence L2 evaluator (`Verif.Model.Lang2`, tied to /repo's interpreter and VM by the
stream `resown`).  A resource is a heap cell with identity; a slot (variable, field, element, dictionary
entry, storage path) holds a pointer to it.  The theorems below are the run-time guards that keep every
resource in exactly one slot; they hold for **every** program, state and fuel.

Full-strength statement (not yet proved as one induction over the evaluator; see `props/C02.py`):
`single_owner` — the invariant "every live resource identity occurs in exactly one slot of the state"
is preserved by every successful `exec` step of any program.  Proved here are its per-primitive parts.
-/
namespace Verif.Properties.C02
open Verif.Model.Lang2

/-- **a move vacates its source** (`single_owner_partial`, variable part): evaluating `<- x` on a
variable holding a resource yields the resource and leaves the variable invalid — a later read of `x`
is the `InvalidatedResourceError` defensive check, so the variable no longer gives access to it. -/
theorem move_vacates_source (p : Program) (n : Nat) (x : String) (s : State) (v : Val)
    (hv : s.env.lookup x = some v) (hninv : v ≠ .invalid) (hres : isResVal s.heap v = true) :
    let r := eval p (n + 2) (.move (.var x)) s
    r.out = .ok v ∧ r.st.env.lookup x = some .invalid ∧ r.st.heap = s.heap ∧
    (getVar x r.st).out = .internalErr .invalidatedResource := by
  obtain ⟨env', hu⟩ := update_of_lookup s.env x v .invalid hv
  have hl := lookup_update s.env env' x .invalid hu
  have hg : getVar x s = ⟨.ok v, s, []⟩ := by
    unfold getVar; rw [hv]; cases v <;> simp_all
  simp only [eval, bind, M.bind, hg, vacate, hres, if_true, writeLocRaw, setVarRaw, hu, pure, M.pure]
  refine ⟨by trivial, hl, by trivial, ?_⟩
  unfold getVar
  simp [hl]

/-- **loss guard** (`CheckResourceLoss`): a guarded write over a slot that still holds a live resource
fails with `resource-loss` and changes nothing. -/
theorem loss_guard (l : Loc) (v old : Val) (s : State)
    (hp : (peekLoc l s).out = .ok old) (hres : isResVal s.heap old = true) :
    (writeLoc l v s).out = .userErr .resourceLoss ∧ (writeLoc l v s).st = s := by
  have hst : (peekLoc l s).st = s := by
    unfold peekLoc; cases l <;> simp <;> repeat (first | rfl | split)
  unfold writeLoc
  simp only [bind, M.bind, hp, hst, checkLoss, hres, if_true]
  exact ⟨by trivial, by trivial⟩

/-- **double-destroy guard** (`WithResourceDestruction`): destroying a cell that is already dead fails
with `destroyed-resource` and changes nothing (no second event). -/
theorem double_destroy_guard (p : Program) (n : Nat) (id : Nat) (c : Cell) (s : State)
    (hc : s.heap[id]? = some c) (hdead : c.alive = false) :
    (destroyVal p (n + 1) (.ptr id) s).out = .userErr .destroyedResource ∧
    (destroyVal p (n + 1) (.ptr id) s).st = s := by
  simp only [destroyVal, bind, M.bind, getCell, hc, hdead, Bool.not_false, if_true, M.userErr]
  exact ⟨by trivial, by trivial⟩

/-- **fresh uuid**: creating a resource (composite without initialiser) assigns the current counter as
uuid and advances the counter, so uuids of successively created resources are pairwise distinct. -/
theorem create_fresh_uuid (p : Program) (n : Nat) (f : String) (cd : CompDecl) (s : State)
    (hf : p.findFun f = none) (hb : f ≠ "log" ∧ f ≠ "panic" ∧ f ≠ "assert")
    (hcd : p.findComp f = some cd) (hres : cd.isRes = true) (hinit : cd.init = none) :
    let r := callNamed p (n + 1) f [] s
    r.out = .ok (.ptr s.heap.length) ∧ r.st.nextUuid = s.nextUuid + 1 ∧
    r.st.heap = s.heap ++ [⟨.comp cd.name [("uuid", .int ⟨false, 64, false⟩ s.nextUuid)], .res cd.name, true, 0, true⟩] := by
  obtain ⟨h1, h2, h3⟩ := hb
  unfold callNamed
  split <;> simp_all [bind, M.bind, M.get, M.modify, alloc, pure, M.pure]

/-! ### non-vacuity -/

example : ∃ s : State, s.env.lookup "a" = some (.ptr 0) ∧ isResVal s.heap (.ptr 0) = true :=
  ⟨{ State.init with env := [("a", .ptr 0)], heap := [⟨.comp "R" [], .res "R", true, 0, true⟩] }, rfl, rfl⟩

end Verif.Properties.C02
