import Verif.Proofs.Lang2Env
import Verif.Proofs.Lang2OwnStmt
/-!
# C02 — Resources are never duplicated or lost at run time

Theorems about the μCadence L2 evaluator (`Verif.Model.Lang2`, tied to /repo's interpreter and VM by the
stream `resown`).  A resource is a heap cell with identity; a slot (variable, field, element, dictionary
entry, storage path) holds a pointer to it.  The theorems below are the run-time guards that keep every
resource in exactly one slot; they hold for **every** program, state and fuel.

Full-strength statement (DESIGN §6 C02): `single_owner` — the invariant `Own s` ("every live resource
cell is owned by at most one slot: a variable of some activation, a field / element / entry of a cell,
a storage path; no slot points beyond the heap") holds initially and is preserved by every successful
evaluation of any *checker-accepted* program.  Not proved as one induction over the whole evaluator:
unlike the Go interpreter (whose `Transfer` invalidates the source *wrapper object*, so that every
other holder of it sees an invalidated resource) the model moves a resource by the syntactic `<-`
forms only (`vacate`); a program that reads a resource variable without `<-` — which the checker
rejects (C03) — duplicates the pointer in the model.  The general induction therefore needs C03's
linearity as a hypothesis.  Proved here:

* `single_owner_init`, `single_owner_partial`, `single_owner_block_partial`: the invariant through the
  resource-moving core — declaration, assignment to a variable or a field (through a variable or a
  reference), second-value declaration on a variable or a field, `destroy x` (nested resources and
  events included), `save`, with the sources `<- x`, `<- x!`, `create R()` (no initialiser), `load`,
  `load(...)!`, `nil` — and every sequence of such statements, for every program, state and fuel;
* `transfer_single_owner`, `write_single_owner`, `read_vacate_single_owner`, `destroy_single_owner`:
  the general steps the induction over the remaining evaluator cases would use (they hold for *every*
  value / location, deep copies of arbitrary object graphs included).

Remaining evaluator cases (no theorem): function / method / initialiser calls (argument transfer,
`self` aliasing, activation stack), array and dictionary literals and built-ins (`append`, `insert`,
`remove*` — the location lemmas cover element and entry slots, the built-ins themselves are not
composed), indexing targets, swap (the second `vacate` reads a state the first has changed),
optional binding, conditionals, loops, blocks (scope exit), return.
-/
namespace Verif.Properties.C02
open Verif.Model.Lang2

/-- **a move vacates its source** (`single_owner_partial`, variable part): evaluating `<- x` on a
variable holding a resource yields the resource and leaves the variable invalid — a later read of `x`
is the `InvalidatedResourceError` defensive check, so the variable no longer gives access to it. -/
theorem move_vacates_source (p : Program) (n : Nat) (x : String) (s : State) (v : Val)
    (hv : s.env.lookup x = some v) (hninv : v ≠ .invalid) (hres : isResVal s.heap v = true) :
    let r := eval p (n + 2) (.move (.var x)) s
    r.out = .ok v ∧ r.st.env.lookup x = some .invalid ∧ r.st.heap = s.heap ∧
    (getVar x r.st).out = .internalErr .invalidatedResource := by
  obtain ⟨env', hu⟩ := update_of_lookup s.env x v .invalid hv
  have hl := lookup_update s.env env' x .invalid hu
  have hg : getVar x s = ⟨.ok v, s, []⟩ := by
    unfold getVar; rw [hv]; cases v <;> simp_all
  simp only [eval, bind, M.bind, hg, vacate, hres, if_true, writeLocRaw, setVarRaw, hu, pure, M.pure]
  refine ⟨by trivial, hl, by trivial, ?_⟩
  unfold getVar
  simp [hl]

/-- **loss guard** (`CheckResourceLoss`): a guarded write over a slot that still holds a live resource
fails with `resource-loss` and changes nothing. -/
theorem loss_guard (l : Loc) (v old : Val) (s : State)
    (hp : (peekLoc l s).out = .ok old) (hres : isResVal s.heap old = true) :
    (writeLoc l v s).out = .userErr .resourceLoss ∧ (writeLoc l v s).st = s := by
  have hst : (peekLoc l s).st = s := by
    unfold peekLoc; cases l <;> simp <;> repeat (first | rfl | split)
  unfold writeLoc
  simp only [bind, M.bind, hp, hst, checkLoss, hres, if_true]
  exact ⟨by trivial, by trivial⟩

/-- **double-destroy guard** (`WithResourceDestruction`): destroying a cell that is already dead fails
with `destroyed-resource` and changes nothing (no second event). -/
theorem double_destroy_guard (p : Program) (n : Nat) (id : Nat) (c : Cell) (s : State)
    (hc : s.heap[id]? = some c) (hdead : c.alive = false) :
    (destroyVal p (n + 1) (.ptr id) s).out = .userErr .destroyedResource ∧
    (destroyVal p (n + 1) (.ptr id) s).st = s := by
  simp only [destroyVal, bind, M.bind, getCell, hc, hdead, Bool.not_false, if_true, M.userErr]
  exact ⟨by trivial, by trivial⟩

/-- **fresh uuid**: creating a resource (composite without initialiser) assigns the current counter as
uuid and advances the counter, so uuids of successively created resources are pairwise distinct. -/
theorem create_fresh_uuid (p : Program) (n : Nat) (f : String) (cd : CompDecl) (s : State)
    (hf : p.findFun f = none) (hb : f ≠ "log" ∧ f ≠ "panic" ∧ f ≠ "assert")
    (hcd : p.findComp f = some cd) (hres : cd.isRes = true) (hinit : cd.init = none) :
    let r := callNamed p (n + 1) f [] s
    r.out = .ok (.ptr s.heap.length) ∧ r.st.nextUuid = s.nextUuid + 1 ∧
    r.st.heap = s.heap ++ [⟨.comp cd.name [("uuid", .int ⟨false, 64, false⟩ s.nextUuid)], .res cd.name, true, 0, true⟩] := by
  obtain ⟨h1, h2, h3⟩ := hb
  unfold callNamed
  split <;> simp_all [bind, M.bind, M.get, M.modify, alloc, pure, M.pure]

/-! ### the single-owner invariant -/

/-- **single_owner (initial state)**: nothing is owned twice in the initial state. -/
theorem single_owner_init : Own State.init := own_init

/-- **single_owner_partial**: every successful execution of a statement of the resource-moving core
(`Core`: declaration / assignment / second-value declaration with targets `x`, `h.f` and sources `<- x`,
`<- x!`, `create R()`, `load`, `load(…)!`, `nil`; `destroy x`; `save`) preserves the single-owner
invariant — for every program whose destruction-event default arguments do not change the state
(`EventsQuiet`, implied by `SimpleArg`: literals and field reads, see `events_quiet`), every fuel, return
type and state.  Missing for the full statement: the evaluator cases listed in the module comment. -/
theorem single_owner_partial (p : Program) (hq : EventsQuiet p) (n : Nat) (retTy : Ty) (st : Stmt) (s : State)
    (f : Flow) (hcore : Core p st) (hown : Own s) (hok : (exec p n retTy st s).out = .ok f) :
    Own (exec p n retTy st s).st :=
  core_held p hq hcore n retTy s hown f hok

/-- the same for every sequence of core statements (`execStmts`) -/
theorem single_owner_block_partial (p : Program) (hq : EventsQuiet p) (n : Nat) (retTy : Ty) (ss : List Stmt)
    (s : State) (f : Flow) (hcore : ∀ st ∈ ss, Core p st) (hown : Own s)
    (hok : (execStmts p n retTy ss s).out = .ok f) : Own (execStmts p n retTy ss s).st :=
  core_block_held p hq ss hcore n retTy s hown f hok

/-- the side condition of `single_owner_partial` holds when every default argument of a destruction
event is a literal or a field read -/
theorem events_quiet (p : Program)
    (h : ∀ name params, (p.findComp name).bind (·.destroyEvent) = some params → ∀ q ∈ params, SimpleArg q.2 = true) :
    EventsQuiet p := eventsQuiet_of_simple p h

/-- **transfer** (`Value.Transfer`), any value: with `v` in flight, the transferred value replaces it in
flight and the invariant is kept — a resource keeps its identity (no slot gains it), anything else is
deep-copied into fresh cells each owned once. -/
theorem transfer_single_owner (s : State) (v v' : Val) (fl : List Val) (h : Held s (v :: fl))
    (hok : (transfer v s).out = .ok v') : Held (transfer v s).st (v' :: fl) := transfer_held h hok

/-- **guarded write**, any location (variable, field, element, dictionary entry): the value in flight
goes into the slot; the owned pointers of the new state are a sub-multiset of the old ones. -/
theorem write_single_owner (l : Loc) (v : Val) (s : State) (fl : List Val) (h : Held s (v :: fl))
    (hok : (writeLoc l v s).out = .ok ()) : Held (writeLoc l v s).st fl := h.sub (writeLoc_sub l v s fl hok)

/-- **read + vacate**, any non-temporary location (second-value declaration, swap): what the slot held
is in flight afterwards and, if it is a resource, no longer in the slot. -/
theorem read_vacate_single_owner (l : Loc) (s : State) (old : Val) (fl : List Val) (hl : l.isTemp = false)
    (hr : (readLoc l s).out = .ok old) (hv : (vacate l old s).out = .ok ()) (h : Held s fl) :
    Held (vacate l old s).st (old :: fl) := vacate_held hl hr hv h

/-- **destroy**, any value (nested resources included): nothing new is owned. -/
theorem destroy_single_owner (p : Program) (hq : EventsQuiet p) (n : Nat) (v : Val) (s : State) (fl : List Val)
    (h : Held s fl) (hok : (destroyVal p n v s).out = .ok ()) : Held (destroyVal p n v s).st fl :=
  h.sub (destroyVal_sub p hq n v s fl hok)

/-- **destroy_event_once_partial**: destroying a live resource that declares a destruction event and
whose fields hold no containers appends exactly one event to the event trace and marks the cell dead; a
second destroy of the same cell fails with `destroyed-resource` and appends nothing.  Missing for the
full statement: nested resources (one event per nested resource, children first) and "no event for a
resource that is not destroyed" — both covered by the stream's event census only. -/
theorem destroy_event_once_partial (p : Program) (hq : EventsQuiet p) (n m id : Nat) (c : Cell) (name : String)
    (fs : List (String × Val)) (params : List (String × Expr)) (s : State)
    (hc : s.heap[id]? = some c) (halive : c.alive = true) (hres : c.res = true) (ho : c.obj = .comp name fs)
    (hleaf : ∀ v ∈ c.obj.vals, v.ptrs = []) (hev : (p.findComp name).bind (·.destroyEvent) = some params)
    (hok : (destroyVal p (n + 1) (.ptr id) s).out = .ok ()) :
    let r := destroyVal p (n + 1) (.ptr id) s
    (∃ line, r.st.events = s.events ++ [line]) ∧
    (destroyVal p (m + 1) (.ptr id) r.st).out = .userErr .destroyedResource ∧
    (destroyVal p (m + 1) (.ptr id) r.st).st = r.st := by
  obtain ⟨line, hst⟩ := destroy_leaf p hq n id c name fs params s hc halive hres ho hleaf hev hok
  have hlt := (List.getElem?_eq_some_iff.mp hc).1
  simp only [hst]
  refine ⟨⟨line, rfl⟩, ?_⟩
  exact double_destroy_guard p m id { c with alive := false, gen := c.gen + 1 } _
    (by simp [List.getElem?_set_self hlt]) rfl

/-! ### non-vacuity -/

/-- a program with a resource `R` (destruction event with a field-read default argument) -/
def exProg : Program :=
  ⟨[], [⟨"R", true, [], none, [], some [("tag", .member false false (.var "self") "uuid")]⟩]⟩

example : EventsQuiet exProg := events_quiet exProg (by
  intro name params h q hq
  simp only [exProg, Program.findComp] at h
  by_cases e : ("R" == name) = true
  · simp [List.find?, e] at h; subst h; simp at hq; subst hq; rfl
  · simp [List.find?, e] at h)

-- `let a <- create R(); let b <- a; destroy b` are core statements of `exProg`, run to completion, and
-- leave one dead cell, `a` and `b` invalid, one event
example : (∀ st ∈ [Stmt.decl true "a" (.res "R") (.create "R" []), .decl true "b" (.res "R") (.move (.var "a")),
      .expr (.destroy (.var "b"))], Core exProg st) := by
  intro st h
  simp only [List.mem_cons, List.mem_nil_iff, or_false] at h
  rcases h with rfl | rfl | rfl
  · exact .decl _ _ _ _ (.create "R" _ rfl ⟨by decide, by decide, by decide⟩ rfl rfl)
  · exact .decl _ _ _ _ (.moveVar _)
  · exact .destroyVar _

example : ((execStmts exProg 10 .void [.decl true "a" (.res "R") (.create "R" []),
      .decl true "b" (.res "R") (.move (.var "a")), .expr (.destroy (.var "b"))] State.init).st.events.length = 1) := by
  decide


example : ∃ s : State, s.env.lookup "a" = some (.ptr 0) ∧ isResVal s.heap (.ptr 0) = true :=
  ⟨{ State.init with env := [("a", .ptr 0)], heap := [⟨.comp "R" [], .res "R", true, 0, true⟩] }, rfl, rfl⟩

end Verif.Properties.C02
