/-
C40 — Literals denote their written values.

Model: Verif.Model.Front.Literals (ports of the lexer's number scanning, parseIntegerLiteral,
parseFixedPointLiteral, CheckIntegerLiteral, CheckFixedPointLiteral + fixedpoint.CheckRange /
ScaleFractional / ConvertToFixedPointBigInt, parseStringLiteralContent), after the `fix:` commits
cf01ba7 (fractional part compared at the type's scale), e649c0b (`-0`), 4e49d33 (`-0.0` unsigned),
5640e46 (non-scalar Unicode escapes).  Lemmas are in Verif.Proofs.Literals.
-/
import Verif.Proofs.Literals
namespace Verif.Properties.C40
open Verif.Model.Front.Literals Verif.Proofs.Literals

/-! ## Integer literals -/

/-- **Value.**  For every base kind (2, 8, 10, 16), every literal text (after the prefix) that does
    not start or end with an underscore and whose underscore-free projection is a non-empty digit
    string `ds` of the base — whatever the placement and number of inner underscores and leading
    zeros — the parser reports nothing and the value is `Σ dᵢ·baseⁱ`. -/
theorem int_value (kind : Kind) (hk : kind ≠ .unknown) (text : List Char) (ds : List Nat)
    (hd : Digits kind.base (removeUnderscores text) ds) (hne : removeUnderscores text ≠ [])
    (hl : text.head? ≠ some '_') (ht : text.getLast? ≠ some '_') :
    parseIntegerLiteral text kind = ([], posValue kind.base ds) := by
  unfold parseIntegerLiteral
  have h1 : (text.head? == some '_') = false := by simpa using hl
  have h2 : (text.getLast? == some '_') = false := by simpa using ht
  have h3 : (kind == Kind.unknown) = false := by cases kind <;> simp_all
  have h4 : (removeUnderscores text).isEmpty = false := by
    cases h : removeUnderscores text <;> simp_all
  simp only [h1, h2, h3, h4, setString_value kind.base _ ds hd hne]
  simp

/-- the bases are 2, 8, 10, 16 -/
theorem int_bases : Kind.binary.base = 2 ∧ Kind.octal.base = 8 ∧ Kind.decimal.base = 10 ∧ Kind.hex.base = 16 :=
  ⟨rfl, rfl, rfl, rfl⟩

/-- **Lexing.**  A `0b` / `0o` / `0x` prefix followed by digits of that base and underscores is one
    token of the binary / octal / hexadecimal kind (so it is parsed in base 2 / 8 / 16). -/
theorem lex_prefixed (body : List Char) :
    ((∀ c ∈ body, isBinOrUnderscore c = true) → lexNumber ('0' :: 'b' :: body) = ('0' :: 'b' :: body, [], .int .binary)) ∧
    ((∀ c ∈ body, isOctOrUnderscore c = true) → lexNumber ('0' :: 'o' :: body) = ('0' :: 'o' :: body, [], .int .octal)) ∧
    ((∀ c ∈ body, isHexOrUnderscore c = true) → lexNumber ('0' :: 'x' :: body) = ('0' :: 'x' :: body, [], .int .hex)) := by
  refine ⟨fun h => ?_, fun h => ?_, fun h => ?_⟩ <;>
    (have := takeWhile_all _ body h; simp [lexNumber, this])

/-- the mathematical range of an integer type -/
def InRange (t : IntTy) (v : Int) : Prop :=
  match t.signed, t.bits with
  | true, none => True
  | false, none => 0 ≤ v
  | true, some b => -(2 : Int) ^ (b - 1) ≤ v ∧ v < 2 ^ (b - 1)
  | false, some b => 0 ≤ v ∧ v < 2 ^ b

/-- **Range.**  `CheckIntegerLiteral` accepts exactly the values in the type's range. -/
theorem int_range_iff (t : IntTy) (v : Int) :
    checkIntegerRange v t.minInt t.maxInt = true ↔ InRange t v := by
  obtain ⟨signed, bits⟩ := t
  cases signed <;> cases bits <;>
    simp [checkIntegerRange, IntTy.minInt, IntTy.maxInt, InRange] <;> omega

/-- **Pipeline.**  A source text that lexes to one integer token and parses without a report is
    accepted with its (negated, under a prefix minus) value iff that value is in the type's range,
    and is a range error otherwise. -/
theorem int_accept_iff (neg : Bool) (src tok : List Char) (kind : Kind) (v : Nat) (t : IntTy)
    (hlex : lexNumber src = (tok, [], .int kind))
    (hparse : parseIntegerLiteral (literalText tok kind) kind = ([], v)) :
    let value : Int := if neg then -(v : Int) else v
    (InRange t value → integerLiteral neg src t = .ok value) ∧
    (¬ InRange t value → integerLiteral neg src t = .rangeErr) := by
  intro value
  have hr := int_range_iff t value
  unfold integerLiteral
  simp only [hlex, hparse]
  constructor
  · intro h
    have := hr.mpr h
    simp [value] at this ⊢
    simp [this]
  · intro h
    have : checkIntegerRange value t.minInt t.maxInt = false := by
      cases hc : checkIntegerRange value t.minInt t.maxInt
      · rfl
      · exact absurd (hr.mp hc) h
    simp [value] at this ⊢
    simp [this]

/-! ## Fixed-point literals -/

/-- a part of a fixed-point literal: value and number of digits, underscores ignored -/
theorem fix_part (part : List Char) (ds : List Nat)
    (hd : Digits 10 (removeUnderscores part) ds) (hne : removeUnderscores part ≠ []) :
    parseFixedPointPart part = (posValue 10 ds, ds.length) := by
  unfold parseFixedPointPart
  have hlen : (removeUnderscores part).length = ds.length := by
    have := congrArg List.length hd.1
    simpa using this
  have hz : ds.length ≠ 0 := by
    intro h; apply hne; apply List.eq_nil_of_length_eq_zero; omega
  simp [setString_value 10 _ ds hd hne, hlen, hz]

/-- sign factor of a literal -/
def sgn (negative : Bool) : Int := if negative then -1 else 1

/-- **Value.**  With at most `S` fractional digits the raw value at scale `S` is
    `±(int·10^S + frac·10^(S−scale))`, and it denotes `int + frac / 10^scale` exactly:
    `raw · 10^scale = ±(int·10^scale + frac) · 10^S`. -/
theorem fix_value (l : FixLit) (S : Nat) (h : l.scale ≤ S) :
    convertToFixedPoint l S = sgn l.negative * ((l.unsignedInteger : Int) * 10 ^ S + l.fractional * 10 ^ (S - l.scale)) ∧
    convertToFixedPoint l S * 10 ^ l.scale = sgn l.negative * (((l.unsignedInteger : Int) * 10 ^ l.scale + l.fractional) * 10 ^ S) := by
  have hpow : (10 : Int) ^ (S - l.scale) * 10 ^ l.scale = 10 ^ S := by
    rw [← Int.pow_add]; congr 1; omega
  have hv : convertToFixedPoint l S = sgn l.negative * ((l.unsignedInteger : Int) * 10 ^ S + l.fractional * 10 ^ (S - l.scale)) := by
    unfold convertToFixedPoint
    by_cases hlt : l.scale < S
    · simp only [hlt, if_true]
      cases l.negative <;> simp [sgn]
    · have heq : l.scale = S := by omega
      simp only [heq, Nat.lt_irrefl, if_false, Nat.sub_self, Int.pow_zero, Int.mul_one]
      cases l.negative <;> simp [sgn]
  refine ⟨hv, ?_⟩
  rw [hv, Int.mul_assoc]
  congr 1
  rw [Int.add_mul, Int.add_mul, Int.mul_assoc (l.fractional : Int), hpow, Int.mul_right_comm]

/-- **Rejection.**  A fixed-point literal (with `frac` written in `scale` digits) is accepted iff it
    has at most the type's number of fractional digits and its raw value is within the type's
    bounds; too many digits is a scale error, out of bounds is a range error.  An accepted value
    is constructed without wrap-around. -/
theorem fix_reject_iff (l : FixLit) (t : FixTy) (hf : l.fractional < 10 ^ l.scale) :
    (checkFixedPointLiteral l t = .ok () ↔
      l.scale ≤ t.scale ∧ t.minRaw ≤ convertToFixedPoint l t.scale ∧ convertToFixedPoint l t.scale ≤ t.maxRaw) ∧
    (t.scale < l.scale → checkFixedPointLiteral l t = .scaleErr) ∧
    (checkFixedPointLiteral l t = .ok () → wrapToType t (convertToFixedPoint l t.scale) = convertToFixedPoint l t.scale) := by
  by_cases hs : l.scale ≤ t.scale
  · have hsc := scaled_lt l.fractional l.scale t.scale hs hf
    have hv := (fix_value l t.scale hs).1
    have hng : ¬ (l.scale > t.scale) := by omega
    have hkey : checkFixedPointLiteral l t = .ok () ↔
        t.minRaw ≤ convertToFixedPoint l t.scale ∧ convertToFixedPoint l t.scale ≤ t.maxRaw := by
      have hcast : (l.fractional : Int) * 10 ^ (t.scale - l.scale)
          = ((l.fractional * 10 ^ (t.scale - l.scale) : Nat) : Int) := by
        simp [Int.natCast_mul, Int.natCast_pow]
      rw [hv, hcast]
      unfold checkFixedPointLiteral
      rw [if_neg hng, hsc.1]
      have hf' := hsc.2
      generalize l.fractional * 10 ^ (t.scale - l.scale) = f at hf' ⊢
      generalize l.unsignedInteger = ip
      generalize l.negative = ng
      cases t <;> cases ng <;>
        simp [checkRange, sgn, FixTy.scale, FixTy.minRaw, FixTy.maxRaw, FixTy.minInt, FixTy.maxInt,
          FixTy.minFractional, FixTy.maxFractional, FixTy.factor] at hf' ⊢ <;> omega
    refine ⟨by rw [hkey]; simp [hs], fun h => by omega, fun hok => ?_⟩
    have := hkey.mp hok
    cases t <;> simp [wrapToType, FixTy.minRaw, FixTy.maxRaw] at this ⊢ <;> omega
  · have hgt : l.scale > t.scale := by omega
    refine ⟨?_, fun _ => by simp [checkFixedPointLiteral, hgt], ?_⟩ <;>
      simp [checkFixedPointLiteral, hgt, hs]

/-! ## String literals -/

/-- characters other than the backslash denote themselves -/
theorem string_plain (rs : List Nat) (h : ∀ r ∈ rs, r ≠ 92) : stringLiteralContent rs = (rs, false) := by
  unfold stringLiteralContent
  rw [parseString_plain _ rs [] false (Nat.lt_succ_self _) h]
  simp

/-- the simple escapes decode to the intended code points (`\0 \n \r \t \" \' \\`) -/
theorem string_simple_escapes :
    stringLiteralContent [92, 48] = ([0], false) ∧ stringLiteralContent [92, 110] = ([10], false) ∧
    stringLiteralContent [92, 114] = ([13], false) ∧ stringLiteralContent [92, 116] = ([9], false) ∧
    stringLiteralContent [92, 34] = ([34], false) ∧ stringLiteralContent [92, 39] = ([39], false) ∧
    stringLiteralContent [92, 92] = ([92], false) := by decide

/-- every other character after a backslash is an error -/
theorem string_invalid_escape (e : Nat) (h : e ∉ [48, 110, 114, 116, 34, 39, 92, 117]) :
    (stringLiteralContent [92, e]).2 = true := by
  simp only [List.mem_cons, List.not_mem_nil, or_false, not_or] at h
  obtain ⟨h1, h2, h3, h4, h5, h6, h7, h8⟩ := h
  simp [stringLiteralContent, parseStringContent, h1, h2, h3, h4, h5, h6, h7, h8]

/-- Unicode escapes — instances only (`_partial`: the general statement "for every scalar value `v`
    and every hex spelling of `v` with 1–8 digits, `\u{…}` decodes to `[v]`; a non-scalar value is
    an error" is not proved; the `lit` stream samples it). -/
theorem string_unicode_escape_partial :
    stringLiteralContent ("\\u{41}".toList.map Char.toNat) = ([0x41], false) ∧
    stringLiteralContent ("\\u{1F600}".toList.map Char.toNat) = ([0x1F600], false) ∧
    stringLiteralContent ("\\u{0010ffff}".toList.map Char.toNat) = ([0x10FFFF], false) ∧
    stringLiteralContent ("a\\u{e9}b".toList.map Char.toNat) = ([97, 0xe9, 98], false) ∧
    (stringLiteralContent ("\\u{D800}".toList.map Char.toNat)).2 = true ∧
    (stringLiteralContent ("\\u{110000}".toList.map Char.toNat)).2 = true ∧
    (stringLiteralContent ("\\u{FFFFFFFF}".toList.map Char.toNat)).2 = true ∧
    (stringLiteralContent ("\\u{12".toList.map Char.toNat)).2 = true ∧
    (stringLiteralContent ("\\u{zz}".toList.map Char.toNat)).2 = true ∧
    stringLiteralContent ("\\u{}".toList.map Char.toNat) = ([], false) := by decide

/-! Non-vacuity -/
example : integerLiteral false "0b1_01".toList ⟨false, some 8⟩ = .ok 5 := by decide
example : integerLiteral true "0x80".toList ⟨true, some 8⟩ = .ok (-128) := by decide
example : integerLiteral false "0x80".toList ⟨true, some 8⟩ = .rangeErr := by decide
example : integerLiteral false "0o_7".toList ⟨true, none⟩ = .parseErr [.lead] false := by decide
example : Digits 2 (removeUnderscores "1_01".toList) [1, 0, 1] ∧ posValue 2 [1, 0, 1] = 5 := by
  unfold Digits; decide
example : fixedLiteral false "92233720368.6".toList .fix64 = .rangeErr := by decide
example : fixedLiteral false "92233720368.54775807".toList .fix64 = .ok 9223372036854775807 := by decide
example : fixedLiteral true "0.0".toList .ufix64 = .ok 0 := by decide
example : fixedLiteral false "1.000000001".toList .ufix64 = .scaleErr := by decide

end Verif.Properties.C40
