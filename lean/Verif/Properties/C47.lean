/-
C47 — revertibleRandom is bounded and exactly uniform.

Model: Verif.Model.Random (port of stdlib/random.go as a function of the host's random byte stream).
"Uniformly random source bytes" is the uniform measure on byte strings of a given length, i.e.
counting over `allBytes n`; all probability statements are exact counting statements.
Only statements and their final proofs live here; lemmas are in Verif.Proofs.Random.
-/
import Verif.Proofs.Random
import Verif.Proofs.RandomUniform
namespace Verif.Properties.C47
open Verif.Model.Random Verif.Proofs.Random

/-- `modulo` is a value of type `ty` -/
def InType (ty : Ty) (m : Nat) : Prop := m < 2 ^ (8 * ty.byteSize)

/-- Every returned value is below the modulo — for every type, modulo and source stream. -/
theorem bounded (ty : Ty) (m : Nat) (src : Bytes) (v d s : Nat)
    (h : revertibleRandom ty (some m) src = .ok v d s) : v < m := by
  unfold revertibleRandom at h
  simp only at h
  split at h
  · cases h
  · split at h
    · cases h
    · split at h
      · cases h
      · have := sample_bounded _ _ _ _ _ _ _ _ _ h
        omega

/-- A zero modulo is a user error (`ZeroModuloError`), whatever the source. -/
theorem zero_modulo (ty : Ty) (src : Bytes) : revertibleRandom ty (some 0) src = .zeroModulo := by
  simp [revertibleRandom]

/-- For a non-zero modulo of the type, the call returns a value or stops because the host's source
    failed; the Go code never panics on a slice bound and its loops cannot spin without consuming
    source bytes. -/
theorem total (ty : Ty) (m : Nat) (hm : 0 < m) (ht : InType ty m) (src : Bytes) :
    (∃ v d s, revertibleRandom ty (some m) src = .ok v d s) ∨
    (∃ d, revertibleRandom ty (some m) src = .exhausted d) := by
  have hmax : m - 1 < 2 ^ (8 * ty.byteSize) := Nat.lt_of_le_of_lt (Nat.sub_le _ _) ht
  unfold revertibleRandom
  simp only [params_eq ty (m - 1) hmax, if_neg (Nat.ne_of_gt hm),
    if_neg (Nat.not_lt.mpr (byteSize_le ty (m - 1) hmax))]
  have hnd := sample_no_diverge ((bitLen (m - 1) + 7) >>> 3) (2 ^ bitLen (m - 1) - 1) (m - 1)
    (src.length + 1) src 0 (Nat.lt_succ_self _)
  generalize hs : sample _ _ _ _ src 0 = o at hnd
  cases o with
  | ok v d s => exact .inl ⟨v, d, s, rfl⟩
  | exhausted d => exact .inr ⟨d, rfl⟩
  | diverge => exact absurd rfl hnd
  | zeroModulo => exact absurd hs (sample_never_special _ _ _ _ _ _).1
  | goPanic => exact absurd hs (sample_never_special _ _ _ _ _ _).2

/-- Without a modulo the result is the big-endian value of the first `byteSize(T)` source bytes … -/
theorem no_modulo (ty : Ty) (src : Bytes) (h : ty.byteSize ≤ src.length) :
    revertibleRandom ty none src = .ok (beNat (src.take ty.byteSize)) 1 ty.byteSize := by
  simp [revertibleRandom, readRandom, h]

/-- … and that map is a bijection from the `byteSize(T)`-byte draws onto `[0, 2^bits(T))`: listing
    the results over all draws gives every value of `T` exactly once (uniform over `T`). -/
theorem no_modulo_uniform (ty : Ty) :
    (allBytes ty.byteSize).map (fun bs => revertibleRandom ty none bs)
      = (List.range (2 ^ (8 * ty.byteSize))).map (fun v => Out.ok v 1 ty.byteSize) := by
  have h256 : (2 : Nat) ^ (8 * ty.byteSize) = 256 ^ ty.byteSize := by rw [Nat.pow_mul]
  rw [h256, ← map_beNat_allBytes, List.map_map]
  apply List.map_congr_left
  intro bs hbs
  have hl := length_of_mem_allBytes hbs
  rw [no_modulo ty bs (by omega)]
  simp [← hl]

/-- **Exact uniformity of one draw.**  For every modulo `0 < m` of the type, with the mask, bit size
    and byte size the Go code computes:
    * the bit size is the bit length of `m − 1` (so `m ≤ 2^bitSize < 2m`: a draw is accepted with
      probability > 1/2), the drawn bytes cover the mask, and the draw fits the type's buffer;
    * the map from a draw (`byteSize` bytes) to its masked candidate is `2^(8·byteSize − bitSize)`-to-one
      onto `[0, 2^bitSize)`;
    * hence every value `v < m` is returned at the first draw for exactly `2^(8·byteSize − bitSize)`
      of the `256^byteSize` possible draws — the same number for every `v`: no modulo bias. -/
theorem uniform (ty : Ty) (m : Nat) (hm : 0 < m) (ht : InType ty m) :
    ∃ mask bitSize byteSize,
      params ty (m - 1) = some (mask, bitSize, byteSize) ∧
      m ≤ 2 ^ bitSize ∧ 2 ^ bitSize < 2 * m ∧ bitSize ≤ 8 * byteSize ∧ byteSize ≤ ty.byteSize ∧
      (∀ v, v < 2 ^ bitSize →
        (allBytes byteSize).countP (fun bs => candidate mask bs = v) = 2 ^ (8 * byteSize - bitSize)) ∧
      (∀ v, v < m →
        (allBytes byteSize).countP (fun bs => revertibleRandom ty (some m) bs = .ok v 1 byteSize)
          = 2 ^ (8 * byteSize - bitSize)) := by
  have hmax : m - 1 < 2 ^ (8 * ty.byteSize) := Nat.lt_of_le_of_lt (Nat.sub_le _ _) ht
  have hlt := lt_two_pow_bitLen (m - 1)
  have hk := byteSize_bound (bitLen (m - 1))
  have hbs := byteSize_le ty (m - 1) hmax
  refine ⟨_, _, _, params_eq ty (m - 1) hmax, by omega, two_pow_bitLen_lt m hm, hk, hbs, ?_, ?_⟩
  · intro v hv
    exact count_candidates _ _ _ hk hv
  · intro v hv
    rw [← count_candidates _ _ v hk (by omega)]
    apply List.countP_congr
    intro bs hbs'
    have hl := length_of_mem_allBytes hbs'
    unfold revertibleRandom
    simp only [params_eq ty (m - 1) hmax, if_neg (Nat.ne_of_gt hm), if_neg (Nat.not_lt.mpr hbs)]
    simp only [decide_eq_true_eq]
    exact sample_single _ _ _ _ bs hl v (by omega)

/-- **Retry.**  When the first draw is rejected, the call behaves exactly as a fresh call on the rest
    of the stream (one more `ReadRandom` call counted): rejected draws carry no information into the
    result, so conditional on acceptance the result has the distribution of `uniform`. -/
theorem retry (ty : Ty) (m : Nat) (hm : 0 < m) (ht : InType ty m) (bs rest : Bytes)
    (mask bitSize byteSize : Nat) (hp : params ty (m - 1) = some (mask, bitSize, byteSize))
    (hl : bs.length = byteSize) (hrej : m ≤ candidate mask bs) :
    revertibleRandom ty (some m) (bs ++ rest) = (revertibleRandom ty (some m) rest).bump := by
  have hmax : m - 1 < 2 ^ (8 * ty.byteSize) := Nat.lt_of_le_of_lt (Nat.sub_le _ _) ht
  have hbs := byteSize_le ty (m - 1) hmax
  have hp' := params_eq ty (m - 1) hmax
  rw [hp] at hp'
  cases hp'
  unfold revertibleRandom
  simp only [params_eq ty (m - 1) hmax, if_neg (Nat.ne_of_gt hm), if_neg (Nat.not_lt.mpr hbs)]
  exact sample_reject _ _ _ bs rest hl (by omega)

/-- **Exact uniformity, all draws.**  For every modulo `0 < m` of the type and every source length
    `L`: among the `256^L` equally likely sources of length `L`, any two values `v, w < m` are returned
    by exactly the same number of sources (the remaining sources end with the host's source
    exhausted).  So with uniformly random source bytes every value below `m` is equally likely,
    whatever the number of rejected draws — no modulo bias. -/
theorem uniform_all_draws (ty : Ty) (m : Nat) (hm : 0 < m) (ht : InType ty m) (L v w : Nat)
    (hv : v < m) (hw : w < m) :
    (allBytes L).countP (fun src => Out.value (revertibleRandom ty (some m) src) == some v)
      = (allBytes L).countP (fun src => Out.value (revertibleRandom ty (some m) src) == some w) := by
  have hmax : m - 1 < 2 ^ (8 * ty.byteSize) := Nat.lt_of_le_of_lt (Nat.sub_le _ _) ht
  have hbs := byteSize_le ty (m - 1) hmax
  have hrr : ∀ src, revertibleRandom ty (some m) src
      = rr ((bitLen (m - 1) + 7) >>> 3) (2 ^ bitLen (m - 1) - 1) (m - 1) src := by
    intro src
    unfold revertibleRandom rr
    simp only [params_eq ty (m - 1) hmax, if_neg (Nat.ne_of_gt hm), if_neg (Nat.not_lt.mpr hbs)]
  simp only [hrr]
  exact hits_eq _ _ _ (byteSize_bound _) (lt_two_pow_bitLen _) v w (by omega) (by omega) L

/-! Non-vacuity and concrete instances (the mask removes the high bits; 3 is rejected for modulo 3). -/
example : revertibleRandom .u8 (some 3) [0xfe, 0x07, 0x01] = .ok 2 1 1 := by decide
example : revertibleRandom .u8 (some 3) [0xff, 0x07, 0x01] = .ok 1 3 1 := by decide
example : revertibleRandom .u16 (some 257) [0xff, 0xff, 0x01, 0x00] = .ok 256 2 2 := by decide
example : revertibleRandom .u64 (some 1) [] = .ok 0 1 0 := by decide
example : revertibleRandom .u16 none [0x12, 0x34, 0x56] = .ok 0x1234 1 2 := by decide
example : InType .u8 3 ∧ 0 < 3 := by unfold InType; decide
example : params .u8 2 = some (3, 2, 1) ∧ 3 ≤ candidate 3 [0xff] := by decide

end Verif.Properties.C47
