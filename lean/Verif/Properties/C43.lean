/-
C43 — JSON-Cadence and CCF decode to the same value.

Corollary of C41 and C42 on the shared external algebra (Verif.Model.Codec.CValue): the JSON-Cadence
decoder returns `erase v` (what JSON does not carry is dropped), the CCF decoder returns `eraseV v`
(what CCF does not carry is dropped, dictionaries in key order); the statements here say that the two
results agree after `erase`, and that CCF's erasure keeps every type ID.
Tie: stream `xcodec` (each generated value through both Go codecs; harness-side structural comparer and
`Type().ID()`), Drv/Xcodec.lean.  Lemmas: Verif.Proofs.Codec.Xcodec.
-/
import Verif.Proofs.Codec.Xcodec
import Verif.Proofs.Codec.Json
import Verif.Proofs.Codec.CcfRt
namespace Verif.Properties.C43
open Verif.Model.Codec Verif.Model.Codec.Ccf Verif.Proofs.Codec.Xcodec

/-- What CCF drops is dropped by JSON-Cadence too: erasing the CCF-decoded value gives the erased
original, for every value whose composite values have composite types and whose capability borrow
types are carried completely by CCF (`ValueOk`). -/
theorem json_erasure_absorbs_ccf_erasure (v : CValue) (h : ValueOk v) : erase (eraseV v) = erase v :=
  erase_eraseV v h

/-- The type of the CCF-decoded value has the type ID of the original type: CCF's erasure (initializers,
raw / base types, interface members of the types of values) never changes a type ID. -/
theorem ccf_erasure_keeps_type_ids (t : CType) : (eraseT t).id = t.id := eraseT_id t

/-- `agree`, conditional form: if on `v` the JSON-Cadence decoder returns the erased value (C41
`roundtrip`) and the CCF decoder returns the CCF-erased value (C42 `roundtrip`), then the two decoded
values are equal after erasure and the type of the CCF-decoded value has the type ID of `v`'s type. -/
theorem agree_partial (v : CValue) (h : ValueOk v) (dJ dC : CValue) (tC : CType)
    (hJ : decode (prepare v) = .ok dJ → dJ = erase v) (hJok : decode (prepare v) = .ok dJ)
    (hC : dC = eraseV v) (hT : tC = eraseT v.typeOf) :
    erase dC = dJ ∧ tC.id = v.typeOf.id := by
  subst hC hT
  rw [hJ hJok]
  exact ⟨erase_eraseV v h, eraseT_id _⟩

/-- `agree`, unconditional on the JSON side for the values of C41 `roundtrip_partial` (scalars,
optionals, arrays, dictionaries, ranges, composite values): the JSON decoder's result is the erasure of
what the CCF round trip yields (`eraseV v`). -/
theorem agree_json_side (v : CValue) (h : Verif.Proofs.Codec.Json.plainOk v = true) (hv : ValueOk v) :
    decode (prepare v) = .ok (erase (eraseV v)) := by
  rw [erase_eraseV v hv]
  exact Verif.Proofs.Codec.Json.rt_plain v h

example : ValueOk (.arr (.varr (.prim "Int")) (.cons (.int "Int" 1) (.cons (.cap 1 [0,0,0,0,0,0,0,1] (.ref .unauth (.prim "Int"))) .nil))) := by
  simp [ValueOk, ValuesOk, eraseT]

example : (eraseT (.comp .enum "S.test.E" (.prim "UInt8") (.cons "rawValue" (.prim "UInt8") .nil) .nil)).id = "S.test.E" :=
  ccf_erasure_keeps_type_ids _

/-- `agree`, unconditional on the subset where both round trips are proved (C41 `roundtrip_partial` and
C42 `roundtrip_partial`: scalars, optionals, arrays, dictionaries, ranges, capabilities with complete
static types, no composite types): both decoders succeed, the CCF-decoded value is the value with its
dictionaries in key order and has the type ID of `v`'s type, the JSON-decoded value is `erase v`; when
no dictionary is reordered (`canonV v = v`) the two decoded values are equal after erasure.  Missing:
equality after erasure *as sets of entries* when a dictionary is reordered (then the CCF side is a
permutation of the entries: C42 `roundtrip_dictionary_is_permutation`), and the fuel of `decodeMsg`. -/
theorem agree_on_proved_subset_partial (m : Mode) (dm : Verif.Model.Codec.CcfDecode.DMode) (v : CValue)
    (hf : Verif.Model.Codec.CcfDecode.Rt.Fits v v.typeOf) (hc : collect v = [])
    (hp : Verif.Proofs.Codec.Json.plainOk v = true) :
    ∃ x dC, encodeItem m v = .ok x ∧
      (∀ fuel, Verif.Model.Codec.CcfDecode.Rt.vdepth v < fuel → Verif.Model.Codec.CcfDecode.decodeMsgF dm fuel x = .ok dC) ∧
      decode (prepare v) = .ok (erase v) ∧
      dC = Verif.Model.Codec.CcfDecode.Rt.canonV m [] v ∧ dC.typeOf.id = v.typeOf.id ∧
      (Verif.Model.Codec.CcfDecode.Rt.canonV m [] v = v → erase dC = erase v) := by
  obtain ⟨x, hx, hd⟩ := Verif.Model.Codec.CcfDecode.Rt.rt_msg m dm v hf hc
  refine ⟨x, _, hx, hd, Verif.Proofs.Codec.Json.rt_plain v hp, rfl, ?_, fun h => by rw [h]⟩
  rw [Verif.Model.Codec.CcfDecode.Rt.canonV_typeOf]

/-
Full statement (DESIGN §6 C43 `agree`): for every v with complete type information,
  erase (decodeCcf (encodeCcf v)) = decodeJson (prepare v)   (dictionaries as sets)
and equal type IDs.  Missing: the round trips of C41 and C42 beyond their proved subsets (composite values on the CCF side,
embedded composite types on the JSON side), and equality of reordered dictionaries as sets; the borrow types of capability values are compared by type ID (CCF carries them as
inline types; Go's Type.Equal identifies composite types by their ID).  The JSON-decoded value has no
type at all for arrays, dictionaries (Go nil type), so "equal type IDs" is checked where both exist.
-/

end Verif.Properties.C43
