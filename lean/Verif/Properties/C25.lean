import Verif.Proofs.Caps
/-!
# C25 — capabilities, publishing and inbox follow the controller model

Theorems about `Verif.Model.Caps`: the concrete layer mirrors the storage layout of `stdlib/account.go`
(controllers by id, path → id-set index, id counter, published map, inbox); the abstract layer is the set
of live controllers.  `Inv` (Proofs/Caps) is the refinement relation between the two.

Full-strength statement of the refinement, not yet proved in this generality:
  index_consistent : ∀ hist a, Inv ((runHist init hist).1 a)
Proved below: `Inv` holds initially and is preserved by `issue` and `delete`, which under `Inv` never
reach one of the `unreachable` panics of the Go code (`_partial`: the same for `retarget` — unrecord
followed by record — and the lifting over the remaining operations and over histories are missing).
-/
namespace Verif.Properties.C25
open Verif.Model.Caps Verif.Proofs.Caps

/-- Issued ids are fresh: `issue` succeeds, returns the counter + 1, which is larger than the id of
every live controller, and advances the counter (so the id is never handed out again). -/
theorem ids_fresh (s : State) (a p : Nat) (ty : T) (h : Inv (s a)) :
    ∃ s', step s (.issue a p ty) = .ok (s', .id ((s a).nextId + 1)) ∧
      (s' a).nextId = (s a).nextId + 1 ∧
      (∀ id c, assocFind id (s a).live = some c → id < (s a).nextId + 1) ∧
      Inv (s' a) := by
  obtain ⟨hnone, index', hr, hinv⟩ := issue_inv (s a) h p ty
  refine ⟨s.set a ⟨((s a).nextId + 1, ⟨ty, p, ""⟩) :: (s a).ctrls, index', (s a).nextId + 1,
      (s a).published, (s a).inbox, (s a).storage⟩, ?_, ?_, ?_, ?_⟩
  · simp only [step, hnone, hr]
  · simp [State.set]
  · intro id c hf
    have := h.idsLe id c hf
    omega
  · simpa [State.set] using hinv

/-- The path index enumerates exactly the live controllers targeting the path, without repetition —
initially, after `issue` and after `delete` (which never reach an `unreachable` branch). -/
theorem index_consistent_partial :
    Inv {} ∧
    (∀ (s : State) (a p : Nat) (ty : T), Inv (s a) →
      ∃ s' o, step s (.issue a p ty) = .ok (s', o) ∧ Inv (s' a)) ∧
    (∀ (s : State) (a id : Nat), Inv (s a) →
      ∃ s' o, step s (.delete a id) = .ok (s', o) ∧ Inv (s' a)) := by
  refine ⟨inv_init, ?_, ?_⟩
  · intro s a p ty h
    obtain ⟨s', h1, _, _, h4⟩ := ids_fresh s a p ty h
    exact ⟨s', _, h1, h4⟩
  · intro s a id h
    cases hc : assocFind id (s a).ctrls with
    | none => exact ⟨s, .nil, by simp [step, hc], h⟩
    | some c =>
      obtain ⟨i1, hu, hinv⟩ := delete_inv (s a) h id c hc
      refine ⟨s.set a ⟨assocErase id (s a).ctrls, i1, (s a).nextId, (s a).published, (s a).inbox,
        (s a).storage⟩, .done, ?_, ?_⟩
      · simp only [step, hc, hu]
      · simpa [State.set] using hinv

/-- What `Inv` says: `getControllers(forPath: p)` / `forEachController` report exactly the live
controllers whose target is `p`, each once. -/
theorem getControllers_exact (s : State) (a p : Nat) (h : Inv (s a)) :
    step s (.getControllers a p) = .ok (s, .ids ((s a).idsAt p)) ∧
    (∀ id, id ∈ (s a).idsAt p ↔ ∃ c, assocFind id (s a).live = some c ∧ c.target = p) ∧
    ((s a).idsAt p).Nodup := by
  refine ⟨?_, h.consistent p, h.nodup p⟩
  have : ((s a).idsAt p).all (fun id => (assocFind id (s a).ctrls).isSome) = true := by
    rw [List.all_eq_true]
    intro id hid
    obtain ⟨c, hc, _⟩ := (h.consistent p id).1 hid
    simp [hc]
  simp [step, this]

/-- `capabilities.get` only ever returns a capability that is currently published at that path, whose
controller is live and whose type is related to the wanted type. -/
theorem get_published_only (s : State) (a q : Nat) (w : T) (s' : State) (id : Nat) (ck : Bool)
    (h : step s (.get a q w) = .ok (s', .got id ck)) (hid : id ≠ 0) :
    ∃ cap c, assocFind q (s a).published = some cap ∧ cap.id = id ∧ assocFind id (s a).live = some c ∧
      canBorrow w cap.ty = true ∧ canBorrow w c.ty = true := by
  simp only [step] at h
  split at h
  · simp at h; exact absurd h.2.1.symm hid
  · rename_i cap hcap
    split at h
    · simp at h; exact absurd h.2.1.symm hid
    · rename_i c v hres
      simp at h
      unfold resolve at hres
      split at hres
      · simp at hres
      · rename_i hcb
        split at hres
        · simp at hres
        · rename_i c' hc'
          split at hres
          · simp at hres
          · rename_i hcb2
            simp at hres
            refine ⟨cap, c', hcap, h.2.1, ?_, by simpa using hcb, by simpa using hcb2⟩
            rw [← h.2.1]; exact hc'

/-- `capabilities.borrow<&w>` yields a reference to the stored value whenever a capability is published
at the path, its controller is live, `w` is related to the capability's and the controller's borrow type,
and the target path stores a value whose type is a subtype of `w`.
Partial: the converse direction (a reference is obtained only then) is the definition of `step` /
`resolve` but is not stated as a theorem here. -/
theorem borrow_if_partial (s : State) (a q : Nat) (w : T) (v : T × Int) (cap : Cap) (c : Ctrl)
    (hq : assocFind q (s a).published = some cap) (hc : assocFind cap.id (s a).live = some c)
    (h1 : canBorrow w cap.ty = true) (h2 : canBorrow w c.ty = true)
    (hv : assocFind c.target (s a).storage = some v) (h3 : sub v.1 w = true) :
    step s (.borrow a q w) = .ok (s, .ref (some v)) := by
  simp only [Acct.live] at hc
  simp [step, resolve, checkOk, hq, hc, h1, h2, hv, h3]

/-- A deleted (or never issued) controller makes the published capability unusable. -/
theorem borrow_dead_controller (s : State) (a q : Nat) (w : T) (cap : Cap)
    (hq : assocFind q (s a).published = some cap) (hc : assocFind cap.id (s a).live = none) :
    step s (.borrow a q w) = .ok (s, .ref none) ∧ step s (.get a q w) = .ok (s, .got 0 false) := by
  simp only [Acct.live] at hc
  by_cases h1 : canBorrow w cap.ty = true <;> simp [step, resolve, hq, hc, h1]

/-- An inbox claim returns only a capability that this provider published under this name for this
claimer (and whose type fits), and removes it: a second claim of the same name returns nothing. -/
theorem inbox_claim (s s' : State) (a : Nat) (name : String) (provider : Nat) (w : T) (id : Nat)
    (h : step s (.inboxClaim a name provider w) = .ok (s', .optId (some id))) :
    (∃ cap, assocFind name (s provider).inbox = some (a, cap) ∧ cap.id = id ∧ sub cap.ty w = true) ∧
    ∀ w', step s' (.inboxClaim a name provider w') = .ok (s', .optId none) := by
  simp only [step] at h
  split at h
  · simp at h
  · rename_i recipient cap hf
    split at h
    · simp at h
    · rename_i hr
      split at h
      · simp at h
      · rename_i hs
        simp at h
        obtain ⟨h1, h2⟩ := h
        simp at hr hs
        subst hr
        refine ⟨⟨cap, hf, h2, hs⟩, fun w' => ?_⟩
        subst h1
        simp [step, State.set, find_erase_self]

/-! ### non-vacuity -/

private def demo : List (List Op) :=
  [[.save 0 1 .s 7, .issue 0 1 .s, .publish 0 1 0, .inboxPublish 0 1 "x" 1],
   [.borrow 0 0 .any, .get 0 0 .s2, .inboxClaim 1 "x" 0 .any, .inboxClaim 1 "x" 0 .any, .getControllers 0 1],
   [.delete 0 1, .getControllers 0 1, .borrow 0 0 .s]]

example : (runHist init demo).2 =
    [⟨[.done, .id 1, .done, .done], none⟩,
     ⟨[.ref (some (.s, 7)), .got 0 false, .optId (some 1), .optId none, .ids [1]], none⟩,
     ⟨[.done, .ids [], .ref none], none⟩] := by decide

end Verif.Properties.C25
