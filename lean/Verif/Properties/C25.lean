import Verif.Proofs.Caps
/-!
# C25 — capabilities, publishing and inbox follow the controller model

Theorems about `Verif.Model.Caps`: the concrete layer mirrors the storage layout of `stdlib/account.go`
(controllers by id, path → id-set index, id counter, published map, inbox); the abstract layer is the set
of live controllers.  `Inv` (Proofs/Caps) is the refinement relation between the two.

`index_consistent`: the refinement holds in every account after every history of all operations
(grouped into transactions, with aborts), and no history reaches one of the `unreachable` panics of the
Go code.  `borrow_iff`: both directions of the borrow rule.
-/
namespace Verif.Properties.C25
open Verif.Model.Caps Verif.Proofs.Caps

/-- Issued ids are fresh: `issue` succeeds, returns the counter + 1, which is larger than the id of
every live controller, and advances the counter (so the id is never handed out again). -/
theorem ids_fresh (s : State) (a p : Nat) (ty : T) (h : Inv (s a)) :
    ∃ s', step s (.issue a p ty) = .ok (s', .id ((s a).nextId + 1)) ∧
      (s' a).nextId = (s a).nextId + 1 ∧
      (∀ id c, assocFind id (s a).live = some c → id < (s a).nextId + 1) ∧
      Inv (s' a) := by
  obtain ⟨hnone, index', hr, hinv⟩ := issue_inv (s a) h p ty
  refine ⟨s.set a ⟨((s a).nextId + 1, ⟨ty, p, ""⟩) :: (s a).ctrls, index', (s a).nextId + 1,
      (s a).published, (s a).inbox, (s a).storage⟩, ?_, ?_, ?_, ?_⟩
  · simp only [step, hnone, hr]
  · simp [State.set]
  · intro id c hf
    have := h.idsLe id c hf
    omega
  · simpa [State.set] using hinv

/-- Every single operation (issue, retarget, delete, setTag, the queries, publish / unpublish / get /
borrow, the inbox operations, save / load) keeps the refinement — the path index lists exactly the live
controllers targeting the path, each once, and all ids are at most the counter — in every account, and
never reaches one of the `unreachable` branches of the Go code. -/
theorem index_consistent_step (s : State) (h : ∀ a, Inv (s a)) (op : Op) :
    step s op ≠ .abort .internal ∧ ∀ s' o, step s op = .ok (s', o) → ∀ a, Inv (s' a) :=
  step_inv s h op

/-- `retarget` = unrecord at the old target + record at the new one: succeeds under the refinement
(neither `unreachable` branch is taken), the controller now targets `p`, and it is listed for `p` and no
longer for its old target (unless that is `p`). -/
theorem retarget_consistent (s : State) (a id p : Nat) (c : Ctrl) (h : Inv (s a))
    (hc : assocFind id (s a).live = some c) :
    ∃ s', step s (.retarget a id p) = .ok (s', .done) ∧ Inv (s' a) ∧
      assocFind id (s' a).live = some { c with target := p } ∧ id ∈ (s' a).idsAt p ∧
      (c.target ≠ p → id ∉ (s' a).idsAt c.target) := by
  simp only [Acct.live] at hc
  obtain ⟨i1, i2, hu, hr, hinv⟩ := retarget_inv (s a) h id p c hc
  refine ⟨s.set a { (s a) with ctrls := assocSet id { c with target := p } (s a).ctrls, index := i2 }, ?_, ?_, ?_, ?_, ?_⟩
  · simp only [step, hc, hu, hr]
  · simpa [State.set] using hinv
  · simp [State.set, Acct.live, find_set_self]
  · have := (hinv.consistent p id).2 ⟨_, find_set_self _ _ _, rfl⟩
    simpa [State.set] using this
  · intro hne hm
    have hm' : id ∈ Acct.idsAt { (s a) with ctrls := assocSet id { c with target := p } (s a).ctrls, index := i2 } c.target := by
      simpa [State.set] using hm
    obtain ⟨c', hc', ht⟩ := (hinv.consistent c.target id).1 hm'
    rw [find_set_self] at hc'
    cases hc'
    exact hne ht.symm

/-- **Index consistency for all histories**: after any sequence of transactions over all operations
(a transaction that aborts is rolled back), in every account the path index enumerates exactly the live
controllers per target path, each once; and no transaction ends in an `unreachable` (internal) abort. -/
theorem index_consistent (hist : List (List Op)) :
    (∀ a, Inv ((runHist init hist).1 a)) ∧
    (∀ a p id, id ∈ ((runHist init hist).1 a).idsAt p ↔
        ∃ c, assocFind id ((runHist init hist).1 a).live = some c ∧ c.target = p) ∧
    (∀ a p, (((runHist init hist).1 a).idsAt p).Nodup) ∧
    ∀ o ∈ (runHist init hist).2, o.outcome ≠ some .internal := by
  obtain ⟨h1, h2⟩ := runHist_inv hist init sinv_init
  exact ⟨h1, fun a p id => (h1 a).consistent p id, fun a p => (h1 a).nodup p, h2⟩

/-- Issued ids are never reused over a whole history: every live controller's id is at most the
account's counter, and `issue` hands out counter + 1. -/
theorem ids_fresh_hist (hist : List (List Op)) (a id : Nat) (c : Ctrl)
    (h : assocFind id ((runHist init hist).1 a).live = some c) : id ≤ ((runHist init hist).1 a).nextId :=
  ((runHist_inv hist init sinv_init).1 a).idsLe id c h

/-- What `Inv` says: `getControllers(forPath: p)` / `forEachController` report exactly the live
controllers whose target is `p`, each once. -/
theorem getControllers_exact (s : State) (a p : Nat) (h : Inv (s a)) :
    step s (.getControllers a p) = .ok (s, .ids ((s a).idsAt p)) ∧
    (∀ id, id ∈ (s a).idsAt p ↔ ∃ c, assocFind id (s a).live = some c ∧ c.target = p) ∧
    ((s a).idsAt p).Nodup := by
  refine ⟨?_, h.consistent p, h.nodup p⟩
  have : ((s a).idsAt p).all (fun id => (assocFind id (s a).ctrls).isSome) = true := by
    rw [List.all_eq_true]
    intro id hid
    obtain ⟨c, hc, _⟩ := (h.consistent p id).1 hid
    simp [hc]
  simp [step, this]

/-- `capabilities.get` only ever returns a capability that is currently published at that path, whose
controller is live and whose type is related to the wanted type. -/
theorem get_published_only (s : State) (a q : Nat) (w : T) (s' : State) (id : Nat) (ck : Bool)
    (h : step s (.get a q w) = .ok (s', .got id ck)) (hid : id ≠ 0) :
    ∃ cap c, assocFind q (s a).published = some cap ∧ cap.id = id ∧ assocFind id (s a).live = some c ∧
      canBorrow w cap.ty = true ∧ canBorrow w c.ty = true := by
  simp only [step] at h
  split at h
  · simp at h; exact absurd h.2.1.symm hid
  · rename_i cap hcap
    split at h
    · simp at h; exact absurd h.2.1.symm hid
    · rename_i c v hres
      simp at h
      unfold resolve at hres
      split at hres
      · simp at hres
      · rename_i hcb
        split at hres
        · simp at hres
        · rename_i c' hc'
          split at hres
          · simp at hres
          · rename_i hcb2
            simp at hres
            refine ⟨cap, c', hcap, h.2.1, ?_, by simpa using hcb, by simpa using hcb2⟩
            rw [← h.2.1]; exact hc'

/-- **Borrow rule, both directions**: `capabilities.borrow<&w>` at a public path yields a reference to
the value `v` exactly when a capability is published at the path, its controller is live, `w` is related
(sub- or supertype) to the capability's and to the controller's borrow type, the controller's target path
stores `v`, and the type of `v` is a subtype of `w`.  The state is unchanged either way.
(No authorizations in the stream's type universe: `CanBorrow`'s `PermitsAccess` part is trivially true.) -/
theorem borrow_iff (s : State) (a q : Nat) (w : T) (v : T × Int) :
    step s (.borrow a q w) = .ok (s, .ref (some v)) ↔
      ∃ cap c, assocFind q (s a).published = some cap ∧ assocFind cap.id (s a).live = some c ∧
        canBorrow w cap.ty = true ∧ canBorrow w c.ty = true ∧
        assocFind c.target (s a).storage = some v ∧ sub v.1 w = true := by
  constructor
  · intro h
    simp only [step] at h
    split at h
    · simp at h
    · rename_i cap hcap
      split at h
      · simp at h
      · rename_i c v' hres
        simp only [Res.ok.injEq, Prod.mk.injEq, Obs.ref.injEq, true_and] at h
        unfold resolve at hres
        split at hres
        · simp at hres
        · rename_i hcb
          split at hres
          · simp at hres
          · rename_i c' hc'
            split at hres
            · simp at hres
            · rename_i hcb2
              simp only [Option.some.injEq, Prod.mk.injEq] at hres
              obtain ⟨hcc, hv'⟩ := hres
              subst hcc
              split at h
              · rename_i hck
                subst h
                rw [← hv'] at hck
                refine ⟨cap, c', hcap, hc', by simpa using hcb, by simpa using hcb2, hv'.symm ▸ rfl, ?_⟩
                · cases hst : assocFind c'.target (s a).storage with
                  | none => rw [hst] at hv'; cases hv'
                  | some v0 =>
                    rw [hst] at hv' hck
                    cases hv'
                    simpa [checkOk] using hck
              · simp at h
  · rintro ⟨cap, c, hq, hc, h1, h2, hv, h3⟩
    simp only [Acct.live] at hc
    simp [step, resolve, checkOk, hq, hc, h1, h2, hv, h3]

/-- `borrow` never changes the state and never aborts. -/
theorem borrow_pure (s : State) (a q : Nat) (w : T) : ∃ r, step s (.borrow a q w) = .ok (s, .ref r) := by
  simp only [step]
  split
  · exact ⟨none, rfl⟩
  · split <;> exact ⟨_, rfl⟩

/-- A deleted (or never issued) controller makes the published capability unusable. -/
theorem borrow_dead_controller (s : State) (a q : Nat) (w : T) (cap : Cap)
    (hq : assocFind q (s a).published = some cap) (hc : assocFind cap.id (s a).live = none) :
    step s (.borrow a q w) = .ok (s, .ref none) ∧ step s (.get a q w) = .ok (s, .got 0 false) := by
  simp only [Acct.live] at hc
  by_cases h1 : canBorrow w cap.ty = true <;> simp [step, resolve, hq, hc, h1]

/-- An inbox claim returns only a capability that this provider published under this name for this
claimer (and whose type fits), and removes it: a second claim of the same name returns nothing. -/
theorem inbox_claim (s s' : State) (a : Nat) (name : String) (provider : Nat) (w : T) (id : Nat)
    (h : step s (.inboxClaim a name provider w) = .ok (s', .optId (some id))) :
    (∃ cap, assocFind name (s provider).inbox = some (a, cap) ∧ cap.id = id ∧ sub cap.ty w = true) ∧
    ∀ w', step s' (.inboxClaim a name provider w') = .ok (s', .optId none) := by
  simp only [step] at h
  split at h
  · simp at h
  · rename_i recipient cap hf
    split at h
    · simp at h
    · rename_i hr
      split at h
      · simp at h
      · rename_i hs
        simp at h
        obtain ⟨h1, h2⟩ := h
        simp at hr hs
        subst hr
        refine ⟨⟨cap, hf, h2, hs⟩, fun w' => ?_⟩
        subst h1
        simp [step, State.set, find_erase_self]

/-- **Borrow rule for a capability value** (`c.borrow<&w>()` / `c.check<&w>()`, also on an untyped `Capability`):
a reference to `v` comes back exactly when the capability is valid, its controller is live, `w` is related to
the *capability's* borrow type **and** to the *controller's* borrow type (the two differ when the capability was
obtained with `capabilities.get<&g>` at another type), the controller's target stores `v`, and the type of `v`
is a subtype of `w`. -/
theorem capability_borrow_iff (ac : Acct) (cap : Cap) (w : T) (v : T × Int) :
    borrowCap ac cap w = some v ↔
      cap.id ≠ 0 ∧ ∃ c, assocFind cap.id ac.live = some c ∧ canBorrow w cap.ty = true ∧ canBorrow w c.ty = true ∧
        assocFind c.target ac.storage = some v ∧ sub v.1 w = true := by
  unfold borrowCap resolve Acct.live
  by_cases h0 : cap.id = 0
  · simp [h0]
  · by_cases h1 : canBorrow w cap.ty = true
    · cases hc : assocFind cap.id ac.ctrls with
      | none => simp [h0, h1]
      | some c =>
        by_cases h2 : canBorrow w c.ty = true
        · cases hv : assocFind c.target ac.storage with
          | none => simp [h0, h1, h2, hv, checkOk]
          | some v0 =>
            have hck : checkOk w (some v0) = sub v0.1 w := rfl
            simp only [h0, h1, h2, hv, hck, if_false, Bool.not_true, Bool.false_eq_true]
            by_cases h3 : sub v0.1 w = true
            · rw [if_pos h3]
              constructor
              · intro h
                cases h
                exact ⟨h0, c, rfl, trivial, h2, hv, h3⟩
              · rintro ⟨_, c', hc', _, _, hv', _⟩
                cases hc'
                rw [hv] at hv'
                exact hv'
            · rw [if_neg h3]
              constructor
              · intro h; cases h
              · rintro ⟨_, c', hc', _, _, hv', h4⟩
                cases hc'
                rw [hv] at hv'
                cases hv'
                exact absurd h4 h3
        · simp [h0, h1, h2]
    · simp [h0, h1]

/-- **The three types of a borrow**: `let c: Capability = capabilities.get<&g>(/public/q)` followed by
`c.borrow<&w>()` yields `v` exactly when a capability is published at `q` with a live controller, `g` is
related to the published capability's type and to the controller's type, `w` is related to `g` **and to the
controller's type**, the target stores `v` and `v`'s type is a subtype of `w` — so an upcast capability
(`g` = `&AnyStruct`) never lends a value at a type unrelated to the controller's, whatever is stored. -/
theorem untyped_capability_borrow_iff (s : State) (a q : Nat) (g w : T) (id : Nat) (v : T × Int) :
    step s (.getBorrow a q g w) = .ok (s, .capRef id (some v)) ↔
      id ≠ 0 ∧ ∃ cap c, assocFind q (s a).published = some cap ∧ cap.id = id ∧ assocFind id (s a).live = some c ∧
        canBorrow g cap.ty = true ∧ canBorrow g c.ty = true ∧
        canBorrow w g = true ∧ canBorrow w c.ty = true ∧
        assocFind c.target (s a).storage = some v ∧ sub v.1 w = true := by
  simp only [step, Res.ok.injEq, Prod.mk.injEq, true_and, Obs.capRef.injEq]
  constructor
  · rintro ⟨hid, hb⟩
    obtain ⟨h0, c, hc, hw1, hw2, hv, hs⟩ := (capability_borrow_iff _ _ _ _).1 hb
    obtain ⟨hty, hsp⟩ := getCap_spec (s a) q g
    obtain ⟨cap, c', hq, hcid, hc', hg1, hg2⟩ := hsp h0
    rw [hcid, hc] at hc'
    cases hc'
    rw [hid] at h0 hc
    rw [hty] at hw1
    exact ⟨h0, cap, c, hq, hcid.trans hid, hc, hg1, hg2, hw1, hw2, hv, hs⟩
  · rintro ⟨h0, cap, c, hq, hcid, hc, hg1, hg2, hw1, hw2, hv, hs⟩
    subst hcid
    have hgc := getCap_of (s a) q g cap c hq hc hg1 hg2
    rw [hgc]
    refine ⟨rfl, (capability_borrow_iff _ _ _ _).2 ⟨h0, c, hc, hw1, hw2, hv, hs⟩⟩

/-- **Retarget away and back** (two `retarget`s, as through one controller reference): both succeed, the
controller is as before, the refinement holds, and every path lists exactly the ids it listed before. -/
theorem retarget_away_and_back (s : State) (a id p : Nat) (c : Ctrl) (h : Inv (s a))
    (hc : assocFind id (s a).live = some c) :
    ∃ s1 s2, step s (.retarget a id p) = .ok (s1, .done) ∧ step s1 (.retarget a id c.target) = .ok (s2, .done) ∧
      Inv (s2 a) ∧ assocFind id (s2 a).live = some c ∧
      ∀ p' id', id' ∈ (s2 a).idsAt p' ↔ id' ∈ (s a).idsAt p' := by
  obtain ⟨s1, h1, hinv1, hc1, _, _⟩ := retarget_consistent s a id p c h hc
  obtain ⟨s2, h2, hinv2, hc2, _, _⟩ := retarget_consistent s1 a id c.target _ hinv1 hc1
  refine ⟨s1, s2, h1, h2, hinv2, by simpa using hc2, ?_⟩
  have hfind : ∀ id', assocFind id' (s2 a).ctrls = assocFind id' (s a).ctrls := by
    intro id'
    by_cases hne : id' = id
    · subst hne
      simp only [Acct.live] at hc2 hc
      rw [hc2, hc]
    · rw [retarget_frame s1 s2 a id c.target _ h2 id' hne, retarget_frame s s1 a id p _ h1 id' hne]
  intro p' id'
  rw [hinv2.consistent p' id', h.consistent p' id', hfind id']

/-! ### non-vacuity -/

private def demo : List (List Op) :=
  [[.save 0 1 .s 7, .issue 0 1 .s, .publish 0 1 0, .inboxPublish 0 1 "x" 1],
   [.borrow 0 0 .any, .get 0 0 .s2, .inboxClaim 1 "x" 0 .any, .inboxClaim 1 "x" 0 .any, .getControllers 0 1],
   [.retarget 0 1 2, .getControllers 0 1, .getControllers 0 2, .borrow 0 0 .s, .save 0 2 .s2 9, .borrow 0 0 .any],
   [.delete 0 1, .getControllers 0 2, .borrow 0 0 .s, .issue 0 2 .i]]

example : (runHist init demo).2 =
    [⟨[.done, .id 1, .done, .done], none⟩,
     ⟨[.ref (some (.s, 7)), .got 0 false, .optId (some 1), .optId none, .ids [1]], none⟩,
     ⟨[.done, .ids [], .ids [1], .ref none, .done, .ref (some (.s2, 9))], none⟩,
     ⟨[.done, .ids [], .ref none, .id 2], none⟩] := by decide

/-- the history of the upcast capability: controller `&C.S`, the stored `C.S` replaced by a `C.S2`; the capability
obtained as `&AnyStruct` does not lend the value as `&C.S2` / `&{C.I}` (unrelated to `&C.S`), and as `&AnyStruct`
it does -/
example : (runHist init
    [[.save 0 1 .s 7, .issue 0 1 .s, .publish 0 1 0], [.load 0 1, .save 0 1 .s2 8],
     [.getBorrow 0 0 .any .s2, .getBorrow 0 0 .any .i, .getBorrow 0 0 .any .any, .getBorrow 0 0 .any .s,
      .republish 0 0 .any 1, .borrow 0 1 .s2, .borrow 0 1 .any, .ctrlBorrow 0 1 .s2]]).2 =
    [⟨[.done, .id 1, .done], none⟩, ⟨[.bool true, .done], none⟩,
     ⟨[.capRef 1 none, .capRef 1 none, .capRef 1 (some (.s2, 8)), .capRef 1 none,
       .done, .ref none, .ref (some (.s2, 8)), .capRef 1 none], none⟩] := by decide

/-- away and back, then the listings and delete -/
example : (runHist init
    [[.issue 0 0 .s, .issue 0 0 .s], [.retarget 0 1 1, .retarget 0 1 0, .getControllers 0 0, .getControllers 0 1],
     [.getControllers 0 0, .getController 0 1, .delete 0 1, .getControllers 0 0]]).2 =
    [⟨[.id 1, .id 2], none⟩, ⟨[.done, .done, .ids [2, 1], .ids []], none⟩,
     ⟨[.ids [2, 1], .ctrl 1 ⟨.s, 0, ""⟩, .done, .ids [2]], none⟩] := by decide

example : ∃ (s : State) (a id : Nat) (c : Ctrl), Inv (s a) ∧ assocFind id (s a).live = some c ∧ c.target ≠ 3 :=
  ⟨(runHist init [[.issue 0 0 .s]]).1, 0, 1, ⟨.s, 0, ""⟩, (index_consistent _).1 0, by decide, by decide⟩

end Verif.Properties.C25
