/-
C38 — Printing a parsed program and re-parsing it yields the same AST.

Model: Verif.Model.Front.{ExprSyntax, Print, Pratt, StrLit} (ports of the printer's parenthesisation
logic, of the parser's expression / type core and of string quoting), tables regenerated from /repo in
Verif.Gen.PrecTables.  Lemmas: Verif.Proofs.Pratt.
-/
import Verif.Proofs.Pratt
import Verif.Proofs.PrattTy
namespace Verif.Properties.C38
open Verif.Gen.PrecTables Verif.Model.Front.Syn Verif.Model.Front.StrLit Verif.Proofs.Pratt

/-! ## Fact obligations over the regenerated tables -/

/-- every (AST precedence rank, parser binding power) pair the printer and the parser use: binary
    operators, prefix operators, casting, conditional, reference, force, access -/
def levels : List (Nat × Nat) :=
  BinOp.all.map (fun op => (op.prec, op.lbp)) ++ UnOp.all.map (fun op => (op.prec, op.bp)) ++
  [(precTernary, bpTernary), (precCasting, bpCasting), (precUnaryPrefix, bpUnaryPrefix),
   (precUnaryPostfix, bpUnaryPostfix), (precAccess, bpAccess)]

/-- `tables_consistent`: the printer's precedence order (`ast/precedence.go`, the `precedence()`
    methods) and the parser's binding-power order (`parser/expression.go`) agree level by level, every
    level is a real one, and the two associativity flags of every binary operator agree.
    (Before fix 3c33138 this failed at the move operator: AST rank of unary prefix, binding power below
    casting.) -/
theorem tables_consistent :
    (∀ a ∈ levels, ∀ b ∈ levels, (a.1 < b.1 ↔ a.2 < b.2)) ∧
    (∀ a ∈ levels, 0 < a.1 ∧ 0 < a.2) ∧
    (∀ op ∈ BinOp.all, op.leftAssoc = !op.rightAssoc) := by
  decide

/-- the tables list the operators in the model's order with the symbols of `Operation.Symbol()` -/
theorem tables_pinned :
    binTable.map (·.1) = ["||", "&&", "==", "!=", "<", "<=", ">", ">=", "??", "|", "^", "&", "<<", ">>", "+", "-", "*", "/", "%"] ∧
    unTable.map (·.1) = ["-", "!", "<-", "*"] := by
  decide

/-- the `precedence()` methods have the shape the model's `Expr.prec` assumes (negative literals:
    unary prefix, else literal; unary: move level for `<-`, else unary prefix; destroy / attach: lowest) -/
theorem kind_precedences_pinned :
    kindPrecedences.lookup "IntegerExpression" = some ["UnaryPrefix", "Literal"] ∧
    kindPrecedences.lookup "FixedPointExpression" = some ["UnaryPrefix", "Literal"] ∧
    kindPrecedences.lookup "UnaryExpression" = some ["Move", "UnaryPrefix"] ∧
    kindPrecedences.lookup "ReferenceExpression" = some ["UnaryPrefix"] ∧
    kindPrecedences.lookup "ForceExpression" = some ["UnaryPostfix"] ∧
    kindPrecedences.lookup "CastingExpression" = some ["Casting"] ∧
    kindPrecedences.lookup "ConditionalExpression" = some ["Ternary"] ∧
    kindPrecedences.lookup "MemberExpression" = some ["Access"] ∧
    kindPrecedences.lookup "IndexExpression" = some ["Access"] ∧
    kindPrecedences.lookup "IdentifierExpression" = some ["Literal"] ∧
    kindPrecedences.lookup "DestroyExpression" = some ["Ternary"] ∧
    kindPrecedences.lookup "AttachExpression" = some ["Ternary"] := by
  decide

/-- the binding powers of the non-operator left denotations are the ones the parser port uses -/
theorem other_powers_pinned :
    otherPowers.lookup "KeywordAs" = some bpCasting ∧
    otherPowers.lookup "TokenAsExclamationMark" = some bpCasting ∧
    otherPowers.lookup "TokenAsQuestionMark" = some bpCasting ∧
    otherPowers.lookup "TokenQuestionMark" = some bpTernary ∧
    otherPowers.lookup "postfix:TokenExclamationMark" = some bpUnaryPostfix ∧
    otherPowers.lookup "prefix:TokenAmpersand" = some bpUnaryPrefix ∧
    otherPowers.lookup "TokenDot" = some bpAccess ∧ otherPowers.lookup "TokenQuestionMarkDot" = some bpAccess ∧
    otherPowers.lookup "TokenBracketOpen" = some bpAccess ∧ otherPowers.lookup "TokenParenOpen" = some bpAccess ∧
    otherPowers.lookup "less:binary" = some BinOp.lt.lbp := by
  decide

/-! ## Witnesses of the defects repaired in /repo (3c33138): the ports of the fixed code round-trip -/

/-- `(<- x) as T` keeps its parentheses (formerly printed `<- x as T` = `<- (x as T)`) -/
theorem move_in_cast_fixed :
    parseAll (printE (.cast .cast (.unary .move (.ident "x")) false (.nominal ["T"]))) =
      some (.cast .cast (.unary .move (.ident "x")) false (.nominal ["T"])) ∧
    lexemes (printE (.cast .cast (.unary .move (.ident "x")) false (.nominal ["T"]))) = ["(", "<-", "x", ")", "as", "T"] := by
  decide

/-- `(1).m` keeps its parentheses (formerly `1.m`, a malformed fixed-point literal) -/
theorem int_literal_member_fixed :
    lexemes (printE (.member false (.int false "1") "m")) = ["(", "1", ")", ".", "m"] ∧
    parseAll (printE (.member false (.int false "1") "m")) = some (.member false (.int false "1") "m") := by
  decide

/-- `(-1)!`, `(-1).m`, `(-1.5)[i]` keep their parentheses (formerly `-1!` = `-(1!)`) -/
theorem negative_literal_postfix_fixed :
    parseAll (printE (.force (.int true "1"))) = some (.force (.int true "1")) ∧
    parseAll (printE (.member true (.int true "1") "m")) = some (.member true (.int true "1") "m") ∧
    parseAll (printE (.index (.fix true "1.5") (.ident "i"))) = some (.index (.fix true "1.5") (.ident "i")) ∧
    lexemes (printE (.force (.int true "1"))) = ["(", "-", "1", ")", "!"] := by
  decide

/-- what the unrepaired printer did, on the parser port: without the parentheses the move swallows the cast -/
theorem move_in_cast_unparenthesised_differs :
    parseAll [sym "<-", ⟨.ident, "x", true⟩, ⟨.ident, "as", true⟩, ⟨.ident, "T", true⟩] =
      some (.unary .move (.cast .cast (.ident "x") false (.nominal ["T"]))) := by
  decide

/-! ## Recorded finding: `&(&x)` -/

/-- KNOWN FINDING `ref-of-ref-prints-logical-and`: the printed form of `&(&x)` is lexed as `&& x` and is
    not an expression (a unit test of /repo pins the output `&&42`, so it was not repaired) -/
theorem ref_of_ref_witness :
    lexemes (printE (.ref (.ref (.ident "x")))) = ["&&", "x"] ∧ parseAll (printE (.ref (.ref (.ident "x")))) = none := by
  decide

/-! ## Associativity and precedence, concretely (non-vacuity of the parenthesisation rules) -/

example : lexemes (printE (.binary .coalesce (.ident "a") (.binary .coalesce (.ident "b") (.ident "c")))) =
    ["a", "??", "b", "??", "c"] := by decide
example : lexemes (printE (.binary .coalesce (.binary .coalesce (.ident "a") (.ident "b")) (.ident "c"))) =
    ["(", "a", "??", "b", ")", "??", "c"] := by decide
example : lexemes (printE (.binary .sub (.ident "a") (.binary .sub (.ident "b") (.ident "c")))) =
    ["a", "-", "(", "b", "-", "c", ")"] := by decide
example : parseAll (printE (.binary .sub (.ident "a") (.binary .sub (.ident "b") (.ident "c")))) =
    some (.binary .sub (.ident "a") (.binary .sub (.ident "b") (.ident "c"))) := by decide
example : parseAll (printE (.binary .mul (.binary .add (.ident "a") (.ident "b")) (.cond (.ident "c") (.int false "1") (.nil)))) =
    some (.binary .mul (.binary .add (.ident "a") (.ident "b")) (.cond (.ident "c") (.int false "1") (.nil))) := by decide

/-! ## Round trip theorems -/

/-- `expr_roundtrip_partial`: for every expression built from identifiers, non-negative … (see
    `Verif.Proofs.Pratt.RT`) the parser port applied to the printer port's output returns the
    expression.

    Full statement (NOT proved): `∀ e : Expr, Canon e → parseAll (printE e) = some e` for the whole
    fragment of `ExprSyntax.lean` (`Canon`: what the parser can produce — no `-` applied to a
    non-negative literal, identifiers are not keywords; and no `&(&x)`, see `ref_of_ref_witness`).
    Proved here: see `Verif.Proofs.Pratt.RT` for the sub-fragment. -/
theorem expr_roundtrip_partial (e : Expr) (h : RT e) : parseAll (printE e) = some e :=
  rt_roundtrip e h

example : RT (.ident "x") := rt_example

/-- `type_roundtrip`: for every type of the ports' type sub-language (nominal paths, optionals,
    unauthorized references, arbitrarily nested) that the parser can produce (`Ty.wf`: the path is
    non-empty and does not start with a keyword), the type parser port applied to the printed tokens —
    as the lexer sees them: adjacent `?` `?` merged into `??` — returns the type.
    Not in the sub-language (CC only, stream `pp type`): instantiation, function, dictionary, array,
    intersection and authorized reference types (among them the recorded finding
    `optional-of-reference-to-function-type`). -/
theorem type_roundtrip (t : Ty) (h : t.wf = true) : parseTyAll (mergeQ (printTy t)) = some t :=
  Verif.Proofs.PrattTy.ty_roundtrip t h

example : (Ty.optional (.reference (.optional (.optional (.reference (.nominal ["A", "B"])))))).wf = true := by decide
example : lexemes (mergeQ (printTy (.optional (.reference (.optional (.optional (.reference (.nominal ["A", "B"]))))))))
    = ["&", "(", "&", "A", ".", "B", "??", ")", "?"] := by decide

/-- `string_escape_roundtrip_partial`: un-escaping the quoted form of a string returns the string, for
    every string of runes that `QuoteString` writes without a `\u{…}` escape (printable ASCII, NUL,
    `\n`, `\r`, `\t`, `\\`, `"`).
    Full statement (NOT proved; covered by the `pp str` correspondence ops on every run, including all
    pairs over a boundary alphabet): `∀ cs, parseStringLiteral (quoteString cs) = some cs`. -/
theorem string_escape_roundtrip_partial (cs : List Char) (h : ∀ c ∈ cs, Simple c) :
    parseStringLiteral (quoteString cs) = some cs :=
  quote_roundtrip_simple cs h

example : Simple 'a' ∧ Simple '\n' ∧ Simple '"' ∧ Simple '\\' := by decide
example : parseStringLiteral (quoteString ['a', '"', '\n', '\\', 'z']) = some ['a', '"', '\n', '\\', 'z'] :=
  string_escape_roundtrip_partial _ (by decide)
/-- outside the proved region, concretely: U+00E9 and U+1F600 -/
example : parseStringLiteral (quoteString [Char.ofNat 0xe9, Char.ofNat 0x1F600]) = some [Char.ofNat 0xe9, Char.ofNat 0x1F600] := by
  decide
example : quoteString [Char.ofNat 0xe9] = "\"\\u{e9}\"".toList := by decide

end Verif.Properties.C38
