/-
C38 — Printing a parsed program and re-parsing it yields the same AST.

Model: Verif.Model.Front.{ExprSyntax, Print, Pratt, StrLit} (ports of the printer's parenthesisation
logic, of the parser's expression / type core and of string quoting), tables regenerated from /repo in
Verif.Gen.PrecTables.  Lemmas: Verif.Proofs.Pratt.
-/
import Verif.Proofs.Pratt
import Verif.Proofs.PrattTy
import Verif.Proofs.PrattAmp
namespace Verif.Properties.C38
open Verif.Gen.PrecTables Verif.Model.Front.Syn Verif.Model.Front.StrLit Verif.Proofs.Pratt
open Verif.Proofs.PrattRT Verif.Proofs.PrattTy

/-! ## Fact obligations over the regenerated tables -/

/-- every (AST precedence rank, parser binding power) pair the printer and the parser use: binary
    operators, prefix operators, casting, conditional, reference, force, access -/
def levels : List (Nat × Nat) :=
  BinOp.all.map (fun op => (op.prec, op.lbp)) ++ UnOp.all.map (fun op => (op.prec, op.bp)) ++
  [(precTernary, bpTernary), (precCasting, bpCasting), (precUnaryPrefix, bpUnaryPrefix),
   (precUnaryPostfix, bpUnaryPostfix), (precAccess, bpAccess)]

/-- `tables_consistent`: the printer's precedence order (`ast/precedence.go`, the `precedence()`
    methods) and the parser's binding-power order (`parser/expression.go`) agree level by level, every
    level is a real one, and the two associativity flags of every binary operator agree.
    (Before fix 3c33138 this failed at the move operator: AST rank of unary prefix, binding power below
    casting.) -/
theorem tables_consistent :
    (∀ a ∈ levels, ∀ b ∈ levels, (a.1 < b.1 ↔ a.2 < b.2)) ∧
    (∀ a ∈ levels, 0 < a.1 ∧ 0 < a.2) ∧
    (∀ op ∈ BinOp.all, op.leftAssoc = !op.rightAssoc) := by
  decide

/-- the tables list the operators in the model's order with the symbols of `Operation.Symbol()` -/
theorem tables_pinned :
    binTable.map (·.1) = ["||", "&&", "==", "!=", "<", "<=", ">", ">=", "??", "|", "^", "&", "<<", ">>", "+", "-", "*", "/", "%"] ∧
    unTable.map (·.1) = ["-", "!", "<-", "*"] := by
  decide

/-- the `precedence()` methods have the shape the model's `Expr.prec` assumes (negative literals:
    unary prefix, else literal; unary: move level for `<-`, else unary prefix; destroy / attach: lowest) -/
theorem kind_precedences_pinned :
    kindPrecedences.lookup "IntegerExpression" = some ["UnaryPrefix", "Literal"] ∧
    kindPrecedences.lookup "FixedPointExpression" = some ["UnaryPrefix", "Literal"] ∧
    kindPrecedences.lookup "UnaryExpression" = some ["Move", "UnaryPrefix"] ∧
    kindPrecedences.lookup "ReferenceExpression" = some ["UnaryPrefix"] ∧
    kindPrecedences.lookup "ForceExpression" = some ["UnaryPostfix"] ∧
    kindPrecedences.lookup "CastingExpression" = some ["Casting"] ∧
    kindPrecedences.lookup "ConditionalExpression" = some ["Ternary"] ∧
    kindPrecedences.lookup "MemberExpression" = some ["Access"] ∧
    kindPrecedences.lookup "IndexExpression" = some ["Access"] ∧
    kindPrecedences.lookup "IdentifierExpression" = some ["Literal"] ∧
    kindPrecedences.lookup "DestroyExpression" = some ["Ternary"] ∧
    kindPrecedences.lookup "AttachExpression" = some ["Ternary"] := by
  decide

/-- the binding powers of the non-operator left denotations are the ones the parser port uses -/
theorem other_powers_pinned :
    otherPowers.lookup "KeywordAs" = some bpCasting ∧
    otherPowers.lookup "TokenAsExclamationMark" = some bpCasting ∧
    otherPowers.lookup "TokenAsQuestionMark" = some bpCasting ∧
    otherPowers.lookup "TokenQuestionMark" = some bpTernary ∧
    otherPowers.lookup "postfix:TokenExclamationMark" = some bpUnaryPostfix ∧
    otherPowers.lookup "prefix:TokenAmpersand" = some bpUnaryPrefix ∧
    otherPowers.lookup "TokenDot" = some bpAccess ∧ otherPowers.lookup "TokenQuestionMarkDot" = some bpAccess ∧
    otherPowers.lookup "TokenBracketOpen" = some bpAccess ∧ otherPowers.lookup "TokenParenOpen" = some bpAccess ∧
    otherPowers.lookup "less:binary" = some BinOp.lt.lbp := by
  decide

/-! ## Witnesses of the defects repaired in /repo (3c33138): the ports of the fixed code round-trip -/

/-- `(<- x) as T` keeps its parentheses (formerly printed `<- x as T` = `<- (x as T)`) -/
theorem move_in_cast_fixed :
    parseAll (printE (.cast .cast (.unary .move (.ident "x")) false (.nominal ["T"]))) =
      some (.cast .cast (.unary .move (.ident "x")) false (.nominal ["T"])) ∧
    lexemes (printE (.cast .cast (.unary .move (.ident "x")) false (.nominal ["T"]))) = ["(", "<-", "x", ")", "as", "T"] := by
  decide

/-- `(1).m` keeps its parentheses (formerly `1.m`, a malformed fixed-point literal) -/
theorem int_literal_member_fixed :
    lexemes (printE (.member false (.int false "1") "m")) = ["(", "1", ")", ".", "m"] ∧
    parseAll (printE (.member false (.int false "1") "m")) = some (.member false (.int false "1") "m") := by
  decide

/-- `(-1)!`, `(-1).m`, `(-1.5)[i]` keep their parentheses (formerly `-1!` = `-(1!)`) -/
theorem negative_literal_postfix_fixed :
    parseAll (printE (.force (.int true "1"))) = some (.force (.int true "1")) ∧
    parseAll (printE (.member true (.int true "1") "m")) = some (.member true (.int true "1") "m") ∧
    parseAll (printE (.index (.fix true "1.5") (.ident "i"))) = some (.index (.fix true "1.5") (.ident "i")) ∧
    lexemes (printE (.force (.int true "1"))) = ["(", "-", "1", ")", "!"] := by
  decide

/-- what the unrepaired printer did, on the parser port: without the parentheses the move swallows the cast -/
theorem move_in_cast_unparenthesised_differs :
    parseAll [sym "<-", ⟨.ident, "x", true⟩, ⟨.ident, "as", true⟩, ⟨.ident, "T", true⟩] =
      some (.unary .move (.cast .cast (.ident "x") false (.nominal ["T"]))) := by
  decide

/-! ## Recorded finding: `&(&x)` -/

/-- KNOWN FINDING `ref-of-ref-prints-logical-and`: the printed form of `&(&x)` is lexed as `&& x` and is
    not an expression (a unit test of /repo pins the output `&&42`, so it was not repaired) -/
theorem ref_of_ref_witness :
    lexemes (printE (.ref (.ref (.ident "x")))) = ["&&", "x"] ∧ parseAll (printE (.ref (.ref (.ident "x")))) = none := by
  decide

/-! ## Associativity and precedence, concretely (non-vacuity of the parenthesisation rules) -/

example : lexemes (printE (.binary .coalesce (.ident "a") (.binary .coalesce (.ident "b") (.ident "c")))) =
    ["a", "??", "b", "??", "c"] := by decide
example : lexemes (printE (.binary .coalesce (.binary .coalesce (.ident "a") (.ident "b")) (.ident "c"))) =
    ["(", "a", "??", "b", ")", "??", "c"] := by decide
example : lexemes (printE (.binary .sub (.ident "a") (.binary .sub (.ident "b") (.ident "c")))) =
    ["a", "-", "(", "b", "-", "c", ")"] := by decide
example : parseAll (printE (.binary .sub (.ident "a") (.binary .sub (.ident "b") (.ident "c")))) =
    some (.binary .sub (.ident "a") (.binary .sub (.ident "b") (.ident "c"))) := by decide
example : parseAll (printE (.binary .mul (.binary .add (.ident "a") (.ident "b")) (.cond (.ident "c") (.int false "1") (.nil)))) =
    some (.binary .mul (.binary .add (.ident "a") (.ident "b")) (.cond (.ident "c") (.int false "1") (.nil))) := by decide

/-! ## Round trip theorems -/

/-- `powers_linear` (fact obligation): on the regenerated tables every parser binding power is
    `10 · (AST precedence rank + 1)`.  This is the numeric form of `tables_consistent` that the Pratt
    argument uses as its bridge between `precedence()` ranks and binding powers (`Verif.Proofs.PrattRT`:
    `lbp_eq`, `bp_eq`, `rbp_eq`, proved by case analysis over the same tables). -/
theorem powers_linear : ∀ a ∈ levels, a.2 = 10 * (a.1 + 1) := by decide

/-- `expr_parse_print` — the generalised Pratt statement.  For every well-formed expression `e`
    (`Expr.wf`), every right binding power `rbp` below the left binding power of all operators on the
    unparenthesised left spine of `e` (`topLbp`), every token suffix `rest` whose first token neither
    binds tighter than the power at which the last operand of `e` was parsed (`rlvl`) nor continues a
    type annotation (`qFree`), and every fuel `F ≥ 4·|printExpr e| + b`: parsing `printExpr e ++ rest`
    at `rbp` is the parser's loop continued on `e` and `rest` (with fuel `b`). -/
theorem expr_parse_print (e : Expr) (hwf : e.wf = true) (rbp : Nat) (rest : List Tok) (b : Nat)
    (r : Expr × List Tok) (F : Nat) (h1 : rbp < topLbp e) (h2 : exprLbp rest ≤ rlvl e) (h3 : qFree rest = true)
    (hl : loop b rbp e rest = some r) (hF : 4 * (printExpr e).length + b ≤ F) :
    parseExpr F rbp (printExpr e ++ rest) = some r :=
  parse_print e hwf rbp rest b r F h1 h2 h3 hl hF

/-- `expr_roundtrip_partial` — **`parseAll (printE e) = some e` for every well-formed expression of the
    ports' fragment**: identifiers, integer / fixed-point / boolean / nil / void literals, the prefix
    operators `-` `!` `*` `<-`, references `&e`, force `e!`, all 19 binary operators at all precedence
    levels with their associativity (including right-associative `??` and `>>` lexed as two `>`), the
    casts `as` `as?` `as!` with (resource) type annotations over the type sub-language, the conditional,
    member access `.` / `?.`, indexing and invocation with (labelled) arguments — arbitrarily nested, with the printer's parenthesisation
    rules (`parenthesizedExpressionDoc`, `BinaryExpression.Doc`, the integer-receiver rule) against
    the parser's binding powers, via the regenerated tables.  `printE` is the printed token list as the
    lexer sees it (`& &` merged to `&&`).

    `Expr.wf` (`Verif.Model.Front.ExprWf`) = what the parser can produce (identifiers are not
    keywords, a negative integer literal is not zero, `-` is not applied to a non-negative literal)
    minus the recorded findings: `&(&x)` (`ref_of_ref_witness`) and comparison chains
    `(a < b) > …` (`comparison-chain-reparsed-as-type-arguments`; the real parser's type-argument
    speculation after `<` is outside the port).

    `_partial` because the fragment `Expr` is not the whole expression language.  NOT in the port and
    therefore covered by the stream only (Go-only oracle): type arguments of invocations, array, dictionary, string and string-template literals, paths, `create` / `destroy` / `attach`,
    function expressions; statements and declarations (`stmt_decl_roundtrip`: CC only). -/
theorem expr_roundtrip_partial (e : Expr) (h : e.wf = true) : parseAll (printE e) = some e :=
  Verif.Proofs.PrattAmp.expr_roundtrip e h

/-- non-vacuity: a well-formed expression with every construct, and its printed form -/
example : (Expr.cond (.binary .coalesce (.member true (.force (.ident "a")) "m")
      (.binary .coalesce (.index (.ident "b") (.int true "1")) (.unary .move (.ident "c"))))
    (.cast .failable (.ref (.binary .shr (.ident "x") (.fix false "1.0"))) true (.optional (.optional (.nominal ["T"]))))
    (.unary .minus (.unary .not (.binary .mul (.void) (.nil))))).wf = true := by decide
example : lexemes (printE (.binary .coalesce (.member true (.force (.ident "a")) "m")
      (.binary .coalesce (.index (.ident "b") (.int true "1")) (.unary .move (.ident "c"))))) =
    ["a", "!", "?.", "m", "??", "b", "[", "-", "1", "]", "??", "<-", "c"] := by decide
example : (Expr.invoke (.member false (.ident "a") "f")
    (.argsCons "" (.binary .add (.ident "x") (.int false "1")) (.argsCons "to" (.unary .move (.ident "r")) .argsNil))).wf = true := by
  decide
example : lexemes (printE (.invoke (.member false (.ident "a") "f")
    (.argsCons "" (.binary .add (.ident "x") (.int false "1")) (.argsCons "to" (.unary .move (.ident "r")) .argsNil)))) =
    ["a", ".", "f", "(", "x", "+", "1", ",", "to", ":", "<-", "r", ")"] := by decide
/-- the recorded findings are outside the domain -/
example : (Expr.ref (.ref (.ident "x"))).wf = false := by decide
example : (Expr.binary .gt (.binary .lt (.ident "a") (.ident "b")) .void).wf = false := by decide
example : (Expr.binary .lt (.ident "a") (.binary .gt (.ident "b") (.ident "c"))).wf = false := by decide
/-- the canonical-form conditions are needed: the parser folds `-` into a literal -/
example : parseAll (printE (.unary .minus (.int false "1"))) = some (.int true "1") := by decide

/-- `type_roundtrip`: for every type of the ports' type sub-language (nominal paths, optionals,
    unauthorized references, arbitrarily nested) that the parser can produce (`Ty.wf`: the path is
    non-empty and does not start with a keyword), the type parser port applied to the printed tokens —
    as the lexer sees them: adjacent `?` `?` merged into `??` — returns the type.
    Not in the sub-language (CC only, stream `pp type`): instantiation, function, dictionary, array,
    intersection and authorized reference types (among them the recorded finding
    `optional-of-reference-to-function-type`). -/
theorem type_roundtrip (t : Ty) (h : t.wf = true) : parseTyAll (mergeQ (printTy t)) = some t :=
  Verif.Proofs.PrattTy.ty_roundtrip t h

example : (Ty.optional (.reference (.optional (.optional (.reference (.nominal ["A", "B"])))))).wf = true := by decide
example : lexemes (mergeQ (printTy (.optional (.reference (.optional (.optional (.reference (.nominal ["A", "B"]))))))))
    = ["&", "(", "&", "A", ".", "B", "??", ")", "?"] := by decide

/-- `string_escape_roundtrip`: un-escaping the quoted form of **any** string of Unicode scalar values
    returns the string (ports of `QuoteString` / `QuoteStringInner` and `parseStringLiteralContent`):
    the single-character escapes, printable ASCII written verbatim, and the `\u{…}` escape with
    `strconv.FormatInt(_, 16)` digits for everything else. -/
theorem string_escape_roundtrip (cs : List Char) : parseStringLiteral (quoteString cs) = some cs :=
  quote_roundtrip cs

example : Simple 'a' ∧ Simple '\n' ∧ Simple '"' ∧ Simple '\\' := by decide
example : parseStringLiteral (quoteString ['a', '"', '\n', '\\', 'z']) = some ['a', '"', '\n', '\\', 'z'] :=
  string_escape_roundtrip _
/-- concretely: U+00E9 and U+1F600 -/
example : parseStringLiteral (quoteString [Char.ofNat 0xe9, Char.ofNat 0x1F600]) = some [Char.ofNat 0xe9, Char.ofNat 0x1F600] := by
  decide
example : quoteString [Char.ofNat 0xe9] = "\"\\u{e9}\"".toList := by decide

end Verif.Properties.C38
