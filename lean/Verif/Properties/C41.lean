/-
C41 — JSON-Cadence encoding round-trips and decoding is robust.

Model: Verif.Model.Codec.Json (`prepare` / `prepareType`: ports of encoding/json/encode.go;
`decode` / `decodeType`: ports of encoding/json/decode.go on the JSON tree; `erase`), over the
external value / type algebra Verif.Model.Codec.CValue.  The tie to /repo is the correspondence
stream `json` (Drv/Json.lean, harness/cmd/vharness/stream_json.go) and the fact table
Verif.Gen.CcfTags.jsonSimpleTypes regenerated from the running decoder.
Only statements and their final proofs live here; lemmas are in Verif.Proofs.Codec.Json.
-/
import Verif.Proofs.Codec.Json
namespace Verif.Properties.C41
open Verif.Model.Codec Verif.Proofs.Codec.Json

/-- Decimal text of integers (`big.Int.String` / `strconv.FormatInt` read back by
`big.Int.SetString` / `strconv.ParseInt`) round-trips for every integer. -/
theorem int_text_roundtrip (n : Int) : goParseInt (showInt n) = some n := goParseInt_showInt n

/-- Decimal text of unsigned integers read back by `strconv.ParseUint` round-trips. -/
theorem nat_text_roundtrip (n : Nat) : goParseNat (showNat n) = some n := goParseNat_showNat n

/-- The `0x…` text of an address decodes to the same eight bytes. -/
theorem address_text_roundtrip (bs : List UInt8) (h : bs.length = 8) :
    decodeAddr (addrJson bs) = .ok bs := decodeAddr_addrJson bs h

example : decodeAddr (addrJson [0, 0, 0, 0, 0, 0, 0xab, 1]) = .ok [0, 0, 0, 0, 0, 0, 0xab, 1] :=
  address_text_roundtrip _ rfl

/-- Second half of the round-trip statement, at full strength (every value): the erased value
re-encodes to the same JSON tree, so the decoded value (which is the erased value) re-encodes
identically. -/
theorem reencode_erase (v : CValue) : prepare (erase v) = prepare v := prepare_erase v

example : erase (.arr (.varr (.prim "Int")) (.cons (.int "Int" 1) .nil)) = .arr .nil (.cons (.int "Int" 1) .nil) := rfl

/-
Full statement (DESIGN §6 C41 `roundtrip`), for every exportable value `v` (integers in the range
of their kind, characters of one grapheme cluster, composite values with as many values as declared
fields, types embedded in type values / capabilities / functions well-scoped):
    decode (prepare v) = .ok (erase v) ∧ prepare (erase v) = prepare v
and `types_roundtrip`: decodeTypeTop (prepareType t) = .ok t.
Proved: the second conjunct for every value (`reencode_erase`) and the first conjunct for every value
built from scalars (void, nil, booleans, strings, single-code-point characters, addresses, every
integer and fixed-point kind within its range, paths) with optionals, arrays, dictionaries, inclusive ranges and
composite values (struct, resource, event, contract, enum; any declared field types and
initializers) at any nesting (`roundtrip_partial`); `types_roundtrip` for types built from simple types
with optionals, arrays, dictionaries, ranges, capabilities and unauthorized references
(`types_roundtrip_partial`), and with it the round trip of type values and capability values of such
types.  Missing: functions, and embedded types with composite / interface /
intersection / function types or entitlements — covered by the correspondence stream (the Go decoder's
answer is compared with `erase v` on every generated value).
-/

/-- Round trip for values built from scalars with optionals, arrays, dictionaries, ranges and
composite values (`plainOk`): decoding the encoding gives the erased value, and the erased value
re-encodes to the same tree. -/
theorem roundtrip_partial (v : CValue) (h : plainOk v = true) :
    decode (prepare v) = .ok (erase v) ∧ prepare (erase v) = prepare v :=
  ⟨rt_plain v h, prepare_erase v⟩

example : plainOk (.int "Int128" (-(2:Int)^127)) = true := by decide
example : plainOk (.int "UInt8" 255) = true ∧ plainOk (.int "UInt8" 256) = false := by decide
example : plainOk (.fix "UFix64" 18446744073709551615) = true ∧ plainOk (.fix "Fix64" (-1)) = true := by decide

/-- The decimal text of fixed-point numbers (`encodeFix64` / `format.Fix128`: sign, integer part,
point, fraction padded to the scale) is read back by the port of `fixedpoint.parseFixedPoint` to the
same raw value, for every scale > 0 and every integer. -/
theorem fixed_text_roundtrip (scale : Nat) (hs : 0 < scale) (raw : Int) :
    goParseFixed scale (showFixed scale raw) = some raw := goParseFixed_showFixed scale hs raw
example : plainOk (.comp (.comp .struct "A.0000000000000001.C.S" .nil (.cons "xs" (.varr (.prim "Int")) .nil) .nil)
    (.cons (.arr (.varr (.prim "Int")) (.cons (.some (.int "Int" 5)) .nil)) .nil)) = true := by decide

/-- Every embedded type without composite types decodes to the same type, whatever the state of the
encoder's and decoder's tables of repeated types (which it leaves unchanged). -/
theorem types_roundtrip_partial (t : CType) (h : simpleT t = true) (ps : PResults) (rs : Results) :
    (prepareTypeR t ps).2 = ps ∧ decodeType (prepareTypeR t ps).1 rs = .ok (t, rs) :=
  simpleT_rt t h ps rs

example : simpleT (.dict (.prim "String") (.opt (.carr 3 (.ref .unauth (.prim "AnyStruct"))))) = true := by decide

/-- Round trip of type values and capability values whose embedded type has no composite types. -/
theorem roundtrip_embedded_types_partial (t : CType) (h : simpleT t = true) (id : Nat) (a : List UInt8)
    (hid : id < 2 ^ 64) (ha : a.length = 8) :
    decode (prepare (.type t)) = .ok (erase (.type t)) ∧
    decode (prepare (.cap id a t)) = .ok (erase (.cap id a t)) :=
  ⟨rt_typeValue t h, rt_capability id a t hid ha h⟩

/-- Decoding is total: the port of the decoder is a terminating function whose every missing or
ill-typed field is an error value (there is no partiality in the model; the escaping Go panic that
existed for the `Restriction` kind was removed by /repo 5fef060). -/
theorem decode_total (j : Json) : (∃ v, decode j = .ok v) ∨ (∃ e, decode j = .error e) := by
  cases h : decode j with
  | ok v => exact .inl ⟨v, rfl⟩
  | error e => exact .inr ⟨e, rfl⟩

/-- FX obligation: the simple type names accepted by the running decoder contain the primitive
types used by the value generator, and not the removed `Restriction` / nominal kinds. -/
theorem simple_types_ok :
    (["Int", "UInt8", "Word256", "Fix64", "UFix128", "String", "Character", "Bool", "Address", "Void", "Never",
      "AnyStruct", "AnyResource", "HashableStruct", "Type", "StoragePath", "PublicPath", "PrivatePath", "Path",
      "CapabilityPath", "Account", "Account.Storage"].all Verif.Gen.CcfTags.jsonSimpleTypes.contains
     && !(["Restriction", "Struct", "Resource", "Event", "Contract", "Enum", "Attachment", "Capability", "Function",
      "Optional", "Dictionary", "Reference", "Intersection"].any Verif.Gen.CcfTags.jsonSimpleTypes.contains)) = true := by
  decide

end Verif.Properties.C41
