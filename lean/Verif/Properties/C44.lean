import Verif.Proofs.StoredCbor
import Verif.Model.Codec.Stored
import Verif.Model.Codec.StoredPinned
import Verif.Gen.StoredTags
/-!
# C44 — Stored-value encodings round-trip and stay stable across versions

Model: `Verif.Model.Codec.Stored` (port of interpreter/encode.go + decode.go over the CBOR item model
`Verif.Model.Codec.StoredCbor`), with the tag table regenerated from the current sources
(`Verif.Gen.StoredTags`).  Pinned expectation: `Verif.Model.Codec.StoredPinned`.
-/
namespace Verif.Properties.C44
open Verif.Model.Codec.StoredCbor Verif.Model.Codec.Stored
open Verif.Gen Verif.Model.Codec

/-- FX: the CBOR tag numbers of the current sources are the pinned ones (names, numbers, order). -/
theorem tags_unchanged : StoredTags.cborTags = StoredPinned.cborTags := by decide

/-- FX: the primitive static type codes of the current sources are the pinned ones. -/
theorem primitive_codes_unchanged : StoredTags.primitiveTypes = StoredPinned.primitiveTypes := by decide

/-- FX: the array lengths of every encoded form are the pinned ones. -/
theorem encoded_lengths_unchanged : StoredTags.encodedLengths = StoredPinned.encodedLengths := by decide

/-- FX: every Encode function writes the pinned tag constant, head bytes and fields, in the pinned order. -/
theorem field_orders_unchanged : StoredTags.encodeShapes = StoredPinned.encodeShapes := by decide

/-- The CBOR item layer round-trips: decoding the encoding of a well-formed item, followed by any
    bytes, yields the item and leaves exactly those bytes unread. -/
theorem cbor_roundtrip (i : Item) (rest : Bytes) (hw : i.wf = true) : decode (enc i ++ rest) = .ok (i, rest) :=
  Verif.Proofs.StoredCbor.decode_enc i rest hw

example : (Item.tag 200 (.array [.uint 1, .text [102, 111, 111]])).wf = true := by decide

end Verif.Properties.C44
