import Verif.Proofs.StoredCbor
import Verif.Proofs.Stored
import Verif.Model.Codec.Stored
import Verif.Model.Codec.StoredPinned
import Verif.Gen.StoredTags
/-!
# C44 — Stored-value encodings round-trip and stay stable across versions

Model: `Verif.Model.Codec.Stored` (port of interpreter/encode.go + decode.go over the CBOR item model
`Verif.Model.Codec.StoredCbor`), with the tag table regenerated from the current sources
(`Verif.Gen.StoredTags`).  Pinned expectation: `Verif.Model.Codec.StoredPinned`.
-/
namespace Verif.Properties.C44
open Verif.Model.Codec.StoredCbor Verif.Model.Codec.Stored
open Verif.Gen Verif.Model.Codec

/-- FX: the CBOR tag numbers of the current sources are the pinned ones (names, numbers, order). -/
theorem tags_unchanged : StoredTags.cborTags = StoredPinned.cborTags := by decide

/-- FX: the primitive static type codes of the current sources are the pinned ones. -/
theorem primitive_codes_unchanged : StoredTags.primitiveTypes = StoredPinned.primitiveTypes := by decide

/-- FX: the array lengths of every encoded form are the pinned ones. -/
theorem encoded_lengths_unchanged : StoredTags.encodedLengths = StoredPinned.encodedLengths := by decide

/-- FX: every Encode function writes the pinned tag constant, head bytes and fields, in the pinned order. -/
theorem field_orders_unchanged : StoredTags.encodeShapes = StoredPinned.encodeShapes := by decide

/-- The CBOR item layer round-trips: decoding the encoding of a well-formed item, followed by any
    bytes, yields the item and leaves exactly those bytes unread. -/
theorem cbor_roundtrip (i : Item) (rest : Bytes) (hw : i.wf = true) : decode (enc i ++ rest) = .ok (i, rest) :=
  Verif.Proofs.StoredCbor.decode_enc i rest hw

example : (Item.tag 200 (.array [.uint 1, .text [102, 111, 111]])).wf = true := by decide


/-- FX: within each decoder dispatch the regenerated tag numbers are pairwise different, fit a CBOR
    head, and the value tags avoid the bignum tags (2, 3) and atree's reserved range (240–255). -/
theorem tags_distinct : genTags.ok = true := by decide

/-- **Round trip of storable values** (tag table of the current sources, any Unicode environment):
    for every well-formed storable `v` and any following bytes, `DecodeStorable` of the encoding of `v`
    returns `v` and leaves exactly the following bytes unread; and whatever the decoder returns
    re-encodes to the identical bytes. -/
theorem roundtrip (E : Env) (v : Stored) (rest : Bytes) (hw : v.wf genTags E = true) :
    decodeStored genTags E (encodeStored genTags v ++ rest) = .ok (v, rest) ∧
    ∀ v' r, decodeStored genTags E (encodeStored genTags v ++ rest) = .ok (v', r) →
      encodeStored genTags v' ++ r = encodeStored genTags v ++ rest := by
  have h := Verif.Proofs.Stored.decodeStored_encodeStored (Verif.Proofs.Stored.tagsOk_of_ok tags_distinct) E hw rest
  refine ⟨h, ?_⟩
  intro v' r h'
  rw [h] at h'
  cases h'
  rfl

/-- **Round trip of static types** (`StaticTypeToBytes` / `StaticTypeFromBytes`). -/
theorem statictype_roundtrip (t : SType) (rest : Bytes) (hw : t.wf genTags = true) :
    decodeType genTags (encodeType genTags t ++ rest) = .ok (t, rest) ∧
    ∀ t' r, decodeType genTags (encodeType genTags t ++ rest) = .ok (t', r) →
      encodeType genTags t' ++ r = encodeType genTags t ++ rest := by
  have h := Verif.Proofs.Stored.decodeType_encodeType (Verif.Proofs.Stored.tagsOk_of_ok tags_distinct) hw rest
  refine ⟨h, ?_⟩
  intro t' r h'
  rw [h] at h'
  cases h'
  rfl

/-- The same for *any* tag table that passes `Tags.ok`: appending a new tag or replacing a placeholder
    (the only changes the source comments allow) cannot break the round trip. -/
theorem roundtrip_any_tags (T : Tags) (hT : T.ok = true) (E : Env) (v : Stored) (rest : Bytes)
    (hw : v.wf T E = true) : decodeStored T E (encodeStored T v ++ rest) = .ok (v, rest) :=
  Verif.Proofs.Stored.decodeStored_encodeStored (Verif.Proofs.Stored.tagsOk_of_ok hT) E hw rest

/-- Encodings never collide: two well-formed storables with the same bytes are the same value. -/
theorem encode_injective (E : Env) (v w : Stored) (hv : v.wf genTags E = true) (hw : w.wf genTags E = true)
    (h : encodeStored genTags v = encodeStored genTags w) : v = w := by
  have h1 := (roundtrip E v [] hv).1
  have h2 := (roundtrip E w [] hw).1
  rw [h, h2] at h1
  cases h1
  rfl

/-- Static type encodings never collide. -/
theorem statictype_encode_injective (s t : SType) (hs : s.wf genTags = true) (ht : t.wf genTags = true)
    (h : encodeType genTags s = encodeType genTags t) : s = t := by
  have h1 := (statictype_roundtrip s [] hs).1
  have h2 := (statictype_roundtrip t [] ht).1
  rw [h, h2] at h1
  cases h1
  rfl

/-! Non-vacuity: concrete well-formed values of several kinds (Unicode environment: identity
    normalisation, every non-empty string a character). -/
def exEnv : Env := ⟨id, fun s => !s.isEmpty⟩

example : (Stored.path 1 [102, 111, 111]).wf genTags exEnv = true := by decide
example : (Stored.some 3 (.num .int128 (-170141183460469231731687303715884105728))).wf genTags exEnv = true := by decide
example : (Stored.num .uint256 (2 ^ 256 - 1)).wf genTags exEnv = true := by decide
example : (Stored.cap (.id 1 7 (.reference (.entSet 0 [[65], [66]]) (.composite (.address 1 [67]) [67, 46, 82]) none))).wf
    genTags exEnv = true := by decide
example : (Stored.storageCapCon (.reference .unauthorized (.intersection [(.address 1 [67], [67, 46, 73])]) none) 3 1 [118]).wf
    genTags exEnv = true := by decide
example : (SType.dictionary (.primitive 8) (.optional (.constantSized 3 (.capability (.primitive 36))))).wf genTags = true := by
  decide
/-- the deprecated primitive code is *not* well-formed: it decodes to `Capability` without a borrow type -/
example : (SType.primitive Verif.Gen.StoredTags.prim_Capability).wf genTags = false := by decide

end Verif.Properties.C44
