import Verif.Proofs.Slabs
/-!
# C23 — Committed storage is always healthy  (protocol level; **partial**)

Model: `Verif.Model.Slabs` — an abstract slab heap (slab ↦ child pointers, one root per account, the
values held by the running transaction) with the pointer operations the interpreter performs on
atree's storage.  The theorems are about the *protocol* (which pointer operations are performed, in
which order), not about atree: slab encoding, splitting / inlining and atree's own bookkeeping are
trusted and exercised from outside by stream `health`, where `Storage.CheckHealth` on a fresh storage
over the ledger is the oracle after every transaction.

What is proved: the reference-count invariant `RefInv` (every existing slab is referenced exactly once
— by a parent, an account root, or the running program — nothing else is referenced, identifiers are
distinct, an account has at most one root) holds after every sequence of protocol operations, from
the empty ledger.  What is missing for the full statement of the property (hence partial):
acyclicity (so that "referenced exactly once" implies "reachable from an account root"), and that
nothing is left held at commit (checked per history by the driver on the concrete model run, not
proved for all histories).
-/
namespace Verif.Properties.C23
open Verif.Model.Slabs

/-- Each protocol operation preserves the invariant, applied as the interpreter applies it
    (move = remove then insert, also across accounts; overwrite = remove old, deep-remove it, insert new;
    destroy = deep removal by repeated `dissolve`). -/
theorem step_preserves (h : Heap) (op : Op) (hi : RefInv h) : RefInv (step h op) :=
  Verif.Proofs.Slabs.inv_step op hi

/-- **Health invariant (protocol level)**: after any sequence of protocol operations starting from the
    empty ledger, every slab is referenced exactly once and nothing else is referenced. -/
theorem health_invariant (ops : List Op) : RefInv (run Heap.empty ops) :=
  Verif.Proofs.Slabs.inv_run ops Verif.Proofs.Slabs.inv_empty

/-- … and from any state that satisfies the invariant (induction over operation sequences). -/
theorem health_invariant_from (h : Heap) (ops : List Op) (hi : RefInv h) : RefInv (run h ops) :=
  Verif.Proofs.Slabs.inv_run ops hi

/-- One step of a deep removal preserves the invariant (the slab is freed, its children are handed to
    the program, which must go on removing them). -/
theorem dissolve_preserves (h : Heap) (c : SlabID) (hi : RefInv h) : RefInv (dissolve h c) :=
  Verif.Proofs.Slabs.inv_dissolve c hi

/-! Non-vacuity: a history with nesting, a move between accounts, an overwrite and a destruction ends
    healthy; the two protocol violations the property is about do not. -/
def exOps : List Op :=
  [.newRoot 1, .newRoot 2, .create, .create, .insert 3 4, .insert 1 3, .move 1 2 3, .create, .insert 2 5,
   .create, .overwrite 3 4 6, .remove 2 5, .destroy 5]

example : (run Heap.empty exOps).healthy = true := by decide
example : (run Heap.empty exOps).ids.length = 4 := by decide

/-- a removal that forgets the deep removal leaves an unreferenced slab (`forget`) -/
theorem missed_deep_removal_witness :
    (forget (run Heap.empty [.newRoot 1, .create, .insert 1 2, .remove 1 2]) 2).healthy = false := by decide

/-- a transfer that forgets to remove leaves a slab referenced twice (`alias`) -/
theorem missed_remove_on_transfer_witness :
    (alias (run Heap.empty [.newRoot 1, .newRoot 2, .create, .insert 1 3]) 2 3).healthy = false := by decide

/-- a copy that keeps the pointer of the value it was copied from (`alias`) and is then moved on with
`remove := true` (remove + deep removal of what it points to) frees the original's slab: the parent is
left with a dangling pointer (a cached storable handed over to the copy of an optional) -/
theorem stale_pointer_copy_witness :
    let h := run Heap.empty [.newRoot 1, .create, .insert 1 2, .create, .insert 2 3]
    let h' := destroy (removeChild (alias h 2 3) 2 3) 3
    h.healthy = true ∧ h'.healthy = false ∧ h'.children 2 = some [3] ∧ h'.children 3 = none := by decide

end Verif.Properties.C23
