import Verif.Proofs.Text
import Verif.Proofs.TextBytes
import Verif.Proofs.TextFix
/-!
C17 — Textual and byte encodings of numbers round-trip.

Model: `Verif.Model.Text` (hand port of `format/*.go`, `interpreter.StringValueParsers`,
`fixedpoint/parse.go`, `values/big.go` and the `New<T>ValueFromBigEndianBytes` constructors), tied to
the Go code by the `text` stream.  Spec of `fromString`: `Verif.Spec.Text.specFromString` (grammar
selected by `(signed, fixed)`, then representability in `T`).

Not proved here (stated, with the proved `_partial` beside them):
* `string_roundtrip` for the four fixed-point types, and `grammar_width_independent` for them — the
  latter is *false* of the current code (`fraction_unscaled_witness`, known finding
  `fixed-fromstring-fraction-compared-unscaled`); the stream compares both on every generated input.
  The known finding does not touch the round trip: `toString` always writes exactly `scale`
  fractional digits (`fixed_toString_shape`), so the fraction `CheckRange` compares *is* at the type's
  scale for every printed value; the remaining steps (`splitDot`, the sign of `-0.x`, `CheckRange` on
  truncated quotient / remainder, the final wrap) are compared by the stream (ops `rts`).
* addresses, hex strings and paths are not modelled.
-/
namespace Verif.Properties.C17
open Verif.Model.NumT Verif.Model.Text Verif.Spec.Text Verif.Proofs.Text

/-- Full statement: `∀ T x, T.inRange x → fromString T (toString T x) = some x`.
    Proved for the 20 integer types (all widths, `Int` and `UInt` included); for the four fixed-point
    types see `fixed_toString_shape` (first half of the argument). -/
theorem string_roundtrip_partial (t : NumTy) (ht : t.fixed = false) (x : Int) (h : t.inRange x) :
    fromString t (Verif.Model.Text.toString t x) = some x :=
  string_roundtrip_int t ht x h

example : fromString .int8 (Verif.Model.Text.toString .int8 (-128)) = some (-128) :=
  string_roundtrip_partial .int8 rfl (-128) (by decide)
example : fromString .uint256 (Verif.Model.Text.toString .uint256 (2 ^ 256 - 1)) = some (2 ^ 256 - 1) :=
  string_roundtrip_partial .uint256 rfl _ (by decide)
example : fromString .int8 "-128".toList = some (-128) ∧ fromString .int8 "-129".toList = none := by decide
example : fromString .fix64 "-0.50000000".toList = some (-50000000) := by decide

/-- Full statement: for every `T`, `fromString T s = (lexNumber (signed T) (fixed T) s).bind (value T)` —
    which strings are accepted depends on `T` only through the two bits `(signed, fixed)`, apart from
    the representability check `value T`.  Proved for the 20 integer types: the three parser families
    (`strconv.ParseInt`, `strconv.ParseUint`, `big.Int.SetString` with the sign-prefix guard) all
    implement the same grammar. -/
theorem grammar_width_independent_partial (t : NumTy) (ht : t.fixed = false) (s : List Char) :
    fromString t s = (lexNumber t.signed t.fixed s).bind (value t) :=
  fromString_int_eq t ht s

/-- consequence: two integer types of the same signedness accept exactly the same strings, up to range -/
theorem same_grammar_same_signedness (t u : NumTy) (ht : t.fixed = false) (hu : u.fixed = false)
    (hs : t.signed = u.signed) (s : List Char) :
    (lexNumber t.signed t.fixed s).isSome = (lexNumber u.signed u.fixed s).isSome
    ∧ (∀ v, fromString t s = some v → u.inRange v → fromString u s = some v) := by
  rw [ht, hu, hs]
  refine ⟨rfl, ?_⟩
  intro v hv hr
  rw [fromString_int_eq t ht] at hv
  rw [fromString_int_eq u hu]
  unfold specFromString at *
  rw [ht, hs] at hv; rw [hu]
  cases hl : lexNumber u.signed false s with
  | none => simp [hl] at hv
  | some l =>
    simp only [hl, Option.bind_some] at hv ⊢
    have st : t.scale = 0 := by cases t <;> simp [NumTy.fixed, NumTy.kind] at ht <;> rfl
    have su : u.scale = 0 := by cases u <;> simp [NumTy.fixed, NumTy.kind] at hu <;> rfl
    unfold value at *
    rw [st] at hv; rw [su]
    split_ifs at hv ⊢ <;> simp_all

example : fromString .uint128 "+1".toList = none ∧ fromString .uint64 "+1".toList = none
    ∧ fromString .word256 "-0".toList = none ∧ fromString .uint "-1".toList = none
    ∧ fromString .int128 "+1".toList = some 1 ∧ fromString .int8 "+1".toList = some 1 := by decide

/-- What `toString` of a fixed-point value looks like, for every raw value: an integer text, a dot, then
    **exactly `scale` digits** whose value is the magnitude of the truncated fractional part.  Hence
    `fromString` of a printed value sees `parsedScale = scale`: the region of the known finding
    (fraction written with fewer than `scale` digits, compared unscaled) is never produced by `toString`. -/
theorem fixed_toString_shape (t : NumTy) (ht : t.fixed = true) (x : Int) :
    ∃ ip fp, Verif.Model.Text.toString t x = ip ++ '.' :: fp ∧ fp.length = t.scale ∧ fp.all isDigit = true ∧
      ofDigits fp = (Int.tmod x ((10 : Int) ^ t.scale)).natAbs :=
  fixText_shape t ht x

/-- The known finding, proved of the model: the fixed-point parser accepts an out-of-range string whose
    fraction has fewer digits than the scale and returns a wrapped value; the grammar spec says `nil`. -/
theorem fraction_unscaled_witness :
    fromString .fix64 "92233720368.6".toList = some (-9223372036849551616)
    ∧ specFromString .fix64 "92233720368.6".toList = none
    ∧ fromString .ufix64 "184467440737.1".toList = some 448384
    ∧ specFromString .ufix64 "184467440737.1".toList = none := by decide

/-- `fromBigEndianBytes` returns `nil` exactly for inputs longer than the type's size (never for the
    unbounded `Int` / `UInt`). -/
theorem bytes_nil_iff (t : NumTy) (b : List UInt8) :
    fromBigEndianBytes t b = none ↔ (t.byteSize ≠ 0 ∧ b.length > t.byteSize) :=
  bytes_nil_iff' t b

example : fromBigEndianBytes .int16 [1, 2, 3] = none ∧ fromBigEndianBytes .int16 [0xff] = some 255
    ∧ fromBigEndianBytes .int [1, 2, 3] = some 66051 := by decide

/-- **Byte round trip, all 24 types**: `T.fromBigEndianBytes(x.toBigEndianBytes()) = x` for every `x` of
    `T`.  The 8..64-bit integers and words and the four fixed-point types are written as fixed-width
    two's complement and read back through `padWithZeroes`; `Int` / `UInt` are written in the minimal
    signed / unsigned form (`values.SignedBigIntToBigEndianBytes`: complemented magnitude of `-x-1`, a
    sign byte added when the top bit would lie) and read by `BigEndianBytesToSignedBigInt` /
    `SetBytes`; the 128/256-bit integers and words are written at fixed width and read by the same
    unpadded readers. -/
theorem bytes_roundtrip (t : NumTy) (x : Int) (h : t.inRange x) :
    fromBigEndianBytes t (toBigEndianBytes t x) = some x := by
  have pad : ∀ (u : NumTy), u.bits ≠ 0 → (u.bits ≤ 64 ∨ u.fixed = true) → u.inRange x →
      fromBigEndianBytes u (toBigEndianBytes u x) = some x := fun u hb hp hu => bytes_roundtrip_padded u hb hp x hu
  cases t
  case int => exact roundtrip_int x
  case uint => exact roundtrip_uint x (unsigned_nonneg .uint rfl x h)
  case int128 =>
    simp [NumTy.inRange, NumTy.belowMin, NumTy.aboveMax, NumTy.minRaw, NumTy.maxRaw, NumTy.signed, NumTy.kind, NumTy.bits] at h
    exact roundtrip_sbig .int128 16 rfl rfl (by omega) (by decide) rfl x (by omega) (by omega)
  case int256 =>
    simp [NumTy.inRange, NumTy.belowMin, NumTy.aboveMax, NumTy.minRaw, NumTy.maxRaw, NumTy.signed, NumTy.kind, NumTy.bits] at h
    exact roundtrip_sbig .int256 32 rfl rfl (by omega) (by decide) rfl x (by omega) (by omega)
  case uint128 =>
    simp [NumTy.inRange, NumTy.belowMin, NumTy.aboveMax, NumTy.minRaw, NumTy.maxRaw, NumTy.signed, NumTy.kind, NumTy.bits] at h
    exact roundtrip_ubig .uint128 16 rfl rfl (by decide) (by decide) rfl x (by omega) (by omega)
  case uint256 =>
    simp [NumTy.inRange, NumTy.belowMin, NumTy.aboveMax, NumTy.minRaw, NumTy.maxRaw, NumTy.signed, NumTy.kind, NumTy.bits] at h
    exact roundtrip_ubig .uint256 32 rfl rfl (by decide) (by decide) rfl x (by omega) (by omega)
  case word128 =>
    simp [NumTy.inRange, NumTy.belowMin, NumTy.aboveMax, NumTy.minRaw, NumTy.maxRaw, NumTy.signed, NumTy.kind, NumTy.bits] at h
    exact roundtrip_ubig .word128 16 rfl rfl (by decide) (by decide) rfl x (by omega) (by omega)
  case word256 =>
    simp [NumTy.inRange, NumTy.belowMin, NumTy.aboveMax, NumTy.minRaw, NumTy.maxRaw, NumTy.signed, NumTy.kind, NumTy.bits] at h
    exact roundtrip_ubig .word256 32 rfl rfl (by decide) (by decide) rfl x (by omega) (by omega)
  all_goals exact pad _ (by decide) (by decide) h

example : NumTy.int.inRange (-129) ∧ NumTy.int256.inRange (-(2 ^ 255)) ∧ NumTy.word256.inRange (2 ^ 256 - 1) ∧
    fromBigEndianBytes .int [0xff, 0x7f] = some (-129) ∧ fromBigEndianBytes .int [0x00, 0x80] = some 128 := by decide
example : toBigEndianBytes .int16 (-2) = [0xff, 0xfe] ∧ fromBigEndianBytes .int16 [0xff, 0xfe] = some (-2) := by decide
example : fromBigEndianBytes .int128 (toBigEndianBytes .int128 (-(2 ^ 127))) = some (-(2 ^ 127)) := by decide

end Verif.Properties.C17
