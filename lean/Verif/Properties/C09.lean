/-
C09 — Dynamic casts and run-time type tests agree.

Model: Verif.Model.Cast (ports of VisitCastingExpression / castValueAndValueType / Unbox / BoxOptional /
the AnyStruct arm of convert / IsInstance / ValueGetType / MetaTypeIsSubType and of member forwarding
through references) over the subtype relation of Verif.Model.Types.Subtype with the pinned rules.
-/
import Verif.Model.Cast
import Verif.Proofs.Cast
import Verif.Properties.C08
namespace Verif.Properties.C09
open Verif.Model.Types Verif.Model.Auth Verif.Model.Cast

abbrev R : List Rule := RulesPinned.rules

/-- n optional layers around a value -/
def wrap : Nat → DVal → DVal
  | 0, v => v
  | n + 1, v => .some (wrap n v)

/-- `as?` succeeds exactly when `isInstance` is true, exactly when the dynamic type is a subtype of the
    target (in the checker's relation, which is also what `getType().isSubtype(of:)` answers), and then
    the result is the value converted and boxed to the target — the value itself when the target is not
    optional and no entitlement stripping applies.  **Partial**: ephemeral references are excluded
    (`ref_witness`), besides optionals and storage references, which the property excludes.
    Full statement (NOT true of the code): the same with `v.isEphemeralRef` allowed. -/
theorem cast_iff_instance_partial (v : DVal) (t : Ty) (fuel : Nat)
    (hopt : ∀ u, dynType v ≠ .opt u) (href : v.isEphemeralRef = false) :
    ((castFailable R (fuel + 3) v t).isSome = isInstance R (fuel + 3) v t) ∧
    (isInstance R (fuel + 3) v t = isSub R (fuel + 3) (dynType v) t) ∧
    (getTypeIsSubtype R (fuel + 3) v t = isSub R (fuel + 3) (dynType v) t) ∧
    (∀ r, castFailable R (fuel + 3) v t = some r → r = castResult t v) := by
  have hunbox : unbox v = v := by
    cases v <;> first | rfl | (exact absurd rfl (hopt _))
  have hv : unboxForCast t v = v := by
    unfold unboxForCast; split <;> simp [hunbox]
  have hinst : isInstance R (fuel + 3) v t = isSubRuntime R (fuel + 3) (dynType v) t := by
    cases v <;> first | rfl | simp [DVal.isEphemeralRef] at href
  have hget : getType v = dynType v := by
    cases v <;> first | rfl | simp [DVal.isEphemeralRef] at href
  have hrt := Verif.Properties.C08.runtime_agrees_partial (dynType v) t fuel hopt
  refine ⟨?_, ?_, ?_, ?_⟩
  · rw [hinst, hrt]
    simp only [castFailable, hv]
    split <;> simp_all
  · rw [hinst, hrt]
  · simp [getTypeIsSubtype, hget]
  · intro r hr
    simp only [castFailable, hv] at hr
    split at hr
    · exact (Option.some.inj hr).symm
    · cases hr

/-- A successful cast yields the original value, **partial**: for values whose type contains no
    reference type, and non-optional targets (an optional target boxes the value).  Full statement
    (NOT true of the code, see `nested_auth_witness`): all non-optional, non-storage-reference values. -/
theorem cast_result_is_value_partial (ty : Ty) (r : String) (t : Ty)
    (hnr : noRef ty = true) (ht : ∀ u, t ≠ .opt u) :
    castResult t (.atom ty r) = .atom ty r := by
  have hconv : convertForTarget t (.atom ty r) = .atom ty r := by
    simp only [convertForTarget, Verif.Proofs.Cast.strip_noRef ty hnr, Verif.Proofs.Cast.apply_noRef ty hnr]
    split
    · rfl
    · split <;> rfl
  unfold castResult
  simp only [hconv]
  cases t <;> first | rfl | exact absurd rfl (ht _)

/-- **Known finding.**  A cast converts the value to the target's nested authorizations, so a
    successful cast of an array of authorized references does *not* yield the original value:
    `([&n] as [auth(E) &Int]) as? [&Int]` succeeds with an array of static type `[&Int]`, and
    `as? AnyStruct` / `as? [AnyStruct]` likewise (entitlements are deliberately not recoverable). -/
theorem nested_auth_witness :
    let ty : Ty := .varArr (.ref (.set .conj ["E"]) (.prim "Int"))
    let v : DVal := .atom ty "[&n]"
    ∀ t ∈ [Ty.varArr (.ref unauthorized (.prim "Int")), .varArr (.prim "AnyStruct"), .prim "AnyStruct"],
      castFailable R 100 v t = some (.atom (.varArr (.ref unauthorized (.prim "Int"))) "[&n]") := by
  decide

/-- **Known finding.**  For an ephemeral reference `isInstance` is answered by the *referent*:
    `(&S() as &S).isInstance(Type<S>())` is true and `.isInstance(Type<&S>())` is false, while `as? S`
    fails and `as? &S` succeeds — the opposite verdicts — for the unauthorized and an authorized reference. -/
theorem ref_witness :
    let s : Ty := .comp "S" .struct [] false
    let v (a : Access String) : DVal := .ref a (.atom s "S()")
    ∀ a ∈ [unauthorized, Access.set .conj ["E"]],
      isInstance R 100 (v a) s = true ∧ (castFailable R 100 (v a) s).isSome = false ∧
      isInstance R 100 (v a) (.ref unauthorized s) = false ∧ (castFailable R 100 (v a) (.ref unauthorized s)).isSome = true := by
  decide

/-- **Known finding (corner).**  A nil value cast to an optional type succeeds — with the value nil:
    `nil as? Int8?` is `Some(nil)`, which a program cannot tell from the nil of a failed cast, while
    `nil as! Int8?` succeeds. -/
theorem nil_cast_witness :
    castFailable R 100 .nilV (.opt (.prim "Int8")) = some .nilV ∧
    (castForce R 100 .nilV (.opt (.prim "Int8"))).toOption = some .nilV := by
  decide

/-- `as!` fails exactly when `as?` yields nil, and otherwise gives the same value. -/
theorem force_iff (v : DVal) (t : Ty) (fuel : Nat) :
    (castForce R fuel v t).toOption = castFailable R fuel v t := by
  simp only [castForce, castFailable]
  split <;> rfl

/-- Casts unwrap optional values, at every nesting depth, unless the target is `AnyStruct` /
    `AnyResource` or an optional of them … -/
theorem unwrap_rule (n : Nat) (v : DVal) (t : Ty) (fuel : Nat)
    (ht : isAnyStructOrResource (unwrapOptionalType t) = false) :
    castFailable R fuel (wrap n v) t = castFailable R fuel v t := by
  have h : ∀ n, unbox (wrap n v) = unbox v := by
    intro n; induction n with
    | zero => rfl
    | succ k ih => simpa [wrap, unbox] using ih
  simp [castFailable, unboxForCast, ht, h]

/-- … in which case the value is tested as it is, optional layers included. -/
theorem unwrap_rule_any (v : DVal) (t : Ty) (fuel : Nat)
    (ht : isAnyStructOrResource (unwrapOptionalType t) = true) :
    castFailable R fuel v t = if isSub R fuel (dynType v) t then some (castResult t v) else none := by
  simp [castFailable, unboxForCast, ht]

/-! Non-vacuity / teeth -/
example : (castFailable R 100 (.atom (.prim "Int8") "1") (.prim "Integer")) = some (.atom (.prim "Int8") "1") := by decide
example : (castFailable R 100 (.atom (.prim "Int8") "1") (.prim "String")) = none := by decide
example : (castFailable R 100 (.some (.some (.atom (.prim "Int8") "1"))) (.prim "Integer")) = some (.atom (.prim "Int8") "1") := by decide
example : (castFailable R 100 (.some (.atom (.prim "Int8") "1")) (.prim "AnyStruct")) = some (.some (.atom (.prim "Int8") "1")) := by decide
example : (castFailable R 100 (.atom (.prim "Int8") "1") (.opt (.prim "Integer"))) = some (.some (.atom (.prim "Int8") "1")) := by decide
example : isInstance R 100 (.atom (.prim "Int8") "1") (.prim "Integer") = true := by decide

end Verif.Properties.C09
