/-
C09 — Dynamic casts and run-time type tests agree.

Model: Verif.Model.Cast (ports of VisitCastingExpression / castValueAndValueType / Unbox / BoxOptional /
the AnyStruct arm of convert / IsInstance / ValueGetType / MetaTypeIsSubType and of member forwarding
through references) over the subtype relation of Verif.Model.Types.Subtype with the pinned rules.
-/
import Verif.Model.Cast
import Verif.Proofs.Cast
import Verif.Properties.C08
namespace Verif.Properties.C09
open Verif.Model.Types Verif.Model.Auth Verif.Model.Cast

abbrev R : List Rule := RulesPinned.rules

/-- n optional layers around a value -/
abbrev wrap : Nat → DVal → DVal := someN

/-- `as?` succeeds exactly when `isInstance` is true, exactly when the dynamic type is a subtype of the
    target (in the checker's relation, which is also what `getType().isSubtype(of:)` answers), and then
    the result is the value converted and boxed to the target — the value itself when the target is not
    optional and no entitlement stripping applies.  **Partial**: ephemeral references are excluded
    (`ref_witness`), besides optionals and storage references, which the property excludes.
    Full statement (NOT true of the code): the same with `v.isEphemeralRef` allowed. -/
theorem cast_iff_instance_partial (v : DVal) (t : Ty) (fuel : Nat)
    (hopt : ∀ u, dynType v ≠ .opt u) (href : v.isEphemeralRef = false) :
    ((castFailable R (fuel + 3) v t).isSome = isInstance R (fuel + 3) v t) ∧
    (isInstance R (fuel + 3) v t = isSub R (fuel + 3) (dynType v) t) ∧
    (getTypeIsSubtype R (fuel + 3) v t = isSub R (fuel + 3) (dynType v) t) ∧
    (∀ r, castFailable R (fuel + 3) v t = some r → r = castResult t v) := by
  have hunbox : unbox v = v := by
    cases v <;> first | rfl | (exact absurd rfl (hopt _))
  have hv : unboxForCast t v = v := by
    unfold unboxForCast; split <;> simp [hunbox]
  have hinst : isInstance R (fuel + 3) v t = isSubRuntime R (fuel + 3) (dynType v) t := by
    cases v <;> first | rfl | simp [DVal.isEphemeralRef] at href
  have hget : getType v = dynType v := by
    cases v <;> first | rfl | simp [DVal.isEphemeralRef] at href
  have hrt := Verif.Properties.C08.runtime_agrees_partial (dynType v) t fuel hopt
  refine ⟨?_, ?_, ?_, ?_⟩
  · rw [hinst, hrt]
    simp only [castFailable, hv]
    split <;> simp_all
  · rw [hinst, hrt]
  · simp [getTypeIsSubtype, hget]
  · intro r hr
    simp only [castFailable, hv] at hr
    split at hr
    · exact (Option.some.inj hr).symm
    · cases hr

/-- A successful cast yields the original value, **partial**: for values whose type contains no
    reference type, and non-optional targets (an optional target boxes the value).  Full statement
    (NOT true of the code, see `nested_auth_witness`): all non-optional, non-storage-reference values. -/
theorem cast_result_is_value_partial (ty : Ty) (r : String) (t : Ty)
    (hnr : noRef ty = true) (ht : ∀ u, t ≠ .opt u) :
    castResult t (.atom ty r) = .atom ty r := by
  have hconv : convertForTarget t (.atom ty r) = .atom ty r := by
    simp only [convertForTarget, Verif.Proofs.Cast.strip_noRef ty hnr, Verif.Proofs.Cast.apply_noRef ty hnr]
    split
    · rfl
    · split <;> rfl
  unfold castResult
  simp only [hconv]
  cases t <;> first | rfl | exact absurd rfl (ht _)

/-- **Known finding.**  A cast converts the value to the target's nested authorizations, so a
    successful cast of an array of authorized references does *not* yield the original value:
    `([&n] as [auth(E) &Int]) as? [&Int]` succeeds with an array of static type `[&Int]`, and
    `as? AnyStruct` / `as? [AnyStruct]` likewise (entitlements are deliberately not recoverable). -/
theorem nested_auth_witness :
    let ty : Ty := .varArr (.ref (.set .conj ["E"]) (.prim "Int"))
    let v : DVal := .atom ty "[&n]"
    ∀ t ∈ [Ty.varArr (.ref unauthorized (.prim "Int")), .varArr (.prim "AnyStruct"), .prim "AnyStruct"],
      castFailable R 100 v t = some (.atom (.varArr (.ref unauthorized (.prim "Int"))) "[&n]") := by
  decide

/-- **Known finding.**  For an ephemeral reference `isInstance` is answered by the *referent*:
    `(&S() as &S).isInstance(Type<S>())` is true and `.isInstance(Type<&S>())` is false, while `as? S`
    fails and `as? &S` succeeds — the opposite verdicts — for the unauthorized and an authorized reference. -/
theorem ref_witness :
    let s : Ty := .comp "S" .struct [] false
    let v (a : Access String) : DVal := .ref a (.atom s "S()")
    ∀ a ∈ [unauthorized, Access.set .conj ["E"]],
      isInstance R 100 (v a) s = true ∧ (castFailable R 100 (v a) s).isSome = false ∧
      isInstance R 100 (v a) (.ref unauthorized s) = false ∧ (castFailable R 100 (v a) (.ref unauthorized s)).isSome = true := by
  decide

/-- **Known finding (corner).**  A nil value cast to an optional type succeeds — with the value nil:
    `nil as? Int8?` is `Some(nil)`, which a program cannot tell from the nil of a failed cast, while
    `nil as! Int8?` succeeds. -/
theorem nil_cast_witness :
    castFailable R 100 .nilV (.opt (.prim "Int8")) = some .nilV ∧
    (castForce R 100 .nilV (.opt (.prim "Int8"))).toOption = some .nilV := by
  decide

/-- `as!` fails exactly when `as?` yields nil, and otherwise gives the same value. -/
theorem force_iff (v : DVal) (t : Ty) (fuel : Nat) :
    (castForce R fuel v t).toOption = castFailable R fuel v t := by
  simp only [castForce, castFailable]
  split <;> rfl

/-- Casts unwrap optional values, at every nesting depth, unless the target is `AnyStruct` /
    `AnyResource` or an optional of them … -/
theorem unwrap_rule (n : Nat) (v : DVal) (t : Ty) (fuel : Nat)
    (ht : isAnyStructOrResource (unwrapOptionalType t) = false) :
    castFailable R fuel (wrap n v) t = castFailable R fuel v t := by
  have h : ∀ n, unbox (wrap n v) = unbox v := by
    intro n; induction n with
    | zero => rfl
    | succ k ih => simpa [someN, unbox] using ih
  simp [castFailable, unboxForCast, ht, h]

/-- … in which case the value is tested as it is, optional layers included. -/
theorem unwrap_rule_any (v : DVal) (t : Ty) (fuel : Nat)
    (ht : isAnyStructOrResource (unwrapOptionalType t) = true) :
    castFailable R fuel v t = if isSub R fuel (dynType v) t then some (castResult t v) else none := by
  simp [castFailable, unboxForCast, ht]

/-- **The optional rule, on the result** (the value a successful cast yields, for every value that is not
    nil and whose type mentions no reference, resources included): a value with `n` optional layers cast
    to a target with `m` optional layers around a non-optional `u` gives the *original* innermost value —
    with `max n m` layers when `u` is `AnyStruct` / `AnyResource` (the value keeps its layers, the target
    adds the missing ones: `Some(Some(R))` to `AnyResource?` stays `Some(Some(R))`, an `AnyResource` that is an
    `R?`), with exactly `m` layers otherwise (the value's layers are unwrapped first).  Its run-time type is
    `specResultType`, the independent statement of the rule the stream's direct oracle evaluates.
    `boxOptional` / `convertForTarget` / `unboxForCast` are the ported code. -/
theorem cast_result_type (n m : Nat) (ty u : Ty) (r : String)
    (hnr : noRef ty = true) (hu : ∀ x, u ≠ .opt x) :
    castResult (optN m u) (unboxForCast (optN m u) (wrap n (.atom ty r))) =
      wrap (if isAnyStructOrResource u then max n m else m) (.atom ty r) ∧
    dynType (castResult (optN m u) (unboxForCast (optN m u) (wrap n (.atom ty r)))) =
      specResultType (wrap n (.atom ty r)) (optN m u) := by
  have hres : castResult (optN m u) (unboxForCast (optN m u) (wrap n (.atom ty r))) =
      wrap (if isAnyStructOrResource u then max n m else m) (.atom ty r) := by
    unfold castResult unboxForCast
    rw [Verif.Proofs.Cast.unwrap_optN m u hu]
    by_cases hany : isAnyStructOrResource u = true
    · simp only [hany, if_true, Verif.Proofs.Cast.convert_someN_noRef _ n ty r hnr,
        Verif.Proofs.Cast.box_someN ty r u hu m n n]
      congr 1
      omega
    · have hany' : isAnyStructOrResource u = false := by simpa using hany
      have hunb : unbox (wrap n (.atom ty r)) = someN 0 (.atom ty r) := by
        rw [Verif.Proofs.Cast.unbox_someN]; rfl
      simp only [hany', Bool.false_eq_true, if_false]
      rw [hunb, Verif.Proofs.Cast.convert_someN_noRef _ 0 ty r hnr, Verif.Proofs.Cast.box_someN ty r u hu m 0 0]
      simp
  refine ⟨hres, ?_⟩
  rw [hres]
  simp only [specResultType, Verif.Proofs.Cast.unwrap_optN m u hu, Verif.Proofs.Cast.optDepth_optN m u hu,
    Verif.Proofs.Cast.depth_someN_atom, Verif.Proofs.Cast.unbox_someN, Verif.Proofs.Cast.dynType_someN]
  by_cases hany : isAnyStructOrResource u = true
  · simp [hany, unbox, dynType]
  · simp [hany, unbox, dynType]

/-- **Both engines**: the VM's casts (`opFailableCast` / `opForceCast` test the run-time relation on static
    types) give what the interpreter's give (the checker's relation on the converted types) whenever the
    value the cast looks at — after the optional rule — is not of an optional type.  **Partial**: optional
    values cast to `AnyStruct` / `AnyResource` (or optionals of them) keep their layers; see
    `engines_agree_kindstable_partial` for those and `nil_anyresource_witness` for where it fails. -/
theorem engines_agree_partial (v : DVal) (t : Ty) (fuel : Nat)
    (h : ∀ u, dynType (unboxForCast t v) ≠ .opt u) :
    castFailableVM R (fuel + 3) v t = castFailable R (fuel + 3) v t ∧
    castForceVM R (fuel + 3) v t = castForce R (fuel + 3) v t := by
  refine ⟨?_, ?_⟩ <;>
    simp only [castFailableVM, castFailable, castForceVM, castForce,
      Verif.Properties.C08.runtime_agrees_partial _ t fuel h]

/-- … and for optional values too, as long as the type of the value the cast looks at is well-formed,
    kind-stable (no `Never` below a constructor) and `Any`-free, and the target well-formed.  **Partial**:
    outside lies exactly `nil_anyresource_witness`. -/
theorem engines_agree_kindstable_partial (v : DVal) (t : Ty) (n : Nat)
    (hv : (dynType (unboxForCast t v)).wf = true) (ht : t.wf = true)
    (hna : (dynType (unboxForCast t v)).noAny = true) (hst : kindStable (dynType (unboxForCast t v)) = true)
    (hn : fuelFor (dynType (unboxForCast t v)) t ≤ n) :
    castFailableVM R n v t = castFailable R n v t ∧ castForceVM R n v t = castForce R n v t := by
  refine ⟨?_, ?_⟩ <;>
    simp only [castFailableVM, castFailable, castForceVM, castForce,
      Verif.Properties.C08.runtime_agrees_kindstable_partial _ t hv ht hna hst n hn]

/-- **Known finding.**  A nil value (of a resource-typed optional, `let v: @R? <- nil`) cast to
    `AnyResource`: the interpreter's `as?` yields nil and its `as!` aborts (`Never?` is not resource-kinded
    for the checker's relation), the VM's `as?` / `as!` succeed (the run-time relation unwraps the optional
    first: `Never <: AnyResource`), and `isInstance` is true in both.  C08's
    `runtime_optional_never_witness` seen through casts. -/
theorem nil_anyresource_witness :
    castFailable R 100 .nilV (.prim "AnyResource") = none ∧
    castFailableVM R 100 .nilV (.prim "AnyResource") = some .nilV ∧
    (castForce R 100 .nilV (.prim "AnyResource")).toOption = none ∧
    (castForceVM R 100 .nilV (.prim "AnyResource")).toOption = some .nilV ∧
    isInstance R 100 .nilV (.prim "AnyResource") = true := by
  decide

/-- the VM's `as!` fails exactly when its `as?` yields nil, and otherwise gives the same value -/
theorem force_iff_vm (v : DVal) (t : Ty) (fuel : Nat) :
    (castForceVM R fuel v t).toOption = castFailableVM R fuel v t := by
  simp only [castForceVM, castFailableVM]
  split <;> rfl

/-! Non-vacuity / teeth -/
-- resources: `Some(Some(R))` cast to `AnyResource?` keeps both layers (the `AnyResource` is an `R?`) …
example :
    let r : Ty := .comp "R" .resource ["RI"] false
    castFailable R 100 (wrap 2 (.atom r "R()")) (.opt (.prim "AnyResource")) = some (wrap 2 (.atom r "R()")) ∧
    castFailableVM R 100 (wrap 2 (.atom r "R()")) (.opt (.prim "AnyResource")) = some (wrap 2 (.atom r "R()")) := by decide
-- … cast to `R?` it is unwrapped and boxed once, cast to `{RI}` it is the bare `R`, cast to `R2` it fails
example :
    let r : Ty := .comp "R" .resource ["RI"] false
    castFailable R 100 (wrap 2 (.atom r "R()")) (.opt r) = some (wrap 1 (.atom r "R()")) ∧
    castFailable R 100 (wrap 2 (.atom r "R()")) (.inter [{ name := "RI", kind := .resource, confs := [] }]) = some (.atom r "R()") ∧
    castFailable R 100 (wrap 2 (.atom r "R()")) (.comp "R2" .resource [] false) = none := by decide
example : specResultType (wrap 2 (.atom (.comp "R" .resource ["RI"] false) "")) (.opt (.prim "AnyResource")) =
    .opt (.opt (.comp "R" .resource ["RI"] false)) := by decide
-- overlapping two-entitlement sets are different authorizations: not instances, not castable
example :
    let v : DVal := .atom (.varArr (.ref (.set .conj ["E", "F"]) (.prim "Int"))) "[&n]"
    let t : Ty := .varArr (.ref (.set .conj ["E", "G"]) (.prim "Int"))
    isInstance R 100 v t = false ∧ castFailable R 100 v t = none ∧ castFailableVM R 100 v t = none := by decide
example :
    let v : DVal := .atom (.varArr (.ref (.set .disj ["E", "F"]) (.prim "Int"))) "[&n]"
    let t : Ty := .varArr (.ref (.set .disj ["E", "G"]) (.prim "Int"))
    isInstance R 100 v t = false ∧ castFailable R 100 v t = none ∧
    (castFailable R 100 v (.varArr (.ref (.set .disj ["E", "F", "G"]) (.prim "Int")))).isSome = true := by decide
example : (castFailable R 100 (.atom (.prim "Int8") "1") (.prim "Integer")) = some (.atom (.prim "Int8") "1") := by decide
example : (castFailable R 100 (.atom (.prim "Int8") "1") (.prim "String")) = none := by decide
example : (castFailable R 100 (.some (.some (.atom (.prim "Int8") "1"))) (.prim "Integer")) = some (.atom (.prim "Int8") "1") := by decide
example : (castFailable R 100 (.some (.atom (.prim "Int8") "1")) (.prim "AnyStruct")) = some (.some (.atom (.prim "Int8") "1")) := by decide
example : (castFailable R 100 (.atom (.prim "Int8") "1") (.opt (.prim "Integer"))) = some (.some (.atom (.prim "Int8") "1")) := by decide
example : isInstance R 100 (.atom (.prim "Int8") "1") (.prim "Integer") = true := by decide

end Verif.Properties.C09
