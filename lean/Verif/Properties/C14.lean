/-
C14 — Bitwise operations and shifts follow two's-complement semantics.

For every integer type T (Int8..Int256, UInt8..UInt256, Word8..Word256, Int, UInt) the *generated*
definitions `Verif.Gen.NumGo.<T>Value.Bitwise{And,Or,Xor,LeftShift,RightShift}` (regenerated from
interpreter/value_*.go on every run) equal the specification of `Verif.Spec.ArithBits` on all operands
of the type:
* `& | ^` = the operation on the n-bit two's-complement patterns of the operands, read back as a value
  of the type (for Int / UInt: at *every* width that holds both operands);
* `a << k` = `a * 2^k` reduced to the width (exact for Int / UInt), `a >> k` = `⌊a / 2^k⌋`, for every
  shift amount `k ≥ 0` of the type — no bound on `k`; `k < 0` is the negative-shift error; Int / UInt
  fail with overflow exactly when `k ≥ 2^64`.
Only statements and their final proofs live here; lemmas are in Verif.Proofs.ArithBits.
-/
import Verif.Proofs.ArithBits
set_option linter.unusedVariables false
namespace Verif.Properties.C14
open Verif.Model.Num Verif.Spec.Arith Verif.Spec.ArithBits Verif.Gen.NumGo Verif.Proofs.ArithBits

/-! ### Int8 -/

theorem C14_Int8_and (a b : Int) (ha : inRange (.int 8) a) (hb : inRange (.int 8) b) :
    Int8Value.BitwiseAnd a b = specBitop (.int 8) .and a b := by
  unfold Int8Value.BitwiseAnd; exact congrArg Except.ok (bitop_signed 8 (by decide) a b ha hb).1

theorem C14_Int8_or (a b : Int) (ha : inRange (.int 8) a) (hb : inRange (.int 8) b) :
    Int8Value.BitwiseOr a b = specBitop (.int 8) .or a b := by
  unfold Int8Value.BitwiseOr; exact congrArg Except.ok (bitop_signed 8 (by decide) a b ha hb).2.1

theorem C14_Int8_xor (a b : Int) (ha : inRange (.int 8) a) (hb : inRange (.int 8) b) :
    Int8Value.BitwiseXor a b = specBitop (.int 8) .xor a b := by
  unfold Int8Value.BitwiseXor; exact congrArg Except.ok (bitop_signed 8 (by decide) a b ha hb).2.2

theorem C14_Int8_shl (a k : Int) (ha : inRange (.int 8) a) (hk : inRange (.int 8) k) :
    Int8Value.BitwiseLeftShift a k = specShl (.int 8) a k := by
  unfold Int8Value.BitwiseLeftShift specShl
  by_cases h : k < 0
  · rw [if_pos h, if_pos h]
  · rw [if_neg h, if_neg h]; exact congrArg Except.ok (shl_native_s 8 (by decide) a k (by omega))

theorem C14_Int8_shr (a k : Int) (ha : inRange (.int 8) a) (hk : inRange (.int 8) k) :
    Int8Value.BitwiseRightShift a k = specShr (.int 8) a k := by
  have r := inRange_wide (.int 8) 8 rfl a ha
  unfold Int8Value.BitwiseRightShift specShr
  by_cases h : k < 0
  · rw [if_pos h, if_pos h]
  · rw [if_neg h, if_neg h]; exact congrArg Except.ok (shr_native 8 a k (by omega) r.1 r.2)

/-! ### Int16 -/

theorem C14_Int16_and (a b : Int) (ha : inRange (.int 16) a) (hb : inRange (.int 16) b) :
    Int16Value.BitwiseAnd a b = specBitop (.int 16) .and a b := by
  unfold Int16Value.BitwiseAnd; exact congrArg Except.ok (bitop_signed 16 (by decide) a b ha hb).1

theorem C14_Int16_or (a b : Int) (ha : inRange (.int 16) a) (hb : inRange (.int 16) b) :
    Int16Value.BitwiseOr a b = specBitop (.int 16) .or a b := by
  unfold Int16Value.BitwiseOr; exact congrArg Except.ok (bitop_signed 16 (by decide) a b ha hb).2.1

theorem C14_Int16_xor (a b : Int) (ha : inRange (.int 16) a) (hb : inRange (.int 16) b) :
    Int16Value.BitwiseXor a b = specBitop (.int 16) .xor a b := by
  unfold Int16Value.BitwiseXor; exact congrArg Except.ok (bitop_signed 16 (by decide) a b ha hb).2.2

theorem C14_Int16_shl (a k : Int) (ha : inRange (.int 16) a) (hk : inRange (.int 16) k) :
    Int16Value.BitwiseLeftShift a k = specShl (.int 16) a k := by
  unfold Int16Value.BitwiseLeftShift specShl
  by_cases h : k < 0
  · rw [if_pos h, if_pos h]
  · rw [if_neg h, if_neg h]; exact congrArg Except.ok (shl_native_s 16 (by decide) a k (by omega))

theorem C14_Int16_shr (a k : Int) (ha : inRange (.int 16) a) (hk : inRange (.int 16) k) :
    Int16Value.BitwiseRightShift a k = specShr (.int 16) a k := by
  have r := inRange_wide (.int 16) 16 rfl a ha
  unfold Int16Value.BitwiseRightShift specShr
  by_cases h : k < 0
  · rw [if_pos h, if_pos h]
  · rw [if_neg h, if_neg h]; exact congrArg Except.ok (shr_native 16 a k (by omega) r.1 r.2)

/-! ### Int32 -/

theorem C14_Int32_and (a b : Int) (ha : inRange (.int 32) a) (hb : inRange (.int 32) b) :
    Int32Value.BitwiseAnd a b = specBitop (.int 32) .and a b := by
  unfold Int32Value.BitwiseAnd; exact congrArg Except.ok (bitop_signed 32 (by decide) a b ha hb).1

theorem C14_Int32_or (a b : Int) (ha : inRange (.int 32) a) (hb : inRange (.int 32) b) :
    Int32Value.BitwiseOr a b = specBitop (.int 32) .or a b := by
  unfold Int32Value.BitwiseOr; exact congrArg Except.ok (bitop_signed 32 (by decide) a b ha hb).2.1

theorem C14_Int32_xor (a b : Int) (ha : inRange (.int 32) a) (hb : inRange (.int 32) b) :
    Int32Value.BitwiseXor a b = specBitop (.int 32) .xor a b := by
  unfold Int32Value.BitwiseXor; exact congrArg Except.ok (bitop_signed 32 (by decide) a b ha hb).2.2

theorem C14_Int32_shl (a k : Int) (ha : inRange (.int 32) a) (hk : inRange (.int 32) k) :
    Int32Value.BitwiseLeftShift a k = specShl (.int 32) a k := by
  unfold Int32Value.BitwiseLeftShift specShl
  by_cases h : k < 0
  · rw [if_pos h, if_pos h]
  · rw [if_neg h, if_neg h]; exact congrArg Except.ok (shl_native_s 32 (by decide) a k (by omega))

theorem C14_Int32_shr (a k : Int) (ha : inRange (.int 32) a) (hk : inRange (.int 32) k) :
    Int32Value.BitwiseRightShift a k = specShr (.int 32) a k := by
  have r := inRange_wide (.int 32) 32 rfl a ha
  unfold Int32Value.BitwiseRightShift specShr
  by_cases h : k < 0
  · rw [if_pos h, if_pos h]
  · rw [if_neg h, if_neg h]; exact congrArg Except.ok (shr_native 32 a k (by omega) r.1 r.2)

/-! ### Int64 -/

theorem C14_Int64_and (a b : Int) (ha : inRange (.int 64) a) (hb : inRange (.int 64) b) :
    Int64Value.BitwiseAnd a b = specBitop (.int 64) .and a b := by
  unfold Int64Value.BitwiseAnd; exact congrArg Except.ok (bitop_signed 64 (by decide) a b ha hb).1

theorem C14_Int64_or (a b : Int) (ha : inRange (.int 64) a) (hb : inRange (.int 64) b) :
    Int64Value.BitwiseOr a b = specBitop (.int 64) .or a b := by
  unfold Int64Value.BitwiseOr; exact congrArg Except.ok (bitop_signed 64 (by decide) a b ha hb).2.1

theorem C14_Int64_xor (a b : Int) (ha : inRange (.int 64) a) (hb : inRange (.int 64) b) :
    Int64Value.BitwiseXor a b = specBitop (.int 64) .xor a b := by
  unfold Int64Value.BitwiseXor; exact congrArg Except.ok (bitop_signed 64 (by decide) a b ha hb).2.2

theorem C14_Int64_shl (a k : Int) (ha : inRange (.int 64) a) (hk : inRange (.int 64) k) :
    Int64Value.BitwiseLeftShift a k = specShl (.int 64) a k := by
  unfold Int64Value.BitwiseLeftShift specShl
  by_cases h : k < 0
  · rw [if_pos h, if_pos h]
  · rw [if_neg h, if_neg h]; exact congrArg Except.ok (shl_native_s 64 (by decide) a k (by omega))

theorem C14_Int64_shr (a k : Int) (ha : inRange (.int 64) a) (hk : inRange (.int 64) k) :
    Int64Value.BitwiseRightShift a k = specShr (.int 64) a k := by
  have r := inRange_wide (.int 64) 64 rfl a ha
  unfold Int64Value.BitwiseRightShift specShr
  by_cases h : k < 0
  · rw [if_pos h, if_pos h]
  · rw [if_neg h, if_neg h]; exact congrArg Except.ok (shr_native 64 a k (by omega) r.1 r.2)

/-! ### Int128 -/

theorem C14_Int128_and (a b : Int) (ha : inRange (.int 128) a) (hb : inRange (.int 128) b) :
    Int128Value.BitwiseAnd a b = specBitop (.int 128) .and a b := by
  unfold Int128Value.BitwiseAnd; exact congrArg Except.ok (bitop_signed 128 (by decide) a b ha hb).1

theorem C14_Int128_or (a b : Int) (ha : inRange (.int 128) a) (hb : inRange (.int 128) b) :
    Int128Value.BitwiseOr a b = specBitop (.int 128) .or a b := by
  unfold Int128Value.BitwiseOr; exact congrArg Except.ok (bitop_signed 128 (by decide) a b ha hb).2.1

theorem C14_Int128_xor (a b : Int) (ha : inRange (.int 128) a) (hb : inRange (.int 128) b) :
    Int128Value.BitwiseXor a b = specBitop (.int 128) .xor a b := by
  unfold Int128Value.BitwiseXor; exact congrArg Except.ok (bitop_signed 128 (by decide) a b ha hb).2.2

theorem C14_Int128_shl (a k : Int) (ha : inRange (.int 128) a) (hk : inRange (.int 128) k) :
    Int128Value.BitwiseLeftShift a k = specShl (.int 128) a k := by
  unfold Int128Value.BitwiseLeftShift specShl
  exact shl_big_s 128 2 _ 128 (by decide) (by decide) (by decide) (by decide) (by decide) a k

theorem C14_Int128_shr (a k : Int) (ha : inRange (.int 128) a) (hk : inRange (.int 128) k) :
    Int128Value.BitwiseRightShift a k = specShr (.int 128) a k := by
  have r := inRange_wide (.int 128) 128 rfl a ha
  unfold Int128Value.BitwiseRightShift specShr
  exact shr_big 128 (by decide) a k r.1 r.2

/-! ### Int256 -/

theorem C14_Int256_and (a b : Int) (ha : inRange (.int 256) a) (hb : inRange (.int 256) b) :
    Int256Value.BitwiseAnd a b = specBitop (.int 256) .and a b := by
  unfold Int256Value.BitwiseAnd; exact congrArg Except.ok (bitop_signed 256 (by decide) a b ha hb).1

theorem C14_Int256_or (a b : Int) (ha : inRange (.int 256) a) (hb : inRange (.int 256) b) :
    Int256Value.BitwiseOr a b = specBitop (.int 256) .or a b := by
  unfold Int256Value.BitwiseOr; exact congrArg Except.ok (bitop_signed 256 (by decide) a b ha hb).2.1

theorem C14_Int256_xor (a b : Int) (ha : inRange (.int 256) a) (hb : inRange (.int 256) b) :
    Int256Value.BitwiseXor a b = specBitop (.int 256) .xor a b := by
  unfold Int256Value.BitwiseXor; exact congrArg Except.ok (bitop_signed 256 (by decide) a b ha hb).2.2

theorem C14_Int256_shl (a k : Int) (ha : inRange (.int 256) a) (hk : inRange (.int 256) k) :
    Int256Value.BitwiseLeftShift a k = specShl (.int 256) a k := by
  unfold Int256Value.BitwiseLeftShift specShl
  exact shl_big_s 256 4 _ 256 (by decide) (by decide) (by decide) (by decide) (by decide) a k

theorem C14_Int256_shr (a k : Int) (ha : inRange (.int 256) a) (hk : inRange (.int 256) k) :
    Int256Value.BitwiseRightShift a k = specShr (.int 256) a k := by
  have r := inRange_wide (.int 256) 256 rfl a ha
  unfold Int256Value.BitwiseRightShift specShr
  exact shr_big 256 (by decide) a k r.1 r.2

/-! ### UInt8 -/

theorem C14_UInt8_and (a b : Int) (ha : inRange (.uint 8) a) (hb : inRange (.uint 8) b) :
    UInt8Value.BitwiseAnd a b = specBitop (.uint 8) .and a b := by
  unfold UInt8Value.BitwiseAnd; exact congrArg Except.ok (bitop_unsigned 8 a b ha.1 ha.2 hb.1 hb.2).1

theorem C14_UInt8_or (a b : Int) (ha : inRange (.uint 8) a) (hb : inRange (.uint 8) b) :
    UInt8Value.BitwiseOr a b = specBitop (.uint 8) .or a b := by
  unfold UInt8Value.BitwiseOr; exact congrArg Except.ok (bitop_unsigned 8 a b ha.1 ha.2 hb.1 hb.2).2.1

theorem C14_UInt8_xor (a b : Int) (ha : inRange (.uint 8) a) (hb : inRange (.uint 8) b) :
    UInt8Value.BitwiseXor a b = specBitop (.uint 8) .xor a b := by
  unfold UInt8Value.BitwiseXor; exact congrArg Except.ok (bitop_unsigned 8 a b ha.1 ha.2 hb.1 hb.2).2.2

theorem C14_UInt8_shl (a k : Int) (ha : inRange (.uint 8) a) (hk : inRange (.uint 8) k) :
    UInt8Value.BitwiseLeftShift a k = specShl (.uint 8) a k := by
  unfold UInt8Value.BitwiseLeftShift specShl
  rw [if_neg (by have := hk.1; omega)]; exact congrArg Except.ok (shl_native_u 8 a k hk.1)

theorem C14_UInt8_shr (a k : Int) (ha : inRange (.uint 8) a) (hk : inRange (.uint 8) k) :
    UInt8Value.BitwiseRightShift a k = specShr (.uint 8) a k := by
  have r := inRange_wide (.uint 8) 8 rfl a ha
  unfold UInt8Value.BitwiseRightShift specShr
  rw [if_neg (by have := hk.1; omega)]; exact congrArg Except.ok (shr_native 8 a k hk.1 r.1 r.2)

/-! ### UInt16 -/

theorem C14_UInt16_and (a b : Int) (ha : inRange (.uint 16) a) (hb : inRange (.uint 16) b) :
    UInt16Value.BitwiseAnd a b = specBitop (.uint 16) .and a b := by
  unfold UInt16Value.BitwiseAnd; exact congrArg Except.ok (bitop_unsigned 16 a b ha.1 ha.2 hb.1 hb.2).1

theorem C14_UInt16_or (a b : Int) (ha : inRange (.uint 16) a) (hb : inRange (.uint 16) b) :
    UInt16Value.BitwiseOr a b = specBitop (.uint 16) .or a b := by
  unfold UInt16Value.BitwiseOr; exact congrArg Except.ok (bitop_unsigned 16 a b ha.1 ha.2 hb.1 hb.2).2.1

theorem C14_UInt16_xor (a b : Int) (ha : inRange (.uint 16) a) (hb : inRange (.uint 16) b) :
    UInt16Value.BitwiseXor a b = specBitop (.uint 16) .xor a b := by
  unfold UInt16Value.BitwiseXor; exact congrArg Except.ok (bitop_unsigned 16 a b ha.1 ha.2 hb.1 hb.2).2.2

theorem C14_UInt16_shl (a k : Int) (ha : inRange (.uint 16) a) (hk : inRange (.uint 16) k) :
    UInt16Value.BitwiseLeftShift a k = specShl (.uint 16) a k := by
  unfold UInt16Value.BitwiseLeftShift specShl
  rw [if_neg (by have := hk.1; omega)]; exact congrArg Except.ok (shl_native_u 16 a k hk.1)

theorem C14_UInt16_shr (a k : Int) (ha : inRange (.uint 16) a) (hk : inRange (.uint 16) k) :
    UInt16Value.BitwiseRightShift a k = specShr (.uint 16) a k := by
  have r := inRange_wide (.uint 16) 16 rfl a ha
  unfold UInt16Value.BitwiseRightShift specShr
  rw [if_neg (by have := hk.1; omega)]; exact congrArg Except.ok (shr_native 16 a k hk.1 r.1 r.2)

/-! ### UInt32 -/

theorem C14_UInt32_and (a b : Int) (ha : inRange (.uint 32) a) (hb : inRange (.uint 32) b) :
    UInt32Value.BitwiseAnd a b = specBitop (.uint 32) .and a b := by
  unfold UInt32Value.BitwiseAnd; exact congrArg Except.ok (bitop_unsigned 32 a b ha.1 ha.2 hb.1 hb.2).1

theorem C14_UInt32_or (a b : Int) (ha : inRange (.uint 32) a) (hb : inRange (.uint 32) b) :
    UInt32Value.BitwiseOr a b = specBitop (.uint 32) .or a b := by
  unfold UInt32Value.BitwiseOr; exact congrArg Except.ok (bitop_unsigned 32 a b ha.1 ha.2 hb.1 hb.2).2.1

theorem C14_UInt32_xor (a b : Int) (ha : inRange (.uint 32) a) (hb : inRange (.uint 32) b) :
    UInt32Value.BitwiseXor a b = specBitop (.uint 32) .xor a b := by
  unfold UInt32Value.BitwiseXor; exact congrArg Except.ok (bitop_unsigned 32 a b ha.1 ha.2 hb.1 hb.2).2.2

theorem C14_UInt32_shl (a k : Int) (ha : inRange (.uint 32) a) (hk : inRange (.uint 32) k) :
    UInt32Value.BitwiseLeftShift a k = specShl (.uint 32) a k := by
  unfold UInt32Value.BitwiseLeftShift specShl
  rw [if_neg (by have := hk.1; omega)]; exact congrArg Except.ok (shl_native_u 32 a k hk.1)

theorem C14_UInt32_shr (a k : Int) (ha : inRange (.uint 32) a) (hk : inRange (.uint 32) k) :
    UInt32Value.BitwiseRightShift a k = specShr (.uint 32) a k := by
  have r := inRange_wide (.uint 32) 32 rfl a ha
  unfold UInt32Value.BitwiseRightShift specShr
  rw [if_neg (by have := hk.1; omega)]; exact congrArg Except.ok (shr_native 32 a k hk.1 r.1 r.2)

/-! ### UInt64 -/

theorem C14_UInt64_and (a b : Int) (ha : inRange (.uint 64) a) (hb : inRange (.uint 64) b) :
    UInt64Value.BitwiseAnd a b = specBitop (.uint 64) .and a b := by
  unfold UInt64Value.BitwiseAnd; exact congrArg Except.ok (bitop_unsigned 64 a b ha.1 ha.2 hb.1 hb.2).1

theorem C14_UInt64_or (a b : Int) (ha : inRange (.uint 64) a) (hb : inRange (.uint 64) b) :
    UInt64Value.BitwiseOr a b = specBitop (.uint 64) .or a b := by
  unfold UInt64Value.BitwiseOr; exact congrArg Except.ok (bitop_unsigned 64 a b ha.1 ha.2 hb.1 hb.2).2.1

theorem C14_UInt64_xor (a b : Int) (ha : inRange (.uint 64) a) (hb : inRange (.uint 64) b) :
    UInt64Value.BitwiseXor a b = specBitop (.uint 64) .xor a b := by
  unfold UInt64Value.BitwiseXor; exact congrArg Except.ok (bitop_unsigned 64 a b ha.1 ha.2 hb.1 hb.2).2.2

theorem C14_UInt64_shl (a k : Int) (ha : inRange (.uint 64) a) (hk : inRange (.uint 64) k) :
    UInt64Value.BitwiseLeftShift a k = specShl (.uint 64) a k := by
  unfold UInt64Value.BitwiseLeftShift specShl
  rw [if_neg (by have := hk.1; omega)]; exact congrArg Except.ok (shl_native_u 64 a k hk.1)

theorem C14_UInt64_shr (a k : Int) (ha : inRange (.uint 64) a) (hk : inRange (.uint 64) k) :
    UInt64Value.BitwiseRightShift a k = specShr (.uint 64) a k := by
  have r := inRange_wide (.uint 64) 64 rfl a ha
  unfold UInt64Value.BitwiseRightShift specShr
  rw [if_neg (by have := hk.1; omega)]; exact congrArg Except.ok (shr_native 64 a k hk.1 r.1 r.2)

/-! ### UInt128 -/

theorem C14_UInt128_and (a b : Int) (ha : inRange (.uint 128) a) (hb : inRange (.uint 128) b) :
    UInt128Value.BitwiseAnd a b = specBitop (.uint 128) .and a b := by
  unfold UInt128Value.BitwiseAnd; exact congrArg Except.ok (bitop_unsigned 128 a b ha.1 ha.2 hb.1 hb.2).1

theorem C14_UInt128_or (a b : Int) (ha : inRange (.uint 128) a) (hb : inRange (.uint 128) b) :
    UInt128Value.BitwiseOr a b = specBitop (.uint 128) .or a b := by
  unfold UInt128Value.BitwiseOr; exact congrArg Except.ok (bitop_unsigned 128 a b ha.1 ha.2 hb.1 hb.2).2.1

theorem C14_UInt128_xor (a b : Int) (ha : inRange (.uint 128) a) (hb : inRange (.uint 128) b) :
    UInt128Value.BitwiseXor a b = specBitop (.uint 128) .xor a b := by
  unfold UInt128Value.BitwiseXor; exact congrArg Except.ok (bitop_unsigned 128 a b ha.1 ha.2 hb.1 hb.2).2.2

theorem C14_UInt128_shl (a k : Int) (ha : inRange (.uint 128) a) (hk : inRange (.uint 128) k) :
    UInt128Value.BitwiseLeftShift a k = specShl (.uint 128) a k := by
  unfold UInt128Value.BitwiseLeftShift specShl
  exact shl_big_u 128 2 128 (by decide) (by decide) (by decide) a k ha.1

theorem C14_UInt128_shr (a k : Int) (ha : inRange (.uint 128) a) (hk : inRange (.uint 128) k) :
    UInt128Value.BitwiseRightShift a k = specShr (.uint 128) a k := by
  have r := inRange_wide (.uint 128) 128 rfl a ha
  unfold UInt128Value.BitwiseRightShift specShr
  exact shr_big_u 128 (by decide) a k ha.1 r.2

/-! ### UInt256 -/

theorem C14_UInt256_and (a b : Int) (ha : inRange (.uint 256) a) (hb : inRange (.uint 256) b) :
    UInt256Value.BitwiseAnd a b = specBitop (.uint 256) .and a b := by
  unfold UInt256Value.BitwiseAnd; exact congrArg Except.ok (bitop_unsigned 256 a b ha.1 ha.2 hb.1 hb.2).1

theorem C14_UInt256_or (a b : Int) (ha : inRange (.uint 256) a) (hb : inRange (.uint 256) b) :
    UInt256Value.BitwiseOr a b = specBitop (.uint 256) .or a b := by
  unfold UInt256Value.BitwiseOr; exact congrArg Except.ok (bitop_unsigned 256 a b ha.1 ha.2 hb.1 hb.2).2.1

theorem C14_UInt256_xor (a b : Int) (ha : inRange (.uint 256) a) (hb : inRange (.uint 256) b) :
    UInt256Value.BitwiseXor a b = specBitop (.uint 256) .xor a b := by
  unfold UInt256Value.BitwiseXor; exact congrArg Except.ok (bitop_unsigned 256 a b ha.1 ha.2 hb.1 hb.2).2.2

theorem C14_UInt256_shl (a k : Int) (ha : inRange (.uint 256) a) (hk : inRange (.uint 256) k) :
    UInt256Value.BitwiseLeftShift a k = specShl (.uint 256) a k := by
  unfold UInt256Value.BitwiseLeftShift specShl
  exact shl_big_u 256 4 256 (by decide) (by decide) (by decide) a k ha.1

theorem C14_UInt256_shr (a k : Int) (ha : inRange (.uint 256) a) (hk : inRange (.uint 256) k) :
    UInt256Value.BitwiseRightShift a k = specShr (.uint 256) a k := by
  have r := inRange_wide (.uint 256) 256 rfl a ha
  unfold UInt256Value.BitwiseRightShift specShr
  exact shr_big_u 256 (by decide) a k ha.1 r.2

/-! ### Word8 -/

theorem C14_Word8_and (a b : Int) (ha : inRange (.word 8) a) (hb : inRange (.word 8) b) :
    Word8Value.BitwiseAnd a b = specBitop (.word 8) .and a b := by
  unfold Word8Value.BitwiseAnd; exact congrArg Except.ok (bitop_unsigned 8 a b ha.1 ha.2 hb.1 hb.2).1

theorem C14_Word8_or (a b : Int) (ha : inRange (.word 8) a) (hb : inRange (.word 8) b) :
    Word8Value.BitwiseOr a b = specBitop (.word 8) .or a b := by
  unfold Word8Value.BitwiseOr; exact congrArg Except.ok (bitop_unsigned 8 a b ha.1 ha.2 hb.1 hb.2).2.1

theorem C14_Word8_xor (a b : Int) (ha : inRange (.word 8) a) (hb : inRange (.word 8) b) :
    Word8Value.BitwiseXor a b = specBitop (.word 8) .xor a b := by
  unfold Word8Value.BitwiseXor; exact congrArg Except.ok (bitop_unsigned 8 a b ha.1 ha.2 hb.1 hb.2).2.2

theorem C14_Word8_shl (a k : Int) (ha : inRange (.word 8) a) (hk : inRange (.word 8) k) :
    Word8Value.BitwiseLeftShift a k = specShl (.word 8) a k := by
  unfold Word8Value.BitwiseLeftShift specShl
  rw [if_neg (by have := hk.1; omega)]; exact congrArg Except.ok (shl_native_u 8 a k hk.1)

theorem C14_Word8_shr (a k : Int) (ha : inRange (.word 8) a) (hk : inRange (.word 8) k) :
    Word8Value.BitwiseRightShift a k = specShr (.word 8) a k := by
  have r := inRange_wide (.word 8) 8 rfl a ha
  unfold Word8Value.BitwiseRightShift specShr
  rw [if_neg (by have := hk.1; omega)]; exact congrArg Except.ok (shr_native 8 a k hk.1 r.1 r.2)

/-! ### Word16 -/

theorem C14_Word16_and (a b : Int) (ha : inRange (.word 16) a) (hb : inRange (.word 16) b) :
    Word16Value.BitwiseAnd a b = specBitop (.word 16) .and a b := by
  unfold Word16Value.BitwiseAnd; exact congrArg Except.ok (bitop_unsigned 16 a b ha.1 ha.2 hb.1 hb.2).1

theorem C14_Word16_or (a b : Int) (ha : inRange (.word 16) a) (hb : inRange (.word 16) b) :
    Word16Value.BitwiseOr a b = specBitop (.word 16) .or a b := by
  unfold Word16Value.BitwiseOr; exact congrArg Except.ok (bitop_unsigned 16 a b ha.1 ha.2 hb.1 hb.2).2.1

theorem C14_Word16_xor (a b : Int) (ha : inRange (.word 16) a) (hb : inRange (.word 16) b) :
    Word16Value.BitwiseXor a b = specBitop (.word 16) .xor a b := by
  unfold Word16Value.BitwiseXor; exact congrArg Except.ok (bitop_unsigned 16 a b ha.1 ha.2 hb.1 hb.2).2.2

theorem C14_Word16_shl (a k : Int) (ha : inRange (.word 16) a) (hk : inRange (.word 16) k) :
    Word16Value.BitwiseLeftShift a k = specShl (.word 16) a k := by
  unfold Word16Value.BitwiseLeftShift specShl
  rw [if_neg (by have := hk.1; omega)]; exact congrArg Except.ok (shl_native_u 16 a k hk.1)

theorem C14_Word16_shr (a k : Int) (ha : inRange (.word 16) a) (hk : inRange (.word 16) k) :
    Word16Value.BitwiseRightShift a k = specShr (.word 16) a k := by
  have r := inRange_wide (.word 16) 16 rfl a ha
  unfold Word16Value.BitwiseRightShift specShr
  rw [if_neg (by have := hk.1; omega)]; exact congrArg Except.ok (shr_native 16 a k hk.1 r.1 r.2)

/-! ### Word32 -/

theorem C14_Word32_and (a b : Int) (ha : inRange (.word 32) a) (hb : inRange (.word 32) b) :
    Word32Value.BitwiseAnd a b = specBitop (.word 32) .and a b := by
  unfold Word32Value.BitwiseAnd; exact congrArg Except.ok (bitop_unsigned 32 a b ha.1 ha.2 hb.1 hb.2).1

theorem C14_Word32_or (a b : Int) (ha : inRange (.word 32) a) (hb : inRange (.word 32) b) :
    Word32Value.BitwiseOr a b = specBitop (.word 32) .or a b := by
  unfold Word32Value.BitwiseOr; exact congrArg Except.ok (bitop_unsigned 32 a b ha.1 ha.2 hb.1 hb.2).2.1

theorem C14_Word32_xor (a b : Int) (ha : inRange (.word 32) a) (hb : inRange (.word 32) b) :
    Word32Value.BitwiseXor a b = specBitop (.word 32) .xor a b := by
  unfold Word32Value.BitwiseXor; exact congrArg Except.ok (bitop_unsigned 32 a b ha.1 ha.2 hb.1 hb.2).2.2

theorem C14_Word32_shl (a k : Int) (ha : inRange (.word 32) a) (hk : inRange (.word 32) k) :
    Word32Value.BitwiseLeftShift a k = specShl (.word 32) a k := by
  unfold Word32Value.BitwiseLeftShift specShl
  rw [if_neg (by have := hk.1; omega)]; exact congrArg Except.ok (shl_native_u 32 a k hk.1)

theorem C14_Word32_shr (a k : Int) (ha : inRange (.word 32) a) (hk : inRange (.word 32) k) :
    Word32Value.BitwiseRightShift a k = specShr (.word 32) a k := by
  have r := inRange_wide (.word 32) 32 rfl a ha
  unfold Word32Value.BitwiseRightShift specShr
  rw [if_neg (by have := hk.1; omega)]; exact congrArg Except.ok (shr_native 32 a k hk.1 r.1 r.2)

/-! ### Word64 -/

theorem C14_Word64_and (a b : Int) (ha : inRange (.word 64) a) (hb : inRange (.word 64) b) :
    Word64Value.BitwiseAnd a b = specBitop (.word 64) .and a b := by
  unfold Word64Value.BitwiseAnd; exact congrArg Except.ok (bitop_unsigned 64 a b ha.1 ha.2 hb.1 hb.2).1

theorem C14_Word64_or (a b : Int) (ha : inRange (.word 64) a) (hb : inRange (.word 64) b) :
    Word64Value.BitwiseOr a b = specBitop (.word 64) .or a b := by
  unfold Word64Value.BitwiseOr; exact congrArg Except.ok (bitop_unsigned 64 a b ha.1 ha.2 hb.1 hb.2).2.1

theorem C14_Word64_xor (a b : Int) (ha : inRange (.word 64) a) (hb : inRange (.word 64) b) :
    Word64Value.BitwiseXor a b = specBitop (.word 64) .xor a b := by
  unfold Word64Value.BitwiseXor; exact congrArg Except.ok (bitop_unsigned 64 a b ha.1 ha.2 hb.1 hb.2).2.2

theorem C14_Word64_shl (a k : Int) (ha : inRange (.word 64) a) (hk : inRange (.word 64) k) :
    Word64Value.BitwiseLeftShift a k = specShl (.word 64) a k := by
  unfold Word64Value.BitwiseLeftShift specShl
  rw [if_neg (by have := hk.1; omega)]; exact congrArg Except.ok (shl_native_u 64 a k hk.1)

theorem C14_Word64_shr (a k : Int) (ha : inRange (.word 64) a) (hk : inRange (.word 64) k) :
    Word64Value.BitwiseRightShift a k = specShr (.word 64) a k := by
  have r := inRange_wide (.word 64) 64 rfl a ha
  unfold Word64Value.BitwiseRightShift specShr
  rw [if_neg (by have := hk.1; omega)]; exact congrArg Except.ok (shr_native 64 a k hk.1 r.1 r.2)

/-! ### Word128 -/

theorem C14_Word128_and (a b : Int) (ha : inRange (.word 128) a) (hb : inRange (.word 128) b) :
    Word128Value.BitwiseAnd a b = specBitop (.word 128) .and a b := by
  unfold Word128Value.BitwiseAnd; exact congrArg Except.ok (bitop_unsigned 128 a b ha.1 ha.2 hb.1 hb.2).1

theorem C14_Word128_or (a b : Int) (ha : inRange (.word 128) a) (hb : inRange (.word 128) b) :
    Word128Value.BitwiseOr a b = specBitop (.word 128) .or a b := by
  unfold Word128Value.BitwiseOr; exact congrArg Except.ok (bitop_unsigned 128 a b ha.1 ha.2 hb.1 hb.2).2.1

theorem C14_Word128_xor (a b : Int) (ha : inRange (.word 128) a) (hb : inRange (.word 128) b) :
    Word128Value.BitwiseXor a b = specBitop (.word 128) .xor a b := by
  unfold Word128Value.BitwiseXor; exact congrArg Except.ok (bitop_unsigned 128 a b ha.1 ha.2 hb.1 hb.2).2.2

theorem C14_Word128_shl (a k : Int) (ha : inRange (.word 128) a) (hk : inRange (.word 128) k) :
    Word128Value.BitwiseLeftShift a k = specShl (.word 128) a k := by
  unfold Word128Value.BitwiseLeftShift specShl
  exact shl_big_u 128 2 128 (by decide) (by decide) (by decide) a k ha.1

theorem C14_Word128_shr (a k : Int) (ha : inRange (.word 128) a) (hk : inRange (.word 128) k) :
    Word128Value.BitwiseRightShift a k = specShr (.word 128) a k := by
  have r := inRange_wide (.word 128) 128 rfl a ha
  unfold Word128Value.BitwiseRightShift specShr
  exact shr_big_u 128 (by decide) a k ha.1 r.2

/-! ### Word256 -/

theorem C14_Word256_and (a b : Int) (ha : inRange (.word 256) a) (hb : inRange (.word 256) b) :
    Word256Value.BitwiseAnd a b = specBitop (.word 256) .and a b := by
  unfold Word256Value.BitwiseAnd; exact congrArg Except.ok (bitop_unsigned 256 a b ha.1 ha.2 hb.1 hb.2).1

theorem C14_Word256_or (a b : Int) (ha : inRange (.word 256) a) (hb : inRange (.word 256) b) :
    Word256Value.BitwiseOr a b = specBitop (.word 256) .or a b := by
  unfold Word256Value.BitwiseOr; exact congrArg Except.ok (bitop_unsigned 256 a b ha.1 ha.2 hb.1 hb.2).2.1

theorem C14_Word256_xor (a b : Int) (ha : inRange (.word 256) a) (hb : inRange (.word 256) b) :
    Word256Value.BitwiseXor a b = specBitop (.word 256) .xor a b := by
  unfold Word256Value.BitwiseXor; exact congrArg Except.ok (bitop_unsigned 256 a b ha.1 ha.2 hb.1 hb.2).2.2

theorem C14_Word256_shl (a k : Int) (ha : inRange (.word 256) a) (hk : inRange (.word 256) k) :
    Word256Value.BitwiseLeftShift a k = specShl (.word 256) a k := by
  unfold Word256Value.BitwiseLeftShift specShl
  exact shl_big_u 256 4 256 (by decide) (by decide) (by decide) a k ha.1

theorem C14_Word256_shr (a k : Int) (ha : inRange (.word 256) a) (hk : inRange (.word 256) k) :
    Word256Value.BitwiseRightShift a k = specShr (.word 256) a k := by
  have r := inRange_wide (.word 256) 256 rfl a ha
  unfold Word256Value.BitwiseRightShift specShr
  exact shr_big_u 256 (by decide) a k ha.1 r.2

/-! ### Int (unbounded): the bit operations at every width that holds both operands -/

theorem C14_Int_and (n : Nat) (hn : 0 < n) (a b : Int) (ha : inRange (.int n) a) (hb : inRange (.int n) b) :
    IntValue.BitwiseAnd a b = .ok (bitopAt true n .and a b) := by
  unfold IntValue.BitwiseAnd; exact congrArg Except.ok (bitop_signed n hn a b ha hb).1

/-- … in particular the executable spec used by the driver -/
theorem C14_Int_and_spec (a b : Int) : IntValue.BitwiseAnd a b = specBitop .bigInt .and a b := by
  have f := widthFor_fits a b
  exact C14_Int_and _ f.1 a b f.2.1 f.2.2

theorem C14_Int_or (n : Nat) (hn : 0 < n) (a b : Int) (ha : inRange (.int n) a) (hb : inRange (.int n) b) :
    IntValue.BitwiseOr a b = .ok (bitopAt true n .or a b) := by
  unfold IntValue.BitwiseOr; exact congrArg Except.ok (bitop_signed n hn a b ha hb).2.1

/-- … in particular the executable spec used by the driver -/
theorem C14_Int_or_spec (a b : Int) : IntValue.BitwiseOr a b = specBitop .bigInt .or a b := by
  have f := widthFor_fits a b
  exact C14_Int_or _ f.1 a b f.2.1 f.2.2

theorem C14_Int_xor (n : Nat) (hn : 0 < n) (a b : Int) (ha : inRange (.int n) a) (hb : inRange (.int n) b) :
    IntValue.BitwiseXor a b = .ok (bitopAt true n .xor a b) := by
  unfold IntValue.BitwiseXor; exact congrArg Except.ok (bitop_signed n hn a b ha hb).2.2

/-- … in particular the executable spec used by the driver -/
theorem C14_Int_xor_spec (a b : Int) : IntValue.BitwiseXor a b = specBitop .bigInt .xor a b := by
  have f := widthFor_fits a b
  exact C14_Int_xor _ f.1 a b f.2.1 f.2.2

theorem C14_Int_shl (a k : Int) : IntValue.BitwiseLeftShift a k = specShl .bigInt a k := by
  unfold IntValue.BitwiseLeftShift specShl; exact shl_unbounded a k

theorem C14_Int_shr (a k : Int) : IntValue.BitwiseRightShift a k = specShr .bigInt a k := by
  unfold IntValue.BitwiseRightShift specShr; exact shr_unbounded a k

/-! ### UInt (unbounded above) -/

theorem C14_UInt_and (n : Nat) (a b : Int) (ha : inRange (.uint n) a) (hb : inRange (.uint n) b) :
    UIntValue.BitwiseAnd a b = .ok (bitopAt false n .and a b) := by
  unfold UIntValue.BitwiseAnd; exact congrArg Except.ok (bitop_unsigned n a b ha.1 ha.2 hb.1 hb.2).1

theorem C14_UInt_and_spec (a b : Int) (ha : inRange .bigUInt a) (hb : inRange .bigUInt b) :
    UIntValue.BitwiseAnd a b = specBitop .bigUInt .and a b := by
  have f := widthFor_fits_u a b ha hb
  exact C14_UInt_and _ a b f.1 f.2

theorem C14_UInt_or (n : Nat) (a b : Int) (ha : inRange (.uint n) a) (hb : inRange (.uint n) b) :
    UIntValue.BitwiseOr a b = .ok (bitopAt false n .or a b) := by
  unfold UIntValue.BitwiseOr; exact congrArg Except.ok (bitop_unsigned n a b ha.1 ha.2 hb.1 hb.2).2.1

theorem C14_UInt_or_spec (a b : Int) (ha : inRange .bigUInt a) (hb : inRange .bigUInt b) :
    UIntValue.BitwiseOr a b = specBitop .bigUInt .or a b := by
  have f := widthFor_fits_u a b ha hb
  exact C14_UInt_or _ a b f.1 f.2

theorem C14_UInt_xor (n : Nat) (a b : Int) (ha : inRange (.uint n) a) (hb : inRange (.uint n) b) :
    UIntValue.BitwiseXor a b = .ok (bitopAt false n .xor a b) := by
  unfold UIntValue.BitwiseXor; exact congrArg Except.ok (bitop_unsigned n a b ha.1 ha.2 hb.1 hb.2).2.2

theorem C14_UInt_xor_spec (a b : Int) (ha : inRange .bigUInt a) (hb : inRange .bigUInt b) :
    UIntValue.BitwiseXor a b = specBitop .bigUInt .xor a b := by
  have f := widthFor_fits_u a b ha hb
  exact C14_UInt_xor _ a b f.1 f.2

theorem C14_UInt_shl (a k : Int) : UIntValue.BitwiseLeftShift a k = specShl .bigUInt a k := by
  unfold UIntValue.BitwiseLeftShift specShl; exact shl_unbounded a k

theorem C14_UInt_shr (a k : Int) : UIntValue.BitwiseRightShift a k = specShr .bigUInt a k := by
  unfold UIntValue.BitwiseRightShift specShr; exact shr_unbounded a k

/-! ### The driver's executable shift specs are the specs -/

theorem C14_specShlExec_eq (T : Ty) (a k : Int) : specShlExec T a k = specShl T a k :=
  specShlExec_eq T a k

theorem C14_specShrExec_eq (T : Ty) (a k : Int) (ha : inRange T a) : specShrExec T a k = specShr T a k :=
  specShrExec_eq T a k ha

/-! ### Witnesses of the two defects repaired in /repo by f845962 (now theorems of the fixed code) -/

theorem C14_fixed_shl_sign : Int128Value.BitwiseLeftShift 1 7 = .ok 128 ∧ Int128Value.BitwiseLeftShift 255 0 = .ok 255 ∧
    Int256Value.BitwiseLeftShift 1 15 = .ok 32768 := by decide

theorem C14_fixed_shr_huge : Int128Value.BitwiseRightShift (-1) (2 ^ 64) = .ok (-1) ∧
    Int256Value.BitwiseRightShift (-5) (2 ^ 64 + 1) = .ok (-1) := by decide

/-! ### Non-vacuity: hypotheses satisfiable, every branch of the specs reached -/

example : inRange (.int 8) (-128) ∧ inRange (.int 8) 127 ∧ Int8Value.BitwiseAnd (-128) 127 = .ok 0 ∧
    Int8Value.BitwiseOr (-128) 127 = .ok (-1) ∧ Int8Value.BitwiseXor (-3) 5 = .ok (-8) := by decide
example : specBitop (.int 8) .xor (-3) 5 = .ok (-8) ∧ specBitop (.uint 8) .or 200 100 = .ok 236 := by decide
example : Int8Value.BitwiseLeftShift 65 1 = .ok (-126) ∧ specShl (.int 8) 65 1 = .ok (-126) := by decide
example : Int8Value.BitwiseLeftShift 1 (-1) = .error .negativeShift ∧ Int8Value.BitwiseRightShift (-128) 9 = .ok (-1) := by decide
example : UInt8Value.BitwiseLeftShift 255 9 = .ok 0 ∧ Word8Value.BitwiseRightShift 255 7 = .ok 1 := by decide
example : Int128Value.BitwiseLeftShift (-1) 127 = .ok (-(2 ^ 127)) ∧ Int128Value.BitwiseLeftShift 3 (2 ^ 64) = .ok 0 := by decide
example : IntValue.BitwiseLeftShift 1 (2 ^ 64) = .error .overflow ∧ IntValue.BitwiseRightShift (-7) 1 = .ok (-4) := by decide
example : specBitop .bigInt .and (-(2 ^ 70)) (2 ^ 70 + 5) = .ok (2 ^ 70) := by decide

end Verif.Properties.C14
