/-
C11 — Sized integer arithmetic is exact or fails.

For every checked integer type T (Int8..Int256, UInt8..UInt256, Int, UInt) and every operation
(+ - * / %, unary minus on the signed types) the *generated* definition `Verif.Gen.NumGo.<T>Value.<Op>`
(regenerated from interpreter/value_*.go on every run) equals the exact-or-error specification
`Verif.Spec.Arith.specChecked` / `specNeg` on all operands of the type: the exact mathematical result
when representable (truncated division, remainder with the dividend's sign), otherwise overflow /
underflow, division by zero for a zero divisor — never a wrapped value, never a Go run-time panic.
Only statements and their final proofs live here; tactics and lemmas are in Verif.Proofs.Arith*.
-/
import Verif.Proofs.ArithMul
namespace Verif.Properties.C11
open Verif.Model.Num Verif.Spec.Arith Verif.Gen.NumGo Verif.Proofs.Arith

/-! ### Int8 -/

theorem C11_Int8_add (a b : Int) (ha : inRange (.int 8) a) (hb : inRange (.int 8) b) :
    Int8Value.Plus a b = specChecked (.int 8) .add a b := by
  unfold Int8Value.Plus; num_arith

theorem C11_Int8_sub (a b : Int) (ha : inRange (.int 8) a) (hb : inRange (.int 8) b) :
    Int8Value.Minus a b = specChecked (.int 8) .sub a b := by
  unfold Int8Value.Minus; num_arith

theorem C11_Int8_mul (a b : Int) (ha : inRange (.int 8) a) (hb : inRange (.int 8) b) :
    Int8Value.Mul a b = specChecked (.int 8) .mul a b := by
  unfold Int8Value.Mul; num_mul a b (127) (-128)

theorem C11_Int8_div (a b : Int) (ha : inRange (.int 8) a) (hb : inRange (.int 8) b) :
    Int8Value.Div a b = specChecked (.int 8) .div a b := by
  unfold Int8Value.Div; num_div a b

theorem C11_Int8_mod (a b : Int) (ha : inRange (.int 8) a) (hb : inRange (.int 8) b) :
    Int8Value.Mod a b = specChecked (.int 8) .mod a b := by
  unfold Int8Value.Mod; num_mod a b

theorem C11_Int8_neg (a : Int) (ha : inRange (.int 8) a) :
    Int8Value.Negate a = specNeg (.int 8) a := by
  unfold Int8Value.Negate; num_arith

/-! ### Int16 -/

theorem C11_Int16_add (a b : Int) (ha : inRange (.int 16) a) (hb : inRange (.int 16) b) :
    Int16Value.Plus a b = specChecked (.int 16) .add a b := by
  unfold Int16Value.Plus; num_arith

theorem C11_Int16_sub (a b : Int) (ha : inRange (.int 16) a) (hb : inRange (.int 16) b) :
    Int16Value.Minus a b = specChecked (.int 16) .sub a b := by
  unfold Int16Value.Minus; num_arith

theorem C11_Int16_mul (a b : Int) (ha : inRange (.int 16) a) (hb : inRange (.int 16) b) :
    Int16Value.Mul a b = specChecked (.int 16) .mul a b := by
  unfold Int16Value.Mul; num_mul a b (32767) (-32768)

theorem C11_Int16_div (a b : Int) (ha : inRange (.int 16) a) (hb : inRange (.int 16) b) :
    Int16Value.Div a b = specChecked (.int 16) .div a b := by
  unfold Int16Value.Div; num_div a b

theorem C11_Int16_mod (a b : Int) (ha : inRange (.int 16) a) (hb : inRange (.int 16) b) :
    Int16Value.Mod a b = specChecked (.int 16) .mod a b := by
  unfold Int16Value.Mod; num_mod a b

theorem C11_Int16_neg (a : Int) (ha : inRange (.int 16) a) :
    Int16Value.Negate a = specNeg (.int 16) a := by
  unfold Int16Value.Negate; num_arith

/-! ### Int32 -/

theorem C11_Int32_add (a b : Int) (ha : inRange (.int 32) a) (hb : inRange (.int 32) b) :
    Int32Value.Plus a b = specChecked (.int 32) .add a b := by
  unfold Int32Value.Plus; num_arith

theorem C11_Int32_sub (a b : Int) (ha : inRange (.int 32) a) (hb : inRange (.int 32) b) :
    Int32Value.Minus a b = specChecked (.int 32) .sub a b := by
  unfold Int32Value.Minus; num_arith

theorem C11_Int32_mul (a b : Int) (ha : inRange (.int 32) a) (hb : inRange (.int 32) b) :
    Int32Value.Mul a b = specChecked (.int 32) .mul a b := by
  unfold Int32Value.Mul; num_mul a b (2147483647) (-2147483648)

theorem C11_Int32_div (a b : Int) (ha : inRange (.int 32) a) (hb : inRange (.int 32) b) :
    Int32Value.Div a b = specChecked (.int 32) .div a b := by
  unfold Int32Value.Div; num_div a b

theorem C11_Int32_mod (a b : Int) (ha : inRange (.int 32) a) (hb : inRange (.int 32) b) :
    Int32Value.Mod a b = specChecked (.int 32) .mod a b := by
  unfold Int32Value.Mod; num_mod a b

theorem C11_Int32_neg (a : Int) (ha : inRange (.int 32) a) :
    Int32Value.Negate a = specNeg (.int 32) a := by
  unfold Int32Value.Negate; num_arith

/-! ### Int64 -/

theorem C11_Int64_add (a b : Int) (ha : inRange (.int 64) a) (hb : inRange (.int 64) b) :
    Int64Value.Plus a b = specChecked (.int 64) .add a b := by
  unfold Int64Value.Plus; num_arith

theorem C11_Int64_sub (a b : Int) (ha : inRange (.int 64) a) (hb : inRange (.int 64) b) :
    Int64Value.Minus a b = specChecked (.int 64) .sub a b := by
  unfold Int64Value.Minus; num_arith

theorem C11_Int64_mul (a b : Int) (ha : inRange (.int 64) a) (hb : inRange (.int 64) b) :
    Int64Value.Mul a b = specChecked (.int 64) .mul a b := by
  unfold Int64Value.Mul; num_mul a b (9223372036854775807) (-9223372036854775808)

theorem C11_Int64_div (a b : Int) (ha : inRange (.int 64) a) (hb : inRange (.int 64) b) :
    Int64Value.Div a b = specChecked (.int 64) .div a b := by
  unfold Int64Value.Div; num_div a b

theorem C11_Int64_mod (a b : Int) (ha : inRange (.int 64) a) (hb : inRange (.int 64) b) :
    Int64Value.Mod a b = specChecked (.int 64) .mod a b := by
  unfold Int64Value.Mod; num_mod a b

theorem C11_Int64_neg (a : Int) (ha : inRange (.int 64) a) :
    Int64Value.Negate a = specNeg (.int 64) a := by
  unfold Int64Value.Negate; num_arith

/-! ### Int128 -/

theorem C11_Int128_add (a b : Int) (ha : inRange (.int 128) a) (hb : inRange (.int 128) b) :
    Int128Value.Plus a b = specChecked (.int 128) .add a b := by
  unfold Int128Value.Plus; num_arith

theorem C11_Int128_sub (a b : Int) (ha : inRange (.int 128) a) (hb : inRange (.int 128) b) :
    Int128Value.Minus a b = specChecked (.int 128) .sub a b := by
  unfold Int128Value.Minus; num_arith

theorem C11_Int128_mul (a b : Int) (ha : inRange (.int 128) a) (hb : inRange (.int 128) b) :
    Int128Value.Mul a b = specChecked (.int 128) .mul a b := by
  unfold Int128Value.Mul; num_mul a b (170141183460469231731687303715884105727) (-170141183460469231731687303715884105728)

theorem C11_Int128_div (a b : Int) (ha : inRange (.int 128) a) (hb : inRange (.int 128) b) :
    Int128Value.Div a b = specChecked (.int 128) .div a b := by
  unfold Int128Value.Div; num_div a b

theorem C11_Int128_mod (a b : Int) (ha : inRange (.int 128) a) (hb : inRange (.int 128) b) :
    Int128Value.Mod a b = specChecked (.int 128) .mod a b := by
  unfold Int128Value.Mod; num_mod a b

theorem C11_Int128_neg (a : Int) (ha : inRange (.int 128) a) :
    Int128Value.Negate a = specNeg (.int 128) a := by
  unfold Int128Value.Negate; num_arith

/-! ### Int256 -/

theorem C11_Int256_add (a b : Int) (ha : inRange (.int 256) a) (hb : inRange (.int 256) b) :
    Int256Value.Plus a b = specChecked (.int 256) .add a b := by
  unfold Int256Value.Plus; num_arith

theorem C11_Int256_sub (a b : Int) (ha : inRange (.int 256) a) (hb : inRange (.int 256) b) :
    Int256Value.Minus a b = specChecked (.int 256) .sub a b := by
  unfold Int256Value.Minus; num_arith

theorem C11_Int256_mul (a b : Int) (ha : inRange (.int 256) a) (hb : inRange (.int 256) b) :
    Int256Value.Mul a b = specChecked (.int 256) .mul a b := by
  unfold Int256Value.Mul; num_mul a b (57896044618658097711785492504343953926634992332820282019728792003956564819967) (-57896044618658097711785492504343953926634992332820282019728792003956564819968)

theorem C11_Int256_div (a b : Int) (ha : inRange (.int 256) a) (hb : inRange (.int 256) b) :
    Int256Value.Div a b = specChecked (.int 256) .div a b := by
  unfold Int256Value.Div; num_div a b

theorem C11_Int256_mod (a b : Int) (ha : inRange (.int 256) a) (hb : inRange (.int 256) b) :
    Int256Value.Mod a b = specChecked (.int 256) .mod a b := by
  unfold Int256Value.Mod; num_mod a b

theorem C11_Int256_neg (a : Int) (ha : inRange (.int 256) a) :
    Int256Value.Negate a = specNeg (.int 256) a := by
  unfold Int256Value.Negate; num_arith

/-! ### UInt8 -/

theorem C11_UInt8_add (a b : Int) (ha : inRange (.uint 8) a) (hb : inRange (.uint 8) b) :
    UInt8Value.Plus a b = specChecked (.uint 8) .add a b := by
  unfold UInt8Value.Plus; num_arith

theorem C11_UInt8_sub (a b : Int) (ha : inRange (.uint 8) a) (hb : inRange (.uint 8) b) :
    UInt8Value.Minus a b = specChecked (.uint 8) .sub a b := by
  unfold UInt8Value.Minus; num_arith

theorem C11_UInt8_mul (a b : Int) (ha : inRange (.uint 8) a) (hb : inRange (.uint 8) b) :
    UInt8Value.Mul a b = specChecked (.uint 8) .mul a b := by
  unfold UInt8Value.Mul; num_mul a b (255) (0)

theorem C11_UInt8_div (a b : Int) (ha : inRange (.uint 8) a) (hb : inRange (.uint 8) b) :
    UInt8Value.Div a b = specChecked (.uint 8) .div a b := by
  unfold UInt8Value.Div; num_div a b

theorem C11_UInt8_mod (a b : Int) (ha : inRange (.uint 8) a) (hb : inRange (.uint 8) b) :
    UInt8Value.Mod a b = specChecked (.uint 8) .mod a b := by
  unfold UInt8Value.Mod; num_mod a b

/-! ### UInt16 -/

theorem C11_UInt16_add (a b : Int) (ha : inRange (.uint 16) a) (hb : inRange (.uint 16) b) :
    UInt16Value.Plus a b = specChecked (.uint 16) .add a b := by
  unfold UInt16Value.Plus; num_arith

theorem C11_UInt16_sub (a b : Int) (ha : inRange (.uint 16) a) (hb : inRange (.uint 16) b) :
    UInt16Value.Minus a b = specChecked (.uint 16) .sub a b := by
  unfold UInt16Value.Minus; num_arith

theorem C11_UInt16_mul (a b : Int) (ha : inRange (.uint 16) a) (hb : inRange (.uint 16) b) :
    UInt16Value.Mul a b = specChecked (.uint 16) .mul a b := by
  unfold UInt16Value.Mul; num_mul a b (65535) (0)

theorem C11_UInt16_div (a b : Int) (ha : inRange (.uint 16) a) (hb : inRange (.uint 16) b) :
    UInt16Value.Div a b = specChecked (.uint 16) .div a b := by
  unfold UInt16Value.Div; num_div a b

theorem C11_UInt16_mod (a b : Int) (ha : inRange (.uint 16) a) (hb : inRange (.uint 16) b) :
    UInt16Value.Mod a b = specChecked (.uint 16) .mod a b := by
  unfold UInt16Value.Mod; num_mod a b

/-! ### UInt32 -/

theorem C11_UInt32_add (a b : Int) (ha : inRange (.uint 32) a) (hb : inRange (.uint 32) b) :
    UInt32Value.Plus a b = specChecked (.uint 32) .add a b := by
  unfold UInt32Value.Plus; num_arith

theorem C11_UInt32_sub (a b : Int) (ha : inRange (.uint 32) a) (hb : inRange (.uint 32) b) :
    UInt32Value.Minus a b = specChecked (.uint 32) .sub a b := by
  unfold UInt32Value.Minus; num_arith

theorem C11_UInt32_mul (a b : Int) (ha : inRange (.uint 32) a) (hb : inRange (.uint 32) b) :
    UInt32Value.Mul a b = specChecked (.uint 32) .mul a b := by
  unfold UInt32Value.Mul; num_mul a b (4294967295) (0)

theorem C11_UInt32_div (a b : Int) (ha : inRange (.uint 32) a) (hb : inRange (.uint 32) b) :
    UInt32Value.Div a b = specChecked (.uint 32) .div a b := by
  unfold UInt32Value.Div; num_div a b

theorem C11_UInt32_mod (a b : Int) (ha : inRange (.uint 32) a) (hb : inRange (.uint 32) b) :
    UInt32Value.Mod a b = specChecked (.uint 32) .mod a b := by
  unfold UInt32Value.Mod; num_mod a b

/-! ### UInt64 -/

theorem C11_UInt64_add (a b : Int) (ha : inRange (.uint 64) a) (hb : inRange (.uint 64) b) :
    UInt64Value.Plus a b = specChecked (.uint 64) .add a b := by
  unfold UInt64Value.Plus; num_arith

theorem C11_UInt64_sub (a b : Int) (ha : inRange (.uint 64) a) (hb : inRange (.uint 64) b) :
    UInt64Value.Minus a b = specChecked (.uint 64) .sub a b := by
  unfold UInt64Value.Minus; num_arith

theorem C11_UInt64_mul (a b : Int) (ha : inRange (.uint 64) a) (hb : inRange (.uint 64) b) :
    UInt64Value.Mul a b = specChecked (.uint 64) .mul a b := by
  unfold UInt64Value.Mul; num_mul a b (18446744073709551615) (0)

theorem C11_UInt64_div (a b : Int) (ha : inRange (.uint 64) a) (hb : inRange (.uint 64) b) :
    UInt64Value.Div a b = specChecked (.uint 64) .div a b := by
  unfold UInt64Value.Div; num_div a b

theorem C11_UInt64_mod (a b : Int) (ha : inRange (.uint 64) a) (hb : inRange (.uint 64) b) :
    UInt64Value.Mod a b = specChecked (.uint 64) .mod a b := by
  unfold UInt64Value.Mod; num_mod a b

/-! ### UInt128 -/

theorem C11_UInt128_add (a b : Int) (ha : inRange (.uint 128) a) (hb : inRange (.uint 128) b) :
    UInt128Value.Plus a b = specChecked (.uint 128) .add a b := by
  unfold UInt128Value.Plus; num_arith

theorem C11_UInt128_sub (a b : Int) (ha : inRange (.uint 128) a) (hb : inRange (.uint 128) b) :
    UInt128Value.Minus a b = specChecked (.uint 128) .sub a b := by
  unfold UInt128Value.Minus; num_arith

theorem C11_UInt128_mul (a b : Int) (ha : inRange (.uint 128) a) (hb : inRange (.uint 128) b) :
    UInt128Value.Mul a b = specChecked (.uint 128) .mul a b := by
  unfold UInt128Value.Mul; num_mul a b (340282366920938463463374607431768211455) (0)

theorem C11_UInt128_div (a b : Int) (ha : inRange (.uint 128) a) (hb : inRange (.uint 128) b) :
    UInt128Value.Div a b = specChecked (.uint 128) .div a b := by
  unfold UInt128Value.Div; num_div a b

theorem C11_UInt128_mod (a b : Int) (ha : inRange (.uint 128) a) (hb : inRange (.uint 128) b) :
    UInt128Value.Mod a b = specChecked (.uint 128) .mod a b := by
  unfold UInt128Value.Mod; num_mod a b

/-! ### UInt256 -/

theorem C11_UInt256_add (a b : Int) (ha : inRange (.uint 256) a) (hb : inRange (.uint 256) b) :
    UInt256Value.Plus a b = specChecked (.uint 256) .add a b := by
  unfold UInt256Value.Plus; num_arith

theorem C11_UInt256_sub (a b : Int) (ha : inRange (.uint 256) a) (hb : inRange (.uint 256) b) :
    UInt256Value.Minus a b = specChecked (.uint 256) .sub a b := by
  unfold UInt256Value.Minus; num_arith

theorem C11_UInt256_mul (a b : Int) (ha : inRange (.uint 256) a) (hb : inRange (.uint 256) b) :
    UInt256Value.Mul a b = specChecked (.uint 256) .mul a b := by
  unfold UInt256Value.Mul; num_mul a b (115792089237316195423570985008687907853269984665640564039457584007913129639935) (0)

theorem C11_UInt256_div (a b : Int) (ha : inRange (.uint 256) a) (hb : inRange (.uint 256) b) :
    UInt256Value.Div a b = specChecked (.uint 256) .div a b := by
  unfold UInt256Value.Div; num_div a b

theorem C11_UInt256_mod (a b : Int) (ha : inRange (.uint 256) a) (hb : inRange (.uint 256) b) :
    UInt256Value.Mod a b = specChecked (.uint 256) .mod a b := by
  unfold UInt256Value.Mod; num_mod a b

/-! ### Int -/

theorem C11_Int_add (a b : Int) (ha : inRange .bigInt a) (hb : inRange .bigInt b) :
    IntValue.Plus a b = specChecked .bigInt .add a b := by
  unfold IntValue.Plus; num_arith

theorem C11_Int_sub (a b : Int) (ha : inRange .bigInt a) (hb : inRange .bigInt b) :
    IntValue.Minus a b = specChecked .bigInt .sub a b := by
  unfold IntValue.Minus; num_arith

theorem C11_Int_mul (a b : Int) (ha : inRange .bigInt a) (hb : inRange .bigInt b) :
    IntValue.Mul a b = specChecked .bigInt .mul a b := by
  unfold IntValue.Mul; num_mul a b (0) (0)

theorem C11_Int_div (a b : Int) (ha : inRange .bigInt a) (hb : inRange .bigInt b) :
    IntValue.Div a b = specChecked .bigInt .div a b := by
  unfold IntValue.Div; num_div a b

theorem C11_Int_mod (a b : Int) (ha : inRange .bigInt a) (hb : inRange .bigInt b) :
    IntValue.Mod a b = specChecked .bigInt .mod a b := by
  unfold IntValue.Mod; num_mod a b

theorem C11_Int_neg (a : Int) (ha : inRange .bigInt a) :
    IntValue.Negate a = specNeg .bigInt a := by
  unfold IntValue.Negate; num_arith

/-! ### UInt -/

theorem C11_UInt_add (a b : Int) (ha : inRange .bigUInt a) (hb : inRange .bigUInt b) :
    UIntValue.Plus a b = specChecked .bigUInt .add a b := by
  unfold UIntValue.Plus; num_arith

theorem C11_UInt_sub (a b : Int) (ha : inRange .bigUInt a) (hb : inRange .bigUInt b) :
    UIntValue.Minus a b = specChecked .bigUInt .sub a b := by
  unfold UIntValue.Minus; num_arith

theorem C11_UInt_mul (a b : Int) (ha : inRange .bigUInt a) (hb : inRange .bigUInt b) :
    UIntValue.Mul a b = specChecked .bigUInt .mul a b := by
  unfold UIntValue.Mul; num_mul a b (0) (0)

theorem C11_UInt_div (a b : Int) (ha : inRange .bigUInt a) (hb : inRange .bigUInt b) :
    UIntValue.Div a b = specChecked .bigUInt .div a b := by
  unfold UIntValue.Div; num_div a b

theorem C11_UInt_mod (a b : Int) (ha : inRange .bigUInt a) (hb : inRange .bigUInt b) :
    UIntValue.Mod a b = specChecked .bigUInt .mod a b := by
  unfold UIntValue.Mod; num_mod a b

/-! ### Non-vacuity: the hypotheses are satisfiable and every branch of the spec is reached -/

example : inRange (.int 8) 127 ∧ inRange (.int 8) 1 ∧ Int8Value.Plus 127 1 = .error .overflow := by decide
example : Int8Value.Minus (-128) 1 = .error .underflow ∧ Int8Value.Plus 100 27 = .ok 127 := by decide
example : Int64Value.Negate (-9223372036854775808) = .error .overflow := by decide
example : UInt8Value.Minus 3 4 = .error .underflow ∧ UInt8Value.Plus 255 1 = .error .overflow := by decide
example : inRange (.int 128) (2 ^ 127 - 1) ∧ Int128Value.Plus (2 ^ 127 - 1) 1 = .error .overflow := by decide
example : UIntValue.Minus 3 4 = .error .underflow ∧ IntValue.Minus 3 4 = .ok (-1) := by decide
example : specChecked (.int 8) .div (-128) (-1) = .error .overflow ∧ specChecked (.int 8) .mod (-7) 2 = .ok (-1) := by decide

end Verif.Properties.C11
