import Verif.Proofs.Lang3.Purity
/-!
# C07 — View functions have no observable side effects

Model: `Verif.Model.Lang3.Purity` (port of the checker's purity analysis over a core calculus of
assignments along access chains, swaps, calls of user functions / methods / closures / built-ins,
`destroy`, `emit`; dynamic side = effect log).
-/
namespace Verif.Properties.C07
open Verif.Model.Lang3.Purity Verif.Proofs.Lang3.Purity

/-- **Frame** (partial: events).  If the purity analysis accepts the program and the built-in purity table
is right, then every run (any call depth) of a function declared `view` — including everything it calls —
performs no storage write, no destruction and no write into an object that existed before the call: every
effect is a write into an object allocated during the call, or an event.
Full strength would also exclude events; the analysis does not observe `emit` (see `emit_witness`). -/
theorem frame_partial (p : Program) (hc : purityCheck p = true) (hb : BuiltinsSound p)
    (i : Nat) (f : Fun) (hf : p[i]? = some f) (hv : f.purity = .view) (fuel : Nat) :
    ∀ e ∈ run p fuel i, e = .freshWrite ∨ e = .event := by
  unfold run
  simp only [hf]
  intro e he
  rcases frame_aux p hc hb false (by simp) fuel f (List.mem_of_getElem? hf) hv f.body (fun _ h => h) e he with h | h
  · exact .inl h
  · exact .inr h.2

/-- **Frame**, full strength for programs without `emit` statements: every effect of a run of a view
function is a write into an object allocated during the call — no storage write, no destruction, no write
into a pre-existing object, no event. -/
theorem frame_no_emit (p : Program) (hc : purityCheck p = true) (hb : BuiltinsSound p)
    (hne : ∀ f ∈ p, Stmt.emit ∉ f.body)
    (i : Nat) (f : Fun) (hf : p[i]? = some f) (hv : f.purity = .view) (fuel : Nat) :
    ∀ e ∈ run p fuel i, e = .freshWrite := by
  unfold run
  simp only [hf]
  intro e he
  rcases frame_aux p hc hb true (fun _ => hne) fuel f (List.mem_of_getElem? hf) hv f.body (fun _ h => h) e he with h | h
  · exact h
  · simp at h

/-- **Known finding** `view-function-emits-event`: a `view` function whose body is `emit E()` is accepted
and its run delivers an event. -/
theorem emit_witness :
    purityCheck [⟨.view, 1, false, [.emit]⟩] = true ∧ run [⟨.view, 1, false, [.emit]⟩] 1 0 = [.event] := by
  constructor
  · decide
  · simp [run, execStmts, execStmt]

/-- non-vacuity of `frame_partial`: a view method writing a member of a parameter copy (`ps.n = 5`), an
element of a local array (`la[0] = 5`), calling a view closure and a view built-in. -/
example : purityCheck [
    ⟨.view, 1, false, [.declare, .assign ⟨.var 1, .value, [.member .value]⟩,
      .assign ⟨.var 1, .value, [.index .value .value]⟩, .callFn 1, .callBuiltin .view []]⟩,
    ⟨.view, 3, false, [.declare, .assign ⟨.var 3, .value, []⟩]⟩] = true := by decide

/-- what the analysis rejects: a write through a reference parameter (`prs.n = 5`), to `self` outside an
initializer, to a captured variable from a view closure, an index write through a reference-typed field
(`h.ra[0] = 9`, and `self.ra[0] = 9` inside an initializer — the two cases repaired by the `fix:` commit),
`destroy`, a call of an impure function; storing a reference into a field of `self` in an initializer is
fine. -/
example : viewAssignImpure 1 false ⟨.var 1, .reference, [.member .reference]⟩ = true := by decide
example : viewAssignImpure 1 false ⟨.self_, .value, [.member .value]⟩ = true := by decide
example : viewAssignImpure 3 false ⟨.var 1, .value, []⟩ = true := by decide
example : viewAssignImpure 1 false ⟨.var 1, .value, [.index .reference .value, .member .value]⟩ = true := by decide
example : viewAssignImpure 1 true ⟨.self_, .value, [.index .reference .value, .member .value]⟩ = true := by decide
example : viewAssignImpure 1 true ⟨.self_, .value, [.member .value]⟩ = false := by decide
example : purityErrors [⟨.view, 1, false, [.destroy, .callFn 1]⟩, ⟨.impure, 1, false, []⟩] = 2 := by decide

end Verif.Properties.C07
