/-
Specification of canonical RLP, independent of the decoder model.

`encodeString` / `encodeList` are the reference encoder.  `decodeList` of the Go code is *shallow*:
it returns the encoded items without decoding them, so the spec for lists talks about *frames* —
byte strings consisting of a canonical length header followed by exactly the announced number of
bytes (the content of a frame is checked when that item is decoded in turn; `Verif.Properties.C46`
also states the deep version for recursively decoded items).

The `spec…` functions are executable decision procedures used by the driver as the oracle; they are
written as searches over the (at most nine) possible header lengths so that they share no code with
the model.  `Verif.Properties.C46` proves them equivalent to the declarative statements.
-/
import Verif.Model.Rlp
namespace Verif.Spec.Rlp
open Verif.Model.Rlp (Bytes maxLongLength)

/-- minimal big-endian representation (empty for 0) -/
def beBytes (n : Nat) : Bytes :=
  if h : n = 0 then [] else beBytes (n / 256) ++ [UInt8.ofNat (n % 256)]
decreasing_by omega

/-- canonical length header for a payload of `n` bytes; `base` is 0x80 (string) or 0xc0 (list) -/
def header (base n : Nat) : Bytes :=
  if n ≤ 55 then [UInt8.ofNat (base + n)]
  else UInt8.ofNat (base + 55 + (beBytes n).length) :: beBytes n

def encodeString (s : Bytes) : Bytes :=
  match s with
  | [b] => if b.toNat ≤ 0x7f then [b] else header 0x80 1 ++ s
  | _ => header 0x80 s.length ++ s

def encodeList (items : List Bytes) : Bytes :=
  header 0xc0 items.flatten.length ++ items.flatten

/-- an RLP item: a byte string or a list of items (the deep view; `decodeList` itself is shallow) -/
inductive Item where
  | str (s : Bytes)
  | list (xs : List Item)

mutual
/-- the canonical encoding of an item -/
def encode : Item → Bytes
  | .str s => encodeString s
  | .list xs => encodeList (encodeItems xs)
def encodeItems : List Item → List Bytes
  | [] => []
  | x :: xs => encode x :: encodeItems xs
end

/-- one well-delimited item: a single byte below 0x80, or canonical header + that many bytes -/
def IsFrame (f : Bytes) : Prop :=
  (∃ b : UInt8, f = [b] ∧ b.toNat ≤ 0x7f) ∨
  (∃ payload : Bytes, payload.length ≤ maxLongLength ∧
     (f = header 0x80 payload.length ++ payload ∨ f = header 0xc0 payload.length ++ payload))

/-! executable oracles -/

def isFrameB (f : Bytes) : Bool :=
  (match f with | [b] => decide (b.toNat ≤ 0x7f) | _ => false) ||
  (List.range 10).any fun k =>
    decide (1 ≤ k) && decide (k ≤ f.length) &&
      (let n := f.length - k
       decide (n ≤ maxLongLength) && (f.take k == header 0x80 n || f.take k == header 0xc0 n))

def specDecodeString (inp : Bytes) : Option Bytes :=
  (List.range 10).findSome? fun k =>
    let s := inp.drop k
    if decide (k ≤ inp.length) && decide (s.length ≤ maxLongLength) && encodeString s == inp then some s else none

def splitFrames : Nat → Bytes → Option (List Bytes)
  | _, [] => some []
  | 0, _ => none
  | fuel + 1, p =>
    (List.range (p.length + 1)).findSome? fun l =>
      if decide (1 ≤ l) && isFrameB (p.take l) then
        (splitFrames fuel (p.drop l)).map (p.take l :: ·)
      else none

def specDecodeList (inp : Bytes) : Option (List Bytes) :=
  (List.range 10).findSome? fun k =>
    let payload := inp.drop k
    if decide (1 ≤ k) && decide (k ≤ inp.length) && decide (payload.length ≤ maxLongLength) &&
        inp.take k == header 0xc0 payload.length then
      splitFrames payload.length payload
    else none

end Verif.Spec.Rlp
