import Verif.Gen.CacheFacts
/-!
C31, fact side: the pinned, classified inventory of every cache / memo cell that `vtool gen-cachefacts`
finds in the non-test code (sync.Once / sync.Map / atomic.Pointer / mutex-guarded fields and package
variables), with the functions that write it.  A cell classified `cache` may outlive one execution
(package-level singletons — the small-integer value cache, the member resolvers of sema's built-in
types — and cells inside AST / type objects that a host may share between executions through its
program cache): its fill path must contain no metering hit.  The other classes are exemptions, by
reading (trusted):
* `perExecution`       the cell belongs to an object that lives inside one execution (the executors'
                       preprocess/execute `sync.Once`, the static-type memo of a reference *value*);
* `ownCheck`           filled by the checker while checking the declaring program itself (part of that
                       program's own, deterministic, check — not lazily by a later user);
* `nilGauge`           the fill root takes no gauge and passes `nil` to the parser / checker it calls
                       (`stdlib.GetTestContractType`, test framework only);
* `notOnExecutionPath` coverage reporting;  `notACache`: a lock that guards no memoised value.
A new, moved or removed cell, or a changed set of writers, breaks `cachefacts_ok` until classified here.
-/
namespace Verif.Spec.CacheFacts
open Verif.Gen.CacheFacts

inductive SiteClass where
  | cache | perExecution | ownCheck | nilGauge | notOnExecutionPath | notACache
  deriving DecidableEq, Repr

/-- a site without its hits -/
structure Key where
  file : String
  owner : String
  guard : String
  fills : List String
  deriving DecidableEq, Repr

def keyOf (s : Site) : Key := ⟨s.file, s.owner, s.guard, s.fills⟩

def pinned : List (Key × SiteClass) := [
  (⟨"ast/memberindices.go", "ast.memberIndices.once", "once", ["ast.memberIndices.Attachments", "ast.memberIndices.AttachmentsByIdentifier", "ast.memberIndices.Composites", "ast.memberIndices.CompositesByIdentifier", "ast.memberIndices.EntitlementMappings", "ast.memberIndices.EntitlementMappingsByIdentifier", "ast.memberIndices.Entitlements", "ast.memberIndices.EntitlementsByIdentifier", "ast.memberIndices.EnumCases", "ast.memberIndices.Fields", "ast.memberIndices.FieldsByIdentifier", "ast.memberIndices.Functions", "ast.memberIndices.FunctionsByIdentifier", "ast.memberIndices.Initializers", "ast.memberIndices.Interfaces", "ast.memberIndices.InterfacesByIdentifier", "ast.memberIndices.Pragmas", "ast.memberIndices.SpecialFunctions"]⟩, .cache),
  (⟨"ast/parameterlist.go", "ast.ParameterList.parametersByIdentifier", "atomic", ["ast.ParameterList.ParametersByIdentifier"]⟩, .cache),
  (⟨"ast/programindices.go", "ast.programIndices.once", "once", ["ast.programIndices.attachmentDeclarations", "ast.programIndices.compositeDeclarations", "ast.programIndices.entitlementDeclarations", "ast.programIndices.entitlementMappingDeclarations", "ast.programIndices.functionDeclarations", "ast.programIndices.importDeclarations", "ast.programIndices.interfaceDeclarations", "ast.programIndices.pragmaDeclarations", "ast.programIndices.transactionDeclarations", "ast.programIndices.variableDeclarations"]⟩, .cache),
  (⟨"ast/typeparameterlist.go", "ast.TypeParameterList.typeParametersByIdentifier", "atomic", ["ast.TypeParameterList.TypeParametersByIdentifier"]⟩, .cache),
  (⟨"interpreter/integer.go", "interpreter.smallIntegerValueCache.m", "syncmap", ["interpreter.smallIntegerValueCache.Get"]⟩, .cache),
  (⟨"interpreter/value_ephemeral_reference.go", "interpreter.EphemeralReferenceValue.staticTypeOnce", "once", ["interpreter.EphemeralReferenceValue.StaticType"]⟩, .perExecution),
  (⟨"interpreter/value_storage_reference.go", "interpreter.StorageReferenceValue.staticTypeOnce", "once", ["interpreter.StorageReferenceValue.StaticType"]⟩, .perExecution),
  (⟨"runtime/contract_function_executor.go", "runtime.contractFunctionExecutor.executeOnce", "once", ["runtime.contractFunctionExecutor.Execute"]⟩, .perExecution),
  (⟨"runtime/contract_function_executor.go", "runtime.contractFunctionExecutor.preprocessOnce", "once", ["runtime.contractFunctionExecutor.Preprocess"]⟩, .perExecution),
  (⟨"runtime/coverage.go", "runtime.CoverageReport.lock", "mutex", ["runtime.CoverageReport.AddLineHit", "runtime.CoverageReport.ExcludeLocation", "runtime.CoverageReport.InspectProgram", "runtime.CoverageReport.Merge", "runtime.CoverageReport.RecordStatementHit", "runtime.CoverageReport.Reset", "runtime.CoverageReport.UnmarshalJSON", "runtime.CoverageReport.WithLocationFilter", "runtime.CoverageReport.WithLocationMappings"]⟩, .notOnExecutionPath),
  (⟨"runtime/script_executor.go", "runtime.scriptExecutorExecution.executeOnce", "once", ["runtime.scriptExecutor.Execute"]⟩, .perExecution),
  (⟨"runtime/script_executor.go", "runtime.scriptExecutorPreparation.preprocessOnce", "once", ["runtime.scriptExecutor.Preprocess"]⟩, .perExecution),
  (⟨"runtime/transaction_executor.go", "runtime.transactionExecutorExecution.executeOnce", "once", ["runtime.transactionExecutor.Execute"]⟩, .perExecution),
  (⟨"runtime/transaction_executor.go", "runtime.transactionExecutorPreparation.preprocessOnce", "once", ["runtime.transactionExecutor.Preprocess"]⟩, .perExecution),
  (⟨"sema/access.go", "sema.EntitlementMapAccess.domain", "atomic", ["sema.EntitlementMapAccess.Domain"]⟩, .cache),
  (⟨"sema/access.go", "sema.EntitlementMapAccess.images", "syncmap", ["sema.EntitlementMapAccess.entitlementImage"]⟩, .cache),
  (⟨"sema/elaboration.go", "sema.Elaboration.lock", "mutex", ["sema.Elaboration.setIsChecking"]⟩, .notACache),
  (⟨"sema/simple_type.go", "sema.SimpleType.effectiveInterfaceConformanceSet", "atomic", ["sema.SimpleType.EffectiveInterfaceConformanceSet"]⟩, .cache),
  (⟨"sema/simple_type.go", "sema.SimpleType.effectiveInterfaceConformances", "atomic", ["sema.SimpleType.EffectiveInterfaceConformances"]⟩, .cache),
  (⟨"sema/simple_type.go", "sema.SimpleType.memberResolvers", "atomic", ["sema.SimpleType.GetMembers"]⟩, .cache),
  (⟨"sema/type.go", "sema.AddressType.memberResolvers", "atomic", ["sema.AddressType.GetMembers"]⟩, .cache),
  (⟨"sema/type.go", "sema.CapabilityType.memberResolvers", "atomic", ["sema.CapabilityType.GetMembers"]⟩, .cache),
  (⟨"sema/type.go", "sema.CompositeType.cachedIdentifiersLock", "mutex", ["sema.CompositeType.checkIdentifiersCached", "sema.CompositeType.clearCachedIdentifiers", "sema.CompositeType.initializeIdentifiers"]⟩, .cache),
  (⟨"sema/type.go", "sema.CompositeType.effectiveInterfaceConformanceSet", "atomic", ["sema.CompositeType.EffectiveInterfaceConformanceSet"]⟩, .cache),
  (⟨"sema/type.go", "sema.CompositeType.effectiveInterfaceConformances", "atomic", ["sema.CompositeType.EffectiveInterfaceConformances"]⟩, .cache),
  (⟨"sema/type.go", "sema.CompositeType.memberResolvers", "atomic", ["sema.CompositeType.ComputeAndCacheMembers"]⟩, .cache),
  (⟨"sema/type.go", "sema.CompositeType.supportedEntitlements", "atomic", ["sema.CompositeType.SupportedEntitlements"]⟩, .cache),
  (⟨"sema/type.go", "sema.ConstantSizedType.memberResolvers", "atomic", ["sema.ConstantSizedType.GetMembers"]⟩, .cache),
  (⟨"sema/type.go", "sema.DictionaryType.memberResolvers", "atomic", ["sema.DictionaryType.GetMembers"]⟩, .cache),
  (⟨"sema/type.go", "sema.EntitlementMapType.resolveInclusions", "once", ["sema.EntitlementMapType.resolveEntitlementMappingInclusions"]⟩, .ownCheck),
  (⟨"sema/type.go", "sema.FixedPointNumericType.memberResolvers", "atomic", ["sema.FixedPointNumericType.GetMembers"]⟩, .cache),
  (⟨"sema/type.go", "sema.FunctionType.memberResolvers", "atomic", ["sema.FunctionType.GetMembers"]⟩, .cache),
  (⟨"sema/type.go", "sema.FunctionType.typeID", "atomic", ["sema.FunctionType.ID"]⟩, .cache),
  (⟨"sema/type.go", "sema.InclusiveRangeType.memberResolvers", "atomic", ["sema.InclusiveRangeType.GetMembers"]⟩, .cache),
  (⟨"sema/type.go", "sema.InterfaceType.cachedIdentifiersLock", "mutex", ["sema.InterfaceType.checkIdentifiersCached", "sema.InterfaceType.clearCachedIdentifiers", "sema.InterfaceType.initializeIdentifiers"]⟩, .cache),
  (⟨"sema/type.go", "sema.InterfaceType.effectiveInterfaceConformanceSet", "atomic", ["sema.InterfaceType.EffectiveInterfaceConformanceSet"]⟩, .cache),
  (⟨"sema/type.go", "sema.InterfaceType.effectiveInterfaceConformances", "atomic", ["sema.InterfaceType.EffectiveInterfaceConformances"]⟩, .cache),
  (⟨"sema/type.go", "sema.InterfaceType.memberResolvers", "atomic", ["sema.InterfaceType.GetMembers"]⟩, .cache),
  (⟨"sema/type.go", "sema.InterfaceType.supportedEntitlements", "atomic", ["sema.InterfaceType.SupportedEntitlements"]⟩, .cache),
  (⟨"sema/type.go", "sema.IntersectionType.effectiveIntersectionSet", "atomic", ["sema.IntersectionType.EffectiveIntersectionSet"]⟩, .cache),
  (⟨"sema/type.go", "sema.IntersectionType.memberResolvers", "atomic", ["sema.IntersectionType.GetMembers"]⟩, .cache),
  (⟨"sema/type.go", "sema.IntersectionType.supportedEntitlements", "atomic", ["sema.IntersectionType.SupportedEntitlements"]⟩, .cache),
  (⟨"sema/type.go", "sema.IntersectionType.typeID", "atomic", ["sema.IntersectionType.ID"]⟩, .cache),
  (⟨"sema/type.go", "sema.NumericType.memberResolvers", "atomic", ["sema.NumericType.GetMembers"]⟩, .cache),
  (⟨"sema/type.go", "sema.OptionalType.memberResolvers", "atomic", ["sema.OptionalType.GetMembers"]⟩, .cache),
  (⟨"sema/type.go", "sema.ReferenceType.memberResolversOnce", "once", ["sema.ReferenceType.initializeMembers"]⟩, .cache),
  (⟨"sema/type.go", "sema.ReferenceType.typeID", "atomic", ["sema.ReferenceType.ID"]⟩, .cache),
  (⟨"sema/type.go", "sema.TransactionType.memberResolvers", "atomic", ["sema.TransactionType.GetMembers"]⟩, .cache),
  (⟨"sema/type.go", "sema.VariableSizedType.memberResolvers", "atomic", ["sema.VariableSizedType.GetMembers"]⟩, .cache),
  (⟨"stdlib/test.go", "stdlib.testOnce", "once", ["stdlib.GetTestContractType"]⟩, .nilGauge),
  (⟨"types.go", "cadence.DeprecatedRestrictedType.restrictionSetOnce", "once", ["cadence.DeprecatedRestrictedType.initializeRestrictionSet"]⟩, .cache),
  (⟨"types.go", "cadence.EntitlementSetAuthorization.entitlementSet", "atomic", ["cadence.EntitlementSetAuthorization.getEntitlementSet"]⟩, .cache),
  (⟨"types.go", "cadence.IntersectionType.intersectionSet", "atomic", ["cadence.IntersectionType.IntersectionSet"]⟩, .cache)
]

/-- the extracted inventory equals the pinned one, and no cell classified `cache` has a metering hit in its fill path -/
def cachefactsOk : Bool :=
  (sites.map keyOf == pinned.map (·.1)) &&
  (List.zip sites pinned).all (fun sp => sp.2.2 != SiteClass.cache || sp.1.hits.isEmpty)

/-- `metered i`: site number `i` is a cache whose fill path has a metering hit -/
def metered (i : Nat) : Bool :=
  match sites[i]?, pinned[i]? with
  | some s, some p => p.2 == SiteClass.cache && !s.hits.isEmpty
  | _, _ => false

end Verif.Spec.CacheFacts
