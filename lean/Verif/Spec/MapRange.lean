import Verif.Gen.MapRange
import Verif.Model.Determinism
/-!
C33, fact side: the pinned, classified inventory of every `range` over a map in the non-test code of
runtime, interpreter, sema, stdlib, bbq, encoding, common, values, activations, ast, parser.  The
classification is by reading the loop body (trusted); a new, moved or removed map range breaks
`Verif.Properties.C33.maprange_inventory_ok` until it is classified here.
-/
namespace Verif.Spec.MapRange
open Verif.Gen.MapRange Verif.Model.Determinism

def pinned : List (Site × RangeClass) := [
  (⟨"activations/activations.go", "Activation.ValuesInFunction", "current.entries", true⟩, .orderInsensitive),
  (⟨"bbq/compiler/builtin_globals.go", "registerBoundFunctions", "typ.GetMembers()", true⟩, .orderInsensitive),
  (⟨"bbq/compiler/compiler.go", "Compiler.exportGlobals", "c.Globals", true⟩, .orderInsensitive),
  (⟨"bbq/compiler/desugar.go", "Desugar.desugarCondition", "allImports", true⟩, .collectThenSort),
  (⟨"bbq/vm/builtin_globals.go", "registerBuiltinFixedPointMultiplyDivideFunctions", "sema.FixedPointMultiplyDivideFunctionTypes", true⟩, .orderInsensitive),
  (⟨"bbq/vm/builtin_globals.go", "registerBuiltinFixedPointPowFunctions", "sema.FixedPointPowFunctionTypes", true⟩, .orderInsensitive),
  (⟨"bbq/vm/vm.go", "VM.popCallFrame", "vm.callFrame.openUpvalues", true⟩, .orderInsensitive),
  (⟨"common/deps/set.go", "MapNodeSet.ForEach", "m", true⟩, .orderInsensitive),
  (⟨"interpreter/debugger.go", "Debugger.ClearBreakpoints", "d.breakpoints", true⟩, .notOnExecutionPath),
  (⟨"interpreter/interpreter.go", "Interpreter.AllElaborations", "allInterpreters", true⟩, .collectThenSort),
  (⟨"interpreter/interpreter.go", "Interpreter.declareNonEnumCompositeValue", "code.FunctionWrappers", true⟩, .orderInsensitive),
  (⟨"interpreter/interpreter.go", "InvalidateReferencedResources", "values", true⟩, .orderInsensitive),
  (⟨"interpreter/interpreter_import.go", "Interpreter.importResolvedLocation", "variables", true⟩, .collectThenSort),
  (⟨"runtime/account_storage.go", "AccountStorage.cachedRootSlabIDs", "s.cachedAccountStorageMaps", true⟩, .collectThenSort),
  (⟨"runtime/account_storage.go", "AccountStorage.commit", "s.newAccountStorageMapSlabIndices", true⟩, .singleEntry),
  (⟨"runtime/account_storage.go", "AccountStorage.commit", "s.newAccountStorageMapSlabIndices", true⟩, .collectThenSort),
  (⟨"runtime/coverage.go", "CoverageReport.ExcludedLocationIDs", "r.ExcludedLocations", true⟩, .notOnExecutionPath),
  (⟨"runtime/coverage.go", "CoverageReport.MarshalJSON", "r.Coverage", true⟩, .notOnExecutionPath),
  (⟨"runtime/coverage.go", "CoverageReport.MarshalJSON", "r.ExcludedLocations", true⟩, .notOnExecutionPath),
  (⟨"runtime/coverage.go", "CoverageReport.MarshalLCOV", "coverage.LineHits", true⟩, .notOnExecutionPath),
  (⟨"runtime/coverage.go", "CoverageReport.MarshalLCOV", "r.Coverage", true⟩, .notOnExecutionPath),
  (⟨"runtime/coverage.go", "CoverageReport.UnmarshalJSON", "cr.Coverage", true⟩, .notOnExecutionPath),
  (⟨"runtime/coverage.go", "CoverageReport.hits", "r.Coverage", true⟩, .notOnExecutionPath),
  (⟨"runtime/coverage.go", "CoverageReport.statements", "r.Coverage", true⟩, .notOnExecutionPath),
  (⟨"runtime/coverage.go", "LocationCoverage.CoveredLines", "c.LineHits", true⟩, .notOnExecutionPath),
  (⟨"runtime/coverage.go", "LocationCoverage.MissedLines", "c.LineHits", true⟩, .notOnExecutionPath),
  (⟨"runtime/pprof.go", "PProfExporter.exportFunctions", "e.ComputationProfile.locationFunctions", true⟩, .notOnExecutionPath),
  (⟨"runtime/pprof.go", "PProfExporter.exportSamples", "e.ComputationProfile.stackTraceUsages", true⟩, .notOnExecutionPath),
  (⟨"runtime/repl.go", "REPL.Suggestions", "names", true⟩, .notOnExecutionPath),
  (⟨"runtime/storage.go", "Storage.CheckHealth", "accountRootSlabIDs", true⟩, .collectThenSort),
  (⟨"runtime/storage.go", "Storage.CheckHealth", "rootSlabIDs", true⟩, .orderInsensitive),
  (⟨"sema/errors.go", "NotDeclaredMemberError.findClosestMember", "e.Type.GetMembers()", true⟩, .collectThenSort),
  (⟨"sema/type.go", "CompositeType.ComputeAndCacheMembers", "conformance.GetMembers()", true⟩, .orderInsensitive),
  (⟨"sema/type.go", "InterfaceType.computeMembers", "conformance.InterfaceType.computeMembers(seenInterfaces)", true⟩, .orderInsensitive),
  (⟨"sema/type.go", "IntersectionType.GetMembers", "typ.GetMembers()", true⟩, .orderInsensitive),
  (⟨"stdlib/contract_update_validation.go", "checkNestedDeclarations", "oldNominalTypeDecls", true⟩, .collectThenSort),
  (⟨"stdlib/contract_update_validation.go", "getNestedNominalTypeDecls", "nestedAttachmentDecls", true⟩, .orderInsensitive),
  (⟨"stdlib/contract_update_validation.go", "getNestedNominalTypeDecls", "nestedCompositeDecls", true⟩, .orderInsensitive),
  (⟨"stdlib/contract_update_validation.go", "getNestedNominalTypeDecls", "nestedInterfaceDecls", true⟩, .orderInsensitive)
]

end Verif.Spec.MapRange
