import Verif.Model.AccessCheck
import Verif.Spec.Auth
/-
Declarative reading of property C50 (independent of `readable` / `writeable`: no containers list,
no search for the contract, no mode functions).

  access(self)      only the declaring composite
  access(contract)  the enclosing contract (the nearest contract-kinded type around the declaring
                    composite, or that composite itself)
  access(account)   code deployed to the same account
  access(all)       everyone
  entitlements      everyone holding the value itself; through a reference, only if every
                    entitlement set the reference's authorization may stand for satisfies the
                    member's requirement (set semantics of C06)
  mapping           everyone (the mapping only decides the authorization of the result)
Assignment: only inside the declaring composite; a `let` field only by the initializing assignment
(`self.f = v` in the initializer, `f` not yet initialized); a resource field is never re-assigned
in the initializer.
-/
namespace Verif.Spec.AccessSpec
open Verif.Model.AccessCheck Verif.Model.Auth

/-- the site lies inside the declaration of `t` (same program, `t`'s path is a non-empty suffix of
    the site's path of enclosing declarations) -/
def Inside (s : Site) (t : CType) : Prop := t.loc = s.loc ∧ t.path ≠ [] ∧ t.path <:+ s.path

/-- `c` is the contract enclosing `t`: contract-kinded, `t` itself or around it, nothing
    contract-kinded in between -/
def IsEnclosingContract (c t : CType) : Prop :=
  c.loc = t.loc ∧ ∃ pre n ps, t.path = pre ++ (n, CKind.contract) :: ps ∧ c.path = (n, CKind.contract) :: ps ∧
    ∀ q ∈ pre, q.2 ≠ CKind.contract

def SameAccount : Location → Location → Prop
  | .address a _, .address b _ => a = b
  | l, r => l = r

/-- the property's rule for reads and calls, strict mode -/
def specPermits (s : Site) (m : Member) : Prop :=
  match m.access with
  | .prim .all => True
  | .prim .pubSettableLegacy => True
  | .prim .self => Inside s m.container
  | .prim .notSpecified => Inside s m.container
  | .prim .none => Inside s m.container
  | .prim .contract => Inside s m.container ∨ ∃ c, IsEnclosingContract c m.container ∧ Inside s c
  | .prim .account => Inside s m.container ∨ SameAccount s.loc m.container.loc
  | .set k es =>
    match s.viaRef with
    | none => True
    | some held => ∀ H : List Nat, Verif.Spec.Auth.den held H → Verif.Spec.Auth.sat (.set k es) H = true
  | .map _ => True

/-- the property's rule for assignments, strict mode -/
def specAssignable (s : Site) (m : Member) (c : AssignCtx) : Prop :=
  Inside s m.container ∧
  (m.isLet = true → c.selfAccess = true ∧ c.inInit = true ∧ c.initialized = false) ∧
  (m.isResource = true → c.selfAccess = true → c.inInit = true → c.initialized = false)

end Verif.Spec.AccessSpec
