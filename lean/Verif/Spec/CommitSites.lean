import Verif.Gen.CommitSites
import Verif.Model.Exec
/-!
C24, fact side: the pinned table of commit / register-write / contract-update call sites (what the
executor model assumes about the source) and the derivation of the model's configuration from an
extracted table.  A new call site, a moved one, or a lost `if err != nil { return err }` guard in
front of a commit makes `Verif.Properties.C24.commitsites_ok` / `cfg_from_source` fail.
-/
namespace Verif.Spec.CommitSites
open Verif.Gen.CommitSites Verif.Model.Exec

/-- the executors' entry into the final commit -/
def isCommitEntry (s : Site) : Bool :=
  s.callee == "runtime:Environment.commitStorage" || s.callee == "runtime:InterpreterEnvironment.commitStorage" ||
  s.callee == "runtime:vmEnvironment.commitStorage" || s.callee == "runtime:CommitStorage" ||
  s.callee == "runtime:Storage.Commit" || s.callee == "runtime:Storage.commit" ||
  s.callee == "stdlib:StorageCommitter.CommitStorageTemporarily"

def isExecutorFile (f : String) : Bool :=
  f == "runtime/transaction_executor.go" || f == "runtime/contract_function_executor.go" ||
  f == "runtime/script_executor.go"

/-- the model configuration an extracted table justifies -/
def cfgOf (sites : List Site) : Cfg where
  scriptCommits := sites.any (fun s => s.file == "runtime/script_executor.go")
  commitOnFailure := sites.any (fun s => isExecutorFile s.file && isCommitEntry s && !s.afterErrCheck)

/-- the temporary-commit call sites (the modelled exception: `flushQuery` events) -/
def tempCommitCallers (sites : List Site) : List String :=
  (sites.filter (fun s => s.callee == "stdlib:StorageCommitter.CommitStorageTemporarily")).map (·.fn)

/-- the functions that call the host's register write -/
def registerWriters (sites : List Site) : List String :=
  (sites.filter (fun s => s.callee == "atree:Ledger.SetValue" || s.callee == "runtime:Interface.SetValue")).map (·.fn)

def pinned : List Site := [
  ⟨"atree:Ledger.SetValue", "runtime/slabindex.go", "writeSlabIndexToRegister", false⟩,
  ⟨"atree:PersistentSlabStorage.FastCommit", "runtime/storage.go", "Storage.commit", false⟩,
  ⟨"atree:PersistentSlabStorage.NondeterministicFastCommit", "runtime/storage.go", "Storage.commit", false⟩,
  ⟨"runtime:AccountStorage.commit", "runtime/storage.go", "Storage.commit", false⟩,
  ⟨"runtime:AccountStorage.writeAccountStorageSlabIndex", "runtime/account_storage.go", "AccountStorage.commit", false⟩,
  ⟨"runtime:AccountStorage.writeAccountStorageSlabIndex", "runtime/account_storage.go", "AccountStorage.commit", false⟩,
  ⟨"runtime:CommitStorage", "runtime/environment.go", "InterpreterEnvironment.commitStorage", false⟩,
  ⟨"runtime:CommitStorage", "runtime/vm_environment.go", "vmEnvironment.commitStorage", false⟩,
  ⟨"runtime:Environment.commitStorage", "runtime/transaction_executor.go", "transactionExecutor.executeWithVM", true⟩,
  ⟨"runtime:Interface.RemoveAccountContractCode", "runtime/external.go", "ExternalInterface.RemoveAccountContractCode", false⟩,
  ⟨"runtime:Interface.SetValue", "runtime/external.go", "ExternalInterface.SetValue", false⟩,
  ⟨"runtime:Interface.UpdateAccountContractCode", "runtime/external.go", "ExternalInterface.UpdateAccountContractCode", false⟩,
  ⟨"runtime:InterpreterEnvironment.commitStorage", "runtime/contract_function_executor.go", "contractFunctionExecutor.executeWithInterpreter", true⟩,
  ⟨"runtime:InterpreterEnvironment.commitStorage", "runtime/transaction_executor.go", "transactionExecutor.executeWithInterpreter", true⟩,
  ⟨"runtime:Storage.Commit", "runtime/environment.go", "InterpreterEnvironment.CommitStorageTemporarily", false⟩,
  ⟨"runtime:Storage.Commit", "runtime/storage.go", "CommitStorage", false⟩,
  ⟨"runtime:Storage.Commit", "runtime/vm_environment.go", "vmEnvironment.CommitStorageTemporarily", false⟩,
  ⟨"runtime:Storage.commit", "runtime/storage.go", "Storage.Commit", false⟩,
  ⟨"runtime:Storage.commit", "runtime/storage.go", "Storage.NondeterministicCommit", false⟩,
  ⟨"runtime:Storage.commitContractUpdates", "runtime/storage.go", "Storage.commit", false⟩,
  ⟨"runtime:Storage.recordContractUpdate", "runtime/environment.go", "InterpreterEnvironment.RecordContractRemoval", false⟩,
  ⟨"runtime:Storage.recordContractUpdate", "runtime/environment.go", "InterpreterEnvironment.RecordContractUpdate", false⟩,
  ⟨"runtime:Storage.recordContractUpdate", "runtime/vm_environment.go", "vmEnvironment.RecordContractRemoval", false⟩,
  ⟨"runtime:Storage.recordContractUpdate", "runtime/vm_environment.go", "vmEnvironment.RecordContractUpdate", false⟩,
  ⟨"runtime:vmEnvironment.commitStorage", "runtime/contract_function_executor.go", "contractFunctionExecutor.executeWithVM", true⟩,
  ⟨"runtime:writeSlabIndexToRegister", "runtime/account_storage.go", "AccountStorage.writeAccountStorageSlabIndex", false⟩,
  ⟨"stdlib:AccountContractAdditionHandler.RecordContractUpdate", "stdlib/account.go", "updateAccountContractCode", false⟩,
  ⟨"stdlib:AccountContractAdditionHandler.UpdateAccountContractCode", "stdlib/account.go", "updateAccountContractCode", false⟩,
  ⟨"stdlib:AccountContractRemovalHandler.RecordContractRemoval", "stdlib/account.go", "removeContract", false⟩,
  ⟨"stdlib:AccountContractRemovalHandler.RemoveAccountContractCode", "stdlib/account.go", "removeContract", false⟩,
  ⟨"stdlib:StorageCommitter.CommitStorageTemporarily", "stdlib/account.go", "NewAccount", false⟩,
  ⟨"stdlib:StorageCommitter.CommitStorageTemporarily", "stdlib/account.go", "newStorageCapacityGetFunction", false⟩,
  ⟨"stdlib:StorageCommitter.CommitStorageTemporarily", "stdlib/account.go", "newStorageUsedGetFunction", false⟩
]


end Verif.Spec.CommitSites
