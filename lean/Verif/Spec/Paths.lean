import Verif.Model.Lin.Syntax
/-
The independent judge of property C03: a non-deterministic path semantics of the resource fragment.

Branch conditions are unknown, a loop body runs any number of times, `break` / `continue` /
`return` / `panic` end the current path segment.  A path is a sequence of events
`create x | use x | move x | destroy x | scopeEnd xs`; `Linear` says that along the path every
resource is invalidated (moved or destroyed) at most once, used only while valid, and is no longer
valid when its variable goes out of scope — i.e. it is invalidated exactly once.  A path that ends
in `panic` aborts the program: nothing is required of the resources still alive.

Nothing here mentions the checker's data structures (invalidation kinds, return info, merges).
-/
namespace Verif.Spec.Paths
open Verif.Model.Lin

inductive Ev where
  | create (x : Var)
  | use (x : Var)
  | move (x : Var)
  | destroy (x : Var)
  | scopeEnd (xs : List Var)
  deriving Repr, DecidableEq, Inhabited

/-- how a path segment ends -/
inductive Out where
  | fall | brk | cont | ret | halt
  deriving Repr, DecidableEq, Inhabited

/-- the variables a block declares at its top level (those whose scope ends with the block) -/
def declared : Stmt → List Var
  | .nop => []
  | .seq a b => declared a ++ declared b
  | .atom (.letR x _ _) => [x]
  | .atom _ => []
  | .ite _ _ => []
  | .iflet _ _ _ _ _ _ => []
  | .while _ => []

def atomEvents : Atom → List Ev × Out
  | .letR x _ .create => ([.create x], .fall)
  | .letR x _ .call => ([.create x], .fall)
  | .letR x _ (.move y _) => ([.move y, .create x], .fall)
  | .destroy x _ => ([.destroy x], .fall)
  | .eat x _ => ([.move x], .fall)
  | .use x => ([.use x], .fall)
  | .read x => ([.use x], .fall)
  | .nomove x => ([.use x], .fall)
  | .swap x y => ([.use x, .use y], .fall)
  | .skip => ([], .fall)
  | .brk _ => ([], .brk)
  | .cont _ => ([], .cont)
  | .ret => ([], .ret)
  | .panic => ([], .halt)

/-- leaving a scope: the scope's variables go out of scope, except when the program aborts -/
def closeScope (xs : List Var) (p : List Ev × Out) : List Ev × Out :=
  match p.2 with
  | .halt => p
  | _ => (p.1 ++ [.scopeEnd xs], p.2)

/-- events of a block given a path through its statements: the variables in `pre` (optional
    binding) are created first; on leaving, `pre` and the block's own declarations go out of scope -/
def blk (pre : List Var) (s : Stmt) (π : List Ev) (o : Out) : List Ev :=
  (closeScope (pre ++ declared s) (pre.map .create ++ π, o)).1

/-- `Path s π o`: π is a path through the statement (list) `s` ending with `o` -/
inductive Path : Stmt → List Ev → Out → Prop
  | nop : Path .nop [] .fall
  | seqStop {a b π o} : Path a π o → o ≠ .fall → Path (.seq a b) π o
  | seqGo {a b π₁ π₂ o} : Path a π₁ .fall → Path b π₂ o → Path (.seq a b) (π₁ ++ π₂) o
  | atom {a} : Path (.atom a) (atomEvents a).1 (atomEvents a).2
  | iteThen {t e π o} : Path t π o → Path (.ite t e) (blk [] t π o) o
  | iteElse {t e π o} : Path e π o → Path (.ite t e) (blk [] e π o) o
  | ifletThen {y yo x xo t e π o} : Path t π o → Path (.iflet y yo x xo t e) (.move x :: blk [y] t π o) o
  | ifletElse {y yo x xo t e π o} : Path e π o → Path (.iflet y yo x xo t e) (.move x :: blk [] e π o) o
  | whileDone {b} : Path (.while b) [] .fall
  | whileIter {b π₁ π₂ o₁ o} : Path b π₁ o₁ → (o₁ = .fall ∨ o₁ = .cont) →
      Path (.while b) π₂ o → Path (.while b) (blk [] b π₁ o₁ ++ π₂) o
  | whileBreak {b π} : Path b π .brk → Path (.while b) (blk [] b π .brk) .fall
  | whileExit {b π o} : Path b π o → (o = .ret ∨ o = .halt) → Path (.while b) (blk [] b π o) o

/-- a complete path of a function: parameters are created, the body block runs, and unless the
    program aborted the parameters go out of scope.  A `break`/`continue` that leaves the function
    body is not a path. -/
inductive FnPath : Fn → List Ev → Out → Prop
  | mk {f π o} : Path f.body π o → (o = .fall ∨ o = .ret ∨ o = .halt) →
      FnPath f (closeScope (f.params.map (·.1))
        ((f.params.map fun p => Ev.create p.1) ++ blk [] f.body π o, o)).1 o

/-! ### linearity of one path -/

/-- status of a variable along a path: absent from the list = not in scope -/
inductive Status where
  | valid | gone
  deriving Repr, DecidableEq, Inhabited

abbrev Env := List (Var × Status)

def Env.get (σ : Env) (x : Var) : Option Status := (σ.find? (·.1 == x)).map (·.2)
def Env.set (σ : Env) (x : Var) (v : Status) : Env := (x, v) :: σ.filter (·.1 != x)
def Env.remove (σ : Env) (xs : List Var) : Env := σ.filter fun p => !xs.contains p.1

/-- one event; `none` = the path is not linear here -/
def step (σ : Env) : Ev → Option Env
  | .create x => if σ.get x = none then some (σ.set x .valid) else none
  | .use x => if σ.get x = some .valid then some σ else none
  | .move x => if σ.get x = some .valid then some (σ.set x .gone) else none
  | .destroy x => if σ.get x = some .valid then some (σ.set x .gone) else none
  | .scopeEnd xs => if xs.all (fun x => σ.get x != some .valid) then some (σ.remove xs) else none

def run (σ : Env) : List Ev → Option Env
  | [] => some σ
  | e :: es => match step σ e with
    | some σ' => run σ' es
    | none => none

/-- every resource on the path is used only while valid, invalidated at most once, and invalid
    when it goes out of scope -/
def Linear (π : List Ev) : Prop := (run [] π).isSome

instance (π : List Ev) : Decidable (Linear π) := by unfold Linear; infer_instance

/-- the property's acceptance condition -/
def AllLinear (f : Fn) : Prop := ∀ π o, FnPath f π o → Linear π

/-! ### executable enumeration of paths with bounded loop unrolling -/

def blockWrap (pre : List Var) (s : Stmt) (ps : List (List Ev × Out)) : List (List Ev × Out) :=
  ps.map fun p => (blk pre s p.1 p.2, p.2)

/-- unrolling of a loop given the paths of its body block: at most `n` iterations -/
def loopPaths (body : List (List Ev × Out)) : Nat → List (List Ev × Out)
  | 0 => [([], .fall)]
  | n + 1 =>
    let rest := loopPaths body n
    ([], .fall) :: body.flatMap fun p =>
      match p.2 with
      | .fall | .cont => rest.map fun q => (p.1 ++ q.1, q.2)
      | .brk => [(p.1, .fall)]
      | .ret => [(p.1, .ret)]
      | .halt => [(p.1, .halt)]

/-- all paths with every loop unrolled at most `k` times -/
def pathsN (k : Nat) : Stmt → List (List Ev × Out)
  | .nop => [([], .fall)]
  | .seq a b =>
    (pathsN k a).flatMap fun p =>
      match p.2 with
      | .fall => (pathsN k b).map fun q => (p.1 ++ q.1, q.2)
      | _ => [p]
  | .atom a => [atomEvents a]
  | .ite t e => blockWrap [] t (pathsN k t) ++ blockWrap [] e (pathsN k e)
  | .iflet y _ x _ t e =>
    (blockWrap [y] t (pathsN k t) ++ blockWrap [] e (pathsN k e)).map fun p => (.move x :: p.1, p.2)
  | .while b => loopPaths (blockWrap [] b (pathsN k b)) k

def fnPathsN (k : Nat) (f : Fn) : List (List Ev × Out) :=
  ((blockWrap [] f.body (pathsN k f.body)).filter fun p => p.2 == .fall || p.2 == .ret || p.2 == .halt).map
    fun p => closeScope (f.params.map (·.1)) ((f.params.map fun q => Ev.create q.1) ++ p.1, p.2)

def linearB (π : List Ev) : Bool := (run [] π).isSome

/-- the executable judge: all paths with loops unrolled at most twice are linear -/
def allLinearN (k : Nat) (f : Fn) : Bool := (fnPathsN k f).all fun p => linearB p.1

/-- first non-linear path (for reporting) -/
def firstBad (k : Nat) (f : Fn) : Option (List Ev × Out) := (fnPathsN k f).find? fun p => !linearB p.1

/-- an upper bound on the number of enumerated paths, so that the driver can skip the judge for
    programs whose path set is too large to enumerate -/
def countN (k : Nat) : Stmt → Nat
  | .nop => 1
  | .seq a b => countN k a * countN k b
  | .atom _ => 1
  | .ite t e => countN k t + countN k e
  | .iflet _ _ _ _ t e => countN k t + countN k e
  | .while b => (List.range (k + 1)).foldl (fun acc i => acc + (countN k b) ^ i) 0

end Verif.Spec.Paths
