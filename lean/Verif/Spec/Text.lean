import Verif.Model.Num.Types
import Verif.Model.Num.Text
/-!
Spec of `T.fromString` (C17): a grammar selected by `(signed, fixed)` alone, then the value and the
check that it is representable in `T` (range; for fixed-point types at most `scale` fractional digits).
Only the digit vocabulary (`isDigit`, `ofDigits`) is shared with the model.  Core Lean only.
-/
namespace Verif.Spec.Text
open Verif.Model.NumT
open Verif.Model.Text (isDigit ofDigits)

/-- a number as written: sign, integer digits, fractional digits (`[]` for the integer grammar) -/
structure Lexed where
  neg : Bool
  intDigits : List Char
  fracDigits : List Char
  deriving Repr, DecidableEq

def allDigits (s : List Char) : Bool := !s.isEmpty && s.all isDigit

/-- unsigned part: `digits` (integer grammar) or `digits . digits` (fixed-point grammar) -/
def lexUnsigned (fixed : Bool) (neg : Bool) (s : List Char) : Option Lexed :=
  if fixed then
    match s.span (· != '.') with
    | (a, '.' :: b) => if allDigits a && allDigits b then some ⟨neg, a, b⟩ else none
    | _ => none
  else if allDigits s then some ⟨neg, s, []⟩ else none

/-- The grammar: `[+-]? digits ( . digits )?` — a sign is allowed iff the type is signed, the
    fractional part is required iff the type is fixed-point.  No other characters (no underscores,
    no whitespace). -/
def lexNumber (signed fixed : Bool) (s : List Char) : Option Lexed :=
  match s with
  | [] => none
  | c :: rest =>
    if c = '+' then (if signed then lexUnsigned fixed false rest else none)
    else if c = '-' then (if signed then lexUnsigned fixed true rest else none)
    else lexUnsigned fixed false (c :: rest)

/-- the raw value of a lexed number in type `t`, if representable -/
def value (t : NumTy) (l : Lexed) : Option Int :=
  if l.fracDigits.length > t.scale then none else
  let mag : Int := (ofDigits l.intDigits : Nat) * (10 : Int) ^ t.scale
    + (ofDigits l.fracDigits : Nat) * (10 : Int) ^ (t.scale - l.fracDigits.length)
  let raw := if l.neg then -mag else mag
  if t.inRange raw then some raw else none

def specFromString (t : NumTy) (s : List Char) : Option Int :=
  (lexNumber t.signed t.fixed s).bind (value t)

end Verif.Spec.Text
