import Verif.Gen.SharedState
/-!
C36, fact side: the pinned inventory of shared mutable state found by `vtool gen-sharedstate` in the
non-test code of the root package, runtime, interpreter, sema, stdlib, bbq, encoding, common, values,
activations, ast, parser, errors, format, fixedpoint:

* `vars`  — package-level variables written inside function bodies, with the guard kind of their type and
  the phase of the writes.  Allowed phases: `guarded` (the variable *is* a sync primitive: sync.Pool,
  sync.Once), `once-closure` (all writes inside `once.Do(func(){…})`), `init-only` (written only during
  package initialisation, before any goroutine of a client exists), `init-only-in-repo` (same for every
  call site inside the repository, but through an exported builder / registration function:
  `NumericType.WithSaturatingFunctions`, `NewFixedPointNumericType`, `FixedPointNumericType.WithPowFunction`,
  `common.RegisterTypeIDDecoder` — documented start-up API; a client calling them concurrently with
  checking would race, which is outside this property's quantifier).  A variable with phase `runtime`
  or `exported-writer-no-callers` fails `sharedstate_inventory_ok`.
* `cells` — struct fields that are sync primitives: the memo cells of shared type / AST / value objects.
  Replacing one by an unguarded field (e.g. `EntitlementMapAccess.images sync.Map` → plain map) removes
  it from the extracted list and breaks the obligation.
* `pools` — sync.Pool variables; each must reset the object on the Get or on the Put path.
-/
namespace Verif.Spec.SharedState
open Verif.Gen.SharedState

def pinnedVars : List Var := [
  ⟨"bbq/vm/builtin_globals.go", "vm.IndexedCommonBuiltinTypeBoundFunctions", "none", "init-only", ["vm.registerBuiltinCommonTypeBoundFunctions"]⟩,
  ⟨"bbq/vm/reference_tracking.go", "vm.referenceSetPool", "pool", "guarded", ["vm.newReferenceSet", "vm.releaseReferenceSet"]⟩,
  ⟨"common/location.go", "common.typeIDDecoders", "none", "init-only-in-repo", ["common.RegisterTypeIDDecoder"]⟩,
  ⟨"encoding/ccf/encode.go", "ccf.bufferPool", "pool", "guarded", ["ccf.getBuffer", "ccf.putBuffer"]⟩,
  ⟨"parser/expression.go", "parser.exprIdentifierLeftBindingPowers", "none", "init-only", ["parser.setExprIdentifierLeftBindingPower"]⟩,
  ⟨"parser/expression.go", "parser.exprLeftBindingPowers", "none", "init-only", ["parser.setExprLeftBindingPower"]⟩,
  ⟨"parser/expression.go", "parser.exprLeftDenotations", "none", "init-only", ["parser.setExprLeftDenotation"]⟩,
  ⟨"parser/expression.go", "parser.exprMetaLeftDenotations", "none", "init-only", ["parser.setExprMetaLeftDenotation"]⟩,
  ⟨"parser/expression.go", "parser.exprNullDenotations", "none", "init-only", ["parser.setExprNullDenotation"]⟩,
  ⟨"parser/lexer/lexer.go", "lexer.pool", "pool", "guarded", ["lexer.Lex", "lexer.lexer.Reclaim"]⟩,
  ⟨"parser/type.go", "parser.typeLeftBindingPowers", "none", "init-only", ["parser.setTypeLeftBindingPower"]⟩,
  ⟨"parser/type.go", "parser.typeLeftDenotations", "none", "init-only", ["parser.setTypeLeftDenotation"]⟩,
  ⟨"parser/type.go", "parser.typeMetaLeftDenotations", "none", "init-only", ["parser.setTypeMetaLeftDenotation"]⟩,
  ⟨"parser/type.go", "parser.typeNullDenotations", "none", "init-only", ["parser.setTypeNullDenotation"]⟩,
  ⟨"sema/resources.go", "sema.resourcesPool", "pool", "guarded", ["sema.NewResources", "sema.Resources.Reclaim"]⟩,
  ⟨"sema/type.go", "sema.FixedPointMultiplyDivideFunctionTypes", "none", "init-only-in-repo", ["sema.registerFixedPointMultiplyDivideFunction"]⟩,
  ⟨"sema/type.go", "sema.FixedPointPowFunctionTypes", "none", "init-only-in-repo", ["sema.registerFixedPointPowFunction"]⟩,
  ⟨"sema/type.go", "sema.NativeCompositeTypes", "none", "init-only", ["sema.extractNativeTypes"]⟩,
  ⟨"sema/type.go", "sema.NativeInterfaceTypes", "none", "init-only", ["sema.extractNativeTypes"]⟩,
  ⟨"sema/type.go", "sema.SaturatingArithmeticTypeFunctionTypes", "none", "init-only-in-repo", ["sema.registerSaturatingArithmeticType"]⟩,
  ⟨"sema/type_tags.go", "sema.allLowerMaskedTypeTags", "none", "init-only", ["sema.newTypeTagFromLowerMask"]⟩,
  ⟨"sema/type_tags.go", "sema.allTypeTags", "none", "init-only", ["sema.newTypeTagFromLowerMask", "sema.newTypeTagFromUpperMask"]⟩,
  ⟨"sema/type_tags.go", "sema.allUpperMaskedTypeTags", "none", "init-only", ["sema.newTypeTagFromUpperMask"]⟩,
  ⟨"sema/variable_activations.go", "sema.variableActivationPool", "pool", "guarded", ["sema.VariableActivations.Leave", "sema.getVariableActivation"]⟩,
  ⟨"stdlib/flow.go", "stdlib.FlowEventTypes", "none", "init-only", ["stdlib.newFlowEventType"]⟩,
  ⟨"stdlib/test.go", "stdlib.testContractType", "none", "once-closure", ["stdlib.GetTestContractType"]⟩,
  ⟨"stdlib/test.go", "stdlib.testOnce", "once", "guarded", ["stdlib.GetTestContractType"]⟩
]

def pinnedCells : List Cell := [
  ⟨"ast/memberindices.go", "ast.memberIndices.once", "once"⟩,
  ⟨"ast/parameterlist.go", "ast.ParameterList.parametersByIdentifier", "atomic"⟩,
  ⟨"ast/programindices.go", "ast.programIndices.once", "once"⟩,
  ⟨"ast/typeparameterlist.go", "ast.TypeParameterList.typeParametersByIdentifier", "atomic"⟩,
  ⟨"interpreter/integer.go", "interpreter.smallIntegerValueCache.m", "syncmap"⟩,
  ⟨"interpreter/value_ephemeral_reference.go", "interpreter.EphemeralReferenceValue.staticTypeOnce", "once"⟩,
  ⟨"interpreter/value_storage_reference.go", "interpreter.StorageReferenceValue.staticTypeOnce", "once"⟩,
  ⟨"runtime/contract_function_executor.go", "runtime.contractFunctionExecutor.executeOnce", "once"⟩,
  ⟨"runtime/contract_function_executor.go", "runtime.contractFunctionExecutor.preprocessOnce", "once"⟩,
  ⟨"runtime/coverage.go", "runtime.CoverageReport.lock", "mutex"⟩,
  ⟨"runtime/script_executor.go", "runtime.scriptExecutorExecution.executeOnce", "once"⟩,
  ⟨"runtime/script_executor.go", "runtime.scriptExecutorPreparation.preprocessOnce", "once"⟩,
  ⟨"runtime/transaction_executor.go", "runtime.transactionExecutorExecution.executeOnce", "once"⟩,
  ⟨"runtime/transaction_executor.go", "runtime.transactionExecutorPreparation.preprocessOnce", "once"⟩,
  ⟨"sema/access.go", "sema.EntitlementMapAccess.domain", "atomic"⟩,
  ⟨"sema/access.go", "sema.EntitlementMapAccess.images", "syncmap"⟩,
  ⟨"sema/elaboration.go", "sema.Elaboration.lock", "mutex"⟩,
  ⟨"sema/simple_type.go", "sema.SimpleType.effectiveInterfaceConformanceSet", "atomic"⟩,
  ⟨"sema/simple_type.go", "sema.SimpleType.effectiveInterfaceConformances", "atomic"⟩,
  ⟨"sema/simple_type.go", "sema.SimpleType.memberResolvers", "atomic"⟩,
  ⟨"sema/type.go", "sema.AddressType.memberResolvers", "atomic"⟩,
  ⟨"sema/type.go", "sema.CapabilityType.memberResolvers", "atomic"⟩,
  ⟨"sema/type.go", "sema.CompositeType.cachedIdentifiersLock", "mutex"⟩,
  ⟨"sema/type.go", "sema.CompositeType.effectiveInterfaceConformanceSet", "atomic"⟩,
  ⟨"sema/type.go", "sema.CompositeType.effectiveInterfaceConformances", "atomic"⟩,
  ⟨"sema/type.go", "sema.CompositeType.memberResolvers", "atomic"⟩,
  ⟨"sema/type.go", "sema.CompositeType.supportedEntitlements", "atomic"⟩,
  ⟨"sema/type.go", "sema.ConstantSizedType.memberResolvers", "atomic"⟩,
  ⟨"sema/type.go", "sema.DictionaryType.memberResolvers", "atomic"⟩,
  ⟨"sema/type.go", "sema.EntitlementMapType.resolveInclusions", "once"⟩,
  ⟨"sema/type.go", "sema.FixedPointNumericType.memberResolvers", "atomic"⟩,
  ⟨"sema/type.go", "sema.FunctionType.memberResolvers", "atomic"⟩,
  ⟨"sema/type.go", "sema.FunctionType.typeID", "atomic"⟩,
  ⟨"sema/type.go", "sema.InclusiveRangeType.memberResolvers", "atomic"⟩,
  ⟨"sema/type.go", "sema.InterfaceType.cachedIdentifiersLock", "mutex"⟩,
  ⟨"sema/type.go", "sema.InterfaceType.effectiveInterfaceConformanceSet", "atomic"⟩,
  ⟨"sema/type.go", "sema.InterfaceType.effectiveInterfaceConformances", "atomic"⟩,
  ⟨"sema/type.go", "sema.InterfaceType.memberResolvers", "atomic"⟩,
  ⟨"sema/type.go", "sema.InterfaceType.supportedEntitlements", "atomic"⟩,
  ⟨"sema/type.go", "sema.IntersectionType.effectiveIntersectionSet", "atomic"⟩,
  ⟨"sema/type.go", "sema.IntersectionType.memberResolvers", "atomic"⟩,
  ⟨"sema/type.go", "sema.IntersectionType.supportedEntitlements", "atomic"⟩,
  ⟨"sema/type.go", "sema.IntersectionType.typeID", "atomic"⟩,
  ⟨"sema/type.go", "sema.NumericType.memberResolvers", "atomic"⟩,
  ⟨"sema/type.go", "sema.OptionalType.memberResolvers", "atomic"⟩,
  ⟨"sema/type.go", "sema.ReferenceType.memberResolversOnce", "once"⟩,
  ⟨"sema/type.go", "sema.ReferenceType.typeID", "atomic"⟩,
  ⟨"sema/type.go", "sema.TransactionType.memberResolvers", "atomic"⟩,
  ⟨"sema/type.go", "sema.VariableSizedType.memberResolvers", "atomic"⟩,
  ⟨"types.go", "cadence.DeprecatedRestrictedType.restrictionSetOnce", "once"⟩,
  ⟨"types.go", "cadence.EntitlementSetAuthorization.entitlementSet", "atomic"⟩,
  ⟨"types.go", "cadence.IntersectionType.intersectionSet", "atomic"⟩
]

def pinnedPools : List Pool := [
  ⟨"bbq/vm/reference_tracking.go", "vm.referenceSetPool", ["vm.newReferenceSet"], ["vm.releaseReferenceSet"], ["vm.releaseReferenceSet:clear()"]⟩,
  ⟨"encoding/ccf/encode.go", "ccf.bufferPool", ["ccf.getBuffer"], ["ccf.putBuffer"], ["ccf.putBuffer:Reset()"]⟩,
  ⟨"parser/lexer/lexer.go", "lexer.pool", ["lexer.Lex"], ["lexer.lexer.Reclaim"], ["lexer.Lex:clear()"]⟩,
  ⟨"sema/resources.go", "sema.resourcesPool", ["sema.NewResources"], ["sema.Resources.Reclaim"], ["sema.NewResources:clear()"]⟩,
  ⟨"sema/variable_activations.go", "sema.variableActivationPool", ["sema.getVariableActivation"], ["sema.VariableActivations.Leave"], ["sema.getVariableActivation:Clear()"]⟩
]

def allowedPhase (p : String) : Bool :=
  p == "guarded" || p == "once-closure" || p == "init-only" || p == "init-only-in-repo"

/-- the extracted inventory is the pinned one, every written package-level variable is guarded or only
written during initialisation, every memo cell has a guard kind, every pool resets its objects -/
def inventoryOk : Bool :=
  vars == pinnedVars && cells == pinnedCells && pools == pinnedPools &&
  vars.all (fun v => allowedPhase v.phase) &&
  cells.all (fun c => c.guard == "once" || c.guard == "atomic" || c.guard == "syncmap" || c.guard == "mutex") &&
  pools.all (fun p => !p.resets.isEmpty && !p.gets.isEmpty && !p.puts.isEmpty)

end Verif.Spec.SharedState
