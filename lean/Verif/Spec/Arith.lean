/-
Exact integer arithmetic: the specification side of C11 (checked arithmetic), C12 (Word arithmetic)
and, for later builders, C13 (saturation = `clamp`).  Independent of the generated model: nothing
here mentions wrap-around, overflow predicates or `big.Int`.  Core Lean only.
-/
import Verif.Model.Num.Basic
namespace Verif.Spec.Arith
open Verif.Model.Num (NumErr)

/-- the integer types of Cadence -/
inductive Ty where
  | int (bits : Nat)      -- Int8 … Int256
  | uint (bits : Nat)     -- UInt8 … UInt256
  | word (bits : Nat)     -- Word8 … Word256
  | bigInt                -- Int  (unbounded)
  | bigUInt               -- UInt (unbounded above)
  deriving DecidableEq, Repr

/-- least value, if any -/
def Ty.lo : Ty → Option Int
  | .int n => some (-(2 : Int) ^ (n - 1))
  | .uint _ => some 0
  | .word _ => some 0
  | .bigInt => none
  | .bigUInt => some 0

/-- greatest value, if any -/
def Ty.hi : Ty → Option Int
  | .int n => some ((2 : Int) ^ (n - 1) - 1)
  | .uint n => some ((2 : Int) ^ n - 1)
  | .word n => some ((2 : Int) ^ n - 1)
  | .bigInt => none
  | .bigUInt => none

/-- `x` is a value of type `T` -/
@[reducible] def inRange : Ty → Int → Prop
  | .int n, x => -(2 : Int) ^ (n - 1) ≤ x ∧ x ≤ (2 : Int) ^ (n - 1) - 1
  | .uint n, x => 0 ≤ x ∧ x ≤ (2 : Int) ^ n - 1
  | .word n, x => 0 ≤ x ∧ x ≤ (2 : Int) ^ n - 1
  | .bigInt, _ => True
  | .bigUInt, x => 0 ≤ x

instance : (T : Ty) → (x : Int) → Decidable (inRange T x)
  | .int _, _ | .uint _, _ | .word _, _ => by unfold inRange; infer_instance
  | .bigInt, _ => by unfold inRange; infer_instance
  | .bigUInt, _ => by unfold inRange; infer_instance

inductive Op where
  | add | sub | mul | div | mod
  deriving DecidableEq, Repr

/-- the mathematical result: `/` truncates toward zero, `%` takes the dividend's sign -/
@[reducible] def exact : Op → Int → Int → Int
  | .add, a, b => a + b
  | .sub, a, b => a - b
  | .mul, a, b => a * b
  | .div, a, b => Int.tdiv a b
  | .mod, a, b => Int.tmod a b

@[reducible] def Op.divides : Op → Bool
  | .div | .mod => true
  | _ => false

/-- classification of an exact result against a type: the value when representable, else the error
    (above the greatest value: overflow; below the least value: underflow) -/
@[reducible] def classify : Ty → Int → Except NumErr Int
  | .int n, r =>
    if r > (2 : Int) ^ (n - 1) - 1 then .error .overflow
    else if r < -(2 : Int) ^ (n - 1) then .error .underflow else .ok r
  | .uint n, r =>
    if r > (2 : Int) ^ n - 1 then .error .overflow else if r < 0 then .error .underflow else .ok r
  | .word n, r =>
    if r > (2 : Int) ^ n - 1 then .error .overflow else if r < 0 then .error .underflow else .ok r
  | .bigInt, r => .ok r
  | .bigUInt, r => if r < 0 then .error .underflow else .ok r

/-- C11: checked arithmetic — exact result or overflow / underflow / division by zero; never a
    wrapped value. -/
def specChecked (T : Ty) (op : Op) (a b : Int) : Except NumErr Int :=
  if op.divides ∧ b = 0 then .error .divZero else classify T (exact op a b)

/-- C11: unary minus (signed types and `Int`) -/
def specNeg (T : Ty) (a : Int) : Except NumErr Int := classify T (-a)

/-- C12: Word arithmetic — exact result reduced modulo `2^n`; only division by zero fails -/
def specWord (n : Nat) (op : Op) (a b : Int) : Except NumErr Int :=
  if op.divides ∧ b = 0 then .error .divZero else .ok (exact op a b % (2 : Int) ^ n)

/-- C13 (for reuse): saturation clamps the exact result into the type -/
def clamp (T : Ty) (r : Int) : Int :=
  match T.hi, T.lo with
  | some h, some l => if r > h then h else if r < l then l else r
  | some h, none => if r > h then h else r
  | none, some l => if r < l then l else r
  | none, none => r

def specSaturating (T : Ty) (op : Op) (a b : Int) : Except NumErr Int :=
  if op.divides ∧ b = 0 then .error .divZero else .ok (clamp T (exact op a b))

end Verif.Spec.Arith
