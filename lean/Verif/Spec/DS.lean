/-
C51 — the mathematical specs of the internal collections (core Lean only, independent of the models).

* ordered map      : association list in insertion order (`List (K × V)`, keys pairwise distinct)
* bidirectional map: a finite one-to-one relation (`List (K × V)`, keys distinct, values distinct);
                     its two partial maps `get`/`getInverse` are mutually inverse by construction
* persistent set   : each set object is a list of own items plus a parent; the set denoted is the
                     concatenation along the parent chain
* interval tree    : a multiset of (interval, value) entries (a list up to permutation)
-/
import Verif.Model.DS.Ops
namespace Verif.Spec.DS
open Verif.DS

/-! ### ordered map = association list in insertion order -/
namespace OM
variable {K V : Type} [DecidableEq K]

def lookup (s : List (K × V)) (k : K) : Option V :=
  match s with
  | [] => none
  | p :: t => if p.1 = k then some p.2 else lookup t k

def hasKey (s : List (K × V)) (k : K) : Bool := (lookup s k).isSome

/-- replace the value of key `k` in place -/
def setValue (s : List (K × V)) (k : K) (v : V) : List (K × V) :=
  s.map (fun p => if p.1 = k then (p.1, v) else p)

def set (s : List (K × V)) (k : K) (v : V) : List (K × V) × Option V :=
  match lookup s k with
  | some old => (setValue s k v, some old)
  | none => (s ++ [(k, v)], none)

def delete (s : List (K × V)) (k : K) : List (K × V) × Option V :=
  match lookup s k with
  | some old => (s.filter (fun p => p.1 ≠ k), some old)
  | none => (s, none)

/-- the entry following the entry of key `k` (`none`: no entry for `k`) -/
def next (s : List (K × V)) (k : K) : Option (Option (K × V)) :=
  match s.dropWhile (fun p => p.1 ≠ k) with
  | [] => none
  | _ :: rest => some rest.head?

def prev (s : List (K × V)) (k : K) : Option (Option (K × V)) := next s.reverse k

def setAll (s : List (K × V)) (o : Option (List (K × V))) : List (K × V) :=
  match o with
  | none => s
  | some o => o.foldl (fun s p => (set s p.1 p.2).1) s

def impl (K V : Type) [DecidableEq K] : OMImpl K V where
  M := List (K × V)
  new := []
  zero := []
  set := set
  get := lookup
  contains := hasKey
  getPair := fun s k => (lookup s k).map (fun v => (k, v))
  delete := delete
  len := List.length
  oldest := List.head?
  newest := List.getLast?
  next := next
  prev := prev
  foreach := id
  foreachWithIndex := withIndex 0
  foreachWithError := fun s stop => let x := visitUntil (fun p => stop p.1) s; (x.2, x.1)
  forAllKeys := fun s p => let x := visitUntil (fun k => !p k) (s.map Prod.fst); (!x.1, x.2)
  forAnyKey := fun s p => visitUntil p (s.map Prod.fst)
  keySetIsDisjointFrom := fun a b => a.all (fun p => !hasKey b p.1)
  keySetIntersection := fun a b => a.filter (fun p => hasKey b p.1)
  keySetUnion := fun a b => setAll (setAll [] (some a)) (some b)
  setAll := setAll
  clear := fun _ => []

end OM

/-! ### bidirectional map = finite one-to-one relation -/
namespace BM
variable {K V : Type} [DecidableEq K] [DecidableEq V]

def get (s : List (K × V)) (k : K) : Option V := (s.find? (fun p => p.1 = k)).map Prod.snd
def getInverse (s : List (K × V)) (v : V) : Option K := (s.find? (fun p => p.2 = v)).map Prod.fst

/-- `Insert k v`: drop every pair mentioning `k` as key or `v` as value, then relate `k` and `v` -/
def insert (s : List (K × V)) (k : K) (v : V) : List (K × V) :=
  s.filter (fun p => p.1 ≠ k ∧ p.2 ≠ v) ++ [(k, v)]

def delete (s : List (K × V)) (k : K) : List (K × V) := s.filter (fun p => p.1 ≠ k)
def deleteInverse (s : List (K × V)) (v : V) : List (K × V) := s.filter (fun p => p.2 ≠ v)

def step (s : List (K × V)) : BMOp K V → List (K × V) × BMObs K V
  | .insert k v => (insert s k v, .done)
  | .exists_ k => (s, .bool (get s k).isSome)
  | .existsInverse v => (s, .bool (getInverse s v).isSome)
  | .get k => (s, .val (get s k))
  | .getInverse v => (s, .key (getInverse s v))
  | .delete k => (delete s k, .done)
  | .deleteInverse v => (deleteInverse s v, .done)
  | .size => (s, .nat s.length)

def run (s : List (K × V)) : List (BMOp K V) → List (BMObs K V)
  | [] => []
  | op :: ops => (step s op).2 :: run (step s op).1 ops

def after (s : List (K × V)) : List (BMOp K V) → List (K × V)
  | [] => s
  | op :: ops => after (step s op).1 ops

/-- the relation is one-to-one -/
def OneToOne (s : List (K × V)) : Prop := (s.map Prod.fst).Nodup ∧ (s.map Prod.snd).Nodup

end BM

/-! ### persistent ordered set: every object owns a list of items (in insertion order) and sees its
     ancestors' items after its own -/
namespace PS

def items (T : Type) [DecidableEq T] : PSItems T where
  I := List T
  nil := []
  contains := fun l x => l.contains x
  add := fun l x => l ++ [x]
  list := id
  nonEmpty := fun l => !l.isEmpty

end PS

end Verif.Spec.DS
