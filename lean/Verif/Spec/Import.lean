/-
C29 — what "importable" and "conforms to its static type" mean at every depth of a value, stated
declaratively (independent of the recursive Boolean checks of the model): the list of all values
nested in a value, and two *local* conditions on a single value.
-/
import Verif.Model.Import
namespace Verif.Spec.Import
open Verif.Model.Types Verif.Model.Import

mutual
/-- the value itself and every value nested in it (optional payloads, array elements, dictionary
    keys and values, composite fields), at any depth -/
def subvalues : IV → List IV
  | .void => [.void]
  | .nil => [.nil]
  | .some v => .some v :: subvalues v
  | .bool b => [.bool b]
  | .str h => [.str h]
  | .char h => [.char h]
  | .addr h => [.addr h]
  | .num k n => [.num k n]
  | .path d i => [.path d i]
  | .arr t vs => .arr t vs :: subvaluesList vs
  | .dict k v kvs => .dict k v kvs :: subvaluesPairs kvs
  | .comp k id fs => .comp k id fs :: subvaluesFields fs
  | .typeV t => [.typeV t]
  | .cap id a b => [.cap id a b]
def subvaluesList : IVs → List IV
  | .nil => []
  | .cons v r => subvalues v ++ subvaluesList r
def subvaluesPairs : IPairs → List IV
  | .nil => []
  | .cons k v r => subvalues k ++ (subvalues v ++ subvaluesPairs r)
def subvaluesFields : IFields → List IV
  | .nil => []
  | .cons _ v r => subvalues v ++ subvaluesFields r
end

/-- the value is not itself of a kind that cannot be imported: not a capability, and not a composite
    of a type that is not importable (resources, events, contracts, attachments, structs with a member
    of a non-importable type such as a function) -/
def ImportableHere (c : Ctx) : IV → Prop
  | .cap .. => False
  | .comp _ id _ => ∃ d, c.decls id = some d ∧ d.importable = true
  | _ => True

/-- the value's direct content fits its own static type: every array element / dictionary key and
    value has a run-time type that is a subtype of the declared element / key / value type, a
    constant-sized array has its size, a composite is of the declared kind and has exactly one value
    for every declared field, of a subtype of the field's declared type -/
def ConformsHere (c : Ctx) : IV → Prop
  | .arr (.varArr e) vs => ∀ v ∈ vs.toList, c.sub (dynType c v) e = true
  | .arr (.constArr e n) vs => vs.length = n ∧ ∀ v ∈ vs.toList, c.sub (dynType c v) e = true
  | .arr _ _ => False
  | .dict kt vt kvs => ∀ p ∈ kvs.toList, c.sub (dynType c p.1) kt = true ∧ c.sub (dynType c p.2) vt = true
  | .comp kind id fs =>
    ∃ d, c.decls id = some d ∧ kind = d.kind ∧ fs.length = d.fields.length ∧
      ∀ n t, (n, t) ∈ d.fields → ∃ v, fs.find n = some v ∧ c.subSema (dynType c v) t = true
  | _ => True

/-! ### A condition on the *encoded* argument (the decoder's `cadence.Value`), independent of the import:
    a composite whose kind tag is not the kind of the declaration its type ID names, at a position
    that no later entry can overwrite (dictionary keys / field names recognisably distinct).
    Such an argument has no well-formed reading (`ConformsHere` fails for that composite whatever
    the importer does with the rest), so it must be rejected. -/

def leafKey : XV → Option String
  | .bool b => some ("b" ++ toString b)
  | .str h => some ("s" ++ h)
  | .char h => some ("c" ++ h)
  | .addr h => some ("a" ++ h)
  | .num k n => some ("n" ++ k ++ ":" ++ toString n)
  | .path d i => some ("p" ++ d ++ "/" ++ i)
  | _ => none

def xKeys : XPairs → List (Option String)
  | .nil => []
  | .cons k _ r => leafKey k :: xKeys r

def xNames : XFields → List String
  | .nil => []
  | .cons n _ r => n :: xNames r

def distinctStrings : List String → Bool
  | [] => true
  | a :: r => !r.contains a && distinctStrings r

def distinctKeys (ks : List (Option String)) : Bool :=
  ks.all (·.isSome) && distinctStrings (ks.filterMap id)

mutual
/-- some composite that survives the import carries a kind tag other than its declaration's kind -/
def kindClash (c : Ctx) : XV → Bool
  | .some v => kindClash c v
  | .arr vs => kindClashList c vs
  | .dict kvs => distinctKeys (xKeys kvs) && kindClashPairs c kvs
  | .comp k id fs =>
    (match c.decls id with | some d => k != d.kind | none => false)
      || (distinctStrings (xNames fs) && kindClashFields c fs)
  | _ => false
def kindClashList (c : Ctx) : XVs → Bool
  | .nil => false
  | .cons v r => kindClash c v || kindClashList c r
def kindClashPairs (c : Ctx) : XPairs → Bool
  | .nil => false
  | .cons k v r => kindClash c k || kindClash c v || kindClashPairs c r
def kindClashFields (c : Ctx) : XFields → Bool
  | .nil => false
  | .cons _ v r => kindClash c v || kindClashFields c r
end

end Verif.Spec.Import
