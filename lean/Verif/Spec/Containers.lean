/-
Spec for C20: arrays are lists, dictionaries are finite maps (association lists with distinct keys,
keyed by equality).  Every operation of the property's list with its error condition.  Generic in the
element / key / value types; core Lean only.

Also: the generic transactional machine (operations grouped into transactions that commit or
abort) used to state persistence (`persist`): what a later transaction reloads is what the earlier ones
committed.
-/
namespace Verif.Spec.Containers

inductive Err where
  | index                      -- invalid index / invalid slice bounds
  | mutation                   -- the container was mutated while an iteration over it is active
  deriving DecidableEq, Repr

/-! ### arrays -/
section Arr
variable {α : Type}

def validIdx (xs : List α) (i : Int) : Bool := decide (0 ≤ i) && decide (i < xs.length)

/-- `a[i]` -/
def readAt (xs : List α) (i : Int) : Except Err α :=
  if 0 ≤ i then
    match xs[i.toNat]? with
    | some x => .ok x
    | none => .error .index
  else .error .index

/-- `a[i] = x` -/
def writeAt (xs : List α) (i : Int) (x : α) : Except Err (List α) :=
  if validIdx xs i then .ok (xs.set i.toNat x) else .error .index

def append (xs : List α) (x : α) : List α := xs ++ [x]
def appendAll (xs ys : List α) : List α := xs ++ ys

/-- `a.insert(at: i, x)`: valid for `0 ≤ i ≤ length` -/
def insertAt (xs : List α) (i : Int) (x : α) : Except Err (List α) :=
  if 0 ≤ i ∧ i ≤ xs.length then .ok (xs.take i.toNat ++ x :: xs.drop i.toNat) else .error .index

/-- `a.remove(at: i)` returns the removed element -/
def removeAt (xs : List α) (i : Int) : Except Err (α × List α) :=
  if 0 ≤ i then
    match xs[i.toNat]? with
    | some x => .ok (x, xs.eraseIdx i.toNat)
    | none => .error .index
  else .error .index

def removeFirst (xs : List α) : Except Err (α × List α) := removeAt xs 0
def removeLast (xs : List α) : Except Err (α × List α) := removeAt xs ((xs.length : Int) - 1)

/-- `a.slice(from: a, upTo: b)`: valid for `0 ≤ a ≤ b ≤ length` -/
def slice (xs : List α) (a b : Int) : Except Err (List α) :=
  if 0 ≤ a ∧ a ≤ b ∧ b ≤ xs.length then .ok ((xs.drop a.toNat).take (b.toNat - a.toNat)) else .error .index

def reverse (xs : List α) : List α := xs.reverse
def concat (xs ys : List α) : List α := xs ++ ys
def filter (p : α → Bool) (xs : List α) : List α := xs.filter p
def map {β : Type} (f : α → β) (xs : List α) : List β := xs.map f
def contains [DecidableEq α] (xs : List α) (x : α) : Bool := decide (x ∈ xs)
def firstIndex [DecidableEq α] (xs : List α) (x : α) : Option Nat := xs.findIdx? (fun y => decide (y = x))
/-- `toConstantSized<[T; n]>()`: nil unless the length is exactly `n` -/
def toConstantSized (xs : List α) (n : Nat) : Option (List α) := if xs.length = n then some xs else none
def toVariableSized (xs : List α) : List α := xs

end Arr

/-! ### dictionaries -/
section Dict
variable {κ ν : Type} [DecidableEq κ]

abbrev Dict (κ ν : Type) := List (κ × ν)

def dGet (d : Dict κ ν) (k : κ) : Option ν :=
  match d with
  | [] => none
  | (k', v) :: rest => if k = k' then some v else dGet rest k

def dHas (d : Dict κ ν) (k : κ) : Bool := (dGet d k).isSome

def dErase (d : Dict κ ν) (k : κ) : Dict κ ν := d.filter (fun e => !decide (e.1 = k))

/-- bind `k` (replacing an existing binding) -/
def dPut (d : Dict κ ν) (k : κ) (v : ν) : Dict κ ν := dErase d k ++ [(k, v)]

/-- `d.insert(key: k, v)` returns the previous value -/
def dInsert (d : Dict κ ν) (k : κ) (v : ν) : Option ν × Dict κ ν := (dGet d k, dPut d k v)
/-- `d.remove(key: k)` returns the removed value -/
def dRemove (d : Dict κ ν) (k : κ) : Option ν × Dict κ ν := (dGet d k, dErase d k)
/-- `d[k] = v` / `d[k] = nil` -/
def dSet (d : Dict κ ν) (k : κ) (v : Option ν) : Dict κ ν :=
  match v with
  | some v => dPut d k v
  | none => dErase d k

def dKeys (d : Dict κ ν) : List κ := d.map (·.1)
def dValues (d : Dict κ ν) : List ν := d.map (·.2)
/-- number of keys visited by `forEachKey` with a callback that returns `false` at the `j`-th call (`j ≥ 1`) -/
def dVisitCount (d : Dict κ ν) (j : Nat) : Nat := min (max j 1) d.length

/-- the invariant of the representation: keys are distinct -/
def DWF (d : Dict κ ν) : Prop := (dKeys d).Nodup

end Dict

/-! ### iteration and the mutation guard

A container that is being iterated (`for … in c`, `c.map`, `c.filter`, `c.forEachKey`) must not be
mutated until that iteration has ended; an attempt fails with `Err.mutation`, whatever the mutation's
arguments are.  Iterations over the same container nest; the guard of an outer iteration is still in
force after an inner one has ended.

Programs over one container, generic in its state `σ` and its mutations `μ`: -/
section Iter
variable {σ μ : Type}

inductive Prog (μ : Type) where
  | skip
  | mutate (m : μ)                         -- one mutation of the container
  | seq (p q : Prog μ)
  | iter (j : Nat) (body : Prog μ)         -- iterate over the container; `body` runs at step `j` (other steps do nothing)
  deriving Repr

/-- Run a program on the container, `active` iterations over it being in progress.
    `apply` is the unguarded mutation (it may fail with an index error), `size` the number of
    iteration steps (elements / keys). -/
def runProg (apply : σ → μ → Except Err σ) (size : σ → Nat) (active : Nat) (c : σ) : Prog μ → Except Err σ
  | .skip => .ok c
  | .mutate m => if active = 0 then apply c m else .error .mutation
  | .seq p q =>
    match runProg apply size active c p with
    | .ok c' => runProg apply size active c' q
    | .error e => .error e
  | .iter j body => if j < size c then runProg apply size (active + 1) c body else .ok c

/-- the program attempts at least one mutation when run on a container of `n` steps whose size does not change -/
def Prog.attempts (n : Nat) : Prog μ → Bool
  | .skip => false
  | .mutate _ => true
  | .seq p q => p.attempts n || q.attempts n
  | .iter j body => decide (j < n) && body.attempts n

end Iter

/-! ### transactions over any step function -/
section Machine
variable {σ ω β ε : Type}

/-- run the operations of one transaction on a working copy -/
def execOps (step : σ → ω → Except ε (σ × β)) (s : σ) : List ω → Except ε σ × List β
  | [] => (.ok s, [])
  | op :: rest =>
    match step s op with
    | .error e => (.error e, [])
    | .ok (s', o) =>
      let r := execOps step s' rest
      (r.1, o :: r.2)

structure TxObs (σ β ε : Type) where
  outcome : Option ε           -- none = committed
  logs : List β
  final : σ                    -- what the transaction sees at its end (the dump); the start state after an abort

/-- commit the working copy, or discard it -/
def runTx (step : σ → ω → Except ε (σ × β)) (s : σ) (tx : List ω) : σ × TxObs σ β ε :=
  match execOps step s tx with
  | (.ok s', logs) => (s', ⟨none, logs, s'⟩)
  | (.error e, logs) => (s, ⟨some e, logs, s⟩)

def runHist (step : σ → ω → Except ε (σ × β)) (s : σ) : List (List ω) → σ × List (TxObs σ β ε)
  | [] => (s, [])
  | tx :: rest =>
    let r := runTx step s tx
    let q := runHist step r.1 rest
    (q.1, r.2 :: q.2)

end Machine

end Verif.Spec.Containers
