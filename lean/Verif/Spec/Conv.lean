import Verif.Model.Num.Types
/-!
Spec of numeric conversion (C16), independent of the model of the code: exact rational value of the
source, brought to the target's scale, excess digits truncated toward zero (or rounded by the given
rule), then range-checked (or reduced mod 2^n for Word targets).  Core Lean only; executable.
-/
namespace Verif.Spec.Conv
open Verif.Model.NumT

/-- `RoundingRule` (raw values 0..3 as in `sema.RoundingRules` / `fix.RoundingMode`) -/
inductive Rounding where
  | towardZero | awayFromZero | nearestHalfAway | nearestHalfEven
  deriving DecidableEq, Repr, Inhabited

def Rounding.name : Rounding → String
  | .towardZero => "towardZero" | .awayFromZero => "awayFromZero"
  | .nearestHalfAway => "nearestHalfAway" | .nearestHalfEven => "nearestHalfEven"

def Rounding.ofName? (s : String) : Option Rounding :=
  [Rounding.towardZero, .awayFromZero, .nearestHalfAway, .nearestHalfEven].find? (fun r => r.name == s)

/-- The integer obtained from the rational `p / q` (`q > 0`) by rule `r`.
    `t` = quotient truncated toward zero, `rem` = |remainder|, `away` = the neighbour of `t` away from zero. -/
def roundQ (r : Rounding) (p q : Int) : Int :=
  let t := Int.tdiv p q
  let rem : Int := (Int.tmod p q).natAbs
  let away := if p < 0 then t - 1 else t + 1
  match r with
  | .towardZero => t
  | .awayFromZero => if rem = 0 then t else away
  | .nearestHalfAway => if 2 * rem ≥ q then away else t
  | .nearestHalfEven =>
    if 2 * rem > q then away else if 2 * rem < q then t else if t % 2 = 0 then t else away

/-- the raw result before the range check: source value at the target's scale, rounded -/
def scaled (src tgt : NumTy) (raw : Int) (r : Rounding) : Int :=
  roundQ (if tgt.fixed then r else .towardZero) (raw * (10 : Int) ^ tgt.scale) ((10 : Int) ^ src.scale)

/-- What `tgt(x)` / `tgt(x, rounding: r)` must return for the source value `(src, raw)`. -/
def specConvert (src tgt : NumTy) (raw : Int) (r : Rounding) : Except CErr Int :=
  let v := scaled src tgt raw r
  if tgt.isWord then .ok (v % (2 : Int) ^ tgt.bits)
  else if tgt.aboveMax v then .error .overflow
  else if tgt.belowMin v then .error .underflow
  else .ok v

/-- what the property observes of a conversion: the value, or "failed with an overflow or underflow
    error" (it does not say which of the two), or anything else (a crash) -/
inductive Outcome where
  | value (x : Int) | rangeError | crash
  deriving DecidableEq, Repr

def outcome : Except CErr Int → Outcome
  | .ok x => .value x
  | .error .overflow => .rangeError
  | .error .underflow => .rangeError
  | .error .unreachable => .crash

/-- same value, or both fail with a range error -/
def sameOutcome (a b : Except CErr Int) : Prop := outcome a = outcome b

end Verif.Spec.Conv
