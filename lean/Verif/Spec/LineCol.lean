import Verif.Model.Front.Utf8
/-!
Specification of source positions: the (line, column) of a byte offset, computed from scratch.
Lines start at 1, columns at 0 and count runes (as `utf8.DecodeRune` splits the input: an invalid byte is
one rune); a `'\n'` rune ends its line.  The position of an offset inside a multi-byte rune is the position
of that rune; offsets at or beyond the end of the input continue the last line with one column per byte
(`lineCol inp inp.size` is the position of the end of the input).  Core Lean only.
-/
namespace Verif.Spec.LineCol
open Verif.Model.Front

/-- walk the runes from `off` (a rune boundary, position `(line, col)`) up to the rune containing `target`;
    structural in `fuel` (`inp.size - off` rounds suffice: every rune is at least one byte wide) -/
def lineColFrom (inp : Bytes) (target : Nat) : (fuel : Nat) → (off line col : Nat) → Nat × Nat
  | 0, off, line, col => (line, col + (target - off))
  | fuel + 1, off, line, col =>
    if off < inp.size then
      let d := decodeRune inp off
      let w := fallbackWidth d.2
      if target < off + w then (line, col)
      else if d.1 = 10 then lineColFrom inp target fuel (off + w) (line + 1) 0
      else lineColFrom inp target fuel (off + w) line (col + 1)
    else (line, col + (target - off))

/-- (line, column) of byte offset `target` -/
def lineCol (inp : Bytes) (target : Nat) : Nat × Nat := lineColFrom inp target inp.size 0 1 0

end Verif.Spec.LineCol
