/-
C32 — the specification side: the size of a big integer in memory and "the metered amount is at
least the size of the result".  Independent of the generated metering formulas.  Core Lean only.
-/
import Verif.Model.Num.Basic
namespace Verif.Spec.BigMeter
open Verif.Model.Num (NumErr)

/-- number of 64-bit words of the magnitude of `x` (`len(x.Bits())` on a 64-bit platform): the least
    `w` with `|x| < 2^(64 w)` -/
def words (x : Int) : Nat := if x = 0 then 0 else x.natAbs.log2 / 64 + 1

/-- bytes held by the result -/
def resultBytes (x : Int) : Int := 8 * (words x : Int)

/-- the operations that are metered by a `New…BigIntMemoryUsage` formula (Int and UInt) -/
inductive MOp where
  | plus | minus | mul | mod | div | or | xor | and | shl | shr | neg
  deriving DecidableEq, Repr

/-- the property: metering succeeds with an amount that is at least the size of the result `r` -/
def neverUnder (metered : Except NumErr Int) (r : Int) : Prop :=
  ∃ n, metered = .ok n ∧ resultBytes r ≤ n

instance (m : Except NumErr Int) (r : Int) : Decidable (neverUnder m r) :=
  match m with
  | .ok n => if h : resultBytes r ≤ n then isTrue ⟨n, rfl, h⟩ else isFalse (fun ⟨_, e, h'⟩ => by cases e; exact h h')
  | .error _ => isFalse (fun ⟨_, e, _⟩ => by cases e)

end Verif.Spec.BigMeter
