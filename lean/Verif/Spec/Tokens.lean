import Verif.Model.Front.Lexer
/-!
What the property says about a token list (the token record is the model's, the predicates are independent
of how the list was produced).  Error tokens (`TokenError`) mark a position and consume nothing; all other
tokens consume input.  Core Lean only.
-/
namespace Verif.Spec.Tokens
open Verif.Model.Front.Lexer

def isError (t : Token) : Bool := t.ty = T.error

/-- end offset of the last consuming token of a list given newest first (`-1` when there is none) -/
def lastEnd : List Token → Int
  | [] => -1
  | t :: ts => if isError t then lastEnd ts else t.endOff

/-- newest-first list: every consuming token starts right after the previous consuming token's end,
    the first one at offset 0 -/
def ContigRev : List Token → Prop
  | [] => True
  | t :: ts => (isError t = true ∨ t.startOff = lastEnd ts + 1) ∧ ContigRev ts

/-- emission order: consecutive consuming tokens satisfy `next.start = prev.end + 1`, the first starts at 0 -/
def Contiguous (toks : List Token) : Prop := ContigRev toks.reverse

/-- all tokens lie inside an input of length `len`: consuming tokens `0 ≤ start ≤ end + 1 ≤ len`
    (an empty token has `end = start - 1`), error tokens `0 ≤ start = end < len` -/
def InRange (len : Nat) (t : Token) : Prop :=
  0 ≤ t.startOff ∧ t.endOff < len ∧ (if isError t then t.startOff = t.endOff else t.startOff ≤ t.endOff + 1)

end Verif.Spec.Tokens
