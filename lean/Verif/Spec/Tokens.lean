import Verif.Model.Front.Lexer
import Verif.Spec.LineCol
/-!
What the property says about a token list (the token record is the model's, the predicates are independent
of how the list was produced).  Error tokens (`TokenError`) mark a position and consume nothing; all other
tokens consume input.  Core Lean only.
-/
namespace Verif.Spec.Tokens
open Verif.Model.Front.Lexer

def isError (t : Token) : Bool := t.ty = T.error

/-- end offset of the last consuming token of a list given newest first (`-1` when there is none) -/
def lastEnd : List Token → Int
  | [] => -1
  | t :: ts => if isError t then lastEnd ts else t.endOff

/-- newest-first list: every consuming token starts right after the previous consuming token's end,
    the first one at offset 0 -/
def ContigRev : List Token → Prop
  | [] => True
  | t :: ts => (isError t = true ∨ t.startOff = lastEnd ts + 1) ∧ ContigRev ts

/-- emission order: consecutive consuming tokens satisfy `next.start = prev.end + 1`, the first starts at 0 -/
def Contiguous (toks : List Token) : Prop := ContigRev toks.reverse

/-- all tokens lie inside an input of length `len`: consuming tokens `0 ≤ start ≤ end + 1 ≤ len`
    (an empty token has `end = start - 1`), error tokens `0 ≤ start = end < len` -/
def InRange (len : Nat) (t : Token) : Prop :=
  0 ≤ t.startOff ∧ t.endOff < len ∧ (if isError t then t.startOff = t.endOff else t.startOff ≤ t.endOff + 1)

/-! ### positions -/

/-- the (line, column) of a byte offset, from scratch (`Spec.LineCol`) -/
def posOf (inp : Verif.Model.Front.Bytes) (off : Int) : Pos :=
  ⟨(Verif.Spec.LineCol.lineCol inp off.toNat).1, (Verif.Spec.LineCol.lineCol inp off.toNat).2⟩

/-- both reported positions of the token are the positions of its offsets -/
def Exact (inp : Verif.Model.Front.Bytes) (t : Token) : Prop :=
  t.startPos = posOf inp t.startOff ∧ t.endPos = posOf inp t.endOff

/-- the token's last byte is ASCII (its last rune is one byte wide) -/
def endsAscii (inp : Verif.Model.Front.Bytes) (t : Token) : Prop :=
  0 ≤ t.endOff ∧ Verif.Model.Front.byteAt inp t.endOff.toNat < 0x80

/-- a token that is not empty and ends in an ASCII byte -/
def good (inp : Verif.Model.Front.Bytes) (t : Token) : Prop := t.startOff ≤ t.endOff ∧ endsAscii inp t

instance (inp : Verif.Model.Front.Bytes) (t : Token) : Decidable (good inp t) := by
  unfold good endsAscii; infer_instance
instance (inp : Verif.Model.Front.Bytes) (t : Token) : Decidable (Exact inp t) := by
  unfold Exact; infer_instance

/-- every token of the list is `good` (error tokens too: they cover the one byte at which lexing stopped) -/
def AllGood (inp : Verif.Model.Front.Bytes) (ts : List Token) : Prop := ∀ t ∈ ts, good inp t
instance (inp : Verif.Model.Front.Bytes) (ts : List Token) : Decidable (AllGood inp ts) := by
  unfold AllGood; infer_instance

/-- newest-first list: every good consuming token all of whose predecessors (older tokens) are good has
    exact positions -/
def ExactRev (inp : Verif.Model.Front.Bytes) : List Token → Prop
  | [] => True
  | t :: ts => (AllGood inp ts → isError t = false → good inp t → Exact inp t) ∧ ExactRev inp ts

end Verif.Spec.Tokens
