import Verif.Model.Update
/-
C27 — the specification side: what "stored data stays usable" means.

* Nominal types are given a *canonical name* relative to a scope (name of the contract, import map):
  a type declared in the contract (`S`, `C.S`, `C.A.B`) is `loc path`, a type reached through an import
  is `ext location name rest`.  `denote` maps a type AST to a semantic type (`Ty CName`).
* The declaration environment is the root declaration; `lookupPath` resolves a path of identifiers
  through the by-identifier maps the Go code uses (`getNestedNominalTypeDecls`).
* Stored values are trees (`Val`); `hasType env v t` says `v` is a value of semantic type `t` under the
  declaration environment: a composite value has, for every field its declaration lists, a value of the
  declared type; an enum value's raw value is the index of one of the declared cases; a composite value
  has an intersection type `{I, J}` when its declaration lists conformances denoting `I` and `J`.
* `NodeCompat` is what must hold between the old and the new declaration of one type.

Assumptions of this spec (guaranteed by the checker for deployed code, not by the validator): nominal
types resolve at contract level (type declarations are nested in contracts only); a built-in type name is
not redeclared by the contract.  Conformance is the transitive one: a composite conforms to `I` when it
lists `I`, or lists an interface `J` declared in the contract that (transitively) conforms to `I`.
-/
namespace Verif.Spec.Update
open Verif.Model.Update

inductive CName where
  | loc (path : List String)
  | ext (l : Loc) (x : String) (rest : List String)
  deriving DecidableEq, Repr

abbrev CTy := Ty CName

structure Scope where
  root : String
  imports : List (String × Loc)

def canonUnq (imps : List (String × Loc)) (x : String) (rest : List String) : CName :=
  match lookupLast x imps with
  | some l => .ext l x rest
  | none => .loc (x :: rest)

/-- canonical name of a nominal type: the qualification by the contract's own name is dropped -/
def canon (s : Scope) (n : Nominal) : CName :=
  match n.nested with
  | [] => canonUnq s.imports n.id []
  | x :: rest => if n.id = s.root then canonUnq s.imports x rest else canonUnq s.imports n.id (x :: rest)

def mapAuth {α β : Type} (f : α → β) : Auth α → Auth β
  | .conj es => .conj (es.map f)
  | .disj es => .disj (es.map f)
  | .mapped m => .mapped (f m)

mutual
def mapTy {α β : Type} (f : α → β) : Ty α → Ty β
  | .nominal n => .nominal (f n)
  | .optional t => .optional (mapTy f t)
  | .varSized t => .varSized (mapTy f t)
  | .constSized t n b => .constSized (mapTy f t) n b
  | .dict k v => .dict (mapTy f k) (mapTy f v)
  | .func p ps r => .func p (mapTys f ps) (mapTy f r)
  | .ref a t => .ref (a.map (mapAuth f)) (mapTy f t)
  | .inter ts => .inter (ts.map f)
  | .inst t args => .inst (mapTy f t) (mapTys f args)
def mapTys {α β : Type} (f : α → β) : List (Ty α) → List (Ty β)
  | [] => []
  | t :: ts => mapTy f t :: mapTys f ts
end

/-- semantic type denoted by a type AST in a scope -/
def denote (s : Scope) (t : TypeAst) : CTy := mapTy (canon s) t

/-! ## declaration environment -/

/-- the nested declaration with the given identifier, as the Go by-identifier maps see it -/
def child (d : Decl) (x : String) : Option Decl := (nestedNominalTypeDecls d).find x

def lookupPath : Decl → List String → Option Decl
  | d, [] => some d
  | d, x :: p =>
    match child d x with
    | some c => lookupPath c p
    | none => none

structure Env where
  root : Decl
  imports : List (String × Loc)

def Env.scope (e : Env) : Scope := { root := e.root.name, imports := e.imports }

/-- the declaration conforms to the interface type `i`: directly, or through an interface `J` declared
in the contract (type declarations are nested in contracts only, so `J` is a child of the root) -/
inductive Conforms (e : Env) : Decl → CName → Prop where
  | direct {d : Decl} {i : CName} (c : Nominal) : c ∈ d.confs → canon e.scope c = i → Conforms e d i
  | via {d : Decl} {i : CName} (c : Nominal) (x : String) (j : Decl) : c ∈ d.confs →
      canon e.scope c = .loc [x] → child e.root x = some j → j.shape = .interface →
      Conforms e j i → Conforms e d i

/-! ## stored values -/

inductive Val where
  | prim (name : String)                      -- a value of the built-in type `name`
  | extv (l : Loc) (x : String) (rest : List String)   -- a value of a type declared in another contract
  | none_
  | some_ (v : Val)
  | arr (vs : List Val)
  | dict (ks vs : List Val)
  | comp (path : List String) (names : List String) (vals : List Val)   -- composite: field names / values
  | enumv (path : List String) (raw : Nat)

def valueKind (k : Kind) : Bool :=
  k == .structure || k == .resource || k == .attachment || k == .event || k == .contract

mutual
def hasType (e : Env) : Val → CTy → Prop
  | .prim n, t => t = .nominal (.loc [n])
  | .extv l x rest, t => t = .nominal (.ext l x rest)
  | .none_, t => ∃ u, t = .optional u
  | .some_ v, t => ∃ u, t = .optional u ∧ hasType e v u
  | .arr vs, t => (∃ u, t = .varSized u ∧ allTyped e vs u) ∨
      (∃ u n b, t = .constSized u n b ∧ n = vs.length ∧ allTyped e vs u)
  | .dict ks vs, t => ∃ k u, t = .dict k u ∧ allTyped e ks k ∧ allTyped e vs u
  | .comp p names vals, t =>
    ∃ d, lookupPath e.root p = some d ∧ valueKind d.kind = true ∧
      (∀ f ∈ d.fields, fieldTyped e names vals f.name (denote e.scope f.ty)) ∧
      (t = .nominal (.loc p) ∨
        (∃ is, t = .inter is ∧ d.shape = .composite ∧ ∀ i ∈ is, Conforms e d i))
  | .enumv p raw, t =>
    ∃ d, lookupPath e.root p = some d ∧ d.kind = .enum ∧ raw < d.cases.length ∧ t = .nominal (.loc p)
/-- the composite value has a field `name` holding a value of type `t` -/
def fieldTyped (e : Env) : List String → List Val → String → CTy → Prop
  | n :: ns, v :: vs, name, t => (n = name ∧ hasType e v t) ∨ fieldTyped e ns vs name t
  | _, _, _, _ => False
def allTyped (e : Env) : List Val → CTy → Prop
  | [], _ => True
  | v :: vs, t => hasType e v t ∧ allTyped e vs t
end

/-- the case name an enum raw value stands for -/
def enumCase (e : Env) (p : List String) (raw : Nat) : Option String :=
  match lookupPath e.root p with
  | some d => d.cases[raw]?
  | none => none

mutual
/-- every composite / enum type occurring in the value is still declared -/
def pathsLive (root : Decl) : Val → Prop
  | .prim _ | .extv .. | .none_ => True
  | .some_ v => pathsLive root v
  | .arr vs => allLive root vs
  | .dict ks vs => allLive root ks ∧ allLive root vs
  | .comp p _ vals => lookupPath root p ≠ none ∧ allLive root vals
  | .enumv p _ => lookupPath root p ≠ none
def allLive (root : Decl) : List Val → Prop
  | [] => True
  | v :: vs => pathsLive root v ∧ allLive root vs
end

/-! ## compatibility of one declaration with its successor -/

structure NodeCompat (so sn : Scope) (o n : Decl) : Prop where
  kind : o.kind = n.kind
  name : o.name = n.name
  fields : ∀ nf ∈ n.fields, ∃ of ∈ o.fields, of.name = nf.name ∧ denote so of.ty = denote sn nf.ty
  cases : o.cases <+: n.cases
  confs : o.shape ≠ .attachment → ∀ oc ∈ o.confs, ∃ nc ∈ n.confs, canon so oc = canon sn nc

/-- the old and the new declaration tree agree on every path that is still declared -/
def PathCompat (so sn : Scope) (old new : Decl) : Prop :=
  ∀ p od nd, lookupPath old p = some od → lookupPath new p = some nd → NodeCompat so sn od nd

/-- a nested declaration may disappear only if the new containing declaration names it in a
`#removedType` pragma and it is not an interface -/
def RemovalJustified (old new : Decl) : Prop :=
  ∀ p x od oc nd, lookupPath old p = some od → child od x = some oc → lookupPath new p = some nd →
    child nd x = none → x ∈ removedNames nd.pragmas ∧ oc.kind.isInterface = false

/-- no declaration on the path is named by a `#removedType` pragma of its (new) containing declaration -/
def NotRemoved : Decl → List String → Prop
  | _, [] => True
  | n, x :: q => x ∉ removedNames n.pragmas ∧ ∀ nc, child n x = some nc → NotRemoved nc q

/-- the names of the nested type declarations are pairwise different at every level of the tree
(the checker rejects a redeclaration) -/
def NoDupNames (root : Decl) : Prop :=
  ∀ p d, lookupPath root p = some d → ((d.composites ++ d.attachments ++ d.interfaces).map (·.name)).Nodup

end Verif.Spec.Update
