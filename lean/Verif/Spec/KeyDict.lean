/-! Dictionary spec for C18: an association list keyed by an equality test `eqf`
(insert replaces the value of the entry whose key the new key equals; lookup returns the value of the
first entry whose key the looked-up key equals).  Core only. -/
namespace Verif.Spec.KeyDict

variable {K V : Type}

def insert (eqf : K → K → Bool) (k : K) (v : V) : List (K × V) → List (K × V)
  | [] => [(k, v)]
  | (k', v') :: rest => if eqf k k' then (k', v) :: rest else (k', v') :: insert eqf k v rest

def lookup (eqf : K → K → Bool) (k : K) : List (K × V) → Option V
  | [] => none
  | (k', v') :: rest => if eqf k k' then some v' else lookup eqf k rest

end Verif.Spec.KeyDict
