/-
Two's-complement bit operations and shifts: the specification side of C14.  Independent of the
generated model and of the hand-written `Go.land/lor/xor` (which work by sign cases): here an
integer of a type of width `n` is *represented* by the natural number below `2^n` with the same low
`n` bits (`toTC`), the operation is the bitwise operation on those `n`-bit patterns (`Nat.land` …),
and the pattern is read back as a value of the type (`ofTC`).  Core Lean only.
-/
import Verif.Spec.Arith
namespace Verif.Spec.ArithBits
open Verif.Model.Num (NumErr)
open Verif.Spec.Arith

inductive BitOp where
  | and | or | xor
  deriving DecidableEq, Repr

/-- the `n`-bit two's-complement pattern of `x` -/
def toTC (n : Nat) (x : Int) : Nat := (x % (2 : Int) ^ n).toNat

/-- the value of an `n`-bit pattern read as a signed number (top bit = sign) -/
def ofTCS (n : Nat) (r : Nat) : Int := if r < 2 ^ (n - 1) then (r : Int) else (r : Int) - (2 : Int) ^ n

/-- the operation on bit patterns -/
def BitOp.nat : BitOp → Nat → Nat → Nat
  | .and, x, y => x &&& y
  | .or, x, y => x ||| y
  | .xor, x, y => x ^^^ y

/-- `x` reduced into the type of width `n` (the value with the same low `n` bits) -/
def wrapTo (signed : Bool) (n : Nat) (x : Int) : Int :=
  if signed then ofTCS n (toTC n x) else (toTC n x : Int)

/-- C14, `& | ^` at width `n`: the operation on the `n`-bit two's-complement patterns -/
def bitopAt (signed : Bool) (n : Nat) (op : BitOp) (a b : Int) : Int :=
  if signed then ofTCS n (op.nat (toTC n a) (toTC n b)) else (op.nat (toTC n a) (toTC n b) : Int)

/-- a width that holds both operands as signed numbers (used for the unbounded types, whose
    "infinite" expansion is constant from that position on) -/
def widthFor (a b : Int) : Nat := max (a.natAbs.log2 + 2) (b.natAbs.log2 + 2)

/-- C14: `a & b`, `a | b`, `a ^ b` for a type.  For the unbounded types the theorems of
    `Properties/C14` state the result for *every* width that holds both operands; this executable
    form picks one. -/
def specBitop (T : Ty) (op : BitOp) (a b : Int) : Except NumErr Int :=
  match T with
  | .int n => .ok (bitopAt true n op a b)
  | .uint n => .ok (bitopAt false n op a b)
  | .word n => .ok (bitopAt false n op a b)
  | .bigInt => .ok (bitopAt true (widthFor a b) op a b)
  | .bigUInt => .ok (bitopAt false (widthFor a b) op a b)

/-- C14: `a << k` = `a * 2^k` truncated to the width (exact for Int / UInt); a negative shift amount
    fails; the unbounded types fail with overflow when `k` does not fit 64 bits. -/
def specShl (T : Ty) (a k : Int) : Except NumErr Int :=
  if k < 0 then .error .negativeShift else
  match T with
  | .int n => .ok (wrapTo true n (a * (2 : Int) ^ k.toNat))
  | .uint n => .ok (wrapTo false n (a * (2 : Int) ^ k.toNat))
  | .word n => .ok (wrapTo false n (a * (2 : Int) ^ k.toNat))
  | .bigInt => if k < (2 : Int) ^ 64 then .ok (a * (2 : Int) ^ k.toNat) else .error .overflow
  | .bigUInt => if k < (2 : Int) ^ 64 then .ok (a * (2 : Int) ^ k.toNat) else .error .overflow

/-- C14: `a >> k` = `⌊a / 2^k⌋` for every `k ≥ 0` (`Int./` rounds toward −∞ for a positive divisor) -/
def specShr (T : Ty) (a k : Int) : Except NumErr Int :=
  if k < 0 then .error .negativeShift else
  match T with
  | .bigInt => if k < (2 : Int) ^ 64 then .ok (a / (2 : Int) ^ k.toNat) else .error .overflow
  | .bigUInt => if k < (2 : Int) ^ 64 then .ok (a / (2 : Int) ^ k.toNat) else .error .overflow
  | _ => .ok (a / (2 : Int) ^ k.toNat)

/-! Executable forms for the driver: the same functions without the astronomically large power
    `2^k` for `k ≥ n` (`Properties/C14: C14_specShlExec_eq / C14_specShrExec_eq` prove them equal to
    the definitions above on operands of the type). -/

def bitsOf? : Ty → Option Nat
  | .int n => some n | .uint n => some n | .word n => some n | _ => none

def specShlExec (T : Ty) (a k : Int) : Except NumErr Int :=
  if k < 0 then .error .negativeShift else
  match bitsOf? T with
  | some n => if k ≥ n then .ok 0 else specShl T a k
  | none => if k < (2 : Int) ^ 64 then specShl T a k else .error .overflow

def specShrExec (T : Ty) (a k : Int) : Except NumErr Int :=
  if k < 0 then .error .negativeShift else
  match bitsOf? T with
  | some n => if k ≥ n then .ok (if a < 0 then -1 else 0) else specShr T a k
  | none => if k < (2 : Int) ^ 64 then specShr T a k else .error .overflow

end Verif.Spec.ArithBits
