/-
Set semantics of authorizations (independent of the model's `permits`; core Lean only).

A *holder set* `H` is the set of entitlements somebody actually possesses (a list; only membership
matters).  The denotation `⟦a⟧` of an authorization `a` — the authorization part of a reference type
`auth(a) &T` — is the set of holder sets a holder of such a reference may possess:
  ⟦unauthorized⟧ = all sets,  ⟦conj S⟧ = {H | S ⊆ H},  ⟦disj S⟧ = {H | H ∩ S ≠ ∅}.
A requirement `req` (the access modifier of a member, or the authorization of a target reference
type) is satisfied by a holder set: `sat req H` — conjunction: every listed entitlement,
disjunction: at least one, `access(all)`: always.
-/
import Verif.Model.Auth
namespace Verif.Spec.Auth
open Verif.Model.Auth

variable {ε : Type} [DecidableEq ε]

/-- the accesses that can be the authorization of a reference type a program can write or the
    checker can derive: unauthorized, or a non-empty conjunction / disjunction. -/
def IsAuth : Access ε → Prop
  | .prim p => p = .all
  | .set _ es => es ≠ []
  | .map _ => False

instance : DecidablePred (IsAuth (ε := ε)) := fun a => by
  cases a <;> simp only [IsAuth] <;> infer_instance

/-- `H ∈ ⟦held⟧` -/
def den : Access ε → List ε → Prop
  | .prim .all, _ => True
  | .set .conj S, H => ∀ s, s ∈ S → s ∈ H
  | .set .disj S, H => ∃ s, s ∈ S ∧ s ∈ H
  | _, _ => False

/-- `sat req H`, executable -/
def sat : Access ε → List ε → Bool
  | .prim .all, _ => true
  | .set .conj S, H => S.all (fun s => H.contains s)
  | .set .disj S, H => S.any (fun s => H.contains s)
  | _, _ => false

/-- what a holder of `H` possesses after going through mapping `m`: the union of the images of the
    entitlements actually held (plus themselves when the mapping includes `Identity`) -/
def applyMap (m : Mapping ε) (H : List ε) : List ε :=
  H.flatMap (fun h => (m.relations.filter (fun r => r.1 == h)).map (·.2) ++ (if m.includesIdentity then [h] else []))

/-- all sublists (as subsets) of a universe — for the executable oracle of the driver -/
def subsets : List ε → List (List ε)
  | [] => [[]]
  | x :: xs => let r := subsets xs; r ++ r.map (x :: ·)

/-- executable oracle over a finite universe `U`: `∀ H ⊆ U, H ∈ ⟦held⟧ → sat req H` -/
def permitsSpec (U : List ε) (req held : Access ε) : Bool :=
  (subsets U).all (fun H => !sat held H || sat req H)

/-- executable oracle for `IntersectAccess`: every holder of `a` and every holder of `b` satisfies `r` -/
def intersectSpec (U : List ε) (a b r : Access ε) : Bool :=
  (subsets U).all (fun H => !(sat a H || sat b H) || sat r H)

/-- executable oracle for `Image`: for every holder set of `a`, its mapped set satisfies `r` -/
def imageSpec (U : List ε) (m : Mapping ε) (a r : Access ε) : Bool :=
  (subsets U).all (fun H => !sat a H || sat r (applyMap m H))

end Verif.Spec.Auth
