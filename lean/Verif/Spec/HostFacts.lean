import Verif.Gen.HostFacts
import Verif.Model.HostProp
/-!
C28, fact side: pinned inventory of recover() sites and of the `defer Recover` entry points, and the
translation of the extracted `ExternalInterface` method table into the model's call sites.
-/
namespace Verif.Spec.HostFacts
open Verif.Gen.HostFacts Verif.Model.HostProp

/-- the model's view of one extracted method: a host panic is converted (the inner call sits inside
    `errors.WrapPanic`), and a returned error reaches the caller wrapped as an external error
    (methods without an error result have nothing to return) -/
def siteOf (m : Method) : Site where
  wrapPanic := m.callsInner && m.insideWrapPanic
  returnsErr := !m.hasErr || (m.wrapsErr && m.returnsErr)

def sitesOf (ms : List Method) : Nat → Site := fun i => ((ms.map siteOf)[i]?).getD ⟨true, true⟩

def allWrappedB (ms : List Method) : Bool := ms.all (fun m => (siteOf m).wrapPanic && (siteOf m).returnsErr)

/-- executor entry points that must run under `defer Recover(...)` -/
def requiredTopRecover : List (String × String) := [
  ("runtime/contract_function_executor.go", "contractFunctionExecutor.execute"),
  ("runtime/contract_function_executor.go", "contractFunctionExecutor.preprocess"),
  ("runtime/script_executor.go", "scriptExecutor.execute"),
  ("runtime/script_executor.go", "scriptExecutor.preprocess"),
  ("runtime/transaction_executor.go", "transactionExecutor.execute"),
  ("runtime/transaction_executor.go", "transactionExecutor.preprocess")]

def topRecoverB (sites : List (String × String)) : Bool := requiredTopRecover.all (fun s => sites.contains s)

/-- pinned: every recover() in non-test code.  The frames that may catch a host failure are the top-level
    `Recover`, `errors.WrapPanic` (re-panics as ExternalError), `RecoverErrors` of both engines (re-panic
    / convert to the returned error), `UserPanicToError` (user errors only), and
    `nativeAccountContractsTryUpdateFunction` (documented exception); all others (saturating
    arithmetic, lexer / parser / checker, codecs, argument transfer, pretty printer, REPL) do not enclose
    host calls or re-panic what they do not handle — exercised by the `fault` stream. -/
def pinnedRecoverSites : List (String × String) := [
  ("bbq/vm/vm.go", "VM.RecoverErrors"),
  ("bbq/vm/vm.go", "convertAndBoxArguments"),
  ("encoding/ccf/decode.go", "Decoder.Decode"),
  ("encoding/ccf/encode.go", "Encoder.Encode"),
  ("encoding/json/decode.go", "Decoder.Decode"),
  ("encoding/json/encode.go", "Encoder.Encode"),
  ("errors/wrappanic.go", "WrapPanic"),
  ("interpreter/interpreter.go", "Interpreter.RecoverErrors"),
  ("interpreter/interpreter.go", "checkValue"),
  ("interpreter/interpreter_invocation.go", "Interpreter.invokeInterpretedFunctionActivated"),
  ("interpreter/interpreter_invocation.go", "transferArguments"),
  ("interpreter/value_int.go", "IntValue.SaturatingDiv"),
  ("interpreter/value_int.go", "IntValue.SaturatingMinus"),
  ("interpreter/value_int.go", "IntValue.SaturatingMul"),
  ("interpreter/value_int.go", "IntValue.SaturatingPlus"),
  ("interpreter/value_uint.go", "UIntValue.SaturatingDiv"),
  ("interpreter/value_uint.go", "UIntValue.SaturatingMul"),
  ("interpreter/value_uint.go", "UIntValue.SaturatingPlus"),
  ("interpreter/value_uint128.go", "UInt128Value.SaturatingDiv"),
  ("interpreter/value_uint16.go", "UInt16Value.SaturatingDiv"),
  ("interpreter/value_uint256.go", "UInt256Value.SaturatingDiv"),
  ("interpreter/value_uint32.go", "UInt32Value.SaturatingDiv"),
  ("interpreter/value_uint64.go", "UInt64Value.SaturatingDiv"),
  ("interpreter/value_uint8.go", "UInt8Value.SaturatingDiv"),
  ("old_parser/expression.go", "defineLessThanOrTypeArgumentsExpression"),
  ("old_parser/lexer/lexer.go", "lexer.run"),
  ("old_parser/parser.go", "ParseTokenStream"),
  ("parser/expression.go", "defineLessThanOrTypeArgumentsExpression"),
  ("parser/lexer/lexer.go", "lexer.run"),
  ("parser/parser.go", "ParseTokenStream"),
  ("pretty/print.go", "ErrorPrettyPrinter.PrettyPrintError"),
  ("runtime/recover.go", "Recover"),
  ("runtime/repl.go", "REPL.Accept"),
  ("runtime/runtime.go", "UserPanicToError"),
  ("sema/checker.go", "Checker.Check"),
  ("stdlib/account.go", "nativeAccountContractsTryUpdateFunction")
]

def pinnedTopRecoverSites : List (String × String) := [
  ("runtime/contract_function_executor.go", "contractFunctionExecutor.execute"),
  ("runtime/contract_function_executor.go", "contractFunctionExecutor.preprocess"),
  ("runtime/runtime.go", "runtime.ParseAndCheckProgram"),
  ("runtime/runtime.go", "runtime.ReadStored"),
  ("runtime/script_executor.go", "scriptExecutor.execute"),
  ("runtime/script_executor.go", "scriptExecutor.executeWithVM"),
  ("runtime/script_executor.go", "scriptExecutor.preprocess"),
  ("runtime/transaction_executor.go", "transactionExecutor.execute"),
  ("runtime/transaction_executor.go", "transactionExecutor.executeWithVM"),
  ("runtime/transaction_executor.go", "transactionExecutor.preprocess")
]

end Verif.Spec.HostFacts
