/-
Fixed-point arithmetic (Fix64, UFix64 at scale 10^8; Fix128, UFix128 at scale 10^24): the specification side of C15 (and of C13 for
the fixed-point saturating members).  A value is represented by its raw scaled integer `r` (the
number `r / 10^8`).  Independent of the generated model.  Core Lean only.
-/
import Verif.Spec.Arith
namespace Verif.Spec.FixArith
open Verif.Model.Num (NumErr)
open Verif.Spec.Arith

inductive FTy where
  | fix64 | ufix64 | fix128 | ufix128
  deriving DecidableEq, Repr

/-- the scale factor: 10^8 for the 64-bit types, 10^24 for the 128-bit types -/
@[reducible] def FTy.scale : FTy → Int
  | .fix64 => 100000000
  | .ufix64 => 100000000
  | .fix128 => 1000000000000000000000000
  | .ufix128 => 1000000000000000000000000

/-- the raw integers of a type: those of Int64 / UInt64 / Int128 / UInt128 -/
@[reducible] def FTy.raw : FTy → Ty
  | .fix64 => .int 64
  | .ufix64 => .uint 64
  | .fix128 => .int 128
  | .ufix128 => .uint 128

/-- the exact result, as a raw integer: sums and differences are exact; the product `(a/s)(b/s)` and
    the quotient `(a/s)/(b/s)` are the rationals `ab/s²` and `a/b`, truncated toward zero to a multiple
    of `1/s`; the remainder is `a − trunc(a/b)·b` (`trunc(a/b)` is an integer, so this is exact) -/
@[reducible] def exactRaw (s : Int) : Op → Int → Int → Int
  | .add, a, b => a + b
  | .sub, a, b => a - b
  | .mul, a, b => Int.tdiv (a * b) s
  | .div, a, b => Int.tdiv (a * s) b
  | .mod, a, b => a - Int.tdiv a b * b

/-- C15: `+ − * /`: the exact result truncated toward zero to the scale, or overflow / underflow exactly
    when that is out of range; division by zero fails -/
def specFix (T : FTy) (op : Op) (a b : Int) : Except NumErr Int :=
  if op.divides ∧ b = 0 then .error .divZero else classify T.raw (exactRaw T.scale op a b)

/-- C15: `%` = `a − trunc(a/b)·b`; it may fail (only) when the quotient `a/b` is out of range -/
def specFixMod (T : FTy) (a b : Int) : Except NumErr Int :=
  if b = 0 then .error .divZero else
  match classify T.raw (exactRaw T.scale .div a b) with
  | .error e => .error e
  | .ok _ => .ok (exactRaw T.scale .mod a b)

/-- C13 for the fixed-point types: the same exact result, clamped -/
def specFixSat (T : FTy) (op : Op) (a b : Int) : Except NumErr Int :=
  if op.divides ∧ b = 0 then .error .divZero else .ok (clamp T.raw (exactRaw T.scale op a b))

end Verif.Spec.FixArith
