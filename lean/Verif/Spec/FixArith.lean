/-
Fixed-point arithmetic (Fix64, UFix64 at scale 10^8; Fix128, UFix128 at scale 10^24): the specification side of C15 (and of C13 for
the fixed-point saturating members).  A value is represented by its raw scaled integer `r` (the
number `r / 10^8`).  Independent of the generated model.  Core Lean only.
-/
import Verif.Spec.Arith
namespace Verif.Spec.FixArith
open Verif.Model.Num (NumErr)
open Verif.Spec.Arith

inductive FTy where
  | fix64 | ufix64 | fix128 | ufix128
  deriving DecidableEq, Repr

/-- the scale factor: 10^8 for the 64-bit types, 10^24 for the 128-bit types -/
@[reducible] def FTy.scale : FTy → Int
  | .fix64 => 100000000
  | .ufix64 => 100000000
  | .fix128 => 1000000000000000000000000
  | .ufix128 => 1000000000000000000000000

/-- the raw integers of a type: those of Int64 / UInt64 / Int128 / UInt128 -/
@[reducible] def FTy.raw : FTy → Ty
  | .fix64 => .int 64
  | .ufix64 => .uint 64
  | .fix128 => .int 128
  | .ufix128 => .uint 128

/-- the exact result, as a raw integer: sums and differences are exact; the product `(a/s)(b/s)` and
    the quotient `(a/s)/(b/s)` are the rationals `ab/s²` and `a/b`, truncated toward zero to a multiple
    of `1/s`; the remainder is `a − trunc(a/b)·b` (`trunc(a/b)` is an integer, so this is exact) -/
@[reducible] def exactRaw (s : Int) : Op → Int → Int → Int
  | .add, a, b => a + b
  | .sub, a, b => a - b
  | .mul, a, b => Int.tdiv (a * b) s
  | .div, a, b => Int.tdiv (a * s) b
  | .mod, a, b => a - Int.tdiv a b * b

/-- C15: `+ − * /`: the exact result truncated toward zero to the scale, or overflow / underflow exactly
    when that is out of range; division by zero fails -/
def specFix (T : FTy) (op : Op) (a b : Int) : Except NumErr Int :=
  if op.divides ∧ b = 0 then .error .divZero else classify T.raw (exactRaw T.scale op a b)

/-- C15: `%` = `a − trunc(a/b)·b`; it may fail (only) when the quotient `a/b` is out of range -/
def specFixMod (T : FTy) (a b : Int) : Except NumErr Int :=
  if b = 0 then .error .divZero else
  match classify T.raw (exactRaw T.scale .div a b) with
  | .error e => .error e
  | .ok _ => .ok (exactRaw T.scale .mod a b)

/-- C13 for the fixed-point types: the same exact result, clamped -/
def specFixSat (T : FTy) (op : Op) (a b : Int) : Except NumErr Int :=
  if op.divides ∧ b = 0 then .error .divZero else .ok (clamp T.raw (exactRaw T.scale op a b))

/-! ### `multiplyDivide` -/

/-- the cases of `RoundingRule` -/
inductive Rounding where
  | towardZero | awayFromZero | nearestHalfAway | nearestHalfEven
  deriving DecidableEq, Repr

/-- the rational `n / d` (`d ≠ 0`) rounded to an integer by the rule: `q` is the quotient truncated toward
    zero, `q + sign(n/d)` its neighbour away from zero; the nearest rules compare twice the remainder with
    the divisor and differ only on an exact tie (away from zero / to the even neighbour) -/
def roundDiv (r : Rounding) (n d : Int) : Int :=
  let q := Int.tdiv n d
  let rem := Int.tmod n d
  if rem = 0 then q else
  let away := q + Int.sign n * Int.sign d
  match r with
  | .towardZero => q
  | .awayFromZero => away
  | .nearestHalfAway => if d.natAbs ≤ 2 * rem.natAbs then away else q
  | .nearestHalfEven =>
    if d.natAbs < 2 * rem.natAbs then away
    else if 2 * rem.natAbs < d.natAbs then q
    else if q % 2 = 0 then q else away

/-- C15: `a.multiplyDivide(b, c, rounding)`: the values are `a/s`, `b/s`, `c/s`, so the exact result
    `(a/s)(b/s)/(c/s)` is `(ab/c)/s` — the raw result is the rational `ab/c` rounded to an integer by the
    rule (no intermediate rounding), overflow / underflow exactly when that is out of range, division by
    zero for a zero divisor (whatever the other operands) -/
def specMulDiv (T : FTy) (r : Rounding) (a b c : Int) : Except NumErr Int :=
  if c = 0 then .error .divZero else classify T.raw (roundDiv r (a * b) c)

/-! ### The input shape of the known defect of the external library's 128-bit division

`onflow/fixed-point` v0.1.1, `div192by128` (behind `FMD`, hence behind `/`, `saturatingDivide` and
`multiplyDivide` of Fix128 / UFix128): when the truncated interim remainder equals the truncated divisor the
code *assumes* that the next 64-bit quotient word is `2^64 − 1`; it can be `2^64 − 2`.  Then the low word
comes out one too large (with a wrapped remainder, so a rounding rule may add another unit or report an
overflow), and when it happens in the first of the two passes (numerator ≥ 2^192) the result is garbage or
the library panics.  Necessary for it: the divisor, stripped of its trailing zero bits, needs more than 64
bits, and a 64-bit word of the true truncated quotient is `2^64 − 2`. -/

def stripTwos : Nat → Nat → Nat
  | 0, d => d
  | f + 1, d => if d % 2 = 0 ∧ d ≠ 0 then stripTwos f (d / 2) else d

def w64 : Nat := 18446744073709551616

/-- the low word of the true quotient `n / d` is `2^64 − 2`, wide divisor -/
def div128SuspectLow (n d : Nat) : Bool :=
  decide (w64 ≤ stripTwos 64 d) && (n / d) % w64 == w64 - 2

/-- the second word of the true quotient is `2^64 − 2`, wide divisor -/
def div128SuspectHigh (n d : Nat) : Bool :=
  decide (w64 ≤ stripTwos 64 d) && (n / d / w64) % w64 == w64 - 2

end Verif.Spec.FixArith
