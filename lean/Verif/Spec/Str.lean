/-!
# Spec for C19: string operations on the list of grapheme clusters (no byte offsets)
Core only.
-/
namespace Verif.Spec.Str

abbrev Bytes := List UInt8
abbrev Cluster := Bytes

/-- a whole number of leading clusters concatenates to exactly `needle` -/
def alignedPrefix : List Cluster → Bytes → Bool
  | _, [] => true
  | [], _ :: _ => false
  | c :: cs, n :: ns => if c.isPrefixOf (n :: ns) then alignedPrefix cs ((n :: ns).drop c.length) else false

/-- index of the first cluster at which a cluster-aligned occurrence of the non-empty `needle` starts -/
def indexOf : List Cluster → Bytes → Nat → Option Nat
  | [], _, _ => none
  | c :: cs, needle, i => if alignedPrefix (c :: cs) needle then some i else indexOf cs needle (i + 1)

/-- number of clusters a cluster-aligned occurrence of `needle` at the head spans -/
def spanLen : List Cluster → Bytes → Nat
  | _, [] => 0
  | [], _ :: _ => 0
  | c :: cs, n :: ns => 1 + spanLen cs ((n :: ns).drop c.length)

/-- slicing fails exactly for `from < 0 ∨ to > length ∨ from > to` -/
def sliceFails (length : Nat) (fromIndex toIndex : Int) : Prop :=
  fromIndex < 0 ∨ toIndex > length ∨ fromIndex > toIndex

def slice (cs : List Cluster) (fromIndex toIndex : Nat) : List Cluster :=
  (cs.drop fromIndex).take (toIndex - fromIndex)

/-- greedy left-to-right count of non-overlapping aligned occurrences (`fuel` ≥ number of clusters) -/
def count (needle : Bytes) : Nat → List Cluster → Nat
  | 0, _ => 0
  | fuel + 1, cs =>
    match indexOf cs needle 0 with
    | none => 0
    | some i => 1 + count needle fuel (cs.drop (i + spanLen (cs.drop i) needle))

/-- split at the greedy left-to-right aligned occurrences of the non-empty separator -/
def split (sep : Bytes) : Nat → List Cluster → List (List Cluster)
  | 0, cs => [cs]
  | fuel + 1, cs =>
    match indexOf cs sep 0 with
    | none => [cs]
    | some i => cs.take i :: split sep fuel (cs.drop (i + spanLen (cs.drop i) sep))

end Verif.Spec.Str
