/-
Spec for C21: the arithmetic sequence denoted by `InclusiveRange(start, end, step)`.
-/
namespace Verif.Spec.Range

/-- a constructible range: non-zero step pointing from start towards end -/
def Valid (s e st : Int) : Prop := (s ≤ e ∧ 0 < st) ∨ (e ≤ s ∧ st < 0)

/-- number of steps that fit between start and end: ⌊|end − start| / |step|⌋ -/
def count (s e st : Int) : Nat := (e - s).natAbs / st.natAbs

/-- start, start + step, …, the values not beyond end -/
def seq (s e st : Int) : List Int :=
  (List.range (count s e st + 1)).map fun (k : Nat) => s + (k : Int) * st

end Verif.Spec.Range
