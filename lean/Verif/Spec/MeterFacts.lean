import Verif.Gen.MeterFacts
/-!
C30, fact side: the pinned expectation for the metering calls on the loop back-edges, statements and
function invocations of the interpreter and the VM (`vtool gen-meterfacts`), and the side condition the
abstract machine's theorem needs: *every cycle is charged* —
* interpreter `while`: the Go `for` loop of `VisitWhileStatement` charges `LoopComputationUsage` (and the
  statement usage for the next test) on every iteration; `for-in`: `visitForStatementBody`, run once per
  element from `VisitForStatement`'s closure, charges `LoopComputationUsage`; every statement of a block
  charges `StatementComputationUsage`; every invocation charges `FunctionInvocationComputationUsage`;
* VM: the compiler emits `InstructionLoop` after the loop test's conditional jump and before the body and
  the back-edge jump (`emitContinue`) of both loop forms; `VM.run` dispatches it to `opLoop`, which charges
  `LoopComputationUsage`; `invokeFunction` charges `FunctionInvocationComputationUsage`;
* call depth: both engines compare against the limit and raise `CallStackLimitExceededError`; the
  interpreter environment's limit is `runtime.Config.StackDepthLimit` (0 = the default 2000,
  `newStackDepthLimiter`), the VM environment's is `vmStackDepthLimit` of it: the same, plus one for the
  entry point's call frame (`Verif.Model.Metered.interpEffectiveLimit` / `vmEffectiveLimit` are these two
  functions).
-/
namespace Verif.Spec.MeterFacts
open Verif.Gen.MeterFacts

def pinned : List (String × List String) := [
  ("callers interpreter.Interpreter.reportFunctionInvocation", ["interpreter.Interpreter.visitInvocationExpressionWithImplicitArgument"]),
  ("callers interpreter.Interpreter.reportLoopIteration", ["interpreter.Interpreter.VisitWhileStatement", "interpreter.Interpreter.visitForStatementBody"]),
  ("callers interpreter.Interpreter.visitForStatementBody", ["interpreter.Interpreter.VisitForStatement"]),
  ("callers vm.invokeFunction", ["vm.VM.invokeExternally", "vm.opInvoke"]),
  ("callers vm.opLoop", ["vm.VM.run"]),
  ("callers vm.opStatement", ["vm.VM.run"]),
  ("depth runtime.stackDepthLimiter.OnFunctionInvocation", ["if limiter.depth <= limiter.limit", "raises interpreter.CallStackLimitExceededError"]),
  ("depth runtime.vmEnvironment.newVMConfig StackDepthLimit", ["vmStackDepthLimit(e.config.StackDepthLimit)"]),
  ("depth vm.VM.pushCallFrame", ["if uint64(len(vm.callstack)) == vm.context.StackDepthLimit", "raises interpreter.CallStackLimitExceededError"]),
  ("dispatch vm.VM.run InstructionLoop", ["opLoop"]),
  ("dispatch vm.VM.run InstructionStatement", ["opStatement"]),
  ("limit runtime.newStackDepthLimiter", ["if stackDepthLimit == 0", "stackDepthLimit = defaultStackDepthLimit", "end", "return &stackDepthLimiter{limit: stackDepthLimit}"]),
  ("limit runtime.vmStackDepthLimit", ["if stackDepthLimit == 0", "stackDepthLimit = defaultStackDepthLimit", "end", "if stackDepthLimit < math.MaxUint64", "stackDepthLimit++", "end", "return stackDepthLimit"]),
  ("order compiler.Compiler.VisitForStatement", ["pushControlFlow", "emit:InstructionIteratorHasNext", "emitUndefinedJumpIfFalse", "emit:InstructionLoop", "emit:InstructionIteratorNext", "compileBlock", "emitContinue", "patchJump"]),
  ("order compiler.Compiler.VisitWhileStatement", ["pushControlFlow", "emitUndefinedJumpIfFalse", "emit:InstructionLoop", "compileBlock", "emitContinue", "patchJump"]),
  ("usages interp.for", ["LoopComputationUsage"]),
  ("usages interp.invoke", ["FunctionInvocationComputationUsage"]),
  ("usages interp.loopIteration", ["LoopComputationUsage"]),
  ("usages interp.statement", ["StatementComputationUsage"]),
  ("usages interp.while", ["LoopComputationUsage", "StatementComputationUsage"]),
  ("usages vm.invoke", ["FunctionInvocationComputationUsage"]),
  ("usages vm.loop", ["LoopComputationUsage"]),
  ("usages vm.statement", ["StatementComputationUsage"])
]

def valuesOf (key : String) : List String :=
  match facts.find? (fun f => f.1 == key) with
  | some f => f.2
  | none => []

def indexOf? (xs : List String) (x : String) : Option Nat :=
  match xs.findIdx? (· == x) with
  | some i => some i
  | none => none

/-- `a` occurs before `b` in the code-generation order of `fn` -/
def before (fn a b : String) : Bool :=
  match indexOf? (valuesOf ("order " ++ fn)) a, indexOf? (valuesOf ("order " ++ fn)) b with
  | some i, some j => i < j
  | _, _ => false

/-- every loop back-edge, statement and invocation path of both engines carries its charge -/
def cyclesCharged : Bool :=
  (valuesOf "usages interp.while").contains "LoopComputationUsage" &&
  (valuesOf "usages interp.for").contains "LoopComputationUsage" &&
  (valuesOf "callers interpreter.Interpreter.visitForStatementBody").contains "interpreter.Interpreter.VisitForStatement" &&
  (valuesOf "usages interp.statement").contains "StatementComputationUsage" &&
  (valuesOf "usages interp.invoke").contains "FunctionInvocationComputationUsage" &&
  !(valuesOf "callers interpreter.Interpreter.reportFunctionInvocation").isEmpty &&
  (valuesOf "usages vm.loop").contains "LoopComputationUsage" &&
  (valuesOf "dispatch vm.VM.run InstructionLoop").contains "opLoop" &&
  (valuesOf "usages vm.statement").contains "StatementComputationUsage" &&
  (valuesOf "usages vm.invoke").contains "FunctionInvocationComputationUsage" &&
  ["compiler.Compiler.VisitWhileStatement", "compiler.Compiler.VisitForStatement"].all (fun fn =>
    before fn "emitUndefinedJumpIfFalse" "emit:InstructionLoop" && before fn "emit:InstructionLoop" "compileBlock" &&
    before fn "compileBlock" "emitContinue") &&
  (valuesOf "depth runtime.stackDepthLimiter.OnFunctionInvocation").contains "raises interpreter.CallStackLimitExceededError" &&
  (valuesOf "depth vm.VM.pushCallFrame").contains "raises interpreter.CallStackLimitExceededError"

def meterfactsOk : Bool := facts == pinned && cyclesCharged

end Verif.Spec.MeterFacts
