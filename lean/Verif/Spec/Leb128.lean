/-
LEB128 as a mathematical definition (independent of the model of the Go code): the canonical
(shortest) unsigned and signed little-endian base-128 encodings, the fixed-length unsigned variant,
and the value denoted by a digit string.
-/
namespace Verif.Spec.Leb128

/-- canonical unsigned LEB128: base-128 digits, least significant first, bit 7 set on all but the last -/
def uleb (v : Nat) : List UInt8 :=
  if v < 128 then [UInt8.ofNat v] else UInt8.ofNat (v % 128 + 128) :: uleb (v / 128)
decreasing_by omega

/-- canonical signed LEB128: two's-complement digits; stops as soon as the rest is pure sign extension -/
def sleb (v : Int) : List UInt8 :=
  if -64 ≤ v ∧ v < 64 then [UInt8.ofNat (v % 128).toNat]
  else UInt8.ofNat ((v % 128).toNat + 128) :: sleb (v / 128)
termination_by v.natAbs
decreasing_by omega

/-- unsigned LEB128 padded to exactly `n` bytes (`n` digits, bit 7 set on all but the last) -/
def ulebFixed (v : Nat) : Nat → List UInt8
  | 0 => []
  | 1 => [UInt8.ofNat (v % 128)]
  | n + 2 => UInt8.ofNat (v % 128 + 128) :: ulebFixed (v / 128) (n + 1)

/-- number of bytes of the canonical unsigned encoding -/
def ulebLen (v : Nat) : Nat := if v < 128 then 1 else ulebLen (v / 128) + 1
decreasing_by omega

/-- the digit string at the head of `bs`: bytes up to and including the first one without
    continuation bit; `none` when `bs` ends before that -/
def headDigits : List UInt8 → Option (List Nat)
  | [] => none
  | b :: bs => if b.toNat < 128 then some [b.toNat] else (headDigits bs).map ((b.toNat - 128) :: ·)

/-- value of a little-endian base-128 digit string -/
def digitsValue : List Nat → Nat
  | [] => 0
  | d :: ds => d + 128 * digitsValue ds

/-- value of a digit string read as two's complement with `7 * length` bits -/
def digitsValueS (ds : List Nat) : Int :=
  let u := digitsValue ds
  if u < 2 ^ (7 * ds.length - 1) then (u : Int) else (u : Int) - 2 ^ (7 * ds.length)

/-- If `bs` starts with the canonical encoding of a `w`-bit unsigned integer, that integer and the
    encoding's length. -/
def canonicalHeadU (w : Nat) (bs : List UInt8) : Option (Nat × Nat) :=
  match headDigits bs with
  | none => none
  | some ds =>
    let v := digitsValue ds
    if v < 2 ^ w ∧ uleb v = bs.take ds.length then some (v, ds.length) else none

def canonicalHeadS (w : Nat) (bs : List UInt8) : Option (Int × Nat) :=
  match headDigits bs with
  | none => none
  | some ds =>
    let v := digitsValueS ds
    if -(2 ^ (w - 1) : Int) ≤ v ∧ v < 2 ^ (w - 1) ∧ sleb v = bs.take ds.length then some (v, ds.length) else none

end Verif.Spec.Leb128
