import Verif.Util.Proto
import Verif.Model.Codec.CValueSx
import Verif.Model.Codec.JsonText
import Verif.Model.Codec.Ccf
/-! Helpers shared by the drivers of the codec streams `json`, `ccf`, `xcodec` (classification of
failing cases into the narrow known-finding classes, canonical order of dictionary entries).  Part of
the correspondence harness, not of the model. -/
open Verif.Proto Verif.Model.Codec Verif.Model.Codec.Ccf
namespace Verif.Util.CodecDrv

mutual
def tyAny (p : CType → Bool) : CType → Bool
  | .opt t => p (.opt t) || tyAny p t
  | .varr t => p (.varr t) || tyAny p t
  | .carr n t => p (.carr n t) || tyAny p t
  | .dict k v => p (.dict k v) || tyAny p k || tyAny p v
  | .range t => p (.range t) || tyAny p t
  | .cap t => p (.cap t) || tyAny p t
  | .ref a t => p (.ref a t) || tyAny p t
  | .inter ts => p (.inter ts) || tysAny p ts
  | .func v tps ps r => p (.func v tps ps r) || tpsAny p tps || psAny p ps || tyAny p r
  | .comp k id e fs is => p (.comp k id e fs is) || tyAny p e || fsAny p fs || isAny p is
  | t => p t
def tysAny (p : CType → Bool) : Types → Bool
  | .nil => false | .cons t r => tyAny p t || tysAny p r
def fsAny (p : CType → Bool) : Fields → Bool
  | .nil => false | .cons _ t r => tyAny p t || fsAny p r
def psAny (p : CType → Bool) : Params → Bool
  | .nil => false | .cons _ _ t r => tyAny p t || psAny p r
def isAny (p : CType → Bool) : Inits → Bool
  | .nil => false | .cons ps r => psAny p ps || isAny p r
def tpsAny (p : CType → Bool) : TParams → Bool
  | .nil => false | .cons _ b r => tyAny p b || tpsAny p r
end

mutual
/-- does some value node satisfy `pv`, or some type embedded in a type value / capability / function satisfy `pt` -/
def valAny (pv : CValue → Bool) (pt : CType → Bool) : CValue → Bool
  | .some v => pv (.some v) || valAny pv pt v
  | .arr t vs => pv (.arr t vs) || valsAny pv pt vs
  | .dict t kvs => pv (.dict t kvs) || pairsAny pv pt kvs
  | .comp t vs => pv (.comp t vs) || valsAny pv pt vs
  | .range t s e q => pv (.range t s e q) || valAny pv pt s || valAny pv pt e || valAny pv pt q
  | .type t => pv (.type t) || tyAny pt t
  | .cap i a t => pv (.cap i a t) || tyAny pt t
  | .func t => pv (.func t) || tyAny pt t
  | v => pv v
def valsAny (pv : CValue → Bool) (pt : CType → Bool) : Values → Bool
  | .nil => false | .cons v r => valAny pv pt v || valsAny pv pt r
def pairsAny (pv : CValue → Bool) (pt : CType → Bool) : Pairs → Bool
  | .nil => false | .cons k v r => valAny pv pt k || valAny pv pt v || pairsAny pv pt r
end

def hasNilBound : TParams → Bool
  | .nil => false
  | .cons _ .nil _ => true
  | .cons _ _ r => hasNilBound r

/-- a function type with a type parameter that has no bound -/
def isUnboundTParamFunc : CType → Bool
  | .func _ tps _ _ => hasNilBound tps
  | _ => false

def isAttachmentValue : CValue → Bool
  | .comp (.comp .attachment _ _ _ _) _ => true
  | _ => false

def kindTagJ : CValue → String
  | .nilv => "v-nil" | .void => "v-void" | .none => "v-none" | .some _ => "v-some" | .bool _ => "v-bool"
  | .str _ => "v-str" | .char _ => "v-char" | .addr _ => "v-addr" | .int k _ => "v-" ++ k | .fix k _ => "v-" ++ k
  | .arr _ _ => "v-array" | .dict _ _ => "v-dict"
  | .comp (.comp k _ _ _ _) _ => "v-" ++ k.jsonKind
  | .comp _ _ => "v-comp?" | .path _ _ => "v-path" | .cap _ _ _ => "v-cap" | .type _ => "v-type"
  | .range _ _ _ _ => "v-range" | .func _ => "v-func"

def hexToString (h : String) : Option String := do
  let bs ← parseHex h
  String.fromUTF8? (ByteArray.mk bs.toArray)

/-- split `a:b:rest` at the first two colons -/
def split3 (s : String) : Option (String × String × String) :=
  match s.splitOn ":" with
  | a :: b :: rest => some (a, b, ":".intercalate rest)
  | _ => none

/-- a composite type one of whose initializer parameters mentions a composite type that is also
mentioned in its fields: the encoder visits fields before initializers (and writes the bare type ID
in the initializer), the decoder initializers before fields -/
def hasSeenInInits : CType → Bool
  | .comp _ _ _ fs is =>
    isAny (fun t => match t with
      | .comp _ id _ _ _ => fsAny (fun u => match u with | .comp _ id' _ _ _ => id == id' | _ => false) fs
      | _ => false) is
  | _ => false

def classifyDecErr (v : CValue) : String :=
  if valAny isAttachmentValue (fun _ => false) v then "json-attachment-not-decodable"
  else if valAny (fun _ => false) hasSeenInInits v then "json-initializer-repeats-field-type-not-decodable"
  else if valAny (fun _ => false) isUnboundTParamFunc v then "json-typeparam-without-bound-not-decodable"
  else "json-decoder-rejects-own-encoding"


def kindTag : CValue → String
  | .nilv => "v-nil" | .void => "v-void" | .none => "v-none" | .some _ => "v-some" | .bool _ => "v-bool"
  | .str _ => "v-str" | .char _ => "v-char" | .addr _ => "v-addr" | .int k _ => "v-" ++ k | .fix k _ => "v-" ++ k
  | .arr _ _ => "v-array" | .dict _ _ => "v-dict"
  | .comp (.comp k _ _ _ _) _ => "v-" ++ k.name
  | .comp _ _ => "v-comp?" | .path _ _ => "v-path" | .cap _ _ _ => "v-cap" | .type _ => "v-type"
  | .range _ _ _ _ => "v-range" | .func _ => "v-func"

mutual
/-- the value with the entries of every dictionary in encoding order (sorted by the encoded key):
"equal value" treats a dictionary as the set of its entries -/
def canon (tids : List Collected) : CValue → CValue
  | .some v => .some (canon tids v)
  | .arr t vs => .arr t (canonValues tids vs)
  | .dict t kvs =>
    let l := (canonPairs tids kvs).toList
    let keyed := l.map fun (k, v) =>
      (match value Mode.default tids false k (dictKeyType t) with | .ok x => Cbor.encode x | .error _ => [], (k, v))
    .dict t (Pairs.ofList ((sortBy (fun a b => bytesLe a.1 b.1) keyed).map (·.2)))
  | .comp t vs => .comp t (canonValues tids vs)
  | .range t s e p => .range t (canon tids s) (canon tids e) (canon tids p)
  | v => v
def canonValues (tids : List Collected) : Values → Values
  | .nil => .nil | .cons v r => .cons (canon tids v) (canonValues tids r)
def canonPairs (tids : List Collected) : Pairs → Pairs
  | .nil => .nil | .cons k v r => .cons (canon tids k) (canon tids v) (canonPairs tids r)
end

/-- the value is encoded as the CBOR nil -/
def encNil : CValue → Bool
  | .none | .void | .nilv => true
  | .some v => encNil v
  | _ => false

/-- what the CCF decoder returns for a CBOR nil at an optional static type (`newNilOptionalValue`):
the nil nested as deep as the directly nested optional types -/
def nilValueOf : CType → CValue
  | .opt (.opt t) => .some (nilValueOf (.opt t))
  | .ref _ t => nilValueOf t
  | _ => .none

mutual
/-- an optional value that is encoded as the CBOR nil but is not the nil the decoder reconstructs from
the static type (a nil nested less deeply than the static type, a nil nested through a reference type,
an optional Void) -/
def nilAmbiguous : CValue → CType → Bool
  | .none, st => showValue (nilValueOf st) != "(none)"
  | .some v, st =>
    if encNil v then showValue (CValue.some v) != showValue (nilValueOf st)
    else match st with
      | .opt t => nilAmbiguous v t
      | .ref _ (.opt t) => nilAmbiguous v t
      | _ => nilAmbiguous v .nil
  | .arr t vs, _ => nilAmbiguousVs vs (elemType t)
  | .dict t kvs, _ => nilAmbiguousPs kvs (dictKeyType t) (dictValType t)
  | .comp (.comp _ _ _ fs _) vs, _ => nilAmbiguousFs vs fs
  | _, _ => false
def nilAmbiguousVs : Values → CType → Bool
  | .nil, _ => false | .cons v r, t => nilAmbiguous v t || nilAmbiguousVs r t
def nilAmbiguousPs : Pairs → CType → CType → Bool
  | .nil, _, _ => false | .cons k v r, kt, vt => nilAmbiguous k kt || nilAmbiguous v vt || nilAmbiguousPs r kt vt
def nilAmbiguousFs : Values → Fields → Bool
  | .nil, _ => false | .cons v r, fs => nilAmbiguous v (fieldTypeAt fs) || nilAmbiguousFs r (fieldsRest fs)
end

mutual
def hasFunctionValue : CValue → Bool
  | .func _ => true
  | .some v => hasFunctionValue v
  | .arr _ vs | .comp _ vs => hasFunctionValueVs vs
  | .dict _ kvs => hasFunctionValuePs kvs
  | _ => false
def hasFunctionValueVs : Values → Bool
  | .nil => false | .cons v r => hasFunctionValue v || hasFunctionValueVs r
def hasFunctionValuePs : Pairs → Bool
  | .nil => false | .cons k v r => hasFunctionValue k || hasFunctionValue v || hasFunctionValuePs r
end


end Verif.Util.CodecDrv
