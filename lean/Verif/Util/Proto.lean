/-
Line protocol shared by all correspondence drivers (core Lean only).

A harness line is `f1 \t f2 \t ... \t => \t goResult`.  A driver answers with exactly one line:
  OK \t tags
  MODELDIFF \t modelResult \t tags          (Go differs from the model, but satisfies the spec)
  VIOLATION \t class \t specSays \t tags     (Go violates the property's spec; `class` names a
                                              narrow, documented region used by known_findings.json)
  SKIP \t reason                             (line outside the model's domain; counted, not compared)
`tags` is a comma separated list of model-branch labels; a tag starting with `!` marks the case as
non-trivial for the evidence count.
-/
namespace Verif.Proto

inductive Verdict where
  | ok (tags : List String)
  | modelDiff (model : String) (tags : List String)
  | violation (cls : String) (specSays : String) (tags : List String)
  | skip (reason : String)

def Verdict.render : Verdict → String
  | .ok tags => "OK\t" ++ ",".intercalate tags
  | .modelDiff m tags => "MODELDIFF\t" ++ m ++ "\t" ++ ",".intercalate tags
  | .violation c s tags => "VIOLATION\t" ++ c ++ "\t" ++ s ++ "\t" ++ ",".intercalate tags
  | .skip r => "SKIP\t" ++ r

/-- Split a harness line into operation fields and the Go result. -/
def splitLine (line : String) : Option (List String × String) :=
  let fs := line.splitOn "\t"
  let rec go (acc : List String) : List String → Option (List String × String)
    | [] => none
    | "=>" :: rest => some (acc.reverse, "\t".intercalate rest)
    | f :: rest => go (f :: acc) rest
  go [] fs

def hexDigit (c : Char) : Option Nat :=
  if '0' ≤ c ∧ c ≤ '9' then some (c.toNat - '0'.toNat)
  else if 'a' ≤ c ∧ c ≤ 'f' then some (c.toNat - 'a'.toNat + 10)
  else if 'A' ≤ c ∧ c ≤ 'F' then some (c.toNat - 'A'.toNat + 10)
  else none

def parseHexAux : List Char → List UInt8 → Option (List UInt8)
  | [], acc => some acc.reverse
  | [_], _ => none
  | a :: b :: rest, acc =>
    match hexDigit a, hexDigit b with
    | some x, some y => parseHexAux rest (UInt8.ofNat (x * 16 + y) :: acc)
    | _, _ => none

/-- `"0a ff"`-style hex without separators; `-` denotes the empty byte string. -/
def parseHex (s : String) : Option (List UInt8) :=
  if s == "-" then some [] else parseHexAux s.toList []

def hexChar (n : Nat) : Char :=
  if n < 10 then Char.ofNat (n + '0'.toNat) else Char.ofNat (n - 10 + 'a'.toNat)

def toHex (bs : List UInt8) : String :=
  if bs.isEmpty then "-" else
  String.ofList (bs.foldr (fun b acc => hexChar (b.toNat / 16) :: hexChar (b.toNat % 16) :: acc) [])

def parseInt (s : String) : Option Int := s.toInt?
def parseNat (s : String) : Option Nat := s.toNat?

partial def loop (h : IO.FS.Stream) (out : IO.FS.Stream) (judge : List String → String → Verdict) : IO Unit := do
  let line ← h.getLine
  if line.isEmpty then return ()
  let l := (line.dropEndWhile (fun c => c == '\n' || c == '\r')).toString
  match splitLine l with
  | none => out.putStrLn "SKIP\tmalformed-line"
  | some (op, go) => out.putStrLn (judge op go).render
  loop h out judge

/-- Entry point used by every `Drv/*.lean`. -/
def runDriver (judge : List String → String → Verdict) : IO Unit := do
  let stdin ← IO.getStdin
  let stdout ← IO.getStdout
  loop stdin stdout judge
  stdout.flush

end Verif.Proto
