import Verif.Model.Front.Lexer
import Verif.Spec.Tokens
import Verif.Spec.LineCol
/-!
C37 — rune boundaries and positions: `Walk inp a pa b pb` = decoding whole runes (as `utf8.DecodeRune` splits
the input) from offset `a` at position `pa` arrives at offset `b` at position `pb`.
-/
namespace Verif.Proofs.LexerWalk
open Verif.Model.Front Verif.Model.Front.Lexer Verif.Spec.Tokens Verif.Spec.LineCol

inductive Walk (inp : Bytes) : Nat → Pos → Nat → Pos → Prop where
  | refl (a : Nat) (pa : Pos) : Walk inp a pa a pa
  | step {a : Nat} {pa : Pos} {b : Nat} {pb : Pos} : Walk inp a pa b pb → b < inp.size →
      Walk inp a pa (b + (decodeRune inp b).2) (advance pb (decodeRune inp b).1)

theorem decodeRune_width (inp : Bytes) (off : Nat) (h : off < inp.size) :
    1 ≤ (decodeRune inp off).2 ∧ off + (decodeRune inp off).2 ≤ inp.size := by
  unfold decodeRune
  rw [if_pos h]
  simp only []
  generalize hsz : (if byteAt inp off < 0xE0 then 2 else if byteAt inp off < 0xF0 then 3 else 4) = sz
  have hsz' : sz = 2 ∨ sz = 3 ∨ sz = 4 := by
    subst hsz; split
    · simp
    · split <;> simp
  repeat' split
  all_goals first | omega | (simp only []; omega) | (simp only [] at *; omega)

theorem decodeRune_shape (inp : Bytes) (off : Nat) (h : off < inp.size) :
    (decodeRune inp off).2 = 1 ∨ ((decodeRune inp off).2 = 2 ∧ 0x80 ≤ byteAt inp (off + 1)) ∨
    ((decodeRune inp off).2 = 3 ∧ 0x80 ≤ byteAt inp (off + 2)) ∨
    ((decodeRune inp off).2 = 4 ∧ 0x80 ≤ byteAt inp (off + 3)) := by
  unfold decodeRune
  rw [if_pos h]
  simp only []
  by_cases h1 : byteAt inp off < 0x80
  · simp [h1]
  rw [if_neg h1]
  by_cases h2 : byteAt inp off < 0xC2 ∨ 0xF4 < byteAt inp off
  · simp [h2]
  rw [if_neg h2]
  generalize hsz : (if byteAt inp off < 0xE0 then 2 else if byteAt inp off < 0xF0 then 3 else 4) = sz
  have hsz' : sz = 2 ∨ sz = 3 ∨ sz = 4 := by
    subst hsz; split
    · simp
    · split <;> simp
  by_cases h3 : inp.size < off + sz
  · simp [h3]
  rw [if_neg h3]
  generalize hlo : (if byteAt inp off = 0xE0 then 0xA0 else if byteAt inp off = 0xF0 then 0x90 else 0x80) = lo
  have hlo' : 0x80 ≤ lo := by
    subst hlo; split
    · omega
    · split <;> omega
  by_cases h4 : byteAt inp (off + 1) < lo ∨
      (if byteAt inp off = 0xED then 0x9F else if byteAt inp off = 0xF4 then 0x8F else 0xBF) < byteAt inp (off + 1)
  · simp [h4]
  rw [if_neg h4]
  by_cases h5 : sz = 2
  · rw [if_pos h5]; right; left; exact ⟨rfl, by omega⟩
  rw [if_neg h5]
  by_cases h6 : byteAt inp (off + 2) < 0x80 ∨ 0xBF < byteAt inp (off + 2)
  · simp [h6]
  rw [if_neg h6]
  by_cases h7 : sz = 3
  · rw [if_pos h7]; right; right; left; exact ⟨rfl, by omega⟩
  rw [if_neg h7]
  by_cases h8 : byteAt inp (off + 3) < 0x80 ∨ 0xBF < byteAt inp (off + 3)
  · simp [h8]
  rw [if_neg h8]
  right; right; right; exact ⟨rfl, by omega⟩

/-- a rune wider than one byte ends in a continuation byte -/
theorem decodeRune_last_cont (inp : Bytes) (off : Nat) (h : off < inp.size) (hw : 2 ≤ (decodeRune inp off).2) :
    0x80 ≤ byteAt inp (off + (decodeRune inp off).2 - 1) := by
  rcases decodeRune_shape inp off h with h1 | ⟨h1, h2⟩ | ⟨h1, h2⟩ | ⟨h1, h2⟩
  · omega
  all_goals (rw [h1]; exact h2)

/-- an ASCII byte is a rune of its own -/
theorem decodeRune_ascii (inp : Bytes) (off : Nat) (h : off < inp.size) (hb : byteAt inp off < 0x80) :
    decodeRune inp off = (byteAt inp off, 1) := by
  unfold decodeRune
  rw [if_pos h]
  simp only [hb, if_true]

/-! ### the walk -/

theorem walk_le {inp : Bytes} {a b : Nat} {pa pb : Pos} (h : Walk inp a pa b pb) : a ≤ b := by
  induction h with
  | refl => exact Nat.le_refl _
  | step _ _ ih => omega

theorem walk_size {inp : Bytes} {a b : Nat} {pa pb : Pos} (h : Walk inp a pa b pb) (ha : a ≤ inp.size) :
    b ≤ inp.size := by
  induction h with
  | refl => exact ha
  | step _ hb _ => exact (decodeRune_width inp _ hb).2

theorem walk_repos {inp : Bytes} {a b : Nat} {pa pb : Pos} (h : Walk inp a pa b pb) (pa' : Pos) :
    ∃ pb', Walk inp a pa' b pb' := by
  induction h with
  | refl => exact ⟨pa', .refl _ _⟩
  | step _ hb ih => obtain ⟨p, hp⟩ := ih; exact ⟨_, .step hp hb⟩

theorem walk_trans {inp : Bytes} {a b c : Nat} {pa pb pc : Pos} (h1 : Walk inp a pa b pb) (h2 : Walk inp b pb c pc) :
    Walk inp a pa c pc := by
  induction h2 with
  | refl => exact h1
  | step _ hb ih => exact .step ih hb

/-- the last rune of a non-empty walk -/
theorem walk_last {inp : Bytes} {a b : Nat} {pa pb : Pos} (h : Walk inp a pa b pb) (hlt : a < b) :
    ∃ q pq, Walk inp a pa q pq ∧ q < inp.size ∧ b = q + (decodeRune inp q).2 ∧ pb = advance pq (decodeRune inp q).1 := by
  cases h with
  | refl => omega
  | step h' hb => exact ⟨_, _, h', hb, rfl, rfl⟩

/-- a non-empty walk that ends in an ASCII byte ends with a one-byte rune -/
theorem walk_last_ascii {inp : Bytes} {a b : Nat} {pa pb : Pos} (h : Walk inp a pa b pb) (hlt : a < b)
    (hb : byteAt inp (b - 1) < 0x80) :
    ∃ pq, Walk inp a pa (b - 1) pq ∧ b - 1 < inp.size ∧ pb = advance pq (byteAt inp (b - 1)) := by
  obtain ⟨q, pq, hw, hq, hbq, hpb⟩ := walk_last h hlt
  have hw1 := decodeRune_width inp q hq
  by_cases h2 : 2 ≤ (decodeRune inp q).2
  · have := decodeRune_last_cont inp q hq h2
    rw [← hbq] at this
    omega
  · have hq' : q = b - 1 := by omega
    subst hq'
    refine ⟨pq, hw, hq, ?_⟩
    rw [hpb, decodeRune_ascii inp _ hq hb]

/-! ### `lineCol` -/

theorem lineColFrom_fuel (inp : Bytes) (target : Nat) : ∀ (f1 f2 off line col : Nat),
    inp.size - off ≤ f1 → inp.size - off ≤ f2 →
    lineColFrom inp target f1 off line col = lineColFrom inp target f2 off line col := by
  intro f1
  induction f1 with
  | zero =>
    intro f2 off line col h1 _
    cases f2 with
    | zero => rfl
    | succ f2 =>
      have : ¬ off < inp.size := by omega
      simp [lineColFrom, this]
  | succ f1 ih =>
    intro f2 off line col h1 h2
    cases f2 with
    | zero =>
      have : ¬ off < inp.size := by omega
      simp [lineColFrom, this]
    | succ f2 =>
      simp only [lineColFrom]
      split
      · rename_i hlt
        have hw := fallbackWidth_pos (decodeRune inp off).2
        split
        · rfl
        · split
          · exact ih _ _ _ _ (by omega) (by omega)
          · exact ih _ _ _ _ (by omega) (by omega)
      · rfl

theorem walk_reach {inp : Bytes} {a b : Nat} {pa pb : Pos} (h : Walk inp a pa b pb) :
    ∀ target, b ≤ target →
      lineColFrom inp target (inp.size - a) a pa.line pa.column =
      lineColFrom inp target (inp.size - b) b pb.line pb.column := by
  induction h with
  | refl => intro _ _; rfl
  | @step b pb hw hb ih =>
    intro target ht
    have hwid := decodeRune_width inp b hb
    rw [ih target (by omega)]
    obtain ⟨k, hk⟩ : ∃ k, inp.size - b = k + 1 := ⟨inp.size - b - 1, by omega⟩
    rw [hk]
    simp only [lineColFrom, hb, if_true]
    have hfw : fallbackWidth (decodeRune inp b).2 = (decodeRune inp b).2 := by
      unfold fallbackWidth; split <;> omega
    rw [hfw]
    have hnlt : ¬ target < b + (decodeRune inp b).2 := by omega
    simp only [hnlt, if_false]
    unfold advance
    split
    · exact lineColFrom_fuel inp target _ _ _ _ _ (by omega) (by omega)
    · exact lineColFrom_fuel inp target _ _ _ _ _ (by omega) (by omega)

/-- the position of a rune boundary -/
theorem walk_lineCol {inp : Bytes} {b : Nat} {pb : Pos} (h : Walk inp 0 ⟨1, 0⟩ b pb) :
    lineCol inp b = (pb.line, pb.column) := by
  have hb := walk_size h (Nat.zero_le _)
  have := walk_reach h b (Nat.le_refl _)
  unfold lineCol
  simp only [Nat.sub_zero] at this
  rw [this]
  by_cases hlt : b < inp.size
  · obtain ⟨k, hk⟩ : ∃ k, inp.size - b = k + 1 := ⟨inp.size - b - 1, by omega⟩
    rw [hk]
    have hw := fallbackWidth_pos (decodeRune inp b).2
    simp only [lineColFrom, hlt, if_true]
    have : b < b + fallbackWidth (decodeRune inp b).2 := by omega
    simp [this]
  · have : inp.size - b = 0 := by omega
    rw [this]
    simp [lineColFrom]

theorem walk_posOf {inp : Bytes} {b : Nat} {pb : Pos} (h : Walk inp 0 ⟨1, 0⟩ b pb) (o : Int) (ho : o = (b : Int)) :
    posOf inp o = pb := by
  subst ho
  unfold posOf
  simp only [Int.toNat_natCast, walk_lineCol h]

/-! ### `endPos` -/

theorem endPosWalk_fuel (inp : Bytes) (e : Nat) : ∀ (f1 f2 off : Nat) (p : Pos), e - off ≤ f1 → e - off ≤ f2 →
    endPosWalk f1 inp e off p = endPosWalk f2 inp e off p := by
  intro f1
  induction f1 with
  | zero =>
    intro f2 off p h1 _
    cases f2 with
    | zero => rfl
    | succ f2 =>
      have : ¬ off + 1 < e := by omega
      simp [endPosWalk, this]
  | succ f1 ih =>
    intro f2 off p h1 h2
    cases f2 with
    | zero =>
      have : ¬ off + 1 < e := by omega
      simp [endPosWalk, this]
    | succ f2 =>
      simp only [endPosWalk]
      split
      · split
        · rfl
        · have hw := fallbackWidth_pos (decodeRune inp off).2
          exact ih _ _ _ (by omega) (by omega)
      · rfl

/-- the loop of `endPos()` follows the walk as long as it stays below `e − 1` -/
theorem endPosWalk_walk {inp : Bytes} {s q : Nat} {ps pq : Pos} (h : Walk inp s ps q pq) :
    ∀ (e F : Nat), q + 1 ≤ e → e - s ≤ F → endPosWalk F inp e s ps = endPosWalk (e - q) inp e q pq := by
  induction h with
  | refl => intro e F _ hF; exact endPosWalk_fuel inp e _ _ _ _ hF (Nat.le_refl _)
  | @step b pb hw hb ih =>
    intro e F he hF
    have hwid := decodeRune_width inp b hb
    rw [ih e F (by omega) hF]
    obtain ⟨k, hk⟩ : ∃ k, e - b = k + 1 := ⟨e - b - 1, by omega⟩
    rw [hk]
    simp only [endPosWalk]
    have h1 : b + 1 < e := by omega
    have h2 : ¬ inp.size < b := by omega
    simp only [h1, if_true, h2, if_false]
    have hfw : fallbackWidth (decodeRune inp b).2 = (decodeRune inp b).2 := by
      unfold fallbackWidth; split <;> omega
    rw [hfw]
    exact endPosWalk_fuel inp e _ _ _ _ (by omega) (Nat.le_refl _)

/-- `endPos()` of a word that ends with a one-byte rune at `e − 1` is the position of that rune -/
theorem endPosWalk_exact {inp : Bytes} {s e : Nat} {ps pq : Pos} (h : Walk inp s ps (e - 1) pq) (he : 1 ≤ e) :
    endPosWalk (e - s) inp e s ps = some pq := by
  rw [endPosWalk_walk h e (e - s) (by omega) (Nat.le_refl _)]
  have : e - (e - 1) = 1 := by omega
  rw [this]
  simp only [endPosWalk]
  have : ¬ (e - 1 + 1 < e) := by omega
  simp [this]

end Verif.Proofs.LexerWalk
