/-
Lemmas and tactics for C15 / C13 on the 64-bit fixed-point types: the regenerated definitions of
`Verif.Gen.NumFix` against `Verif.Spec.FixArith`.
-/
import Verif.Gen.NumFix
import Verif.Spec.FixArith
import Verif.Proofs.ArithMul
import Verif.Proofs.ArithSat
namespace Verif.Proofs.FixArith
open Verif.Model.Num Verif.Spec.Arith Verif.Spec.FixArith Verif.Proofs.Arith

/-- `x.Int64()` of a big integer that fits -/
theorem int64_of (x : Int) (h0 : -9223372036854775808 ≤ x) (h1 : x ≤ 9223372036854775807) : Go.int64 x = x := by
  unfold Go.int64
  have h2 : (x.natAbs % 2 ^ 64 : Nat) = x.natAbs := Nat.mod_eq_of_lt (by omega)
  rw [h2]
  simp only [wrapS, Int.reducePow, Nat.reduceSub]
  split <;> omega

/-- `x.Uint64()` of a big integer that fits -/
theorem uint64_of (x : Int) (h0 : 0 ≤ x) (h1 : x ≤ 18446744073709551615) : Go.uint64 x = x := by
  unfold Go.uint64
  have h2 : (x.natAbs % 2 ^ 64 : Nat) = x.natAbs := Nat.mod_eq_of_lt (by omega)
  rw [h2]; omega

theorem isUint64_iff (x : Int) : Go.isUint64 x ↔ (0 ≤ x ∧ x ≤ 18446744073709551615) := by
  unfold Go.isUint64; simp only [Int.reducePow]; omega

macro "fix_unfold" : tactic => `(tactic|
  (simp only [specFix, specFixSat, FTy.raw, FTy.scale, exactRaw, clamp, Ty.hi, Ty.lo,
      Verif.Gen.NumConsts.sema_Fix64FactorBig] at *; num_unfold))

/-- + − and the saturating + − : as for Int64 / UInt64 -/
macro "fix_arith" : tactic => `(tactic| (fix_unfold <;> num_finish))

/-! ### `roundDiv` (multiplyDivide) -/

/-- the facts every statement about `roundDiv` needs: `n = d·q + rem`, `|rem| < |d|`, `rem` has the sign of
    `n`, and the result is `q` or (only when `rem ≠ 0`) its neighbour away from zero -/
theorem roundDiv_cases (r : Rounding) (n d : Int) (hd : d ≠ 0) :
    let q := Int.tdiv n d; let rem := Int.tmod n d
    q * d + rem = n ∧ rem.natAbs < d.natAbs ∧ (0 ≤ n → 0 ≤ rem) ∧ (n ≤ 0 → rem ≤ 0) ∧
    (roundDiv r n d = q ∨
      (rem ≠ 0 ∧ ((0 < n ∧ 0 < d) ∨ (n < 0 ∧ d < 0)) ∧ roundDiv r n d = q + 1) ∨
      (rem ≠ 0 ∧ ((0 < n ∧ d < 0) ∨ (n < 0 ∧ 0 < d)) ∧ roundDiv r n d = q - 1)) := by
  intro q rem
  have e : q * d + rem = n := by
    have := Int.mul_tdiv_add_tmod n d; rw [Int.mul_comm] at this; exact this
  have hl : rem.natAbs < d.natAbs := by
    have h1 : rem.natAbs = n.natAbs % d.natAbs := Int.natAbs_tmod n d
    have h2 : n.natAbs % d.natAbs < d.natAbs := Nat.mod_lt _ (by omega)
    omega
  have f := tmod_facts n d
  refine ⟨e, hl, fun h => (f.1 h).1, fun h => (f.2 h).2, ?_⟩
  by_cases hr : rem = 0
  · left; simp only [roundDiv]; rw [if_pos hr]
  · have hn : n ≠ 0 := by
      intro h0; apply hr; show Int.tmod n d = 0; rw [h0]; exact Int.zero_tmod d
    have away : Int.tdiv n d + Int.sign n * Int.sign d = q + 1 ∧ ((0 < n ∧ 0 < d) ∨ (n < 0 ∧ d < 0)) ∨
                Int.tdiv n d + Int.sign n * Int.sign d = q - 1 ∧ ((0 < n ∧ d < 0) ∨ (n < 0 ∧ 0 < d)) := by
      rcases Int.lt_or_gt_of_ne hn with h1 | h1 <;> rcases Int.lt_or_gt_of_ne hd with h2 | h2
      · left; rw [Int.sign_eq_neg_one_of_neg h1, Int.sign_eq_neg_one_of_neg h2]; exact ⟨by show q + _ = _; omega, Or.inr ⟨h1, h2⟩⟩
      · right; rw [Int.sign_eq_neg_one_of_neg h1, Int.sign_eq_one_of_pos h2]; exact ⟨by show q + _ = _; omega, Or.inr ⟨h1, h2⟩⟩
      · right; rw [Int.sign_eq_one_of_pos h1, Int.sign_eq_neg_one_of_neg h2]; exact ⟨by show q + _ = _; omega, Or.inl ⟨h1, h2⟩⟩
      · left; rw [Int.sign_eq_one_of_pos h1, Int.sign_eq_one_of_pos h2]; exact ⟨by show q + _ = _; omega, Or.inl ⟨h1, h2⟩⟩
    have hq : roundDiv r n d = q ∨ roundDiv r n d = Int.tdiv n d + Int.sign n * Int.sign d := by
      simp only [roundDiv]; rw [if_neg hr]
      cases r <;> simp only <;> (repeat' split) <;> first | exact Or.inl rfl | exact Or.inr rfl | exact Or.inr trivial
    rcases hq with hq | hq
    · exact Or.inl hq
    · rcases away with ⟨a1, a2⟩ | ⟨a1, a2⟩
      · exact Or.inr (Or.inl ⟨hr, a2, by rw [hq, a1]⟩)
      · exact Or.inr (Or.inr ⟨hr, a2, by rw [hq, a1]⟩)

/-- the neighbour away from zero, multiplied back -/
theorem away_mul (n d : Int) (hd : d ≠ 0) (hr : Int.tmod n d ≠ 0) :
    (0 < n ∧ (Int.tdiv n d + Int.sign n * Int.sign d) * d = Int.tdiv n d * d + d.natAbs ∧
      (Int.sign n * Int.sign d = 1 ∨ Int.sign n * Int.sign d = -1)) ∨
    (n < 0 ∧ (Int.tdiv n d + Int.sign n * Int.sign d) * d = Int.tdiv n d * d - d.natAbs ∧
      (Int.sign n * Int.sign d = 1 ∨ Int.sign n * Int.sign d = -1)) := by
  have hn : n ≠ 0 := by intro h0; apply hr; rw [h0]; exact Int.zero_tmod d
  rcases Int.lt_or_gt_of_ne hn with h1 | h1 <;> rcases Int.lt_or_gt_of_ne hd with h2 | h2
  · right; rw [Int.sign_eq_neg_one_of_neg h1, Int.sign_eq_neg_one_of_neg h2, Int.add_mul]; exact ⟨h1, by omega, by omega⟩
  · right; rw [Int.sign_eq_neg_one_of_neg h1, Int.sign_eq_one_of_pos h2, Int.add_mul]; exact ⟨h1, by omega, by omega⟩
  · left; rw [Int.sign_eq_one_of_pos h1, Int.sign_eq_neg_one_of_neg h2, Int.add_mul]; exact ⟨h1, by omega, by omega⟩
  · left; rw [Int.sign_eq_one_of_pos h1, Int.sign_eq_one_of_pos h2, Int.add_mul]; exact ⟨h1, by omega, by omega⟩

end Verif.Proofs.FixArith
