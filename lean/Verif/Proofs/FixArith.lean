/-
Lemmas and tactics for C15 / C13 on the 64-bit fixed-point types: the regenerated definitions of
`Verif.Gen.NumFix` against `Verif.Spec.FixArith`.
-/
import Verif.Gen.NumFix
import Verif.Spec.FixArith
import Verif.Proofs.ArithMul
import Verif.Proofs.ArithSat
namespace Verif.Proofs.FixArith
open Verif.Model.Num Verif.Spec.Arith Verif.Spec.FixArith Verif.Proofs.Arith

/-- `x.Int64()` of a big integer that fits -/
theorem int64_of (x : Int) (h0 : -9223372036854775808 ≤ x) (h1 : x ≤ 9223372036854775807) : Go.int64 x = x := by
  unfold Go.int64
  have h2 : (x.natAbs % 2 ^ 64 : Nat) = x.natAbs := Nat.mod_eq_of_lt (by omega)
  rw [h2]
  simp only [wrapS, Int.reducePow, Nat.reduceSub]
  split <;> omega

/-- `x.Uint64()` of a big integer that fits -/
theorem uint64_of (x : Int) (h0 : 0 ≤ x) (h1 : x ≤ 18446744073709551615) : Go.uint64 x = x := by
  unfold Go.uint64
  have h2 : (x.natAbs % 2 ^ 64 : Nat) = x.natAbs := Nat.mod_eq_of_lt (by omega)
  rw [h2]; omega

theorem isUint64_iff (x : Int) : Go.isUint64 x ↔ (0 ≤ x ∧ x ≤ 18446744073709551615) := by
  unfold Go.isUint64; simp only [Int.reducePow]; omega

macro "fix_unfold" : tactic => `(tactic|
  (simp only [specFix, specFixSat, FTy.raw, FTy.scale, exactRaw, clamp, Ty.hi, Ty.lo,
      Verif.Gen.NumConsts.sema_Fix64FactorBig] at *; num_unfold))

/-- + − and the saturating + − : as for Int64 / UInt64 -/
macro "fix_arith" : tactic => `(tactic| (fix_unfold <;> num_finish))

end Verif.Proofs.FixArith
