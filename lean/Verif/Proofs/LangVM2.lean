import Verif.Proofs.LangVMErr
/-
Forward simulation (C34), third stage: statements of layer L0.  A big-step presentation `Exec` of the
machine (with log trace, calls and the ways an activation can end), its adequacy for `runFrames`,
the positional scope/environment relation `Rel`, resolution of the loop placeholders.
-/
namespace Verif.Model.Lang.VM
open Verif.Model.Lang

/-! ### big-step presentation of the machine -/

/-- how a run of one activation ends -/
inductive End where
  | at (f : Frame)                 -- still inside the activation, at frame `f`
  | ret (v : Value)                -- the activation returned `v`
  | userErr (k : ErrKind)
  | internalErr (k : ErrKind)

/-- `Exec tbl f tr e`: started at frame `f`, the machine emits the log lines `tr` and the activation
ends as `e`; calls made on the way run to completion in activations of their own -/
inductive Exec (tbl : Table) : Frame → List String → End → Prop where
  | refl (f : Frame) : Exec tbl f [] (.at f)
  | next {f f' out tr e} : VM.step tbl f = .next f' out → Exec tbl f' tr e → Exec tbl f (out ++ tr) e
  | ret {f v} : VM.step tbl f = .return_ v → Exec tbl f [] (.ret v)
  | userErr {f k} : VM.step tbl f = .userErr k → Exec tbl f [] (.userErr k)
  | internalErr {f k} : VM.step tbl f = .internalErr k → Exec tbl f [] (.internalErr k)
  | call {f caller cf args l0 tr1 v tr2 e} : VM.step tbl f = .call caller cf args →
      bindSlots cf.paramTys args 0 = some l0 → Exec tbl ⟨cf.code, 0, [], l0⟩ tr1 (.ret v) →
      Exec tbl { caller with stk := v :: caller.stk } tr2 e → Exec tbl f (tr1 ++ tr2) e
  | callUserErr {f caller cf args l0 tr1 k} : VM.step tbl f = .call caller cf args →
      bindSlots cf.paramTys args 0 = some l0 → Exec tbl ⟨cf.code, 0, [], l0⟩ tr1 (.userErr k) →
      Exec tbl f tr1 (.userErr k)
  | callInternalErr {f caller cf args l0 tr1 k} : VM.step tbl f = .call caller cf args →
      bindSlots cf.paramTys args 0 = some l0 → Exec tbl ⟨cf.code, 0, [], l0⟩ tr1 (.internalErr k) →
      Exec tbl f tr1 (.internalErr k)
  | bindErr {f caller cf args} : VM.step tbl f = .call caller cf args →
      bindSlots cf.paramTys args 0 = none → Exec tbl f [] (.internalErr .typeMismatch)

theorem Exec.trans' {tbl f tr1 e1} (h1 : Exec tbl f tr1 e1) :
    ∀ f', e1 = .at f' → ∀ tr2 e, Exec tbl f' tr2 e → Exec tbl f (tr1 ++ tr2) e := by
  induction h1 with
  | refl f => intro f' he tr2 e h2; cases he; simpa using h2
  | next hs _ ih => intro f' he tr2 e h2; rw [List.append_assoc]; exact .next hs (ih f' he tr2 e h2)
  | ret _ => intro f' he; cases he
  | userErr _ => intro f' he; cases he
  | internalErr _ => intro f' he; cases he
  | call hs hb hc _ _ ih2 => intro f' he tr2 e h2; rw [List.append_assoc]; exact .call hs hb hc (ih2 f' he tr2 e h2)
  | callUserErr _ _ _ _ => intro f' he; cases he
  | callInternalErr _ _ _ _ => intro f' he; cases he
  | bindErr _ _ => intro f' he; cases he

theorem Exec.trans {tbl f tr1 f' tr2 e} (h1 : Exec tbl f tr1 (.at f')) (h2 : Exec tbl f' tr2 e) :
    Exec tbl f (tr1 ++ tr2) e := Exec.trans' h1 f' rfl tr2 e h2

theorem Exec.one {tbl f f' out} (h : VM.step tbl f = .next f' out) : Exec tbl f out (.at f') := by
  simpa using Exec.next h (.refl f')

theorem Exec.of_reach {tbl code locals a b} (h : Reach tbl code locals a b) :
    Exec tbl ⟨code, a.1, a.2, locals⟩ [] (.at ⟨code, b.1, b.2, locals⟩) := by
  induction h with
  | refl c => exact .refl _
  | cons hs _ ih => simpa using Exec.next hs ih

/-- what `runFrames` does, with `k` steps of fuel left, once the top activation has ended as `e` -/
def finish (tbl : Table) (k : Nat) (e : End) (callers : List Frame) (tr : List String) : Res Value :=
  match e with
  | .at f' => runFrames tbl k f' callers tr
  | .ret v =>
    (match callers with
     | [] => ⟨.ok v, ⟨[]⟩, tr⟩
     | c :: cs => runFrames tbl k { c with stk := v :: c.stk } cs tr)
  | .userErr k' => ⟨.userErr k', ⟨[]⟩, tr⟩
  | .internalErr k' => ⟨.internalErr k', ⟨[]⟩, tr⟩

/-- **adequacy** of the big-step presentation: whatever `Exec` derives, the step-counting machine
`runFrames` computes, given enough fuel -/
theorem Exec.run {tbl f tr e} (h : Exec tbl f tr e) : ∀ (callers : List Frame) (tr0 : List String) (k : Nat),
    ∃ n, runFrames tbl (n + k) f callers tr0 = finish tbl k e callers (tr0 ++ tr) := by
  induction h with
  | refl f => intro callers tr0 k; exact ⟨0, by simp [finish]⟩
  | next hs _ ih =>
    intro callers tr0 k
    obtain ⟨n, hn⟩ := ih callers (tr0 ++ _) k
    refine ⟨n + 1, ?_⟩
    rw [show n + 1 + k = (n + k) + 1 by omega, runFrames, hs]
    simpa [List.append_assoc] using hn
  | ret hs =>
    intro callers tr0 k
    refine ⟨1, ?_⟩
    rw [show 1 + k = k + 1 by omega, runFrames, hs]
    cases callers <;> simp [finish]
  | userErr hs =>
    intro callers tr0 k
    exact ⟨1, by rw [show 1 + k = k + 1 by omega, runFrames, hs]; simp [finish]⟩
  | internalErr hs =>
    intro callers tr0 k
    exact ⟨1, by rw [show 1 + k = k + 1 by omega, runFrames, hs]; simp [finish]⟩
  | @call f caller cf args l0 tr1 v tr2 e hs hb _ _ ih1 ih2 =>
    intro callers tr0 k
    obtain ⟨n2, hn2⟩ := ih2 callers (tr0 ++ tr1) k
    obtain ⟨n1, hn1⟩ := ih1 (caller :: callers) tr0 (n2 + k)
    refine ⟨n1 + n2 + 1, ?_⟩
    rw [show n1 + n2 + 1 + k = (n1 + (n2 + k)) + 1 by omega, runFrames, hs]
    simp only [hb, hn1, finish]
    simpa [List.append_assoc, finish] using hn2
  | @callUserErr f caller cf args l0 tr1 k' hs hb _ ih1 =>
    intro callers tr0 k
    obtain ⟨n1, hn1⟩ := ih1 (caller :: callers) tr0 k
    refine ⟨n1 + 1, ?_⟩
    rw [show n1 + 1 + k = (n1 + k) + 1 by omega, runFrames, hs]
    simp only [hb, hn1, finish]
  | @callInternalErr f caller cf args l0 tr1 k' hs hb _ ih1 =>
    intro callers tr0 k
    obtain ⟨n1, hn1⟩ := ih1 (caller :: callers) tr0 k
    refine ⟨n1 + 1, ?_⟩
    rw [show n1 + 1 + k = (n1 + k) + 1 by omega, runFrames, hs]
    simp only [hb, hn1, finish]
  | bindErr hs hb =>
    intro callers tr0 k
    exact ⟨1, by rw [show 1 + k = k + 1 by omega, runFrames, hs]; simp [hb, finish]⟩

end Verif.Model.Lang.VM
