/-
C08 helper lemmas: the run-time relation (`interpreter.IsSubType` / `IsSubTypeOfSemaType`, which unwrap
optionals before asking the checker's relation) equals the checker's relation whenever the sub type is
kind-stable (no `Never` directly below an optional …) and does not mention `Any` — i.e. outside the region
of the known finding `runtime-optional-never-anyresource`.
-/
import Verif.Proofs.SubTrans4
import Verif.Proofs.SubAgree2
namespace Verif.Proofs.SubTrans
open Verif.Model.Types Verif.Model.Types.Struct Verif.Model.Auth Verif.Proofs.SubUnfold

theorem ofSema_nonopt (n : Nat) (a b : Ty) (h : ∀ t, a ≠ .opt t) :
    isSubOfSema R n a b = if b == any then true else isSub R n a b := by
  cases a <;> first | rfl | exact absurd rfl (h _)

theorem ofSema_opt (n : Nat) (t b : Ty) :
    isSubOfSema R n (.opt t) b = if b == any then true else
      match b with
      | .opt s => isSubOfSema R n t s
      | .prim x => if x == "AnyStruct" || x == "AnyResource" then isSubOfSema R n t b else false
      | _ => false := by
  cases b <;> simp [isSubOfSema]

theorem sub_opt_opt (t s : Ty) : Struct.sub (.opt t) (.opt s) = Struct.sub t s := by
  rw [sub_def, chk_opt]
  by_cases h : t = s
  · subst h; simp [sub_refl]
  · simp [ty_beq, h, never]

theorem sub_opt_other (t b : Ty) (hb : ∀ s, b ≠ .opt s) (hp : ∀ x, b ≠ .prim x) : Struct.sub (.opt t) b = false := by
  cases h : Struct.sub (.opt t) b
  · rfl
  · rcases sub_cases h with h' | h' | h'
    · exact absurd h'.symm (hb t)
    · cases h'
    · obtain ⟨x, hx⟩ := opt_below t b hb h'
      exact absurd hx (hp x)

/-- `T? <: P` for a simple type `P`, in terms of `T` -/
theorem sub_opt_prim (t : Ty) (x : String) (hx : x ∈ primNames) (hn : t ≠ never) (ha : t ≠ any) :
    Struct.sub (.opt t) (.prim x) =
      (x == "Any" || ((x == "AnyStruct" || x == "AnyResource") && Struct.sub t (.prim x))) := by
  have hne1 : (Ty.opt t == Ty.prim x) = false := by simp [ty_beq]
  have hne2 : (Ty.opt t == never) = false := by simp [ty_beq, never]
  have htn : (t == never) = false := by simpa using hn
  have hta : (t != any) = true := by simpa using ha
  rw [sub_def, chk_prim, hne1, hne2, Bool.false_or, Bool.false_or]
  by_cases hs : x ∈ specials
  · simp only [specials, List.mem_cons, List.not_mem_nil, or_false] at hs
    rcases hs with rfl | rfl | rfl | rfl | rfl | rfl
    · simp [chkPrim]
    · rw [sub_def, chk_prim, htn]
      by_cases h : t = .prim "AnyStruct"
      · subst h; simp [chkPrim, Ty.isResource, any, ty_beq]
      · have e1 : (Ty.opt t != any) = true := by simp [any]
        simp [chkPrim, Ty.isResource, ty_beq, h, hta, e1]
    · rw [sub_def, chk_prim, htn]
      by_cases h : t = .prim "AnyResource"
      · subst h; simp [chkPrim, Ty.isResource]
      · simp [chkPrim, Ty.isResource, ty_beq, h]
    · simp [chkPrim, Ty.isAttachment]
    · simp [chkPrim, Ty.isAttachment]
    · simp [chkPrim, hashable]
  · have hsp : (x == "Any" || x == "AnyStruct" || x == "AnyResource" || x == "AnyResourceAttachment" ||
          x == "AnyStructAttachment" || x == "HashableStruct") = false := by
      simp only [specials, List.mem_cons, List.not_mem_nil, or_false, not_or] at hs
      simp [hs.1, hs.2.1, hs.2.2.1, hs.2.2.2.1, hs.2.2.2.2.1, hs.2.2.2.2.2]
    rw [chkPrim_other (.opt t) (fun _ h => by cases h) x hsp]
    simp only [Bool.or_eq_false_iff] at hsp
    simp [hsp.1.1.1.1.1, hsp.1.1.1.1.2, hsp.1.1.1.2]

/-- `IsSubTypeOfSemaType` in terms of the structured relation -/
theorem ofSema_struct : ∀ (a b : Ty), a.wf = true → b.wf = true → a.noAny = true → stab true a = true →
    ∀ n, fuelFor a b ≤ n → isSubOfSema R n a b = (b == any || Struct.sub a b) := by
  intro a
  induction a with
  | opt t ih =>
    intro b ha hb hna hst n hn
    simp only [Ty.wf, Ty.noAny] at ha hna
    simp only [stab, Bool.and_eq_true, Bool.not_true, Bool.false_or, bne_iff_ne, ne_eq] at hst
    rw [ofSema_opt]
    by_cases hba : b = any
    · subst hba; simp
    · have hba' : (b == any) = false := by simpa using hba
      rw [hba']; simp only [Bool.false_eq_true, if_false, Bool.false_or]
      cases b with
      | opt s =>
        simp only [Ty.wf] at hb
        simp only []
        rw [ih s ha hb hna hst.2 n (by simp only [fuelFor, Ty.size] at hn ⊢; omega), sub_opt_opt]
        by_cases hs : s = any
        · subst hs; simp [sub_any_right]
        · simp [hs]
      | prim x =>
        have hx := prim_wf hb
        simp only []
        rw [sub_opt_prim t x hx hst.1 (noAny_ne_any hna)]
        have hxa : (x == "Any") = false := by
          cases h : x == "Any"
          · rfl
          · exact absurd (by rw [beq_iff_eq.mp h]; rfl) hba
        rw [hxa, Bool.false_or]
        by_cases hxx : (x == "AnyStruct" || x == "AnyResource") = true
        · rw [hxx, ih (.prim x) ha hb hna hst.2 n (by simp only [fuelFor, Ty.size] at hn ⊢; omega), hba']
          simp
        · have : (x == "AnyStruct" || x == "AnyResource") = false := by simpa using hxx
          rw [this]; simp
      | _ => simp only []; rw [sub_opt_other _ _ (fun _ h => by cases h) (fun _ h => by cases h)]
  | _ =>
    intro b ha hb _ _ n hn
    rw [ofSema_nonopt n _ b (fun _ h => by cases h), agree _ _ b (Nat.le_refl _) ha hb n hn]
    by_cases hba : b = any
    · subst hba; simp
    · simp [hba]

/-- `interpreter.IsSubType` = the checker's relation for a kind-stable, `Any`-free sub type -/
theorem runtime_struct (a b : Ty) (ha : a.wf = true) (hb : b.wf = true) (hna : a.noAny = true)
    (hst : stab true a = true) (n : Nat) (hn : fuelFor a b ≤ n) :
    isSubRuntime R n a b = isSub R n a b := by
  rw [isSubRuntime, ofSema_struct a b ha hb hna hst n hn, agree _ a b (Nat.le_refl _) ha hb n hn]
  by_cases hba : b = any
  · subst hba; simp [sub_any_right]
  · by_cases hab : a = b
    · subst hab; simp [sub_refl]
    · have h1 : (b == any) = false := by simpa using hba
      have h2 : (a == b) = false := by simpa using hab
      rw [h1, h2]; rfl

end Verif.Proofs.SubTrans
