import Verif.Proofs.Lang2Env
import Verif.Proofs.Lang2Refs
/-
Ownership counting on the L2 state (C02 `single_owner`).

A *slot* is a place that owns what it holds: a variable of some activation (current environment or a
saved caller environment), a field / element / dictionary entry of a cell, a storage path.  `occ id
vs` counts how often the pointer `id` is owned by the values `vs` (references do not own: `Val.ptrs`).
`Held s fl` is the single-owner invariant of a state `s` *with the values `fl` in flight* (results of
sub-expressions not yet stored): every live resource cell is owned at most once by flight + slots, and
no pointer beyond the heap is owned at all (so that a freshly allocated cell is unowned).
`Own s = Held s []`.

Core Lean only.
-/
namespace Verif.Model.Lang2

/-! ### occurrence counting -/

def occ (id : Nat) (vs : List Val) : Nat := (vs.flatMap Val.ptrs).count id

/-- how often one value owns `id` (0 or 1) -/
def occ1 (id : Nat) (v : Val) : Nat := v.ptrs.count id

@[simp] theorem occ_nil (id : Nat) : occ id [] = 0 := rfl

@[simp] theorem occ_append (id : Nat) (a b : List Val) : occ id (a ++ b) = occ id a + occ id b := by
  simp [occ, List.flatMap_append, List.count_append]

@[simp] theorem occ_cons (id : Nat) (v : Val) (vs : List Val) : occ id (v :: vs) = occ1 id v + occ id vs := by
  simp [occ, occ1, List.count_append]

theorem occ_flatten (id : Nat) (ls : List (List Val)) : occ id ls.flatten = (ls.map (occ id)).sum := by
  induction ls with
  | nil => rfl
  | cons l ls ih => simp [occ_append, ih]

/-- a value owns at most one pointer -/
theorem ptrs_cases (v : Val) : v.ptrs = [] ∨ ∃ id, v.ptrs = [id] := by
  induction v with
  | some w ih => simpa [Val.ptrs] using ih
  | ptr id => exact .inr ⟨id, rfl⟩
  | _ => exact .inl rfl

@[simp] theorem occ_invalid (id : Nat) : occ1 id Val.invalid = 0 := rfl
@[simp] theorem occ_nilv (id : Nat) : occ1 id Val.nil = 0 := rfl
@[simp] theorem occ_void (id : Nat) : occ1 id Val.void = 0 := rfl
@[simp] theorem occ_some (id : Nat) (v : Val) : occ1 id (Val.some v) = occ1 id v := by simp [occ1, Val.ptrs]

theorem box_ptrs : ∀ (ty : Ty) (v : Val), (box ty v).ptrs = v.ptrs := by
  intro ty
  induction ty with
  | opt t ih =>
    intro v
    cases v <;> simp [box, Val.ptrs, ih]
  | _ => intro v; simp [box]

@[simp] theorem occ_box (id : Nat) (ty : Ty) (v : Val) : occ1 id (box ty v) = occ1 id v := by
  simp [occ1, box_ptrs]

/-! ### slots of a state -/

def envSlots (e : List (String × Val)) : List Val := e.map (·.2)

/-- every cell's fields / elements are slots (also a dead cell's: what was put there stays owned by it) -/
def Cell.slots (c : Cell) : List Val := c.obj.vals

def heapSlots (h : Heap) : List Val := (h.map Cell.slots).flatten

def State.slots (s : State) : List Val :=
  envSlots s.env ++ (s.stack.map envSlots).flatten ++ heapSlots s.heap ++ envSlots s.storage

def LiveRes (h : Heap) (id : Nat) : Prop := ∃ c, h[id]? = some c ∧ c.res = true ∧ c.alive = true

/-- single-owner invariant with the values `fl` in flight -/
def Held (s : State) (fl : List Val) : Prop :=
  ∀ id, (LiveRes s.heap id → occ id (fl ++ s.slots) ≤ 1) ∧ (s.heap.length ≤ id → occ id (fl ++ s.slots) = 0)

def Own (s : State) : Prop := Held s []

theorem own_init : Own State.init := by
  intro id; exact ⟨fun _ => by simp [State.init, State.slots, envSlots, heapSlots], fun _ => by
    simp [State.init, State.slots, envSlots, heapSlots]⟩

/-- the step relation most primitives satisfy: the owned pointers of the new configuration are a
sub-multiset of the old one's, the heap keeps its length and no cell becomes a live resource -/
structure Sub (s : State) (fl : List Val) (s' : State) (fl' : List Val) : Prop where
  occ_le : ∀ id, occ id (fl' ++ s'.slots) ≤ occ id (fl ++ s.slots)
  len : s'.heap.length = s.heap.length
  live : ∀ id, LiveRes s'.heap id → LiveRes s.heap id

theorem Held.sub {s s' : State} {fl fl' : List Val} (h : Held s fl) (r : Sub s fl s' fl') : Held s' fl' := by
  intro id
  refine ⟨fun hl => Nat.le_trans (r.occ_le id) ((h id).1 (r.live id hl)), fun hlen => ?_⟩
  have := (h id).2 (by rw [← r.len]; exact hlen)
  have := r.occ_le id
  omega

theorem Sub.refl (s : State) (fl : List Val) : Sub s fl s fl := ⟨fun _ => Nat.le_refl _, rfl, fun _ h => h⟩

theorem Sub.trans {s1 s2 s3 : State} {f1 f2 f3 : List Val} (a : Sub s1 f1 s2 f2) (b : Sub s2 f2 s3 f3) :
    Sub s1 f1 s3 f3 :=
  ⟨fun id => Nat.le_trans (b.occ_le id) (a.occ_le id), by rw [b.len, a.len], fun id h => a.live id (b.live id h)⟩

/-! ### environments -/

theorem occ_envSlots_cons (id : Nat) (x : String) (v : Val) (e : List (String × Val)) :
    occ id (envSlots ((x, v) :: e)) = occ1 id v + occ id (envSlots e) :=
  occ_cons id v (envSlots e)

/-- updating a variable exchanges its old content for the new one -/
theorem occ_update {env env' : Env} {x : String} {v : Val} (h : env.update x v = some env') :
    ∃ old, env.lookup x = some old ∧
      ∀ id, occ id (envSlots env') + occ1 id old = occ id (envSlots env) + occ1 id v := by
  induction env generalizing env' with
  | nil => simp [Env.update] at h
  | cons q rest ih =>
    obtain ⟨y, w⟩ := q
    simp only [Env.update] at h
    split at h
    · next hy =>
      cases h
      refine ⟨w, by simp [Env.lookup, List.find?, hy], fun id => ?_⟩
      rw [occ_envSlots_cons, occ_envSlots_cons]; omega
    · next hy =>
      simp only [Option.map_eq_some_iff] at h
      obtain ⟨e, he, rfl⟩ := h
      obtain ⟨old, hl, ho⟩ := ih he
      have hy' : ((y, w).1 == x) = false := by simpa using hy
      refine ⟨old, by simpa [Env.lookup, List.find?, hy'] using hl, fun id => ?_⟩
      rw [occ_envSlots_cons, occ_envSlots_cons]
      have := ho id; omega

/-- what a variable holds is counted among the slots of its environment -/
theorem occ_lookup_le {env : Env} {x : String} {v : Val} (h : env.lookup x = some v) (id : Nat) :
    occ1 id v ≤ occ id (envSlots env) := by
  induction env with
  | nil => simp [Env.lookup] at h
  | cons q rest ih =>
    obtain ⟨y, w⟩ := q
    rw [occ_envSlots_cons]
    by_cases hy : (y == x) = true
    · have : w = v := by simpa [Env.lookup, List.find?, hy] using h
      subst this; omega
    · have hy' : ((y, w).1 == x) = false := by simpa using hy
      have := ih (by simpa [Env.lookup, List.find?, hy'] using h)
      omega

/-! ### heap -/

theorem occ_heapSlots (id : Nat) (h : Heap) : occ id (heapSlots h) = (h.map fun c => occ id c.slots).sum := by
  simp [heapSlots, occ_flatten, List.map_map, Function.comp_def]

theorem sum_set_nat : ∀ (l : List Nat) (i : Nat) (a b : Nat), l[i]? = some a → (l.set i b).sum + a = l.sum + b
  | [], _, _, _, h => by simp at h
  | x :: l, 0, a, b, h => by simp at h; subst h; simp; omega
  | x :: l, i + 1, a, b, h => by
    simp at h
    have := sum_set_nat l i a b h
    simp; omega

theorem le_sum_of_mem : ∀ (l : List Nat) (a : Nat), a ∈ l → a ≤ l.sum
  | [], _, h => by cases h
  | x :: l, a, h => by
    rcases List.mem_cons.mp h with rfl | h
    · simp
    · have := le_sum_of_mem l a h; simp; omega

/-- replacing a cell exchanges its slot contents -/
theorem occ_heap_set (h : Heap) (i : Nat) (c c' : Cell) (hc : h[i]? = some c) (id : Nat) :
    occ id (heapSlots (h.set i c')) + occ id c.slots = occ id (heapSlots h) + occ id c'.slots := by
  rw [occ_heapSlots, occ_heapSlots, List.map_set]
  exact sum_set_nat _ i _ _ (by simp [hc])

theorem occ_heap_append (h : Heap) (c : Cell) (id : Nat) :
    occ id (heapSlots (h ++ [c])) = occ id (heapSlots h) + occ id c.slots := by
  simp [heapSlots, occ_append]

/-- what a live cell holds is counted among the heap's slots -/
theorem occ_cell_le (h : Heap) (i : Nat) (c : Cell) (hc : h[i]? = some c) (id : Nat) :
    occ id c.slots ≤ occ id (heapSlots h) := by
  rw [occ_heapSlots]
  have hmem : occ id c.slots ∈ h.map fun c => occ id c.slots := List.mem_map.mpr ⟨c, List.mem_of_getElem? hc, rfl⟩
  exact le_sum_of_mem _ _ hmem

theorem heapSlots_bump {h h' : Heap} (r : BumpRel h h') : heapSlots h' = heapSlots h := by
  unfold heapSlots
  congr 1
  apply List.ext_getElem?
  intro i
  simp only [List.getElem?_map]
  cases hi : h[i]? with
  | none =>
    have : h'[i]? = none := by
      rw [List.getElem?_eq_none_iff] at hi ⊢; rw [r.len]; exact hi
    simp [this]
  | some c =>
    obtain ⟨c', hc', ho, _, ha, _, _⟩ := r.same i c hi
    simp [hc', Cell.slots, ho]

theorem liveRes_bump {h h' : Heap} (r : BumpRel h h') (id : Nat) : LiveRes h' id → LiveRes h id := by
  rintro ⟨c', hc', hr, ha⟩
  cases hi : h[id]? with
  | none =>
    have : h'[id]? = none := by
      rw [List.getElem?_eq_none_iff] at hi ⊢; rw [r.len]; exact hi
    rw [this] at hc'; cases hc'
  | some c =>
    obtain ⟨c2, hc2, _, hr2, ha2, _, _⟩ := r.same id c hi
    rw [hc'] at hc2; cases hc2
    exact ⟨c, hi, hr2 ▸ hr, ha2 ▸ ha⟩


/-! ### the monad -/

theorem bind_inv {α β} {m : M α} {f : α → M β} {s : State} {b : β} (h : ((m >>= f) s).out = .ok b) :
    ∃ a, (m s).out = .ok a ∧ (f a (m s).st).out = .ok b ∧ ((m >>= f) s).st = (f a (m s).st).st := by
  simp only [bind, M.bind] at h ⊢
  cases hm : (m s).out with
  | ok a => rw [hm] at h; exact ⟨a, rfl, h, by simp⟩
  | userErr k => rw [hm] at h; cases h
  | internalErr k => rw [hm] at h; cases h
  | outOfFuel => rw [hm] at h; cases h

/-- partial-correctness triple on successful runs -/
def Trip {α} (P : State → Prop) (m : M α) (Q : α → State → Prop) : Prop :=
  ∀ s, P s → ∀ a, (m s).out = .ok a → Q a (m s).st

theorem Trip.bind {α β} {P : State → Prop} {m : M α} {Q : α → State → Prop} {f : α → M β}
    {R : β → State → Prop} (h1 : Trip P m Q) (h2 : ∀ a, Trip (Q a) (f a) R) : Trip P (m >>= f) R := by
  intro s hp b hb
  obtain ⟨a, ha, hfb, hst⟩ := bind_inv hb
  rw [hst]
  exact h2 a _ (h1 s hp a ha) b hfb

theorem Trip.pure {α} {P : State → Prop} (a : α) : Trip P (pure a : M α) (fun b s => b = a ∧ P s) := by
  intro s hp b hb
  simp only [Pure.pure, M.pure] at hb ⊢
  cases hb; exact ⟨rfl, hp⟩

theorem Trip.weaken {α} {P P' : State → Prop} {m : M α} {Q Q' : α → State → Prop}
    (h : Trip P m Q) (hp : ∀ s, P' s → P s) (hq : ∀ a s, Q a s → Q' a s) : Trip P' m Q' :=
  fun s hs a ha => hq a _ (h s (hp s hs) a ha)

/-! ### slots of modified states -/

theorem occ_slots (id : Nat) (s : State) :
    occ id s.slots = occ id (envSlots s.env) + occ id (s.stack.map envSlots).flatten + occ id (heapSlots s.heap)
      + occ id (envSlots s.storage) := by
  simp only [State.slots, occ_append]

theorem isResVal_false_not_live {h : Heap} : ∀ {v : Val}, isResVal h v = false → ∀ id ∈ v.ptrs, ¬ LiveRes h id
  | .some w, hv, id, hid => isResVal_false_not_live (v := w) (by simpa [isResVal] using hv) id (by simpa [Val.ptrs] using hid)
  | .ptr j, hv, id, hid => by
    simp only [Val.ptrs, List.mem_singleton] at hid; subst hid
    rintro ⟨c, hc, hr, _⟩
    simp [isResVal, hc, hr] at hv
  | .int _ _, _, _, hid | .bool _, _, _, hid | .str _, _, _, hid | .void, _, _, hid | .nil, _, _, hid
  | .ref _ _, _, _, hid | .sref _ _, _, _, hid | .invalid, _, _, hid | .account, _, _, hid => by simp [Val.ptrs] at hid

theorem occ_pos_mem {id : Nat} {v : Val} (h : 0 < occ1 id v) : id ∈ v.ptrs := by
  simpa [occ1, List.count_pos_iff] using h

/-- a value that is not a resource may be duplicated: it owns no live resource cell -/
theorem Held.dup_nonres {s : State} {fl : List Val} {v : Val} (h : Held s fl)
    (hv : isResVal s.heap v = false) (hin : ∀ id, occ1 id v ≤ occ id (fl ++ s.slots)) : Held s (v :: fl) := by
  intro id
  have hc : occ id ((v :: fl) ++ s.slots) = occ1 id v + occ id (fl ++ s.slots) := by
    rw [List.cons_append, occ_cons]
  rw [hc]
  refine ⟨fun hl => ?_, fun hlen => ?_⟩
  · have : occ1 id v = 0 := by
      rcases Nat.eq_zero_or_pos (occ1 id v) with h0 | hpos
      · exact h0
      · exact absurd hl (isResVal_false_not_live hv id (occ_pos_mem hpos))
    have := (h id).1 hl; omega
  · have := (h id).2 hlen; have := hin id; omega

/-- dropping a value in flight -/
theorem Sub.drop (s : State) (v : Val) (fl : List Val) : Sub s (v :: fl) s fl :=
  ⟨fun id => by rw [List.cons_append, occ_cons]; omega, rfl, fun _ h => h⟩


/-! ### primitive steps -/

theorem Sub.of_env {s : State} {fl fl' : List Val} {env' : Env}
    (h : ∀ id, occ id fl' + occ id (envSlots env') ≤ occ id fl + occ id (envSlots s.env)) :
    Sub s fl { s with env := env' } fl' :=
  ⟨fun id => by have := h id; rw [occ_append, occ_append, occ_slots, occ_slots]; simp only; omega, rfl, fun _ h => h⟩

theorem Sub.of_storage {s : State} {fl fl' : List Val} {st' : List (String × Val)}
    (h : ∀ id, occ id fl' + occ id (envSlots st') ≤ occ id fl + occ id (envSlots s.storage)) :
    Sub s fl { s with storage := st' } fl' :=
  ⟨fun id => by have := h id; rw [occ_append, occ_append, occ_slots, occ_slots]; simp only; omega, rfl, fun _ h => h⟩

theorem Sub.of_heap {s : State} {fl fl' : List Val} {h' : Heap}
    (h : ∀ id, occ id fl' + occ id (heapSlots h') ≤ occ id fl + occ id (heapSlots s.heap))
    (hlen : h'.length = s.heap.length) (hlive : ∀ id, LiveRes h' id → LiveRes s.heap id) :
    Sub s fl { s with heap := h' } fl' :=
  ⟨fun id => by have := h id; rw [occ_append, occ_append, occ_slots, occ_slots]; simp only; omega, hlen, hlive⟩

/-- `declVar` -/
theorem sub_declVar (s : State) (x : String) (v : Val) (fl : List Val) :
    Sub s (v :: fl) { s with env := (x, v) :: s.env } fl :=
  Sub.of_env fun id => by rw [occ_envSlots_cons, occ_cons]; omega

/-- writing a variable: the value in flight goes into the slot, the old content is dropped -/
theorem sub_setVar {s : State} {x : String} {v : Val} {env' : Env} (fl : List Val)
    (h : s.env.update x v = some env') : Sub s (v :: fl) { s with env := env' } fl := by
  obtain ⟨old, _, ho⟩ := occ_update h
  exact Sub.of_env fun id => by have := ho id; rw [occ_cons]; omega

/-- vacating a variable: its content goes in flight -/
theorem sub_vacateVar {s : State} {x : String} {v : Val} {env' : Env} (fl : List Val)
    (hl : s.env.lookup x = some v) (h : s.env.update x .invalid = some env') :
    Sub s fl { s with env := env' } (v :: fl) := by
  obtain ⟨old, hl', ho⟩ := occ_update h
  rw [hl] at hl'; cases hl'
  exact Sub.of_env fun id => by have := ho id; rw [occ_invalid] at this; rw [occ_cons]; omega

/-- a heap that differs by generations only -/
theorem sub_bump {s : State} {h' : Heap} (fl : List Val) (r : BumpRel s.heap h') :
    Sub s fl { s with heap := h' } fl :=
  Sub.of_heap (fun id => by rw [heapSlots_bump r]; omega) r.len (liveRes_bump r)

theorem liveRes_set_obj {h : Heap} {i : Nat} {c : Cell} (hc : h[i]? = some c) (o : Obj) (id : Nat) :
    LiveRes (h.set i { c with obj := o }) id → LiveRes h id := by
  rintro ⟨c', hc', hr, ha⟩
  by_cases e : i = id
  · subst e
    have hlt := (List.getElem?_eq_some_iff.mp hc).1
    rw [List.getElem?_set_self hlt] at hc'; cases hc'
    exact ⟨c, hc, hr, ha⟩
  · rw [List.getElem?_set_ne e] at hc'; exact ⟨c', hc', hr, ha⟩

/-- `setObj`: the cell's new contents come from its old contents and the flight -/
theorem sub_setObj {s : State} {i : Nat} {c : Cell} (hc : s.heap[i]? = some c) (o : Obj) (fl fl' : List Val)
    (h : ∀ id, occ id fl' + occ id o.vals ≤ occ id fl + occ id c.obj.vals) :
    Sub s fl { s with heap := s.heap.set i { c with obj := o } } fl' :=
  Sub.of_heap (fun id => by
      have := occ_heap_set s.heap i c { c with obj := o } hc id
      have := h id
      simp only [Cell.slots] at *; omega) (by simp) (liveRes_set_obj hc o)

theorem setObj_eq {s : State} {i : Nat} {c : Cell} (hc : s.heap[i]? = some c) (o : Obj) :
    setObj i o s = ⟨.ok (), { s with heap := s.heap.set i { c with obj := o } }, []⟩ := by
  simp [setObj, M.modify, hc]

/-- marking a cell dead -/
theorem sub_kill {s : State} {i : Nat} {c : Cell} (hc : s.heap[i]? = some c) (fl : List Val) :
    Sub s fl { s with heap := s.heap.set i { c with alive := false, gen := c.gen + 1 } } fl :=
  Sub.of_heap (fun id => by
      have := occ_heap_set s.heap i c { c with alive := false, gen := c.gen + 1 } hc id
      simp only [Cell.slots] at *; omega) (by simp) (by
    rintro id ⟨c', hc', hr, ha⟩
    by_cases e : i = id
    · subst e
      have hlt := (List.getElem?_eq_some_iff.mp hc).1
      rw [List.getElem?_set_self hlt] at hc'; cases hc'; cases ha
    · rw [List.getElem?_set_ne e] at hc'; exact ⟨c', hc', hr, ha⟩)

/-! ### list lemmas for fields, elements, entries, storage -/

theorem occ_fieldSet_le (id : Nat) (fs : List (String × Val)) (f : String) (v : Val) :
    occ id ((fieldSet fs f v).map (·.2)) ≤ occ id (fs.map (·.2)) + occ1 id v := by
  induction fs with
  | nil => simp [fieldSet]
  | cons q rest ih =>
    obtain ⟨g, w⟩ := q
    simp only [fieldSet]
    split
    · simp only [List.map_cons, occ_cons]; omega
    · simp only [List.map_cons, occ_cons]; omega

/-- replacing the content of field `f` by `.invalid` releases what the field held -/
theorem occ_fieldSet_invalid (id : Nat) (fs : List (String × Val)) (f : String) (old : Val)
    (h : fieldGet? fs f = some old) :
    occ id ((fieldSet fs f .invalid).map (·.2)) + occ1 id old ≤ occ id (fs.map (·.2)) := by
  induction fs with
  | nil => simp [fieldGet?] at h
  | cons q rest ih =>
    obtain ⟨y, w⟩ := q
    simp only [fieldSet]
    by_cases hy : (y == f) = true
    · have : w = old := by simpa [fieldGet?, List.find?, hy] using h
      subst this
      simp only [hy, if_true, List.map_cons, occ_cons, occ_invalid]; omega
    · have hy' : ((y, w).1 == f) = false := by simpa using hy
      have h' : fieldGet? rest f = some old := by simpa [fieldGet?, List.find?, hy'] using h
      have := ih h'
      simp only [hy, Bool.false_eq_true, if_false, List.map_cons, occ_cons]
      omega

theorem occ_set_le (id : Nat) (es : List Val) (i : Nat) (v : Val) :
    occ id (es.set i v) ≤ occ id es + occ1 id v := by
  induction es generalizing i with
  | nil => simp
  | cons e rest ih =>
    cases i with
    | zero => simp only [List.set_cons_zero, occ_cons]; omega
    | succ i => simp only [List.set_cons_succ, occ_cons]; have := ih i; omega

theorem occ_set_invalid (id : Nat) (es : List Val) (i : Nat) (old : Val) (h : es[i]? = some old) :
    occ id (es.set i .invalid) + occ1 id old ≤ occ id es := by
  induction es generalizing i with
  | nil => simp at h
  | cons e rest ih =>
    cases i with
    | zero =>
      simp at h; subst h
      simp only [List.set_cons_zero, occ_cons, occ_invalid]; omega
    | succ i =>
      simp at h
      simp only [List.set_cons_succ, occ_cons]; have := ih i h; omega

theorem occ_eraseIdx (id : Nat) (es : List Val) (i : Nat) (old : Val) (h : es[i]? = some old) :
    occ id (es.eraseIdx i) + occ1 id old ≤ occ id es := by
  induction es generalizing i with
  | nil => simp at h
  | cons e rest ih =>
    cases i with
    | zero => simp at h; subst h; simp only [List.eraseIdx_cons_zero, occ_cons]; omega
    | succ i =>
      simp at h
      simp only [List.eraseIdx_cons_succ, occ_cons]; have := ih i h; omega

theorem occ_dropLast (id : Nat) (es : List Val) (old : Val) (h : es.getLast? = some old) :
    occ id es.dropLast + occ1 id old ≤ occ id es := by
  have : es = es.dropLast ++ [old] := by
    have hne : es ≠ [] := by rintro rfl; simp at h
    have := List.dropLast_concat_getLast hne
    rw [List.getLast?_eq_some_getLast hne] at h
    cases h; exact this.symm
  conv => rhs; rw [this]
  simp

theorem occ_filter_snd_le {α} (id : Nat) (l : List (α × Val)) (q : α × Val → Bool) :
    occ id ((l.filter q).map (·.2)) ≤ occ id (l.map (·.2)) := by
  induction l with
  | nil => simp
  | cons e rest ih =>
    simp only [List.filter_cons]
    split
    · simp only [List.map_cons, occ_cons]; omega
    · simp only [List.map_cons, occ_cons]; omega

/-- removing the entries that satisfy `q` releases (at least) the first of them -/
theorem occ_filter_not_find {α} (id : Nat) (l : List (α × Val)) (q : α × Val → Bool) (e : α × Val)
    (h : l.find? q = some e) :
    occ id ((l.filter (fun x => !q x)).map (·.2)) + occ1 id e.2 ≤ occ id (l.map (·.2)) := by
  induction l with
  | nil => simp at h
  | cons a rest ih =>
    simp only [List.find?_cons] at h
    simp only [List.filter_cons]
    cases hq : q a with
    | true =>
      rw [hq] at h; cases h
      simp only [Bool.not_true, Bool.false_eq_true, if_false, List.map_cons, occ_cons]
      have := occ_filter_snd_le id rest (fun x => !q x); omega
    | false =>
      rw [hq] at h
      simp only [Bool.not_false, if_true, List.map_cons, occ_cons]
      have := ih h; omega

theorem occ_dictInsert_le (id : Nat) (kvs : List (Val × Val)) (k v : Val) :
    occ id ((dictInsert kvs k v).map (·.2)) ≤ occ id (kvs.map (·.2)) + occ1 id v := by
  induction kvs with
  | nil => simp [dictInsert]
  | cons q rest ih =>
    obtain ⟨g, w⟩ := q
    simp only [dictInsert]
    split
    · simp only [List.map_cons, occ_cons]; omega
    · simp only [List.map_cons, occ_cons]; omega

/-! ### deep copy: the copy owns fresh cells only, each once -/

theorem heapSlots_append (h e : Heap) : heapSlots (h ++ e) = heapSlots h ++ heapSlots e := by
  simp [heapSlots]

theorem occ_zip_snd_le (id : Nat) {α} : ∀ (l : List α) (vs : List Val), occ id ((l.zip vs).map (·.2)) ≤ occ id vs
  | [], vs => by simp
  | _ :: _, [] => by simp
  | a :: l, v :: vs => by
    simp only [List.zip_cons_cons, List.map_cons, occ_cons]
    have := occ_zip_snd_le id l vs; omega

theorem occ_withVals_le (id : Nat) (o : Obj) (vs : List Val) : occ id (o.withVals vs).vals ≤ occ id vs := by
  cases o with
  | comp n fs =>
    simp only [Obj.withVals, Obj.vals, List.map_map]
    exact occ_zip_snd_le id fs vs
  | arr es => simp [Obj.withVals, Obj.vals]
  | dict kvs =>
    simp only [Obj.withVals, Obj.vals, List.map_map]
    exact occ_zip_snd_le id kvs vs

mutual
theorem copyVal_occ : ∀ (n : Nat) (h : Heap) (v : Val) (h' : Heap) (v' : Val),
    copyVal n h v = some (h', v') →
    ∃ e, h' = h ++ e ∧ ∀ id, occ1 id v' + occ id (heapSlots e) ≤ (if h.length ≤ id ∧ id < h'.length then 1 else 0)
  | 0, _, _, _, _, he => by simp [copyVal] at he
  | n + 1, h, v, h', v', he => by
    cases v with
    | some w =>
      simp only [copyVal, Option.bind_eq_bind, Option.pure_def, Option.bind_eq_some_iff] at he
      obtain ⟨⟨h1, w'⟩, hw, heq⟩ := he
      simp only [Option.some.injEq, Prod.mk.injEq] at heq
      obtain ⟨rfl, rfl⟩ := heq
      simpa using copyVal_occ n h w _ _ hw
    | ptr i =>
      simp only [copyVal, Option.bind_eq_bind, Option.pure_def, Option.bind_eq_some_iff] at he
      obtain ⟨c, hc, ⟨h1, vs'⟩, hvs, heq⟩ := he
      simp only [Option.some.injEq, Prod.mk.injEq] at heq
      obtain ⟨rfl, rfl⟩ := heq
      obtain ⟨e1, rfl, hocc⟩ := copyVals_occ n h c.obj.vals h1 vs' hvs
      refine ⟨e1 ++ [{ c with obj := c.obj.withVals vs', gen := 0 }], by simp, fun id => ?_⟩
      have h1 := hocc id
      have h2 := occ_withVals_le id c.obj vs'
      have h3 : occ1 id (Val.ptr (h ++ e1).length) = if id = (h ++ e1).length then 1 else 0 := by
        simp only [occ1, Val.ptrs, List.count_singleton, beq_iff_eq]
        by_cases e : id = (h ++ e1).length <;> simp [e, eq_comm]
      have h4 : heapSlots [{ c with obj := c.obj.withVals vs', gen := 0 }] = (c.obj.withVals vs').vals := by
        simp [heapSlots, Cell.slots]
      rw [heapSlots_append, occ_append, h3, h4]
      simp only [List.length_append, List.length_cons, List.length_nil] at h1 ⊢
      split at h1 <;> split <;> split <;> omega
    | int _ _ | bool _ | str _ | void | nil | ref _ _ | sref _ _ | invalid | account =>
      simp only [copyVal, Option.pure_def, Option.some.injEq, Prod.mk.injEq] at he
      obtain ⟨rfl, rfl⟩ := he
      exact ⟨[], by simp, fun id => by simp [occ1, Val.ptrs, heapSlots]⟩
theorem copyVals_occ : ∀ (n : Nat) (h : Heap) (vs : List Val) (h' : Heap) (vs' : List Val),
    copyVals n h vs = some (h', vs') →
    ∃ e, h' = h ++ e ∧ ∀ id, occ id vs' + occ id (heapSlots e) ≤ (if h.length ≤ id ∧ id < h'.length then 1 else 0)
  | 0, _, _, _, _, he => by simp [copyVals] at he
  | n + 1, h, [], h', vs', he => by
    simp only [copyVals, Option.pure_def, Option.some.injEq, Prod.mk.injEq] at he
    obtain ⟨rfl, rfl⟩ := he
    exact ⟨[], by simp, fun id => by simp [heapSlots]⟩
  | n + 1, h, v :: vs, h', vs', he => by
    simp only [copyVals, Option.bind_eq_bind, Option.pure_def, Option.bind_eq_some_iff] at he
    obtain ⟨⟨h1, v1⟩, hv, ⟨h2, vs2⟩, hvs, heq⟩ := he
    simp only [Option.some.injEq, Prod.mk.injEq] at heq
    obtain ⟨rfl, rfl⟩ := heq
    obtain ⟨e1, rfl, ha⟩ := copyVal_occ n h v h1 v1 hv
    obtain ⟨e2, rfl, hb⟩ := copyVals_occ n (h ++ e1) vs h2 vs2 hvs
    refine ⟨e1 ++ e2, by simp, fun id => ?_⟩
    have h1 := ha id
    have h2 := hb id
    rw [heapSlots_append, occ_append, occ_cons]
    simp only [List.length_append] at h1 h2 ⊢
    split at h1 <;> split at h2 <;> split <;> omega
end

theorem Held.congr {s : State} {fl fl' : List Val} (h : Held s fl) (e : ∀ id, occ id fl' = occ id fl) : Held s fl' := by
  intro id
  have := h id
  simp only [occ_append] at this ⊢
  rw [e id]; exact this

theorem liveRes_append_old {h e : Heap} {id : Nat} (hlt : id < h.length) : LiveRes (h ++ e) id → LiveRes h id := by
  rintro ⟨c, hc, hr, ha⟩
  rw [List.getElem?_append_left hlt] at hc
  exact ⟨c, hc, hr, ha⟩

theorem transfer_cases {s : State} {v v' : Val} (hok : (transfer v s).out = .ok v') :
    (isResVal s.heap v = true ∧ v' = v ∧
      (transfer v s).st = { s with heap := bumpVal (heapFuel s) s.heap v }) ∨
    (isResVal s.heap v = false ∧ ∃ h', copyVal (heapFuel s) s.heap v = some (h', v') ∧
      (transfer v s).st = { s with heap := h' }) := by
  by_cases hres : isResVal s.heap v = true
  · left
    cases v <;> simp_all [transfer, isResVal]
  · right
    have hres' : isResVal s.heap v = false := by simpa using hres
    refine ⟨hres', ?_⟩
    cases hcp : copyVal (heapFuel s) s.heap v with
    | none => cases v <;> simp_all [transfer]
    | some q =>
      obtain ⟨h', w⟩ := q
      cases v <;> simp_all [transfer]

/-- `Value.Transfer` keeps the invariant: a resource keeps its identity (the value in flight stays the
only owner), anything else is replaced in flight by a copy made of fresh cells -/
theorem transfer_held {s : State} {v v' : Val} {fl : List Val} (h : Held s (v :: fl))
    (hok : (transfer v s).out = .ok v') : Held (transfer v s).st (v' :: fl) := by
  rcases transfer_cases hok with ⟨_, rfl, hst⟩ | ⟨_, h', hcp, hst⟩
  · rw [hst]; exact h.sub (sub_bump _ (bumpVal_rel _ _ _))
  · rw [hst]
    obtain ⟨e, rfl, hocc⟩ := copyVal_occ _ _ _ _ _ hcp
    intro id
    have hh := h id
    have ho := hocc id
    simp only [List.cons_append, occ_cons, occ_append, occ_slots, heapSlots_append, List.length_append] at hh ho ⊢
    refine ⟨fun hl => ?_, fun hlen => ?_⟩
    · by_cases hlt : id < s.heap.length
      · have := hh.1 (liveRes_append_old hlt hl)
        split at ho <;> omega
      · have := hh.2 (by omega)
        split at ho <;> omega
    · have := hh.2 (by omega)
      split at ho <;> omega

theorem transferTo_held {s : State} {ty : Ty} {v v' : Val} {fl : List Val} (h : Held s (v :: fl))
    (hok : (transferTo ty v s).out = .ok v') : Held (transferTo ty v s).st (v' :: fl) := by
  unfold transferTo at hok ⊢
  obtain ⟨w, hw, hp, hst⟩ := bind_inv hok
  rw [hst]
  simp only [Pure.pure, M.pure] at hp ⊢
  cases hp
  exact (transfer_held h hw).congr fun id => by simp

end Verif.Model.Lang2
