import Verif.Proofs.StoredCbor
import Verif.Model.Codec.Stored
/-! Helper lemmas for C44: the value layer (`valOfItem ∘ valItem = id`, `typeOfItem ∘ typeItem = id`)
    and well-formedness of the produced CBOR items. -/
namespace Verif.Proofs.Stored
open Verif.Model.Codec.StoredCbor Verif.Model.Codec.Stored Verif.Proofs.StoredCbor

/-! ### tag lookup -/

theorem find_of_nodup {α : Type} (f : α → Nat) (l : List α) (k : α) (hk : k ∈ l) (hn : (l.map f).Nodup) :
    l.find? (fun x => f x == f k) = some k := by
  induction l with
  | nil => cases hk
  | cons x xs ih =>
    simp only [List.map_cons, List.nodup_cons] at hn
    by_cases hx : x = k
    · subst hx; simp [List.find?]
    · have hk' : k ∈ xs := by
        cases hk with
        | head => exact absurd rfl hx
        | tail _ h => exact h
      have hne : f x ≠ f k := by
        intro h
        apply hn.1
        rw [h]
        exact List.mem_map_of_mem hk'
      have hb : (f x == f k) = false := by simp [hne]
      simp [List.find?, hb, ih hk' hn.2]

theorem NumKind.mem_all (k : NumKind) : k ∈ NumKind.all := by cases k <;> decide
theorem VKind.mem_all (k : VKind) : k ∈ VKind.all := by
  cases k with
  | num k => exact List.mem_append_right _ (List.mem_map_of_mem (NumKind.mem_all k))
  | _ => exact List.mem_append_left _ (by decide)
theorem TKind.mem_all (k : TKind) : k ∈ TKind.all := by cases k <;> decide
theorem AKind.mem_all (k : AKind) : k ∈ AKind.all := by cases k <;> decide
theorem LKind.mem_all (k : LKind) : k ∈ LKind.all := by cases k <;> decide

structure TagsOk (T : Tags) : Prop where
  vn : (VKind.all.map T.v).Nodup
  tn : (TKind.all.map T.t).Nodup
  an : (AKind.all.map T.a).Nodup
  ln : (LKind.all.map T.l).Nodup
  vr : ∀ k, 3 < T.v k ∧ T.v k < 240
  tr : ∀ k, T.t k < 2 ^ 64
  ar : ∀ k, T.a k < 2 ^ 64
  lr : ∀ k, T.l k < 2 ^ 64

theorem tagsOk_of_ok {T : Tags} (h : T.ok = true) : TagsOk T := by
  simp only [Tags.ok, Bool.and_eq_true, decide_eq_true_eq, List.all_eq_true, List.mem_map,
    forall_exists_index, and_imp, forall_apply_eq_imp_iff₂] at h
  obtain ⟨⟨⟨⟨⟨⟨⟨h1, h2⟩, h3⟩, h4⟩, h5⟩, h6⟩, h7⟩, h8⟩ := h
  exact ⟨h1, h2, h3, h4, fun k => by have := h5 k (VKind.mem_all k); omega,
    fun k => h6 k (TKind.mem_all k), fun k => h7 k (AKind.mem_all k), fun k => h8 k (LKind.mem_all k)⟩

section
variable {T : Tags} (hT : TagsOk T)
include hT

theorem vkind_v (k : VKind) : T.vkind (T.v k) = some k := find_of_nodup T.v _ k (VKind.mem_all k) hT.vn
theorem tkind_t (k : TKind) : T.tkind (T.t k) = some k := find_of_nodup T.t _ k (TKind.mem_all k) hT.tn
theorem akind_a (k : AKind) : T.akind (T.a k) = some k := find_of_nodup T.a _ k (AKind.mem_all k) hT.an
theorem lkind_l (k : LKind) : T.lkind (T.l k) = some k := find_of_nodup T.l _ k (LKind.mem_all k) hT.ln

end

/-! ### small pieces -/

@[simp] theorem bnd_ok {α β : Type} (a : α) (f : α → Except DErr β) : bnd (.ok a) f = f a := rfl
@[simp] theorem bnd_error {α β : Type} (e : DErr) (f : α → Except DErr β) : bnd (.error e : Except DErr α) f = .error e := rfl

theorem textOf_text {s : Bytes} (h : textOk s = true) : textOfItem (.text s) = .ok s := by
  simp only [textOk, Bool.and_eq_true] at h
  simp [textOfItem, h.1]

theorem text_wf {s : Bytes} (h : textOk s = true) : (Item.text s).wf = true := by
  simp only [textOk, Bool.and_eq_true, decide_eq_true_eq] at h
  simp [Item.wf, h.2]

theorem textOk_len {s : Bytes} (h : textOk s = true) : s.length < 18446744073709551616 := by
  simp only [textOk, Bool.and_eq_true, decide_eq_true_eq] at h
  exact h.2

theorem length_natBytes_le {a : Nat} (h : a < 2 ^ 64) : (natBytes a).length ≤ 8 := by
  unfold natBytes
  split
  · simp
  · next hne =>
    rw [length_beBytes]
    have : a.log2 < 64 := (Nat.log2_lt hne).2 h
    omega

theorem addrBytes_natBytes {a : Nat} (h : a < 2 ^ 64) : addrBytesOfItem (.bytes (natBytes a)) = .ok a := by
  simp [addrBytesOfItem, length_natBytes_le h, beNat_natBytes]

theorem natBytes_len {a : Nat} (h : a < 2 ^ 64) : (natBytes a).length < 18446744073709551616 := by
  have := length_natBytes_le h
  omega

theorem natBytes_wf {a : Nat} (h : a < 2 ^ 64) : (Item.bytes (natBytes a)).wf = true := by
  have := length_natBytes_le h
  simp only [Item.wf, decide_eq_true_eq]
  omega

theorem fit32_self {b : Bytes} (h : b.length = 32) : fit32 b = b := by
  unfold fit32
  rw [List.take_append_of_le_length (by omega)]
  exact List.take_of_length_le (by omega)

theorem dedup_nodup {l : List Bytes} (h : l.Nodup) : dedup l = l := by
  induction l with
  | nil => rfl
  | cons x xs ih =>
    simp only [List.nodup_cons] at h
    simp only [dedup, ih h.2]
    congr 1
    apply List.filter_eq_self.2
    intro y hy
    simp only [bne_iff_ne, ne_eq]
    intro hyx
    exact h.1 (hyx ▸ hy)

theorem textsOf_map {l : List Bytes} (h : l.all textOk = true) : textsOfItems (l.map .text) = .ok l := by
  induction l with
  | nil => rfl
  | cons x xs ih =>
    simp only [List.all_cons, Bool.and_eq_true] at h
    simp [textsOfItems, textOf_text h.1, ih h.2]

theorem wfMany_texts {l : List Bytes} (h : l.all textOk = true) : wfMany (l.map .text) = true := by
  induction l with
  | nil => rfl
  | cons x xs ih =>
    simp only [List.all_cons, Bool.and_eq_true] at h
    simp [wfMany, text_wf h.1, ih h.2]

/-! ### numbers -/

def saneCls : NumClass → Prop
  | .sint lo hi => -(2 ^ 63) ≤ lo ∧ hi < 2 ^ 63
  | .uint hi => hi < 2 ^ 64
  | .big _ _ => True

theorem cls_sane (k : NumKind) : saneCls k.cls := by
  cases k <;> simp [NumKind.cls, saneCls]

theorem intItem_wf {v : Int} (h1 : -(2 ^ 64) ≤ v) (h2 : v < 2 ^ 64) : (intItem v).wf = true := by
  unfold intItem
  split
  · simp only [Item.wf, decide_eq_true_eq]; omega
  · simp only [Item.wf, decide_eq_true_eq]; omega

theorem int64Of_intItem {v : Int} (h1 : -(2 ^ 63) ≤ v) (h2 : v < 2 ^ 63) : int64OfItem (intItem v) = .ok v := by
  unfold intItem
  split
  · next h =>
    have : v.toNat < 2 ^ 63 := by omega
    simp only [int64OfItem, this, if_true]
    congr 1; omega
  · next h =>
    have : (-v - 1).toNat < 2 ^ 63 := by omega
    simp only [int64OfItem, this, if_true]
    congr 1; omega

theorem bigOf_bigItem (v : Int) : bigOfItem (bigItem v) = .ok v := by
  unfold bigItem
  split
  · next h => simp only [bigOfItem, beNat_natBytes]; congr 1; omega
  · next h => simp only [bigOfItem, beNat_natBytes]; congr 1; omega

theorem bigItem_wf {v : Int} (h : bigOk v = true) : (bigItem v).wf = true := by
  unfold bigOk at h
  unfold bigItem
  split
  · next hv => simp only [hv, if_true, decide_eq_true_eq] at h; simp [Item.wf, h]
  · next hv =>
    simp only [hv, if_false, decide_eq_true_eq] at h
    simp only [Item.wf, Bool.and_eq_true, decide_eq_true_eq]
    exact ⟨by omega, h⟩

theorem numOf_numItem {c : NumClass} {v : Int} (hs : saneCls c) (hr : c.inRange v = true) :
    numOfItem c (numItem c v) = .ok v := by
  cases c with
  | sint lo hi =>
    simp only [saneCls] at hs
    have hr' := hr
    simp only [NumClass.inRange, Bool.and_eq_true, decide_eq_true_eq] at hr'
    simp only [numOfItem, numItem, int64Of_intItem (v := v) (by omega) (by omega), bnd_ok, hr, if_true]
  | uint hi =>
    simp only [saneCls] at hs
    have hr' := hr
    simp only [NumClass.inRange, Bool.and_eq_true, decide_eq_true_eq] at hr'
    have h0 : 0 ≤ v := hr'.1
    have e : ((v.toNat : Nat) : Int) = v := by omega
    simp only [numOfItem, numItem, intItem, h0, if_true, e, hr]
  | big lo hi =>
    simp only [numOfItem, numItem, bigOf_bigItem, bnd_ok, hr, if_true]

theorem numItem_wf {c : NumClass} {v : Int} (hs : saneCls c) (hr : c.inRange v = true) (hb : bigOk v = true) :
    (numItem c v).wf = true := by
  cases c with
  | sint lo hi =>
    simp only [saneCls] at hs
    simp only [NumClass.inRange, Bool.and_eq_true, decide_eq_true_eq] at hr
    exact intItem_wf (by omega) (by omega)
  | uint hi =>
    simp only [saneCls] at hs
    simp only [NumClass.inRange, Bool.and_eq_true, decide_eq_true_eq] at hr
    exact intItem_wf (by omega) (by omega)
  | big lo hi => exact bigItem_wf hb


/-! ### locations, authorizations, static types -/

section
variable {T : Tags} (hT : TagsOk T)
include hT

theorem locOf_locItem {l : Loc} (h : l.wf = true) : locOfItem T (locItem T l) = .ok l := by
  cases l with
  | none => rfl
  | address a name =>
    simp only [Loc.wf, Bool.and_eq_true, decide_eq_true_eq] at h
    simp [locItem, locOfItem, lkind_l hT, addrBytes_natBytes h.1, textOf_text h.2]
  | string s => simp only [Loc.wf] at h; simp [locItem, locOfItem, lkind_l hT, textOf_text h]
  | identifier s => simp only [Loc.wf] at h; simp [locItem, locOfItem, lkind_l hT, textOf_text h]
  | transaction b =>
    simp only [Loc.wf, beq_iff_eq] at h
    simp [locItem, locOfItem, lkind_l hT, fit32_self h]
  | script b =>
    simp only [Loc.wf, beq_iff_eq] at h
    simp [locItem, locOfItem, lkind_l hT, fit32_self h]

theorem locItem_wf {l : Loc} (h : l.wf = true) : (locItem T l).wf = true := by
  cases l with
  | none => rfl
  | address a name =>
    simp only [Loc.wf, Bool.and_eq_true, decide_eq_true_eq] at h
    simp [locItem, Item.wf, wfMany, hT.lr, natBytes_len h.1, textOk_len h.2]
  | string s => simp only [Loc.wf] at h; simp [locItem, Item.wf, hT.lr, textOk_len h]
  | identifier s => simp only [Loc.wf] at h; simp [locItem, Item.wf, hT.lr, textOk_len h]
  | transaction b => simp only [Loc.wf, beq_iff_eq] at h; simp [locItem, Item.wf, hT.lr, h]
  | script b => simp only [Loc.wf, beq_iff_eq] at h; simp [locItem, Item.wf, hT.lr, h]

theorem authOf_authItem {a : Auth} (h : a.wf = true) : authOfItem T (authItem T a) = .ok a := by
  cases a with
  | unauthorized => simp [authItem, authOfItem, akind_a hT, nilItem]
  | inaccessible => simp [authItem, authOfItem, akind_a hT, nilItem]
  | entMap id => simp only [Auth.wf] at h; simp [authItem, authOfItem, akind_a hT, textOf_text h]
  | entSet kind ents =>
    simp only [Auth.wf, Bool.and_eq_true, decide_eq_true_eq] at h
    obtain ⟨⟨⟨h1, h2⟩, h3⟩, _⟩ := h
    simp [authItem, authOfItem, akind_a hT, textsOf_map h2, dedup_nodup h3, Nat.mod_eq_of_lt h1]

theorem authItem_wf {a : Auth} (h : a.wf = true) : (authItem T a).wf = true := by
  cases a with
  | unauthorized => simp [authItem, Item.wf, hT.ar, nilItem]
  | inaccessible => simp [authItem, Item.wf, hT.ar, nilItem]
  | entMap id => simp only [Auth.wf] at h; simp [authItem, Item.wf, hT.ar, textOk_len h]
  | entSet kind ents =>
    simp only [Auth.wf, Bool.and_eq_true, decide_eq_true_eq] at h
    obtain ⟨⟨⟨h1, h2⟩, _⟩, h4⟩ := h
    have hk : kind < 2 ^ 64 := by omega
    simp [authItem, Item.wf, wfMany, hT.ar, hk, h4, wfMany_texts h2]

omit hT in
theorem authItem_isTag (a : Auth) : ∃ n x, authItem T a = .tag n x := by
  cases a <;> exact ⟨_, _, rfl⟩

theorem ifaceOf_ifaceItem {p : Loc × Bytes} (h : ifaceWf p = true) : ifaceOfItem T (ifaceItem T p) = .ok p := by
  simp only [ifaceWf, Bool.and_eq_true, Bool.not_eq_true'] at h
  obtain ⟨⟨h1, h2⟩, h3⟩ := h
  simp [ifaceItem, ifaceOfItem, tkind_t hT, locOf_locItem hT h1, textOf_text h2, h3]

theorem ifaceItem_wf {p : Loc × Bytes} (h : ifaceWf p = true) : (ifaceItem T p).wf = true := by
  simp only [ifaceWf, Bool.and_eq_true] at h
  simp [ifaceItem, Item.wf, wfMany, hT.tr, locItem_wf hT h.1.1, textOk_len h.1.2]

theorem ifacesOf_map {l : List (Loc × Bytes)} (h : l.all ifaceWf = true) :
    ifacesOfItems T (l.map (ifaceItem T)) = .ok l := by
  induction l with
  | nil => rfl
  | cons x xs ih =>
    simp only [List.all_cons, Bool.and_eq_true] at h
    simp [ifacesOfItems, ifaceOf_ifaceItem hT h.1, ih h.2]

theorem wfMany_ifaces {l : List (Loc × Bytes)} (h : l.all ifaceWf = true) : wfMany (l.map (ifaceItem T)) = true := by
  induction l with
  | nil => rfl
  | cons x xs ih =>
    simp only [List.all_cons, Bool.and_eq_true] at h
    simp [wfMany, ifaceItem_wf hT h.1, ih h.2]

omit hT in
theorem typeItem_isTag (t : SType) : ∃ n x, typeItem T t = .tag n x := by
  cases t <;> exact ⟨_, _, rfl⟩

theorem typeOf_typeItem {t : SType} (h : t.wf T = true) : typeOfItem T (typeItem T t) = .ok t := by
  induction t with
  | primitive c =>
    simp only [SType.wf, Bool.and_eq_true, decide_eq_true_eq, bne_iff_ne, ne_eq] at h
    simp [typeItem, typeOfItem, tkind_t hT, h.2]
  | optional t ih =>
    simp only [SType.wf] at h
    have ht := ih h
    obtain ⟨n, x, e⟩ := typeItem_isTag (T := T) t
    rw [e] at ht
    simp [typeItem, typeOfItem, tkind_t hT, e, ht]
  | composite loc q =>
    simp only [SType.wf, Bool.and_eq_true, Bool.not_eq_true'] at h
    simp [typeItem, typeOfItem, tkind_t hT, locOf_locItem hT h.1.1, textOf_text h.1.2, h.2]
  | interface loc q =>
    simp only [SType.wf] at h
    have := ifaceOf_ifaceItem hT h
    simp only [ifaceItem] at this
    simp [typeItem, ifaceItem, typeOfItem, tkind_t hT, this]
  | variableSized t ih =>
    simp only [SType.wf] at h
    have ht := ih h
    obtain ⟨n, x, e⟩ := typeItem_isTag (T := T) t
    rw [e] at ht
    simp [typeItem, typeOfItem, tkind_t hT, e, ht]
  | constantSized n t ih =>
    simp only [SType.wf, Bool.and_eq_true, decide_eq_true_eq] at h
    obtain ⟨⟨h1, h2⟩, h3⟩ := h
    have hn : n.toNat < 2 ^ 63 := by omega
    have e : ((n.toNat : Nat) : Int) = n := by omega
    simp [typeItem, typeOfItem, tkind_t hT, intItem, h1, hn, ih h3, e]
  | dictionary k v ihk ihv =>
    simp only [SType.wf, Bool.and_eq_true] at h
    simp [typeItem, typeOfItem, tkind_t hT, ihk h.1, ihv h.2]
  | reference a t legacy ih =>
    simp only [SType.wf, Bool.and_eq_true, Option.isNone_iff_eq_none] at h
    obtain ⟨⟨h1, h2⟩, h3⟩ := h
    subst h3
    have ha := authOf_authItem hT h1
    obtain ⟨n, x, e⟩ := authItem_isTag (T := T) a
    rw [e] at ha
    simp [typeItem, typeOfItem, tkind_t hT, e, ha, ih h2]
  | intersection tys =>
    simp only [SType.wf, Bool.and_eq_true] at h
    simp [typeItem, typeOfItem, tkind_t hT, nilItem, ifacesOf_map hT h.1]
  | intersectionLegacy l tys ih =>
    simp only [SType.wf, Bool.and_eq_true] at h
    obtain ⟨⟨h1, h2⟩, _⟩ := h
    have hl := ih h1
    obtain ⟨n, x, e⟩ := typeItem_isTag (T := T) l
    rw [e] at hl
    simp [typeItem, typeOfItem, tkind_t hT, e, hl, ifacesOf_map hT h2]
  | capability t ih =>
    simp only [SType.wf] at h
    have ht := ih h
    obtain ⟨n, x, e⟩ := typeItem_isTag (T := T) t
    rw [e] at ht
    simp [typeItem, typeOfItem, tkind_t hT, e, ht]
  | capabilityNil => simp [typeItem, typeOfItem, tkind_t hT, nilItem]
  | inclusiveRange t ih =>
    simp only [SType.wf] at h
    have ht := ih h
    obtain ⟨n, x, e⟩ := typeItem_isTag (T := T) t
    rw [e] at ht
    simp [typeItem, typeOfItem, tkind_t hT, e, ht]

theorem typeItem_wf {t : SType} (h : t.wf T = true) : (typeItem T t).wf = true := by
  induction t with
  | primitive c =>
    simp only [SType.wf, Bool.and_eq_true, decide_eq_true_eq] at h
    simp [typeItem, Item.wf, hT.tr, h.1]
  | optional t ih => simp only [SType.wf] at h; simp [typeItem, Item.wf, hT.tr, ih h]
  | composite loc q =>
    simp only [SType.wf, Bool.and_eq_true] at h
    simp [typeItem, Item.wf, wfMany, hT.tr, locItem_wf hT h.1.1, textOk_len h.1.2]
  | interface loc q => simp only [SType.wf] at h; exact ifaceItem_wf hT h
  | variableSized t ih => simp only [SType.wf] at h; simp [typeItem, Item.wf, hT.tr, ih h]
  | constantSized n t ih =>
    simp only [SType.wf, Bool.and_eq_true, decide_eq_true_eq] at h
    obtain ⟨⟨h1, h2⟩, h3⟩ := h
    simp [typeItem, Item.wf, wfMany, hT.tr, intItem_wf (v := n) (by omega) (by omega), ih h3]
  | dictionary k v ihk ihv =>
    simp only [SType.wf, Bool.and_eq_true] at h
    simp [typeItem, Item.wf, wfMany, hT.tr, ihk h.1, ihv h.2]
  | reference a t legacy ih =>
    simp only [SType.wf, Bool.and_eq_true] at h
    simp [typeItem, Item.wf, wfMany, hT.tr, authItem_wf hT h.1.1, ih h.1.2]
  | intersection tys =>
    simp only [SType.wf, Bool.and_eq_true, decide_eq_true_eq] at h
    simp [typeItem, Item.wf, wfMany, hT.tr, nilItem, h.2, wfMany_ifaces hT h.1]
  | intersectionLegacy l tys ih =>
    simp only [SType.wf, Bool.and_eq_true, decide_eq_true_eq] at h
    simp [typeItem, Item.wf, wfMany, hT.tr, h.2, wfMany_ifaces hT h.1.2, ih h.1.1]
  | capability t ih => simp only [SType.wf] at h; simp [typeItem, Item.wf, hT.tr, ih h]
  | capabilityNil => simp [typeItem, Item.wf, hT.tr, nilItem]
  | inclusiveRange t ih => simp only [SType.wf] at h; simp [typeItem, Item.wf, hT.tr, ih h]


/-! ### storable values -/

theorem addrOf_addrItem {a : Nat} (h : a < 2 ^ 64) : addrOfItem T (addrItem T a) = .ok a := by
  simp [addrItem, addrOfItem, vkind_v hT, addrBytes_natBytes h]

theorem addrItem_wf {a : Nat} (h : a < 2 ^ 64) : (addrItem T a).wf = true := by
  have := (hT.vr .address).2
  simp only [addrItem, Item.wf, Bool.and_eq_true, decide_eq_true_eq]
  exact ⟨by omega, natBytes_len h⟩

theorem pathOf_pathItem {d : Nat} {i : Bytes} (hd : d < 256) (hi : textOk i = true) :
    pathOfItem T (pathItem T d i) = .ok (d, i) := by
  simp [pathItem, pathOfItem, pathContent, vkind_v hT, textOf_text hi, Nat.mod_eq_of_lt hd]

theorem pathItem_wf {d : Nat} {i : Bytes} (hd : d < 256) (hi : textOk i = true) : (pathItem T d i).wf = true := by
  have := (hT.vr .path).2
  have h1 : T.v .path < 18446744073709551616 := by omega
  have h2 : d < 18446744073709551616 := by omega
  simp [pathItem, Item.wf, wfMany, h1, h2, textOk_len hi]

theorem optTypeOf_optTypeItem {t : Option SType} (h : optTypeWf T t = true) :
    optTypeOfItem T (optTypeItem T t) = .ok t := by
  cases t with
  | none => rfl
  | some t =>
    simp only [optTypeWf] at h
    have ht := typeOf_typeItem hT h
    obtain ⟨n, x, e⟩ := typeItem_isTag (T := T) t
    rw [e] at ht
    simp [optTypeItem, optTypeOfItem, e, ht]

theorem optTypeItem_wf {t : Option SType} (h : optTypeWf T t = true) : (optTypeItem T t).wf = true := by
  cases t with
  | none => rfl
  | some t => simp only [optTypeWf] at h; exact typeItem_wf hT h

theorem capOf_capItem {c : Cap} (h : c.wf T = true) : capOfItem T (capItem T c) = .ok c := by
  cases c with
  | id addr cid borrow =>
    simp only [Cap.wf, Bool.and_eq_true, decide_eq_true_eq] at h
    simp [capItem, capOfItem, capContent, vkind_v hT, addrOf_addrItem hT h.1.1, typeOf_typeItem hT h.2]
  | path addr d i borrow =>
    simp only [Cap.wf, Bool.and_eq_true, decide_eq_true_eq] at h
    obtain ⟨⟨⟨h1, h2⟩, h3⟩, h4⟩ := h
    simp [capItem, capOfItem, pathCapContent, vkind_v hT, addrOf_addrItem hT h1, pathOf_pathItem hT h2 h3,
      optTypeOf_optTypeItem hT h4]

theorem capItem_wf {c : Cap} (h : c.wf T = true) : (capItem T c).wf = true := by
  cases c with
  | id addr cid borrow =>
    simp only [Cap.wf, Bool.and_eq_true, decide_eq_true_eq] at h
    have := (hT.vr .capability).2
    have h1 : T.v .capability < 18446744073709551616 := by omega
    simp [capItem, Item.wf, wfMany, h1, addrItem_wf hT h.1.1, h.1.2, typeItem_wf hT h.2]
  | path addr d i borrow =>
    simp only [Cap.wf, Bool.and_eq_true, decide_eq_true_eq] at h
    obtain ⟨⟨⟨h1, h2⟩, h3⟩, h4⟩ := h
    have := (hT.vr .pathCapability).2
    have h0 : T.v .pathCapability < 18446744073709551616 := by omega
    simp [capItem, Item.wf, wfMany, h0, addrItem_wf hT h1, pathItem_wf hT h2 h3, optTypeItem_wf hT h4]

omit hT in
theorem wrapSome_of_notSome {v : Stored} (l : Nat) (h : v.isSome = false) : wrapSome l v = .some l v := by
  cases v <;> simp_all [wrapSome, Stored.isSome]

theorem vlt (k : VKind) : T.v k < 18446744073709551616 := by
  have := (hT.vr k).2
  omega

theorem vlt240 (k : VKind) : ¬ (240 ≤ T.v k) := by
  have := (hT.vr k).2
  omega

theorem valOf_valItem (E : Env) {v : Stored} (h : v.wf T E = true) : valOfItem T E (valItem T v) = .ok v := by
  induction v with
  | bool b => cases b <;> rfl
  | nil => rfl
  | rawText s =>
    simp only [Stored.wf, textOk, Bool.and_eq_true] at h
    simp [valItem, valOfItem, h.1]
  | rawUint n => rfl
  | void => rw [valItem, valOfItem.eq_def]; simp [vkind_v hT, vlt240 hT]
  | string s =>
    simp only [Stored.wf, Bool.and_eq_true, beq_iff_eq] at h
    rw [valItem, valOfItem.eq_def]; simp [vkind_v hT, vlt240 hT, textOf_text h.1, h.2]
  | character s =>
    simp only [Stored.wf, Bool.and_eq_true, beq_iff_eq] at h
    rw [valItem, valOfItem.eq_def]; simp [vkind_v hT, vlt240 hT, textOf_text h.1.1, h.1.2, h.2]
  | some levels inner ih =>
    simp only [Stored.wf, Bool.and_eq_true, decide_eq_true_eq, Bool.not_eq_true'] at h
    obtain ⟨⟨⟨h1, h2⟩, h3⟩, h4⟩ := h
    by_cases hl : levels = 1
    · subst hl
      rw [valItem, if_pos rfl, valOfItem.eq_def]
      simp [vkind_v hT, vlt240 hT, ih h4, wrapSome_of_notSome 1 h3]
    · have hl' : ¬ levels ≤ 1 := by omega
      rw [valItem, if_neg hl, valOfItem.eq_def]
      simp [vkind_v hT, vlt240 hT, hl', ih h4, wrapSome_of_notSome levels h3]
  | address a =>
    simp only [Stored.wf, decide_eq_true_eq] at h
    rw [valItem, addrItem, valOfItem.eq_def]; simp [vkind_v hT, vlt240 hT, addrBytes_natBytes h]
  | num k v =>
    simp only [Stored.wf, Bool.and_eq_true] at h
    rw [valItem, valOfItem.eq_def]; simp [vkind_v hT, vlt240 hT, numOf_numItem (cls_sane k) h.1]
  | fix128 hi lo => rw [valItem, valOfItem.eq_def]; simp [vkind_v hT, vlt240 hT]
  | ufix128 hi lo => rw [valItem, valOfItem.eq_def]; simp [vkind_v hT, vlt240 hT]
  | path d i =>
    simp only [Stored.wf, Bool.and_eq_true, decide_eq_true_eq] at h
    rw [valItem, pathItem, valOfItem.eq_def]
    simp [pathContent, vkind_v hT, vlt240 hT, textOf_text h.2, Nat.mod_eq_of_lt h.1]
  | cap c =>
    simp only [Stored.wf] at h
    have hc := capOf_capItem hT h
    cases c with
    | id addr cid borrow =>
      simp only [capItem, capOfItem, vkind_v hT] at hc
      rw [valItem, capItem, valOfItem.eq_def]; simp [vkind_v hT, vlt240 hT, hc]
    | path addr d i borrow =>
      simp only [capItem, capOfItem, vkind_v hT] at hc
      rw [valItem, capItem, valOfItem.eq_def]; simp [vkind_v hT, vlt240 hT, hc]
  | published r c =>
    simp only [Stored.wf, Bool.and_eq_true, decide_eq_true_eq] at h
    rw [valItem, valOfItem.eq_def]
    simp [vkind_v hT, vlt240 hT, addrOf_addrItem hT h.1, capOf_capItem hT h.2]
  | typeValue t =>
    simp only [Stored.wf] at h
    rw [valItem, valOfItem.eq_def]; simp [vkind_v hT, vlt240 hT, optTypeOf_optTypeItem hT h]
  | storageCapCon b id d i =>
    simp only [Stored.wf, Bool.and_eq_true, decide_eq_true_eq] at h
    obtain ⟨⟨⟨⟨h1, h2⟩, h3⟩, h4⟩, h5⟩ := h
    rw [valItem, valOfItem.eq_def]
    simp [vkind_v hT, vlt240 hT, typeOf_typeItem hT h1, h2, pathOf_pathItem hT h4 h5]
  | accountCapCon b id =>
    simp only [Stored.wf, Bool.and_eq_true, decide_eq_true_eq] at h
    rw [valItem, valOfItem.eq_def]; simp [vkind_v hT, vlt240 hT, typeOf_typeItem hT h.1.1, h.1.2]
  | pathLink d i t =>
    simp only [Stored.wf, Bool.and_eq_true, decide_eq_true_eq] at h
    rw [valItem, valOfItem.eq_def]
    simp [vkind_v hT, vlt240 hT, pathOf_pathItem hT h.1.1 h.1.2, typeOf_typeItem hT h.2]
  | accountLink => rw [valItem, valOfItem.eq_def]; simp [vkind_v hT, vlt240 hT]

theorem valItem_wf (E : Env) {v : Stored} (h : v.wf T E = true) : (valItem T v).wf = true := by
  induction v with
  | bool b => cases b <;> rfl
  | nil => rfl
  | rawText s => simp only [Stored.wf] at h; simp [valItem, Item.wf, textOk_len h]
  | rawUint n => simpa [Stored.wf, valItem, Item.wf] using h
  | void => simp [valItem, Item.wf, vlt hT, nilItem]
  | string s =>
    simp only [Stored.wf, Bool.and_eq_true] at h
    simp [valItem, Item.wf, vlt hT, textOk_len h.1]
  | character s =>
    simp only [Stored.wf, Bool.and_eq_true] at h
    simp [valItem, Item.wf, vlt hT, textOk_len h.1.1]
  | some levels inner ih =>
    simp only [Stored.wf, Bool.and_eq_true, decide_eq_true_eq] at h
    obtain ⟨⟨⟨h1, h2⟩, h3⟩, h4⟩ := h
    by_cases hl : levels = 1
    · simp [valItem, hl, Item.wf, vlt hT, ih h4]
    · have h2' : levels < 18446744073709551616 := by omega
      simp [valItem, hl, Item.wf, wfMany, vlt hT, ih h4, h2']
  | address a => simp only [Stored.wf, decide_eq_true_eq] at h; exact addrItem_wf hT h
  | num k v =>
    simp only [Stored.wf, Bool.and_eq_true] at h
    simp [valItem, Item.wf, vlt hT, numItem_wf (cls_sane k) h.1 h.2]
  | fix128 hi lo =>
    simp only [Stored.wf, Bool.and_eq_true, decide_eq_true_eq] at h
    have a1 : hi < 18446744073709551616 := by omega
    have a2 : lo < 18446744073709551616 := by omega
    simp [valItem, Item.wf, wfMany, vlt hT, a1, a2]
  | ufix128 hi lo =>
    simp only [Stored.wf, Bool.and_eq_true, decide_eq_true_eq] at h
    have a1 : hi < 18446744073709551616 := by omega
    have a2 : lo < 18446744073709551616 := by omega
    simp [valItem, Item.wf, wfMany, vlt hT, a1, a2]
  | path d i =>
    simp only [Stored.wf, Bool.and_eq_true, decide_eq_true_eq] at h
    exact pathItem_wf hT h.1 h.2
  | cap c => simp only [Stored.wf] at h; exact capItem_wf hT h
  | published r c =>
    simp only [Stored.wf, Bool.and_eq_true, decide_eq_true_eq] at h
    simp [valItem, Item.wf, wfMany, vlt hT, addrItem_wf hT h.1, capItem_wf hT h.2]
  | typeValue t =>
    simp only [Stored.wf] at h
    simp [valItem, Item.wf, wfMany, vlt hT, optTypeItem_wf hT h]
  | storageCapCon b id d i =>
    simp only [Stored.wf, Bool.and_eq_true, decide_eq_true_eq] at h
    obtain ⟨⟨⟨⟨h1, h2⟩, h3⟩, h4⟩, h5⟩ := h
    have a1 : id < 18446744073709551616 := by omega
    simp [valItem, Item.wf, wfMany, vlt hT, typeItem_wf hT h1, a1, pathItem_wf hT h4 h5]
  | accountCapCon b id =>
    simp only [Stored.wf, Bool.and_eq_true, decide_eq_true_eq] at h
    have a1 : id < 18446744073709551616 := by omega
    simp [valItem, Item.wf, wfMany, vlt hT, typeItem_wf hT h.1.1, a1]
  | pathLink d i t =>
    simp only [Stored.wf, Bool.and_eq_true, decide_eq_true_eq] at h
    simp [valItem, Item.wf, wfMany, vlt hT, pathItem_wf hT h.1.1 h.1.2, typeItem_wf hT h.2]
  | accountLink => simp [valItem, Item.wf, vlt hT, nilItem]

/-! ### bytes -/

theorem decodeStored_encodeStored (E : Env) {v : Stored} (h : v.wf T E = true) (rest : Bytes) :
    decodeStored T E (encodeStored T v ++ rest) = .ok (v, rest) := by
  simp [decodeStored, encodeStored, decode_enc _ rest (valItem_wf hT E h), valOf_valItem hT E h]

theorem decodeType_encodeType {t : SType} (h : t.wf T = true) (rest : Bytes) :
    decodeType T (encodeType T t ++ rest) = .ok (t, rest) := by
  simp [decodeType, encodeType, decode_enc _ rest (typeItem_wf hT h), typeOf_typeItem hT h]

end

end Verif.Proofs.Stored
