import Verif.Model.Lin.Linearity
import Verif.Spec.Paths
/-
Basic lemmas for the C03 proofs: environments of the path semantics, association lists of the
checker state, monotonicity of the reported errors.
-/
namespace Verif.Proofs.Lin
open Verif.Model.Lin Verif.Spec.Paths

/-! ### path environments -/

theorem find_map_snd {β} (l : List (Var × β)) (x : Var) :
    ((l.find? (·.1 == x)).map (·.2) = none) ↔ ∀ p ∈ l, p.1 ≠ x := by
  induction l with
  | nil => simp
  | cons a l ih =>
    by_cases h : a.1 = x
    · simp [List.find?_cons, h]
    · have h' : (a.1 == x) = false := by simpa using h
      simp only [List.find?_cons, h', ih, List.mem_cons, forall_eq_or_imp]
      exact ⟨fun hh => ⟨h, hh⟩, fun hh => hh.2⟩

theorem Env.get_set_self (σ : Env) (x : Var) (v : Status) : (σ.set x v).get x = some v := by
  simp [Env.get, Env.set, List.find?]

theorem Env.get_filter_ne (σ : Env) (p : Var → Bool) (y : Var) (hy : p y = true) :
    Env.get (σ.filter fun q => p q.1) y = σ.get y := by
  induction σ with
  | nil => rfl
  | cons a σ ih =>
    by_cases ha : a.1 = y
    · have hp : p a.1 = true := by rw [ha]; exact hy
      have ha' : (a.1 == y) = true := by simpa using ha
      simp only [Env.get, List.filter, hp, List.find?_cons, ha']
    · by_cases hp : p a.1 = true
      · simp only [Env.get, List.filter, hp, List.find?]
        have : (a.1 == y) = false := by simpa using ha
        simp only [this]
        exact ih
      · have hp' : p a.1 = false := by simpa using hp
        have ha' : (a.1 == y) = false := by simpa using ha
        simp only [Env.get, List.filter, hp', List.find?_cons, ha']
        exact ih

theorem Env.get_set_other (σ : Env) (x y : Var) (v : Status) (h : y ≠ x) : (σ.set x v).get y = σ.get y := by
  have hxy : (x == y) = false := by simpa using (Ne.symm h)
  have := Env.get_filter_ne σ (fun z => z != x) y (by simpa using h)
  simp only [Env.get, Env.set, List.find?, hxy] at this ⊢
  exact this

theorem Env.get_remove_other (σ : Env) (xs : List Var) (y : Var) (h : y ∉ xs) :
    (σ.remove xs).get y = σ.get y := by
  have := Env.get_filter_ne σ (fun z => !xs.contains z) y (by simpa using h)
  simpa [Env.remove] using this

theorem Env.get_remove_mem (σ : Env) (xs : List Var) (y : Var) (h : y ∈ xs) :
    (σ.remove xs).get y = none := by
  simp only [Env.get, Env.remove]
  rw [find_map_snd]
  intro p hp
  simp only [List.mem_filter] at hp
  intro e
  have := hp.2
  simp [e, h] at this

theorem run_append (σ : Env) (π₁ π₂ : List Ev) :
    run σ (π₁ ++ π₂) = (run σ π₁).bind fun σ' => run σ' π₂ := by
  induction π₁ generalizing σ with
  | nil => rfl
  | cons e es ih =>
    simp only [List.cons_append, run]
    cases step σ e with
    | none => rfl
    | some σ' => exact ih σ'

theorem run_append_some {σ σ₁ σ₂ : Env} {π₁ π₂ : List Ev}
    (h₁ : run σ π₁ = some σ₁) (h₂ : run σ₁ π₂ = some σ₂) : run σ (π₁ ++ π₂) = some σ₂ := by
  rw [run_append, h₁]; exact h₂

/-! ### checker state -/

def names (s : St) : List Var := s.scopes.flatten.map (·.1)

theorem declOff_isSome (s : St) (x : Var) : (s.declOff x).isSome ↔ x ∈ names s := by
  unfold St.declOff names
  generalize s.scopes.flatten = l
  induction l with
  | nil => simp
  | cons a l ih =>
    by_cases h : a.1 = x
    · simp [List.find?, h]
    · have : (a.1 == x) = false := by simpa using h
      simp only [List.find?, this, List.map_cons, List.mem_cons]
      rw [ih]
      constructor
      · intro hm; exact Or.inr hm
      · intro hm; rcases hm with hm | hm
        · exact absurd hm.symm h
        · exact hm

theorem declOff_none (s : St) (x : Var) : s.declOff x = none ↔ x ∉ names s := by
  rw [← declOff_isSome]; cases s.declOff x <;> simp

/-- a function on states only adds errors -/
def ErrMono (f : St → St) : Prop := ∀ s, ∃ l, (f s).errs = l ++ s.errs

theorem errs_nil_of_mono {f : St → St} (h : ErrMono f) {s : St} (e : (f s).errs = []) : s.errs = [] := by
  obtain ⟨l, hl⟩ := h s
  rw [e] at hl
  have := congrArg List.length hl
  simp at this
  exact List.eq_nil_of_length_eq_zero (by omega)

theorem useCheck_errs (s : St) (x : Var) : ∃ l, (s.useCheck x).errs = l ++ s.errs := by
  unfold St.useCheck St.report
  split
  · exact ⟨[_], rfl⟩
  · split
    · exact ⟨[_], rfl⟩
    · exact ⟨[], rfl⟩

theorem maybeAdd_errs (s : St) (x : Var) (k : Kind) (o : Nat) : (s.maybeAdd x k o).errs = s.errs := by
  unfold St.maybeAdd
  split
  · rfl
  · split
    · rfl
    · simp only []
      split <;> rfl

theorem lossFold_errs (vs : List (Var × Nat)) (s : St) :
    ∃ l, (vs.foldl (fun s v => if s.inv.definitely v.1 then s else s.report .loss) s).errs = l ++ s.errs := by
  induction vs generalizing s with
  | nil => exact ⟨[], rfl⟩
  | cons v vs ih =>
    simp only [List.foldl]
    split
    · exact ih s
    · obtain ⟨l, hl⟩ := ih (s.report .loss)
      refine ⟨l ++ [.loss], ?_⟩
      rw [hl]; simp [St.report]

theorem lossCheck_errs (s : St) (vs : List (Var × Nat)) : ∃ l, (s.lossCheck vs).errs = l ++ s.errs := by
  unfold St.lossCheck
  split
  · exact ⟨[], rfl⟩
  · exact lossFold_errs vs s

end Verif.Proofs.Lin
