import Verif.Proofs.Lin.Sound
import Verif.Model.Lin.Clean
/-
C03: facts about the merges of the checker (`mergeResourceInfos` seen from one branch), the
decomposition of "no error reported" over the compound statements, and two path-independent
facts about `check`: recorded invalidations are never overwritten while no error is reported, and
invalidations are only recorded for variables in scope.
-/
namespace Verif.Proofs.Lin
open Verif.Model.Lin Verif.Spec.Paths

theorem asPotential_not_definite (k : Kind) : k.asPotential.isDefinite = false := by
  cases k <;> rfl

/-! ### `mergeResourceInfos` seen from a branch that falls through -/

theorem mergeInfos_then_none {t e : Option Kind} {tri eri : RI}
    (hdr : tri.definitelyReturned = false) (h : mergeInfos t tri (some (e, eri)) = none) : t = none := by
  cases t with
  | none => rfl
  | some tk =>
    cases e with
    | none => simp [mergeInfos, hdr] at h; split at h <;> simp at h
    | some ek =>
      simp only [mergeInfos, hdr, Bool.false_and, Bool.false_eq_true, if_false] at h
      split at h
      · simp at h
      · split at h <;> simp at h

theorem mergeInfos_else_none {t e : Option Kind} {tri eri : RI}
    (hdr : eri.definitelyReturned = false) (h : mergeInfos t tri (some (e, eri)) = none) : e = none := by
  cases e with
  | none => rfl
  | some ek =>
    cases t with
    | none => simp [mergeInfos, hdr] at h; split at h <;> simp at h
    | some tk =>
      simp only [mergeInfos, hdr, Bool.and_false, Bool.false_eq_true, if_false] at h
      split at h
      · simp at h
      · split at h <;> simp at h

theorem mergeInfos_then_def {t e : Option Kind} {tri eri : RI} {k : Kind}
    (hdr : tri.definitelyReturned = false) (hdh : tri.definitelyHalted = false)
    (h : mergeInfos t tri (some (e, eri)) = some k) (hk : k.isDefinite = true) :
    ∃ tk, t = some tk ∧ tk.isDefinite = true := by
  cases t with
  | none =>
    cases e with
    | none => simp [mergeInfos] at h
    | some ek =>
      simp only [mergeInfos, hdh] at h
      split at h
      · simp at h
      · simp only [Bool.not_false, if_true, Option.some.injEq] at h
        rw [← h, asPotential_not_definite] at hk; exact absurd hk (by simp)
  | some tk =>
    refine ⟨tk, rfl, ?_⟩
    cases e with
    | none =>
      simp only [mergeInfos, hdr, Bool.false_eq_true, if_false] at h
      split at h
      · simp only [Option.some.injEq] at h
        rw [← h, asPotential_not_definite] at hk; exact absurd hk (by simp)
      · simp only [Option.some.injEq] at h; rw [h]; exact hk
    | some ek =>
      simp only [mergeInfos, hdr, Bool.false_and, Bool.false_eq_true, if_false] at h
      split at h
      · simp only [Option.some.injEq] at h; rw [h]; exact hk
      · split at h
        · simp only [Option.some.injEq] at h
          rw [← h, asPotential_not_definite] at hk; exact absurd hk (by simp)
        · simp only [Option.some.injEq] at h; rw [h]; exact hk

theorem mergeInfos_else_def {t e : Option Kind} {tri eri : RI} {k : Kind}
    (hdr : eri.definitelyReturned = false) (hdh : eri.definitelyHalted = false)
    (h : mergeInfos t tri (some (e, eri)) = some k) (hk : k.isDefinite = true) :
    ∃ ek, e = some ek ∧ ek.isDefinite = true := by
  cases e with
  | none =>
    cases t with
    | none => simp [mergeInfos] at h
    | some tk =>
      simp only [mergeInfos, hdh] at h
      split at h
      · simp at h
      · simp only [Bool.not_false, if_true, Option.some.injEq] at h
        rw [← h, asPotential_not_definite] at hk; exact absurd hk (by simp)
  | some ek =>
    refine ⟨ek, rfl, ?_⟩
    cases t with
    | none =>
      simp only [mergeInfos, hdr, Bool.false_eq_true, if_false] at h
      split at h
      · simp only [Option.some.injEq] at h
        rw [← h, asPotential_not_definite] at hk; exact absurd hk (by simp)
      · simp only [Option.some.injEq] at h; rw [h]; exact hk
    | some tk =>
      simp only [mergeInfos, hdr, Bool.and_false, Bool.false_eq_true, if_false] at h
      split at h
      · simp only [Option.some.injEq] at h; rw [h]; exact hk
      · split at h
        · simp only [Option.some.injEq] at h
          rw [← h, asPotential_not_definite] at hk; exact absurd hk (by simp)
        · simp only [Option.some.injEq] at h
          -- the merged invalidation is the then branch's; it is definite only if both are
          rename_i hnp
          simp only [Bool.or_eq_true, Bool.not_eq_true', not_or, Bool.not_eq_false] at hnp
          exact hnp.1

theorem mergeInfos_dom {t e : Option Kind} {tri eri : RI}
    (h : mergeInfos t tri (some (e, eri)) ≠ none) : t ≠ none ∨ e ≠ none := by
  cases t with
  | some tk => exact Or.inl (by simp)
  | none =>
    cases e with
    | some ek => exact Or.inr (by simp)
    | none => simp [mergeInfos] at h

theorem mergeInfos_loop {t : Option Kind} {tri : RI} {k : Kind}
    (h : mergeInfos t tri none = some k) : k.isDefinite = false ∧ t ≠ none := by
  cases t with
  | none => simp [mergeInfos] at h
  | some tk =>
    simp only [mergeInfos] at h
    split at h
    · simp at h
    · simp only [Option.some.injEq] at h
      rw [← h]; exact ⟨asPotential_not_definite tk, by simp⟩

/-! ### "no error" over the compound statements -/

theorem ite_errs {s : St} {t e : Stmt} (h : (check s (.ite t e)).errs = []) :
    (St.leave s (check ((s.branch s.errs).enter []) t)).errs = [] ∧
    (St.leave s (check ((s.branch (St.leave s (check ((s.branch s.errs).enter []) t)).errs).enter []) e)).errs = [] := by
  have h2 : (St.leave s (check ((s.branch (St.leave s (check ((s.branch s.errs).enter []) t)).errs).enter []) e)).errs = [] := by
    simpa only [check, St.merged] using h
  refine ⟨?_, h2⟩
  have h3 := errs_nil_of_mono (f := St.leave s) (leave_errs s) h2
  have h4 : ((s.branch (St.leave s (check ((s.branch s.errs).enter []) t)).errs).enter []).errs = [] :=
    check_errs_nil h3
  exact h4

theorem while_errs {s : St} {b : Stmt} (h : (check s (.while b)).errs = []) :
    (St.leave s (check s.loopEntry b)).errs = [] := by
  have h2 : (St.leave s (check ({ s.branch s.errs with loops := s.loops + 1 }.enter []) b)).errs = [] := by
    simpa only [check, St.merged] using h
  exact h2

theorem iflet_errs {s : St} {y x : Var} {yo xo : Nat} {t e : Stmt}
    (h : (check s (.iflet y yo x xo t e)).errs = []) :
    let s' := s.invalidate x .moveDefinite xo
    let ts0 := (s'.branch s'.errs).enter [(y, yo)]
    let ts := St.leave s' (St.leave ts0 (check (ts0.enter []) t))
    s'.errs = [] ∧ ts.errs = [] ∧ (St.leave s' (check ((s'.branch ts.errs).enter []) e)).errs = [] := by
  intro s' ts0 ts
  have h2 : (St.leave s' (check ((s'.branch ts.errs).enter []) e)).errs = [] := by
    simpa only [check, St.merged] using h
  have h3 : ts.errs = [] := by
    have h3' : ((s'.branch ts.errs).enter []).errs = [] :=
      check_errs_nil (errs_nil_of_mono (f := St.leave s') (leave_errs s') h2)
    exact h3'
  refine ⟨?_, h3, h2⟩
  have h4 := errs_nil_of_mono (f := St.leave s') (leave_errs s') h3
  have h5 := errs_nil_of_mono (f := St.leave ts0) (leave_errs ts0) h4
  have h6 : (ts0.enter []).errs = [] := check_errs_nil h5
  exact h6

/-! ### invalidations are never overwritten while no error is reported -/

theorem leave_inv (outer s1 : St) : (St.leave outer s1).inv = s1.inv ∧ (St.leave outer s1).locals = s1.locals := by
  unfold St.leave St.lossCheck
  split
  · exact ⟨rfl, rfl⟩
  · exact lossFold_same _ s1

theorem invalidate_get_mono {s : St} {y : Var} {k : Kind} {o : Nat} (he : (s.invalidate y k o).errs = [])
    {x : Var} {kx : Kind} (hx : Invs.get s.inv x = some kx) : Invs.get (s.invalidate y k o).inv x = some kx := by
  unfold St.invalidate at he ⊢
  rw [maybeAdd_errs] at he
  obtain ⟨_, hg, hid⟩ := useCheck_ok he
  rw [hid]
  unfold St.maybeAdd
  split
  · exact hx
  · split
    · exact hx
    · simp only []
      split
      · exact hx
      · show Invs.get ((y, _) :: s.inv) x = some kx
        rw [Invs.get_cons]
        have : ¬ y = x := fun e => by rw [e, hx] at hg; exact absurd hg (by simp)
        simp only [this, if_false]; exact hx

theorem useCheck_inv (s : St) (x : Var) : (s.useCheck x).inv = s.inv := by
  unfold St.useCheck St.report
  split
  · rfl
  · split <;> rfl

theorem declare_inv (s : St) (x : Var) (o : Nat) : (s.declare x o).inv = s.inv := by
  unfold St.declare; split <;> rfl

theorem lossCheck_inv (s : St) (vs : List (Var × Nat)) : (s.lossCheck vs).inv = s.inv := by
  unfold St.lossCheck
  split
  · rfl
  · exact (lossFold_same vs s).1

theorem checkAtom_get_mono (a : Atom) {s : St} (he : (checkAtom s a).errs = [])
    {x : Var} {kx : Kind} (hx : Invs.get s.inv x = some kx) : Invs.get (checkAtom s a).inv x = some kx := by
  cases a with
  | letR z off i =>
    cases i with
    | create => simp only [checkAtom]; rw [declare_inv]; exact hx
    | call => simp only [checkAtom]; rw [declare_inv]; exact hx
    | move y yo =>
      have he1 : (s.invalidate y .moveDefinite yo).errs = [] := by
        have : (checkAtom s (.letR z off (.move y yo))).errs = (s.invalidate y .moveDefinite yo).errs :=
          (declare_same _ z off).2
        rw [← this]; exact he
      simp only [checkAtom]; rw [declare_inv]; exact invalidate_get_mono he1 hx
  | destroy y o => exact invalidate_get_mono he hx
  | eat y o => exact invalidate_get_mono he hx
  | use y => simp only [checkAtom, useCheck_inv]; exact hx
  | read y => simp only [checkAtom, useCheck_inv]; exact hx
  | nomove y => simp only [checkAtom, St.report, useCheck_inv]; exact hx
  | swap y z => simp only [checkAtom, useCheck_inv]; exact hx
  | skip => exact hx
  | brk o => simp only [checkAtom]; split <;> exact hx
  | cont o => simp only [checkAtom]; split <;> exact hx
  | ret => simp only [checkAtom, lossCheck_inv]; exact hx
  | panic => exact hx

theorem merged_get_outer (s : St) (ti : Invs) (tri : RI) (e : Option (Invs × RI)) {x : Var} {k : Kind}
    (hx : Invs.get s.inv x = some k) : Invs.get (s.merged (mergeInvs s.inv ti tri e)).inv x = some k := by
  rw [merged_get, hx]

theorem check_get_mono (t : Stmt) : ∀ (s : St), (check s t).errs = [] → ∀ (x : Var) (kx : Kind),
    Invs.get s.inv x = some kx → Invs.get (check s t).inv x = some kx := by
  induction t with
  | nop => intro s _ x kx hx; exact hx
  | seq a b iha ihb =>
    intro s he x kx hx
    simp only [check] at he ⊢
    split
    · rename_i hc; simp [hc, St.report] at he
    · rename_i hc
      simp only [hc, if_false] at he
      exact ihb _ he x kx (iha s (check_errs_nil he) x kx hx)
  | atom a => intro s he x kx hx; exact checkAtom_get_mono a he hx
  | ite t e _ _ =>
    intro s _ x kx hx
    simp only [check]
    exact merged_get_outer { s with ri := _, errs := _ } _ _ _ hx
  | iflet y yo z zo t e _ _ =>
    intro s he x kx hx
    obtain ⟨h1, _, _⟩ := iflet_errs he
    have := invalidate_get_mono h1 hx
    simp only [check]
    exact merged_get_outer { (s.invalidate z .moveDefinite zo) with ri := _, errs := _ } _ _ _ this
  | «while» b _ =>
    intro s _ x kx hx
    simp only [check]
    exact merged_get_outer { s with ri := _, errs := _ } _ _ _ hx

/-! ### invalidations are recorded for variables in scope only -/

theorem invalidate_get_dom (s : St) (y : Var) (k : Kind) (o : Nat) (x : Var)
    (h : Invs.get (s.invalidate y k o).inv x ≠ none) : Invs.get s.inv x ≠ none ∨ x ∈ names s := by
  unfold St.invalidate St.maybeAdd at h
  split at h
  · rw [useCheck_inv] at h; exact Or.inl h
  · split at h
    · rw [useCheck_inv] at h; exact Or.inl h
    · rename_i d hd
      simp only [] at h
      split at h
      · rw [useCheck_inv] at h; exact Or.inl h
      · have h' : Invs.get ((y, _) :: (s.useCheck y).inv) x ≠ none := h
        rw [Invs.get_cons, useCheck_inv] at h'
        by_cases hyx : y = x
        · subst hyx
          right
          have h1 : ((s.useCheck y).declOff y).isSome := by simp [hd]
          have h2 := (declOff_isSome _ _).1 h1
          simpa [names, (useCheck_frame s y).1] using h2
        · simp only [hyx, if_false] at h'; exact Or.inl h'

theorem checkAtom_get_dom (a : Atom) (s : St) (x : Var)
    (h : Invs.get (checkAtom s a).inv x ≠ none) : Invs.get s.inv x ≠ none ∨ x ∈ names s := by
  cases a with
  | letR z off i =>
    cases i with
    | create => simp only [checkAtom, declare_inv] at h; exact Or.inl h
    | call => simp only [checkAtom, declare_inv] at h; exact Or.inl h
    | move y yo => simp only [checkAtom, declare_inv] at h; exact invalidate_get_dom s y _ yo x h
  | destroy y o => exact invalidate_get_dom s y _ o x h
  | eat y o => exact invalidate_get_dom s y _ o x h
  | use y => simp only [checkAtom, useCheck_inv] at h; exact Or.inl h
  | read y => simp only [checkAtom, useCheck_inv] at h; exact Or.inl h
  | nomove y => simp only [checkAtom, St.report, useCheck_inv] at h; exact Or.inl h
  | swap y z => simp only [checkAtom, useCheck_inv] at h; exact Or.inl h
  | skip => exact Or.inl h
  | brk o => simp only [checkAtom] at h; split at h <;> exact Or.inl h
  | cont o => simp only [checkAtom] at h; split at h <;> exact Or.inl h
  | ret => simp only [checkAtom, lossCheck_inv] at h; exact Or.inl h
  | panic => exact Or.inl h

theorem merged_get_dom (s : St) (ti : Invs) (tri : RI) (ei : Invs) (eri : RI) (x : Var)
    (h : Invs.get (s.merged (mergeInvs s.inv ti tri (some (ei, eri)))).inv x ≠ none) :
    Invs.get s.inv x ≠ none ∨ Invs.get ti x ≠ none ∨ Invs.get ei x ≠ none := by
  rw [merged_get] at h
  cases hs : Invs.get s.inv x with
  | some k => exact Or.inl (by simp)
  | none =>
    rw [hs] at h
    exact Or.inr (mergeInfos_dom h)

theorem merged_get_dom_loop (s : St) (ti : Invs) (tri : RI) (x : Var)
    (h : Invs.get (s.merged (mergeInvs s.inv ti tri none)).inv x ≠ none) :
    Invs.get s.inv x ≠ none ∨ Invs.get ti x ≠ none := by
  rw [merged_get] at h
  cases hs : Invs.get s.inv x with
  | some k => exact Or.inl (by simp)
  | none =>
    rw [hs] at h
    right
    cases hm : mergeInfos (Invs.get ti x) tri none with
    | none => simp [hm] at h
    | some k => exact (mergeInfos_loop hm).2

/-- the names in scope after a statement: those before and the declared ones -/
theorem names_check (t : Stmt) (s : St) (top : List (Var × Nat)) (rest : List (List (Var × Nat)))
    (hs : s.scopes = top :: rest) : ∀ x ∈ names (check s t), x ∈ names s ∨ x ∈ t.declNames := by
  obtain ⟨l, hsc, hl, _⟩ := check_frame t s top rest hs
  intro x hx
  simp only [names, hsc, hs, List.flatten_cons, List.map_append, List.mem_append] at hx ⊢
  rcases hx with (hx | hx) | hx
  · obtain ⟨p, hp, rfl⟩ := List.mem_map.1 hx
    exact Or.inr (declared_sub t _ (hl p hp))
  · exact Or.inl (Or.inl hx)
  · exact Or.inl (Or.inr hx)

theorem check_get_dom (t : Stmt) : ∀ (s : St) (top : List (Var × Nat)) (rest : List (List (Var × Nat))),
    s.scopes = top :: rest → ∀ x, Invs.get (check s t).inv x ≠ none →
    Invs.get s.inv x ≠ none ∨ x ∈ names s ∨ x ∈ t.declNames := by
  induction t with
  | nop => intro s _ _ _ x h; exact Or.inl h
  | seq a b iha ihb =>
    intro s top rest hs x h
    simp only [check] at h
    simp only [Stmt.declNames, List.mem_append]
    split at h
    · rcases iha s top rest hs x h with h | h | h
      · exact Or.inl h
      · exact Or.inr (Or.inl h)
      · exact Or.inr (Or.inr (Or.inl h))
    · obtain ⟨la, hsc, _, _⟩ := check_frame a s top rest hs
      rcases ihb (check s a) (la ++ top) rest hsc x h with h | h | h
      · rcases iha s top rest hs x h with h | h | h
        · exact Or.inl h
        · exact Or.inr (Or.inl h)
        · exact Or.inr (Or.inr (Or.inl h))
      · rcases names_check a s top rest hs x h with h | h
        · exact Or.inr (Or.inl h)
        · exact Or.inr (Or.inr (Or.inl h))
      · exact Or.inr (Or.inr (Or.inr h))
  | atom a =>
    intro s _ _ _ x h
    rcases checkAtom_get_dom a s x h with h | h
    · exact Or.inl h
    · exact Or.inr (Or.inl h)
  | ite t e iht ihe =>
    intro s top rest hs x h
    simp only [check] at h
    simp only [Stmt.declNames, List.mem_append]
    rcases merged_get_dom { s with ri := _, errs := _ } _ _ _ _ x h with h | h | h
    · exact Or.inl h
    · rw [(leave_inv _ _).1] at h
      rcases iht _ [] s.scopes rfl x h with h | h | h
      · exact Or.inl h
      · exact Or.inr (Or.inl (by simpa [names, St.enter, St.branch] using h))
      · exact Or.inr (Or.inr (Or.inl h))
    · rw [(leave_inv _ _).1] at h
      rcases ihe _ [] s.scopes rfl x h with h | h | h
      · exact Or.inl h
      · exact Or.inr (Or.inl (by simpa [names, St.enter, St.branch] using h))
      · exact Or.inr (Or.inr (Or.inr h))
  | iflet y yo z zo t e iht ihe =>
    intro s top rest hs x h
    simp only [check] at h
    simp only [Stmt.declNames, List.mem_cons, List.mem_append]
    have hn : names (s.invalidate z .moveDefinite zo) = names s := by
      simp [names, (invalidate_frame s z .moveDefinite zo).1]
    have back : Invs.get (s.invalidate z .moveDefinite zo).inv x ≠ none → Invs.get s.inv x ≠ none ∨ x ∈ names s :=
      invalidate_get_dom s z _ zo x
    rcases merged_get_dom { (s.invalidate z .moveDefinite zo) with ri := _, errs := _ } _ _ _ _ x h with h | h | h
    · rcases back h with h | h
      · exact Or.inl h
      · exact Or.inr (Or.inl h)
    · rw [(leave_inv _ _).1, (leave_inv _ _).1] at h
      rcases iht _ [] _ rfl x h with h | h | h
      · rcases back h with h | h
        · exact Or.inl h
        · exact Or.inr (Or.inl h)
      · have h' : x = y ∨ x ∈ names (s.invalidate z .moveDefinite zo) := by
          simpa [names, St.enter, St.branch] using h
        rcases h' with h' | h'
        · exact Or.inr (Or.inr (Or.inl h'))
        · rw [hn] at h'; exact Or.inr (Or.inl h')
      · exact Or.inr (Or.inr (Or.inr (Or.inl h)))
    · rw [(leave_inv _ _).1] at h
      rcases ihe _ [] _ rfl x h with h | h | h
      · rcases back h with h | h
        · exact Or.inl h
        · exact Or.inr (Or.inl h)
      · have h' : x ∈ names (s.invalidate z .moveDefinite zo) := by
          simpa [names, St.enter, St.branch] using h
        rw [hn] at h'; exact Or.inr (Or.inl h')
      · exact Or.inr (Or.inr (Or.inr (Or.inr h)))
  | «while» b ihb =>
    intro s top rest hs x h
    simp only [check] at h
    simp only [Stmt.declNames]
    rcases merged_get_dom_loop { s with ri := _, errs := _ } _ _ x h with h | h
    · exact Or.inl h
    · rw [(leave_inv _ _).1] at h
      rcases ihb _ [] s.scopes rfl x h with h | h | h
      · exact Or.inl h
      · exact Or.inr (Or.inl (by simpa [names, St.enter, St.branch] using h))
      · exact Or.inr (Or.inr h)

/-! ### `DefinitelyReturned` / `DefinitelyHalted` imply `DefinitelyExited` -/

theorem wf_mergeBranches {ri t e : RI} (h : WfRI ri) (ht : WfRI t) (he : WfRI e) : WfRI (ri.mergeBranches t e) := by
  constructor
  · intro hd
    simp only [RI.mergeBranches, Bool.or_eq_true, Bool.and_eq_true] at hd ⊢
    rcases hd with hd | ⟨h1, h2⟩
    · exact Or.inl (h.dr hd)
    · exact Or.inr ⟨ht.dr h1, he.dr h2⟩
  · intro hd
    simp only [RI.mergeBranches, Bool.or_eq_true, Bool.and_eq_true] at hd ⊢
    rcases hd with hd | ⟨h1, h2⟩
    · exact Or.inl (h.dh hd)
    · exact Or.inr ⟨ht.dh h1, he.dh h2⟩

theorem useCheck_ri (s : St) (x : Var) : (s.useCheck x).ri = s.ri := by
  unfold St.useCheck St.report
  split
  · rfl
  · split <;> rfl

theorem maybeAdd_ri (s : St) (x : Var) (k : Kind) (o : Nat) : (s.maybeAdd x k o).ri = s.ri := by
  unfold St.maybeAdd
  split
  · rfl
  · split
    · rfl
    · simp only []
      split <;> rfl

theorem invalidate_ri (s : St) (x : Var) (k : Kind) (o : Nat) : (s.invalidate x k o).ri = s.ri := by
  unfold St.invalidate; rw [maybeAdd_ri, useCheck_ri]

theorem checkAtom_wf (a : Atom) (s : St) (h : WfRI s.ri) : WfRI (checkAtom s a).ri := by
  cases a with
  | letR z off i =>
    cases i with
    | create => simp only [checkAtom]; rw [(declare_same _ _ _).1]; exact h
    | call => simp only [checkAtom]; rw [(declare_same _ _ _).1]; exact h
    | move y yo => simp only [checkAtom]; rw [(declare_same _ _ _).1, invalidate_ri]; exact h
  | destroy y o => simp only [checkAtom, invalidate_ri]; exact h
  | eat y o => simp only [checkAtom, invalidate_ri]; exact h
  | use y => simp only [checkAtom, useCheck_ri]; exact h
  | read y => simp only [checkAtom, useCheck_ri]; exact h
  | nomove y => simp only [checkAtom, St.report, useCheck_ri]; exact h
  | swap y z => simp only [checkAtom, useCheck_ri]; exact h
  | skip => exact h
  | brk o =>
    simp only [checkAtom]; split
    · exact h
    · exact ⟨fun _ => rfl, fun _ => rfl⟩
  | cont o =>
    simp only [checkAtom]; split
    · exact h
    · exact ⟨fun _ => rfl, fun _ => rfl⟩
  | ret => exact ⟨fun _ => rfl, fun _ => rfl⟩
  | panic => exact ⟨fun _ => rfl, fun _ => rfl⟩

theorem check_wf (t : Stmt) : ∀ s : St, WfRI s.ri → WfRI (check s t).ri := by
  induction t with
  | nop => intro s h; exact h
  | seq a b iha ihb =>
    intro s h
    simp only [check]
    split
    · exact iha s h
    · exact ihb _ (iha s h)
  | atom a => intro s h; exact checkAtom_wf a s h
  | ite t e iht ihe =>
    intro s h
    simp only [check, St.merged]
    refine wf_mergeBranches h ?_ ?_
    · rw [(leave_frame _ _).2.2]; exact iht _ h
    · rw [(leave_frame _ _).2.2]; exact ihe _ h
  | iflet y yo z zo t e iht ihe =>
    intro s h
    have h' : WfRI (s.invalidate z .moveDefinite zo).ri := by rw [invalidate_ri]; exact h
    simp only [check, St.merged]
    refine wf_mergeBranches h' ?_ ?_
    · rw [(leave_frame _ _).2.2, (leave_frame _ _).2.2]; exact iht _ h'
    · rw [(leave_frame _ _).2.2]; exact ihe _ h'
  | «while» b _ =>
    intro s h
    simp only [check, St.merged, RI.mergePotentiallyUnevaluated]
    exact ⟨h.dr, h.dh⟩

end Verif.Proofs.Lin
