import Verif.Proofs.Lin.Merge
/-
C03: soundness of the port of the checker's resource tracking with respect to the path semantics,
for conditionals, optional binding and loops (without `break` / `continue` inside loops), under the
hypothesis `loopsCleanAt` for the loops.

The induction is over statements; the invariant `Inv s σ D` relates the checker state to the
environment of *every* path prefix that falls through to the current program point:
  no invalidation recorded ⇒ valid on the path, definite invalidation ⇒ gone on the path
(a potential invalidation allows both), `DefinitelyExited` ⇒ no path falls through.  At a merge
(`Resources.MergeBranches`, characterised by `merged_get`) the invariant of the taken branch gives
the invariant of the merged state (`mergeInfos_then_none`, `mergeInfos_then_def`, …).  For a loop the
invariant at the loop head is re-established after each iteration by `loopsCleanAt`.
-/
namespace Verif.Proofs.Lin
open Verif.Model.Lin Verif.Spec.Paths

/-! ### environments -/

theorem Env.remove_append (σ : Env) (a b : List Var) : σ.remove (a ++ b) = (σ.remove b).remove a := by
  simp only [Env.remove, List.filter_filter]
  congr 1
  funext p
  by_cases ha : p.1 ∈ a <;> by_cases hb : p.1 ∈ b <;> simp [ha, hb]

theorem run_scopeEnd {σ : Env} {xs : List Var} (h : xs.all (fun x => σ.get x != some .valid) = true) :
    run σ [Ev.scopeEnd xs] = some (σ.remove xs) := by
  simp [run, step, h]

theorem run_scopeEnd_append {σ : Env} {a b : List Var}
    (hb : b.all (fun x => σ.get x != some .valid) = true)
    (ha : a.all (fun x => (σ.remove b).get x != some .valid) = true) :
    run σ [Ev.scopeEnd (a ++ b)] = some ((σ.remove b).remove a) := by
  have hall : (a ++ b).all (fun x => σ.get x != some .valid) = true := by
    simp only [List.all_eq_true, List.mem_append, bne_iff_ne] at ha hb ⊢
    intro x hx
    by_cases hxb : x ∈ b
    · exact hb x hxb
    · rcases hx with hx | hx
      · have := ha x hx
        rwa [Env.get_remove_other _ _ _ hxb] at this
      · exact absurd hx hxb
  rw [run_scopeEnd hall, Env.remove_append]

theorem run_append_inv {σ σ' : Env} {π₁ π₂ : List Ev} (h : run σ (π₁ ++ π₂) = some σ') :
    ∃ σ₁, run σ π₁ = some σ₁ ∧ run σ₁ π₂ = some σ' := by
  rw [run_append] at h
  cases h1 : run σ π₁ with
  | none => simp [h1] at h
  | some σ₁ => exact ⟨σ₁, rfl, by simpa [h1] using h⟩

/-! ### the invariant under state changes that keep the resources -/

theorem Inv.transfer {s s' : St} {σ : Env} {D : List Var} (h : Inv s σ D) (hinv : s'.inv = s.inv)
    (hri : s'.ri = s.ri) (hn : names s' = names s) (hloc : ∀ x ∈ s'.locals, Invs.get s'.inv x ≠ none) :
    Inv s' σ D :=
  { valid := fun x hx hg => h.valid x (hn ▸ hx) (hinv ▸ hg)
    gone := fun x hx hg => h.gone x (hn ▸ hx) (hinv ▸ hg)
    present := fun x hx => h.present x (hn ▸ hx)
    inScope := fun x hx => hn ▸ h.inScope x hx
    invD := fun x hx => h.invD x (hinv ▸ hx)
    loc := hloc
    namesD := fun x hx => h.namesD x (hn ▸ hx)
    wf := hri ▸ h.wf }

theorem names_enter_nil (s : St) : names (s.enter []) = names s := by
  simp [names, St.enter]

theorem Inv.branchEnter {s : St} {σ : Env} {D : List Var} (h : Inv s σ D) (errs : List Err) :
    Inv ((s.branch errs).enter []) σ D :=
  h.transfer rfl rfl (by simp [names, St.enter, St.branch]) (by intro x hx; simp [St.branch, St.enter] at hx)

theorem Inv.loopEntry {s : St} {σ : Env} {D : List Var} (h : Inv s σ D) : Inv s.loopEntry σ D :=
  h.transfer rfl rfl (by simp [names, St.enter, St.branch, St.loopEntry])
    (by intro x hx; simp [St.branch, St.enter, St.loopEntry] at hx)

theorem Inv.enterNil {s : St} {σ : Env} {D : List Var} (h : Inv s σ D) : Inv (s.enter []) σ D :=
  h.transfer rfl rfl (names_enter_nil s) h.loc

/-- entering the scope of an optional binding: the bound variable is declared -/
theorem inv_enter_binding {s : St} {σ : Env} {D : List Var} {y : Var} {yo : Nat} (errs : List Err)
    (hI : Inv s σ D) (hy : y ∉ D) :
    σ.get y = none ∧ Inv ((s.branch errs).enter [(y, yo)]) (σ.set y .valid) (y :: D) := by
  have h0 : Inv ((s.branch errs).enter []) σ D := hI.branchEnter errs
  obtain ⟨h1, h2⟩ := inv_declare (off := yo) h0 (top := []) (rest := s.scopes) rfl hy
  exact ⟨h1, h2⟩

/-! ### leaving a scope -/

theorem leave_post {so c : St} {σ1 : Env} {D' : List Var} {o : Out} {dl : List Var} {l : List (Var × Nat)}
    (hsc : c.scopes = l :: so.scopes) (hld : ∀ p ∈ l, p.1 ∈ dl) (hout : ∀ x ∈ names so, x ∉ dl)
    (he : (St.leave so c).errs = []) (hP : Post o c σ1 D') (ho : o ≠ .halt) :
    dl.all (fun x => σ1.get x != some .valid) = true ∧ Post o (St.leave so c) (σ1.remove dl) D' := by
  have hnames : names c = l.map (·.1) ++ names so := by simp [names, hsc]
  unfold St.leave at he ⊢
  obtain ⟨hid, hor⟩ := lossCheck_ok he
  rw [hid]
  cases o with
  | brk => exact absurd hP id
  | cont => exact absurd hP id
  | halt => exact absurd rfl ho
  | ret =>
    refine ⟨?_, ?_⟩
    · simp only [List.all_eq_true, bne_iff_ne]; intro x _; exact hP x
    · intro x hv
      by_cases hx : x ∈ dl
      · rw [Env.get_remove_mem _ _ _ hx] at hv; exact absurd hv (by simp)
      · rw [Env.get_remove_other _ _ _ hx] at hv; exact hP x hv
  | fall =>
    obtain ⟨hde1, hI1⟩ := hP
    have hdef : ∀ v ∈ c.scopes.headD [], c.inv.definitely v.1 = true := by
      rcases hor with ⟨h, _⟩ | h
      · rw [hde1] at h; exact absurd h (by simp)
      · exact h
    have hall : dl.all (fun x => σ1.get x != some .valid) = true := by
      simp only [List.all_eq_true, bne_iff_ne]
      intro x hx hv
      have hxc : x ∈ names c := hI1.inScope x (by rw [hv]; simp)
      rw [hnames] at hxc
      rcases List.mem_append.1 hxc with hxl | hxs
      · obtain ⟨p, hp', hpx⟩ := List.mem_map.1 hxl
        have hxc' : x ∈ names c := by rw [hnames]; exact List.mem_append.2 (Or.inl hxl)
        have := hI1.gone x hxc' (by rw [← hpx]; exact hdef p (by rw [hsc]; exact hp'))
        rw [hv] at this; exact absurd this (by simp)
      · exact hout x hxs hx
    refine ⟨hall, hde1, ?_⟩
    have hn : names { c with scopes := so.scopes } = names so := rfl
    have hin : ∀ x ∈ names so, x ∈ names c := fun x hx => by rw [hnames]; exact List.mem_append.2 (Or.inr hx)
    constructor
    · intro x hx hg
      rw [hn] at hx
      rw [Env.get_remove_other _ _ _ (hout x hx)]
      exact hI1.valid x (hin x hx) hg
    · intro x hx hg
      rw [hn] at hx
      rw [Env.get_remove_other _ _ _ (hout x hx)]
      exact hI1.gone x (hin x hx) hg
    · intro x hx
      rw [hn] at hx
      rw [Env.get_remove_other _ _ _ (hout x hx)]
      exact hI1.present x (hin x hx)
    · intro x hx
      rw [hn]
      by_cases hxd : x ∈ dl
      · rw [Env.get_remove_mem _ _ _ hxd] at hx; exact absurd rfl hx
      · rw [Env.get_remove_other _ _ _ hxd] at hx
        have hxc := hI1.inScope x hx
        rw [hnames] at hxc
        rcases List.mem_append.1 hxc with hxl | hxs
        · obtain ⟨p, hp', hpx⟩ := List.mem_map.1 hxl
          exact absurd (hpx ▸ hld p hp') hxd
        · exact hxs
    · exact hI1.invD
    · exact hI1.loc
    · intro x hx; rw [hn] at hx; exact hI1.namesD x (hin x hx)
    · exact hI1.wf

/-- a scoped block (`checkBlock`), given the result for its statements -/
theorem block_post {t : Stmt} {so s0 : St} {σ σ1 : Env} {D : List Var} {π : List Ev} {o : Out}
    (hs0 : s0.scopes = [] :: so.scopes) (he : (St.leave so (check s0 t)).errs = [])
    (hr : run σ π = some σ1) (hP : Post o (check s0 t) σ1 (t.declNames ++ D))
    (hnamesD : ∀ x ∈ names so, x ∈ D) (hfresh : ∀ x ∈ t.declNames, x ∉ D) :
    ∃ σ', run σ (blk [] t π o) = some σ' ∧ Post o (St.leave so (check s0 t)) σ' (t.declNames ++ D) := by
  by_cases ho : o = .halt
  · subst ho
    exact ⟨σ1, by simpa [blk, closeScope] using hr, trivial⟩
  · obtain ⟨l, hsc, hld, _⟩ := check_frame t s0 [] so.scopes hs0
    have hout : ∀ x ∈ names so, x ∉ declared t :=
      fun x hx hd => hfresh x (declared_sub t x hd) (hnamesD x hx)
    obtain ⟨hall, hP'⟩ := leave_post (dl := declared t) (l := l) (by simpa using hsc)
      (fun p hp => hld p hp) hout he hP ho
    refine ⟨σ1.remove (declared t), ?_, hP'⟩
    have h2 := run_append_some hr (run_scopeEnd hall)
    cases o <;> first | exact absurd rfl ho | simpa [blk, closeScope] using h2

/-! ### the merges -/

theorem wf_dr_false {ri : RI} (h : WfRI ri) (hde : ri.definitelyExited = false) : ri.definitelyReturned = false := by
  cases hd : ri.definitelyReturned with
  | false => rfl
  | true => rw [h.dr hd] at hde; exact absurd hde (by simp)

theorem wf_dh_false {ri : RI} (h : WfRI ri) (hde : ri.definitelyExited = false) : ri.definitelyHalted = false := by
  cases hd : ri.definitelyHalted with
  | false => rfl
  | true => rw [h.dh hd] at hde; exact absurd hde (by simp)

theorem definitely_iff {m : Invs} {x : Var} : Invs.definitely m x = true ↔ ∃ k, Invs.get m x = some k ∧ k.isDefinite = true := by
  unfold Invs.definitely
  cases Invs.get m x with
  | none => simp
  | some k => simp

theorem merged_loc (s : St) (added : Invs) (hloc : ∀ x ∈ s.locals, Invs.get s.inv x ≠ none) :
    ∀ x ∈ (s.merged added).locals, Invs.get (s.merged added).inv x ≠ none := by
  intro x hx
  show Invs.get (added ++ s.inv) x ≠ none
  rw [Invs.get_append]
  have hx' : x ∈ added.map (·.1) ++ s.locals := hx
  cases hg : Invs.get added x with
  | some k => simp
  | none =>
    simp only []
    rcases List.mem_append.1 hx' with h | h
    · exact absurd h ((Invs.get_none_iff added x).1 hg)
    · exact hloc x h

/-- the invariant of the then branch's fall-through path carries over to the merged state -/
theorem inv_merged_then {s ts es : St} {σ' : Env} {Dt D' : List Var}
    (hIt : Inv ts σ' Dt) (hdet : ts.ri.definitelyExited = false) (hsc : ts.scopes = s.scopes)
    (hmono : ∀ x k, Invs.get s.inv x = some k → Invs.get ts.inv x = some k)
    (hDt : ∀ x ∈ Dt, x ∈ D') (hsD : ∀ x, Invs.get s.inv x ≠ none → x ∈ D')
    (hes : ∀ x, Invs.get es.inv x ≠ none → x ∈ D')
    (hloc : ∀ x ∈ s.locals, Invs.get s.inv x ≠ none) (errs : List Err) (ri' : RI) (hwf : WfRI ri') :
    Inv ({ s with ri := ri', errs := errs }.merged (mergeInvs s.inv ts.inv ts.ri (some (es.inv, es.ri)))) σ' D' := by
  have hn : names ts = names s := by simp [names, hsc]
  have hdr := wf_dr_false hIt.wf hdet
  have hdh := wf_dh_false hIt.wf hdet
  have hget := fun x => merged_get { s with ri := ri', errs := errs } ts.inv ts.ri (some (es.inv, es.ri)) x
  constructor
  · intro x hx hg
    rw [hget x] at hg
    have hx' : x ∈ names ts := by rw [hn]; exact hx
    cases hs : Invs.get s.inv x with
    | some k => simp [hs] at hg
    | none =>
      simp only [hs] at hg
      exact hIt.valid x hx' (mergeInfos_then_none hdr hg)
  · intro x hx hg
    obtain ⟨k, hk, hkd⟩ := definitely_iff.1 hg
    rw [hget x] at hk
    have hx' : x ∈ names ts := by rw [hn]; exact hx
    cases hs : Invs.get s.inv x with
    | some k' =>
      simp only [hs, Option.some.injEq] at hk
      exact hIt.gone x hx' (definitely_iff.2 ⟨k, by rw [hmono x k' hs, hk], hkd⟩)
    | none =>
      simp only [hs] at hk
      obtain ⟨tk, htk, htd⟩ := mergeInfos_then_def hdr hdh hk hkd
      exact hIt.gone x hx' (definitely_iff.2 ⟨tk, htk, htd⟩)
  · intro x hx; exact hIt.present x (by rw [hn]; exact hx)
  · intro x hx; have := hIt.inScope x hx; rw [hn] at this; exact this
  · intro x hx
    rcases merged_get_dom { s with ri := ri', errs := errs } ts.inv ts.ri es.inv es.ri x hx with h | h | h
    · exact hsD x h
    · exact hDt x (hIt.invD x h)
    · exact hes x h
  · exact merged_loc { s with ri := ri', errs := errs } _ hloc
  · intro x hx; exact hDt x (hIt.namesD x (by rw [hn]; exact hx))
  · exact hwf

/-- the same for the else branch -/
theorem inv_merged_else {s ts es : St} {σ' : Env} {De D' : List Var}
    (hIe : Inv es σ' De) (hdee : es.ri.definitelyExited = false) (hsc : es.scopes = s.scopes)
    (hmono : ∀ x k, Invs.get s.inv x = some k → Invs.get es.inv x = some k)
    (hDe : ∀ x ∈ De, x ∈ D') (hsD : ∀ x, Invs.get s.inv x ≠ none → x ∈ D')
    (hts : ∀ x, Invs.get ts.inv x ≠ none → x ∈ D')
    (hloc : ∀ x ∈ s.locals, Invs.get s.inv x ≠ none) (errs : List Err) (ri' : RI) (hwf : WfRI ri') :
    Inv ({ s with ri := ri', errs := errs }.merged (mergeInvs s.inv ts.inv ts.ri (some (es.inv, es.ri)))) σ' D' := by
  have hn : names es = names s := by simp [names, hsc]
  have hdr := wf_dr_false hIe.wf hdee
  have hdh := wf_dh_false hIe.wf hdee
  have hget := fun x => merged_get { s with ri := ri', errs := errs } ts.inv ts.ri (some (es.inv, es.ri)) x
  constructor
  · intro x hx hg
    rw [hget x] at hg
    have hx' : x ∈ names es := by rw [hn]; exact hx
    cases hs : Invs.get s.inv x with
    | some k => simp [hs] at hg
    | none =>
      simp only [hs] at hg
      exact hIe.valid x hx' (mergeInfos_else_none hdr hg)
  · intro x hx hg
    obtain ⟨k, hk, hkd⟩ := definitely_iff.1 hg
    rw [hget x] at hk
    have hx' : x ∈ names es := by rw [hn]; exact hx
    cases hs : Invs.get s.inv x with
    | some k' =>
      simp only [hs, Option.some.injEq] at hk
      exact hIe.gone x hx' (definitely_iff.2 ⟨k, by rw [hmono x k' hs, hk], hkd⟩)
    | none =>
      simp only [hs] at hk
      obtain ⟨ek, hek, hed⟩ := mergeInfos_else_def hdr hdh hk hkd
      exact hIe.gone x hx' (definitely_iff.2 ⟨ek, hek, hed⟩)
  · intro x hx; exact hIe.present x (by rw [hn]; exact hx)
  · intro x hx; have := hIe.inScope x hx; rw [hn] at this; exact this
  · intro x hx
    rcases merged_get_dom { s with ri := ri', errs := errs } ts.inv ts.ri es.inv es.ri x hx with h | h | h
    · exact hsD x h
    · exact hts x h
    · exact hDe x (hIe.invD x h)
  · exact merged_loc { s with ri := ri', errs := errs } _ hloc
  · intro x hx; exact hDe x (hIe.namesD x (by rw [hn]; exact hx))
  · exact hwf

/-- after a loop: the invariant at the loop head gives the invariant of the merged state -/
theorem inv_merged_loop {s : St} {σ' : Env} {D D' : List Var} (bi : Invs) (tri : RI)
    (hI : Inv s σ' D) (hD : ∀ x ∈ D, x ∈ D') (hbs : ∀ x, Invs.get bi x ≠ none → x ∈ D')
    (errs : List Err) (ri' : RI) (hwf : WfRI ri') :
    Inv ({ s with ri := ri', errs := errs }.merged (mergeInvs s.inv bi tri none)) σ' D' := by
  have hget := fun x => merged_get { s with ri := ri', errs := errs } bi tri none x
  constructor
  · intro x hx hg
    rw [hget x] at hg
    cases hs : Invs.get s.inv x with
    | some k => simp [hs] at hg
    | none => exact hI.valid x hx hs
  · intro x hx hg
    obtain ⟨k, hk, hkd⟩ := definitely_iff.1 hg
    rw [hget x] at hk
    cases hs : Invs.get s.inv x with
    | some k' =>
      simp only [hs, Option.some.injEq] at hk
      exact hI.gone x hx (definitely_iff.2 ⟨k, by rw [hs, hk], hkd⟩)
    | none =>
      simp only [hs] at hk
      have := (mergeInfos_loop hk).1
      rw [this] at hkd; exact absurd hkd (by simp)
  · exact hI.present
  · exact hI.inScope
  · intro x hx
    rcases merged_get_dom_loop { s with ri := ri', errs := errs } bi tri x hx with h | h
    · exact hD x (hI.invD x h)
    · exact hbs x h
  · exact merged_loc { s with ri := ri', errs := errs } _ hI.loc
  · intro x hx; exact hD x (hI.namesD x hx)
  · exact hwf

/-! ### paths of a loop -/

theorem while_paths {b : Stmt} {P : Env → Prop} {Q : Out → Env → Prop}
    (hdone : ∀ σ, P σ → Q .fall σ)
    (hiter : ∀ σ π₁ o₁, P σ → Path b π₁ o₁ → (o₁ = .fall ∨ o₁ = .cont) →
      ∃ σ1, run σ (blk [] b π₁ o₁) = some σ1 ∧ P σ1)
    (hbrk : ∀ σ π₁, P σ → Path b π₁ .brk → ∃ σ1, run σ (blk [] b π₁ .brk) = some σ1 ∧ Q .fall σ1)
    (hexit : ∀ σ π₁ o, P σ → Path b π₁ o → (o = .ret ∨ o = .halt) →
      ∃ σ1, run σ (blk [] b π₁ o) = some σ1 ∧ Q o σ1) :
    ∀ π o, Path (.while b) π o → ∀ σ, P σ → ∃ σ', run σ π = some σ' ∧ Q o σ' := by
  intro π o hp
  generalize hw : Stmt.while b = w at hp
  induction hp with
  | nop => cases hw
  | seqStop _ _ _ => cases hw
  | seqGo _ _ _ _ => cases hw
  | atom => cases hw
  | iteThen _ _ => cases hw
  | iteElse _ _ => cases hw
  | ifletThen _ _ => cases hw
  | ifletElse _ _ => cases hw
  | whileDone => intro σ hσ; exact ⟨σ, rfl, hdone σ hσ⟩
  | whileIter hb ho _ _ ih =>
    cases hw
    intro σ hσ
    obtain ⟨σ1, hr1, hσ1⟩ := hiter σ _ _ hσ hb ho
    obtain ⟨σ2, hr2, hq⟩ := ih rfl σ1 hσ1
    exact ⟨σ2, run_append_some hr1 hr2, hq⟩
  | whileBreak hb _ =>
    cases hw
    intro σ hσ
    exact hbrk σ _ hσ hb
  | whileExit hb ho _ =>
    cases hw
    intro σ hσ
    exact hexit σ _ _ hσ hb ho

/-! ### statements -/

theorem sound_stmt (t : Stmt) : ∀ (s : St) (σ : Env) (D : List Var) (π : List Ev) (o : Out)
    (top : List (Var × Nat)) (rest : List (List (Var × Nat))),
    ((s.loops = 0 ∧ t.hasLoop = false) ∨ t.hasJump = false) → loopsCleanAt s t = true →
    s.scopes = top :: rest → s.ri.definitelyExited = false →
    (check s t).errs = [] → Path t π o → Inv s σ D → (∀ x ∈ t.declNames, x ∉ D) → t.declNames.Nodup →
    ∃ σ', run σ π = some σ' ∧ Post o (check s t) σ' (t.declNames ++ D) := by
  induction t with
  | nop =>
    intro s σ D π o top rest _ _ hs hde he hp hI _ _
    cases hp
    exact ⟨σ, rfl, hde, hI⟩
  | seq a b iha ihb =>
    intro s σ D π o top rest hj hcl hs hde he hp hI hfresh hnd
    simp only [Stmt.declNames] at hfresh hnd
    have hnda := (List.nodup_append.1 hnd).1
    have hndb := (List.nodup_append.1 hnd).2.1
    have hdisj := (List.nodup_append.1 hnd).2.2
    simp only [loopsCleanAt, Bool.and_eq_true] at hcl
    have hja : (s.loops = 0 ∧ a.hasLoop = false) ∨ a.hasJump = false := by
      rcases hj with ⟨h1, h2⟩ | h2
      · simp only [Stmt.hasLoop, Bool.or_eq_false_iff] at h2; exact Or.inl ⟨h1, h2.1⟩
      · simp only [Stmt.hasJump, Bool.or_eq_false_iff] at h2; exact Or.inr h2.1
    simp only [check] at he
    by_cases hc : ((check s a).ri.definitelyExited && !b.isNop) = true
    · simp [hc, St.report] at he
    · simp only [hc, Bool.false_eq_true, if_false] at he
      have hea : (check s a).errs = [] := check_errs_nil he
      have hcheck : check s (.seq a b) = check (check s a) b := by simp only [check, hc, Bool.false_eq_true, if_false]
      cases hp with
      | seqStop hpa hne =>
        obtain ⟨σ', hr, hP⟩ := iha s σ D _ _ top rest hja hcl.1 hs hde hea hpa hI
          (fun x hx => hfresh x (List.mem_append.2 (Or.inl hx))) hnda
        exact ⟨σ', hr, hP.state_irrel hne⟩
      | seqGo hpa hpb =>
        obtain ⟨σ1, hr1, hde1, hI1⟩ := iha s σ D _ _ top rest hja hcl.1 hs hde hea hpa hI
          (fun x hx => hfresh x (List.mem_append.2 (Or.inl hx))) hnda
        obtain ⟨la, hsc, _, hlo⟩ := check_frame a s top rest hs
        have hjb : ((check s a).loops = 0 ∧ b.hasLoop = false) ∨ b.hasJump = false := by
          rcases hj with ⟨h1, h2⟩ | h2
          · simp only [Stmt.hasLoop, Bool.or_eq_false_iff] at h2; exact Or.inl ⟨hlo.trans h1, h2.2⟩
          · simp only [Stmt.hasJump, Bool.or_eq_false_iff] at h2; exact Or.inr h2.2
        obtain ⟨σ2, hr2, hP⟩ := ihb (check s a) σ1 (a.declNames ++ D) _ _ (la ++ top) rest hjb hcl.2 hsc
          hde1 he hpb hI1
          (fun x hx hm => by
            rcases List.mem_append.1 hm with hm | hm
            · exact hdisj x hm x hx rfl
            · exact hfresh x (List.mem_append.2 (Or.inr hx)) hm) hndb
        refine ⟨σ2, run_append_some hr1 hr2, ?_⟩
        rw [hcheck]
        refine hP.mono ?_
        intro x hx
        simp only [Stmt.declNames, List.mem_append] at hx ⊢
        rcases hx with hx | hx | hx
        · exact Or.inl (Or.inr hx)
        · exact Or.inl (Or.inl hx)
        · exact Or.inr hx
  | atom a =>
    intro s σ D π o top rest hj _ hs hde he hp hI hfresh _
    cases hp
    refine sound_atom a hI hs ?_ hde he hfresh
    rcases hj with ⟨h1, _⟩ | h2
    · exact Or.inl h1
    · exact Or.inr h2
  | ite t e iht ihe =>
    intro s σ D π o top rest hj hcl hs hde he hp hI hfresh hnd
    obtain ⟨hte, hee⟩ := ite_errs he
    simp only [Stmt.declNames] at hfresh hnd
    have hndt := (List.nodup_append.1 hnd).1
    have hnde := (List.nodup_append.1 hnd).2.1
    simp only [loopsCleanAt, Bool.and_eq_true] at hcl
    have hjt : (((s.branch s.errs).enter []).loops = 0 ∧ t.hasLoop = false) ∨ t.hasJump = false := by
      rcases hj with ⟨h1, h2⟩ | h2
      · simp only [Stmt.hasLoop, Bool.or_eq_false_iff] at h2; exact Or.inl ⟨h1, h2.1⟩
      · simp only [Stmt.hasJump, Bool.or_eq_false_iff] at h2; exact Or.inr h2.1
    have hje : ∀ errs, (((s.branch errs).enter []).loops = 0 ∧ e.hasLoop = false) ∨ e.hasJump = false := by
      intro errs
      rcases hj with ⟨h1, h2⟩ | h2
      · simp only [Stmt.hasLoop, Bool.or_eq_false_iff] at h2; exact Or.inl ⟨h1, h2.2⟩
      · simp only [Stmt.hasJump, Bool.or_eq_false_iff] at h2; exact Or.inr h2.2
    have hfrt : ∀ x ∈ t.declNames, x ∉ D := fun x hx => hfresh x (List.mem_append.2 (Or.inl hx))
    have hfre : ∀ x ∈ e.declNames, x ∉ D := fun x hx => hfresh x (List.mem_append.2 (Or.inr hx))
    -- path-independent facts about the two branch states
    have hdomB : ∀ (b : Stmt) (errs : List Err) x,
        Invs.get (St.leave s (check ((s.branch errs).enter []) b)).inv x ≠ none → x ∈ b.declNames ++ D := by
      intro b errs x hx
      rw [(leave_inv _ _).1] at hx
      rcases check_get_dom b _ [] s.scopes rfl x hx with h | h | h
      · exact List.mem_append.2 (Or.inr (hI.invD x h))
      · exact List.mem_append.2 (Or.inr (hI.namesD x (by simpa [names, St.enter, St.branch] using h)))
      · exact List.mem_append.2 (Or.inl h)
    have hmonoB : ∀ (b : Stmt) (errs : List Err), (St.leave s (check ((s.branch errs).enter []) b)).errs = [] →
        ∀ x k, Invs.get s.inv x = some k →
        Invs.get (St.leave s (check ((s.branch errs).enter []) b)).inv x = some k := by
      intro b errs hb x k hx
      rw [(leave_inv _ _).1]
      exact check_get_mono b _ (errs_nil_of_mono (f := St.leave s) (leave_errs s) hb) x k hx
    have hwfB : ∀ (b : Stmt) (errs : List Err), True := fun _ _ => trivial
    have hDD : ∀ x ∈ D, x ∈ (t.declNames ++ e.declNames) ++ D := fun x hx => List.mem_append.2 (Or.inr hx)
    cases hp with
    | iteThen hpt =>
      obtain ⟨σ1, hr1, hP1⟩ := iht _ σ D _ _ [] s.scopes hjt hcl.1 rfl hde
        (errs_nil_of_mono (f := St.leave s) (leave_errs s) hte) hpt (hI.branchEnter _) hfrt hndt
      obtain ⟨σ', hr', hP'⟩ := block_post (so := s) rfl hte hr1 hP1 hI.namesD hfrt
      refine ⟨σ', hr', ?_⟩
      cases o with
      | fall =>
        obtain ⟨hde', hI'⟩ := hP'
        simp only [check]
        refine ⟨?_, ?_⟩
        · simp [St.merged, RI.mergeBranches, hde, hde']
        · refine inv_merged_then hI' hde' (leave_frame _ _).1 (hmonoB t _ hte) ?_ ?_ ?_ hI.loc _ _ ?_
          · intro x hx
            simp only [Stmt.declNames, List.mem_append] at hx ⊢
            rcases hx with hx | hx
            · exact Or.inl (Or.inl hx)
            · exact Or.inr hx
          · intro x hx; exact hDD x (hI.invD x hx)
          · intro x hx
            have := hdomB e _ x hx
            simp only [Stmt.declNames, List.mem_append] at this ⊢
            rcases this with h | h
            · exact Or.inl (Or.inr h)
            · exact Or.inr h
          · exact wf_mergeBranches hI.wf hI'.wf (by rw [(leave_frame _ _).2.2]; exact check_wf e _ hI.wf)
      | ret => exact hP'.state_irrel (by simp)
      | halt => trivial
      | brk => exact absurd hP' id
      | cont => exact absurd hP' id
    | iteElse hpe =>
      obtain ⟨σ1, hr1, hP1⟩ := ihe _ σ D _ _ [] s.scopes (hje _) hcl.2 rfl hde
        (errs_nil_of_mono (f := St.leave s) (leave_errs s) hee) hpe (hI.branchEnter _) hfre hnde
      obtain ⟨σ', hr', hP'⟩ := block_post (so := s) rfl hee hr1 hP1 hI.namesD hfre
      refine ⟨σ', hr', ?_⟩
      cases o with
      | fall =>
        obtain ⟨hde', hI'⟩ := hP'
        simp only [check]
        refine ⟨?_, ?_⟩
        · simp [St.merged, RI.mergeBranches, hde, hde']
        · refine inv_merged_else hI' hde' (leave_frame _ _).1 (hmonoB e _ hee) ?_ ?_ ?_ hI.loc _ _ ?_
          · intro x hx
            simp only [Stmt.declNames, List.mem_append] at hx ⊢
            rcases hx with hx | hx
            · exact Or.inl (Or.inr hx)
            · exact Or.inr hx
          · intro x hx; exact hDD x (hI.invD x hx)
          · intro x hx
            have := hdomB t _ x hx
            simp only [Stmt.declNames, List.mem_append] at this ⊢
            rcases this with h | h
            · exact Or.inl (Or.inl h)
            · exact Or.inr h
          · exact wf_mergeBranches hI.wf (by rw [(leave_frame _ _).2.2]; exact check_wf t _ hI.wf) hI'.wf
      | ret => exact hP'.state_irrel (by simp)
      | halt => trivial
      | brk => exact absurd hP' id
      | cont => exact absurd hP' id
  | iflet y yo x xo t e iht ihe =>
    intro s σ D π o top rest hj hcl hs hde he hp hI hfresh hnd
    obtain ⟨he0, hte, hee⟩ := iflet_errs he
    obtain ⟨hσx, hI0, hri0, hsc0, hlo0⟩ := inv_invalidate hI he0 hde
    simp only [loopsCleanAt, Bool.and_eq_true] at hcl
    have hcheck : check s (.iflet y yo x xo t e) =
        ({ (s.invalidate x .moveDefinite xo) with
            ri := (s.invalidate x .moveDefinite xo).ri.mergeBranches
              (St.leave (s.invalidate x .moveDefinite xo) (St.leave (((s.invalidate x .moveDefinite xo).branch (s.invalidate x .moveDefinite xo).errs).enter [(y, yo)])
                (check ((((s.invalidate x .moveDefinite xo).branch (s.invalidate x .moveDefinite xo).errs).enter [(y, yo)]).enter []) t))).ri
              (St.leave (s.invalidate x .moveDefinite xo) (check (((s.invalidate x .moveDefinite xo).branch
                (St.leave (s.invalidate x .moveDefinite xo) (St.leave (((s.invalidate x .moveDefinite xo).branch (s.invalidate x .moveDefinite xo).errs).enter [(y, yo)])
                (check ((((s.invalidate x .moveDefinite xo).branch (s.invalidate x .moveDefinite xo).errs).enter [(y, yo)]).enter []) t))).errs).enter []) e)).ri,
            errs := (St.leave (s.invalidate x .moveDefinite xo) (check (((s.invalidate x .moveDefinite xo).branch
                (St.leave (s.invalidate x .moveDefinite xo) (St.leave (((s.invalidate x .moveDefinite xo).branch (s.invalidate x .moveDefinite xo).errs).enter [(y, yo)])
                (check ((((s.invalidate x .moveDefinite xo).branch (s.invalidate x .moveDefinite xo).errs).enter [(y, yo)]).enter []) t))).errs).enter []) e)).errs } : St).merged
          (mergeInvs (s.invalidate x .moveDefinite xo).inv
            (St.leave (s.invalidate x .moveDefinite xo) (St.leave (((s.invalidate x .moveDefinite xo).branch (s.invalidate x .moveDefinite xo).errs).enter [(y, yo)])
                (check ((((s.invalidate x .moveDefinite xo).branch (s.invalidate x .moveDefinite xo).errs).enter [(y, yo)]).enter []) t))).inv
            (St.leave (s.invalidate x .moveDefinite xo) (St.leave (((s.invalidate x .moveDefinite xo).branch (s.invalidate x .moveDefinite xo).errs).enter [(y, yo)])
                (check ((((s.invalidate x .moveDefinite xo).branch (s.invalidate x .moveDefinite xo).errs).enter [(y, yo)]).enter []) t))).ri
            (some ((St.leave (s.invalidate x .moveDefinite xo) (check (((s.invalidate x .moveDefinite xo).branch
                (St.leave (s.invalidate x .moveDefinite xo) (St.leave (((s.invalidate x .moveDefinite xo).branch (s.invalidate x .moveDefinite xo).errs).enter [(y, yo)])
                (check ((((s.invalidate x .moveDefinite xo).branch (s.invalidate x .moveDefinite xo).errs).enter [(y, yo)]).enter []) t))).errs).enter []) e)).inv,
              (St.leave (s.invalidate x .moveDefinite xo) (check (((s.invalidate x .moveDefinite xo).branch
                (St.leave (s.invalidate x .moveDefinite xo) (St.leave (((s.invalidate x .moveDefinite xo).branch (s.invalidate x .moveDefinite xo).errs).enter [(y, yo)])
                (check ((((s.invalidate x .moveDefinite xo).branch (s.invalidate x .moveDefinite xo).errs).enter [(y, yo)]).enter []) t))).errs).enter []) e)).ri))) := by
      simp only [check]
    rw [hcheck]
    clear hcheck he
    generalize s.invalidate x .moveDefinite xo = s' at *
    have hde0 : s'.ri.definitelyExited = false := by rw [hri0]; exact hde
    simp only [Stmt.declNames] at hfresh hnd
    have hyD : y ∉ D := hfresh y (List.mem_cons.2 (Or.inl rfl))
    have hnd' := (List.nodup_cons.1 hnd).2
    have hynot := (List.nodup_cons.1 hnd).1
    have hndt := (List.nodup_append.1 hnd').1
    have hnde := (List.nodup_append.1 hnd').2.1
    have hfrt : ∀ z ∈ t.declNames, z ∉ D := fun z hz => hfresh z (List.mem_cons.2 (Or.inr (List.mem_append.2 (Or.inl hz))))
    have hfre : ∀ z ∈ e.declNames, z ∉ D := fun z hz => hfresh z (List.mem_cons.2 (Or.inr (List.mem_append.2 (Or.inr hz))))
    have hyt : y ∉ t.declNames := fun h => hynot (List.mem_append.2 (Or.inl h))
    have hDD : ∀ z ∈ D, z ∈ (y :: (t.declNames ++ e.declNames)) ++ D := fun z hz => List.mem_append.2 (Or.inr hz)
    have hstep : ∀ ρ, run σ (Ev.move x :: ρ) = run (σ.set x .gone) ρ := by intro ρ; simp [run, step, hσx]
    have hjt : ∀ s0 : St, s0.loops = s'.loops → (s0.loops = 0 ∧ t.hasLoop = false) ∨ t.hasJump = false := by
      intro s0 h0
      rcases hj with ⟨h1, h2⟩ | h2
      · simp only [Stmt.hasLoop, Bool.or_eq_false_iff] at h2; exact Or.inl ⟨by rw [h0, hlo0]; exact h1, h2.1⟩
      · simp only [Stmt.hasJump, Bool.or_eq_false_iff] at h2; exact Or.inr h2.1
    have hje : ∀ s0 : St, s0.loops = s'.loops → (s0.loops = 0 ∧ e.hasLoop = false) ∨ e.hasJump = false := by
      intro s0 h0
      rcases hj with ⟨h1, h2⟩ | h2
      · simp only [Stmt.hasLoop, Bool.or_eq_false_iff] at h2; exact Or.inl ⟨by rw [h0, hlo0]; exact h1, h2.2⟩
      · simp only [Stmt.hasJump, Bool.or_eq_false_iff] at h2; exact Or.inr h2.2
    cases hp with
    | ifletThen hpt =>
      rename_i π0
      obtain ⟨hσy, hIy⟩ := inv_enter_binding (yo := yo) s'.errs hI0 hyD
      have he_in : (St.leave ((s'.branch s'.errs).enter [(y, yo)])
          (check (((s'.branch s'.errs).enter [(y, yo)]).enter []) t)).errs = [] :=
        errs_nil_of_mono (f := St.leave s') (leave_errs s') hte
      have hect : (check (((s'.branch s'.errs).enter [(y, yo)]).enter []) t).errs = [] :=
        errs_nil_of_mono (f := St.leave _) (leave_errs _) he_in
      obtain ⟨σ1, hr1, hP1⟩ := iht (((s'.branch s'.errs).enter [(y, yo)]).enter []) _ (y :: D) _ _ []
        ((s'.branch s'.errs).enter [(y, yo)]).scopes
        (hjt _ rfl) hcl.1 rfl hde0 hect hpt hIy.enterNil
        (fun z hz hm => by
          rcases List.mem_cons.1 hm with h | h
          · exact hyt (h ▸ hz)
          · exact hfrt z hz h) hndt
      have hcreate : run (σ.set x .gone) (Ev.create y :: π0) = some σ1 := by
        simp [run, step, hσy, hr1]
      by_cases ho : o = .halt
      · subst ho
        exact ⟨σ1, by rw [hstep]; simpa [blk, closeScope] using hcreate, trivial⟩
      · obtain ⟨l, hsc, hld, _⟩ := check_frame t (((s'.branch s'.errs).enter [(y, yo)]).enter []) []
          ((s'.branch s'.errs).enter [(y, yo)]).scopes rfl
        have hnames0 : ∀ z ∈ names ((s'.branch s'.errs).enter [(y, yo)]), z = y ∨ z ∈ names s' := by
          intro z hz; simpa [names, St.enter, St.branch] using hz
        have hout_t : ∀ z ∈ names ((s'.branch s'.errs).enter [(y, yo)]), z ∉ declared t := by
          intro z hz hd
          rcases hnames0 z hz with h | h
          · exact hyt (h ▸ declared_sub t z hd)
          · exact hfrt z (declared_sub t z hd) (hI0.namesD z h)
        obtain ⟨hall1, hP2⟩ := leave_post (dl := declared t) (l := l) (by simpa using hsc)
          (fun p hp => hld p hp) hout_t he_in hP1 ho
        have hout_y : ∀ z ∈ names s', z ∉ [y] := by
          intro z hz hm
          simp only [List.mem_singleton] at hm
          exact hyD (hm ▸ hI0.namesD z hz)
        obtain ⟨hall2, hP3⟩ := leave_post (so := s') (dl := [y]) (l := [(y, yo)])
          (by rw [(leave_frame _ _).1]; rfl) (by simp) hout_y hte hP2 ho
        have hend := run_scopeEnd_append hall1 hall2
        have hrun : run σ (Ev.move x :: blk [y] t π0 o) = some ((σ1.remove (declared t)).remove [y]) := by
          rw [hstep]
          have h2 := run_append_some hcreate hend
          cases o <;> first | exact absurd rfl ho | simpa [blk, closeScope] using h2
        refine ⟨_, hrun, ?_⟩
        cases o with
        | fall =>
          obtain ⟨hde', hI'⟩ := hP3
          refine ⟨?_, ?_⟩
          · simp [St.merged, RI.mergeBranches, hde0, hde']
          · refine inv_merged_then hI' hde' (leave_frame _ _).1 ?_ ?_ ?_ ?_ hI0.loc _ _ ?_
            · intro z k hz
              rw [(leave_inv _ _).1, (leave_inv _ _).1]
              exact check_get_mono t _ hect z k hz
            · intro z hz
              simp only [Stmt.declNames, List.mem_append, List.mem_cons] at hz ⊢
              rcases hz with hz | hz | hz
              · exact Or.inl (Or.inr (Or.inl hz))
              · exact Or.inl (Or.inl hz)
              · exact Or.inr hz
            · intro z hz; exact hDD z (hI0.invD z hz)
            · intro z hz
              rw [(leave_inv _ _).1] at hz
              rcases check_get_dom e _ [] s'.scopes rfl z hz with h | h | h
              · exact hDD z (hI0.invD z h)
              · exact hDD z (hI0.namesD z (by simpa [names, St.enter, St.branch] using h))
              · exact List.mem_append.2 (Or.inl (List.mem_cons.2 (Or.inr (List.mem_append.2 (Or.inr h)))))
            · exact wf_mergeBranches hI0.wf hI'.wf (by rw [(leave_frame _ _).2.2]; exact check_wf e _ hI0.wf)
        | ret => exact hP3.state_irrel (by simp)
        | halt => trivial
        | brk => exact absurd hP3 id
        | cont => exact absurd hP3 id
    | ifletElse hpe =>
      rename_i π0
      obtain ⟨σ1, hr1, hP1⟩ := ihe ((s'.branch _).enter []) (σ.set x .gone) D _ _ [] s'.scopes (hje _ rfl) hcl.2 rfl hde0
        (errs_nil_of_mono (f := St.leave s') (leave_errs s') hee) hpe (hI0.branchEnter _) hfre hnde
      obtain ⟨σ', hr', hP'⟩ := block_post (so := s') rfl hee hr1 hP1 hI0.namesD hfre
      refine ⟨σ', by rw [hstep]; exact hr', ?_⟩
      cases o with
      | fall =>
        obtain ⟨hde', hI'⟩ := hP'
        refine ⟨?_, ?_⟩
        · simp [St.merged, RI.mergeBranches, hde0, hde']
        · refine inv_merged_else hI' hde' (leave_frame _ _).1 ?_ ?_ ?_ ?_ hI0.loc _ _ ?_
          · intro z k hz
            rw [(leave_inv _ _).1]
            exact check_get_mono e _ (errs_nil_of_mono (f := St.leave s') (leave_errs s') hee) z k hz
          · intro z hz
            simp only [Stmt.declNames, List.mem_append, List.mem_cons] at hz ⊢
            rcases hz with hz | hz
            · exact Or.inl (Or.inr (Or.inr hz))
            · exact Or.inr hz
          · intro z hz; exact hDD z (hI0.invD z hz)
          · intro z hz
            rw [(leave_inv _ _).1, (leave_inv _ _).1] at hz
            rcases check_get_dom t _ [] ((s'.branch s'.errs).enter [(y, yo)]).scopes rfl z hz with h | h | h
            · exact hDD z (hI0.invD z h)
            · have h' : z = y ∨ z ∈ names s' := by simpa [names, St.enter, St.branch] using h
              rcases h' with h' | h'
              · exact List.mem_append.2 (Or.inl (List.mem_cons.2 (Or.inl h')))
              · exact hDD z (hI0.namesD z h')
            · exact List.mem_append.2 (Or.inl (List.mem_cons.2 (Or.inr (List.mem_append.2 (Or.inl h)))))
          · exact wf_mergeBranches hI0.wf
              (by rw [(leave_frame _ _).2.2, (leave_frame _ _).2.2]; exact check_wf t _ hI0.wf) hI'.wf
      | ret => exact hP'.state_irrel (by simp)
      | halt => trivial
      | brk => exact absurd hP' id
      | cont => exact absurd hP' id
  | «while» b ihb =>
    intro s σ D π o top rest hj hcl hs hde he hp hI hfresh hnd
    have hew := while_errs he
    have hjb : b.hasJump = false := by
      rcases hj with ⟨_, h2⟩ | h2
      · simp [Stmt.hasLoop] at h2
      · simpa [Stmt.hasJump] using h2
    simp only [loopsCleanAt, Bool.and_eq_true, Bool.or_eq_true] at hcl
    obtain ⟨hclb, hclean⟩ := hcl
    simp only [Stmt.declNames] at hfresh hnd
    have hec : (check s.loopEntry b).errs = [] := errs_nil_of_mono (f := St.leave s) (leave_errs s) hew
    -- one iteration of the body block
    have hbody : ∀ σ0 π₁ o₁, Inv s σ0 D → Path b π₁ o₁ →
        ∃ σ1, run σ0 (blk [] b π₁ o₁) = some σ1 ∧
          Post o₁ (St.leave s (check s.loopEntry b)) σ1 (b.declNames ++ D) := by
      intro σ0 π₁ o₁ hI0 hpb
      obtain ⟨σ1, hr1, hP1⟩ := ihb s.loopEntry σ0 D π₁ o₁ [] s.scopes (Or.inr hjb) hclb rfl hde hec hpb
        hI0.loopEntry hfresh hnd
      exact block_post (so := s) rfl hew hr1 hP1 hI0.namesD hfresh
    -- the invariant at the loop head is re-established after an iteration that falls through
    have hre : ∀ σ1, Post .fall (St.leave s (check s.loopEntry b)) σ1 (b.declNames ++ D) → Inv s σ1 D := by
      intro σ1 hP
      obtain ⟨hde1, hI1⟩ := hP
      have hcl' : ∀ v ∈ s.scopes.flatten,
          ((Invs.get s.inv v.1).isSome || (Invs.get (check s.loopEntry b).inv v.1).isNone) = true := by
        rcases hclean with h | h
        · rw [(leave_frame _ _).2.2] at hde1; rw [hde1] at h; exact absurd h (by simp)
        · intro v hv; exact List.all_eq_true.1 h v hv
      have hn : names (St.leave s (check s.loopEntry b)) = names s := by simp [names, (leave_frame _ _).1]
      constructor
      · intro z hz hg
        obtain ⟨p, hp, hpz⟩ := List.mem_map.1 hz
        have := hcl' p hp
        rw [hpz, hg] at this
        simp only [Option.isSome_none, Bool.false_or, Option.isNone_iff_eq_none] at this
        exact hI1.valid z (by rw [hn]; exact hz) (by rw [(leave_inv _ _).1]; exact this)
      · intro z hz hg
        obtain ⟨k, hk, hkd⟩ := definitely_iff.1 hg
        exact hI1.gone z (by rw [hn]; exact hz)
          (definitely_iff.2 ⟨k, by rw [(leave_inv _ _).1]; exact check_get_mono b _ hec z k hk, hkd⟩)
      · intro z hz; exact hI1.present z (by rw [hn]; exact hz)
      · intro z hz; have := hI1.inScope z hz; rw [hn] at this; exact this
      · exact hI.invD
      · exact hI.loc
      · exact hI.namesD
      · exact hI.wf
    refine while_paths (b := b) (P := fun σ0 => Inv s σ0 D)
      (Q := fun o σ' => Post o (check s (.while b)) σ' (b.declNames ++ D)) ?_ ?_ ?_ ?_ π o hp σ hI
    · intro σ0 hI0
      show _ ∧ _
      simp only [check]
      refine ⟨?_, ?_⟩
      · simp [St.merged, RI.mergePotentiallyUnevaluated, hde]
      · refine inv_merged_loop _ _ hI0 (fun z hz => List.mem_append.2 (Or.inr hz)) ?_ _ _ ?_
        · intro z hz
          rw [(leave_inv _ _).1] at hz
          rcases check_get_dom b _ [] s.scopes rfl z hz with h | h | h
          · exact List.mem_append.2 (Or.inr (hI.invD z h))
          · exact List.mem_append.2 (Or.inr (hI.namesD z (by simpa [names, St.enter, St.branch] using h)))
          · exact List.mem_append.2 (Or.inl h)
        · exact ⟨hI.wf.dr, hI.wf.dh⟩
    · intro σ0 π₁ o₁ hI0 hpb ho
      obtain ⟨σ1, hr1, hP1⟩ := hbody σ0 π₁ o₁ hI0 hpb
      rcases ho with rfl | rfl
      · exact ⟨σ1, hr1, hre σ1 hP1⟩
      · exact absurd hP1 id
    · intro σ0 π₁ hI0 hpb
      obtain ⟨σ1, _, hP1⟩ := hbody σ0 π₁ .brk hI0 hpb
      exact absurd hP1 id
    · intro σ0 π₁ o₁ hI0 hpb ho
      obtain ⟨σ1, hr1, hP1⟩ := hbody σ0 π₁ o₁ hI0 hpb
      refine ⟨σ1, hr1, ?_⟩
      rcases ho with rfl | rfl
      · exact hP1.state_irrel (by simp)
      · trivial

/-- soundness for functions: conditionals, optional binding, and loops without jumps whose bodies are clean -/
theorem sound_fn (f : Fn) (hj : f.body.hasLoop = false ∨ f.body.hasJump = false) (hcl : loopsClean f = true)
    (hnd : (f.params.map (·.1) ++ f.body.declNames).Nodup) (hc : linCheck f = []) :
    AllLinear f := by
  intro π o hp
  cases hp with
  | mk hpath ho =>
  rename_i π0
  have hndp := (List.nodup_append.1 hnd).1
  have hndb := (List.nodup_append.1 hnd).2.1
  have hdisj := (List.nodup_append.1 hnd).2.2
  obtain ⟨σ0, hr0, hg0⟩ := params_init f.params [] hndp (fun _ _ => rfl)
  have hc' : (linState f).errs = [] := hc
  unfold linState at hc'
  simp only [] at hc'
  unfold loopsClean at hcl
  generalize hs0 : ({ scopes := [f.params.reverse] } : St) = s0 at hc' hcl
  have hs0sc : s0.scopes = [f.params.reverse] := by rw [← hs0]
  have hs0inv : s0.inv = [] := by rw [← hs0]
  have hs0loc : s0.locals = [] := by rw [← hs0]
  have hs0ri : s0.ri = {} := by rw [← hs0]
  have hs0lo : s0.loops = 0 := by rw [← hs0]
  have hn0 : ∀ x, x ∈ names s0 ↔ x ∈ f.params.map (·.1) := by
    intro x; simp [names, hs0sc]
  have hI0 : Inv s0 σ0 (f.params.map (·.1)) :=
    { valid := fun x hx _ => by rw [hg0 x]; simp [(hn0 x).1 hx]
      gone := fun x _ h => by simp [hs0inv, Invs.definitely, Invs.get] at h
      present := fun x hx => by rw [hg0 x]; simp [(hn0 x).1 hx]
      inScope := fun x hx => by
        rw [hg0 x] at hx
        by_cases hm : x ∈ f.params.map (·.1)
        · exact (hn0 x).2 hm
        · simp [hm, Env.get] at hx
      invD := fun x hx => by simp [hs0inv, Invs.get] at hx
      loc := fun x hx => by simp [hs0loc] at hx
      namesD := fun x hx => (hn0 x).1 hx
      wf := ⟨fun h => by simp [hs0ri] at h, fun h => by simp [hs0ri] at h⟩ }
  have hs1 : (St.leave s0 (check (s0.enter []) f.body)).errs = [] := by
    by_cases hh : (St.leave s0 (check (s0.enter []) f.body)).ri.definitelyHalted = true
    · simpa [hh] using hc'
    · have : ((St.leave s0 (check (s0.enter []) f.body)).lossCheck f.params).errs = [] := by
        simpa [hh] using hc'
      exact errs_nil_of_mono (f := fun s => s.lossCheck f.params) (fun s => lossCheck_errs s _) this
  have hfresh : ∀ x ∈ f.body.declNames, x ∉ f.params.map (·.1) := fun x hx hm => hdisj x hm x hx rfl
  have hj' : ((s0.enter []).loops = 0 ∧ f.body.hasLoop = false) ∨ f.body.hasJump = false := by
    rcases hj with h | h
    · exact Or.inl ⟨hs0lo, h⟩
    · exact Or.inr h
  obtain ⟨σ1', hr1', hP1⟩ := sound_stmt f.body (s0.enter []) σ0 _ _ _ [] s0.scopes hj' hcl rfl
    (by show s0.ri.definitelyExited = false; rw [hs0ri])
    (errs_nil_of_mono (f := St.leave s0) (leave_errs s0) hs1) hpath hI0.enterNil hfresh hndb
  obtain ⟨σ1, hr1, hP⟩ := block_post (so := s0) rfl hs1 hr1' hP1 hI0.namesD hfresh
  generalize hs1' : St.leave s0 (check (s0.enter []) f.body) = s1 at hP hs1 hc'
  unfold Linear
  rcases ho with rfl | rfl | rfl
  · -- fall
    obtain ⟨hde1, hI1⟩ := hP
    have hnh : s1.ri.definitelyHalted = false := by
      cases h : s1.ri.definitelyHalted with
      | false => rfl
      | true => have := hI1.wf.dh h; rw [hde1] at this; exact absurd this (by simp)
    have hl : (s1.lossCheck f.params).errs = [] := by simpa [hnh] using hc'
    obtain ⟨_, hor⟩ := lossCheck_ok hl
    have hdef : ∀ v ∈ f.params, s1.inv.definitely v.1 = true := by
      rcases hor with ⟨h, _⟩ | h
      · rw [hde1] at h; exact absurd h (by simp)
      · exact h
    have hsc1 : s1.scopes = s0.scopes := by rw [← hs1']; exact (leave_frame _ _).1
    have hall : (f.params.map (·.1)).all (fun x => σ1.get x != some .valid) = true := by
      simp only [List.all_eq_true, bne_iff_ne]
      intro x hx hv
      obtain ⟨p, hp', hpx⟩ := List.mem_map.1 hx
      have hxn : x ∈ names s1 := by simp only [names, hsc1]; exact (hn0 x).2 hx
      have := hI1.gone x hxn (by rw [← hpx]; exact hdef p hp')
      rw [hv] at this; exact absurd this (by simp)
    have : run σ1 [Ev.scopeEnd (f.params.map (·.1))] = some (σ1.remove (f.params.map (·.1))) := by
      simp [run, step, hall]
    have h2 := run_append_some (run_append_some hr0 hr1) this
    simp only [closeScope]
    rw [h2]; rfl
  · -- ret
    have hall : (f.params.map (·.1)).all (fun x => σ1.get x != some .valid) = true := by
      simp only [List.all_eq_true, bne_iff_ne]; intro x _; exact hP x
    have : run σ1 [Ev.scopeEnd (f.params.map (·.1))] = some (σ1.remove (f.params.map (·.1))) := by
      simp [run, step, hall]
    have h2 := run_append_some (run_append_some hr0 hr1) this
    simp only [closeScope]
    rw [h2]; rfl
  · -- halt
    have h2 := run_append_some hr0 hr1
    simp only [closeScope]
    rw [h2]; rfl


theorem loopsCleanAt_noLoop (t : Stmt) : ∀ s : St, t.hasLoop = false → loopsCleanAt s t = true := by
  induction t with
  | nop => intro s _; rfl
  | seq a b iha ihb =>
    intro s h
    simp only [Stmt.hasLoop, Bool.or_eq_false_iff] at h
    simp only [loopsCleanAt, Bool.and_eq_true]
    exact ⟨iha s h.1, ihb _ h.2⟩
  | atom a => intro s _; rfl
  | ite t e iht ihe =>
    intro s h
    simp only [Stmt.hasLoop, Bool.or_eq_false_iff] at h
    simp only [loopsCleanAt, Bool.and_eq_true]
    exact ⟨iht _ h.1, ihe _ h.2⟩
  | iflet y yo x xo t e iht ihe =>
    intro s h
    simp only [Stmt.hasLoop, Bool.or_eq_false_iff] at h
    simp only [loopsCleanAt, Bool.and_eq_true]
    exact ⟨iht _ h.1, ihe _ h.2⟩
  | «while» b _ => intro s h; simp [Stmt.hasLoop] at h

theorem hasLoop_of_noBranch (t : Stmt) : t.hasBranch = false → t.hasLoop = false := by
  induction t with
  | nop => intro _; rfl
  | seq a b iha ihb =>
    intro h
    simp only [Stmt.hasBranch, Bool.or_eq_false_iff] at h
    simp only [Stmt.hasLoop, Bool.or_eq_false_iff]
    exact ⟨iha h.1, ihb h.2⟩
  | atom a => intro _; rfl
  | ite t e _ _ => intro h; simp [Stmt.hasBranch] at h
  | iflet y yo x xo t e _ _ => intro h; simp [Stmt.hasBranch] at h
  | «while» b _ => intro h; simp [Stmt.hasBranch] at h

/-- soundness for functions without loops -/
theorem sound_fn_branching (f : Fn) (hb : f.body.hasLoop = false)
    (hnd : (f.params.map (·.1) ++ f.body.declNames).Nodup) (hc : linCheck f = []) : AllLinear f :=
  sound_fn f (Or.inl hb) (loopsCleanAt_noLoop _ _ hb) hnd hc

end Verif.Proofs.Lin
