import Verif.Proofs.Lin.Basic
/-
Facts about the port `check` that do not mention paths: errors only accumulate, the primitives are
the identity when they report nothing, characterisation of the merged invalidations, frame lemmas.
-/
namespace Verif.Proofs.Lin
open Verif.Model.Lin Verif.Spec.Paths

/-! ### association lists of invalidations -/

theorem Invs.get_cons (m : Invs) (x y : Var) (k : Kind) :
    Invs.get ((x, k) :: m) y = if x = y then some k else Invs.get m y := by
  by_cases h : x = y
  · simp [Invs.get, List.find?_cons, h]
  · have : (x == y) = false := by simpa using h
    simp [Invs.get, List.find?_cons, this, h]

theorem Invs.get_append (a m : Invs) (y : Var) :
    Invs.get (a ++ m) y = (match Invs.get a y with | some k => some k | none => Invs.get m y) := by
  induction a with
  | nil => rfl
  | cons p a ih =>
    obtain ⟨x, k⟩ := p
    rw [List.cons_append, Invs.get_cons, Invs.get_cons]
    by_cases h : x = y
    · simp [h]
    · simp [h, ih]

theorem Invs.get_none_iff (m : Invs) (x : Var) : Invs.get m x = none ↔ x ∉ m.map (·.1) := by
  unfold Invs.get
  rw [find_map_snd]
  simp only [List.mem_map, not_exists, not_and]
  first
    | done
    | exact ⟨fun h p hp e => h p hp e, fun h p hp e => h p hp e⟩

theorem mergeInfos_none_left (tri : RI) (e : Option (Option Kind × RI)) (h : ∀ k r, e ≠ some (some k, r)) :
    mergeInfos none tri e = none := by
  cases e with
  | none => rfl
  | some p =>
    obtain ⟨o, r⟩ := p
    cases o with
    | none => rfl
    | some k => exact absurd rfl (h k r)

/-- the fold of `mergeInvs`, characterised pointwise -/
theorem mergeFold_get (outer : Invs) (M : Var → Option Kind) (keys : List Var) (acc : Invs) (x : Var) :
    Invs.get (keys.foldl (fun (acc : Invs) x =>
      if (Invs.get outer x).isSome || (Invs.get acc x).isSome then acc else
      match M x with
      | some k => (x, k) :: acc
      | none => acc) acc) x =
    (match Invs.get acc x with
     | some k => some k
     | none => if x ∈ keys ∧ Invs.get outer x = none then M x else none) := by
  induction keys generalizing acc with
  | nil => cases h : Invs.get acc x <;> simp [h]
  | cons y keys ih =>
    simp only [List.foldl]
    rw [ih]
    by_cases hy : y = x
    · subst hy
      cases ho : Invs.get outer y with
      | some ko => simp [ho]
      | none =>
        cases ha : Invs.get acc y with
        | some ka => simp [ha]
        | none =>
          cases hm : M y with
          | some k => simp [ho, ha, hm, Invs.get_cons]
          | none => simp [ho, ha, hm]
    · have hne : ¬ x = y := fun e => hy e.symm
      by_cases hc : ((Invs.get outer y).isSome || (Invs.get acc y).isSome) = true
      · simp only [hc, if_true, List.mem_cons, hne, false_or]
      · simp only [hc, Bool.false_eq_true, if_false]
        cases hm : M y with
        | some k => simp only [Invs.get_cons, hy, if_false, List.mem_cons, hne, false_or]
        | none => simp only [List.mem_cons, hne, false_or]

theorem mergeInvs_get (outer ti : Invs) (tri : RI) (e : Option (Invs × RI)) (x : Var) :
    Invs.get (mergeInvs outer ti tri e) x =
      if (Invs.get outer x).isSome then none
      else mergeInfos (Invs.get ti x) tri (e.map fun p => (Invs.get p.1 x, p.2)) := by
  have := mergeFold_get outer (fun x => mergeInfos (Invs.get ti x) tri (e.map fun p => (Invs.get p.1 x, p.2)))
    (mergeKeys ti e) [] x
  have hnil : Invs.get [] x = none := rfl
  rw [hnil] at this
  refine Eq.trans this ?_
  cases ho : Invs.get outer x with
  | some p => simp
  | none =>
    simp only [Option.isSome_none, Bool.false_eq_true, if_false, and_true]
    by_cases hk : x ∈ mergeKeys ti e
    · rw [if_pos hk]
    · rw [if_neg hk]
      -- x is in no branch: both lookups are none, so the merge yields none
      simp only [mergeKeys, List.mem_append, not_or] at hk
      have h1 : Invs.get ti x = none := (Invs.get_none_iff ti x).2 hk.1
      rw [h1]
      symm
      apply mergeInfos_none_left
      intro k r
      cases e with
      | none => simp
      | some p =>
        have h2 : Invs.get p.1 x = none := (Invs.get_none_iff p.1 x).2 hk.2
        simp [h2]

/-- invalidation lookup after `Resources.MergeBranches` -/
theorem merged_get (s : St) (ti : Invs) (tri : RI) (e : Option (Invs × RI)) (x : Var) :
    Invs.get (s.merged (mergeInvs s.inv ti tri e)).inv x =
      (match Invs.get s.inv x with
       | some k => some k
       | none => mergeInfos (Invs.get ti x) tri (e.map fun p => (Invs.get p.1 x, p.2))) := by
  show Invs.get (mergeInvs s.inv ti tri e ++ s.inv) x = _
  rw [Invs.get_append, mergeInvs_get]
  cases Invs.get s.inv x with
  | some k => simp
  | none =>
    simp only [Option.isSome_none, Bool.false_eq_true, if_false]
    generalize mergeInfos _ _ _ = r
    cases r <;> rfl

/-! ### primitives that report nothing are the identity -/

theorem useCheck_ok {s : St} {x : Var} (h : (s.useCheck x).errs = []) :
    x ∈ names s ∧ Invs.get s.inv x = none ∧ s.useCheck x = s := by
  unfold St.useCheck at h ⊢
  cases hd : s.declOff x with
  | none => simp [hd, St.report] at h
  | some d =>
    simp only [hd] at h ⊢
    have hx : x ∈ names s := (declOff_isSome s x).1 (by simp [hd])
    cases hi : Invs.get s.inv x with
    | some k => simp [hi, St.report] at h
    | none => simp [hi, hx]

theorem lossFold_ok (vs : List (Var × Nat)) (s : St)
    (h : (vs.foldl (fun s v => if s.inv.definitely v.1 then s else s.report .loss) s).errs = []) :
    vs.foldl (fun s v => if s.inv.definitely v.1 then s else s.report .loss) s = s ∧
      ∀ v ∈ vs, s.inv.definitely v.1 = true := by
  induction vs generalizing s with
  | nil => simp
  | cons v vs ih =>
    simp only [List.foldl] at h ⊢
    by_cases hv : s.inv.definitely v.1 = true
    · simp only [hv, if_true] at h ⊢
      obtain ⟨h1, h2⟩ := ih s h
      exact ⟨h1, by intro w hw; rcases List.mem_cons.1 hw with rfl | hw; exact hv; exact h2 w hw⟩
    · simp only [hv, Bool.false_eq_true, if_false] at h
      obtain ⟨l, hl⟩ := lossFold_errs vs (s.report .loss)
      rw [h] at hl
      simp [St.report] at hl

theorem lossCheck_ok {s : St} {vs : List (Var × Nat)} (h : (s.lossCheck vs).errs = []) :
    s.lossCheck vs = s ∧
      ((s.ri.definitelyExited = true ∧ s.ri.maybeJumpedLoop = false) ∨ ∀ v ∈ vs, s.inv.definitely v.1 = true) := by
  unfold St.lossCheck at h ⊢
  by_cases hc : (s.ri.definitelyExited && !s.ri.maybeJumpedLoop) = true
  · simp only [hc, if_true]
    simp only [Bool.and_eq_true, Bool.not_eq_true'] at hc
    refine ⟨?_, Or.inl hc⟩
    first | rfl | trivial
  · simp only [hc, Bool.false_eq_true, if_false] at h ⊢
    obtain ⟨h1, h2⟩ := lossFold_ok vs s h
    exact ⟨h1, Or.inr h2⟩

theorem invalidate_errs (s : St) (x : Var) (k : Kind) (o : Nat) :
    ∃ l, (s.invalidate x k o).errs = l ++ s.errs := by
  unfold St.invalidate
  rw [maybeAdd_errs]
  exact useCheck_errs s x

theorem checkAtom_errs (s : St) (a : Atom) : ∃ l, (checkAtom s a).errs = l ++ s.errs := by
  cases a with
  | letR x off i =>
    cases i with
    | create => exact ⟨[], by simp [checkAtom, St.declare]; split <;> rfl⟩
    | call => exact ⟨[], by simp [checkAtom, St.declare]; split <;> rfl⟩
    | move y yo =>
      obtain ⟨l, hl⟩ := invalidate_errs s y .moveDefinite yo
      refine ⟨l, ?_⟩
      simp only [checkAtom, St.declare]
      split <;> exact hl
  | destroy x o => exact invalidate_errs s x _ o
  | eat x o => exact invalidate_errs s x _ o
  | use x =>
    obtain ⟨l1, h1⟩ := useCheck_errs s x
    obtain ⟨l2, h2⟩ := useCheck_errs (s.useCheck x) x
    exact ⟨l2 ++ l1, by simp [checkAtom, h2, h1]⟩
  | read x => exact useCheck_errs s x
  | nomove x =>
    obtain ⟨l1, h1⟩ := useCheck_errs s x
    exact ⟨.missingMove :: l1, by simp [checkAtom, St.report, h1]⟩
  | swap x y =>
    obtain ⟨l1, h1⟩ := useCheck_errs s x
    obtain ⟨l2, h2⟩ := useCheck_errs (s.useCheck x) y
    exact ⟨l2 ++ l1, by simp [checkAtom, h2, h1]⟩
  | skip => exact ⟨[], rfl⟩
  | brk o =>
    simp only [checkAtom]
    split
    · exact ⟨[_], rfl⟩
    · exact ⟨[], rfl⟩
  | cont o =>
    simp only [checkAtom]
    split
    · exact ⟨[_], rfl⟩
    · exact ⟨[], rfl⟩
  | ret =>
    obtain ⟨l, hl⟩ := lossCheck_errs s s.scopes.flatten
    exact ⟨l, by simp [checkAtom, hl]⟩
  | panic => exact ⟨[], rfl⟩

theorem leave_errs (outer s1 : St) : ∃ l, (St.leave outer s1).errs = l ++ s1.errs := by
  unfold St.leave
  exact lossCheck_errs s1 _

theorem check_errs (t : Stmt) : ∀ s : St, ∃ l, (check s t).errs = l ++ s.errs := by
  induction t with
  | nop => intro s; exact ⟨[], rfl⟩
  | seq a b iha ihb =>
    intro s
    obtain ⟨la, ha⟩ := iha s
    simp only [check]
    split
    · exact ⟨.unreachable :: la, by simp [St.report, ha]⟩
    · obtain ⟨lb, hb⟩ := ihb (check s a)
      exact ⟨lb ++ la, by rw [hb, ha]; simp⟩
  | atom a => intro s; exact checkAtom_errs s a
  | ite t e iht ihe =>
    intro s
    obtain ⟨l1, h1⟩ := iht ((s.branch s.errs).enter [])
    obtain ⟨l2, h2⟩ := leave_errs s (check ((s.branch s.errs).enter []) t)
    generalize hts : St.leave s (check ((s.branch s.errs).enter []) t) = ts at h2
    obtain ⟨l3, h3⟩ := ihe ((s.branch ts.errs).enter [])
    obtain ⟨l4, h4⟩ := leave_errs s (check ((s.branch ts.errs).enter []) e)
    refine ⟨l4 ++ l3 ++ l2 ++ l1, ?_⟩
    have : (check s (.ite t e)).errs = (St.leave s (check ((s.branch ts.errs).enter []) e)).errs := by
      simp only [check, St.merged, hts]
    rw [this, h4, h3]
    show l4 ++ (l3 ++ ts.errs) = _
    rw [h2, h1]
    show l4 ++ (l3 ++ (l2 ++ (l1 ++ s.errs))) = _
    simp
  | iflet y yo x xo t e iht ihe =>
    intro s
    obtain ⟨l0, h0⟩ := invalidate_errs s x .moveDefinite xo
    generalize hs' : s.invalidate x .moveDefinite xo = s' at h0
    obtain ⟨l1, h1⟩ := iht (((s'.branch s'.errs).enter [(y, yo)]).enter [])
    obtain ⟨l2, h2⟩ := leave_errs ((s'.branch s'.errs).enter [(y, yo)])
      (check (((s'.branch s'.errs).enter [(y, yo)]).enter []) t)
    obtain ⟨l2', h2'⟩ := leave_errs s' (St.leave ((s'.branch s'.errs).enter [(y, yo)])
      (check (((s'.branch s'.errs).enter [(y, yo)]).enter []) t))
    generalize hts : (St.leave s' (St.leave ((s'.branch s'.errs).enter [(y, yo)])
      (check (((s'.branch s'.errs).enter [(y, yo)]).enter []) t))) = ts at h2'
    obtain ⟨l3, h3⟩ := ihe ((s'.branch ts.errs).enter [])
    obtain ⟨l4, h4⟩ := leave_errs s' (check ((s'.branch ts.errs).enter []) e)
    refine ⟨l4 ++ l3 ++ l2' ++ l2 ++ l1 ++ l0, ?_⟩
    have : (check s (.iflet y yo x xo t e)).errs = (St.leave s' (check ((s'.branch ts.errs).enter []) e)).errs := by
      simp only [check, St.merged, hs', hts]
    rw [this, h4, h3]
    show l4 ++ (l3 ++ ts.errs) = _
    rw [h2', h2, h1]
    show l4 ++ (l3 ++ (l2' ++ (l2 ++ (l1 ++ s'.errs)))) = _
    rw [h0]
    simp
  | «while» b ihb =>
    intro s
    obtain ⟨l1, h1⟩ := ihb ({ s.branch s.errs with loops := s.loops + 1 }.enter [])
    obtain ⟨l2, h2⟩ := leave_errs s (check ({ s.branch s.errs with loops := s.loops + 1 }.enter []) b)
    refine ⟨l2 ++ l1, ?_⟩
    have : (check s (.while b)).errs =
        (St.leave s (check ({ s.branch s.errs with loops := s.loops + 1 }.enter []) b)).errs := by
      simp only [check, St.merged]
    rw [this, h2, h1]
    show l2 ++ (l1 ++ s.errs) = _
    simp

theorem check_errs_nil {s : St} {t : Stmt} (h : (check s t).errs = []) : s.errs = [] :=
  errs_nil_of_mono (f := fun s => check s t) (fun s => check_errs t s) h

end Verif.Proofs.Lin
