import Verif.Spec.Paths
/- C03: every path produced by the bounded enumerator of the judge is a path of the semantics. -/
namespace Verif.Proofs.Lin
open Verif.Model.Lin Verif.Spec.Paths

theorem loopPaths_sound (b : Stmt) (body : List (List Ev × Out))
    (hbody : ∀ p ∈ body, ∃ π o, Path b π o ∧ p = (blk [] b π o, o)) :
    ∀ n, ∀ p ∈ loopPaths body n, Path (.while b) p.1 p.2 := by
  intro n
  induction n with
  | zero =>
    intro p hp
    simp only [loopPaths, List.mem_singleton] at hp
    subst hp; exact Path.whileDone
  | succ n ih =>
    intro p hp
    simp only [loopPaths, List.mem_cons, List.mem_flatMap] at hp
    rcases hp with rfl | ⟨bp, hbp, hp⟩
    · exact Path.whileDone
    · obtain ⟨π, o, hπ, rfl⟩ := hbody bp hbp
      cases o with
      | fall =>
        simp only [List.mem_map] at hp
        obtain ⟨r, hr, rfl⟩ := hp
        exact Path.whileIter hπ (Or.inl rfl) (ih r hr)
      | cont =>
        simp only [List.mem_map] at hp
        obtain ⟨r, hr, rfl⟩ := hp
        exact Path.whileIter hπ (Or.inr rfl) (ih r hr)
      | brk =>
        simp only [List.mem_singleton] at hp
        subst hp; exact Path.whileBreak hπ
      | ret =>
        simp only [List.mem_singleton] at hp
        subst hp; exact Path.whileExit hπ (Or.inl rfl)
      | halt =>
        simp only [List.mem_singleton] at hp
        subst hp; exact Path.whileExit hπ (Or.inr rfl)

theorem blockWrap_mem {pre : List Var} {s : Stmt} {ps : List (List Ev × Out)} {p : List Ev × Out}
    (h : p ∈ blockWrap pre s ps) : ∃ q ∈ ps, p = (blk pre s q.1 q.2, q.2) := by
  simp only [blockWrap, List.mem_map] at h
  obtain ⟨q, hq, rfl⟩ := h
  exact ⟨q, hq, rfl⟩

theorem pathsN_sound (k : Nat) (t : Stmt) : ∀ p ∈ pathsN k t, Path t p.1 p.2 := by
  induction t with
  | nop =>
    intro p hp
    simp only [pathsN, List.mem_singleton] at hp
    subst hp; exact Path.nop
  | seq a b iha ihb =>
    intro p hp
    simp only [pathsN, List.mem_flatMap] at hp
    obtain ⟨pa, hpa, hp⟩ := hp
    have ha := iha pa hpa
    obtain ⟨π, o⟩ := pa
    cases o with
    | fall =>
      simp only [List.mem_map] at hp
      obtain ⟨q, hq, rfl⟩ := hp
      exact Path.seqGo ha (ihb q hq)
    | brk => simp only [List.mem_singleton] at hp; subst hp; exact Path.seqStop ha (by simp)
    | cont => simp only [List.mem_singleton] at hp; subst hp; exact Path.seqStop ha (by simp)
    | ret => simp only [List.mem_singleton] at hp; subst hp; exact Path.seqStop ha (by simp)
    | halt => simp only [List.mem_singleton] at hp; subst hp; exact Path.seqStop ha (by simp)
  | atom a =>
    intro p hp
    simp only [pathsN, List.mem_singleton] at hp
    subst hp; exact Path.atom
  | ite t e iht ihe =>
    intro p hp
    simp only [pathsN, List.mem_append] at hp
    rcases hp with hp | hp
    · obtain ⟨q, hq, rfl⟩ := blockWrap_mem hp
      exact Path.iteThen (iht q hq)
    · obtain ⟨q, hq, rfl⟩ := blockWrap_mem hp
      exact Path.iteElse (ihe q hq)
  | iflet y yo x xo t e iht ihe =>
    intro p hp
    simp only [pathsN, List.mem_map, List.mem_append] at hp
    obtain ⟨p', hp', rfl⟩ := hp
    rcases hp' with hp' | hp'
    · obtain ⟨q, hq, rfl⟩ := blockWrap_mem hp'
      exact Path.ifletThen (iht q hq)
    · obtain ⟨q, hq, rfl⟩ := blockWrap_mem hp'
      exact Path.ifletElse (ihe q hq)
  | «while» b ihb =>
    intro p hp
    simp only [pathsN] at hp
    refine loopPaths_sound b _ ?_ k p hp
    intro bp hbp
    obtain ⟨q, hq, rfl⟩ := blockWrap_mem hbp
    exact ⟨q.1, q.2, ihb q hq, rfl⟩

/-- every path enumerated for a function is a path of the function -/
theorem fnPathsN_sound (k : Nat) (f : Fn) : ∀ p ∈ fnPathsN k f, FnPath f p.1 p.2 := by
  intro p hp
  simp only [fnPathsN, List.mem_map, List.mem_filter] at hp
  obtain ⟨q, ⟨hq, ho⟩, rfl⟩ := hp
  obtain ⟨r, hr, rfl⟩ := blockWrap_mem hq
  have hpath := pathsN_sound k f.body r hr
  have ho' : r.2 = .fall ∨ r.2 = .ret ∨ r.2 = .halt := by
    simp only [Bool.or_eq_true, beq_iff_eq] at ho
    rcases ho with (h | h) | h
    · exact Or.inl h
    · exact Or.inr (Or.inl h)
    · exact Or.inr (Or.inr h)
  have := FnPath.mk (f := f) hpath ho'
  have e : (closeScope (f.params.map (·.1)) ((f.params.map fun q => Ev.create q.1) ++ blk [] f.body r.1 r.2, r.2)).2 = r.2 := by
    unfold closeScope; split <;> rfl
  rw [e]
  exact this

end Verif.Proofs.Lin
