import Verif.Proofs.Lin.Enum
/- C03: for loop-free statements the bounded enumerator of the judge enumerates *every* path. -/
namespace Verif.Proofs.Lin
open Verif.Model.Lin Verif.Spec.Paths

theorem pathsN_complete_noloop (k : Nat) {t : Stmt} {π : List Ev} {o : Out} (hp : Path t π o) :
    t.hasLoop = false → (π, o) ∈ pathsN k t := by
  induction hp with
  | nop => intro _; simp [pathsN]
  | @seqStop a b π o _ hne iha =>
    intro h
    simp only [Stmt.hasLoop, Bool.or_eq_false_iff] at h
    simp only [pathsN, List.mem_flatMap]
    refine ⟨(π, o), iha h.1, ?_⟩
    cases o with
    | fall => exact absurd rfl hne
    | brk => simp
    | cont => simp
    | ret => simp
    | halt => simp
  | @seqGo a b π₁ π₂ o _ _ iha ihb =>
    intro h
    simp only [Stmt.hasLoop, Bool.or_eq_false_iff] at h
    simp only [pathsN, List.mem_flatMap]
    refine ⟨(π₁, .fall), iha h.1, ?_⟩
    simp only [List.mem_map]
    exact ⟨(π₂, o), ihb h.2, rfl⟩
  | atom => intro _; simp [pathsN]
  | @iteThen t e π o _ ih =>
    intro h
    simp only [Stmt.hasLoop, Bool.or_eq_false_iff] at h
    simp only [pathsN, List.mem_append, blockWrap, List.mem_map]
    exact Or.inl ⟨(π, o), ih h.1, rfl⟩
  | @iteElse t e π o _ ih =>
    intro h
    simp only [Stmt.hasLoop, Bool.or_eq_false_iff] at h
    simp only [pathsN, List.mem_append, blockWrap, List.mem_map]
    exact Or.inr ⟨(π, o), ih h.2, rfl⟩
  | @ifletThen y yo x xo t e π o _ ih =>
    intro h
    simp only [Stmt.hasLoop, Bool.or_eq_false_iff] at h
    simp only [pathsN, List.mem_map, List.mem_append, blockWrap]
    exact ⟨(blk [y] t π o, o), Or.inl ⟨(π, o), ih h.1, rfl⟩, rfl⟩
  | @ifletElse y yo x xo t e π o _ ih =>
    intro h
    simp only [Stmt.hasLoop, Bool.or_eq_false_iff] at h
    simp only [pathsN, List.mem_map, List.mem_append, blockWrap]
    exact ⟨(blk [] e π o, o), Or.inr ⟨(π, o), ih h.2, rfl⟩, rfl⟩
  | whileDone => intro h; simp [Stmt.hasLoop] at h
  | whileIter _ _ _ _ _ => intro h; simp [Stmt.hasLoop] at h
  | whileBreak _ _ => intro h; simp [Stmt.hasLoop] at h
  | whileExit _ _ _ => intro h; simp [Stmt.hasLoop] at h

/-- every path of a loop-free function is enumerated -/
theorem fnPathsN_complete_noloop (k : Nat) (f : Fn) (h : f.body.hasLoop = false) {π : List Ev} {o : Out}
    (hp : FnPath f π o) : ∃ p ∈ fnPathsN k f, p.1 = π := by
  cases hp with
  | mk hpath ho =>
    rename_i π0
    refine ⟨closeScope (f.params.map (·.1)) ((f.params.map fun q => Ev.create q.1) ++ blk [] f.body π0 o, o), ?_, rfl⟩
    simp only [fnPathsN, List.mem_map, List.mem_filter, blockWrap]
    refine ⟨(blk [] f.body π0 o, o), ⟨⟨(π0, o), pathsN_complete_noloop k hpath h, rfl⟩, ?_⟩, rfl⟩
    rcases ho with rfl | rfl | rfl <;> simp

end Verif.Proofs.Lin
