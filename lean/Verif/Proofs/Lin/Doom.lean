import Verif.Proofs.Lin.SoundFull
/-
C03: the semantic loop hypothesis `loopsClean` follows from acceptance and the syntactic hypothesis
`noHaltAfterInvalidatingLoop`.

A loop body that can fall through and leaves an invalidation of an outer resource `x` makes the
invalidation of `x` *potential* after the loop.  A potential invalidation is never removed or
overwritten while no error is reported (`check_get_mono`); it makes every `return` in `x`'s scope
and the end of `x`'s scope report a loss unless the state is "definitely exited" there — and
without a `panic` after the loop (and without jumps) the state cannot become definitely exited
except through a `return`, which reports the loss itself (`doom_persist`).  So an accepted function
has only clean loops (`clean_or_escape`, `loopsClean_of_accept`).
-/
namespace Verif.Proofs.Lin
open Verif.Model.Lin Verif.Spec.Paths

/-- `x` has a potential invalidation -/
def Pot (s : St) (x : Var) : Prop := ∃ k, Invs.get s.inv x = some k ∧ k.isDefinite = false

/-- a potentially invalidated variable in scope at a point that is not definitely exited -/
def Esc (s : St) (x : Var) : Prop := x ∈ names s ∧ Pot s x ∧ s.ri.definitelyExited = false

theorem names_mono (t : Stmt) (s : St) (top : List (Var × Nat)) (rest : List (List (Var × Nat)))
    (hs : s.scopes = top :: rest) : ∀ x ∈ names s, x ∈ names (check s t) := by
  obtain ⟨l, hsc, _, _⟩ := check_frame t s top rest hs
  intro x hx
  simp only [names, hsc, hs, List.flatten_cons, List.map_append, List.mem_append] at hx ⊢
  rcases hx with hx | hx
  · exact Or.inl (Or.inr hx)
  · exact Or.inr hx

theorem Pot.mono {s : St} {t : Stmt} {x : Var} (h : Pot s x) (he : (check s t).errs = []) : Pot (check s t) x := by
  obtain ⟨k, hk, hd⟩ := h
  exact ⟨k, check_get_mono t s he x k hk, hd⟩

theorem pot_not_definite {s : St} {x : Var} (h : Pot s x) : s.inv.definitely x ≠ true := by
  obtain ⟨k, hk, hd⟩ := h
  intro hdef
  obtain ⟨k', hk', hd'⟩ := definitely_iff.1 hdef
  rw [hk] at hk'
  cases hk'
  rw [hd] at hd'; exact absurd hd' (by simp)

/-- a loss check over a scope holding a potentially invalidated variable, at a point that is not
    definitely exited, reports an error -/
theorem lossCheck_pot {s : St} {vs : List (Var × Nat)} {x : Var} (he : (s.lossCheck vs).errs = [])
    (hde : s.ri.definitelyExited = false) (hx : x ∈ vs.map (·.1)) (hp : Pot s x) : False := by
  obtain ⟨_, hor⟩ := lossCheck_ok he
  rcases hor with ⟨h, _⟩ | h
  · rw [hde] at h; exact absurd h (by simp)
  · obtain ⟨p, hp', hpx⟩ := List.mem_map.1 hx
    exact pot_not_definite hp (by rw [← hpx]; exact h p hp')

/-! ### without halts and jumps, a doomed state does not become definitely exited -/

theorem doom_persist (t : Stmt) : ∀ (s : St) (top : List (Var × Nat)) (rest : List (List (Var × Nat))),
    s.scopes = top :: rest → t.hasHalt = false → t.hasJump = false → s.ri.definitelyExited = false →
    (check s t).errs = [] → ∀ x, x ∈ names s → Pot s x → (check s t).ri.definitelyExited = false := by
  induction t with
  | nop => intro s _ _ _ _ _ hde _ _ _ _; exact hde
  | seq a b iha ihb =>
    intro s top rest hs hh hj hde he x hx hp
    simp only [Stmt.hasHalt, Bool.or_eq_false_iff] at hh
    simp only [Stmt.hasJump, Bool.or_eq_false_iff] at hj
    simp only [check] at he ⊢
    split
    · rename_i hc; simp [hc, St.report] at he
    · rename_i hc
      simp only [hc, if_false] at he
      have hea := check_errs_nil he
      have hdea := iha s top rest hs hh.1 hj.1 hde hea x hx hp
      obtain ⟨la, hsc, _, _⟩ := check_frame a s top rest hs
      exact ihb (check s a) (la ++ top) rest hsc hh.2 hj.2 hdea he x (names_mono a s top rest hs x hx) (hp.mono hea)
  | atom a =>
    intro s top rest hs hh hj hde he x hx hp
    cases a with
    | letR z off i =>
      cases i with
      | create => simp only [check, checkAtom]; rw [(declare_same _ _ _).1]; exact hde
      | call => simp only [check, checkAtom]; rw [(declare_same _ _ _).1]; exact hde
      | move y yo => simp only [check, checkAtom]; rw [(declare_same _ _ _).1, invalidate_ri]; exact hde
    | destroy y o => simp only [check, checkAtom, invalidate_ri]; exact hde
    | eat y o => simp only [check, checkAtom, invalidate_ri]; exact hde
    | use y => simp only [check, checkAtom, useCheck_ri]; exact hde
    | read y => simp only [check, checkAtom, useCheck_ri]; exact hde
    | nomove y => simp only [check, checkAtom, St.report, useCheck_ri]; exact hde
    | swap y z => simp only [check, checkAtom, useCheck_ri]; exact hde
    | skip => exact hde
    | brk o => simp [Stmt.hasJump] at hj
    | cont o => simp [Stmt.hasJump] at hj
    | ret =>
      have he0 : (s.lossCheck s.scopes.flatten).errs = [] := he
      exact (lossCheck_pot he0 hde hx hp).elim
    | panic => simp [Stmt.hasHalt] at hh
  | ite t e iht _ =>
    intro s top rest hs hh hj hde he x hx hp
    simp only [Stmt.hasHalt, Bool.or_eq_false_iff] at hh
    simp only [Stmt.hasJump, Bool.or_eq_false_iff] at hj
    obtain ⟨hte, _⟩ := ite_errs he
    have h1 := iht ((s.branch s.errs).enter []) [] s.scopes rfl hh.1 hj.1 hde
      (errs_nil_of_mono (f := St.leave s) (leave_errs s) hte) x (by simpa [names, St.enter, St.branch] using hx) hp
    simp only [check, St.merged, RI.mergeBranches, (leave_frame _ _).2.2, h1, hde, Bool.false_and, Bool.or_false]
  | iflet y yo z zo t e iht _ =>
    intro s top rest hs hh hj hde he x hx hp
    simp only [Stmt.hasHalt, Bool.or_eq_false_iff] at hh
    simp only [Stmt.hasJump, Bool.or_eq_false_iff] at hj
    obtain ⟨he0, hte, _⟩ := iflet_errs he
    have hp' : Pot (s.invalidate z .moveDefinite zo) x := by
      obtain ⟨k, hk, hd⟩ := hp; exact ⟨k, invalidate_get_mono he0 hk, hd⟩
    have hde' : (s.invalidate z .moveDefinite zo).ri.definitelyExited = false := by rw [invalidate_ri]; exact hde
    have hx' : x ∈ names (s.invalidate z .moveDefinite zo) := by
      simpa [names, (invalidate_frame s z .moveDefinite zo).1] using hx
    have he_in := errs_nil_of_mono (f := St.leave _) (leave_errs _) hte
    have hect := errs_nil_of_mono (f := St.leave _) (leave_errs _) he_in
    have h1 := iht ((((s.invalidate z .moveDefinite zo).branch _).enter [(y, yo)]).enter []) [] _ rfl
      hh.1 hj.1 hde' hect x
      (by have : x = y ∨ x ∈ names (s.invalidate z .moveDefinite zo) := Or.inr hx'
          simpa [names, St.enter, St.branch] using this) hp'
    simp only [check, St.merged, RI.mergeBranches, (leave_frame _ _).2.2, h1, hde', Bool.false_and, Bool.or_false]
  | «while» b _ =>
    intro s top rest hs hh hj hde he x hx hp
    simp only [check, St.merged, RI.mergePotentiallyUnevaluated]
    exact hde

/-! ### invalidations are recorded only for the variables a statement invalidates -/

theorem invalidate_get_inv (s : St) (y : Var) (k : Kind) (o : Nat) (x : Var)
    (h : Invs.get (s.invalidate y k o).inv x ≠ none) : Invs.get s.inv x ≠ none ∨ x = y := by
  unfold St.invalidate St.maybeAdd at h
  split at h
  · rw [useCheck_inv] at h; exact Or.inl h
  · split at h
    · rw [useCheck_inv] at h; exact Or.inl h
    · simp only [] at h
      split at h
      · rw [useCheck_inv] at h; exact Or.inl h
      · have h' : Invs.get ((y, _) :: (s.useCheck y).inv) x ≠ none := h
        rw [Invs.get_cons, useCheck_inv] at h'
        by_cases hyx : y = x
        · exact Or.inr hyx.symm
        · simp only [hyx, if_false] at h'; exact Or.inl h'

theorem checkAtom_get_inv (a : Atom) (s : St) (x : Var)
    (h : Invs.get (checkAtom s a).inv x ≠ none) : Invs.get s.inv x ≠ none ∨ x ∈ (Stmt.atom a).invalidated := by
  cases a with
  | letR z off i =>
    cases i with
    | create => simp only [checkAtom, declare_inv] at h; exact Or.inl h
    | call => simp only [checkAtom, declare_inv] at h; exact Or.inl h
    | move y yo =>
      simp only [checkAtom, declare_inv] at h
      exact (invalidate_get_inv s y _ yo x h).imp id (by intro e; simp [Stmt.invalidated, e])
  | destroy y o => exact (invalidate_get_inv s y _ o x h).imp id (by intro e; simp [Stmt.invalidated, e])
  | eat y o => exact (invalidate_get_inv s y _ o x h).imp id (by intro e; simp [Stmt.invalidated, e])
  | use y => simp only [checkAtom, useCheck_inv] at h; exact Or.inl h
  | read y => simp only [checkAtom, useCheck_inv] at h; exact Or.inl h
  | nomove y => simp only [checkAtom, St.report, useCheck_inv] at h; exact Or.inl h
  | swap y z => simp only [checkAtom, useCheck_inv] at h; exact Or.inl h
  | skip => exact Or.inl h
  | brk o => simp only [checkAtom] at h; split at h <;> exact Or.inl h
  | cont o => simp only [checkAtom] at h; split at h <;> exact Or.inl h
  | ret => simp only [checkAtom, lossCheck_inv] at h; exact Or.inl h
  | panic => exact Or.inl h

theorem check_get_inv (t : Stmt) : ∀ (s : St) x, Invs.get (check s t).inv x ≠ none →
    Invs.get s.inv x ≠ none ∨ x ∈ t.invalidated := by
  induction t with
  | nop => intro s x h; exact Or.inl h
  | seq a b iha ihb =>
    intro s x h
    simp only [check] at h
    simp only [Stmt.invalidated, List.mem_append]
    split at h
    · exact (iha s x h).imp id Or.inl
    · rcases ihb _ x h with h | h
      · exact (iha s x h).imp id Or.inl
      · exact Or.inr (Or.inr h)
  | atom a => intro s x h; exact checkAtom_get_inv a s x h
  | ite t e iht ihe =>
    intro s x h
    simp only [check] at h
    simp only [Stmt.invalidated, List.mem_append]
    rcases merged_get_dom { s with ri := _, errs := _ } _ _ _ _ x h with h | h | h
    · exact Or.inl h
    · rw [(leave_inv _ _).1] at h
      exact (iht _ x h).imp id Or.inl
    · rw [(leave_inv _ _).1] at h
      exact (ihe _ x h).imp id Or.inr
  | iflet y yo z zo t e iht ihe =>
    intro s x h
    simp only [check] at h
    simp only [Stmt.invalidated, List.mem_cons, List.mem_append]
    have back : Invs.get (s.invalidate z .moveDefinite zo).inv x ≠ none →
        Invs.get s.inv x ≠ none ∨ (x = z ∨ x ∈ t.invalidated ∨ x ∈ e.invalidated) :=
      fun h => (invalidate_get_inv s z _ zo x h).imp id Or.inl
    rcases merged_get_dom { (s.invalidate z .moveDefinite zo) with ri := _, errs := _ } _ _ _ _ x h with h | h | h
    · exact back h
    · rw [(leave_inv _ _).1, (leave_inv _ _).1] at h
      rcases iht _ x h with h | h
      · exact back h
      · exact Or.inr (Or.inr (Or.inl h))
    · rw [(leave_inv _ _).1] at h
      rcases ihe _ x h with h | h
      · exact back h
      · exact Or.inr (Or.inr (Or.inr h))
  | «while» b ihb =>
    intro s x h
    simp only [check] at h
    simp only [Stmt.invalidated]
    rcases merged_get_dom_loop { s with ri := _, errs := _ } _ _ x h with h | h
    · exact Or.inl h
    · rw [(leave_inv _ _).1] at h
      have := ihb _ x h
      exact this

/-! ### potential invalidations survive the merges -/

theorem mergeInfos_then_pot {tk : Kind} {e : Option Kind} {tri eri : RI}
    (hdr : tri.definitelyReturned = false) (hk : tk.isDefinite = false) :
    ∃ k, mergeInfos (some tk) tri (some (e, eri)) = some k ∧ k.isDefinite = false := by
  cases e with
  | none =>
    simp only [mergeInfos, hdr, Bool.false_eq_true, if_false]
    split
    · exact ⟨_, rfl, asPotential_not_definite tk⟩
    · exact ⟨_, rfl, hk⟩
  | some ek =>
    simp only [mergeInfos, hdr, Bool.false_and, Bool.false_eq_true, if_false]
    split
    · exact ⟨_, rfl, hk⟩
    · split
      · exact ⟨_, rfl, asPotential_not_definite tk⟩
      · exact ⟨_, rfl, hk⟩

theorem mergeInfos_else_pot {ek : Kind} {t : Option Kind} {tri eri : RI}
    (hdr : eri.definitelyReturned = false) (hk : ek.isDefinite = false) :
    ∃ k, mergeInfos t tri (some (some ek, eri)) = some k ∧ k.isDefinite = false := by
  cases t with
  | none =>
    simp only [mergeInfos, hdr, Bool.false_eq_true, if_false]
    split
    · exact ⟨_, rfl, asPotential_not_definite ek⟩
    · exact ⟨_, rfl, hk⟩
  | some tk =>
    simp only [mergeInfos, hdr, Bool.and_false, Bool.false_eq_true, if_false]
    split
    · exact ⟨_, rfl, hk⟩
    · have : (!ek.isDefinite || !tk.isDefinite) = true := by simp [hk]
      simp only [this, if_true]
      exact ⟨_, rfl, asPotential_not_definite tk⟩

theorem esc_leave {so c : St} {l : List (Var × Nat)} (hsc : c.scopes = l :: so.scopes)
    (he : (St.leave so c).errs = []) {x : Var} (h : Esc c x) : Esc (St.leave so c) x := by
  obtain ⟨hx, hp, hde⟩ := h
  have hxs : x ∈ names so := by
    have hnames : names c = l.map (·.1) ++ names so := by simp [names, hsc]
    rw [hnames] at hx
    rcases List.mem_append.1 hx with hxl | hxs
    · exfalso
      unfold St.leave at he
      exact lossCheck_pot he hde (by rw [hsc]; exact hxl) hp
    · exact hxs
  refine ⟨by simpa [names, (leave_frame so c).1] using hxs, ?_, by rw [(leave_frame _ _).2.2]; exact hde⟩
  obtain ⟨k, hk, hd⟩ := hp
  exact ⟨k, by rw [(leave_inv _ _).1]; exact hk, hd⟩

/-- after a conditional: an escaping variable of the then branch escapes the conditional -/
theorem esc_merged_then {s ts es : St} {x : Var} (h : Esc ts x) (hsc : ts.scopes = s.scopes)
    (hwf : WfRI ts.ri) (hde : s.ri.definitelyExited = false)
    (hmono : ∀ x k, Invs.get s.inv x = some k → Invs.get ts.inv x = some k) (errs : List Err) :
    Esc ({ s with ri := s.ri.mergeBranches ts.ri es.ri, errs := errs }.merged
      (mergeInvs s.inv ts.inv ts.ri (some (es.inv, es.ri)))) x := by
  obtain ⟨hx, ⟨k, hk, hd⟩, hdet⟩ := h
  refine ⟨by simpa [names, St.merged, hsc] using hx, ?_, by simp [St.merged, RI.mergeBranches, hde, hdet]⟩
  unfold Pot
  rw [merged_get]
  cases hs : Invs.get s.inv x with
  | some k' =>
    have := hmono x k' hs
    rw [hk] at this; cases this
    exact ⟨k, rfl, hd⟩
  | none =>
    simp only [hk]
    exact mergeInfos_then_pot (wf_dr_false hwf hdet) hd

theorem esc_merged_else {s ts es : St} {x : Var} (h : Esc es x) (hsc : es.scopes = s.scopes)
    (hwf : WfRI es.ri) (hde : s.ri.definitelyExited = false)
    (hmono : ∀ x k, Invs.get s.inv x = some k → Invs.get es.inv x = some k) (errs : List Err) :
    Esc ({ s with ri := s.ri.mergeBranches ts.ri es.ri, errs := errs }.merged
      (mergeInvs s.inv ts.inv ts.ri (some (es.inv, es.ri)))) x := by
  obtain ⟨hx, ⟨k, hk, hd⟩, hdee⟩ := h
  refine ⟨by simpa [names, St.merged, hsc] using hx, ?_, by simp [St.merged, RI.mergeBranches, hde, hdee]⟩
  unfold Pot
  rw [merged_get]
  cases hs : Invs.get s.inv x with
  | some k' =>
    have := hmono x k' hs
    rw [hk] at this; cases this
    exact ⟨k, rfl, hd⟩
  | none =>
    simp only [hk, Option.map]
    exact mergeInfos_else_pot (wf_dr_false hwf hdee) hd

/-- after a loop whose body block ends (not definitely exited) with an invalidation of `x` that
    the state before the loop does not have (or has as a potential one) -/
theorem esc_while {s : St} {b : Stmt} {x : Var} (he : (check s (.while b)).errs = [])
    (hx : x ∈ names s) (hde : s.ri.definitelyExited = false) (hwf : WfRI s.ri)
    (hdeb : (check s.loopEntry b).ri.definitelyExited = false)
    (hpot : Pot s x ∨ (Invs.get s.inv x = none ∧ Invs.get (check s.loopEntry b).inv x ≠ none)) :
    Esc (check s (.while b)) x := by
  refine ⟨?_, ?_, ?_⟩
  · simpa [check, names, St.merged] using hx
  · rcases hpot with hp | ⟨hs, hb⟩
    · exact hp.mono he
    · unfold Pot
      simp only [check]
      rw [merged_get]
      simp only [hs, (leave_inv _ _).1, (leave_frame _ _).2.2]
      have hb' : Invs.get (check ({ s.branch s.errs with loops := s.loops + 1 }.enter []) b).inv x ≠ none := hb
      cases hg : Invs.get (check ({ s.branch s.errs with loops := s.loops + 1 }.enter []) b).inv x with
      | none => exact absurd hg hb'
      | some k =>
        have hdr : (check ({ s.branch s.errs with loops := s.loops + 1 }.enter []) b).ri.definitelyReturned = false :=
          wf_dr_false (check_wf b _ hwf) hdeb
        simp only [Option.map, mergeInfos]
        split <;> simp_all [asPotential_not_definite]
  · simp only [check, St.merged, RI.mergePotentiallyUnevaluated]; exact hde

/-! ### an accepted function without a halt after an invalidating loop has clean loops -/

theorem clean_or_escape (t : Stmt) : ∀ (s : St) (top : List (Var × Nat)) (rest : List (List (Var × Nat))),
    s.scopes = top :: rest → t.noHaltAfterLoop = true → t.hasJump = false →
    s.ri.definitelyExited = false → WfRI s.ri → (check s t).errs = [] →
    (∀ x ∈ names s, x ∉ t.declNames) → t.declNames.Nodup →
    loopsCleanAt s t = true ∨ (t.hasInvalidatingLoop = true ∧ ∃ x, Esc (check s t) x) := by
  induction t with
  | nop => intro s _ _ _ _ _ _ _ _ _ _; exact Or.inl rfl
  | atom a => intro s _ _ _ _ _ _ _ _ _ _; exact Or.inl rfl
  | seq a b iha ihb =>
    intro s top rest hs hnh hj hde hwf he hfr hnd
    simp only [Stmt.noHaltAfterLoop, Bool.and_eq_true, Bool.or_eq_true, Bool.not_eq_true'] at hnh
    simp only [Stmt.hasJump, Bool.or_eq_false_iff] at hj
    simp only [Stmt.declNames] at hfr hnd
    have hnda := (List.nodup_append.1 hnd).1
    have hndb := (List.nodup_append.1 hnd).2.1
    have hdisj := (List.nodup_append.1 hnd).2.2
    simp only [check] at he
    by_cases hc : ((check s a).ri.definitelyExited && !b.isNop) = true
    · simp [hc, St.report] at he
    · simp only [hc, Bool.false_eq_true, if_false] at he
      have hea := check_errs_nil he
      have hcheck : check s (.seq a b) = check (check s a) b := by
        simp only [check, hc, Bool.false_eq_true, if_false]
      obtain ⟨la, hsc, _, _⟩ := check_frame a s top rest hs
      rcases iha s top rest hs hnh.1.1 hj.1 hde hwf hea
          (fun x hx hm => hfr x hx (List.mem_append.2 (Or.inl hm))) hnda with hca | ⟨hila, x, hxn, hxp, hxd⟩
      · by_cases hdea : (check s a).ri.definitelyExited = true
        · -- the rest of the list is empty
          have hb : b.isNop = true := by
            cases hbn : b.isNop with
            | true => rfl
            | false => simp [hdea, hbn] at hc
          have : b = .nop := by cases b <;> simp_all [Stmt.isNop]
          subst this
          exact Or.inl (by simp [loopsCleanAt, hca])
        · have hdea' : (check s a).ri.definitelyExited = false := by simpa using hdea
          have hfrb : ∀ x ∈ names (check s a), x ∉ b.declNames := by
            intro x hx hm
            rcases names_check a s top rest hs x hx with h | h
            · exact hfr x h (List.mem_append.2 (Or.inr hm))
            · exact hdisj x h x hm rfl
          rcases ihb (check s a) (la ++ top) rest hsc hnh.1.2 hj.2 hdea' (check_wf a s hwf) he hfrb hndb with
            hcb | ⟨hilb, x, hx⟩
          · exact Or.inl (by simp [loopsCleanAt, hca, hcb])
          · exact Or.inr ⟨by simp [Stmt.hasInvalidatingLoop, hilb], x, by rw [hcheck]; exact hx⟩
      · -- a doomed variable escapes `a`: nothing in `b` halts, so it escapes `b` as well
        have hhb : b.hasHalt = false := by
          rcases hnh.2 with h | h
          · rw [hila] at h; exact absurd h (by simp)
          · exact h
        have hdeb := doom_persist b (check s a) (la ++ top) rest hsc hhb hj.2 hxd he x hxn hxp
        refine Or.inr ⟨by simp [Stmt.hasInvalidatingLoop, hila], x, ?_⟩
        rw [hcheck]
        exact ⟨names_mono b _ (la ++ top) rest hsc x hxn, hxp.mono he, hdeb⟩
  | ite t e iht ihe =>
    intro s top rest hs hnh hj hde hwf he hfr hnd
    simp only [Stmt.noHaltAfterLoop, Bool.and_eq_true] at hnh
    simp only [Stmt.hasJump, Bool.or_eq_false_iff] at hj
    simp only [Stmt.declNames] at hfr hnd
    have hndt := (List.nodup_append.1 hnd).1
    have hnde := (List.nodup_append.1 hnd).2.1
    obtain ⟨hte, hee⟩ := ite_errs he
    have hect := errs_nil_of_mono (f := St.leave s) (leave_errs s) hte
    have hece := errs_nil_of_mono (f := St.leave s) (leave_errs s) hee
    have hfrB : ∀ (errs : List Err) (b : Stmt), (∀ x ∈ b.declNames, x ∈ t.declNames ++ e.declNames) →
        ∀ x ∈ names ((s.branch errs).enter []), x ∉ b.declNames := by
      intro errs b hb x hx hm
      exact hfr x (by simpa [names, St.enter, St.branch] using hx) (hb x hm)
    rcases iht ((s.branch s.errs).enter []) [] s.scopes rfl hnh.1 hj.1 hde hwf hect
        (hfrB _ t (fun x hx => List.mem_append.2 (Or.inl hx))) hndt with hct | ⟨hilt, x, hx⟩
    · rcases ihe ((s.branch _).enter []) [] s.scopes rfl hnh.2 hj.2 hde hwf hece
          (hfrB _ e (fun x hx => List.mem_append.2 (Or.inr hx))) hnde with hce | ⟨hile, x, hx⟩
      · exact Or.inl (by simp only [loopsCleanAt, Bool.and_eq_true]; exact ⟨hct, hce⟩)
      · refine Or.inr ⟨by simp [Stmt.hasInvalidatingLoop, hile], x, ?_⟩
        obtain ⟨l, hsc, _, _⟩ := check_frame e ((s.branch _).enter []) [] s.scopes rfl
        have h1 := esc_leave (so := s) (by simpa using hsc) hee hx
        simp only [check]
        refine esc_merged_else h1 (leave_frame _ _).1 (by rw [(leave_frame _ _).2.2]; exact check_wf e _ hwf) hde ?_ _
        intro z k hz
        rw [(leave_inv _ _).1]; exact check_get_mono e _ hece z k hz
    · refine Or.inr ⟨by simp [Stmt.hasInvalidatingLoop, hilt], x, ?_⟩
      obtain ⟨l, hsc, _, _⟩ := check_frame t ((s.branch s.errs).enter []) [] s.scopes rfl
      have h1 := esc_leave (so := s) (by simpa using hsc) hte hx
      simp only [check]
      refine esc_merged_then h1 (leave_frame _ _).1 (by rw [(leave_frame _ _).2.2]; exact check_wf t _ hwf) hde ?_ _
      intro z k hz
      rw [(leave_inv _ _).1]; exact check_get_mono t _ hect z k hz
  | iflet y yo z zo t e iht ihe =>
    intro s top rest hs hnh hj hde hwf he hfr hnd
    simp only [Stmt.noHaltAfterLoop, Bool.and_eq_true] at hnh
    simp only [Stmt.hasJump, Bool.or_eq_false_iff] at hj
    simp only [Stmt.declNames] at hfr hnd
    have hnd' := (List.nodup_cons.1 hnd).2
    have hynot := (List.nodup_cons.1 hnd).1
    have hndt := (List.nodup_append.1 hnd').1
    have hnde := (List.nodup_append.1 hnd').2.1
    obtain ⟨he0, hte, hee⟩ := iflet_errs he
    have hn' : names (s.invalidate z .moveDefinite zo) = names s := by
      simp [names, (invalidate_frame s z .moveDefinite zo).1]
    have hde' : (s.invalidate z .moveDefinite zo).ri.definitelyExited = false := by rw [invalidate_ri]; exact hde
    have hwf' : WfRI (s.invalidate z .moveDefinite zo).ri := by rw [invalidate_ri]; exact hwf
    simp only [loopsCleanAt, Stmt.hasInvalidatingLoop, check]
    generalize s.invalidate z .moveDefinite zo = s' at *
    have he_in := errs_nil_of_mono (f := St.leave s') (leave_errs s') hte
    have hect := errs_nil_of_mono (f := St.leave _) (leave_errs _) he_in
    have hece := errs_nil_of_mono (f := St.leave s') (leave_errs s') hee
    have hfrt : ∀ x ∈ names (((s'.branch s'.errs).enter [(y, yo)]).enter []), x ∉ t.declNames := by
      intro x hx hm
      have hx' : x = y ∨ x ∈ names s' := by simpa [names, St.enter, St.branch] using hx
      rcases hx' with h | h
      · exact hynot (h ▸ List.mem_append.2 (Or.inl hm))
      · exact hfr x (hn' ▸ h) (List.mem_cons.2 (Or.inr (List.mem_append.2 (Or.inl hm))))
    have hfre : ∀ errs, ∀ x ∈ names ((s'.branch errs).enter []), x ∉ e.declNames := by
      intro errs x hx hm
      have hx' : x ∈ names s' := by simpa [names, St.enter, St.branch] using hx
      exact hfr x (hn' ▸ hx') (List.mem_cons.2 (Or.inr (List.mem_append.2 (Or.inr hm))))
    rcases iht (((s'.branch s'.errs).enter [(y, yo)]).enter []) [] _ rfl hnh.1 hj.1 hde' hwf' hect hfrt hndt with
      hct | ⟨hilt, x, hx⟩
    · rcases ihe ((s'.branch _).enter []) [] s'.scopes rfl hnh.2 hj.2 hde' hwf' hece (hfre _) hnde with
        hce | ⟨hile, x, hx⟩
      · exact Or.inl (by simp only [Bool.and_eq_true]; exact ⟨hct, hce⟩)
      · refine Or.inr ⟨by simp [hile], x, ?_⟩
        obtain ⟨l, hsc, _, _⟩ := check_frame e ((s'.branch _).enter []) [] s'.scopes rfl
        have h1 := esc_leave (so := s') (by simpa using hsc) hee hx
        refine esc_merged_else h1 (leave_frame _ _).1 (by rw [(leave_frame _ _).2.2]; exact check_wf e _ hwf') hde' ?_ _
        intro w k hw
        rw [(leave_inv _ _).1]; exact check_get_mono e _ hece w k hw
    · refine Or.inr ⟨by simp [hilt], x, ?_⟩
      obtain ⟨l, hsc, _, _⟩ := check_frame t (((s'.branch s'.errs).enter [(y, yo)]).enter []) [] _ rfl
      have h1 := esc_leave (so := (s'.branch s'.errs).enter [(y, yo)]) (by simpa using hsc) he_in hx
      have h2 := esc_leave (so := s') (l := [(y, yo)]) (by rw [(leave_frame _ _).1]; rfl) hte h1
      refine esc_merged_then h2 (leave_frame _ _).1
        (by rw [(leave_frame _ _).2.2, (leave_frame _ _).2.2]; exact check_wf t _ hwf') hde' ?_ _
      intro w k hw
      rw [(leave_inv _ _).1, (leave_inv _ _).1]; exact check_get_mono t _ hect w k hw
  | «while» b ihb =>
    intro s top rest hs hnh hj hde hwf he hfr hnd
    simp only [Stmt.noHaltAfterLoop] at hnh
    simp only [Stmt.hasJump] at hj
    simp only [Stmt.declNames] at hfr hnd
    have hew := while_errs he
    have hec : (check s.loopEntry b).errs = [] := errs_nil_of_mono (f := St.leave s) (leave_errs s) hew
    have hfrb : ∀ x ∈ names s.loopEntry, x ∉ b.declNames := by
      intro x hx hm
      exact hfr x (by simpa [names, St.enter, St.branch, St.loopEntry] using hx) hm
    rcases ihb s.loopEntry [] s.scopes rfl hnh hj hde hwf hec hfrb hnd with hcb | ⟨hilb, x, hx⟩
    · by_cases hc2 : ((check s.loopEntry b).ri.definitelyExited ||
          s.scopes.flatten.all fun v => (Invs.get s.inv v.1).isSome || (Invs.get (check s.loopEntry b).inv v.1).isNone) = true
      · exact Or.inl (by simp only [loopsCleanAt, Bool.and_eq_true]; exact ⟨hcb, hc2⟩)
      · simp only [Bool.or_eq_true, not_or, Bool.not_eq_true] at hc2
        obtain ⟨hdeb, hall⟩ := hc2
        obtain ⟨v, hv, hvb⟩ := List.all_eq_false.1 hall
        simp only [Bool.or_eq_true, not_or, Bool.not_eq_true, Option.isSome_eq_false_iff, Option.isNone_iff_eq_none,
          Option.isNone_eq_false_iff] at hvb
        have hvn : v.1 ∈ names s := List.mem_map.2 ⟨v, hv, rfl⟩
        have hsn : Invs.get s.inv v.1 = none := by
          cases h : Invs.get s.inv v.1 with
          | none => rfl
          | some k => simp [h] at hvb
        have hbn : Invs.get (check s.loopEntry b).inv v.1 ≠ none := by
          intro h; simp [h] at hvb
        have hinv : v.1 ∈ b.invalidated := by
          rcases check_get_inv b s.loopEntry v.1 hbn with h | h
          · exact absurd hsn h
          · exact h
        refine Or.inr ⟨?_, v.1, esc_while he hvn hde hwf hdeb (Or.inr ⟨hsn, hbn⟩)⟩
        simp only [Stmt.hasInvalidatingLoop, Bool.or_eq_true, List.any_eq_true]
        exact Or.inr ⟨v.1, hinv, by simpa using hfr v.1 hvn⟩
    · obtain ⟨l, hsc, _, _⟩ := check_frame b s.loopEntry [] s.scopes rfl
      have h1 := esc_leave (so := s) (by simpa using hsc) hew hx
      obtain ⟨hx1, hp1, hd1⟩ := h1
      have hxs : x ∈ names s := by simpa [names, (leave_frame _ _).1] using hx1
      have hdeb : (check s.loopEntry b).ri.definitelyExited = false := by
        rw [(leave_frame _ _).2.2] at hd1; exact hd1
      refine Or.inr ⟨by simp [Stmt.hasInvalidatingLoop, hilb], x, esc_while he hxs hde hwf hdeb ?_⟩
      obtain ⟨k, hk, hkd⟩ := hp1
      rw [(leave_inv _ _).1] at hk
      cases hsx : Invs.get s.inv x with
      | none => exact Or.inr ⟨rfl, by rw [hk]; simp⟩
      | some k' =>
        have := check_get_mono b s.loopEntry hec x k' hsx
        rw [hk] at this; cases this
        exact Or.inl ⟨k, hsx, hkd⟩

/-- acceptance and the syntactic hypothesis give the semantic one -/
theorem loopsClean_of_accept (f : Fn) (hj : f.body.hasJump = false) (hnh : noHaltAfterInvalidatingLoop f = true)
    (hnd : (f.params.map (·.1) ++ f.body.declNames).Nodup) (hc : linCheck f = []) : loopsClean f = true := by
  have hndb := (List.nodup_append.1 hnd).2.1
  have hdisj := (List.nodup_append.1 hnd).2.2
  have hc' : (linState f).errs = [] := hc
  unfold linState at hc'
  simp only [] at hc'
  unfold loopsClean
  generalize hs0 : ({ scopes := [f.params.reverse] } : St) = s0 at hc' ⊢
  have hs0sc : s0.scopes = [f.params.reverse] := by rw [← hs0]
  have hs0ri : s0.ri = {} := by rw [← hs0]
  have hwf0 : WfRI s0.ri := by rw [hs0ri]; exact ⟨fun h => by simp at h, fun h => by simp at h⟩
  have hn0 : ∀ x, x ∈ names s0 ↔ x ∈ f.params.map (·.1) := by
    intro x; simp [names, hs0sc]
  have hs1 : (St.leave s0 (check (s0.enter []) f.body)).errs = [] := by
    by_cases hh : (St.leave s0 (check (s0.enter []) f.body)).ri.definitelyHalted = true
    · simpa [hh] using hc'
    · have : ((St.leave s0 (check (s0.enter []) f.body)).lossCheck f.params).errs = [] := by
        simpa [hh] using hc'
      exact errs_nil_of_mono (f := fun s => s.lossCheck f.params) (fun s => lossCheck_errs s _) this
  have hec := errs_nil_of_mono (f := St.leave s0) (leave_errs s0) hs1
  rcases clean_or_escape f.body (s0.enter []) [] s0.scopes rfl hnh hj (by show s0.ri.definitelyExited = false; rw [hs0ri])
      hwf0 hec (by
        intro x hx hm
        have hx' : x ∈ names s0 := by simpa [names, St.enter] using hx
        exact hdisj x ((hn0 x).1 hx') x hm rfl) hndb with h | ⟨_, x, hx⟩
  · exact h
  · exfalso
    obtain ⟨l, hsc, _, _⟩ := check_frame f.body (s0.enter []) [] s0.scopes rfl
    obtain ⟨hx1, hp1, hd1⟩ := esc_leave (so := s0) (by simpa using hsc) hs1 hx
    have hxs : x ∈ names s0 := by simpa [names, (leave_frame _ _).1] using hx1
    have hwf1 : WfRI (St.leave s0 (check (s0.enter []) f.body)).ri := by
      rw [(leave_frame _ _).2.2]; exact check_wf _ _ hwf0
    have hnh1 := wf_dh_false hwf1 hd1
    have hl : ((St.leave s0 (check (s0.enter []) f.body)).lossCheck f.params).errs = [] := by
      simpa [hnh1] using hc'
    exact lossCheck_pot hl hd1 ((hn0 x).1 hxs) hp1

end Verif.Proofs.Lin
