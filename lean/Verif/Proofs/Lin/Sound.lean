import Verif.Proofs.Lin.Check
/-
Soundness of the port of the checker's resource tracking with respect to the path semantics, for
the fragment without loops and optional binding (declarations, moves, destroy, uses, swap, if/else,
return, panic).

Abstraction invariant `Inv s σ D` between the checker state `s` and the environment `σ` of a path
prefix that falls through to the current program point:
  no invalidation recorded for x  ⇒ x is valid in σ
  definite invalidation for x     ⇒ x is gone in σ
  (a potential invalidation allows both), exactly the variables in scope are present in σ.
`D` is the set of names declared so far (names are unique).
-/
namespace Verif.Proofs.Lin
open Verif.Model.Lin Verif.Spec.Paths

structure WfRI (ri : RI) : Prop where
  dr : ri.definitelyReturned = true → ri.definitelyExited = true
  dh : ri.definitelyHalted = true → ri.definitelyExited = true

structure Inv (s : St) (σ : Env) (D : List Var) : Prop where
  valid : ∀ x ∈ names s, Invs.get s.inv x = none → σ.get x = some .valid
  gone : ∀ x ∈ names s, s.inv.definitely x = true → σ.get x = some .gone
  present : ∀ x ∈ names s, σ.get x ≠ none
  inScope : ∀ x, σ.get x ≠ none → x ∈ names s
  invD : ∀ x, Invs.get s.inv x ≠ none → x ∈ D
  loc : ∀ x ∈ s.locals, Invs.get s.inv x ≠ none
  namesD : ∀ x ∈ names s, x ∈ D
  wf : WfRI s.ri

/-- what holds after a path segment with outcome `o` -/
def Post (o : Out) (s' : St) (σ' : Env) (D' : List Var) : Prop :=
  match o with
  | .fall => s'.ri.definitelyExited = false ∧ Inv s' σ' D'
  | .ret => ∀ x, σ'.get x ≠ some .valid
  | .halt => True
  | .brk => False
  | .cont => False

theorem Inv.mono {s : St} {σ : Env} {D D' : List Var} (h : Inv s σ D) (hD : ∀ x ∈ D, x ∈ D') : Inv s σ D' :=
  { h with invD := fun x hx => hD x (h.invD x hx), namesD := fun x hx => hD x (h.namesD x hx) }

theorem definitely_cons (m : Invs) (x y : Var) (k : Kind) :
    Invs.definitely ((x, k) :: m) y = if x = y then k.isDefinite else Invs.definitely m y := by
  unfold Invs.definitely
  rw [Invs.get_cons]
  by_cases h : x = y <;> simp [h]

theorem definitely_get {m : Invs} {x : Var} (h : Invs.definitely m x = true) : Invs.get m x ≠ none := by
  unfold Invs.definitely at h
  cases hg : Invs.get m x with
  | none => simp [hg] at h
  | some k => simp

/-! ### the primitives under "no error reported" -/

theorem invalidate_ok {s : St} {x : Var} {k : Kind} {o : Nat}
    (he : (s.invalidate x k o).errs = []) (hde : s.ri.definitelyExited = false)
    (hloc : ∀ y ∈ s.locals, Invs.get s.inv y ≠ none) :
    x ∈ names s ∧ Invs.get s.inv x = none ∧
      ∃ k', s.invalidate x k o = { s with inv := (x, k') :: s.inv, locals := x :: s.locals } := by
  unfold St.invalidate at he ⊢
  rw [maybeAdd_errs] at he
  obtain ⟨hx, hg, hid⟩ := useCheck_ok he
  rw [hid]
  refine ⟨hx, hg, ?_⟩
  unfold St.maybeAdd
  simp only [hde, Bool.false_eq_true, if_false]
  have hd : (s.declOff x).isSome := (declOff_isSome s x).2 hx
  cases hdo : s.declOff x with
  | none => simp [hdo] at hd
  | some d =>
    simp only []
    have hc : s.locals.contains x = false := by
      cases hcc : s.locals.contains x with
      | false => rfl
      | true =>
        have : x ∈ s.locals := by simpa using hcc
        exact absurd hg (hloc x this)
    simp only [hc, Bool.false_eq_true, if_false]
    exact ⟨_, rfl⟩

theorem inv_invalidate {s : St} {σ : Env} {D : List Var} {x : Var} {k : Kind} {o : Nat}
    (hI : Inv s σ D) (he : (s.invalidate x k o).errs = []) (hde : s.ri.definitelyExited = false) :
    σ.get x = some .valid ∧ Inv (s.invalidate x k o) (σ.set x .gone) D ∧
      (s.invalidate x k o).ri = s.ri ∧ (s.invalidate x k o).scopes = s.scopes ∧
      (s.invalidate x k o).loops = s.loops := by
  obtain ⟨hx, hg, k', hk⟩ := invalidate_ok he hde hI.loc
  rw [hk]
  refine ⟨hI.valid x hx hg, ?_, rfl, rfl, rfl⟩
  have hn : names { s with inv := (x, k') :: s.inv, locals := x :: s.locals } = names s := rfl
  constructor
  · intro y hy hgy
    rw [hn] at hy
    simp only [Invs.get_cons] at hgy
    by_cases hxy : x = y
    · simp [hxy] at hgy
    · simp only [hxy, if_false] at hgy
      rw [Env.get_set_other _ _ _ _ (fun e => hxy e.symm)]
      exact hI.valid y hy hgy
  · intro y hy hdy
    rw [hn] at hy
    simp only [definitely_cons] at hdy
    by_cases hxy : x = y
    · subst hxy; exact Env.get_set_self _ _ _
    · simp only [hxy, if_false] at hdy
      rw [Env.get_set_other _ _ _ _ (fun e => hxy e.symm)]
      exact hI.gone y hy hdy
  · intro y hy
    rw [hn] at hy
    by_cases hxy : x = y
    · subst hxy; rw [Env.get_set_self]; simp
    · rw [Env.get_set_other _ _ _ _ (fun e => hxy e.symm)]; exact hI.present y hy
  · intro y hy
    rw [hn]
    by_cases hxy : x = y
    · subst hxy; exact hx
    · rw [Env.get_set_other _ _ _ _ (fun e => hxy e.symm)] at hy; exact hI.inScope y hy
  · intro y hy
    simp only [Invs.get_cons] at hy
    by_cases hxy : x = y
    · subst hxy; exact hI.namesD x hx
    · simp only [hxy, if_false] at hy; exact hI.invD y hy
  · intro y hy
    simp only [Invs.get_cons]
    by_cases hxy : x = y
    · simp [hxy]
    · simp only [hxy, if_false]
      rcases List.mem_cons.1 hy with e | hy
      · exact absurd e.symm hxy
      · exact hI.loc y hy
  · exact hI.namesD
  · exact hI.wf

theorem names_declare {s : St} {x : Var} {off : Nat} {top : List (Var × Nat)} {rest : List (List (Var × Nat))}
    (hs : s.scopes = top :: rest) :
    (s.declare x off).scopes = ((x, off) :: top) :: rest ∧ names (s.declare x off) = x :: names s := by
  unfold St.declare names
  rw [hs]
  simp

theorem inv_declare {s : St} {σ : Env} {D : List Var} {x : Var} {off : Nat}
    {top : List (Var × Nat)} {rest : List (List (Var × Nat))}
    (hI : Inv s σ D) (hs : s.scopes = top :: rest) (hx : x ∉ D) :
    σ.get x = none ∧ Inv (s.declare x off) (σ.set x .valid) (x :: D) := by
  have hσ : σ.get x = none := by
    cases h : σ.get x with
    | none => rfl
    | some v => exact absurd (hI.namesD x (hI.inScope x (by simp [h]))) hx
  have hgx : Invs.get s.inv x = none := by
    cases h : Invs.get s.inv x with
    | none => rfl
    | some v => exact absurd (hI.invD x (by simp [h])) hx
  obtain ⟨_, hn⟩ := names_declare (x := x) (off := off) hs
  have hinv : (s.declare x off).inv = s.inv := by unfold St.declare; rw [hs]
  have hloc : (s.declare x off).locals = s.locals := by unfold St.declare; rw [hs]
  have hri : (s.declare x off).ri = s.ri := by unfold St.declare; rw [hs]
  refine ⟨hσ, ?_⟩
  have hne : ∀ y ∈ names s, y ≠ x := fun y hy e => hx (e ▸ hI.namesD y hy)
  constructor
  · intro y hy hgy
    rw [hn] at hy; rw [hinv] at hgy
    rcases List.mem_cons.1 hy with e | hy
    · subst e; exact Env.get_set_self _ _ _
    · rw [Env.get_set_other _ _ _ _ (hne y hy)]; exact hI.valid y hy hgy
  · intro y hy hdy
    rw [hn] at hy; rw [hinv] at hdy
    rcases List.mem_cons.1 hy with e | hy
    · subst e; exact absurd hgx (definitely_get hdy)
    · rw [Env.get_set_other _ _ _ _ (hne y hy)]; exact hI.gone y hy hdy
  · intro y hy
    rw [hn] at hy
    rcases List.mem_cons.1 hy with e | hy
    · subst e; rw [Env.get_set_self]; simp
    · rw [Env.get_set_other _ _ _ _ (hne y hy)]; exact hI.present y hy
  · intro y hy
    rw [hn]
    by_cases hxy : y = x
    · exact List.mem_cons.2 (Or.inl hxy)
    · rw [Env.get_set_other _ _ _ _ hxy] at hy
      exact List.mem_cons.2 (Or.inr (hI.inScope y hy))
  · intro y hy
    rw [hinv] at hy
    exact List.mem_cons.2 (Or.inr (hI.invD y hy))
  · intro y hy
    rw [hloc] at hy; rw [hinv]
    exact hI.loc y hy
  · intro y hy
    rw [hn] at hy
    rcases List.mem_cons.1 hy with e | hy
    · exact List.mem_cons.2 (Or.inl e)
    · exact List.mem_cons.2 (Or.inr (hI.namesD y hy))
  · rw [hri]; exact hI.wf

/-! ### frame: scopes and loop depth -/

theorem useCheck_frame (s : St) (x : Var) :
    (s.useCheck x).scopes = s.scopes ∧ (s.useCheck x).loops = s.loops := by
  unfold St.useCheck St.report
  split
  · exact ⟨rfl, rfl⟩
  · split <;> exact ⟨rfl, rfl⟩

theorem maybeAdd_frame (s : St) (x : Var) (k : Kind) (o : Nat) :
    (s.maybeAdd x k o).scopes = s.scopes ∧ (s.maybeAdd x k o).loops = s.loops := by
  unfold St.maybeAdd
  split
  · exact ⟨rfl, rfl⟩
  · split
    · exact ⟨rfl, rfl⟩
    · simp only []
      split <;> exact ⟨rfl, rfl⟩

theorem invalidate_frame (s : St) (x : Var) (k : Kind) (o : Nat) :
    (s.invalidate x k o).scopes = s.scopes ∧ (s.invalidate x k o).loops = s.loops := by
  unfold St.invalidate
  obtain ⟨h1, h2⟩ := maybeAdd_frame (s.useCheck x) x k o
  obtain ⟨h3, h4⟩ := useCheck_frame s x
  exact ⟨h1.trans h3, h2.trans h4⟩

theorem lossFold_frame (vs : List (Var × Nat)) (s : St) :
    (vs.foldl (fun s v => if s.inv.definitely v.1 then s else s.report .loss) s).scopes = s.scopes ∧
    (vs.foldl (fun s v => if s.inv.definitely v.1 then s else s.report .loss) s).loops = s.loops ∧
    (vs.foldl (fun s v => if s.inv.definitely v.1 then s else s.report .loss) s).ri = s.ri := by
  induction vs generalizing s with
  | nil => exact ⟨rfl, rfl, rfl⟩
  | cons v vs ih =>
    simp only [List.foldl]
    split
    · exact ih s
    · exact ih (s.report .loss)

theorem lossCheck_frame (s : St) (vs : List (Var × Nat)) :
    (s.lossCheck vs).scopes = s.scopes ∧ (s.lossCheck vs).loops = s.loops ∧ (s.lossCheck vs).ri = s.ri := by
  unfold St.lossCheck
  split
  · exact ⟨rfl, rfl, rfl⟩
  · exact lossFold_frame vs s

theorem declare_loops (s : St) (x : Var) (o : Nat) : (s.declare x o).loops = s.loops := by
  unfold St.declare; split <;> rfl

theorem checkAtom_frame (a : Atom) (s : St) (top : List (Var × Nat)) (rest : List (List (Var × Nat)))
    (hs : s.scopes = top :: rest) :
    ∃ l, (checkAtom s a).scopes = (l ++ top) :: rest ∧ (∀ p ∈ l, p.1 ∈ declared (.atom a)) ∧
      (checkAtom s a).loops = s.loops := by
  have same : ∀ s' : St, s'.scopes = s.scopes → s'.loops = s.loops →
      ∃ l, s'.scopes = (l ++ top) :: rest ∧ (∀ p ∈ l, p.1 ∈ declared (.atom a)) ∧ s'.loops = s.loops :=
    fun s' h1 h2 => ⟨[], by rw [h1, hs]; rfl, by simp, h2⟩
  cases a with
  | letR x off i =>
    have key : ∀ s1 : St, s1.scopes = s.scopes → s1.loops = s.loops →
        ∃ l, (s1.declare x off).scopes = (l ++ top) :: rest ∧ (∀ p ∈ l, p.1 ∈ declared (.atom (.letR x off i))) ∧
          (s1.declare x off).loops = s.loops := by
      intro s1 h1 h2
      obtain ⟨hd, _⟩ := names_declare (s := s1) (x := x) (off := off) (h1.trans hs)
      exact ⟨[(x, off)], by rw [hd]; rfl, by simp [declared], by rw [declare_loops, h2]⟩
    cases i with
    | create => exact key s rfl rfl
    | call => exact key s rfl rfl
    | move y yo =>
      obtain ⟨h1, h2⟩ := invalidate_frame s y .moveDefinite yo
      exact key _ h1 h2
  | destroy x o => obtain ⟨h1, h2⟩ := invalidate_frame s x .destroyDefinite o; exact same _ h1 h2
  | eat x o => obtain ⟨h1, h2⟩ := invalidate_frame s x .moveDefinite o; exact same _ h1 h2
  | use x =>
    obtain ⟨h1, h2⟩ := useCheck_frame s x
    obtain ⟨h3, h4⟩ := useCheck_frame (s.useCheck x) x
    exact same _ (h3.trans h1) (h4.trans h2)
  | read x => obtain ⟨h1, h2⟩ := useCheck_frame s x; exact same _ h1 h2
  | nomove x => obtain ⟨h1, h2⟩ := useCheck_frame s x; exact same _ h1 h2
  | swap x y =>
    obtain ⟨h1, h2⟩ := useCheck_frame s x
    obtain ⟨h3, h4⟩ := useCheck_frame (s.useCheck x) y
    exact same _ (h3.trans h1) (h4.trans h2)
  | skip => exact same _ rfl rfl
  | brk o => simp only [checkAtom]; split <;> exact same _ rfl rfl
  | cont o => simp only [checkAtom]; split <;> exact same _ rfl rfl
  | ret =>
    obtain ⟨h1, h2, _⟩ := lossCheck_frame s s.scopes.flatten
    exact same _ h1 h2
  | panic => exact same _ rfl rfl

theorem leave_frame (outer s1 : St) :
    (St.leave outer s1).scopes = outer.scopes ∧ (St.leave outer s1).loops = s1.loops ∧
      (St.leave outer s1).ri = s1.ri := by
  unfold St.leave
  obtain ⟨_, h2, h3⟩ := lossCheck_frame s1 (s1.scopes.headD [])
  exact ⟨rfl, h2, h3⟩

theorem check_frame (t : Stmt) : ∀ (s : St) (top : List (Var × Nat)) (rest : List (List (Var × Nat))),
    s.scopes = top :: rest →
    ∃ l, (check s t).scopes = (l ++ top) :: rest ∧ (∀ p ∈ l, p.1 ∈ declared t) ∧
      (check s t).loops = s.loops := by
  induction t with
  | nop => intro s top rest hs; exact ⟨[], by simpa [check] using hs, by simp, rfl⟩
  | seq a b iha ihb =>
    intro s top rest hs
    obtain ⟨la, h1, h2, h3⟩ := iha s top rest hs
    simp only [check]
    split
    · exact ⟨la, h1, fun p hp => by simp [declared, h2 p hp], h3⟩
    · obtain ⟨lb, h4, h5, h6⟩ := ihb (check s a) (la ++ top) rest h1
      refine ⟨lb ++ la, by rw [h4]; simp, ?_, h6.trans h3⟩
      intro p hp
      simp only [declared, List.mem_append] at hp ⊢
      rcases hp with hp | hp
      · exact Or.inr (h5 p hp)
      · exact Or.inl (h2 p hp)
  | atom a => intro s top rest hs; exact checkAtom_frame a s top rest hs
  | ite t e _ _ =>
    intro s top rest hs
    exact ⟨[], by simp [check, St.merged, hs], by simp, by simp [check, St.merged]⟩
  | iflet y yo x xo t e _ _ =>
    intro s top rest hs
    obtain ⟨h1, h2⟩ := invalidate_frame s x .moveDefinite xo
    exact ⟨[], by simp [check, St.merged, h1, hs], by simp, by simp [check, St.merged, h2]⟩
  | «while» b _ =>
    intro s top rest hs
    exact ⟨[], by simp [check, St.merged, hs], by simp, by simp [check, St.merged]⟩

/-! ### atoms -/

theorem use_ok {s : St} {σ : Env} {D : List Var} {x : Var} (hI : Inv s σ D) (he : (s.useCheck x).errs = []) :
    s.useCheck x = s ∧ σ.get x = some .valid := by
  obtain ⟨hx, hg, hid⟩ := useCheck_ok he
  exact ⟨hid, hI.valid x hx hg⟩

theorem declare_same (s : St) (x : Var) (o : Nat) :
    (s.declare x o).ri = s.ri ∧ (s.declare x o).errs = s.errs := by
  unfold St.declare; split <;> exact ⟨rfl, rfl⟩

theorem sound_atom (a : Atom) {s : St} {σ : Env} {D : List Var}
    {top : List (Var × Nat)} {rest : List (List (Var × Nat))}
    (hI : Inv s σ D) (hs : s.scopes = top :: rest) (hl : s.loops = 0 ∨ (Stmt.atom a).hasJump = false)
    (hde : s.ri.definitelyExited = false) (he : (checkAtom s a).errs = [])
    (hfresh : ∀ x ∈ (Stmt.atom a).declNames, x ∉ D) :
    ∃ σ', run σ (atomEvents a).1 = some σ' ∧
      Post (atomEvents a).2 (checkAtom s a) σ' ((Stmt.atom a).declNames ++ D) := by
  cases a with
  | letR x off i =>
    have hx : x ∉ D := hfresh x (by simp [Stmt.declNames])
    cases i with
    | create =>
      obtain ⟨hσ, hI'⟩ := inv_declare (off := off) hI hs hx
      refine ⟨σ.set x .valid, by simp [atomEvents, run, step, hσ], ?_⟩
      show (s.declare x off).ri.definitelyExited = false ∧ Inv (s.declare x off) _ (x :: D)
      exact ⟨by rw [(declare_same s x off).1]; exact hde, hI'⟩
    | call =>
      obtain ⟨hσ, hI'⟩ := inv_declare (off := off) hI hs hx
      refine ⟨σ.set x .valid, by simp [atomEvents, run, step, hσ], ?_⟩
      show (s.declare x off).ri.definitelyExited = false ∧ Inv (s.declare x off) _ (x :: D)
      exact ⟨by rw [(declare_same s x off).1]; exact hde, hI'⟩
    | move y yo =>
      have he1 : (s.invalidate y .moveDefinite yo).errs = [] := by
        have : (checkAtom s (.letR x off (.move y yo))).errs = (s.invalidate y .moveDefinite yo).errs :=
          (declare_same _ x off).2
        rw [← this]; exact he
      obtain ⟨hσy, hI1, hri, hsc, _⟩ := inv_invalidate hI he1 hde
      obtain ⟨hσx, hI2⟩ := inv_declare (off := off) hI1 (hsc.trans hs) hx
      refine ⟨(σ.set y .gone).set x .valid, by simp [atomEvents, run, step, hσy, hσx], ?_⟩
      show ((s.invalidate y .moveDefinite yo).declare x off).ri.definitelyExited = false ∧
        Inv ((s.invalidate y .moveDefinite yo).declare x off) _ (x :: D)
      exact ⟨by rw [(declare_same _ x off).1, hri]; exact hde, hI2⟩
  | destroy x o =>
    obtain ⟨hσ, hI1, hri, _, _⟩ := inv_invalidate hI he hde
    refine ⟨σ.set x .gone, by simp [atomEvents, run, step, hσ], ?_⟩
    show (s.invalidate x .destroyDefinite o).ri.definitelyExited = false ∧ Inv (s.invalidate x .destroyDefinite o) _ D
    exact ⟨by rw [hri]; exact hde, hI1⟩
  | eat x o =>
    obtain ⟨hσ, hI1, hri, _, _⟩ := inv_invalidate hI he hde
    refine ⟨σ.set x .gone, by simp [atomEvents, run, step, hσ], ?_⟩
    show (s.invalidate x .moveDefinite o).ri.definitelyExited = false ∧ Inv (s.invalidate x .moveDefinite o) _ D
    exact ⟨by rw [hri]; exact hde, hI1⟩
  | use x =>
    have he0 : (s.useCheck x).errs = [] :=
      errs_nil_of_mono (f := fun s => s.useCheck x) (fun s => useCheck_errs s x) he
    obtain ⟨hid, hσ⟩ := use_ok hI he0
    refine ⟨σ, by simp [atomEvents, run, step, hσ], ?_⟩
    show ((s.useCheck x).useCheck x).ri.definitelyExited = false ∧ Inv ((s.useCheck x).useCheck x) σ D
    rw [hid, hid]; exact ⟨hde, hI⟩
  | read x =>
    obtain ⟨hid, hσ⟩ := use_ok hI he
    refine ⟨σ, by simp [atomEvents, run, step, hσ], ?_⟩
    show (s.useCheck x).ri.definitelyExited = false ∧ Inv (s.useCheck x) σ D
    rw [hid]; exact ⟨hde, hI⟩
  | nomove x => simp [checkAtom, St.report] at he
  | swap x y =>
    have he0 : (s.useCheck x).errs = [] :=
      errs_nil_of_mono (f := fun s => s.useCheck y) (fun s => useCheck_errs s y) he
    obtain ⟨hid, hσ⟩ := use_ok hI he0
    have he1 : (s.useCheck y).errs = [] := by
      have : (checkAtom s (.swap x y)) = (s.useCheck x).useCheck y := rfl
      rw [this, hid] at he; exact he
    obtain ⟨hid', hσ'⟩ := use_ok hI he1
    refine ⟨σ, by simp [atomEvents, run, step, hσ, hσ'], ?_⟩
    show ((s.useCheck x).useCheck y).ri.definitelyExited = false ∧ Inv ((s.useCheck x).useCheck y) σ D
    rw [hid, hid']; exact ⟨hde, hI⟩
  | skip => exact ⟨σ, rfl, hde, hI⟩
  | brk o =>
    rcases hl with hl | hl
    · simp [checkAtom, hl, St.report] at he
    · simp [Stmt.hasJump] at hl
  | cont o =>
    rcases hl with hl | hl
    · simp [checkAtom, hl, St.report] at he
    · simp [Stmt.hasJump] at hl
  | ret =>
    have he0 : (s.lossCheck s.scopes.flatten).errs = [] := he
    obtain ⟨_, hor⟩ := lossCheck_ok he0
    refine ⟨σ, rfl, ?_⟩
    show ∀ x, σ.get x ≠ some .valid
    intro x hv
    rcases hor with ⟨h, _⟩ | hall
    · rw [hde] at h; exact absurd h (by simp)
    · have hx : x ∈ names s := hI.inScope x (by rw [hv]; simp)
      obtain ⟨p, hp, hpx⟩ := List.mem_map.1 hx
      have := hI.gone x hx (by rw [← hpx]; exact hall p hp)
      rw [hv] at this; exact absurd this (by simp)
  | panic => exact ⟨σ, rfl, trivial⟩

/-! ### statements -/

theorem Post.mono {o : Out} {s : St} {σ : Env} {D D' : List Var} (h : Post o s σ D) (hD : ∀ x ∈ D, x ∈ D') :
    Post o s σ D' := by
  cases o with
  | fall => exact ⟨h.1, h.2.mono hD⟩
  | ret => exact h
  | halt => trivial
  | brk => exact h
  | cont => exact h

theorem Post.state_irrel {o : Out} {s s' : St} {σ : Env} {D D' : List Var} (h : Post o s σ D) (ho : o ≠ .fall) :
    Post o s' σ D' := by
  cases o with
  | fall => exact absurd rfl ho
  | ret => exact h
  | halt => trivial
  | brk => exact h
  | cont => exact h

/-! ### blocks and functions -/

theorem declared_sub (t : Stmt) : ∀ x ∈ declared t, x ∈ t.declNames := by
  induction t with
  | nop => simp [declared]
  | seq a b iha ihb =>
    intro x hx
    simp only [declared, Stmt.declNames, List.mem_append] at hx ⊢
    exact hx.imp (iha x) (ihb x)
  | atom a => cases a <;> simp [declared, Stmt.declNames]
  | ite t e _ _ => simp [declared]
  | iflet y yo x xo t e _ _ => simp [declared]
  | «while» b _ => simp [declared]

theorem lossFold_same (vs : List (Var × Nat)) (s : St) :
    (vs.foldl (fun s v => if s.inv.definitely v.1 then s else s.report .loss) s).inv = s.inv ∧
    (vs.foldl (fun s v => if s.inv.definitely v.1 then s else s.report .loss) s).locals = s.locals := by
  induction vs generalizing s with
  | nil => exact ⟨rfl, rfl⟩
  | cons v vs ih =>
    simp only [List.foldl]
    split
    · exact ih s
    · exact ih (s.report .loss)

theorem params_init (ps : List (Var × Nat)) : ∀ (σ : Env), (ps.map (·.1)).Nodup →
    (∀ p ∈ ps, σ.get p.1 = none) →
    ∃ σ', run σ (ps.map fun p => Ev.create p.1) = some σ' ∧
      ∀ x, σ'.get x = if x ∈ ps.map (·.1) then some .valid else σ.get x := by
  induction ps with
  | nil => intro σ _ _; exact ⟨σ, rfl, by simp⟩
  | cons p ps ih =>
    intro σ hnd hnone
    simp only [List.map_cons, List.nodup_cons] at hnd
    have hp : σ.get p.1 = none := hnone p (List.mem_cons.2 (Or.inl rfl))
    obtain ⟨σ', hr, hg⟩ := ih (σ.set p.1 .valid) hnd.2 (by
      intro q hq
      have hne : q.1 ≠ p.1 := fun e => hnd.1 (e ▸ List.mem_map.2 ⟨q, hq, rfl⟩)
      rw [Env.get_set_other _ _ _ _ hne]
      exact hnone q (List.mem_cons.2 (Or.inr hq)))
    refine ⟨σ', by simp [run, step, hp, hr], ?_⟩
    intro x
    rw [hg x]
    by_cases hx : x ∈ ps.map (·.1)
    · simp [hx]
    · by_cases hxp : x = p.1
      · subst hxp; simp [hx, Env.get_set_self]
      · simp [hx, hxp, Env.get_set_other _ _ _ _ hxp]

end Verif.Proofs.Lin
