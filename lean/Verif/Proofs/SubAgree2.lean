/-
C08 helper lemmas, part 5: `agree` — on well-formed types the rule interpreter at any fuel from
`fuelFor a b` upwards equals `Struct.sub a b` (induction on the total size, one case per super shape,
using the unfolding lemmas of parts 1–3).
-/
import Verif.Proofs.SubAgree
import Verif.Proofs.SubStruct
import Verif.Proofs.SubUnfoldS
import Verif.Proofs.SubUnfoldC
import Verif.Proofs.SubUnfoldN
import Verif.Proofs.SubUnfoldF
import Verif.Proofs.SubUnfoldP
namespace Verif.Proofs.SubUnfold
open Verif.Model.Types Verif.Model.Types.Struct Verif.Model.Auth

theorem fld_param (t : Ty) : field (.param t) "Type" = .ty t := rfl

theorem evalPred_param (k : Nat) (env : Env) (a b : Ty) :
    evalPred R (k + 2) { env with source := .ty a, target := .ty b } paramPred = isSub R k b a := by
  have e1 : evalExpr { env with source := .ty a, target := .ty b }
      (.member (.member (.ident "target") "TypeAnnotation") "Type") = .ty b := by
    simp only [evalExpr, field_ta, fld_param]
  have e2 : evalExpr { env with source := .ty a, target := .ty b }
      (.member (.member (.ident "source") "TypeAnnotation") "Type") = .ty a := by
    simp only [evalExpr, field_ta, fld_param]
  unfold paramPred
  rw [evalPred, e2, e1]
  simp only [subVal]

/-- the `forAll` over the parameter lists of two function types is `subParams` (super's parameters first) -/
theorem forAll_params (s : Nat) (env : Env)
    (ih : ∀ x y : Ty, x.size + y.size ≤ s → x.wf = true → y.wf = true → ∀ n, fuelFor x y ≤ n → isSub R n x y = Struct.sub x y) :
    ∀ (p p' : Ty), p.wfParams = true → p'.wfParams = true → p.size + p'.size ≤ s →
      ∀ f, 40 * (p.size + p'.size) + 10 ≤ f →
      forAllPairs R f env paramPred p.toList p'.toList = subParams p' p := by
  intro p
  induction p with
  | nilT =>
    intro p' _ hp' _ f hf
    obtain ⟨k, rfl⟩ := le_add 1 f (by omega)
    cases p' <;> simp [Ty.wfParams] at hp'
    · simp [Ty.toList, forAllPairs, subParams_nil_nil]
    · simp [Ty.toList, forAllPairs, subParams_cons_nil]
  | consT a r _ ihr =>
    intro p' hp hp' hs f hf
    simp only [Ty.wfParams, Bool.and_eq_true] at hp
    cases p' <;> simp [Ty.wfParams] at hp'
    · obtain ⟨k, rfl⟩ := le_add 1 f (by omega)
      simp [Ty.toList, forAllPairs, subParams_nil_cons]
    · rename_i b r'
      simp only [Ty.size] at hs hf
      obtain ⟨k, rfl⟩ := le_add 3 f (by omega)
      have h1 : forAllPairs R (k + 3) env paramPred (Ty.consT a r).toList (Ty.consT b r').toList =
          (evalPred R (k + 2) { env with source := .ty a, target := .ty b } paramPred &&
            forAllPairs R (k + 2) env paramPred r.toList r'.toList) := by
        simp [Ty.toList, forAllPairs]
      rw [h1, evalPred_param, subParams_cons_cons,
        ih b a (by omega) hp'.1 hp.1 k (by simp only [fuelFor]; have := size_pos r; have := size_pos r'; omega),
        ihr r' hp.2 hp'.2 (by omega) (k + 2) (by omega)]
  | _ => intro p' hp; simp [Ty.wfParams] at hp


theorem nonprim_sub (a : Ty) (hnp : NonPrim a) (p : String) : Struct.sub a (.prim p) = chkPrim a p := by
  rw [sub_def, chk_prim, np_ne a hnp, np_never a hnp]; rfl

/-- discharges the fuel side conditions of `agree` -/
macro "fuel_ok" : tactic => `(tactic| (simp only [fuelFor, Ty.size] at *; omega))

theorem agree : ∀ (s : Nat) (a b : Ty), a.size + b.size ≤ s → a.wf = true → b.wf = true →
    ∀ n, fuelFor a b ≤ n → isSub R n a b = Struct.sub a b := by
  intro s
  induction s with
  | zero => intro a b h; have := size_pos a; have := size_pos b; omega
  | succ s ih =>
    intro a b hs ha hb n hn
    have hn120 : 120 ≤ n := by have := size_pos a; have := size_pos b; simp only [fuelFor] at hn; omega
    cases b with
    | prim p =>
      have hp : p ∈ primNames := by simpa [Ty.wf] using hb
      rcases prim_or_not a with ⟨x, rfl⟩ | hnp
      · have hx : x ∈ primNames := by simpa [Ty.wf] using ha
        rw [prim_super_stable _ p hp n (by omega), Verif.Proofs.SubStruct.prim_agree x p hx hp, sub_prim_prim x p hx hp]
      · rw [prim_super_np a hnp p hp n (by omega), nonprim_sub a hnp]
    | opt t =>
      obtain ⟨m, rfl⟩ := le_add 8 n (by omega)
      simp only [Ty.wf] at hb
      rw [isSubC_opt, sub_def, chk_opt]
      cases a with
      | opt x => simp only [Ty.wf] at ha; simp only []; rw [ih x t (by fuel_ok) ha hb (m + 2) (by fuel_ok)]
      | _ => simp only []; rw [ih _ t (by fuel_ok) ha hb (m + 2) (by fuel_ok)]
    | varArr t =>
      obtain ⟨m, rfl⟩ := le_add 8 n (by omega)
      simp only [Ty.wf] at hb
      rw [isSubC_varArr, sub_def, chk_varArr]
      cases a with
      | varArr x => simp only [Ty.wf] at ha; simp only []; rw [ih x t (by fuel_ok) ha hb (m + 2) (by fuel_ok)]
      | _ => rfl
    | constArr t k =>
      obtain ⟨m, rfl⟩ := le_add 8 n (by omega)
      simp only [Ty.wf] at hb
      rw [isSubC_constArr, sub_def, chk_constArr]
      cases a with
      | constArr x k' => simp only [Ty.wf] at ha; simp only []; rw [ih x t (by fuel_ok) ha hb (m + 1) (by fuel_ok)]
      | _ => rfl
    | dict k v =>
      obtain ⟨m, rfl⟩ := le_add 8 n (by omega)
      simp only [Ty.wf, Bool.and_eq_true] at hb
      rw [isSubC_dict, sub_def, chk_dict]
      cases a with
      | dict k' v' =>
        simp only [Ty.wf, Bool.and_eq_true] at ha; simp only []
        rw [ih v' v (by fuel_ok) ha.2 hb.2 (m + 2) (by fuel_ok), ih k' k (by fuel_ok) ha.1 hb.1 (m + 1) (by fuel_ok)]
      | _ => rfl
    | ref au t =>
      obtain ⟨m, rfl⟩ := le_add 8 n (by omega)
      simp only [Ty.wf] at hb
      rw [isSubC_ref, sub_def, chk_ref]
      cases a with
      | ref au' x => simp only [Ty.wf] at ha; simp only []; rw [ih x t (by fuel_ok) ha hb (m + 1) (by fuel_ok)]
      | _ => rfl
    | comp nm k cs bb =>
      obtain ⟨m, rfl⟩ := le_add 12 n (by omega)
      rw [isSubC_comp, sub_def, chk_comp, Bool.or_false]
    | iface i =>
      obtain ⟨m, rfl⟩ := le_add 12 n (by omega)
      rw [isSubC_iface, sub_def, chk_iface]
      cases a <;> rfl
    | inter sup =>
      obtain ⟨m, rfl⟩ := le_add 20 n (by omega)
      rw [isSubC_inter, sub_def, chk_inter]
      cases a <;> rfl
    | fn v' p' r' =>
      obtain ⟨m, rfl⟩ := le_add 12 n (by omega)
      simp only [Ty.wf, Bool.and_eq_true] at hb
      rcases fn_or_not a with ⟨v, p, r, rfl⟩ | hnf
      · simp only [Ty.wf, Bool.and_eq_true] at ha
        rw [isSubC_fn_fn, sub_def, chk_fn]
        rw [forAll_params s _ ih p p' ha.1 hb.1 (by fuel_ok) (m + 5) (by fuel_ok),
          ih r r' (by fuel_ok) ha.2 hb.2 (m + 3) (by fuel_ok)]
        simp [never, ty_beq, Bool.and_assoc]
      · rw [isSubC_fn_other m a hnf, sub_def, chk_fn]
        cases a <;> first | exact absurd rfl (hnf _ _ _) | simp [never, ty_beq]
    | nilT => simp [Ty.wf] at hb
    | consT t r => simp [Ty.wf] at hb
    | capAny =>
      obtain ⟨m, rfl⟩ := le_add 12 n (by omega)
      rw [isSubC_capAny, sub_def, chk_capAny]
      cases a <;> rfl
    | cap t =>
      obtain ⟨m, rfl⟩ := le_add 14 n (by omega)
      simp only [Ty.wf] at hb
      rw [isSubC_cap, sub_def, chk_cap]
      cases a with
      | cap x => simp only [Ty.wf] at ha; simp only []; rw [ih x t (by fuel_ok) ha hb (m + 1) (by fuel_ok)]
      | _ => rfl
    | range t =>
      obtain ⟨m, rfl⟩ := le_add 14 n (by omega)
      simp only [Ty.wf] at hb
      rw [isSubC_range, sub_def, chk_range]
      cases a with
      | range x => simp only [Ty.wf] at ha; simp only []; rw [ih x t (by fuel_ok) ha hb (m + 1) (by fuel_ok)]
      | _ => rfl

end Verif.Proofs.SubUnfold
