import Verif.Model.Front.Lexer
import Verif.Spec.Tokens
import Verif.Spec.LineCol
import Verif.Proofs.LexerWalk
/-! Helper lemmas for C37 (lexer port). -/
namespace Verif.Proofs.Lexer
open Verif.Model.Front Verif.Model.Front.Lexer Verif.Spec.Tokens Verif.Proofs.LexerWalk

/-! ### frame: what the non-emitting primitives leave alone -/

/-- the part of the state only `emit` writes (besides `err`) -/
def key (l : L) : List Token × Nat × Nat × Pos × Bytes × Nat := (l.toks, l.ntok, l.startOffset, l.startPos, l.input, l.limit)

/-- `l'` comes from `l` without emitting: same tokens / word start / input; the sticky error is never cleared -/
def Frame (l l' : L) : Prop := key l' = key l ∧ (l'.err = none → l.err = none)

theorem Frame.refl (l : L) : Frame l l := ⟨rfl, id⟩
theorem Frame.trans {a b c : L} (h1 : Frame a b) (h2 : Frame b c) : Frame a c :=
  ⟨h2.1.trans h1.1, fun h => h1.2 (h2.2 h)⟩

theorem frame_fail (l : L) (e : LexErr) : Frame l (l.fail e) := by
  unfold L.fail; split
  · exact Frame.refl l
  · exact ⟨rfl, fun h => by simp at h⟩

@[simp] theorem toks_fail (l : L) (e : LexErr) : (l.fail e).toks = l.toks := by
  unfold L.fail; split <;> rfl

theorem frame_next (l : L) : Frame l (next l).1 := ⟨rfl, id⟩

theorem frame_backupOne (l : L) : Frame l (backupOne l) := by
  unfold backupOne; split
  · exact frame_fail _ _
  · exact ⟨rfl, id⟩

theorem frame_acceptWhileN (n : Nat) (f : Rune → Bool) (l : L) : Frame l (acceptWhileN n f l) := by
  induction n generalizing l with
  | zero => exact frame_fail _ _
  | succ n ih =>
    simp only [acceptWhileN]; split
    · exact (frame_next l).trans (ih _)
    · exact (frame_next l).trans (frame_backupOne _)

theorem frame_acceptWhile (f : Rune → Bool) (l : L) : Frame l (acceptWhile f l) := frame_acceptWhileN _ _ _

theorem frame_scanStringN (n : Nat) (l : L) : Frame l (scanStringN n l) := by
  induction n generalizing l with
  | zero => exact frame_fail _ _
  | succ n ih =>
    simp only [scanStringN]
    split
    · exact frame_next l
    · split
      · exact (frame_next l).trans (frame_backupOne _)
      · split
        · split
          · exact ⟨rfl, id⟩
          · split
            · exact ((frame_next l).trans (frame_next _)).trans (frame_backupOne _)
            · exact ((frame_next l).trans (frame_next _)).trans (ih _)
        · exact (frame_next l).trans (ih _)

theorem frame_scanString (l : L) : Frame l (scanString l) := frame_scanStringN _ _

theorem frame_acceptOne (r : Rune) (l : L) : Frame l (acceptOne r l).1 := by
  simp only [acceptOne]; split
  · exact frame_next l
  · exact (frame_next l).trans (frame_backupOne _)

/-! ### contiguity -/

/-- the invariant: the tokens so far are contiguous and (unless a panic interrupted `emit`) the current word
    starts right after them -/
def CInv (l : L) : Prop :=
  ContigRev l.toks ∧ (l.err = none → lastEnd l.toks + 1 = (l.startOffset : Int))

theorem cinv_frame {l l' : L} (hf : Frame l l') (h : CInv l) : CInv l' := by
  obtain ⟨hk, he⟩ := hf
  have h1 : l'.toks = l.toks := congrArg (·.1) hk
  have h2 : l'.startOffset = l.startOffset := congrArg (·.2.2.1) hk
  exact ⟨h1 ▸ h.1, fun e => by rw [h1, h2]; exact h.2 (he e)⟩

theorem cinv_emit (ty : Nat) (nl : Bool) (rs : Int × Pos) (consume : Bool) (l : L)
    (h : CInv l)
    (hc : (ty = T.error ∧ consume = false) ∨ (ty ≠ T.error ∧ consume = true ∧ rs.1 = (l.startOffset : Int))) :
    CInv (emit ty nl rs consume l) := by
  unfold emit
  split
  · exact h
  · rename_i herr
    have herr' : l.err = none := by cases h' : l.err <;> simp_all
    split
    · exact cinv_frame (frame_fail _ _) h
    · split
      · exact cinv_frame (frame_fail _ _) h
      · obtain ⟨h1, h2⟩ := h
        have h2 := h2 herr'
        rcases hc with ⟨hty, hcons⟩ | ⟨hty, hcons, hrs⟩
        · subst hcons
          simp only [Bool.false_eq_true, if_false]
          refine ⟨⟨?_, h1⟩, fun _ => ?_⟩
          · left; simp [isError, hty]
          · simpa [lastEnd, isError, hty] using h2
        · subst hcons
          simp only [if_true]
          split
          · refine ⟨?_, fun e => ?_⟩
            · rw [toks_fail]
              exact ⟨Or.inr (by simp only; omega), h1⟩
            · exfalso
              simp [L.fail, herr'] at e
          · refine ⟨⟨Or.inr (by simp only; omega), h1⟩, fun _ => ?_⟩
            simp [lastEnd, isError, hty]

theorem cinv_emitType (ty : Nat) (l : L) (hty : ty ≠ T.error) (h : CInv l) : CInv (emitType ty l) :=
  cinv_emit _ _ _ _ _ h (Or.inr ⟨hty, rfl, rfl⟩)

theorem cinv_emitError (l : L) (h : CInv l) : CInv (emitError l) := by
  unfold emitError; split
  · exact cinv_frame (frame_fail _ _) h
  · exact cinv_emit _ _ _ _ _ h (Or.inl ⟨rfl, rfl⟩)

theorem cinv_setMode (l : L) (m : Mode) (h : CInv l) : CInv { l with mode := m } := h
theorem cinv_setOpenBrackets (l : L) (v : Int) (h : CInv l) : CInv { l with openBrackets := v } := h
theorem cinv_setEndOffset (l : L) (v : Nat) (h : CInv l) : CInv { l with endOffset := v } := h

/-! ### bounds: the loops of the port stay inside the input and raise no model error -/

def OkErr (l : L) : Prop := l.err = none ∨ l.err = some .tokenLimit

/-- positions: the current word starts at a rune boundary; as long as all tokens so far are good the running
    start position is the true position of that boundary; the tokens so far satisfy `ExactRev` -/
def K (l : L) : Prop :=
  ∃ p0, Walk l.input 0 ⟨1, 0⟩ l.startOffset p0 ∧ (AllGood l.input l.toks → l.startPos = p0) ∧ ExactRev l.input l.toks

theorem K_frame {l l' : L} (hf : Frame l l') (h : K l) : K l' := by
  obtain ⟨hk, _⟩ := hf
  have h1 : l'.toks = l.toks := congrArg (·.1) hk
  have h2 : l'.startOffset = l.startOffset := congrArg (·.2.2.1) hk
  have h3 : l'.startPos = l.startPos := congrArg (·.2.2.2.1) hk
  have h4 : l'.input = l.input := congrArg (·.2.2.2.2.1) hk
  unfold K
  rw [h1, h2, h3, h4]
  exact h

/-- the word read so far consists of whole runes -/
def Ch (l : L) : Prop := ∃ pe, Walk l.input l.startOffset l.startPos l.endOffset pe

/-- state between primitives: nothing read ahead; `m` is a lower bound of `endOffset` -/
structure A (n m : Nat) (l : L) : Prop where
  size : l.input.size = n
  lo : m ≤ l.endOffset
  hi : l.endOffset ≤ n
  se : l.startOffset ≤ l.endOffset
  ok : OkErr l
  ch : Ch l
  k : K l

/-- state right after a `next()` from an `A` state -/
structure B (n m : Nat) (l : L) : Prop where
  size : l.input.size = n
  cb : l.canBackup = true
  lo : m ≤ l.prevEndOffset
  phi : l.prevEndOffset ≤ n
  sp : l.startOffset ≤ l.prevEndOffset
  lt : l.prevEndOffset < l.endOffset
  hi : l.endOffset ≤ n + 1
  ok : OkErr l
  ne : l.current ≠ EOF → l.endOffset ≤ n
  chp : ∃ pp, Walk l.input l.startOffset l.startPos l.prevEndOffset pp
  ew : l.prevEndOffset < n → l.endOffset = l.prevEndOffset + (decodeRune l.input l.prevEndOffset).2
  k : K l

theorem decodeRune_width (inp : Bytes) (off : Nat) (h : off < inp.size) :
    1 ≤ (decodeRune inp off).2 ∧ off + (decodeRune inp off).2 ≤ inp.size := by
  unfold decodeRune
  rw [if_pos h]
  simp only []
  generalize hsz : (if byteAt inp off < 0xE0 then 2 else if byteAt inp off < 0xF0 then 3 else 4) = sz
  have hsz' : sz = 2 ∨ sz = 3 ∨ sz = 4 := by
    subst hsz; split
    · simp
    · split <;> simp
  repeat' split
  all_goals first | omega | (simp only []; omega) | (simp only [] at *; omega)

theorem next_B {n m : Nat} {l : L} (h : A n m l) : B n m (next l).1 ∧ (next l).2 = (next l).1.current := by
  refine ⟨?_, rfl⟩
  obtain ⟨hs, hlo, hhi, hse, hok, hch, hk⟩ := h
  by_cases hlt : l.endOffset < l.input.size
  · have hw := Verif.Proofs.Lexer.decodeRune_width l.input l.endOffset hlt
    refine ⟨hs, rfl, hlo, hhi, hse, ?_, ?_, hok, ?_, hch, ?_, hk⟩
    · simp only [next, hlt, if_true]; omega
    · simp only [next, hlt, if_true]; omega
    · intro _; simp only [next, hlt, if_true]; omega
    · intro _; simp only [next, hlt, if_true]
  · refine ⟨hs, rfl, hlo, hhi, hse, ?_, ?_, hok, ?_, hch, ?_, hk⟩
    · simp only [next, hlt, if_false]; omega
    · simp only [next, hlt, if_false]; omega
    · intro hne; exfalso; apply hne; simp only [next, hlt, if_false]
    · intro h'; exfalso; have : (next l).1.prevEndOffset = l.endOffset := rfl; omega

theorem B_A {n m : Nat} {l : L} (h : B n m l) (hne : l.current ≠ EOF) : A n (m + 1) l := by
  refine ⟨h.size, by have := h.lo; have := h.lt; omega, h.ne hne, by have := h.sp; have := h.lt; omega, h.ok, ?_, h.k⟩
  have hlt : l.prevEndOffset < n := by have := h.ne hne; have := h.lt; omega
  obtain ⟨pp, hpp⟩ := h.chp
  have hst := Walk.step hpp (by rw [h.size]; exact hlt)
  rw [← h.ew hlt] at hst
  exact ⟨_, hst⟩

theorem backup_A {n m : Nat} {l : L} (h : B n m l) : A n m (backupOne l) := by
  unfold backupOne
  simp only [h.cb, Bool.not_true, Bool.false_eq_true, if_false]
  exact ⟨h.size, h.lo, h.phi, h.sp, h.ok, h.chp, h.k⟩

theorem A_mono {n m m' : Nat} {l : L} (h : A n m l) (hm : m' ≤ m) : A n m' l :=
  ⟨h.size, by have := h.lo; omega, h.hi, h.se, h.ok, h.ch, h.k⟩

theorem acceptWhileN_A {n m : Nat} (f : Rune → Bool) (hf : f EOF = false) (fuel : Nat) (l : L)
    (h : A n m l) (hfuel : n + 1 - l.endOffset ≤ fuel) : A n m (acceptWhileN fuel f l) := by
  induction fuel generalizing l m with
  | zero => have := h.hi; omega
  | succ k ih =>
    simp only [acceptWhileN]
    obtain ⟨hb, hr⟩ := next_B h
    split
    · rename_i hfr
      have hne : (next l).1.current ≠ EOF := by
        intro he; rw [hr, he, hf] at hfr; exact absurd hfr (by decide)
      have ha := B_A hb hne
      have := hb.lt
      have hp : (next l).1.prevEndOffset = l.endOffset := rfl
      exact A_mono (ih _ ha (by omega)) (by omega)
    · exact backup_A hb

theorem acceptWhile_A {n m : Nat} (f : Rune → Bool) (hf : f EOF = false) (l : L) (h : A n m l) :
    A n m (acceptWhile f l) := by
  unfold acceptWhile
  exact acceptWhileN_A f hf _ l h (by have := h.size; omega)

theorem scanStringN_A {n m : Nat} (fuel : Nat) (l : L)
    (h : A n m l) (hfuel : n + 1 - l.endOffset ≤ fuel) : A n m (scanStringN fuel l) := by
  induction fuel generalizing l m with
  | zero => have := h.hi; omega
  | succ k ih =>
    simp only [scanStringN]
    obtain ⟨hb, hr⟩ := next_B h
    have hp : (next l).1.prevEndOffset = l.endOffset := rfl
    have hlt := hb.lt
    split
    · rename_i h34
      exact A_mono (B_A hb (by rw [← hr, h34]; decide)) (by omega)
    · split
      · exact backup_A hb
      · rename_i hnq hnl
        have hne : (next l).1.current ≠ EOF := by
          rw [← hr]; intro he; exact hnl (Or.inr he)
        have ha := B_A hb hne
        split
        · obtain ⟨hb2, hr2⟩ := next_B ha
          have hp2 : (next (next l).1).1.prevEndOffset = (next l).1.endOffset := rfl
          split
          · -- string template: rewind to the backslash
            refine ⟨hb2.size, ?_, ?_, ?_, hb2.ok, h.ch, h.k⟩
            · show m ≤ (next l).1.prevEndOffset; rw [hp]; exact h.lo
            · show (next l).1.prevEndOffset ≤ n; rw [hp]; exact h.hi
            · show (next (next l).1).1.startOffset ≤ (next l).1.prevEndOffset; rw [hp]; exact h.se
          · split
            · exact A_mono (backup_A hb2) (by omega)
            · rename_i _ hnl2
              have hne2 : (next (next l).1).1.current ≠ EOF := by
                rw [← hr2]; intro he; exact hnl2 (Or.inr he)
              have ha2 := B_A hb2 hne2
              have := hb2.lt
              exact A_mono (ih _ ha2 (by omega)) (by omega)
        · exact A_mono (ih _ ha (by omega)) (by omega)

theorem endPosWalk_isSome (fuel : Nat) (inp : Bytes) (e off : Nat) (p : Pos) (he : e ≤ inp.size + 1) :
    ∃ q, endPosWalk fuel inp e off p = some q := by
  induction fuel generalizing off p with
  | zero => exact ⟨p, rfl⟩
  | succ k ih =>
    simp only [endPosWalk]
    split
    · split
      · omega
      · exact ih _ _
    · exact ⟨p, rfl⟩

theorem okErr_fail_limit (l : L) (h : OkErr l) : OkErr (l.fail .tokenLimit) := by
  unfold L.fail; split
  · exact h
  · exact Or.inr rfl

theorem fail_fields (l : L) (e : LexErr) :
    (l.fail e).input = l.input ∧ (l.fail e).endOffset = l.endOffset ∧ (l.fail e).startOffset = l.startOffset ∧
    (l.fail e).startPos = l.startPos ∧ (l.fail e).toks = l.toks := by
  unfold L.fail; split <;> exact ⟨rfl, rfl, rfl, rfl, rfl⟩

theorem Ch_fail (l : L) (e : LexErr) (h : Ch l) : Ch (l.fail e) := by
  obtain ⟨h1, h2, h3, h4, _⟩ := fail_fields l e
  unfold Ch; rw [h1, h2, h3, h4]; exact h

theorem A_fail_limit {n m : Nat} (l : L) (h : A n m l) : A n m (l.fail .tokenLimit) := by
  obtain ⟨h1, h2, h3, _, _⟩ := fail_fields l .tokenLimit
  exact ⟨by rw [h1]; exact h.size, by rw [h2]; exact h.lo, by rw [h2]; exact h.hi, by rw [h2, h3]; exact h.se,
    okErr_fail_limit l h.ok, Ch_fail _ _ h.ch, K_frame (frame_fail _ _) h.k⟩

/-- the token a consuming `emit` appends -/
def newTok (l : L) (ty : Nat) (nl : Bool) (ep : Pos) : Token :=
  { ty, startOff := Int.ofNat l.startOffset, startPos := l.startPos, endOff := (l.endOffset : Int) - 1, endPos := ep, nl }

/-- the token appended by a consuming `emit` is exact when it is good and its predecessors are -/
theorem emit_tok_exact {n m : Nat} (l : L) (h : A n m l) (ep : Pos) (hep : endPos l = some ep) (ty : Nat) (nl : Bool) :
    AllGood l.input l.toks →
    good l.input (newTok l ty nl ep) →
    Exact l.input (newTok l ty nl ep) ∧
    ∃ pe, Walk l.input 0 ⟨1, 0⟩ l.endOffset pe ∧
      pe = advance ep (decodeRune l.input (l.endOffset - 1)).1 := by
  intro hall hgood
  obtain ⟨p0, hw0, hsp, _⟩ := h.k
  have hsp' := hsp hall
  obtain ⟨pe, hch⟩ := h.ch
  rw [hsp'] at hch
  obtain ⟨hne, h0, hascii⟩ := hgood
  simp only [newTok] at hne h0 hascii
  have hlt : l.startOffset < l.endOffset := by
    have : ((l.startOffset : Nat) : Int) ≤ (l.endOffset : Int) - 1 := hne
    omega
  have htn : ((l.endOffset : Int) - 1).toNat = l.endOffset - 1 := by omega
  rw [htn] at hascii
  obtain ⟨pq, hwq, hq, hpe⟩ := walk_last_ascii hch hlt hascii
  have hepq : ep = pq := by
    have := endPosWalk_exact hwq (by omega)
    unfold endPos at hep
    rw [hsp', this] at hep
    exact (Option.some.inj hep).symm
  subst hepq
  refine ⟨⟨?_, ?_⟩, pe, walk_trans hw0 hch, ?_⟩
  · show l.startPos = posOf l.input (Int.ofNat l.startOffset)
    rw [hsp']; exact (walk_posOf hw0 _ rfl).symm
  · show ep = posOf l.input ((l.endOffset : Int) - 1)
    exact (walk_posOf (walk_trans hw0 hwq) _ (by omega)).symm
  · rw [hpe, decodeRune_ascii l.input _ hq hascii]

theorem emit_A {n m : Nat} (ty : Nat) (nl : Bool) (rs : Int × Pos) (consume : Bool) (l : L)
    (h : A n m l) (h1 : 1 ≤ l.endOffset)
    (hc : (consume = false → ty = T.error) ∧ (consume = true → rs = (Int.ofNat l.startOffset, l.startPos))) :
    A n m (emit ty nl rs consume l) := by
  unfold emit
  split
  · exact h
  · split
    · exact A_fail_limit l h
    · obtain ⟨q, hq⟩ := endPosWalk_isSome (l.endOffset - l.startOffset) l.input l.endOffset l.startOffset l.startPos
        (by have := h.hi; have := h.size; omega)
      have hq' : endPos l = some q := hq
      rw [hq']
      simp only []
      obtain ⟨p0, hw0, hsp, hex⟩ := h.k
      cases consume with
      | false =>
        have hty := hc.1 rfl
        subst hty
        refine ⟨h.size, h.lo, h.hi, h.se, h.ok, h.ch, p0, hw0, ?_, ?_, hex⟩
        · intro hall; exact hsp (fun t ht => hall t (List.mem_cons_of_mem _ ht))
        · intro _ herr; exact absurd herr (by simp [isError])
      | true =>
        have hrs := hc.2 rfl
        subst hrs
        simp only [if_true]
        -- the claim for the new token
        have hclaim : AllGood l.input l.toks → isError (newTok l ty nl q) = false →
            good l.input (newTok l ty nl q) → Exact l.input (newTok l ty nl q) :=
          fun hall _ hg => (emit_tok_exact l h q hq' ty nl hall hg).1
        split
        · rename_i hbad; have := h.hi; have := h.size; omega
        · -- the new word starts at `endOffset`
          obtain ⟨pe, hch⟩ := h.ch
          obtain ⟨pe0, hwe0⟩ := walk_repos hch p0
          refine ⟨h.size, h.lo, h.hi, Nat.le_refl _, h.ok, ⟨_, Walk.refl _ _⟩, ?_⟩
          by_cases hg : AllGood l.input (newTok l ty nl q :: l.toks)
          · have hall : AllGood l.input l.toks := fun t ht => hg t (List.mem_cons_of_mem _ ht)
            obtain ⟨_, pe', hwe', hpe'⟩ := emit_tok_exact l h q hq' ty nl hall (hg _ List.mem_cons_self)
            exact ⟨pe', hwe', fun _ => hpe'.symm, hclaim, hex⟩
          · exact ⟨pe0, walk_trans hw0 hwe0, fun hg' => absurd hg' hg, hclaim, hex⟩

theorem emitType_A {n m : Nat} (ty : Nat) (l : L) (h : A n m l) (h1 : 1 ≤ l.endOffset) : A n m (emitType ty l) :=
  emit_A _ _ _ _ _ h h1 ⟨fun h => by simp at h, fun _ => rfl⟩

theorem emitError_A {n m : Nat} (l : L) (h : A n m l) (h1 : 1 ≤ l.endOffset) : A n m (emitError l) := by
  unfold emitError
  obtain ⟨q, hq⟩ := endPosWalk_isSome (l.endOffset - l.startOffset) l.input l.endOffset l.startOffset l.startPos
    (by have := h.hi; have := h.size; omega)
  have hq' : endPos l = some q := hq
  rw [hq']
  exact emit_A _ _ _ _ _ h h1 ⟨fun _ => rfl, fun h => by simp at h⟩

theorem scanString_A {n m : Nat} (l : L) (h : A n m l) : A n m (scanString l) := by
  unfold scanString
  exact scanStringN_A _ l h (by have := h.size; omega)

/-- in-bounds state with nothing read ahead (`A` with its own `endOffset` as lower bound) -/
def InBounds (l : L) : Prop := A l.input.size l.endOffset l

attribute [local irreducible] emit emitType emitError next backupOne acceptWhile scanString acceptOne
  scanFixedPointRemainder scanDecimalOrFixedPointRemainder L.fail

macro "cinv_step" : tactic => `(tactic| repeat (first
  | assumption
  | apply cinv_emitType _ _ (by decide)
  | apply cinv_emitError
  | apply cinv_lexError
  | apply cinv_frame (frame_next _)
  | apply cinv_frame (frame_backupOne _)
  | apply cinv_frame (frame_acceptWhile _ _)
  | apply cinv_frame (frame_scanString _)
  | apply cinv_frame (frame_acceptOne _ _)))

theorem cinv_scanFixedPointRemainder (l : L) (h : CInv l) : CInv (scanFixedPointRemainder l) := by
  simp only [scanFixedPointRemainder]; split <;> cinv_step

theorem scanDecimal_ty (l : L) :
    (scanDecimalOrFixedPointRemainder l).2 = T.fixedPoint ∨ (scanDecimalOrFixedPointRemainder l).2 = T.decimal := by
  simp only [scanDecimalOrFixedPointRemainder]; split <;> simp

theorem cinv_scanDecimal (l : L) (h : CInv l) : CInv (scanDecimalOrFixedPointRemainder l).1 := by
  simp only [scanDecimalOrFixedPointRemainder]; split
  · apply cinv_scanFixedPointRemainder; cinv_step
  · cinv_step

theorem cinv_emitType_scanDecimal (l : L) (h : CInv l) :
    CInv (emitType (scanDecimalOrFixedPointRemainder l).2 (scanDecimalOrFixedPointRemainder l).1) := by
  apply cinv_emitType
  · rcases scanDecimal_ty l with h' | h' <;> rw [h'] <;> decide
  · exact cinv_scanDecimal l h

theorem cinv_numberStep (l : L) (h : CInv l) : CInv (numberStep l) := by
  simp only [numberStep]
  split
  · split
    · cinv_step
    · split
      · cinv_step
      · split
        · cinv_step
        · split
          · apply cinv_emitType_scanDecimal; cinv_step
          · split
            · apply cinv_emitType _ _ (by decide); apply cinv_scanFixedPointRemainder; cinv_step
            · split
              · cinv_step
              · split
                · apply cinv_emitType
                  · rcases scanDecimal_ty (next l).1 with h' | h' <;> rw [h'] <;> decide
                  · apply cinv_scanDecimal; cinv_step
                · cinv_step
  · exact cinv_emitType_scanDecimal l h

theorem cinv_identifierStep (l : L) (h : CInv l) : CInv (identifierStep l) := by
  simp only [identifierStep]
  split
  · exact cinv_frame ((frame_acceptWhile _ _).trans (frame_fail _ _)) h
  · split
    · cinv_step
    · split <;> cinv_step
  · cinv_step

theorem cinv_blockCommentStep (n : Nat) (l : L) (h : CInv l) : CInv (blockCommentStep n l).2 := by
  simp only [blockCommentStep]
  split
  · cinv_step
  · split
    · split
      · apply cinv_emitType _ _ (by decide)
        split
        · apply cinv_setEndOffset; apply cinv_emitType _ _ (by decide); apply cinv_setEndOffset; cinv_step
        · cinv_step
      · cinv_step
    · split
      · split
        · apply cinv_emitType _ _ (by decide)
          split
          · apply cinv_setEndOffset; apply cinv_emitType _ _ (by decide); apply cinv_setEndOffset; cinv_step
          · cinv_step
        · cinv_step
      · cinv_step

theorem cinv_lexError (l : L) (h : CInv l) : CInv (lexError l).2 := cinv_emitError l h
attribute [local irreducible] lexError

theorem cinv_rootStep (l : L) (h : CInv l) : CInv (rootStep l).2 := by
  simp only [rootStep]
  split
  all_goals try (first
    | (cinv_step; done)
    | (split <;> cinv_step; done)
    | (split <;> (try split) <;> cinv_step; done)
    | (split <;> (try split) <;> (try split) <;> cinv_step; done))
  · rename_i ty hne heq
    exact cinv_emitType _ _ hne (cinv_frame (frame_next _) h)
  · split
    · split
      · apply cinv_setOpenBrackets; cinv_step
      · apply cinv_lexError; cinv_step
    · apply cinv_lexError; cinv_step
  · apply cinv_lexError; cinv_step

theorem cinv_step' (st : St) (l : L) (h : CInv l) : CInv (step st l).2 := by
  cases st with
  | root => exact cinv_rootStep l h
  | number => exact cinv_numberStep l h
  | space nl =>
    simp only [step, scanSpace]
    exact cinv_emit _ _ _ _ _ (cinv_frame (frame_acceptWhile _ _) h) (Or.inr ⟨by decide, rfl, rfl⟩)
  | identifier => exact cinv_identifierStep l h
  | string => simp only [step]; cinv_step
  | lineComment => simp only [step]; cinv_step
  | blockComment n => exact cinv_blockCommentStep n l h

theorem cinv_run (fuel : Nat) (st : St) (l : L) (h : CInv l) : CInv (run fuel st l).2 := by
  induction fuel generalizing st l with
  | zero => exact h
  | succ n ih =>
    simp only [run]
    split
    · exact cinv_step' st l h
    · split
      · exact cinv_step' st l h
      · exact ih _ _ (cinv_step' st l h)

theorem cinv_init (inp : Bytes) (limit : Nat) : CInv (L.init inp limit) := ⟨trivial, fun _ => rfl⟩

/-- the tokens of `lexWith limit inp`, in emission order, are contiguous from offset 0 -/
theorem lex_contiguous (limit : Nat) (inp : Bytes) : Contiguous (lexWith limit inp).tokens := by
  have := (cinv_run (fuelFor inp) .root _ (cinv_init inp limit)).1
  simpa [Contiguous, Result.tokens, lexWith] using this

end Verif.Proofs.Lexer
