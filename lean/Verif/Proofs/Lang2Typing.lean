import Verif.Model.Lang2.Eval
/-
A small typing judgment for the scalar expression sub-fragment of μCadence (integer and boolean
literals, variables, unary and binary operators, `&&`, `||`, the conditional operator) and its
soundness for the L2 evaluator: a well-typed expression in a well-typed environment never evaluates to
an internal error (none of the evaluator's defensive checks fires), evaluates to a value of its type,
and leaves the state unchanged.  Used by Properties/C01.
-/
namespace Verif.Model.Lang2
open Verif.Model.Lang (IntKind UnOp BinOp arith compareOp)

inductive STy where
  | int (k : IntKind)
  | bool
  deriving DecidableEq, Repr

def Val.hasTy : Val → STy → Prop
  | .int k _, .int k' => k = k'
  | .bool _, .bool => True
  | _, _ => False

abbrev TEnv := List (String × STy)

def TEnv.lookup (Γ : TEnv) (x : String) : Option STy := (Γ.find? (·.1 == x)).map (·.2)

def isArith : BinOp → Bool
  | .add | .sub | .mul | .div | .mod | .band | .bor | .bxor | .shl | .shr => true
  | _ => false

def isCompare : BinOp → Bool
  | .lt | .le | .gt | .ge => true
  | _ => false

/-- the typing judgment as a function (syntax-directed) -/
def typeOf (Γ : TEnv) : Expr → Option STy
  | .intLit k _ => some (.int k)
  | .boolLit _ => some .bool
  | .var x => Γ.lookup x
  | .unary .neg e => match typeOf Γ e with | some (.int k) => some (.int k) | _ => none
  | .unary .not e => match typeOf Γ e with | some .bool => some .bool | _ => none
  | .binary op a b =>
    match typeOf Γ a, typeOf Γ b with
    | some (.int k), some (.int k') =>
      if k = k' then (if isArith op then some (.int k) else some .bool) else none
    | some .bool, some .bool => if op = .eq ∨ op = .ne then some .bool else none
    | _, _ => none
  | .and a b => match typeOf Γ a, typeOf Γ b with | some .bool, some .bool => some .bool | _, _ => none
  | .or a b => match typeOf Γ a, typeOf Γ b with | some .bool, some .bool => some .bool | _, _ => none
  | .cond c t e =>
    match typeOf Γ c, typeOf Γ t, typeOf Γ e with
    | some .bool, some τ, some τ' => if τ = τ' then some τ else none
    | _, _, _ => none
  | _ => none

/-- the environment holds, for every typed variable, a value of that type -/
def EnvOk (Γ : TEnv) (env : Env) : Prop :=
  ∀ x τ, Γ.lookup x = some τ → ∃ v, env.lookup x = some v ∧ v.hasTy τ

/-- what soundness promises about one evaluation -/
def Sound (τ : STy) (s : State) (r : Res Val) : Prop :=
  r.st = s ∧ r.tr = [] ∧
  match r.out with
  | .ok v => v.hasTy τ
  | .internalErr _ => False
  | _ => True

theorem check_not_internal (k : IntKind) (n : Int) :
    ∀ e, k.check n = .error e → e = .overflow ∨ e = .underflow := by
  intro e h
  unfold IntKind.check at h
  repeat (first | split at h | simp at h | (cases h; simp))

theorem arith_not_mismatch (k : IntKind) (op : BinOp) (a b : Int) (hop : isArith op = true) :
    ∀ e, arith k op a b = .error e → e ≠ .typeMismatch ∧ e ≠ .unbound ∧ e ≠ .unsupported := by
  intro e h
  cases op <;> simp [isArith] at hop <;> simp only [arith] at h
  all_goals
    repeat (first
      | (have := check_not_internal _ _ _ h; rcases this with rfl | rfl <;> simp)
      | split at h
      | (cases h; simp)
      | simp at h)

theorem ofBase_sound_int (k : IntKind) (x : Except Verif.Model.Lang.ErrKind Int) (s : State)
    (hx : ∀ e, x = .error e → e ≠ .typeMismatch ∧ e ≠ .unbound ∧ e ≠ .unsupported) :
    Sound (.int k) s ((M.ofBase x >>= fun r => (pure (Val.int k r) : M Val)) s) := by
  cases x with
  | ok r => simp [M.ofBase, bind, M.bind, pure, M.pure, Sound, Val.hasTy]
  | error e =>
    obtain ⟨h1, h2, h3⟩ := hx e rfl
    simp [M.ofBase, bind, M.bind, Sound, h1, h2, h3, M.userErr]

theorem Sound.bind {τ1 τ2 : STy} {s : State} {m : M Val} {f : Val → M Val}
    (hm : Sound τ1 s (m s)) (hf : ∀ v, v.hasTy τ1 → Sound τ2 s (f v s)) :
    Sound τ2 s ((m >>= f) s) := by
  obtain ⟨hst, htr, hout⟩ := hm
  show Sound τ2 s (M.bind m f s)
  cases ho : (m s).out with
  | ok v =>
    rw [ho] at hout
    obtain ⟨a, b, c⟩ := hf v hout
    have e : M.bind m f s = ⟨(f v s).out, (f v s).st, (f v s).tr⟩ := by
      simp only [M.bind, ho, hst, htr, List.nil_append]
    rw [e]; exact ⟨a, b, c⟩
  | userErr k =>
    have e : M.bind m f s = ⟨.userErr k, s, []⟩ := by simp only [M.bind, ho, hst, htr]
    rw [e]; exact ⟨rfl, rfl, trivial⟩
  | internalErr k => rw [ho] at hout; exact hout.elim
  | outOfFuel =>
    have e : M.bind m f s = ⟨.outOfFuel, s, []⟩ := by simp only [M.bind, ho, hst, htr]
    rw [e]; exact ⟨rfl, rfl, trivial⟩

theorem Sound.pure {τ : STy} {s : State} {v : Val} (h : v.hasTy τ) : Sound τ s ((pure v : M Val) s) :=
  ⟨rfl, rfl, h⟩

theorem hasTy_int {v : Val} {k : IntKind} (h : v.hasTy (.int k)) : ∃ n, v = .int k n := by
  cases v <;> simp [Val.hasTy] at h
  subst h; exact ⟨_, rfl⟩

theorem hasTy_bool {v : Val} (h : v.hasTy .bool) : ∃ b, v = .bool b := by
  cases v <;> simp [Val.hasTy] at h
  exact ⟨_, rfl⟩

theorem applyBinary_int_sound (op : BinOp) (k : IntKind) (x y : Int) (s : State) :
    Sound (if isArith op then .int k else .bool) s (applyBinary op (.int k x) (.int k y) s) := by
  cases op
  case eq => exact Sound.pure (by simp [isArith, Val.hasTy])
  case ne => exact Sound.pure (by simp [isArith, Val.hasTy])
  case lt => simp only [applyBinary, isArith, beq_self_eq_true, if_true, compareOp]; exact Sound.pure (by simp [Val.hasTy])
  case le => simp only [applyBinary, isArith, beq_self_eq_true, if_true, compareOp]; exact Sound.pure (by simp [Val.hasTy])
  case gt => simp only [applyBinary, isArith, beq_self_eq_true, if_true, compareOp]; exact Sound.pure (by simp [Val.hasTy])
  case ge => simp only [applyBinary, isArith, beq_self_eq_true, if_true, compareOp]; exact Sound.pure (by simp [Val.hasTy])
  all_goals
    simp only [applyBinary, isArith, beq_self_eq_true, if_true]
    exact ofBase_sound_int k _ s (arith_not_mismatch k _ x y (by simp [isArith]))

/-- **soundness of the scalar expression fragment** -/
theorem eval_sound (p : Program) (Γ : TEnv) : ∀ (n : Nat) (e : Expr) (τ : STy) (s : State),
    typeOf Γ e = some τ → EnvOk Γ s.env → Sound τ s (eval p n e s)
  | 0, e, τ, s, _, _ => by simp [eval, Sound, M.outOfFuel]
  | n + 1, e, τ, s, ht, henv => by
    cases e with
    | intLit k v =>
      simp only [typeOf, Option.some.injEq] at ht; subst ht
      simp only [eval]; exact Sound.pure (by simp [Val.hasTy])
    | boolLit b =>
      simp only [typeOf, Option.some.injEq] at ht; subst ht
      simp only [eval]; exact Sound.pure (by simp [Val.hasTy])
    | var x =>
      simp only [typeOf] at ht
      obtain ⟨v, hv, hty⟩ := henv x τ ht
      simp only [eval, getVar, hv]
      cases v <;> simp [Val.hasTy] at hty <;> exact ⟨rfl, rfl, by simpa [Val.hasTy] using hty⟩
    | unary op a =>
      cases op with
      | neg =>
        simp only [typeOf] at ht
        split at ht <;> simp at ht
        next k hk =>
        subst ht
        simp only [eval]
        refine Sound.bind (eval_sound p Γ n a (.int k) s hk henv) (fun v hv => ?_)
        obtain ⟨m, rfl⟩ := hasTy_int hv
        simp only [applyUnary]
        exact ofBase_sound_int k _ s (fun e he => by
          rcases check_not_internal _ _ e he with rfl | rfl <;> simp)
      | not =>
        simp only [typeOf] at ht
        split at ht <;> simp at ht
        next hk =>
        subst ht
        simp only [eval]
        refine Sound.bind (eval_sound p Γ n a .bool s hk henv) (fun v hv => ?_)
        obtain ⟨b, rfl⟩ := hasTy_bool hv
        simp only [applyUnary]
        exact Sound.pure (by simp [Val.hasTy])
    | binary op a b =>
      simp only [typeOf] at ht
      split at ht
      · next k k' ha hb =>
        by_cases hkk : k = k'
        · subst hkk
          simp only [if_true] at ht
          simp only [eval]
          refine Sound.bind (eval_sound p Γ n a (.int k) s ha henv) (fun va hva => ?_)
          refine Sound.bind (eval_sound p Γ n b (.int k) s hb henv) (fun vb hvb => ?_)
          obtain ⟨x, rfl⟩ := hasTy_int hva
          obtain ⟨y, rfl⟩ := hasTy_int hvb
          have hs := applyBinary_int_sound op k x y s
          by_cases har : isArith op = true
          · simp only [har, if_true, Option.some.injEq] at ht hs; subst ht; exact hs
          · simp only [har, Bool.false_eq_true, if_false, Option.some.injEq] at ht hs; subst ht; exact hs
        · simp [hkk] at ht
      · next ha hb =>
        by_cases hop : op = .eq ∨ op = .ne
        · simp only [hop, if_true, Option.some.injEq] at ht; subst ht
          simp only [eval]
          refine Sound.bind (eval_sound p Γ n a .bool s ha henv) (fun va hva => ?_)
          refine Sound.bind (eval_sound p Γ n b .bool s hb henv) (fun vb hvb => ?_)
          rcases hop with rfl | rfl <;> exact Sound.pure (by simp [Val.hasTy])
        · simp [hop] at ht
      · simp at ht
    | and a b =>
      simp only [typeOf] at ht
      split at ht <;> simp at ht
      next ha hb =>
      subst ht
      simp only [eval]
      refine Sound.bind (eval_sound p Γ n a .bool s ha henv) (fun va hva => ?_)
      obtain ⟨x, rfl⟩ := hasTy_bool hva
      cases x
      · exact Sound.pure (by simp [Val.hasTy])
      · refine Sound.bind (eval_sound p Γ n b .bool s hb henv) (fun vb hvb => ?_)
        obtain ⟨y, rfl⟩ := hasTy_bool hvb
        exact Sound.pure (by simp [Val.hasTy])
    | or a b =>
      simp only [typeOf] at ht
      split at ht <;> simp at ht
      next ha hb =>
      subst ht
      simp only [eval]
      refine Sound.bind (eval_sound p Γ n a .bool s ha henv) (fun va hva => ?_)
      obtain ⟨x, rfl⟩ := hasTy_bool hva
      cases x
      · refine Sound.bind (eval_sound p Γ n b .bool s hb henv) (fun vb hvb => ?_)
        obtain ⟨y, rfl⟩ := hasTy_bool hvb
        exact Sound.pure (by simp [Val.hasTy])
      · exact Sound.pure (by simp [Val.hasTy])
    | cond c t e =>
      simp only [typeOf] at ht
      split at ht
      · next τ1 τ2 hc htt hee =>
        by_cases hτ : τ1 = τ2
        · subst hτ
          simp only [if_true, Option.some.injEq] at ht; subst ht
          simp only [eval]
          refine Sound.bind (eval_sound p Γ n c .bool s hc henv) (fun vc hvc => ?_)
          obtain ⟨x, rfl⟩ := hasTy_bool hvc
          cases x
          · exact eval_sound p Γ n e τ1 s hee henv
          · exact eval_sound p Γ n t τ1 s htt henv
        · simp [hτ] at ht
      · simp at ht
    | _ => simp [typeOf] at ht

end Verif.Model.Lang2
