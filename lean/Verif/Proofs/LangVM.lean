import Verif.Proofs.LangTrace
import Verif.Model.Lang.VM.Compile
/-
Forward simulation between the μCadence evaluator and the model compiler + stack machine
(C34), first stage: call-free expressions of layer L0, value case.
-/
namespace Verif.Model.Lang.VM
open Verif.Model.Lang

/-- expressions without invocations (their evaluation neither logs nor changes the state, and the
machine stays within one activation) -/
def noCall : Expr → Bool
  | .intLit .. | .boolLit _ | .strLit _ | .voidLit | .nilLit | .var _ => true
  | .unary _ a | .force a => noCall a
  | .binary _ a b | .and a b | .or a b => noCall a && noCall b
  | .cond c t e => noCall c && noCall t && noCall e
  | _ => false

/-- the compile-time scope describes the run-time environment: every name visible in the evaluator's
environment is bound to a slot holding the same value -/
def Agree (sc : Scope) (env : Env) (locals : Locals) : Prop :=
  ∀ x i, sc.slot x = some i → ∀ v, env.lookup x = some v → locals.get i = some v

/-- `Reach tbl code locals (pc, stk) (pc', stk')`: the activation runs from `pc` to `pc'` by
instructions that neither log, call, return nor fail, leaving the locals unchanged -/
inductive Reach (tbl : Table) (code : List Instr) (locals : Locals) : Nat × List Value → Nat × List Value → Prop where
  | refl (c) : Reach tbl code locals c c
  | cons {pc stk pc' stk' c''} :
      VM.step tbl ⟨code, pc, stk, locals⟩ = Step.next ⟨code, pc', stk', locals⟩ [] →
      Reach tbl code locals (pc', stk') c'' → Reach tbl code locals (pc, stk) c''

theorem Reach.trans {tbl code locals a b c} (h1 : Reach tbl code locals a b) (h2 : Reach tbl code locals b c) :
    Reach tbl code locals a c := by
  induction h1 with
  | refl _ => exact h2
  | cons hs _ ih => exact .cons hs (ih h2)

theorem Reach.one {tbl code locals pc stk pc' stk'}
    (h : VM.step tbl ⟨code, pc, stk, locals⟩ = Step.next ⟨code, pc', stk', locals⟩ []) :
    Reach tbl code locals (pc, stk) (pc', stk') := .cons h (.refl _)

theorem code_at (pre : List Instr) (ins : Instr) (post : List Instr) :
    (pre ++ ins :: post)[pre.length]? = some ins := by
  simp

/-- call-free expressions are pure -/
theorem eval_noCall_pure (p : Program) : ∀ (n : Nat) (e : Expr) (s : State), noCall e = true →
    (eval p n e s).st = s ∧ (eval p n e s).tr = [] := by
  intro n
  induction n with
  | zero => intro e s _; cases e <;> exact ⟨rfl, rfl⟩
  | succ n ih =>
    intro e s h
    have q : ∀ {α β} (m : M α) (g : α → M β) (s : State), ((m s).st = s ∧ (m s).tr = []) →
        (∀ a, (g a s).st = s ∧ (g a s).tr = []) → ((m >>= g) s).st = s ∧ ((m >>= g) s).tr = [] := by
      intro α β m g s hm hg
      have := M.bind_quiet m g s ⟨hm.2, hm.1⟩ (fun a => ⟨(hg a).2, (hg a).1⟩)
      exact ⟨this.2, this.1⟩
    cases e with
    | intLit k v => exact ⟨rfl, rfl⟩
    | boolLit b => exact ⟨rfl, rfl⟩
    | strLit b => exact ⟨rfl, rfl⟩
    | voidLit => exact ⟨rfl, rfl⟩
    | nilLit => exact ⟨rfl, rfl⟩
    | var x => simp only [eval]; exact ⟨getVar_st _ _, getVar_tr _ _⟩
    | unary op a =>
      simp only [noCall] at h
      simp only [eval]
      exact q _ _ _ (ih a s h) (fun v => ⟨M.ofExcept_st _ _, M.ofExcept_tr _ _⟩)
    | binary op a b =>
      simp only [noCall, Bool.and_eq_true] at h
      simp only [eval]
      exact q _ _ _ (ih a s h.1) (fun va => q _ _ _ (ih b s h.2) (fun vb => ⟨M.ofExcept_st _ _, M.ofExcept_tr _ _⟩))
    | and a b =>
      simp only [noCall, Bool.and_eq_true] at h
      simp only [eval]
      refine q _ _ _ (ih a s h.1) (fun va => ?_)
      cases va with
      | bool bv =>
        cases bv
        · exact ⟨rfl, rfl⟩
        · exact q _ _ _ (ih b s h.2) (fun vb => by cases vb <;> exact ⟨rfl, rfl⟩)
      | _ => exact ⟨rfl, rfl⟩
    | or a b =>
      simp only [noCall, Bool.and_eq_true] at h
      simp only [eval]
      refine q _ _ _ (ih a s h.1) (fun va => ?_)
      cases va with
      | bool bv =>
        cases bv
        · exact q _ _ _ (ih b s h.2) (fun vb => by cases vb <;> exact ⟨rfl, rfl⟩)
        · exact ⟨rfl, rfl⟩
      | _ => exact ⟨rfl, rfl⟩
    | cond c t e =>
      simp only [noCall, Bool.and_eq_true] at h
      simp only [eval]
      refine q _ _ _ (ih c s h.1.1) (fun vc => ?_)
      cases vc with
      | bool bv => cases bv; exact ih e s h.2; exact ih t s h.1.2
      | _ => exact ⟨rfl, rfl⟩
    | force a =>
      simp only [noCall] at h
      simp only [eval]
      refine q _ _ _ (ih a s h) (fun va => ?_)
      cases va <;> exact ⟨rfl, rfl⟩
    | _ => simp [noCall] at h


theorem bind_ok_inv {α β} {m : M α} {f : α → M β} {s : State} {b : β}
    (h : ((m >>= f) s).out = .ok b) : ∃ a, (m s).out = .ok a ∧ (f a (m s).st).out = .ok b := by
  cases hm : (m s).out with
  | ok a => rw [M.bind_ok _ _ _ _ hm] at h; exact ⟨a, rfl, h⟩
  | userErr k => rw [M.bind_failed _ _ _ (by intro x; simp [hm])] at h; simp [hm, Outcome.castErr] at h
  | internalErr k => rw [M.bind_failed _ _ _ (by intro x; simp [hm])] at h; simp [hm, Outcome.castErr] at h
  | outOfFuel => rw [M.bind_failed _ _ _ (by intro x; simp [hm])] at h; simp [hm, Outcome.castErr] at h

theorem ofExcept_ok_inv {α} {x : Except ErrKind α} {s : State} {v : α}
    (h : (M.ofExcept x s).out = .ok v) : x = .ok v := by
  cases x with
  | ok a => simp only [M.ofExcept, M.pure] at h; cases h; rfl
  | error k => simp only [M.ofExcept] at h; split at h <;> simp [M.internalErr, M.userErr] at h

theorem getVar_ok_inv {x : String} {s : State} {v : Value} (h : (getVar x s).out = .ok v) :
    s.env.lookup x = some v := by
  unfold getVar at h
  split at h
  · next w hw => simp only [Outcome.ok.injEq] at h; rw [hw, h]
  · simp at h

/-- one instruction at `pre.length` -/
theorem step_at (tbl : Table) (pre post : List Instr) (ins : Instr) (stk : List Value) (locals : Locals)
    (code : List Instr) (hc : code = pre ++ ins :: post) :
    code[pre.length]? = some ins := by
  subst hc; simp

theorem at_pos {code l1 l2 : List Instr} {ins : Instr} (h : code = l1 ++ ins :: l2) {k : Nat}
    (hk : k = l1.length) : code[k]? = some ins := by
  subst h hk; simp

/-- **Forward simulation, value case, call-free expressions of L0**: if the evaluator yields `v`, the
compiled code, wherever it is placed, runs from its first to its last instruction and leaves `v` on
top of the operand stack. -/
theorem sim_expr_ok (p : Program) (tbl : Table) : ∀ (n : Nat) (e : Expr) (s : State) (v : Value),
    noCall e = true → (eval p n e s).out = .ok v →
    ∀ (sc : Scope) (c : List Instr), compileExpr sc e = some c →
    ∀ (locals : Locals), Agree sc s.env locals →
    ∀ (code pre post : List Instr) (stk : List Value), code = pre ++ c ++ post →
      Reach tbl code locals (pre.length, stk) (pre.length + c.length, v :: stk) := by
  intro n
  induction n with
  | zero => intro e s v _ h; cases e <;> simp [eval, M.outOfFuel] at h
  | succ n ih =>
    intro e s v hnc h sc c hc locals hag code pre post stk hcode
    -- a single instruction `ins` at `pre.length` that pushes `v`
    have single : ∀ (ins : Instr), c = [ins] →
        VM.step tbl ⟨code, pre.length, stk, locals⟩ = Step.next ⟨code, pre.length + 1, v :: stk, locals⟩ [] →
        Reach tbl code locals (pre.length, stk) (pre.length + c.length, v :: stk) := by
      intro ins hci hs; subst hci; exact Reach.one hs
    cases e with
    | intLit k x =>
      simp only [compileExpr, Option.some.injEq] at hc; subst hc
      simp only [eval] at h; cases h
      refine single _ rfl ?_
      simp [VM.step, hcode]
    | boolLit x =>
      simp only [compileExpr, Option.some.injEq] at hc; subst hc
      simp only [eval] at h; cases h
      refine single _ rfl ?_
      simp [VM.step, hcode]
    | strLit x =>
      simp only [compileExpr, Option.some.injEq] at hc; subst hc
      simp only [eval] at h; cases h
      refine single _ rfl ?_
      simp [VM.step, hcode]
    | voidLit =>
      simp only [compileExpr, Option.some.injEq] at hc; subst hc
      simp only [eval] at h; cases h
      refine single _ rfl ?_
      simp [VM.step, hcode]
    | nilLit =>
      simp only [compileExpr, Option.some.injEq] at hc; subst hc
      simp only [eval] at h; cases h
      refine single _ rfl ?_
      simp [VM.step, hcode]
    | var x =>
      simp only [compileExpr, Option.map_eq_some_iff] at hc
      obtain ⟨i, hi, hc⟩ := hc; subst hc
      simp only [eval] at h
      have hl := hag x i hi v (getVar_ok_inv h)
      refine single _ rfl ?_
      simp [VM.step, hcode, hl]
    | unary op a =>
      simp only [noCall] at hnc
      cases hca : compileExpr sc a with
      | none => simp [compileExpr, hca] at hc
      | some ca =>
        simp only [compileExpr, hca, Option.bind_eq_bind, Option.bind_some, Option.some.injEq] at hc
        subst hc
        simp only [eval] at h
        obtain ⟨va, hva, h2⟩ := bind_ok_inv h
        have hap := ofExcept_ok_inv h2
        have r1 := ih a s va hnc hva sc ca hca locals hag code pre ([.unop op] ++ post) stk (by simp [hcode])
        have hi := at_pos (code := code) (l1 := pre ++ ca) (l2 := post) (ins := .unop op) (by simp [hcode])
          (k := pre.length + ca.length) (by simp only [List.length_append, List.length_cons, List.length_nil] <;> omega)
        have r2 : Reach tbl code locals (pre.length + ca.length, va :: stk) (pre.length + ca.length + 1, v :: stk) :=
          Reach.one (by simp only [VM.step, hi, stepExcept, hap])
        have := r1.trans r2
        simpa [Nat.add_assoc] using this
    | force a =>
      simp only [noCall] at hnc
      cases hca : compileExpr sc a with
      | none => simp [compileExpr, hca] at hc
      | some ca =>
        simp only [compileExpr, hca, Option.bind_eq_bind, Option.bind_some, Option.some.injEq] at hc
        subst hc
        simp only [eval] at h
        obtain ⟨va, hva, h2⟩ := bind_ok_inv h
        have r1 := ih a s va hnc hva sc ca hca locals hag code pre ([.unwrap] ++ post) stk (by simp [hcode])
        have hi := at_pos (code := code) (l1 := pre ++ ca) (l2 := post) (ins := .unwrap) (by simp [hcode])
          (k := pre.length + ca.length) (by simp only [List.length_append, List.length_cons, List.length_nil] <;> omega)
        have r2 : Reach tbl code locals (pre.length + ca.length, va :: stk) (pre.length + ca.length + 1, v :: stk) := by
          cases va <;> first
            | (simp [M.userErr] at h2; done)
            | (simp only [M.pure_apply, Outcome.ok.injEq] at h2; subst h2
               exact Reach.one (by simp only [VM.step, hi]))
        have := r1.trans r2
        simpa [Nat.add_assoc] using this
    | binary op a b =>
      simp only [noCall, Bool.and_eq_true] at hnc
      cases hca : compileExpr sc a with
      | none => simp [compileExpr, hca] at hc
      | some ca =>
        cases hcb : compileExpr sc b with
        | none => simp [compileExpr, hca, hcb] at hc
        | some cb =>
          simp only [compileExpr, hca, hcb, Option.bind_eq_bind, Option.bind_some, Option.some.injEq] at hc
          subst hc
          simp only [eval] at h
          obtain ⟨va, hva, h2⟩ := bind_ok_inv h
          rw [(eval_noCall_pure p n a s hnc.1).1] at h2
          obtain ⟨vb, hvb, h3⟩ := bind_ok_inv h2
          have hap := ofExcept_ok_inv h3
          have r1 := ih a s va hnc.1 hva sc ca hca locals hag code pre (cb ++ [.binop op] ++ post) stk (by simp [hcode])
          have r2 := ih b s vb hnc.2 hvb sc cb hcb locals hag code (pre ++ ca) ([.binop op] ++ post) (va :: stk)
            (by simp [hcode])
          have hi := at_pos (code := code) (l1 := pre ++ ca ++ cb) (l2 := post) (ins := .binop op) (by simp [hcode])
            (k := pre.length + ca.length + cb.length) (by simp only [List.length_append, List.length_cons, List.length_nil] <;> omega)
          have r3 : Reach tbl code locals (pre.length + ca.length + cb.length, vb :: va :: stk)
              (pre.length + ca.length + cb.length + 1, v :: stk) :=
            Reach.one (by simp only [VM.step, hi, stepExcept, hap])
          simp only [List.length_append] at r2
          have := (r1.trans r2).trans r3
          simpa [Nat.add_assoc] using this
    | cond c0 t e =>
      simp only [noCall, Bool.and_eq_true] at hnc
      cases hcc : compileExpr sc c0 with
      | none => simp [compileExpr, hcc] at hc
      | some cc =>
        cases hct : compileExpr sc t with
        | none => simp [compileExpr, hcc, hct] at hc
        | some ct =>
          cases hce : compileExpr sc e with
          | none => simp [compileExpr, hcc, hct, hce] at hc
          | some ce =>
            simp only [compileExpr, hcc, hct, hce, Option.bind_eq_bind, Option.bind_some, Option.some.injEq] at hc
            subst hc
            simp only [eval] at h
            obtain ⟨vc, hvc, h2⟩ := bind_ok_inv h
            rw [(eval_noCall_pure p n c0 s hnc.1.1).1] at h2
            have r1 := ih c0 s vc hnc.1.1 hvc sc cc hcc locals hag code pre
              ([.jumpIfFalse (ct.length + 1)] ++ ct ++ [.jump ce.length] ++ ce ++ post) stk (by simp [hcode])
            have hi := at_pos (code := code) (l1 := pre ++ cc) (l2 := ct ++ [.jump ce.length] ++ ce ++ post)
              (ins := .jumpIfFalse (ct.length + 1)) (by simp [hcode]) (k := pre.length + cc.length) (by simp only [List.length_append, List.length_cons, List.length_nil] <;> omega)
            cases vc with
            | bool bv =>
              cases bv with
              | true =>
                have r2 : Reach tbl code locals (pre.length + cc.length, .bool true :: stk) (pre.length + cc.length + 1, stk) :=
                  Reach.one (by simp only [VM.step, hi]; rfl)
                have r3 := ih t s v hnc.1.2 h2 sc ct hct locals hag code (pre ++ cc ++ [.jumpIfFalse (ct.length + 1)])
                  ([.jump ce.length] ++ ce ++ post) stk (by simp [hcode])
                have hj := at_pos (code := code) (l1 := pre ++ cc ++ [.jumpIfFalse (ct.length + 1)] ++ ct) (l2 := ce ++ post)
                  (ins := .jump ce.length) (by simp [hcode]) (k := pre.length + cc.length + 1 + ct.length) (by simp only [List.length_append, List.length_cons, List.length_nil] <;> omega)
                have r4 : Reach tbl code locals (pre.length + cc.length + 1 + ct.length, v :: stk)
                    (pre.length + cc.length + 1 + ct.length + 1 + ce.length, v :: stk) :=
                  Reach.one (by simp only [VM.step, hj])
                simp only [List.length_append, List.length_cons, List.length_nil] at r3
                have := ((r1.trans r2).trans r3).trans r4
                simpa [Nat.add_assoc, Nat.add_comm, Nat.add_left_comm] using this
              | false =>
                have r2 : Reach tbl code locals (pre.length + cc.length, .bool false :: stk)
                    (pre.length + cc.length + 1 + (ct.length + 1), stk) :=
                  Reach.one (by simp only [VM.step, hi]; rfl)
                have r3 := ih e s v hnc.2 h2 sc ce hce locals hag code
                  (pre ++ cc ++ [.jumpIfFalse (ct.length + 1)] ++ ct ++ [.jump ce.length]) post stk (by simp [hcode])
                simp only [List.length_append, List.length_cons, List.length_nil] at r3
                have e1 : pre.length + cc.length + 1 + (ct.length + 1) = pre.length + cc.length + (0 + 1) + ct.length + (0 + 1) := by omega
                rw [e1] at r2
                have := (r1.trans r2).trans r3
                simpa [Nat.add_assoc, Nat.add_comm, Nat.add_left_comm] using this
            | _ => simp [M.internalErr] at h2
    | and a b =>
      simp only [noCall, Bool.and_eq_true] at hnc
      cases hca : compileExpr sc a with
      | none => simp [compileExpr, hca] at hc
      | some ca =>
        cases hcb : compileExpr sc b with
        | none => simp [compileExpr, hca, hcb] at hc
        | some cb =>
          simp only [compileExpr, hca, hcb, Option.bind_eq_bind, Option.bind_some, Option.some.injEq] at hc
          subst hc
          simp only [eval] at h
          obtain ⟨va, hva, h2⟩ := bind_ok_inv h
          rw [(eval_noCall_pure p n a s hnc.1).1] at h2
          have r1 := ih a s va hnc.1 hva sc ca hca locals hag code pre
            ([.jumpIfFalse (cb.length + 3)] ++ cb ++ [.jumpIfFalse 2, .push (.bool true), .jump 1, .push (.bool false)] ++ post) stk
            (by simp [hcode])
          have hi := at_pos (code := code) (l1 := pre ++ ca)
            (l2 := cb ++ [.jumpIfFalse 2, .push (.bool true), .jump 1, .push (.bool false)] ++ post)
            (ins := .jumpIfFalse (cb.length + 3)) (by simp [hcode]) (k := pre.length + ca.length)
            (by simp only [List.length_append, List.length_cons, List.length_nil] <;> omega)
          cases va with
          | bool bv =>
            cases bv with
            | false =>
              simp only [M.pure_apply, Outcome.ok.injEq] at h2; subst h2
              have r2 : Reach tbl code locals (pre.length + ca.length, .bool false :: stk) (pre.length + ca.length + 1 + (cb.length + 3), stk) :=
                Reach.one (by simp only [VM.step, hi]; rfl)
              have hp := at_pos (code := code) (l1 := pre ++ ca ++ [.jumpIfFalse (cb.length + 3)] ++ cb ++ [.jumpIfFalse 2, .push (.bool true), .jump 1])
                  (l2 := post) (ins := .push (.bool false)) (by simp [hcode]) (k := pre.length + ca.length + 1 + (cb.length + 3))
                  (by simp only [List.length_append, List.length_cons, List.length_nil] <;> omega)
              have r3 : Reach tbl code locals (pre.length + ca.length + 1 + (cb.length + 3), stk)
                    (pre.length + ca.length + 1 + (cb.length + 3) + 1, .bool false :: stk) :=
                  Reach.one (by simp only [VM.step, hp])
              have := (r1.trans r2).trans r3
              simp only [List.length_append, List.length_cons, List.length_nil]
              have e1 : pre.length + (ca.length + (0 + 1) + cb.length + (0 + 1 + 1 + 1 + 1)) = pre.length + ca.length + 1 + (cb.length + 3) + 1 := by omega
              rw [e1]; exact this
            | true =>
              obtain ⟨vb, hvb, h3⟩ := bind_ok_inv h2
              have r2 : Reach tbl code locals (pre.length + ca.length, .bool true :: stk) (pre.length + ca.length + 1, stk) :=
                Reach.one (by simp only [VM.step, hi]; rfl)
              have r3 := ih b s vb hnc.2 hvb sc cb hcb locals hag code (pre ++ ca ++ [.jumpIfFalse (cb.length + 3)])
                ([.jumpIfFalse 2, .push (.bool true), .jump 1, .push (.bool false)] ++ post) stk (by simp [hcode])
              simp only [List.length_append, List.length_cons, List.length_nil] at r3
              have hj := at_pos (code := code) (l1 := pre ++ ca ++ [.jumpIfFalse (cb.length + 3)] ++ cb)
                (l2 := [.push (.bool true), .jump 1, .push (.bool false)] ++ post) (ins := .jumpIfFalse 2) (by simp [hcode])
                (k := pre.length + ca.length + (0 + 1) + cb.length)
                (by simp only [List.length_append, List.length_cons, List.length_nil] <;> omega)
              have hp := at_pos (code := code) (l1 := pre ++ ca ++ [.jumpIfFalse (cb.length + 3)] ++ cb ++ [.jumpIfFalse 2])
                (l2 := [.jump 1, .push (.bool false)] ++ post) (ins := .push (.bool true)) (by simp [hcode])
                (k := pre.length + ca.length + (0 + 1) + cb.length + 1)
                (by simp only [List.length_append, List.length_cons, List.length_nil] <;> omega)
              have hq := at_pos (code := code) (l1 := pre ++ ca ++ [.jumpIfFalse (cb.length + 3)] ++ cb ++ [.jumpIfFalse 2, .push (.bool true)])
                (l2 := [.push (.bool false)] ++ post) (ins := .jump 1) (by simp [hcode])
                (k := pre.length + ca.length + (0 + 1) + cb.length + 1 + 1)
                (by simp only [List.length_append, List.length_cons, List.length_nil] <;> omega)
              have hr := at_pos (code := code) (l1 := pre ++ ca ++ [.jumpIfFalse (cb.length + 3)] ++ cb ++ [.jumpIfFalse 2, .push (.bool true), .jump 1])
                (l2 := post) (ins := .push (.bool false)) (by simp [hcode])
                (k := pre.length + ca.length + (0 + 1) + cb.length + 1 + 2)
                (by simp only [List.length_append, List.length_cons, List.length_nil] <;> omega)
              have e0 : pre.length + ca.length + 1 = pre.length + ca.length + (0 + 1) := by omega
              rw [e0] at r2
              cases vb with
              | bool rb =>
                simp only [M.pure_apply, Outcome.ok.injEq] at h3; subst h3
                have r4 : Reach tbl code locals (pre.length + ca.length + (0 + 1) + cb.length, .bool rb :: stk)
                    (pre.length + ca.length + (0 + 1) + cb.length + 1 + 2 + 1, .bool rb :: stk) := by
                  cases rb with
                  | true =>
                    have s1 : Reach tbl code locals (pre.length + ca.length + (0 + 1) + cb.length, .bool true :: stk)
                        (pre.length + ca.length + (0 + 1) + cb.length + 1, stk) :=
                      Reach.one (by simp only [VM.step, hj]; rfl)
                    have s2 : Reach tbl code locals (pre.length + ca.length + (0 + 1) + cb.length + 1, stk)
                        (pre.length + ca.length + (0 + 1) + cb.length + 1 + 1, .bool true :: stk) :=
                      Reach.one (by simp only [VM.step, hp])
                    have s3 : Reach tbl code locals (pre.length + ca.length + (0 + 1) + cb.length + 1 + 1, .bool true :: stk)
                        (pre.length + ca.length + (0 + 1) + cb.length + 1 + 1 + 1 + 1, .bool true :: stk) :=
                      Reach.one (by simp only [VM.step, hq])
                    have e2 : pre.length + ca.length + (0 + 1) + cb.length + 1 + 2 + 1 =
                        pre.length + ca.length + (0 + 1) + cb.length + 1 + 1 + 1 + 1 := by omega
                    rw [e2]; exact (s1.trans s2).trans s3
                  | false =>
                    have s1 : Reach tbl code locals (pre.length + ca.length + (0 + 1) + cb.length, .bool false :: stk)
                        (pre.length + ca.length + (0 + 1) + cb.length + 1 + 2, stk) :=
                      Reach.one (by simp only [VM.step, hj]; rfl)
                    have s2 : Reach tbl code locals (pre.length + ca.length + (0 + 1) + cb.length + 1 + 2, stk)
                        (pre.length + ca.length + (0 + 1) + cb.length + 1 + 2 + 1, .bool false :: stk) :=
                      Reach.one (by simp only [VM.step, hr])
                    exact s1.trans s2
                have := ((r1.trans r2).trans r3).trans r4
                simp only [List.length_append, List.length_cons, List.length_nil]
                have e1 : pre.length + (ca.length + (0 + 1) + cb.length + (0 + 1 + 1 + 1 + 1)) =
                    pre.length + ca.length + (0 + 1) + cb.length + 1 + 2 + 1 := by omega
                rw [e1]; exact this
              | _ => simp [M.internalErr] at h3
          | _ => simp [M.internalErr] at h2
    | or a b =>
      simp only [noCall, Bool.and_eq_true] at hnc
      cases hca : compileExpr sc a with
      | none => simp [compileExpr, hca] at hc
      | some ca =>
        cases hcb : compileExpr sc b with
        | none => simp [compileExpr, hca, hcb] at hc
        | some cb =>
          simp only [compileExpr, hca, hcb, Option.bind_eq_bind, Option.bind_some, Option.some.injEq] at hc
          subst hc
          simp only [eval] at h
          obtain ⟨va, hva, h2⟩ := bind_ok_inv h
          rw [(eval_noCall_pure p n a s hnc.1).1] at h2
          have r1 := ih a s va hnc.1 hva sc ca hca locals hag code pre
            ([.jumpIfTrue (cb.length + 1)] ++ cb ++ [.jumpIfFalse 2, .push (.bool true), .jump 1, .push (.bool false)] ++ post) stk
            (by simp [hcode])
          have hi := at_pos (code := code) (l1 := pre ++ ca)
            (l2 := cb ++ [.jumpIfFalse 2, .push (.bool true), .jump 1, .push (.bool false)] ++ post)
            (ins := .jumpIfTrue (cb.length + 1)) (by simp [hcode]) (k := pre.length + ca.length)
            (by simp only [List.length_append, List.length_cons, List.length_nil] <;> omega)
          cases va with
          | bool bv =>
            cases bv with
            | true =>
              simp only [M.pure_apply, Outcome.ok.injEq] at h2; subst h2
              have r2 : Reach tbl code locals (pre.length + ca.length, .bool true :: stk) (pre.length + ca.length + 1 + (cb.length + 1), stk) :=
                Reach.one (by simp only [VM.step, hi]; rfl)
              have hp := at_pos (code := code) (l1 := pre ++ ca ++ [.jumpIfTrue (cb.length + 1)] ++ cb ++ [.jumpIfFalse 2])
                  (l2 := [.jump 1, .push (.bool false)] ++ post) (ins := .push (.bool true)) (by simp [hcode])
                  (k := pre.length + ca.length + 1 + (cb.length + 1))
                  (by simp only [List.length_append, List.length_cons, List.length_nil] <;> omega)
              have hq := at_pos (code := code) (l1 := pre ++ ca ++ [.jumpIfTrue (cb.length + 1)] ++ cb ++ [.jumpIfFalse 2, .push (.bool true)])
                  (l2 := [.push (.bool false)] ++ post) (ins := .jump 1) (by simp [hcode])
                  (k := pre.length + ca.length + 1 + (cb.length + 1) + 1)
                  (by simp only [List.length_append, List.length_cons, List.length_nil] <;> omega)
              have r3 : Reach tbl code locals (pre.length + ca.length + 1 + (cb.length + 1), stk)
                    (pre.length + ca.length + 1 + (cb.length + 1) + 1 + 1 + 1, .bool true :: stk) :=
                  (Reach.one (pc' := pre.length + ca.length + 1 + (cb.length + 1) + 1) (stk' := .bool true :: stk)
                    (by simp only [VM.step, hp])).trans (Reach.one (by simp only [VM.step, hq]))
              have := (r1.trans r2).trans r3
              simp only [List.length_append, List.length_cons, List.length_nil]
              have e1 : pre.length + (ca.length + (0 + 1) + cb.length + (0 + 1 + 1 + 1 + 1)) = pre.length + ca.length + 1 + (cb.length + 1) + 1 + 1 + 1 := by omega
              rw [e1]; exact this
            | false =>
              obtain ⟨vb, hvb, h3⟩ := bind_ok_inv h2
              have r2 : Reach tbl code locals (pre.length + ca.length, .bool false :: stk) (pre.length + ca.length + 1, stk) :=
                Reach.one (by simp only [VM.step, hi]; rfl)
              have r3 := ih b s vb hnc.2 hvb sc cb hcb locals hag code (pre ++ ca ++ [.jumpIfTrue (cb.length + 1)])
                ([.jumpIfFalse 2, .push (.bool true), .jump 1, .push (.bool false)] ++ post) stk (by simp [hcode])
              simp only [List.length_append, List.length_cons, List.length_nil] at r3
              have hj := at_pos (code := code) (l1 := pre ++ ca ++ [.jumpIfTrue (cb.length + 1)] ++ cb)
                (l2 := [.push (.bool true), .jump 1, .push (.bool false)] ++ post) (ins := .jumpIfFalse 2) (by simp [hcode])
                (k := pre.length + ca.length + (0 + 1) + cb.length)
                (by simp only [List.length_append, List.length_cons, List.length_nil] <;> omega)
              have hp := at_pos (code := code) (l1 := pre ++ ca ++ [.jumpIfTrue (cb.length + 1)] ++ cb ++ [.jumpIfFalse 2])
                (l2 := [.jump 1, .push (.bool false)] ++ post) (ins := .push (.bool true)) (by simp [hcode])
                (k := pre.length + ca.length + (0 + 1) + cb.length + 1)
                (by simp only [List.length_append, List.length_cons, List.length_nil] <;> omega)
              have hq := at_pos (code := code) (l1 := pre ++ ca ++ [.jumpIfTrue (cb.length + 1)] ++ cb ++ [.jumpIfFalse 2, .push (.bool true)])
                (l2 := [.push (.bool false)] ++ post) (ins := .jump 1) (by simp [hcode])
                (k := pre.length + ca.length + (0 + 1) + cb.length + 1 + 1)
                (by simp only [List.length_append, List.length_cons, List.length_nil] <;> omega)
              have hr := at_pos (code := code) (l1 := pre ++ ca ++ [.jumpIfTrue (cb.length + 1)] ++ cb ++ [.jumpIfFalse 2, .push (.bool true), .jump 1])
                (l2 := post) (ins := .push (.bool false)) (by simp [hcode])
                (k := pre.length + ca.length + (0 + 1) + cb.length + 1 + 2)
                (by simp only [List.length_append, List.length_cons, List.length_nil] <;> omega)
              have e0 : pre.length + ca.length + 1 = pre.length + ca.length + (0 + 1) := by omega
              rw [e0] at r2
              cases vb with
              | bool rb =>
                simp only [M.pure_apply, Outcome.ok.injEq] at h3; subst h3
                have r4 : Reach tbl code locals (pre.length + ca.length + (0 + 1) + cb.length, .bool rb :: stk)
                    (pre.length + ca.length + (0 + 1) + cb.length + 1 + 2 + 1, .bool rb :: stk) := by
                  cases rb with
                  | true =>
                    have s1 : Reach tbl code locals (pre.length + ca.length + (0 + 1) + cb.length, .bool true :: stk)
                        (pre.length + ca.length + (0 + 1) + cb.length + 1, stk) :=
                      Reach.one (by simp only [VM.step, hj]; rfl)
                    have s2 : Reach tbl code locals (pre.length + ca.length + (0 + 1) + cb.length + 1, stk)
                        (pre.length + ca.length + (0 + 1) + cb.length + 1 + 1, .bool true :: stk) :=
                      Reach.one (by simp only [VM.step, hp])
                    have s3 : Reach tbl code locals (pre.length + ca.length + (0 + 1) + cb.length + 1 + 1, .bool true :: stk)
                        (pre.length + ca.length + (0 + 1) + cb.length + 1 + 1 + 1 + 1, .bool true :: stk) :=
                      Reach.one (by simp only [VM.step, hq])
                    have e2 : pre.length + ca.length + (0 + 1) + cb.length + 1 + 2 + 1 =
                        pre.length + ca.length + (0 + 1) + cb.length + 1 + 1 + 1 + 1 := by omega
                    rw [e2]; exact (s1.trans s2).trans s3
                  | false =>
                    have s1 : Reach tbl code locals (pre.length + ca.length + (0 + 1) + cb.length, .bool false :: stk)
                        (pre.length + ca.length + (0 + 1) + cb.length + 1 + 2, stk) :=
                      Reach.one (by simp only [VM.step, hj]; rfl)
                    have s2 : Reach tbl code locals (pre.length + ca.length + (0 + 1) + cb.length + 1 + 2, stk)
                        (pre.length + ca.length + (0 + 1) + cb.length + 1 + 2 + 1, .bool false :: stk) :=
                      Reach.one (by simp only [VM.step, hr])
                    exact s1.trans s2
                have := ((r1.trans r2).trans r3).trans r4
                simp only [List.length_append, List.length_cons, List.length_nil]
                have e1 : pre.length + (ca.length + (0 + 1) + cb.length + (0 + 1 + 1 + 1 + 1)) =
                    pre.length + ca.length + (0 + 1) + cb.length + 1 + 2 + 1 := by omega
                rw [e1]; exact this
              | _ => simp [M.internalErr] at h3
          | _ => simp [M.internalErr] at h2
    | _ => simp [noCall] at hnc

end Verif.Model.Lang.VM
