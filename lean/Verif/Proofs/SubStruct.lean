/-
C08 helper lemmas: the structured relation of `Model/Types/SubStruct.lean` against the rule interpreter
on the whole simple-type table (kernel `decide`, five rows per lemma), and transitivity of the structured
relation on simple types.
-/
import Verif.Model.Types.SubStruct
import Verif.Model.Types.RulesPinned
namespace Verif.Proofs.SubStruct
open Verif.Model.Types Verif.Model.Types.Struct Verif.Model.Auth

abbrev R : List Rule := RulesPinned.rules

/-- rows `l` of the table: interpreter = structured relation against every simple type -/
def rowsOK (l : List String) : Bool :=
  l.all (fun a => primNames.all (fun b => isSub R 120 (.prim a) (.prim b) == psub a b))

/-- rows `l` of the transitivity table -/
def transOK (l : List String) : Bool :=
  l.all (fun a => primNames.all (fun b => primNames.all (fun c => !(psub a b && psub b c) || psub a c)))

theorem rowsOK_append (l m : List String) : rowsOK (l ++ m) = (rowsOK l && rowsOK m) := by simp [rowsOK, List.all_append]
theorem transOK_append (l m : List String) : transOK (l ++ m) = (transOK l && transOK m) := by simp [transOK, List.all_append]

set_option maxRecDepth 1000000 in
theorem rows0 : rowsOK ["Any", "AnyStruct", "AnyResource", "AnyStructAttachment", "AnyResourceAttachment"] = true := by decide
set_option maxRecDepth 1000000 in
theorem trans0 : transOK ["Any", "AnyStruct", "AnyResource", "AnyStructAttachment", "AnyResourceAttachment"] = true := by decide

set_option maxRecDepth 1000000 in
theorem rows1 : rowsOK ["HashableStruct", "Never", "Void", "Bool", "String"] = true := by decide
set_option maxRecDepth 1000000 in
theorem trans1 : transOK ["HashableStruct", "Never", "Void", "Bool", "String"] = true := by decide

set_option maxRecDepth 1000000 in
theorem rows2 : rowsOK ["Character", "MetaType", "Address", "Path", "StoragePath"] = true := by decide
set_option maxRecDepth 1000000 in
theorem trans2 : transOK ["Character", "MetaType", "Address", "Path", "StoragePath"] = true := by decide

set_option maxRecDepth 1000000 in
theorem rows3 : rowsOK ["CapabilityPath", "PublicPath", "PrivatePath", "Number", "SignedNumber"] = true := by decide
set_option maxRecDepth 1000000 in
theorem trans3 : transOK ["CapabilityPath", "PublicPath", "PrivatePath", "Number", "SignedNumber"] = true := by decide

set_option maxRecDepth 1000000 in
theorem rows4 : rowsOK ["Integer", "SignedInteger", "FixedSizeUnsignedInteger", "FixedPoint", "SignedFixedPoint"] = true := by decide
set_option maxRecDepth 1000000 in
theorem trans4 : transOK ["Integer", "SignedInteger", "FixedSizeUnsignedInteger", "FixedPoint", "SignedFixedPoint"] = true := by decide

set_option maxRecDepth 1000000 in
theorem rows5 : rowsOK ["Int", "Int8", "Int16", "Int32", "Int64"] = true := by decide
set_option maxRecDepth 1000000 in
theorem trans5 : transOK ["Int", "Int8", "Int16", "Int32", "Int64"] = true := by decide

set_option maxRecDepth 1000000 in
theorem rows6 : rowsOK ["Int128", "Int256", "UInt", "UInt8", "UInt16"] = true := by decide
set_option maxRecDepth 1000000 in
theorem trans6 : transOK ["Int128", "Int256", "UInt", "UInt8", "UInt16"] = true := by decide

set_option maxRecDepth 1000000 in
theorem rows7 : rowsOK ["UInt32", "UInt64", "UInt128", "UInt256", "Word8"] = true := by decide
set_option maxRecDepth 1000000 in
theorem trans7 : transOK ["UInt32", "UInt64", "UInt128", "UInt256", "Word8"] = true := by decide

set_option maxRecDepth 1000000 in
theorem rows8 : rowsOK ["Word16", "Word32", "Word64", "Word128", "Word256"] = true := by decide
set_option maxRecDepth 1000000 in
theorem trans8 : transOK ["Word16", "Word32", "Word64", "Word128", "Word256"] = true := by decide

set_option maxRecDepth 1000000 in
theorem rows9 : rowsOK ["Fix64", "Fix128", "UFix64", "UFix128"] = true := by decide
set_option maxRecDepth 1000000 in
theorem trans9 : transOK ["Fix64", "Fix128", "UFix64", "UFix128"] = true := by decide

theorem primNames_chunks : primNames = ["Any", "AnyStruct", "AnyResource", "AnyStructAttachment", "AnyResourceAttachment"] ++ ["HashableStruct", "Never", "Void", "Bool", "String"] ++ ["Character", "MetaType", "Address", "Path", "StoragePath"] ++ ["CapabilityPath", "PublicPath", "PrivatePath", "Number", "SignedNumber"] ++ ["Integer", "SignedInteger", "FixedSizeUnsignedInteger", "FixedPoint", "SignedFixedPoint"] ++ ["Int", "Int8", "Int16", "Int32", "Int64"] ++ ["Int128", "Int256", "UInt", "UInt8", "UInt16"] ++ ["UInt32", "UInt64", "UInt128", "UInt256", "Word8"] ++ ["Word16", "Word32", "Word64", "Word128", "Word256"] ++ ["Fix64", "Fix128", "UFix64", "UFix128"] := by decide

theorem rows_all : rowsOK primNames = true := by
  rw [primNames_chunks]
  simp only [rowsOK_append, rows0, rows1, rows2, rows3, rows4, rows5, rows6, rows7, rows8, rows9, Bool.and_self]

theorem trans_all : transOK primNames = true := by
  rw [primNames_chunks]
  simp only [transOK_append, trans0, trans1, trans2, trans3, trans4, trans5, trans6, trans7, trans8, trans9, Bool.and_self]

/-- interpreter = structured relation on the simple types -/
theorem prim_agree (a b : String) (ha : a ∈ primNames) (hb : b ∈ primNames) :
    isSub R 120 (.prim a) (.prim b) = psub a b := by
  have h := rows_all
  simp only [rowsOK, List.all_eq_true] at h
  simpa using h a ha b hb

/-- the structured relation is transitive on the simple types -/
theorem psub_trans (a b c : String) (ha : a ∈ primNames) (hb : b ∈ primNames) (hc : c ∈ primNames)
    (hab : psub a b = true) (hbc : psub b c = true) : psub a c = true := by
  have h := trans_all
  simp only [transOK, List.all_eq_true] at h
  have := h a ha b hb c hc
  simpa [hab, hbc] using this

/-! ### per-constructor unfolding of the rule interpreter (covariant containers) -/

theorem find_varArr (e : Ty) : R.find? (fun r => if r.complex then (Ty.varArr e).isKind r.super else (Ty.varArr e) == .prim r.super) = some RulesPinned.rule18 := by
  rfl
theorem find_constArr (e : Ty) (n : Nat) : R.find? (fun r => if r.complex then (Ty.constArr e n).isKind r.super else (Ty.constArr e n) == .prim r.super) = some RulesPinned.rule19 := by
  rfl
theorem find_opt (e : Ty) : R.find? (fun r => if r.complex then (Ty.opt e).isKind r.super else (Ty.opt e) == .prim r.super) = some RulesPinned.rule16 := by
  rfl

/-- `[a] <: [b]` is `a <: b` (the rule's six nodes cost six units of fuel) -/
theorem isSub_varArr (m : Nat) (a b : Ty) :
    isSub R (m + 7) (.varArr a) (.varArr b) = isSub R (m + 1) a b := by
  simp only [isSub, check, find_varArr]
  simp [never, RulesPinned.rule18, evalPred, evalExpr, field, Ty.isKind, subVal, isSub]
  exact fun h => Or.inl h

/-- `[a; n] <: [b; n]` is `a <: b` -/
theorem isSub_constArr (m : Nat) (a b : Ty) (n : Nat) :
    isSub R (m + 8) (.constArr a n) (.constArr b n) = isSub R (m + 1) a b := by
  simp only [isSub, check, find_constArr]
  simp [never, RulesPinned.rule19, evalPred, evalExpr, field, Ty.isKind, subVal, isSub, valEqOneOf, valEq]
  exact fun h => Or.inl h

/-- `a? <: b?` is `a <: b` (the first arm of the rule's `or` commits on an optional sub type) -/
theorem isSub_opt (m : Nat) (a b : Ty) :
    isSub R (m + 7) (.opt a) (.opt b) = isSub R (m + 1) a b := by
  simp only [isSub, check, find_opt]
  simp [never, RulesPinned.rule16, evalPred, evalExpr, field, Ty.isKind, subVal, isSub, Pred.isSwitch]
  exact fun h => Or.inl h

/-- a stack of covariant container constructors -/
inductive Ctx where
  | hole
  | varArr (c : Ctx)
  | constArr (c : Ctx) (n : Nat)
  | opt (c : Ctx)
  deriving Repr

def Ctx.fill : Ctx → Ty → Ty
  | .hole, t => t
  | .varArr c, t => .varArr (c.fill t)
  | .constArr c n, t => .constArr (c.fill t) n
  | .opt c, t => .opt (c.fill t)

/-- the fuel the interpreter spends on the constructors of the context -/
def Ctx.fuel : Ctx → Nat
  | .hole => 0
  | .varArr c => c.fuel + 6
  | .constArr c _ => c.fuel + 7
  | .opt c => c.fuel + 6

theorem isSub_ctx (c : Ctx) (k : Nat) (a b : Ty) :
    isSub R (k + 1 + c.fuel) (c.fill a) (c.fill b) = isSub R (k + 1) a b := by
  induction c generalizing k with
  | hole => rfl
  | varArr c ih =>
    have := isSub_varArr (k + c.fuel) (c.fill a) (c.fill b)
    simp only [Ctx.fill, Ctx.fuel]
    rw [show k + 1 + (c.fuel + 6) = k + c.fuel + 7 by omega, this, show k + c.fuel + 1 = k + 1 + c.fuel by omega, ih]
  | constArr c n ih =>
    have := isSub_constArr (k + c.fuel) (c.fill a) (c.fill b) n
    simp only [Ctx.fill, Ctx.fuel]
    rw [show k + 1 + (c.fuel + 7) = k + c.fuel + 8 by omega, this, show k + c.fuel + 1 = k + 1 + c.fuel by omega, ih]
  | opt c ih =>
    have := isSub_opt (k + c.fuel) (c.fill a) (c.fill b)
    simp only [Ctx.fill, Ctx.fuel]
    rw [show k + 1 + (c.fuel + 6) = k + c.fuel + 7 by omega, this, show k + c.fuel + 1 = k + 1 + c.fuel by omega, ih]

/-- under any stack of covariant containers, the interpreter's relation between simple types is the
    structured relation -/
theorem ctx_agree (c : Ctx) (a b : String) (ha : a ∈ primNames) (hb : b ∈ primNames) :
    isSub R (120 + c.fuel) (c.fill (.prim a)) (c.fill (.prim b)) = psub a b := by
  have := isSub_ctx c 119 (.prim a) (.prim b)
  rw [show 119 + 1 + c.fuel = 120 + c.fuel by omega] at this
  rw [this, prim_agree a b ha hb]

end Verif.Proofs.SubStruct
