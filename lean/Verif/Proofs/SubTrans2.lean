/-
C08 helper lemmas, part 7: along `a <: b` (`a` kind-stable, not `Never`; `b` without `Any`)
resource-kindedness is preserved, attachment-ness and hashability are inherited by the sub type.
-/
import Verif.Proofs.SubTrans
namespace Verif.Proofs.SubTrans
open Verif.Model.Types Verif.Model.Types.Struct Verif.Model.Auth Verif.Proofs.SubUnfold Verif.Proofs.SubNominal

theorem special_of_np {a : Ty} (hnp : NonPrim a) {n : String} (h : chkPrim a n = true) : n ∈ specials := by
  cases hs : (n == "Any" || n == "AnyStruct" || n == "AnyResource" || n == "AnyResourceAttachment" ||
          n == "AnyStructAttachment" || n == "HashableStruct")
  · rw [chkPrim_other a hnp n hs] at h; cases h
  · simp only [Bool.or_eq_true, beq_iff_eq] at hs
    simp only [specials, List.mem_cons, List.not_mem_nil, or_false]
    rcases hs with ((((h | h) | h) | h) | h) | h <;> simp [h]

theorem res_mono (D : List Iface) (hD : Coh D) : ∀ (N : Nat) (a b : Ty), a.size + b.size ≤ N →
    In D a → In D b → stab true a = true → a ≠ never → Struct.sub a b = true → a.isResource = b.isResource := by
  intro N
  induction N with
  | zero => intro a b h; have := size_pos a; have := size_pos b; omega
  | succ N ih =>
    intro a b hs ha hb hst hne hab
    rcases sub_cases hab with h | h | h
    · rw [h]
    · exact absurd h hne
    · cases b with
      | prim n =>
        have hn := prim_wf hb.wf
        have hnAny : n ≠ "Any" := by simpa [Ty.noAny] using hb.noAny
        rcases prim_or_not a with ⟨l, rfl⟩ | hnp
        · have hl := prim_wf ha.wf
          have hln : l ≠ "Never" := fun h' => hne (by rw [h']; rfl)
          rw [sub_prim_prim l n hl hn] at hab
          exact (facts l n hl hn hab hln).1 hnAny
        · rw [chk_prim] at h
          have hsp := special_of_np hnp h
          simp only [specials, List.mem_cons, List.not_mem_nil, or_false] at hsp
          rcases hsp with rfl | rfl | rfl | rfl | rfl | rfl
          · exact absurd rfl hnAny
          · simp [chkPrim] at h; simp [h.1, Ty.isResource]
          · simp [chkPrim] at h; simp [h, Ty.isResource]
          · simp [chkPrim] at h; simp [h.2, Ty.isResource]
          · simp [chkPrim] at h; simp [h.2, Ty.isResource]
          · simp [chkPrim] at h
            cases a <;> simp [hashable] at h
            · exact absurd rfl (hnp _)
            · simp [Ty.isResource, h]
      | opt s =>
        have hbs : In D s := ⟨by simpa [Ty.wf] using hb.wf, by simpa [Ty.noAny] using hb.noAny, hb.nom, hb.auth⟩
        rw [chk_opt] at h
        cases a with
        | opt x =>
          have hax : In D x := ⟨by simpa [Ty.wf] using ha.wf, by simpa [Ty.noAny] using ha.noAny, ha.nom, ha.auth⟩
          simp only [stab, Bool.and_eq_true, Bool.not_true, Bool.false_or, bne_iff_ne, ne_eq] at hst
          simp only [Ty.isResource]
          exact ih x s (by simp only [Ty.size] at hs; omega) hax hbs hst.2 hst.1 h
        | _ =>
          simp only [] at h
          rw [show (Ty.opt s).isResource = s.isResource from rfl]
          exact ih _ s (by simp only [Ty.size] at hs ⊢; omega) ha hbs hst hne h
      | varArr s =>
        have hbs : In D s := ⟨by simpa [Ty.wf] using hb.wf, by simpa [Ty.noAny] using hb.noAny, hb.nom, hb.auth⟩
        rw [chk_varArr] at h
        cases a with
        | varArr x =>
          have hax : In D x := ⟨by simpa [Ty.wf] using ha.wf, by simpa [Ty.noAny] using ha.noAny, ha.nom, ha.auth⟩
          simp only [stab, Bool.and_eq_true, Bool.not_true, Bool.false_or, bne_iff_ne, ne_eq] at hst
          simp only [Ty.isResource]
          exact ih x s (by simp only [Ty.size] at hs; omega) hax hbs hst.2 hst.1 h
        | _ => simp at h
      | constArr s k =>
        have hbs : In D s := ⟨by simpa [Ty.wf] using hb.wf, by simpa [Ty.noAny] using hb.noAny, hb.nom, hb.auth⟩
        rw [chk_constArr] at h
        cases a with
        | constArr x k' =>
          have hax : In D x := ⟨by simpa [Ty.wf] using ha.wf, by simpa [Ty.noAny] using ha.noAny, ha.nom, ha.auth⟩
          simp only [stab, Bool.and_eq_true, Bool.not_true, Bool.false_or, bne_iff_ne, ne_eq] at hst
          simp only [Bool.and_eq_true] at h
          simp only [Ty.isResource]
          exact ih x s (by simp only [Ty.size] at hs; omega) hax hbs hst.2 hst.1 h.2
        | _ => simp at h
      | dict k v =>
        have hw := hb.wf; have hn := hb.noAny; have hnm := hb.nom; have hau := hb.auth
        simp only [Ty.wf, Ty.noAny, nomOK, authOK, Bool.and_eq_true] at hw hn hnm hau
        rw [chk_dict] at h
        cases a with
        | dict k' v' =>
          have hw' := ha.wf; have hn' := ha.noAny; have hnm' := ha.nom; have hau' := ha.auth
          simp only [Ty.wf, Ty.noAny, nomOK, authOK, Bool.and_eq_true] at hw' hn' hnm' hau'
          simp only [stab, Bool.and_eq_true, Bool.not_true, Bool.false_or, bne_iff_ne, ne_eq] at hst
          simp only [Bool.and_eq_true] at h
          simp only [Ty.isResource, Ty.size] at hs ⊢
          rw [ih k' k (by omega) ⟨hw'.1, hn'.1, hnm'.1, hau'.1⟩ ⟨hw.1, hn.1, hnm.1, hau.1⟩ hst.1.2 hst.1.1.1 h.2,
            ih v' v (by omega) ⟨hw'.2, hn'.2, hnm'.2, hau'.2⟩ ⟨hw.2, hn.2, hnm.2, hau.2⟩ hst.2 hst.1.1.2 h.1]
        | _ => simp at h
      | ref au t => rw [chk_ref] at h; cases a <;> simp at h; simp [Ty.isResource]
      | comp => rw [chk_comp] at h; cases h
      | iface i => exact nom_res D hD a _ ha.nom hb.nom (Or.inl ⟨_, rfl⟩) h
      | inter is => exact nom_res D hD a _ ha.nom hb.nom (Or.inr ⟨_, rfl⟩) h
      | fn v' p' r' => rw [chk_fn] at h; cases a <;> simp at h; simp [Ty.isResource]
      | nilT => have := hb.wf; simp [Ty.wf] at this
      | consT => have := hb.wf; simp [Ty.wf] at this
      | capAny => rw [chk_capAny] at h; cases a <;> simp at h; simp [Ty.isResource]
      | cap t => rw [chk_cap] at h; cases a <;> simp at h; simp [Ty.isResource]
      | range t => rw [chk_range] at h; cases a <;> simp at h; simp [Ty.isResource]


theorem att_mono (a b : Ty) (ha : a.wf = true) (hb : b.wf = true) (hne : a ≠ never)
    (hab : Struct.sub a b = true) (hatt : b.isAttachment = true) : a.isAttachment = true := by
  rcases sub_cases hab with h | h | h
  · rw [h]; exact hatt
  · exact absurd h hne
  · cases b with
    | prim n =>
      have hn := prim_wf hb
      rcases prim_or_not a with ⟨l, rfl⟩ | hnp
      · have hl := prim_wf ha
        have hln : l ≠ "Never" := fun h' => hne (by rw [h']; rfl)
        rw [sub_prim_prim l n hl hn] at hab
        exact (facts l n hl hn hab hln).2.1 hatt
      · rw [chk_prim] at h
        simp only [Ty.isAttachment, Bool.or_eq_true, beq_iff_eq] at hatt
        rcases hatt with rfl | rfl
        · simp [chkPrim] at h; exact h.1
        · simp [chkPrim] at h; exact h.1
    | comp => rw [chk_comp] at h; cases h
    | _ => simp [Ty.isAttachment] at hatt

theorem hash_mono (a b : Ty) (ha : a.wf = true) (hb : b.wf = true) (hne : a ≠ never)
    (hab : Struct.sub a b = true) (hh : hashable b = true) : hashable a = true := by
  rcases sub_cases hab with h | h | h
  · rw [h]; exact hh
  · exact absurd h hne
  · cases b with
    | prim n =>
      have hn := prim_wf hb
      rcases prim_or_not a with ⟨l, rfl⟩ | hnp
      · have hl := prim_wf ha
        have hln : l ≠ "Never" := fun h' => hne (by rw [h']; rfl)
        rw [sub_prim_prim l n hl hn] at hab
        exact (facts l n hl hn hab hln).2.2.1 hh
      · rw [chk_prim] at h
        have hsp := special_of_np hnp h
        simp only [specials, List.mem_cons, List.not_mem_nil, or_false] at hsp
        rcases hsp with rfl | rfl | rfl | rfl | rfl | rfl
        · exact absurd hh (by decide)
        · exact absurd hh (by decide)
        · exact absurd hh (by decide)
        · exact absurd hh (by decide)
        · exact absurd hh (by decide)
        · simpa [chkPrim] using h
    | comp => rw [chk_comp] at h; cases h
    | _ => simp [hashable] at hh

end Verif.Proofs.SubTrans
