import Verif.Model.Front.Pratt
import Verif.Model.Front.StrLit
/-! Lemmas for C38: string quoting round trip, printer / parser port round trip. -/
namespace Verif.Proofs.Pratt
open Verif.Model.Front.Syn Verif.Model.Front.StrLit

/-! ## strings -/

/-- runes that `QuoteStringInner` writes without a `\u{…}` escape -/
def Simple (c : Char) : Prop :=
  c = Char.ofNat 0 ∨ c = '\n' ∨ c = '\r' ∨ c = '\t' ∨ c = '\\' ∨ c = '"' ∨ (0x20 ≤ c.toNat ∧ c.toNat ≤ 0x7E)

instance (c : Char) : Decidable (Simple c) := by unfold Simple; infer_instance

theorem run_quoteChar (c : Char) (h : Simple c) (out rest : List Char) :
    run .normal out (quoteChar c ++ rest) = run .normal (c :: out) rest := by
  unfold quoteChar
  by_cases h0 : c = Char.ofNat 0
  · subst h0; simp [run, step]
  by_cases h1 : c = '\n'
  · subst h1; simp [run, step]
  by_cases h2 : c = '\r'
  · subst h2; simp [run, step]
  by_cases h3 : c = '\t'
  · subst h3; simp [run, step]
  by_cases h4 : c = '\\'
  · subst h4; simp [run, step]
  by_cases h5 : c = '"'
  · subst h5; simp [run, step]
  have hp : 0x20 ≤ c.toNat ∧ c.toNat ≤ 0x7E := by
    rcases h with h | h | h | h | h | h | h
    · exact absurd h h0
    · exact absurd h h1
    · exact absurd h h2
    · exact absurd h h3
    · exact absurd h h4
    · exact absurd h h5
    · exact h
  simp only [h0, h1, h2, h3, h4, h5, if_false, hp, and_self, if_true]
  simp [run, step, h4]

theorem run_quoteInner (cs : List Char) (h : ∀ c ∈ cs, Simple c) (out : List Char) :
    run .normal out (quoteInner cs) = some (out.reverse ++ cs) := by
  induction cs generalizing out with
  | nil => simp [quoteInner, run]
  | cons c cs ih =>
    simp only [quoteInner]
    rw [run_quoteChar c (h c (by simp))]
    rw [ih (fun d hd => h d (by simp [hd]))]
    simp

theorem quote_roundtrip_simple (cs : List Char) (h : ∀ c ∈ cs, Simple c) :
    parseStringLiteral (quoteString cs) = some cs := by
  have hrev : (quoteInner cs ++ ['"']).reverse = '"' :: (quoteInner cs).reverse := by simp
  show (match (quoteInner cs ++ ['"']).reverse with
        | '"' :: content => unescape content.reverse
        | _ => none) = some cs
  rw [hrev]
  show unescape (quoteInner cs).reverse.reverse = some cs
  rw [List.reverse_reverse]
  unfold unescape
  rw [run_quoteInner cs h]
  rfl

/-! ### the `\u{…}` escape -/

theorem hexChar_facts : ∀ d, d < 16 → hexChar d ≠ '}' ∧ hexVal (hexChar d) = some d := by decide

/-- `strconv.FormatInt(n, 16)` writes at most `k` digits for `n < 16^k`, and they denote `n` -/
theorem hexDigitsAux_spec : ∀ (fuel k n : Nat) (acc : List Char), 1 ≤ k → k ≤ fuel → n < 16 ^ k →
    ∃ D : List Char, hexDigitsAux fuel n acc = D ++ acc ∧ 1 ≤ D.length ∧ D.length ≤ k ∧
      (∀ c ∈ D, ∃ d, d < 16 ∧ c = hexChar d) ∧
      (∀ a : Nat, D.foldl (fun v c => v * 16 + (hexVal c).getD 0) a = a * 16 ^ D.length + n) := by
  intro fuel
  induction fuel with
  | zero => intro k n acc h1 h2; omega
  | succ fuel ih =>
    intro k n acc h1 h2 hn
    rw [hexDigitsAux]
    by_cases h16 : n < 16
    · refine ⟨[hexChar (n % 16)], by simp [h16], by simp, by simpa using h1, ?_, ?_⟩
      · intro c hc; exact ⟨n % 16, Nat.mod_lt _ (by omega), by simpa using hc⟩
      · intro a
        have := (hexChar_facts (n % 16) (Nat.mod_lt _ (by omega))).2
        rw [Nat.mod_eq_of_lt h16] at this ⊢
        simp [this]
    · have hk : 2 ≤ k := by
        rcases Nat.lt_or_ge k 2 with hk | hk
        · have : k = 1 := by omega
          subst this; simp at hn; omega
        · exact hk
      have hdiv : n / 16 < 16 ^ (k - 1) := by
        have : 16 ^ k = 16 ^ (k - 1) * 16 := by rw [← Nat.pow_succ]; congr 1; omega
        rw [this] at hn
        exact Nat.div_lt_of_lt_mul (by rw [Nat.mul_comm]; exact hn)
      obtain ⟨D', hD', hl1, hl2, hall, hval⟩ := ih (k - 1) (n / 16) (hexChar (n % 16) :: acc) (by omega) (by omega) hdiv
      refine ⟨D' ++ [hexChar (n % 16)], by simp [h16, hD'], by simp, by simp; omega, ?_, ?_⟩
      · intro c hc
        rcases List.mem_append.1 hc with hc | hc
        · exact hall c hc
        · exact ⟨n % 16, Nat.mod_lt _ (by omega), by simpa using hc⟩
      · intro a
        have := (hexChar_facts (n % 16) (Nat.mod_lt _ (by omega))).2
        rw [List.foldl_append, hval a]
        simp only [List.foldl_cons, List.foldl_nil, this, Option.getD_some, List.length_append, List.length_cons,
          List.length_nil, Nat.pow_succ]
        have := Nat.div_add_mod n 16
        rw [Nat.add_mul, Nat.mul_assoc]
        omega

theorem run_hexDigits : ∀ (D : List Char) (acc cnt : Nat) (out rest : List Char),
    (∀ c ∈ D, ∃ d, d < 16 ∧ c = hexChar d) → cnt + D.length ≤ 8 →
    run (.hex acc cnt) out (D ++ rest) =
      run (.hex (D.foldl (fun v c => v * 16 + (hexVal c).getD 0) acc) (cnt + D.length)) out rest := by
  intro D
  induction D with
  | nil => intro acc cnt out rest _ _; rfl
  | cons c D ih =>
    intro acc cnt out rest hall hlen
    obtain ⟨d, hd, rfl⟩ := hall c (by simp)
    obtain ⟨h1, h2⟩ := hexChar_facts d hd
    have hc8 : cnt < 8 := by simp at hlen; omega
    simp only [List.cons_append, run, step, h1, if_false, h2, hc8, if_true, List.foldl_cons, Option.getD_some]
    rw [ih _ _ _ _ (fun c hc => hall c (by simp [hc])) (by simp at hlen ⊢; omega)]
    simp only [List.length_cons]
    congr 2; omega

theorem char_lt_pow (c : Char) : c.toNat < 16 ^ 6 := by
  have := c.valid
  simp only [UInt32.isValidChar, Nat.isValidChar] at this
  show c.val.toNat < 16 ^ 6
  omega

theorem ofNatAux_toNat (c : Char) (h : Nat.isValidChar c.toNat) : Char.ofNatAux c.toNat h = c := by
  have := Char.ofNat_toNat c
  unfold Char.ofNat at this
  simpa [h] using this

theorem run_quoteChar_u (c : Char) (out rest : List Char) :
    run .normal out (['\\', 'u', '{'] ++ hexDigits c.toNat ++ ['}'] ++ rest) = run .normal (c :: out) rest := by
  obtain ⟨D, hD, hl1, hl2, hall, hval⟩ := hexDigitsAux_spec 16 6 c.toNat [] (by omega) (by omega) (char_lt_pow c)
  have hD' : hexDigits c.toNat = D := by simpa [hexDigits] using hD
  rw [hD']
  simp only [List.cons_append, List.nil_append, List.append_assoc]
  simp only [run, step, if_true]
  simp only [show ('u' : Char) ≠ '0' by decide, show ('u' : Char) ≠ 'n' by decide, show ('u' : Char) ≠ 'r' by decide,
    show ('u' : Char) ≠ 't' by decide, show ('u' : Char) ≠ '"' by decide, show ('u' : Char) ≠ '\'' by decide,
    show ('u' : Char) ≠ '\\' by decide, if_false, if_true]
  rw [run_hexDigits D 0 0 out _ hall (by omega), hval 0]
  have hcnt : ¬ (0 + D.length = 0) := by omega
  have hv : Nat.isValidChar (0 * 16 ^ D.length + c.toNat) := by
    simp only [Nat.zero_mul, Nat.zero_add]; exact c.valid
  simp only [run, step, if_true, hcnt, if_false, hv, dite_true]
  congr 2
  have : 0 * 16 ^ D.length + c.toNat = c.toNat := by simp
  simp only [this]
  exact ofNatAux_toNat c _

theorem run_quoteChar_any (c : Char) (out rest : List Char) :
    run .normal out (quoteChar c ++ rest) = run .normal (c :: out) rest := by
  by_cases h : Simple c
  · exact run_quoteChar c h out rest
  · have hq : quoteChar c = ['\\', 'u', '{'] ++ hexDigits c.toNat ++ ['}'] := by
      unfold quoteChar
      unfold Simple at h
      simp only [not_or] at h
      obtain ⟨h1, h2, h3, h4, h5, h6, h7⟩ := h
      simp only [h1, h2, h3, h4, h5, h6, h7, if_false]
    rw [hq]
    exact run_quoteChar_u c out rest

theorem run_quoteInner_any (cs : List Char) (out : List Char) :
    run .normal out (quoteInner cs) = some (out.reverse ++ cs) := by
  induction cs generalizing out with
  | nil => simp [quoteInner, run]
  | cons c cs ih =>
    simp only [quoteInner]
    rw [run_quoteChar_any c, ih]
    simp

/-- un-escaping the quoted form of any string returns the string -/
theorem quote_roundtrip (cs : List Char) : parseStringLiteral (quoteString cs) = some cs := by
  have hrev : (quoteInner cs ++ ['"']).reverse = '"' :: (quoteInner cs).reverse := by simp
  show (match (quoteInner cs ++ ['"']).reverse with
        | '"' :: content => unescape content.reverse
        | _ => none) = some cs
  rw [hrev]
  show unescape (quoteInner cs).reverse.reverse = some cs
  rw [List.reverse_reverse]
  unfold unescape
  rw [run_quoteInner_any cs]
  rfl

end Verif.Proofs.Pratt
