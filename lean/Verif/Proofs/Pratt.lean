import Verif.Model.Front.Pratt
import Verif.Model.Front.StrLit
/-! Lemmas for C38: string quoting round trip, printer / parser port round trip. -/
namespace Verif.Proofs.Pratt
open Verif.Model.Front.Syn Verif.Model.Front.StrLit

/-! ## strings -/

/-- runes that `QuoteStringInner` writes without a `\u{…}` escape -/
def Simple (c : Char) : Prop :=
  c = Char.ofNat 0 ∨ c = '\n' ∨ c = '\r' ∨ c = '\t' ∨ c = '\\' ∨ c = '"' ∨ (0x20 ≤ c.toNat ∧ c.toNat ≤ 0x7E)

instance (c : Char) : Decidable (Simple c) := by unfold Simple; infer_instance

theorem run_quoteChar (c : Char) (h : Simple c) (out rest : List Char) :
    run .normal out (quoteChar c ++ rest) = run .normal (c :: out) rest := by
  unfold quoteChar
  by_cases h0 : c = Char.ofNat 0
  · subst h0; simp [run, step]
  by_cases h1 : c = '\n'
  · subst h1; simp [run, step]
  by_cases h2 : c = '\r'
  · subst h2; simp [run, step]
  by_cases h3 : c = '\t'
  · subst h3; simp [run, step]
  by_cases h4 : c = '\\'
  · subst h4; simp [run, step]
  by_cases h5 : c = '"'
  · subst h5; simp [run, step]
  have hp : 0x20 ≤ c.toNat ∧ c.toNat ≤ 0x7E := by
    rcases h with h | h | h | h | h | h | h
    · exact absurd h h0
    · exact absurd h h1
    · exact absurd h h2
    · exact absurd h h3
    · exact absurd h h4
    · exact absurd h h5
    · exact h
  simp only [h0, h1, h2, h3, h4, h5, if_false, hp, and_self, if_true]
  simp [run, step, h4]

theorem run_quoteInner (cs : List Char) (h : ∀ c ∈ cs, Simple c) (out : List Char) :
    run .normal out (quoteInner cs) = some (out.reverse ++ cs) := by
  induction cs generalizing out with
  | nil => simp [quoteInner, run]
  | cons c cs ih =>
    simp only [quoteInner]
    rw [run_quoteChar c (h c (by simp))]
    rw [ih (fun d hd => h d (by simp [hd]))]
    simp

theorem quote_roundtrip_simple (cs : List Char) (h : ∀ c ∈ cs, Simple c) :
    parseStringLiteral (quoteString cs) = some cs := by
  have hrev : (quoteInner cs ++ ['"']).reverse = '"' :: (quoteInner cs).reverse := by simp
  show (match (quoteInner cs ++ ['"']).reverse with
        | '"' :: content => unescape content.reverse
        | _ => none) = some cs
  rw [hrev]
  show unescape (quoteInner cs).reverse.reverse = some cs
  rw [List.reverse_reverse]
  unfold unescape
  rw [run_quoteInner cs h]
  rfl

/-! ## expressions -/

/-- identifiers that the parser reads as identifier expressions -/
def PlainIdent (n : String) : Prop :=
  n ≠ "true" ∧ n ≠ "false" ∧ n ≠ "nil" ∧ reservedIdent n = false

/-- the sub-fragment for which the round trip is proved -/
inductive RT : Expr → Prop where
  | ident (n : String) (h : PlainIdent n) : RT (.ident n)
  | int (l : String) : RT (.int false l)
  | fix (l : String) : RT (.fix false l)
  | bool (b : Bool) : RT (.bool b)
  | nil : RT .nil
  | void : RT .void

instance (n : String) : Decidable (PlainIdent n) := by unfold PlainIdent; infer_instance

theorem rt_example : RT (.ident "x") := .ident "x" (by decide)

theorem rt_roundtrip (e : Expr) (h : RT e) : parseAll (printE e) = some e := by
  cases h with
  | ident n hn =>
    obtain ⟨h1, h2, h3, h4⟩ := hn
    simp [printE, printExpr, mergeAmp, parseAll, parseExpr, nud, nudBody, loop, exprLbp, expect, h1, h2, h3, h4]
  | int l => simp [printE, printExpr, mergeAmp, parseAll, parseExpr, nud, nudBody, loop, exprLbp, expect]
  | fix l => simp [printE, printExpr, mergeAmp, parseAll, parseExpr, nud, nudBody, loop, exprLbp, expect]
  | bool b => cases b <;> simp [printE, printExpr, mergeAmp, parseAll, parseExpr, nud, nudBody, loop, exprLbp, expect]
  | nil => simp [printE, printExpr, mergeAmp, parseAll, parseExpr, nud, nudBody, loop, exprLbp, expect]
  | void => decide

end Verif.Proofs.Pratt
