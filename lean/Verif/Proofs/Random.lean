/-
Lemmas about Verif.Model.Random (C47): parameters of the rejection sampler, counting of draws.
-/
import Verif.Model.Random
namespace Verif.Proofs.Random
open Verif.Model.Random

/-! ### big-endian value -/

theorem foldl_be (bs : Bytes) (acc : Nat) :
    bs.foldl (fun acc b => acc * 256 + b.toNat) acc = acc * 256 ^ bs.length + beNat bs := by
  induction bs generalizing acc with
  | nil => simp [beNat]
  | cons b bs ih =>
    simp only [List.foldl_cons, List.length_cons, beNat]
    rw [ih, ih (0 * 256 + b.toNat)]
    simp [Nat.pow_succ, Nat.add_mul, Nat.mul_assoc, Nat.add_assoc, Nat.mul_comm 256]

theorem beNat_cons (b : UInt8) (bs : Bytes) : beNat (b :: bs) = b.toNat * 256 ^ bs.length + beNat bs := by
  have := foldl_be bs (0 * 256 + b.toNat)
  simpa [beNat] using this

theorem beNat_lt (bs : Bytes) : beNat bs < 256 ^ bs.length := by
  induction bs with
  | nil => simp [beNat]
  | cons b bs ih =>
    rw [beNat_cons, List.length_cons, Nat.pow_succ]
    have hb : b.toNat < 256 := b.toNat_lt
    have : b.toNat * 256 ^ bs.length + 256 ^ bs.length ≤ 256 * 256 ^ bs.length := by
      rw [← Nat.succ_mul]; exact Nat.mul_le_mul_right _ hb
    omega

/-! ### enumeration of all byte strings -/

theorem length_of_mem_allBytes {n : Nat} {bs : Bytes} (h : bs ∈ allBytes n) : bs.length = n := by
  induction n generalizing bs with
  | zero => simp [allBytes] at h; simp [h]
  | succ n ih =>
    simp only [allBytes, List.mem_flatMap, List.mem_map] at h
    obtain ⟨b, _, cs, hcs, rfl⟩ := h
    simp [ih hcs]

theorem flatMap_congr' {α β} {l : List α} {f g : α → List β} (h : ∀ a ∈ l, f a = g a) :
    l.flatMap f = l.flatMap g := by
  induction l with
  | nil => rfl
  | cons a l ih =>
    rw [List.flatMap_cons, List.flatMap_cons, h a (by simp), ih (fun x hx => h x (by simp [hx]))]

theorem range_blocks (a p : Nat) :
    (List.range a).flatMap (fun i => (List.range p).map (fun j => i * p + j)) = List.range (a * p) := by
  induction a with
  | zero => simp
  | succ a ih =>
    rw [List.range_succ, List.flatMap_append, ih, Nat.succ_mul, List.range_add]
    simp

theorem map_beNat_allBytes (n : Nat) : (allBytes n).map beNat = List.range (256 ^ n) := by
  induction n with
  | zero => simp [allBytes, beNat]
  | succ n ih =>
    rw [allBytes, List.map_flatMap, Nat.pow_succ, Nat.mul_comm, ← range_blocks]
    apply flatMap_congr'
    intro b hb
    rw [List.map_map, ← ih, List.map_map]
    apply List.map_congr_left
    intro bs hbs
    have hb' : b < 256 := List.mem_range.mp hb
    simp only [Function.comp, beNat_cons, length_of_mem_allBytes hbs]
    congr 2
    show (UInt8.ofNat b).toNat = b
    simp [UInt8.toNat_ofNat']
    omega

theorem length_allBytes (n : Nat) : (allBytes n).length = 256 ^ n := by
  have := congrArg List.length (map_beNat_allBytes n)
  simpa using this

/-! ### counting residues -/

theorem countP_mod_blocks (q p v : Nat) (hv : v < p) :
    (List.range (q * p)).countP (fun d => d % p = v) = q := by
  induction q with
  | zero => simp
  | succ q ih =>
    rw [Nat.succ_mul, List.range_add, List.countP_append, ih, List.countP_map]
    have : (List.range p).countP ((fun d => decide (d % p = v)) ∘ fun x => q * p + x)
         = (List.range p).countP (fun j => j == v) := by
      apply List.countP_congr
      intro j hj
      have hj' : j < p := List.mem_range.mp hj
      simp [Function.comp, Nat.mul_add_mod_self_right, Nat.mod_eq_of_lt hj']
    rw [this, ← List.count_eq_countP]
    rw [List.Nodup.count List.nodup_range, if_pos (List.mem_range.mpr hv)]

/-- the number of `d < 2^N` with `d mod 2^k = v` is `2^(N-k)` -/
theorem countP_mod_pow (N k v : Nat) (hk : k ≤ N) (hv : v < 2 ^ k) :
    (List.range (2 ^ N)).countP (fun d => d % 2 ^ k = v) = 2 ^ (N - k) := by
  have : 2 ^ N = 2 ^ (N - k) * 2 ^ k := by rw [← Nat.pow_add]; congr 1; omega
  rw [this]
  exact countP_mod_blocks _ _ _ hv

/-- Counting draws: among all `n`-byte draws, exactly `2^(8n − k)` have the masked candidate `v`. -/
theorem count_candidates (n k v : Nat) (hk : k ≤ 8 * n) (hv : v < 2 ^ k) :
    (allBytes n).countP (fun bs => candidate (2 ^ k - 1) bs = v) = 2 ^ (8 * n - k) := by
  have h1 : (allBytes n).countP (fun bs => candidate (2 ^ k - 1) bs = v)
      = ((allBytes n).map beNat).countP (fun d => d % 2 ^ k = v) := by
    rw [List.countP_map]
    apply List.countP_congr
    intro bs _
    simp [candidate, Nat.and_two_pow_sub_one_eq_mod]
  rw [h1, map_beNat_allBytes]
  have : (256 : Nat) ^ n = 2 ^ (8 * n) := by
    rw [Nat.pow_mul]
  rw [this]
  exact countP_mod_pow _ _ _ hk hv

/-! ### parameters -/

theorem lt_two_pow_bitLen (n : Nat) : n < 2 ^ bitLen n := by
  unfold bitLen
  split
  · simp [*]
  · exact Nat.lt_log2_self

theorem bitLen_le_iff (n b : Nat) : bitLen n ≤ b ↔ n < 2 ^ b := by
  unfold bitLen
  split
  · rename_i h; subst h; simp [Nat.two_pow_pos]
  · rename_i h
    rw [← Nat.log2_lt h]
    omega

theorem and_mask_ne_iff (max b : Nat) : ((max &&& (2 ^ b - 1)) != max) = true ↔ b < bitLen max := by
  rw [Nat.and_two_pow_sub_one_eq_mod]
  have := bitLen_le_iff max b
  constructor
  · intro h
    have : ¬ max < 2 ^ b := by
      intro hlt; simp [Nat.mod_eq_of_lt hlt] at h
    omega
  · intro h
    have hge : ¬ max < 2 ^ b := by omega
    have : max % 2 ^ b < 2 ^ b := Nat.mod_lt _ (Nat.two_pow_pos b)
    simp
    omega

theorem mask_step : ∀ b, b < 64 → (((2 ^ b - 1) <<< 1) ||| 1) % 2 ^ 64 = 2 ^ (b + 1) - 1 := by
  decide

/-- the mask loop computes `bitLen max` and the all-ones mask of that width (for 64-bit `max`) -/
theorem maskLoop_eq (max : Nat) (hmax : max < 2 ^ 64) :
    ∀ fuel b, b ≤ bitLen max → bitLen max - b < fuel →
      maskLoop max fuel (2 ^ b - 1) b = some (2 ^ bitLen max - 1, bitLen max) := by
  have hbl : bitLen max ≤ 64 := (bitLen_le_iff max 64).mpr hmax
  intro fuel
  induction fuel with
  | zero => intro b _ h; omega
  | succ fuel ih =>
    intro b hb hf
    unfold maskLoop
    by_cases hlt : b < bitLen max
    · rw [if_pos ((and_mask_ne_iff max b).mpr hlt), mask_step b (by omega)]
      exact ih (b + 1) (by omega) (by omega)
    · have : ¬ ((max &&& (2 ^ b - 1)) != max) = true := fun h => hlt ((and_mask_ne_iff max b).mp h)
      rw [if_neg this]
      have : b = bitLen max := by omega
      subst this; rfl

theorem byteSize_bound (k : Nat) : k ≤ 8 * ((k + 7) >>> 3) := by
  rw [Nat.shiftRight_eq_div_pow]; omega

/-- Both Go functions compute the same parameters: `mask = 2^bitLen(max) − 1`, `bitSize = bitLen max`,
    `byteSize = ⌈bitSize / 8⌉`. -/
theorem params_eq (ty : Ty) (max : Nat) (hmax : max < 2 ^ (8 * ty.byteSize)) :
    params ty max = some (2 ^ bitLen max - 1, bitLen max, (bitLen max + 7) >>> 3) := by
  unfold params
  cases hbig : ty.isBig
  · have h64 : max < 2 ^ 64 := by
      refine Nat.lt_of_lt_of_le hmax (Nat.pow_le_pow_right (by decide) ?_)
      cases ty <;> simp_all [Ty.byteSize, Ty.isBig]
    have := maskLoop_eq max h64 65 0 (Nat.zero_le _)
      (by have := (bitLen_le_iff max 64).mpr h64; omega)
    simp only [Nat.pow_zero, Nat.sub_self] at this
    simp [this]
  · simp [Nat.shiftLeft_eq]

theorem byteSize_le (ty : Ty) (max : Nat) (hmax : max < 2 ^ (8 * ty.byteSize)) :
    (bitLen max + 7) >>> 3 ≤ ty.byteSize := by
  have := (bitLen_le_iff max (8 * ty.byteSize)).mpr hmax
  rw [Nat.shiftRight_eq_div_pow]; omega

/-! ### the rejection loop -/

theorem sample_bounded (byteSize mask max : Nat) :
    ∀ fuel src d v d' s, sample byteSize mask max fuel src d = .ok v d' s → v ≤ max := by
  intro fuel
  induction fuel with
  | zero => intro src d v d' s h; simp [sample] at h
  | succ fuel ih =>
    intro src d v d' s h
    unfold sample at h
    split at h
    · cases h
    · simp only at h
      split at h
      · cases h; assumption
      · exact ih _ _ _ _ _ h

theorem readRandom_length {n : Nat} {src bs rest : Bytes} (h : readRandom n src = some (bs, rest)) :
    bs.length = n ∧ rest.length + n = src.length ∧ src = bs ++ rest := by
  unfold readRandom at h
  split at h
  · cases h
    refine ⟨by simp; omega, by simp; omega, by simp⟩
  · cases h

/-- the loop never runs out of fuel when started with `src.length + 1` (a zero-size draw yields the
    candidate 0, which is always accepted) -/
theorem sample_no_diverge (byteSize mask max : Nat) :
    ∀ fuel src d, src.length < fuel → sample byteSize mask max fuel src d ≠ .diverge := by
  intro fuel
  induction fuel with
  | zero => intro src d h; omega
  | succ fuel ih =>
    intro src d hlen
    unfold sample
    split
    · simp
    · rename_i bs rest hr
      obtain ⟨hl, hrest, _⟩ := readRandom_length hr
      simp only
      split
      · simp
      · rename_i hrej
        apply ih
        by_cases hz : byteSize = 0
        · exfalso; apply hrej
          have : bs = [] := by apply List.eq_nil_of_length_eq_zero; omega
          subst this; simp [candidate, beNat]
        · omega

theorem readRandom_append {n : Nat} (bs rest : Bytes) (h : bs.length = n) :
    readRandom n (bs ++ rest) = some (bs, rest) := by
  unfold readRandom
  rw [if_pos (by simp; omega)]
  simp [← h]

theorem sample_draws_gt (byteSize mask max : Nat) :
    ∀ fuel src d v d' s, sample byteSize mask max fuel src d = .ok v d' s → d < d' ∧ s = byteSize := by
  intro fuel
  induction fuel with
  | zero => intro src d v d' s h; simp [sample] at h
  | succ fuel ih =>
    intro src d v d' s h
    unfold sample at h
    split at h
    · cases h
    · simp only at h
      split at h
      · cases h; exact ⟨by omega, rfl⟩
      · have := ih _ _ _ _ _ h; exact ⟨by omega, this.2⟩

theorem sample_shift (byteSize mask max : Nat) :
    ∀ fuel src d, sample byteSize mask max fuel src (d + 1) = (sample byteSize mask max fuel src d).bump := by
  intro fuel
  induction fuel with
  | zero => intro src d; simp [sample, Out.bump]
  | succ fuel ih =>
    intro src d
    unfold sample
    split
    · simp [Out.bump]
    · simp only
      split
      · simp [Out.bump]
      · exact ih _ _

theorem sample_fuel (byteSize mask max : Nat) :
    ∀ f1 f2 src d, src.length < f1 → src.length < f2 →
      sample byteSize mask max f1 src d = sample byteSize mask max f2 src d := by
  intro f1
  induction f1 with
  | zero => intro f2 src d h; omega
  | succ f1 ih =>
    intro f2 src d h1 h2
    cases f2 with
    | zero => omega
    | succ f2 =>
      unfold sample
      split
      · rfl
      · rename_i bs rest hr
        obtain ⟨hl, hrest, _⟩ := readRandom_length hr
        simp only
        split
        · rfl
        · rename_i hrej
          have hz : byteSize ≠ 0 := by
            intro hz; apply hrej
            have : bs = [] := by apply List.eq_nil_of_length_eq_zero; omega
            subst this; simp [candidate, beNat]
          exact ih _ _ _ (by omega) (by omega)

/-- a source that is exactly one draw: accepted with value `v` iff the masked candidate is `v` -/
theorem sample_single (byteSize mask max fuel : Nat) (bs : Bytes) (hl : bs.length = byteSize)
    (v : Nat) (hv : v ≤ max) :
    sample byteSize mask max (fuel + 1) bs 0 = .ok v 1 byteSize ↔ candidate mask bs = v := by
  unfold sample
  have := readRandom_append bs [] hl
  rw [List.append_nil] at this
  rw [this]
  simp only
  split
  · simp
  · rename_i hrej
    constructor
    · intro h
      have := (sample_draws_gt _ _ _ _ _ _ _ _ _ h).1
      omega
    · intro h; omega

/-- first draw rejected: the loop continues on the rest of the stream -/
theorem sample_reject (byteSize mask max : Nat) (bs rest : Bytes) (hl : bs.length = byteSize)
    (hrej : ¬ candidate mask bs ≤ max) :
    sample byteSize mask max ((bs ++ rest).length + 1) (bs ++ rest) 0
      = (sample byteSize mask max (rest.length + 1) rest 0).bump := by
  have hz : byteSize ≠ 0 := by
    intro hz; apply hrej
    have : bs = [] := by apply List.eq_nil_of_length_eq_zero; omega
    subst this; simp [candidate, beNat]
  conv => lhs; unfold sample
  rw [readRandom_append bs rest hl]
  simp only [if_neg hrej]
  rw [← sample_shift]
  apply sample_fuel
  · simp; omega
  · omega

theorem sample_never_special (byteSize mask max : Nat) :
    ∀ fuel src d, sample byteSize mask max fuel src d ≠ .zeroModulo ∧
                  sample byteSize mask max fuel src d ≠ .goPanic := by
  intro fuel
  induction fuel with
  | zero => intro src d; simp [sample]
  | succ fuel ih =>
    intro src d
    unfold sample
    split
    · simp
    · simp only
      split
      · simp
      · exact ih _ _

theorem two_pow_bitLen_lt (m : Nat) (hm : 0 < m) : 2 ^ bitLen (m - 1) < 2 * m := by
  unfold bitLen
  split
  · omega
  · rename_i h
    have := Nat.log2_self_le h
    rw [Nat.pow_succ]
    omega

end Verif.Proofs.Random
