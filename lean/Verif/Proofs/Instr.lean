import Verif.Model.Codec.Instr
/-! Helper lemmas for C35 (instruction codec): every `decode*` inverts its `emit*`. -/
namespace Verif.Proofs.Instr
open Verif.Model.Instr

theorem getElem?_at (pre rest : Bytes) (x : UInt8) : (pre ++ x :: rest)[pre.length]? = some x := by
  simp

theorem getElem?_at1 (pre rest : Bytes) (x y : UInt8) : (pre ++ x :: y :: rest)[pre.length + 1]? = some y := by
  simp

theorem u8_toNat (n : Nat) (h : n < 256) : (u8 n).toNat = n := by
  simp [u8, UInt8.toNat_ofNat']
  omega

theorem wrap16_of_lt {n : Nat} (h : n < 65536) : wrap16 n = n := Nat.mod_eq_of_lt h

theorem and_ff (v : Nat) : v &&& 0xff = v % 256 := Nat.and_two_pow_sub_one_eq_mod v 8

theorem be16_value (v : Nat) (h : v < 65536) :
    wrap16 ((u8 ((v >>> 8) &&& 0xff)).toNat <<< 8) ||| (u8 (v &&& 0xff)).toNat = v := by
  have h1 : (v >>> 8) &&& 0xff = v / 256 := by
    rw [and_ff, Nat.shiftRight_eq_div_pow]
    have : v / 2 ^ 8 = v / 256 := rfl
    omega
  have h2 : v &&& 0xff = v % 256 := and_ff v
  rw [h1, h2, u8_toNat _ (by omega), u8_toNat _ (by omega)]
  have hlt : v % 256 < 2 ^ 8 := by
    have : (2 : Nat) ^ 8 = 256 := rfl
    omega
  rw [wrap16_of_lt (by rw [Nat.shiftLeft_eq]; have : (2 : Nat) ^ 8 = 256 := rfl; omega),
    ← Nat.shiftLeft_add_eq_or_of_lt hlt, Nat.shiftLeft_eq]
  have : (2 : Nat) ^ 8 = 256 := rfl
  omega

/-! ### primitives -/

theorem decodeByte_at (pre rest : Bytes) (x : UInt8) (h : pre.length + 1 < 65536) :
    decodeByte (pre ++ x :: rest) pre.length = .ok (x.toNat, pre.length + 1) := by
  simp [decodeByte, wrap16_of_lt h]

theorem decodeUint16_emit (pre rest : Bytes) (v : Nat) (hv : v < 65536) (h : pre.length + 2 < 65536) :
    decodeUint16 (pre ++ (emitUint16 v ++ rest)) pre.length = .ok (v, pre.length + 2) := by
  unfold decodeUint16 emitUint16
  simp only [List.cons_append, List.nil_append, getElem?_at, wrap16_of_lt (show pre.length + 1 < 65536 by omega),
    getElem?_at1, wrap16_of_lt h, be16_value v hv]

theorem decodeBool_emit (pre rest : Bytes) (b : Bool) (h : pre.length + 1 < 65536) :
    decodeBool (pre ++ (emitBool b ++ rest)) pre.length = .ok (b, pre.length + 1) := by
  unfold decodeBool emitBool
  simp only [List.cons_append, List.nil_append, decodeByte_at _ _ _ h]
  cases b <;> simp

theorem decodeUpvalue_emit (pre rest : Bytes) (u : Nat × Bool) (hv : u.1 < 65536) (h : pre.length + 3 < 65536) :
    decodeUpvalue (pre ++ (emitUpvalue u ++ rest)) pre.length = .ok (u, pre.length + 3) := by
  unfold decodeUpvalue emitUpvalue
  rw [List.append_assoc, decodeUint16_emit pre _ u.1 hv (by omega)]
  simp only []
  have hb := decodeBool_emit (pre ++ emitUint16 u.1) rest u.2 (by simp [emitUint16]; omega)
  simp only [List.append_assoc] at hb
  have hl : (pre ++ emitUint16 u.1).length = pre.length + 2 := by simp [emitUint16]
  rw [hl] at hb
  rw [hb]

/-! ### arrays -/

theorem flatten_u16_length (vs : List Nat) : ((vs.map emitUint16).flatten).length = 2 * vs.length := by
  induction vs with
  | nil => rfl
  | cons v vs ih => simp [emitUint16, ih]; omega

theorem flatten_up_length (us : List (Nat × Bool)) : ((us.map emitUpvalue).flatten).length = 3 * us.length := by
  induction us with
  | nil => rfl
  | cons v vs ih => simp [emitUpvalue, emitUint16, emitBool, ih]; omega

theorem u16ArrayLoop_emit (vs : List Nat) :
    ∀ (pre rest : Bytes) (acc : List Nat), (∀ v ∈ vs, v < 65536) → pre.length + 2 * vs.length < 65536 →
      decodeUint16ArrayLoop (pre ++ ((vs.map emitUint16).flatten ++ rest)) vs.length pre.length acc
        = .ok (acc ++ vs, pre.length + 2 * vs.length) := by
  induction vs with
  | nil => intro pre rest acc _ _; simp [decodeUint16ArrayLoop]
  | cons v vs ih =>
    intro pre rest acc hv hlen
    simp only [List.length_cons] at hlen
    simp only [List.map_cons, List.flatten_cons, List.length_cons, decodeUint16ArrayLoop, List.append_assoc]
    rw [decodeUint16_emit pre _ v (hv v (by simp)) (by omega)]
    simp only []
    have := ih (pre ++ emitUint16 v) rest (acc ++ [v]) (fun x hx => hv x (by simp [hx]))
      (by simp [emitUint16]; omega)
    have hl : (pre ++ emitUint16 v).length = pre.length + 2 := by simp [emitUint16]
    simp only [List.append_assoc, hl] at this
    rw [this]
    simp
    omega

theorem upArrayLoop_emit (us : List (Nat × Bool)) :
    ∀ (pre rest : Bytes) (acc : List (Nat × Bool)), (∀ u ∈ us, u.1 < 65536) → pre.length + 3 * us.length < 65536 →
      decodeUpvalueArrayLoop (pre ++ ((us.map emitUpvalue).flatten ++ rest)) us.length pre.length acc
        = .ok (acc ++ us, pre.length + 3 * us.length) := by
  induction us with
  | nil => intro pre rest acc _ _; simp [decodeUpvalueArrayLoop]
  | cons v vs ih =>
    intro pre rest acc hv hlen
    simp only [List.length_cons] at hlen
    simp only [List.map_cons, List.flatten_cons, List.length_cons, decodeUpvalueArrayLoop, List.append_assoc]
    rw [decodeUpvalue_emit pre _ v (hv v (by simp)) (by omega)]
    simp only []
    have hl : (pre ++ emitUpvalue v).length = pre.length + 3 := by simp [emitUpvalue, emitUint16, emitBool]
    have := ih (pre ++ emitUpvalue v) rest (acc ++ [v]) (fun x hx => hv x (by simp [hx]))
      (by rw [hl]; omega)
    simp only [List.append_assoc, hl] at this
    rw [this]
    simp
    omega

/-! ### operands -/

theorem decodeOperand_emit (o : Operand) (enc : Bytes) (he : emitOperand o = some enc) (hr : o.inRange = true)
    (pre rest : Bytes) (hlen : pre.length + enc.length < 65536) :
    decodeOperand o.kind (pre ++ (enc ++ rest)) pre.length = .ok (o, pre.length + enc.length) := by
  cases o with
  | bool b =>
    simp only [emitOperand, Option.some.injEq] at he; subst he
    simp only [Operand.kind, decodeOperand]
    have : (emitBool b).length = 1 := by simp [emitBool]
    rw [decodeBool_emit pre rest b (by omega), this]
  | u16 v =>
    simp only [emitOperand, Option.some.injEq] at he; subst he
    simp only [Operand.inRange, decide_eq_true_eq] at hr
    simp only [Operand.kind, decodeOperand]
    have : (emitUint16 v).length = 2 := by simp [emitUint16]
    rw [decodeUint16_emit pre rest v hr (by omega), this]
  | pathDomain v =>
    simp only [emitOperand, Option.some.injEq] at he; subst he
    simp only [Operand.inRange, decide_eq_true_eq] at hr
    simp only [Operand.kind, decodeOperand, emitByte, List.cons_append, List.nil_append, List.length_cons,
      List.length_nil] at hlen ⊢
    rw [decodeByte_at pre rest _ (by omega), u8_toNat v hr]
  | compositeKind v =>
    simp only [emitOperand, Option.some.injEq] at he; subst he
    simp only [Operand.inRange, decide_eq_true_eq] at hr
    simp only [wrap16_of_lt hr] at hlen
    simp only [Operand.kind, decodeOperand, wrap16_of_lt hr]
    have : (emitUint16 v).length = 2 := by simp [emitUint16]
    rw [this] at hlen
    rw [decodeUint16_emit pre rest v hr (by omega), this]
  | u16s vs =>
    simp only [Operand.inRange, Bool.and_eq_true, decide_eq_true_eq, List.all_eq_true] at hr
    obtain ⟨hn, hall⟩ := hr
    simp only [emitOperand, show ¬ vs.length > 65535 by omega, if_false, Option.some.injEq] at he; subst he
    have hl : (emitUint16 (wrap16 vs.length)).length = 2 := by simp [emitUint16]
    simp only [List.length_append, hl, flatten_u16_length] at hlen
    simp only [Operand.kind, decodeOperand, List.append_assoc, wrap16_of_lt (show vs.length < 65536 by omega)]
    rw [decodeUint16_emit pre _ vs.length (by omega) (by omega)]
    simp only []
    have := u16ArrayLoop_emit vs (pre ++ emitUint16 vs.length) rest [] hall
      (by simp [emitUint16]; omega)
    have hl2 : (pre ++ emitUint16 vs.length).length = pre.length + 2 := by simp [emitUint16]
    simp only [List.append_assoc, hl2, List.nil_append] at this
    rw [this]
    have hl3 : (emitUint16 vs.length).length = 2 := by simp [emitUint16]
    simp only [List.length_append, hl3, flatten_u16_length, Nat.add_assoc]
  | upvalues us =>
    simp only [Operand.inRange, Bool.and_eq_true, decide_eq_true_eq, List.all_eq_true] at hr
    obtain ⟨hn, hall⟩ := hr
    simp only [emitOperand, show ¬ us.length > 65535 by omega, if_false, Option.some.injEq] at he; subst he
    have hl : (emitUint16 (wrap16 us.length)).length = 2 := by simp [emitUint16]
    simp only [List.length_append, hl, flatten_up_length] at hlen
    simp only [Operand.kind, decodeOperand, List.append_assoc, wrap16_of_lt (show us.length < 65536 by omega)]
    rw [decodeUint16_emit pre _ us.length (by omega) (by omega)]
    simp only []
    have := upArrayLoop_emit us (pre ++ emitUint16 us.length) rest [] hall
      (by simp [emitUint16]; omega)
    have hl2 : (pre ++ emitUint16 us.length).length = pre.length + 2 := by simp [emitUint16]
    simp only [List.append_assoc, hl2, List.nil_append] at this
    rw [this]
    have hl3 : (emitUint16 us.length).length = 2 := by simp [emitUint16]
    simp only [List.length_append, hl3, flatten_up_length, Nat.add_assoc]

theorem decodeOperands_emit (ss : List OperandSpec) :
    ∀ (os : List Operand) (enc pre rest : Bytes), emitOperands ss os = some enc →
      (∀ o ∈ os, o.inRange = true) → pre.length + enc.length < 65536 →
      decodeOperands (pre ++ (enc ++ rest)) ss pre.length = .ok (os, pre.length + enc.length) := by
  induction ss with
  | nil =>
    intro os enc pre rest he _ _
    cases os with
    | nil => simp [emitOperands] at he; subst he; simp [decodeOperands]
    | cons o os => simp [emitOperands] at he
  | cons s ss ih =>
    intro os enc pre rest he hr hlen
    cases os with
    | nil => simp [emitOperands] at he
    | cons o os =>
      simp only [emitOperands] at he
      split at he
      · exact absurd he (by simp)
      rename_i hk
      have hk : o.kind = s.kind := by simpa using hk
      cases h1 : emitOperand o with
      | none => simp [h1] at he
      | some a =>
        cases h2 : emitOperands ss os with
        | none => simp [h1, h2] at he
        | some b =>
          simp only [h1, h2, Option.some.injEq] at he
          subst he
          simp only [List.length_append] at hlen
          simp only [decodeOperands, ← hk, List.append_assoc]
          rw [decodeOperand_emit o a h1 (hr o (by simp)) pre (b ++ rest) (by omega)]
          simp only []
          have := ih os b (pre ++ a) rest h2 (fun x hx => hr x (by simp [hx])) (by simp; omega)
          simp only [List.append_assoc, List.length_append] at this
          rw [this]
          simp
          omega

/-! ### instructions -/

/-- the table conditions the decoder relies on: opcodes fit a byte and identify their instruction -/
def TableOk (table : List InstrSpec) : Prop :=
  ∀ s ∈ table, s.opcode < 256 ∧ table.find? (fun t => t.opcode == s.opcode) = some s

theorem decodeInstruction_encode (table : List InstrSpec) (ht : TableOk table) (spec : InstrSpec)
    (hs : spec ∈ table) (os : List Operand) (enc : Bytes) (he : encode spec os = some enc)
    (hr : ∀ o ∈ os, o.inRange = true) (pre rest : Bytes) (hlen : pre.length + enc.length < 65536) :
    decodeInstruction table (pre ++ (enc ++ rest)) pre.length
      = .ok (⟨spec.opcode, os⟩, pre.length + enc.length) := by
  obtain ⟨hop, hfind⟩ := ht spec hs
  unfold encode at he
  cases h : emitOperands spec.operands os with
  | none => simp [h] at he
  | some b =>
    simp only [h, Option.map_some, Option.some.injEq] at he
    subst he
    simp only [List.length_cons] at hlen
    unfold decodeInstruction
    simp only [List.cons_append]
    rw [decodeByte_at pre _ _ (by omega), u8_toNat _ hop]
    simp only [hfind]
    have := decodeOperands_emit spec.operands os b (pre ++ [u8 spec.opcode]) rest h hr (by simp; omega)
    simp only [List.append_assoc, List.singleton_append, List.length_append, List.length_cons,
      List.length_nil] at this
    rw [this]
    simp
    omega

theorem encode_length_pos (spec : InstrSpec) (os : List Operand) (enc : Bytes) (he : encode spec os = some enc) :
    1 ≤ enc.length := by
  unfold encode at he
  cases h : emitOperands spec.operands os with
  | none => simp [h] at he
  | some b => simp [h] at he; subst he; simp

theorem decodeLoop_encodeAll (table : List InstrSpec) (ht : TableOk table) (is : List Instr) :
    ∀ (code pre : Bytes) (acc : List Instr) (fuel : Nat), encodeAll table is = some code →
      (∀ i ∈ is, ∀ o ∈ i.operands, o.inRange = true) → pre.length + code.length < 65536 →
      is.length < fuel →
      decodeInstructionsLoop table (pre ++ code) fuel pre.length acc = .ok (acc ++ is) := by
  induction is with
  | nil =>
    intro code pre acc fuel he _ hlen hf
    simp [encodeAll] at he; subst he
    cases fuel with
    | zero => omega
    | succ fuel =>
      simp only [List.append_nil, List.length_nil, Nat.add_zero] at hlen ⊢
      simp [decodeInstructionsLoop, wrap16_of_lt hlen]
  | cons i is ih =>
    intro code pre acc fuel he hr hlen hf
    cases fuel with
    | zero => omega
    | succ fuel =>
      simp only [encodeAll] at he
      cases hfind : table.find? (fun s => s.opcode == i.opcode) with
      | none => simp [hfind] at he
      | some spec =>
        have hmem : spec ∈ table := List.mem_of_find?_eq_some hfind
        have hop : spec.opcode = i.opcode := by
          have := List.find?_some hfind
          simpa using this
        cases h1 : encode spec i.operands with
        | none => simp [hfind, h1] at he
        | some a =>
          cases h2 : encodeAll table is with
          | none => simp [hfind, h1, h2] at he
          | some b =>
            simp only [hfind, h1, h2, Option.some.injEq] at he
            subst he
            have ha := encode_length_pos spec i.operands a h1
            simp only [List.length_append] at hlen
            have hcond : pre.length < wrap16 (pre ++ (a ++ b)).length := by
              rw [wrap16_of_lt (by simp; omega)]; simp; omega
            simp only [decodeInstructionsLoop, hcond, if_true]
            rw [decodeInstruction_encode table ht spec hmem i.operands a h1 (hr i (by simp)) pre b (by omega)]
            simp only []
            have := ih b (pre ++ a) (acc ++ [⟨spec.opcode, i.operands⟩]) fuel h2
              (fun x hx => hr x (by simp [hx])) (by simp; omega) (by simp at hf; omega)
            simp only [List.append_assoc, List.length_append] at this
            rw [this, hop]
            simp

end Verif.Proofs.Instr
