/-
C29 — the recursive Boolean checks of the model imply the declarative deep conditions of
`Verif.Spec.Import`.
-/
import Verif.Model.Import
import Verif.Spec.Import
namespace Verif.Proofs.ImportDeep
open Verif.Model.Types Verif.Model.Import Verif.Spec.Import

theorem declaredFieldsOk_spec (c : Ctx) (fs : IFields) : ∀ (decl : List (String × Ty)),
    declaredFieldsOk c fs decl = true →
    ∀ n t, (n, t) ∈ decl → ∃ v, fs.find n = some v ∧ c.subSema (dynType c v) t = true
  | [], _, n, t, hm => by simp at hm
  | (n', t') :: r, h, n, t, hm => by
    simp only [declaredFieldsOk, Bool.and_eq_true] at h
    rcases List.mem_cons.mp hm with heq | hm'
    · have hn : n' = n := by simpa using (congrArg Prod.fst heq).symm
      have ht : t' = t := by simpa using (congrArg Prod.snd heq).symm
      subst hn; subst ht
      have h1 := h.1
      cases hf : fs.find n' with
      | none => rw [hf] at h1; simp at h1
      | some v => rw [hf] at h1; exact ⟨v, rfl, by simpa using h1⟩
    · exact declaredFieldsOk_spec c fs r h.2 n t hm'

mutual
theorem importable_deep (c : Ctx) : ∀ (v : IV), importable c v = true → ∀ w ∈ subvalues v, ImportableHere c w
  | .void, _, w, hw => by simp [subvalues] at hw; subst hw; trivial
  | .nil, _, w, hw => by simp [subvalues] at hw; subst hw; trivial
  | .bool _, _, w, hw => by simp [subvalues] at hw; subst hw; trivial
  | .str _, _, w, hw => by simp [subvalues] at hw; subst hw; trivial
  | .char _, _, w, hw => by simp [subvalues] at hw; subst hw; trivial
  | .addr _, _, w, hw => by simp [subvalues] at hw; subst hw; trivial
  | .num _ _, _, w, hw => by simp [subvalues] at hw; subst hw; trivial
  | .path _ _, _, w, hw => by simp [subvalues] at hw; subst hw; trivial
  | .typeV _, _, w, hw => by simp [subvalues] at hw; subst hw; trivial
  | .cap _ _ _, h, _, _ => by simp [importable] at h
  | .some v, h, w, hw => by
    simp only [subvalues, List.mem_cons] at hw
    rcases hw with rfl | hw
    · trivial
    · exact importable_deep c v (by simpa [importable] using h) w hw
  | .arr t vs, h, w, hw => by
    simp only [subvalues, List.mem_cons] at hw
    rcases hw with rfl | hw
    · trivial
    · exact importableList_deep c vs (by simpa [importable] using h) w hw
  | .dict k v kvs, h, w, hw => by
    simp only [subvalues, List.mem_cons] at hw
    rcases hw with rfl | hw
    · trivial
    · exact importablePairs_deep c kvs (by simpa [importable] using h) w hw
  | .comp kind id fs, h, w, hw => by
    simp only [importable, Bool.and_eq_true] at h
    simp only [subvalues, List.mem_cons] at hw
    rcases hw with rfl | hw
    · cases hd : c.decls id with
      | none => simp [hd] at h
      | some d => exact ⟨d, hd, by simpa [hd] using h.1⟩
    · exact importableFields_deep c fs h.2 w hw
theorem importableList_deep (c : Ctx) : ∀ (vs : IVs), importableList c vs = true → ∀ w ∈ subvaluesList vs, ImportableHere c w
  | .nil, _, w, hw => by simp [subvaluesList] at hw
  | .cons v r, h, w, hw => by
    simp only [importableList, Bool.and_eq_true] at h
    simp only [subvaluesList, List.mem_append] at hw
    rcases hw with hw | hw
    · exact importable_deep c v h.1 w hw
    · exact importableList_deep c r h.2 w hw
theorem importablePairs_deep (c : Ctx) : ∀ (ps : IPairs), importablePairs c ps = true → ∀ w ∈ subvaluesPairs ps, ImportableHere c w
  | .nil, _, w, hw => by simp [subvaluesPairs] at hw
  | .cons k v r, h, w, hw => by
    simp only [importablePairs, Bool.and_eq_true] at h
    simp only [subvaluesPairs, List.mem_append] at hw
    rcases hw with hw | hw | hw
    · exact importable_deep c k h.1.1 w hw
    · exact importable_deep c v h.1.2 w hw
    · exact importablePairs_deep c r h.2 w hw
theorem importableFields_deep (c : Ctx) : ∀ (fs : IFields), importableFields c fs = true → ∀ w ∈ subvaluesFields fs, ImportableHere c w
  | .nil, _, w, hw => by simp [subvaluesFields] at hw
  | .cons _ v r, h, w, hw => by
    simp only [importableFields, Bool.and_eq_true] at h
    simp only [subvaluesFields, List.mem_append] at hw
    rcases hw with hw | hw
    · exact importable_deep c v h.1 w hw
    · exact importableFields_deep c r h.2 w hw
end

mutual
theorem conforms_deep (c : Ctx) : ∀ (v : IV), conforms c v = true → ∀ w ∈ subvalues v, ConformsHere c w
  | .void, _, w, hw => by simp [subvalues] at hw; subst hw; trivial
  | .nil, _, w, hw => by simp [subvalues] at hw; subst hw; trivial
  | .bool _, _, w, hw => by simp [subvalues] at hw; subst hw; trivial
  | .str _, _, w, hw => by simp [subvalues] at hw; subst hw; trivial
  | .char _, _, w, hw => by simp [subvalues] at hw; subst hw; trivial
  | .addr _, _, w, hw => by simp [subvalues] at hw; subst hw; trivial
  | .num _ _, _, w, hw => by simp [subvalues] at hw; subst hw; trivial
  | .path _ _, _, w, hw => by simp [subvalues] at hw; subst hw; trivial
  | .typeV _, _, w, hw => by simp [subvalues] at hw; subst hw; trivial
  | .cap _ _ _, _, w, hw => by simp [subvalues] at hw; subst hw; trivial
  | .some v, h, w, hw => by
    simp only [subvalues, List.mem_cons] at hw
    rcases hw with rfl | hw
    · trivial
    · exact conforms_deep c v (by simpa [conforms] using h) w hw
  | .arr t vs, h, w, hw => by
    simp only [subvalues, List.mem_cons] at hw
    cases t with
    | varArr e =>
      have h' : conformsElems c e vs = true := by simpa [conforms] using h
      have := conformsElems_deep c e vs h'
      rcases hw with rfl | hw
      · exact this.1
      · exact this.2 w hw
    | constArr e n =>
      have h' : (vs.length == n) = true ∧ conformsElems c e vs = true := by simpa [conforms] using h
      have := conformsElems_deep c e vs h'.2
      rcases hw with rfl | hw
      · exact ⟨by simpa using h'.1, this.1⟩
      · exact this.2 w hw
    | prim _ => simp [conforms] at h
    | opt _ => simp [conforms] at h
    | dict _ _ => simp [conforms] at h
    | ref _ _ => simp [conforms] at h
    | comp _ _ _ _ => simp [conforms] at h
    | iface _ => simp [conforms] at h
    | inter _ => simp [conforms] at h
    | fn _ _ _ => simp [conforms] at h
    | nilT => simp [conforms] at h
    | consT _ _ => simp [conforms] at h
    | capAny => simp [conforms] at h
    | cap _ => simp [conforms] at h
    | range _ => simp [conforms] at h
  | .dict k v kvs, h, w, hw => by
    simp only [subvalues, List.mem_cons] at hw
    have := conformsPairs_deep c k v kvs (by simpa [conforms] using h)
    rcases hw with rfl | hw
    · exact this.1
    · exact this.2 w hw
  | .comp kind id fs, h, w, hw => by
    simp only [subvalues, List.mem_cons] at hw
    simp only [conforms] at h
    cases hd : c.decls id with
    | none => simp [hd] at h
    | some d =>
      simp only [hd, Bool.and_eq_true] at h
      rcases hw with rfl | hw
      · exact ⟨d, hd, by simpa using h.1.1.1, by simpa using h.1.1.2, declaredFieldsOk_spec c fs d.fields h.1.2⟩
      · exact conformsFields_deep c fs h.2 w hw
theorem conformsElems_deep (c : Ctx) (e : Ty) : ∀ (vs : IVs), conformsElems c e vs = true →
    (∀ v ∈ vs.toList, c.sub (dynType c v) e = true) ∧ ∀ w ∈ subvaluesList vs, ConformsHere c w
  | .nil, _ => by simp [IVs.toList, subvaluesList]
  | .cons v r, h => by
    simp only [conformsElems, Bool.and_eq_true] at h
    have ih := conformsElems_deep c e r h.2
    refine ⟨?_, ?_⟩
    · intro x hx
      simp only [IVs.toList, List.mem_cons] at hx
      rcases hx with rfl | hx
      · exact h.1.1
      · exact ih.1 x hx
    · intro w hw
      simp only [subvaluesList, List.mem_append] at hw
      rcases hw with hw | hw
      · exact conforms_deep c v h.1.2 w hw
      · exact ih.2 w hw
theorem conformsPairs_deep (c : Ctx) (kt vt : Ty) : ∀ (ps : IPairs), conformsPairs c kt vt ps = true →
    (∀ p ∈ ps.toList, c.sub (dynType c p.1) kt = true ∧ c.sub (dynType c p.2) vt = true) ∧
    ∀ w ∈ subvaluesPairs ps, ConformsHere c w
  | .nil, _ => by simp [IPairs.toList, subvaluesPairs]
  | .cons k v r, h => by
    simp only [conformsPairs, Bool.and_eq_true] at h
    have ih := conformsPairs_deep c kt vt r h.2
    refine ⟨?_, ?_⟩
    · intro x hx
      simp only [IPairs.toList, List.mem_cons] at hx
      rcases hx with rfl | hx
      · exact ⟨h.1.1.1.1, h.1.1.2⟩
      · exact ih.1 x hx
    · intro w hw
      simp only [subvaluesPairs, List.mem_append] at hw
      rcases hw with hw | hw | hw
      · exact conforms_deep c k h.1.1.1.2 w hw
      · exact conforms_deep c v h.1.2 w hw
      · exact ih.2 w hw
theorem conformsFields_deep (c : Ctx) : ∀ (fs : IFields), conformsFields c fs = true → ∀ w ∈ subvaluesFields fs, ConformsHere c w
  | .nil, _, w, hw => by simp [subvaluesFields] at hw
  | .cons _ v r, h, w, hw => by
    simp only [conformsFields, Bool.and_eq_true] at h
    simp only [subvaluesFields, List.mem_append] at hw
    rcases hw with hw | hw
    · exact conforms_deep c v h.1 w hw
    · exact conformsFields_deep c r h.2 w hw
end

end Verif.Proofs.ImportDeep
