import Verif.Model.Lang3.Conformance
/-
Correctness of the port of `distinctConformances`: for an acyclic conformance graph the walk returns
every interface reachable through explicit conformances exactly once.
-/
namespace Verif.Proofs.Lang3
open Verif.Model.Lang3

/-- `Reach g cs x`: `x` is reachable from the explicit conformance list `cs` through `g`
(the transitive closure of "conforms explicitly to", started at the type that declares `cs`). -/
inductive Reach (g : Nat → List Nat) (cs : List Nat) : Nat → Prop where
  | base {c} : c ∈ cs → Reach g cs c
  | step {c y} : Reach g cs c → y ∈ g c → Reach g cs y

theorem Reach.lift {g : Nat → List Nat} {cs : List Nat} {c x : Nat} (hc : c ∈ cs) (h : Reach g (g c) x) :
    Reach g cs x := by
  induction h with
  | base hy => exact .step (.base hc) hy
  | step _ hy ih => exact .step ih hy

theorem Reach.mono {g : Nat → List Nat} {cs cs' : List Nat} {x : Nat} (hsub : ∀ c ∈ cs, c ∈ cs')
    (h : Reach g cs x) : Reach g cs' x := by
  induction h with
  | base hy => exact .base (hsub _ hy)
  | step _ hy ih => exact .step ih hy

/-- what one (sub)walk guarantees -/
structure Good (g : Nat → List Nat) (cs : List Nat) (w w' : Walk) : Prop where
  ext : ∃ new, w'.seen = w.seen ++ new ∧ (∀ x ∈ new, x ∉ w.seen) ∧ new.Nodup ∧
      (∀ x ∈ new, Reach g cs x) ∧ (∀ x ∈ new, ∀ y ∈ g x, y ∈ w'.seen)
  cover : ∀ c ∈ cs, c ∈ w'.seen
  sync : w.out.map (·.iface) = w.seen → w'.out.map (·.iface) = w'.seen

theorem Good.refl_nil (g : Nat → List Nat) (w : Walk) : Good g [] w w :=
  ⟨⟨[], by simp⟩, by simp, id⟩

theorem dcLoop_good (g : Nat → List Nat) (visit : Nat → Nat → Walk → Walk) (parent : Option Nat)
    (cs : List Nat)
    (hv : ∀ c root w1, c ∈ cs → Good g (g c) w1 (visit c root w1)) (w : Walk) :
    Good g cs w (dcLoop visit parent cs w) := by
  induction cs generalizing w with
  | nil => simpa [dcLoop] using Good.refl_nil g w
  | cons c cs ih =>
    have ih' := fun w => ih (fun c' root w1 h => hv c' root w1 (List.mem_cons_of_mem _ h)) w
    unfold dcLoop
    by_cases hseen : c ∈ w.seen
    · simp only [hseen, if_true]
      have h := ih' w
      obtain ⟨new, h1, h2, h3, h4, h5⟩ := h.ext
      refine ⟨⟨new, h1, h2, h3, fun x hx => Reach.mono (fun c hc => List.mem_cons_of_mem _ hc) (h4 x hx), h5⟩, ?_, h.sync⟩
      intro c' hc'
      rcases List.mem_cons.mp hc' with rfl | hc'
      · rw [h1]; exact List.mem_append_left _ hseen
      · exact h.cover c' hc'
    · simp only [hseen, if_false]
      generalize rootOf parent c = root
      let w1 : Walk := ⟨w.out ++ [⟨c, root⟩], w.seen ++ [c]⟩
      have hn := hv c root w1 (List.mem_cons_self ..)
      have hl := ih' (visit c root w1)
      obtain ⟨n1, a1, a2, a3, a4, a5⟩ := hn.ext
      obtain ⟨n2, b1, b2, b3, b4, b5⟩ := hl.ext
      have hw1 : w1.seen = w.seen ++ [c] := rfl
      have hseen2 : (dcLoop visit parent cs (visit c root w1)).seen = w.seen ++ (c :: n1 ++ n2) := by
        rw [b1, a1, hw1]; simp
      have mono2 : ∀ y, y ∈ (visit c root w1).seen → y ∈ (dcLoop visit parent cs (visit c root w1)).seen := by
        intro y hy; rw [b1]; exact List.mem_append_left _ hy
      refine ⟨⟨c :: n1 ++ n2, hseen2, ?_, ?_, ?_, ?_⟩, ?_, ?_⟩
      · intro x hx
        rcases List.mem_append.mp hx with hx | hx
        · rcases List.mem_cons.mp hx with rfl | hx
          · exact hseen
          · intro hxw; exact a2 x hx (by rw [hw1]; exact List.mem_append_left _ hxw)
        · intro hxw; exact b2 x hx (by rw [a1, hw1]; simp [hxw])
      · rw [List.nodup_append]
        refine ⟨?_, b3, ?_⟩
        · rw [List.nodup_cons]
          refine ⟨?_, a3⟩
          intro hc; exact a2 c hc (by rw [hw1]; simp)
        · intro x hx y hy hxy
          subst hxy
          exact b2 x hy (by rw [a1, hw1]; rcases List.mem_cons.mp hx with rfl | hx <;> simp [*])
      · intro x hx
        rcases List.mem_append.mp hx with hx | hx
        · rcases List.mem_cons.mp hx with rfl | hx
          · exact .base (List.mem_cons_self ..)
          · exact Reach.lift (List.mem_cons_self ..) (a4 x hx)
        · exact Reach.mono (fun c hc => List.mem_cons_of_mem _ hc) (b4 x hx)
      · intro x hx y hy
        rcases List.mem_append.mp hx with hx | hx
        · rcases List.mem_cons.mp hx with rfl | hx
          · exact mono2 y (hn.cover y hy)
          · exact mono2 y (a5 x hx y hy)
        · exact b5 x hx y hy
      · intro c' hc'
        rcases List.mem_cons.mp hc' with rfl | hc'
        · rw [hseen2]; simp
        · exact hl.cover c' hc'
      · intro hs
        apply hl.sync
        apply hn.sync
        show (w.out ++ [(⟨c, root⟩ : Conformance)]).map (fun x => x.iface) = w.seen ++ [c]
        simp [hs]

theorem dcWalk_good (g : Nat → List Nat) (rank : Nat → Nat)
    (hacyc : ∀ i j, j ∈ g i → rank j < rank i) :
    ∀ (fuel : Nat) (parent : Option Nat) (cs : List Nat) (w : Walk),
      (∀ c ∈ cs, rank c < fuel) → Good g cs w (dcWalk g fuel parent cs w) := by
  intro fuel
  induction fuel with
  | zero =>
    intro parent cs w hf
    cases cs with
    | nil => simpa [dcWalk] using Good.refl_nil g w
    | cons c cs => exact absurd (hf c (List.mem_cons_self ..)) (Nat.not_lt_zero _)
  | succ fuel ih =>
    intro parent cs w hf
    unfold dcWalk
    apply dcLoop_good
    intro c root w1 hc
    apply ih
    intro j hj
    have := hacyc c j hj
    have := hf c hc
    omega

end Verif.Proofs.Lang3
