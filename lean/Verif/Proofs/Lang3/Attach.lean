import Verif.Model.Lang3.Attach
/-
Lemmas about the attachment calculus: variable environment algebra and the at-most-one invariant.
-/
namespace Verif.Proofs.Lang3.Attach
open Verif.Model.Lang3.Attach

def keys (c : Comp) : List Nat := c.atts.map (·.1)

/-- every composite held by the state (in a variable or in the array) has at most one attachment per
attachment type -/
def Inv (s : St) : Prop := (∀ p ∈ s.vars, (keys p.2).Nodup) ∧ ∀ c ∈ s.stash, (keys c).Nodup

theorem get_mem {s : St} {x : Nat} {c : Comp} (h : s.get x = some c) : ∃ p ∈ s.vars, p.2 = c := by
  unfold St.get at h
  cases hf : s.vars.find? (·.1 == x) with
  | none => simp [hf] at h
  | some p => simp [hf] at h; exact ⟨p, List.mem_of_find?_eq_some hf, h⟩

theorem get_bind_self (s : St) (x : Nat) (c : Comp) : (s.bind x c).get x = some c := by
  simp [St.bind, St.get]

theorem get_bind_other (s : St) (x y : Nat) (c : Comp) (h : y ≠ x) : (s.bind x c).get y = s.get y := by
  simp only [St.bind, St.get]
  rw [List.find?_cons]
  have : ((x, c).1 == y) = false := by simp; exact fun e => h e.symm
  simp only [this]
  congr 1
  induction s.vars with
  | nil => rfl
  | cons p ps ih =>
    simp only [List.filter_cons]
    by_cases hp : p.1 = x
    · have h1 : (p.1 != x) = false := by simp [hp]
      have h2 : (p.1 == y) = false := by simp [hp]; exact fun e => h e.symm
      simp [h1, List.find?_cons, h2, ih]
    · have h1 : (p.1 != x) = true := by simp [hp]
      simp only [h1, if_true, List.find?_cons]
      cases (p.1 == y) <;> simp [ih]

theorem get_unbind_self (s : St) (x : Nat) : (s.unbind x).get x = none := by
  simp only [St.unbind, St.get]
  have : (s.vars.filter (·.1 != x)).find? (·.1 == x) = none := by
    rw [List.find?_eq_none]
    intro p hp
    have := (List.mem_filter.mp hp).2
    simp at this ⊢
    exact this
  simp [this]

theorem inv_bind {s : St} (h : Inv s) (x : Nat) (c : Comp) (hc : (keys c).Nodup) : Inv (s.bind x c) := by
  refine ⟨?_, h.2⟩
  intro p hp
  simp [St.bind] at hp
  rcases hp with rfl | hp
  · exact hc
  · exact h.1 p hp.1

theorem inv_unbind {s : St} (h : Inv s) (x : Nat) : Inv (s.unbind x) :=
  ⟨fun p hp => h.1 p (List.mem_filter.mp hp).1, h.2⟩

theorem inv_emit {s : St} (h : Inv s) (o : Obs) : Inv (s.emit o) := h

theorem inv_get {s : St} (h : Inv s) {x : Nat} {c : Comp} (hg : s.get x = some c) : (keys c).Nodup := by
  obtain ⟨p, hp, rfl⟩ := get_mem hg
  exact h.1 p hp

theorem keys_erase (c : Comp) (a : Nat) (h : (keys c).Nodup) : (keys (c.eraseAtt a)).Nodup := by
  unfold keys Comp.eraseAtt
  exact h.sublist ((List.filter_sublist).map _)

theorem keys_setAtt (c : Comp) (a : Nat) (k : Int) : keys (c.setAtt a k) = keys c := by
  unfold keys Comp.setAtt
  simp only [List.map_map]
  apply List.map_congr_left
  intro p _
  by_cases hp : p.1 = a <;> simp [hp]

theorem hasAtt_iff (c : Comp) (a : Nat) : c.hasAtt a = true ↔ a ∈ keys c := by
  unfold Comp.hasAtt keys
  simp [List.any_eq_true]

theorem keys_attach (c : Comp) (a : Nat) (k : Int) (h : (keys c).Nodup) (hn : c.hasAtt a = false) :
    (keys { c with atts := c.atts ++ [(a, k)] }).Nodup := by
  unfold keys
  simp only [List.map_append, List.map_cons, List.map_nil]
  rw [List.nodup_append]
  refine ⟨h, by simp, ?_⟩
  intro x hx y hy hxy
  simp at hy
  subst hy; subst hxy
  have := (hasAtt_iff c x).mpr hx
  rw [this] at hn
  cases hn

/-- one statement keeps the invariant -/
theorem step_inv (s s' : St) (st : Stmt) (h : Inv s) (hs : step s st = .ok s') : Inv s' := by
  cases st with
  | create x isRes id n =>
    simp [step] at hs; subst hs
    exact inv_bind h _ _ (by simp [keys])
  | attach x' a k x =>
    simp only [step] at hs
    cases hg : s.get x with
    | none => simp [hg] at hs
    | some c =>
      simp only [hg] at hs
      cases hh : c.hasAtt a with
      | true => simp [hh] at hs
      | false =>
        simp [hh] at hs; subst hs
        apply inv_bind
        · split
          · exact inv_unbind h _
          · exact h
        · exact keys_attach c a _ (inv_get h hg) hh
  | remove a x =>
    simp only [step] at hs
    cases hg : s.get x with
    | none => simp [hg] at hs
    | some c =>
      simp only [hg] at hs
      cases hk : c.getAtt a with
      | none => simp [hk] at hs; subst hs; exact h
      | some k =>
        simp [hk] at hs; subst hs
        have := inv_bind h x _ (keys_erase c a (inv_get h hg))
        split
        · exact inv_emit this _
        · exact this
  | move x' x =>
    simp only [step] at hs
    cases hg : s.get x with
    | none => simp [hg] at hs
    | some c =>
      simp [hg] at hs; subst hs
      apply inv_bind _ _ _ (inv_get h hg)
      split
      · exact inv_unbind h _
      · exact h
  | push x =>
    simp only [step] at hs
    cases hg : s.get x with
    | none => simp [hg] at hs
    | some c =>
      simp [hg] at hs; subst hs
      refine ⟨(inv_unbind h x).1, ?_⟩
      intro c' hc'
      simp at hc'
      rcases hc' with hc' | rfl
      · exact h.2 c' hc'
      · exact inv_get h hg
  | pop x' =>
    simp only [step] at hs
    cases hst : s.stash with
    | nil => simp [hst] at hs
    | cons c rest =>
      simp [hst] at hs; subst hs
      have h2 : Inv { s with stash := rest } :=
        ⟨h.1, fun c' hc' => h.2 c' (by rw [hst]; exact List.mem_cons_of_mem _ hc')⟩
      exact inv_bind h2 _ _ (h.2 c (by rw [hst]; exact List.mem_cons_self ..))
  | setN x v =>
    simp only [step] at hs
    cases hg : s.get x with
    | none => simp [hg] at hs
    | some c =>
      simp [hg] at hs; subst hs
      exact inv_bind h _ _ (by have := inv_get h hg; simpa [keys] using this)
  | sum x a =>
    simp only [step] at hs
    cases hg : s.get x with
    | none => simp [hg] at hs
    | some c => simp [hg] at hs; subst hs; exact inv_emit h _
  | setK x a v =>
    simp only [step] at hs
    cases hg : s.get x with
    | none => simp [hg] at hs
    | some c =>
      simp [hg] at hs; subst hs
      exact inv_bind h _ _ (by rw [keys_setAtt]; exact inv_get h hg)
  | viaRef x a =>
    simp only [step] at hs
    cases hg : s.get x with
    | none => simp [hg] at hs
    | some c => simp [hg] at hs; subst hs; exact inv_emit h _
  | has x a =>
    simp only [step] at hs
    cases hg : s.get x with
    | none => simp [hg] at hs
    | some c => simp [hg] at hs; subst hs; exact inv_emit h _
  | destroy x =>
    simp only [step] at hs
    cases hg : s.get x with
    | none => simp [hg] at hs
    | some c => simp [hg] at hs; subst hs; exact inv_unbind h x

theorem run_inv (ss : List Stmt) : ∀ (s : St), Inv s → Inv (run s ss).2 := by
  induction ss with
  | nil => intro s h; exact h
  | cons st ss ih =>
    intro s h
    simp only [run]
    cases hs : step s st with
    | ok s' => exact ih s' (step_inv s s' st h hs)
    | error e => exact h

end Verif.Proofs.Lang3.Attach
