import Verif.Model.Lang3.Conditions
/-
Lemmas about the condition calculus: what a normal return of `visitFunctionBody` implies.
-/
namespace Verif.Proofs.Lang3
open Verif.Model.Lang3.Cond

/-- same field values (conditions see nothing else of the state) -/
def SameAB (s t : St) : Prop := s.a = t.a ∧ s.b = t.b

theorem SameAB.rfl' (s : St) : SameAB s s := ⟨rfl, rfl⟩
theorem SameAB.trans' {s t u : St} (h1 : SameAB s t) (h2 : SameAB t u) : SameAB s u :=
  ⟨h1.1.trans h2.1, h1.2.trans h2.2⟩
theorem SameAB.symm' {s t : St} (h : SameAB s t) : SameAB t s := ⟨h.1.symm, h.2.symm⟩

theorem envOf_same {x y : Int} {s t : St} (h : SameAB s t) : envOf x y s = envOf x y t := by
  simp [envOf, h.1, h.2]

/-- every pre-condition test of the layer evaluates to `true` in the state -/
def PreHeld (L : Layer) (x y : Int) (s : St) : Prop :=
  ∀ t, Cond.test t ∈ L.pre → evalB (envOf x y s) t = .ok true

/-- every post-condition test of the layer evaluates to `true` in the exit state `s'`, with the
`before` variables bound to their values in the entry state `s` and `result` to `r` -/
def PostHeld (L : Layer) (x y : Int) (s s' : St) (r : Int) : Prop :=
  ∃ bs, evalBefores (envOf x y s) L.befores [] = .ok bs ∧
    ∀ t, Cond.test t ∈ L.post →
      evalB { envOf x y s' with result := some r, befores := bs } t = .ok true

theorem bind_ok {α β : Type} {m : M α} {f : α → M β} {s s' : St} {r : β}
    (h : (m >>= f) s = (.ok r, s')) : ∃ v s1, m s = (.ok v, s1) ∧ f v s1 = (.ok r, s') := by
  change M.bind m f s = _ at h
  unfold M.bind at h
  split at h
  · next v s1 hm => exact ⟨v, s1, hm, h⟩
  · next e s1 hm => simp at h

theorem lift_ok {α : Type} {r : Except Err α} {s s' : St} {v : α} (h : M.lift r s = (.ok v, s')) :
    r = .ok v ∧ s' = s := by
  unfold M.lift at h
  cases r <;> simp_all

theorem runConds_ok (post : Bool) (env : Env) (cs : List Cond) (s s' : St)
    (h : runConds post env cs s = (.ok (), s')) :
    SameAB s s' ∧ ∀ t, Cond.test t ∈ cs → evalB env t = .ok true := by
  induction cs generalizing s with
  | nil =>
    simp only [runConds] at h
    have : s' = s := by
      have := h; simp [pure, M.pure] at this; exact this.symm
    subst this
    exact ⟨SameAB.rfl' _, by simp⟩
  | cons c cs ih =>
    cases c with
    | emit e =>
      simp only [runConds] at h
      obtain ⟨v, s1, h1, h2⟩ := bind_ok h
      obtain ⟨hv, rfl⟩ := lift_ok h1
      obtain ⟨u, s2, h3, h4⟩ := bind_ok h2
      have hs2 : SameAB s1 s2 := by
        simp [M.trace] at h3; rw [← h3]; exact ⟨rfl, rfl⟩
      obtain ⟨i1, i2⟩ := ih s2 h4
      exact ⟨hs2.trans' i1, by intro t ht; simp at ht; exact i2 t ht⟩
    | test t0 =>
      simp only [runConds] at h
      obtain ⟨v, s1, h1, h2⟩ := bind_ok h
      obtain ⟨hv, rfl⟩ := lift_ok h1
      cases v with
      | false => simp [M.fail] at h2
      | true =>
        simp only [if_true] at h2
        obtain ⟨i1, i2⟩ := ih s1 h2
        refine ⟨i1, ?_⟩
        intro t ht
        simp at ht
        rcases ht with rfl | ht
        · exact hv
        · exact i2 t ht

/-- a normal return of `visitFunctionBody`: the body ran from a state with the entry fields, and
the layer's conditions held. -/
theorem visit_ok (L : Layer) (x y : Int) (body : M Int) (s s' : St) (r : Int)
    (h : visitFunctionBody L x y body s = (.ok r, s')) :
    ∃ s1 s2, SameAB s s1 ∧ body s1 = (.ok r, s2) ∧ SameAB s2 s' ∧
      PreHeld L x y s ∧ PostHeld L x y s s2 r := by
  unfold visitFunctionBody at h
  obtain ⟨s0, t0, h0, hA⟩ := bind_ok h
  have e0 : s0 = s ∧ t0 = s := by simp [M.get] at h0; exact ⟨h0.1.symm, h0.2.symm⟩
  obtain ⟨rfl, rfl⟩ := e0
  obtain ⟨bs, t1, h1, hB⟩ := bind_ok hA
  obtain ⟨hbs, rfl⟩ := lift_ok h1
  obtain ⟨u, t2, h2, hC⟩ := bind_ok hB
  obtain ⟨sab1, pre⟩ := runConds_ok _ _ _ _ _ h2
  obtain ⟨r', t3, h3, hD⟩ := bind_ok hC
  obtain ⟨s1', t4, h4, hE⟩ := bind_ok hD
  have e4 : s1' = t3 ∧ t4 = t3 := by simp [M.get] at h4; exact ⟨h4.1.symm, h4.2.symm⟩
  obtain ⟨rfl, rfl⟩ := e4
  obtain ⟨u', t5, h5, hF⟩ := bind_ok hE
  obtain ⟨sab2, post⟩ := runConds_ok _ _ _ _ _ h5
  have e5 : r' = r ∧ t5 = s' := by simp [pure, M.pure] at hF; exact hF
  obtain ⟨rfl, rfl⟩ := e5
  exact ⟨t2, t4, sab1, h3, sab2, pre, ⟨bs, hbs, post⟩⟩

/-- C10 `enforced`, on function values: every condition layer in scope held. -/
theorem fn_enforced (call : String → Int → Int → M Int) (x y : Int) (fv : FnVal) :
    ∀ (s s' : St) (r : Int), fv.run call x y s = (.ok r, s') →
      ∀ L ∈ fv.layers, PreHeld L x y s ∧ PostHeld L x y s s' r := by
  induction fv with
  | base L body =>
    intro s s' r h L' hL'
    simp [FnVal.layers] at hL'
    subst hL'
    obtain ⟨s1, s2, sab1, _, sab2, pre, bs, hbs, post⟩ := visit_ok _ _ _ _ _ _ _ h
    refine ⟨pre, bs, hbs, ?_⟩
    intro t ht
    rw [← envOf_same sab2]; exact post t ht
  | wrapped L inner ih =>
    intro s s' r h L' hL'
    obtain ⟨s1, s2, sab1, hin, sab2, pre, bs, hbs, post⟩ := visit_ok _ _ _ _ _ _ _ h
    simp [FnVal.layers] at hL'
    rcases hL' with rfl | hL'
    · refine ⟨pre, bs, hbs, ?_⟩
      intro t ht
      rw [← envOf_same sab2]; exact post t ht
    · obtain ⟨p1, bs', hbs', p2⟩ := ih s1 s2 r hin L' hL'
      refine ⟨?_, bs', ?_, ?_⟩
      · intro t ht; rw [envOf_same sab1]; exact p1 t ht
      · rw [envOf_same sab1]; exact hbs'
      · intro t ht; rw [← envOf_same sab2]; exact p2 t ht

end Verif.Proofs.Lang3

namespace Verif.Proofs.Lang3
open Verif.Model.Lang3.Cond

/-- the composite's own condition layer for `name` (a default implementation has none) -/
def ownLayer (p : Program) (name : String) : Layer :=
  match p.funs.find? (·.name == name) with
  | some f => rewrite f.conds
  | none => ⟨[], [], []⟩

/-- every condition layer in scope of a call of `name`: inherited (conformance order), then own -/
def layersInScope (p : Program) (name : String) : List Layer := p.inherited name ++ [ownLayer p name]

theorem wrapAll_layers (inh : List Layer) (fv : FnVal) : (wrapAll inh fv).layers = inh ++ fv.layers := by
  induction inh with
  | nil => rfl
  | cons L inh ih => simp [wrapAll, FnVal.layers] at ih ⊢; exact ih

theorem interpFn_layers (p : Program) (name : String) (fv : FnVal) (h : p.interpFn name = some fv) :
    fv.layers = layersInScope p name := by
  unfold Program.interpFn at h
  unfold layersInScope ownLayer
  cases hf : p.funs.find? (·.name == name) with
  | some f =>
    simp [hf] at h
    subst h
    rw [wrapAll_layers]; rfl
  | none =>
    simp [hf] at h
    obtain ⟨b, _, rfl⟩ := h
    rw [wrapAll_layers]; rfl

end Verif.Proofs.Lang3
