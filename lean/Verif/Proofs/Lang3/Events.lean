import Verif.Model.Lang3.Events
/-
Invariant of the event calculus: every payload in the trace has a declared shape.
-/
namespace Verif.Proofs.Lang3.Events
open Verif.Model.Lang3.Events

inductive All2 {α β : Type} (R : α → β → Prop) : List α → List β → Prop where
  | nil : All2 R [] []
  | cons {a b as bs} : R a b → All2 R as bs → All2 R (a :: as) (b :: bs)

/-- the payload `e` has exactly the fields `names/types` (count, names, order) with conforming values -/
def Conforms (e : Event) (id : String) (names : List String) (tys : List Ty) : Prop :=
  e.ty = id ∧ e.fields.map (·.1) = names ∧
    All2 (fun (f : String × Val) (t : Ty) => hasTy f.2 t = true) e.fields tys

/-- `e` is an instance of an event declared in `p`: a top-level event, the `ResourceDestroyed`
event of a resource, or the `ResourceDestroyed` event of a resource interface -/
def WellShaped (p : Program) (e : Event) : Prop :=
  (∃ d ∈ p.events, Conforms e d.id (d.params.map (·.name)) (d.params.map (·.ty))) ∨
  (∃ i d ps, p.resources[i]? = some d ∧ d.destroyEvent = some ps ∧
     Conforms e (resEventId i) (ps.map (·.name)) (ps.map (·.ty))) ∨
  (∃ i it ps, p.ifaces[i]? = some it ∧ it.destroyEvent = some ps ∧
     Conforms e (ifaceEventId i) (ps.map (·.name)) (ps.map (·.ty)))

def Inv (p : Program) (s : St) : Prop := ∀ e, Obs.event e ∈ s.tr → WellShaped p e

/-- the computation keeps the invariant -/
def Pres (p : Program) (m : M α) : Prop := ∀ s, Inv p s → Inv p (m s).2

theorem bind_def (m : M α) (f : α → M β) (s : St) :
    (m >>= f) s = match m s with | (.ok v, s') => f v s' | (.error e, s') => (.error e, s') := rfl

theorem pres_pure (p : Program) (v : α) : Pres p (pure v : M α) := fun _ h => h
theorem pres_fail (p : Program) (e : Err) : Pres p (fail e : M α) := fun _ h => h

theorem pres_bind (p : Program) (m : M α) (f : α → M β) (hm : Pres p m) (hf : ∀ v, Pres p (f v)) :
    Pres p (m >>= f) := by
  intro s h
  rw [bind_def]
  have := hm s h
  split
  · next v s' heq => rw [heq] at this; exact hf v s' this
  · next e s' heq => rw [heq] at this; exact this

theorem pres_log (p : Program) (l : String) : Pres p (trace (.log l)) := by
  intro s h e he
  simp [trace] at he
  exact h e he

theorem pres_event (p : Program) (ev : Event) (hw : WellShaped p ev) : Pres p (trace (.event ev)) := by
  intro s h e he
  simp [trace] at he
  rcases he with he | rfl
  · exact h e he
  · exact hw

theorem pres_getVar (p : Program) (x : Nat) : Pres p (getVar x) := by
  intro s h; unfold getVar; split <;> exact h
theorem pres_setVar (p : Program) (x : Nat) (r : Res) : Pres p (setVar x r) := fun _ h => h
theorem pres_dropVar (p : Program) (x : Nat) : Pres p (dropVar x) := fun _ h => h

theorem pres_evalExp (p : Program) (param : Option Val) (e : Exp) : Pres p (evalExp param e) := by
  induction e with
  | lit v => exact pres_pure p v
  | param => unfold evalExp; split; exact pres_pure p _; exact pres_fail p _
  | rfield x f =>
    unfold evalExp
    apply pres_bind _ _ _ (pres_getVar p x)
    intro r; split; exact pres_pure p _; exact pres_fail p _
  | tr id e ih =>
    unfold evalExp
    apply pres_bind _ _ _ ih
    intro v
    apply pres_bind _ _ _ (pres_log p _)
    intro _; exact pres_pure p v
  | cond t c a b ihc iha ihb =>
    unfold evalExp
    apply pres_bind _ _ _ ihc
    intro vc
    split
    · exact pres_bind _ _ _ iha (fun _ => pres_pure p _)
    · exact pres_bind _ _ _ ihb (fun _ => pres_pure p _)
    · exact pres_fail p _
  | chain present e ih =>
    unfold evalExp
    exact pres_bind _ _ _ ih (fun _ => pres_pure p _)
  | coalesce a b iha ihb =>
    unfold evalExp
    apply pres_bind _ _ _ iha
    intro va
    split
    · exact ihb
    · exact pres_pure p _
    · exact pres_fail p _
  | force e ih =>
    unfold evalExp
    apply pres_bind _ _ _ ih
    intro v
    split
    · exact pres_fail p _
    · exact pres_pure p _
    · exact pres_fail p _
  | cast t e ih =>
    unfold evalExp
    exact pres_bind _ _ _ ih (fun _ => pres_pure p _)
  | castq t e ih =>
    unfold evalExp
    exact pres_bind _ _ _ ih (fun _ => pres_pure p _)

theorem pres_evalArgs (p : Program) (param : Option Val) (es : List Exp) (ps : List Param) :
    Pres p (evalArgs param es ps) := by
  induction es generalizing ps with
  | nil => cases ps <;> simp [evalArgs] <;> first | exact pres_pure p _ | exact pres_fail p _
  | cons e es ih =>
    cases ps with
    | nil => simp [evalArgs]; exact pres_fail p _
    | cons q ps =>
      simp only [evalArgs]
      apply pres_bind _ _ _ (pres_evalExp p param e)
      intro v
      split
      · apply pres_bind _ _ _ (ih ps)
        intro rest; exact pres_pure p _
      · exact pres_fail p _

/-- values returned by `evalArgs` conform to the parameter types, one per parameter -/
theorem evalArgs_conform (param : Option Val) (es : List Exp) (ps : List Param) (s s' : St) (vals : List Val)
    (h : evalArgs param es ps s = (.ok vals, s')) :
    All2 (fun (v : Val) (t : Ty) => hasTy v t = true) vals (ps.map (·.ty)) := by
  induction es generalizing ps s s' vals with
  | nil =>
    cases ps with
    | nil => simp [evalArgs, pure, M.pure] at h; obtain ⟨rfl, _⟩ := h; exact .nil
    | cons q ps => simp [evalArgs, fail] at h
  | cons e es ih =>
    cases ps with
    | nil => simp [evalArgs, fail] at h
    | cons q ps =>
      simp only [evalArgs] at h
      rw [bind_def] at h
      split at h
      · next v s1 _ =>
        split at h
        · next hty =>
          rw [bind_def] at h
          split at h
          · next rest s2 hrest =>
            simp [pure, M.pure] at h
            rw [← h.1]
            exact .cons hty (ih ps s1 s2 rest hrest)
          · simp at h
        · simp [fail] at h
      · simp at h

theorem zip_conforms (names : List String) (vals : List Val) (tys : List Ty) (hn : names.length = tys.length)
    (h : All2 (fun (v : Val) (t : Ty) => hasTy v t = true) vals tys) :
    (names.zip vals).map (·.1) = names ∧
      All2 (fun (f : String × Val) (t : Ty) => hasTy f.2 t = true) (names.zip vals) tys := by
  induction h generalizing names with
  | nil =>
    cases names with
    | nil => exact ⟨rfl, .nil⟩
    | cons n ns => simp at hn
  | cons hv _ ih =>
    cases names with
    | nil => simp at hn
    | cons n ns =>
      have := ih ns (by simpa using hn)
      exact ⟨by simp [this.1], .cons hv this.2⟩

theorem pres_emitEvent (p : Program) (param : Option Val) (e : EmitSpec) : Pres p (emitEvent p param e) := by
  unfold emitEvent
  cases hd : p.events[e.ev]? with
  | none => exact pres_fail p _
  | some d =>
    simp only []
    intro s h
    rw [bind_def]
    have hargs := pres_evalArgs p param e.args d.params s h
    split
    · next vals s1 heq =>
      rw [heq] at hargs
      have hc := evalArgs_conform param e.args d.params s s1 vals heq
      apply pres_event p _ _ s1 hargs
      left
      refine ⟨d, List.mem_of_getElem? hd, rfl, ?_⟩
      exact zip_conforms _ vals _ (by simp) hc
    · next er s1 heq => rw [heq] at hargs; exact hargs

theorem pres_emitAll (p : Program) (param : Option Val) (es : List EmitSpec) : Pres p (emitAll p param es) := by
  induction es with
  | nil => exact pres_pure p _
  | cons e es ih =>
    simp only [emitAll]
    exact pres_bind _ _ _ (pres_emitEvent p param e) (fun _ => ih)

/-- the values built by the default-argument evaluation conform, one per declared parameter -/
theorem evalDefaults_conform (r : Res) (ps : List DParam) (vals : List Val)
    (h : evalDefaults r ps = .ok vals) :
    All2 (fun (v : Val) (t : Ty) => hasTy v t = true) vals (ps.map (·.ty)) := by
  induction ps generalizing vals with
  | nil => simp [evalDefaults] at h; subst h; exact .nil
  | cons dp ps ih =>
    unfold evalDefaults at h
    split at h
    · simp at h
    · next v hv =>
      split at h
      · next hty =>
        split at h
        · next rest hrest =>
          simp at h; subst h
          exact .cons hty (ih rest hrest)
        · simp at h
      · simp at h

theorem destroyEventOf_shaped (p : Program) (r : Res) (ev : Event) (h : destroyEventOf p r = .ok (some ev)) :
    WellShaped p ev := by
  unfold destroyEventOf at h
  split at h
  · simp at h
  · next d hd =>
    split at h
    · simp at h
    · next ps hps =>
      split at h
      · next vals hm =>
        simp at h; subst h
        right; left
        refine ⟨r.ty, d, ps, hd, hps, rfl, ?_⟩
        have hc := evalDefaults_conform r ps vals hm
        exact zip_conforms (ps.map (·.name)) vals _ (by simp) hc
      · simp at h

theorem pres_emitOpt (p : Program) (ev : Option Event) (h : ∀ e, ev = some e → WellShaped p e) :
    Pres p (emitOpt ev) := by
  cases ev with
  | none => exact pres_pure p _
  | some e => exact pres_event p e (h e rfl)

theorem evalIfaceEvents_shaped (p : Program) (r : Res) (is : List Nat) (evs : List Event)
    (h : evalIfaceEvents p r is = .ok evs) : ∀ e ∈ evs, WellShaped p e := by
  induction is generalizing evs with
  | nil => simp [evalIfaceEvents] at h; subst h; intro e he; cases he
  | cons i is ih =>
    unfold evalIfaceEvents at h
    split at h
    · simp at h
    · next it hit =>
      split at h
      · exact ih evs h
      · next ps hps =>
        split at h
        · simp at h
        · next vals hv =>
          split at h
          · next rest hrest =>
            simp at h; subst h
            intro e he
            rcases List.mem_cons.mp he with rfl | he
            · right; right
              exact ⟨i, it, ps, hit, hps, rfl, zip_conforms (ps.map (·.name)) vals _ (by simp)
                (evalDefaults_conform r ps vals hv)⟩
            · exact ih rest hrest e he
          · simp at h

theorem ifaceEventsOf_shaped (p : Program) (r : Res) (evs : List Event) (h : ifaceEventsOf p r = .ok evs) :
    ∀ e ∈ evs, WellShaped p e := by
  unfold ifaceEventsOf at h
  split at h
  · simp at h
  · exact evalIfaceEvents_shaped p r _ evs h

theorem pres_emitList (p : Program) (evs : List Event) (h : ∀ e ∈ evs, WellShaped p e) : Pres p (emitList evs) := by
  induction evs with
  | nil => exact pres_pure p _
  | cons e es ih =>
    simp only [emitList]
    exact pres_bind _ _ _ (pres_event p e (h e (List.mem_cons_self ..)))
      (fun _ => ih (fun e' he' => h e' (List.mem_cons_of_mem _ he')))

theorem pres_destroyRes (p : Program) (r : Res) : Pres p (destroyRes p r) := by
  induction r with
  | leaf ty fields =>
    intro s h
    unfold destroyRes
    split
    · exact h
    · next ievs hiev =>
      split
      · exact h
      · next ev hev =>
        exact pres_bind p _ _ (pres_emitList p ievs (ifaceEventsOf_shaped p _ ievs hiev))
          (fun _ => pres_emitOpt p ev (fun e he => destroyEventOf_shaped p _ e (he ▸ hev))) s h
  | node ty fields inner ih =>
    intro s h
    unfold destroyRes
    split
    · exact h
    · next ievs hiev =>
      split
      · exact h
      · next ev hev =>
        exact pres_bind p _ _ ih
          (fun _ => pres_bind p _ _ (pres_emitList p ievs (ifaceEventsOf_shaped p _ ievs hiev))
            (fun _ => pres_emitOpt p ev (fun e he => destroyEventOf_shaped p _ e (he ▸ hev)))) s h

theorem pres_evalRExp (p : Program) (r : RExp) : Pres p (evalRExp p r) := by
  induction r with
  | leaf ty args =>
    unfold evalRExp
    split
    · exact pres_fail p _
    · next d _ =>
      apply pres_bind _ _ _ (pres_evalArgs p none args d.fields)
      intro vals
      split
      · exact pres_pure p _
      · exact pres_fail p _
  | node ty args inner ih =>
    unfold evalRExp
    split
    · exact pres_fail p _
    · next d _ =>
      apply pres_bind _ _ _ (pres_evalArgs p none args d.fields)
      intro vals
      split
      · exact pres_bind _ _ _ ih (fun _ => pres_pure p _)
      · exact pres_fail p _

theorem pres_execStmt (p : Program) (st : Stmt) : Pres p (execStmt p st) := by
  cases st with
  | emit e => exact pres_emitEvent p none e
  | log e =>
    simp only [execStmt]
    exact pres_bind _ _ _ (pres_evalExp p none e) (fun _ => pres_log p _)
  | create x r =>
    simp only [execStmt]
    exact pres_bind _ _ _ (pres_evalRExp p r) (fun _ => pres_setVar p _ _)
  | setField x f e =>
    simp only [execStmt]
    apply pres_bind _ _ _ (pres_getVar p x); intro r
    apply pres_bind _ _ _ (pres_evalExp p none e); intro v
    split
    · split
      · skip
        split
        · exact pres_setVar p _ _
        · exact pres_fail p _
      · exact pres_fail p _
    · exact pres_fail p _
  | setInnerField x f e =>
    simp only [execStmt]
    apply pres_bind _ _ _ (pres_getVar p x); intro r
    apply pres_bind _ _ _ (pres_evalExp p none e); intro v
    split
    · split
      · split
        · skip
          split
          · exact pres_setVar p _ _
          · exact pres_fail p _
        · exact pres_fail p _
      · exact pres_fail p _
    · exact pres_fail p _
  | destroy x =>
    simp only [execStmt]
    apply pres_bind _ _ _ (pres_getVar p x); intro r
    apply pres_bind _ _ _ (pres_dropVar p x); intro _
    exact pres_destroyRes p r
  | call f arg =>
    simp only [execStmt]
    split
    · exact pres_fail p _
    · apply pres_bind _ _ _ (pres_evalExp p none arg); intro v
      apply pres_bind _ _ _ (pres_emitAll p _ _); intro _
      apply pres_bind _ _ _ (pres_emitAll p _ _); intro _
      exact pres_emitAll p _ _

theorem pres_execAll (p : Program) (ss : List Stmt) : Pres p (execAll p ss) := by
  induction ss with
  | nil => exact pres_pure p _
  | cons s ss ih =>
    simp only [execAll]
    exact pres_bind _ _ _ (pres_execStmt p s) (fun _ => ih)

end Verif.Proofs.Lang3.Events

namespace Verif.Proofs.Lang3.Events
open Verif.Model.Lang3.Events

/-- each default value is the default expression evaluated on `r`, transferred to the parameter type -/
theorem evalDefaults_values (r : Res) (ps : List DParam) (vals : List Val) (h : evalDefaults r ps = .ok vals) :
    All2 (fun (v : Val) (dp : DParam) => ∃ u, evalDExp r dp.dflt = .ok u ∧ v = box dp.ty u) vals ps := by
  induction ps generalizing vals with
  | nil => simp [evalDefaults] at h; subst h; exact .nil
  | cons dp ps ih =>
    unfold evalDefaults at h
    split at h
    · simp at h
    · next v hv =>
      split at h
      · split at h
        · next rest hrest =>
          simp at h; subst h
          exact .cons ⟨v, hv, rfl⟩ (ih rest hrest)
        · simp at h
      · simp at h

/-- what `destroyEventOf` returns -/
theorem destroyEventOf_spec (p : Program) (r : Res) (ev : Option Event) (h : destroyEventOf p r = .ok ev) :
    ∀ d ps, p.resources[r.ty]? = some d → d.destroyEvent = some ps →
      ∃ vals, ev = some ⟨resEventId r.ty, (ps.map (·.name)).zip vals⟩ ∧
        All2 (fun (v : Val) (dp : DParam) => ∃ u, evalDExp r dp.dflt = .ok u ∧ v = box dp.ty u) vals ps := by
  intro d ps hd hps
  unfold destroyEventOf at h
  simp only [hd, hps] at h
  split at h
  · next vals hm => simp at h; exact ⟨vals, h.symm, evalDefaults_values r ps vals hm⟩
  · simp at h

/-- the trace entries of an optional payload -/
def optEvents : Option Event → List Obs
  | some e => [Obs.event e]
  | none => []

theorem emitList_tr (evs : List Event) (s : St) :
    emitList evs s = (.ok (), { s with tr := s.tr ++ evs.map Obs.event }) := by
  induction evs generalizing s with
  | nil => simp [emitList, pure, M.pure]
  | cons e es ih =>
    simp only [emitList]
    rw [bind_def]
    simp only [trace]
    rw [ih]
    simp

theorem emitOpt_tr (ev : Option Event) (s s' : St) (h : emitOpt ev s = (.ok (), s')) :
    s'.tr = s.tr ++ optEvents ev := by
  cases ev with
  | none => simp [emitOpt, pure, M.pure] at h; simp [← h, optEvents]
  | some e => simp [emitOpt, trace] at h; simp [← h, optEvents]

end Verif.Proofs.Lang3.Events
