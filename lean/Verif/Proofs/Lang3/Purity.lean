import Verif.Model.Lang3.Purity
/-
Soundness of the purity analysis w.r.t. the effect semantics.
-/
namespace Verif.Proofs.Lang3.Purity
open Verif.Model.Lang3.Purity

/-- the trusted table of built-in purities is right: a built-in declared `view` has no effect -/
def BuiltinsSound (p : Program) : Prop :=
  ∀ f ∈ p, ∀ effs, Stmt.callBuiltin .view effs ∈ f.body → effs = []

theorem sum_zero {l : List Nat} (h : l.sum = 0) : ∀ x ∈ l, x = 0 := by
  induction l with
  | nil => intro x hx; cases hx
  | cons a l ih =>
    simp [List.sum_cons] at h
    intro x hx
    rcases List.mem_cons.mp hx with rfl | hx
    · exact h.1
    · exact ih h.2 x hx

theorem all_drop {l : List Kind} (h : l.all writeable = true) (n : Nat) : (l.drop n).all writeable = true := by
  rw [List.all_eq_true] at h ⊢
  intro x hx; exact h x (List.mem_of_mem_drop hx)

theorem no_ref_res {l : List Kind} (h : ∀ x ∈ l, writeable x = true) :
    Kind.reference ∉ l ∧ Kind.resource ∉ l :=
  ⟨fun hm => by have := h _ hm; simp [writeable] at this, fun hm => by have := h _ hm; simp [writeable] at this⟩

theorem stepKinds_sub (path : List Step) : ∀ k ∈ stepKinds path, k ∈ stepChain path := by
  intro k hk
  unfold stepKinds at hk
  unfold stepChain
  rw [List.mem_map] at hk
  obtain ⟨st, hst, rfl⟩ := hk
  rw [List.mem_flatMap]
  refine ⟨st, hst, ?_⟩
  cases st <;> simp [stepChain1, stepKind]

/-- the containers above the innermost access are on the chain without its last entry -/
theorem stepKinds_dropLast_sub (path : List Step) :
    ∀ k ∈ (stepKinds path).dropLast, k ∈ (stepChain path).dropLast := by
  rcases List.eq_nil_or_concat path with rfl | ⟨init, last, hp⟩
  · intro k hk; simp [stepKinds] at hk
  · have hp' : path = init ++ [last] := by simpa using hp
    subst hp'
    intro k hk
    have h1 : (stepKinds (init ++ [last])).dropLast = stepKinds init := by
      simp [stepKinds]
    rw [h1] at hk
    have hmem := stepKinds_sub init k hk
    have h2 : stepChain (init ++ [last]) = stepChain init ++ stepChain1 last := by
      simp [stepChain]
    rw [h2]
    have hne : stepChain1 last ≠ [] := by cases last <;> simp [stepChain1]
    rw [List.dropLast_append_of_ne_nil hne]
    exact List.mem_append_left _ hmem

/-- an assignment the analysis lets pass writes into a fresh object -/
theorem assign_fresh (f : Fun) (t : Target) (h : viewAssignImpure f.depth f.isInit t = false) :
    writeEffect f t = .freshWrite := by
  unfold viewAssignImpure at h
  unfold writeEffect containers
  cases hr : t.root with
  | notVar => simp [hr] at h
  | self_ =>
    simp only [hr] at h ⊢
    simp at h
    obtain ⟨hi, hc⟩ := h
    have hchain : (accessChain t).dropLast = stepChain t.path := by
      simp [accessChain, hr]
    have hc' : ∀ x ∈ (stepKinds t.path).dropLast, writeable x = true := by
      intro x hx
      apply hc x
      rw [hchain]
      exact stepKinds_dropLast_sub t.path x hx
    have := no_ref_res hc'
    simp [this.1, this.2, hi]
  | var d =>
    simp only [hr] at h ⊢
    simp at h
    obtain ⟨hc, hd⟩ := h
    have hc' : ∀ x ∈ stepKinds t.path ++ [t.rootKind], writeable x = true := by
      intro x hx
      apply hc x
      simp only [accessChain, hr]
      rcases List.mem_append.mp hx with hx | hx
      · exact List.mem_append_left _ (stepKinds_sub t.path x hx)
      · exact List.mem_append_right _ hx
    have := no_ref_res hc'
    have h1 := this.1
    have h2 := this.2
    simp only [List.mem_append, List.mem_singleton, not_or] at h1 h2
    have e1 : ¬ t.rootKind = Kind.reference := fun e => h1.2 e.symm
    have e2 : ¬ t.rootKind = Kind.resource := fun e => h2.2 e.symm
    simp [h1.1, h2.1, e1, e2, hd]

/-- an effect allowed to a view function; with `noEmit` events are excluded too -/
def Clean (noEmit : Bool) (e : Effect) : Prop := e = .freshWrite ∨ (noEmit = false ∧ e = .event)

theorem frame_aux (p : Program) (hc : purityCheck p = true) (hb : BuiltinsSound p) (noEmit : Bool)
    (hne : noEmit = true → ∀ f ∈ p, Stmt.emit ∉ f.body) :
    ∀ (fuel : Nat) (f : Fun), f ∈ p → f.purity = .view →
      ∀ ss, (∀ s ∈ ss, s ∈ f.body) → ∀ e ∈ execStmts p f fuel ss, Clean noEmit e := by
  intro fuel
  induction fuel with
  | zero =>
    intro f hf hv ss
    induction ss with
    | nil => intro _ e he; simp [execStmts] at he
    | cons s ss ih =>
      intro hsub e he
      have hferr : funErrors p f = 0 := by
        have := (List.all_eq_true.mp hc) f hf; simpa using this
      have hs0 : impureCount p f s = 0 := by
        unfold funErrors at hferr
        simp [hv] at hferr
        exact sum_zero hferr _ (List.mem_map_of_mem (hsub s (List.mem_cons_self ..)))
      simp only [execStmts, List.mem_append] at he
      rcases he with he | he
      · cases s with
        | declare => simp [execStmt] at he
        | assign t =>
          simp [execStmt] at he; subst he
          left; apply assign_fresh
          simp [impureCount] at hs0; simpa using hs0
        | swap l r =>
          simp [execStmt] at he
          simp [impureCount] at hs0
          rcases he with rfl | rfl
          · left; apply assign_fresh; simpa using hs0.1
          · left; apply assign_fresh; simpa using hs0.2
        | callFn i => simp [execStmt] at he
        | callBuiltin d effs =>
          simp [execStmt] at he
          simp [impureCount] at hs0
          have : d = .view := by cases d <;> simp_all
          subst this
          have := hb f hf effs (hsub _ (List.mem_cons_self ..))
          subst this; cases he
        | destroy => simp [impureCount] at hs0
        | emit =>
          simp [execStmt] at he; subst he
          cases hn : noEmit with
          | true => exact absurd (hsub _ (List.mem_cons_self ..)) (hne hn f hf)
          | false => right; exact ⟨rfl, rfl⟩
      · exact ih (fun s hs => hsub s (List.mem_cons_of_mem _ hs)) e he
  | succ fuel ihf =>
    intro f hf hv ss
    induction ss with
    | nil => intro _ e he; simp [execStmts] at he
    | cons s ss ih =>
      intro hsub e he
      have hferr : funErrors p f = 0 := by
        have := (List.all_eq_true.mp hc) f hf; simpa using this
      have hs0 : impureCount p f s = 0 := by
        unfold funErrors at hferr
        simp [hv] at hferr
        exact sum_zero hferr _ (List.mem_map_of_mem (hsub s (List.mem_cons_self ..)))
      simp only [execStmts, List.mem_append] at he
      rcases he with he | he
      · cases s with
        | declare => simp [execStmt] at he
        | assign t =>
          simp [execStmt] at he; subst he
          left; apply assign_fresh
          simp [impureCount] at hs0; simpa using hs0
        | swap l r =>
          simp [execStmt] at he
          simp [impureCount] at hs0
          rcases he with rfl | rfl
          · left; apply assign_fresh; simpa using hs0.1
          · left; apply assign_fresh; simpa using hs0.2
        | callFn i =>
          simp only [execStmt] at he
          simp only [impureCount] at hs0
          cases hg : p[i]? with
          | none => simp [hg] at he
          | some g =>
            simp only [hg] at he hs0
            have hgv : g.purity = .view := by cases hgp : g.purity <;> simp_all
            exact ihf g (List.mem_of_getElem? hg) hgv g.body (fun _ h => h) e he
        | callBuiltin d effs =>
          simp [execStmt] at he
          simp [impureCount] at hs0
          have : d = .view := by cases d <;> simp_all
          subst this
          have := hb f hf effs (hsub _ (List.mem_cons_self ..))
          subst this; cases he
        | destroy => simp [impureCount] at hs0
        | emit =>
          simp [execStmt] at he; subst he
          cases hn : noEmit with
          | true => exact absurd (hsub _ (List.mem_cons_self ..)) (hne hn f hf)
          | false => right; exact ⟨rfl, rfl⟩
      · exact ih (fun s hs => hsub s (List.mem_cons_of_mem _ hs)) e he

end Verif.Proofs.Lang3.Purity
