import Verif.Proofs.Lang3.Conditions
/-
Equivalence of the VM's desugared (inlined) conditions and the interpreter's wrappers.
-/
namespace Verif.Proofs.Lang3
open Verif.Model.Lang3.Cond

/-! ## bounded before-variables -/

def boundI (n : Nat) : IExp → Bool
  | .bvar k => decide (k < n)
  | .before _ => false
  | .add l r | .sub l r | .mul l r | .div l r => boundI n l && boundI n r
  | _ => true

def boundB (n : Nat) : BExp → Bool
  | .lt l r | .le l r | .eq l r => boundI n l && boundI n r
  | .and l r | .or l r => boundB n l && boundB n r
  | .not e => boundB n e
  | _ => true

def boundC (n : Nat) : Cond → Bool
  | .emit e => boundI n e
  | .test t => boundB n t

/-- every before-variable used by the post-conditions is declared by the layer's before statements -/
def LayerWf (L : Layer) : Prop := ∀ c ∈ L.post, boundC L.befores.length c = true

/-- the layer's before statements never fault -/
def LayerTotal (L : Layer) : Prop := ∀ env : Env, ∃ bs, evalBefores env L.befores [] = .ok bs

def withB (env : Env) (bs : List Int) : Env := { env with befores := bs }

theorem boundI_mono {n m : Nat} (h : n ≤ m) (e : IExp) (hb : boundI n e = true) : boundI m e = true := by
  induction e with
  | bvar k => simp [boundI] at hb ⊢; omega
  | before e _ => simp [boundI] at hb
  | add l r ihl ihr | sub l r ihl ihr | mul l r ihl ihr | div l r ihl ihr =>
    simp [boundI] at hb ⊢; exact ⟨ihl hb.1, ihr hb.2⟩
  | _ => simp [boundI]

theorem boundB_mono {n m : Nat} (h : n ≤ m) (e : BExp) (hb : boundB n e = true) : boundB m e = true := by
  induction e with
  | lt l r | le l r | eq l r =>
    simp [boundB] at hb ⊢; exact ⟨boundI_mono h l hb.1, boundI_mono h r hb.2⟩
  | and l r ihl ihr | or l r ihl ihr => simp [boundB] at hb ⊢; exact ⟨ihl hb.1, ihr hb.2⟩
  | not e ih => simp [boundB] at hb ⊢; exact ih hb
  | _ => simp [boundB]

theorem boundC_mono {n m : Nat} (h : n ≤ m) (c : Cond) (hb : boundC n c = true) : boundC m c = true := by
  cases c with
  | emit e => exact boundI_mono h e hb
  | test t => exact boundB_mono h t hb

theorem boundI_shift (n m : Nat) (e : IExp) (hb : boundI m e = true) : boundI (n + m) (shiftI n e) = true := by
  induction e with
  | bvar k => simp [boundI, shiftI] at hb ⊢; omega
  | before e _ => simp [boundI] at hb
  | add l r ihl ihr | sub l r ihl ihr | mul l r ihl ihr | div l r ihl ihr =>
    simp [boundI, shiftI] at hb ⊢; exact ⟨ihl hb.1, ihr hb.2⟩
  | _ => simp [boundI, shiftI]

theorem boundB_shift (n m : Nat) (e : BExp) (hb : boundB m e = true) : boundB (n + m) (shiftB n e) = true := by
  induction e with
  | lt l r | le l r | eq l r =>
    simp [boundB, shiftB] at hb ⊢; exact ⟨boundI_shift n m l hb.1, boundI_shift n m r hb.2⟩
  | and l r ihl ihr | or l r ihl ihr => simp [boundB, shiftB] at hb ⊢; exact ⟨ihl hb.1, ihr hb.2⟩
  | not e ih => simp [boundB, shiftB] at hb ⊢; exact ih hb
  | _ => simp [boundB, shiftB]

theorem boundC_shift (n m : Nat) (c : Cond) (hb : boundC m c = true) : boundC (n + m) (shiftC n c) = true := by
  cases c with
  | emit e => exact boundI_shift n m e hb
  | test t => exact boundB_shift n m t hb

/-! ## evaluation under shifted / extended before-environments -/

theorem evalI_shift (env : Env) (pre bs : List Int) (e : IExp) :
    evalI (withB env (pre ++ bs)) (shiftI pre.length e) = evalI (withB env bs) e := by
  induction e with
  | bvar k =>
    simp only [shiftI, evalI, withB]
    rw [List.getElem?_append_right (by omega)]
    simp
  | add l r ihl ihr | sub l r ihl ihr | mul l r ihl ihr | div l r ihl ihr =>
    simp only [shiftI, evalI, ihl, ihr]
  | _ => simp [shiftI, evalI, withB]

theorem evalB_shift (env : Env) (pre bs : List Int) (e : BExp) :
    evalB (withB env (pre ++ bs)) (shiftB pre.length e) = evalB (withB env bs) e := by
  induction e with
  | lt l r | le l r | eq l r => simp only [shiftB, evalB, evalI_shift]
  | and l r ihl ihr | or l r ihl ihr => simp only [shiftB, evalB, ihl, ihr]
  | not e ih => simp only [shiftB, evalB, ih]
  | _ => simp [shiftB, evalB]

theorem evalI_ext (env : Env) (bs extra : List Int) (e : IExp) (hb : boundI bs.length e = true) :
    evalI (withB env (bs ++ extra)) e = evalI (withB env bs) e := by
  induction e with
  | bvar k =>
    simp [boundI] at hb
    simp only [evalI, withB]
    rw [List.getElem?_append_left hb]
  | before e _ => simp [boundI] at hb
  | add l r ihl ihr | sub l r ihl ihr | mul l r ihl ihr | div l r ihl ihr =>
    simp [boundI] at hb
    simp only [evalI, ihl hb.1, ihr hb.2]
  | _ => simp [evalI, withB]

theorem evalB_ext (env : Env) (bs extra : List Int) (e : BExp) (hb : boundB bs.length e = true) :
    evalB (withB env (bs ++ extra)) e = evalB (withB env bs) e := by
  induction e with
  | lt l r | le l r | eq l r =>
    simp [boundB] at hb
    simp only [evalB, evalI_ext env bs extra _ hb.1, evalI_ext env bs extra _ hb.2]
  | and l r ihl ihr | or l r ihl ihr =>
    simp [boundB] at hb
    simp only [evalB, ihl hb.1, ihr hb.2]
  | not e ih => simp [boundB] at hb; simp only [evalB, ih hb]
  | _ => simp [evalB]

theorem runConds_shift (post : Bool) (env : Env) (pre bs : List Int) (cs : List Cond) :
    runConds post (withB env (pre ++ bs)) (cs.map (shiftC pre.length)) = runConds post (withB env bs) cs := by
  induction cs with
  | nil => rfl
  | cons c cs ih =>
    cases c with
    | emit e => simp only [List.map_cons, shiftC, runConds, evalI_shift, ih]
    | test t => simp only [List.map_cons, shiftC, runConds, evalB_shift, ih]

theorem runConds_ext (post : Bool) (env : Env) (bs extra : List Int) (cs : List Cond)
    (hb : ∀ c ∈ cs, boundC bs.length c = true) :
    runConds post (withB env (bs ++ extra)) cs = runConds post (withB env bs) cs := by
  induction cs with
  | nil => rfl
  | cons c cs ih =>
    have hc := hb c (List.mem_cons_self ..)
    have ih' := ih (fun c' h => hb c' (List.mem_cons_of_mem _ h))
    cases c with
    | emit e => simp only [runConds, evalI_ext env bs extra e hc, ih']
    | test t => simp only [runConds, evalB_ext env bs extra t hc, ih']

theorem bind_assoc' {α β γ : Type} (m : M α) (f : α → M β) (g : β → M γ) :
    (m >>= f) >>= g = m >>= fun a => f a >>= g := by
  funext s
  show M.bind (M.bind m f) g s = M.bind m (fun a => M.bind (f a) g) s
  unfold M.bind
  cases m s with
  | mk r s' => cases r <;> rfl

theorem runConds_append (post : Bool) (env : Env) (c1 c2 : List Cond) :
    runConds post env (c1 ++ c2) = runConds post env c1 >>= fun _ => runConds post env c2 := by
  induction c1 with
  | nil =>
    funext s
    show runConds post env c2 s = M.bind (M.pure ()) (fun _ => runConds post env c2) s
    rfl
  | cons c cs ih =>
    cases c with
    | emit e =>
      simp only [List.cons_append, runConds, ih, bind_assoc']
    | test t =>
      simp only [List.cons_append, runConds, ih, bind_assoc']
      congr 1
      funext v
      cases v
      · funext s; rfl
      · rfl

/-! ## before statements -/

theorem evalBefores_env (env : Env) (bs0 : List Int) (l : List IExp) (acc : List Int) :
    evalBefores (withB env bs0) l acc = evalBefores env l acc := by
  induction l generalizing acc with
  | nil => rfl
  | cons e es ih =>
    simp only [evalBefores]
    have : ({ withB env bs0 with befores := acc } : Env) = { env with befores := acc } := rfl
    rw [this]
    cases evalI { env with befores := acc } e with
    | error er => rfl
    | ok v => exact ih (acc ++ [v])

theorem evalBefores_append (env : Env) (l1 l2 : List IExp) (acc : List Int) :
    evalBefores env (l1 ++ l2) acc = (evalBefores env l1 acc >>= fun acc' => evalBefores env l2 acc') := by
  induction l1 generalizing acc with
  | nil => rfl
  | cons e es ih =>
    simp only [List.cons_append, evalBefores]
    cases evalI { env with befores := acc } e with
    | error er => rfl
    | ok v => exact ih (acc ++ [v])

theorem evalBefores_length (env : Env) (l : List IExp) (acc bs : List Int)
    (h : evalBefores env l acc = .ok bs) : bs.length = acc.length + l.length := by
  induction l generalizing acc with
  | nil => simp [evalBefores] at h; subst h; simp
  | cons e es ih =>
    simp only [evalBefores] at h
    cases hv : evalI { env with befores := acc } e with
    | error er => simp [hv, bind, Except.bind] at h
    | ok v =>
      simp only [hv, bind, Except.bind] at h
      have := ih _ h
      simp at this ⊢; omega

theorem evalBefores_shift (env : Env) (pre : List Int) (l : List IExp) (acc : List Int) :
    evalBefores env (l.map (shiftI pre.length)) (pre ++ acc) =
      (evalBefores env l acc).map (pre ++ ·) := by
  induction l generalizing acc with
  | nil => rfl
  | cons e es ih =>
    simp only [List.map_cons, evalBefores]
    have := evalI_shift env pre acc e
    simp only [withB] at this
    rw [this]
    cases evalI { env with befores := acc } e with
    | error er => rfl
    | ok v =>
      show evalBefores env (es.map (shiftI pre.length)) (pre ++ acc ++ [v]) = _
      rw [List.append_assoc]
      exact ih (acc ++ [v])

/-! ## `visitFunctionBody`, unfolded -/

theorem visit_unfold (L : Layer) (x y : Int) (body : M Int) (s : St) :
    visitFunctionBody L x y body s =
      match evalBefores (envOf x y s) L.befores [] with
      | .error e => (.error e, s)
      | .ok bs =>
        match runConds false (envOf x y s) L.pre s with
        | (.error e, s1) => (.error e, s1)
        | (.ok _, s1) =>
          match body s1 with
          | (.error e, s2) => (.error e, s2)
          | (.ok r, s2) =>
            match runConds true (withB { envOf x y s2 with result := some r } bs) L.post s2 with
            | (.error e, s3) => (.error e, s3)
            | (.ok _, s3) => (.ok r, s3) := by
  unfold visitFunctionBody
  show M.bind M.get _ s = _
  simp only [M.bind, M.get, M.lift]
  cases evalBefores (envOf x y s) L.befores [] with
  | error e => rfl
  | ok bs =>
    simp only []
    show M.bind (runConds false (envOf x y s) L.pre) _ s = _
    simp only [M.bind]
    cases runConds false (envOf x y s) L.pre s with
    | mk r1 s1 =>
      cases r1 with
      | error e => rfl
      | ok u =>
        simp only []
        show M.bind body _ s1 = _
        simp only [M.bind]
        cases body s1 with
        | mk r2 s2 =>
          cases r2 with
          | error e => rfl
          | ok r =>
            simp only []
            show M.bind M.get _ s2 = _
            simp only [M.bind, M.get]
            show M.bind (runConds true (withB { envOf x y s2 with result := some r } bs) L.post) _ s2 = _
            simp only [M.bind]
            cases runConds true (withB { envOf x y s2 with result := some r } bs) L.post s2 with
            | mk r3 s3 => cases r3 <;> rfl

theorem runConds_sameAB (post : Bool) (env : Env) (cs : List Cond) (s : St) :
    SameAB s (runConds post env cs s).2 := by
  induction cs generalizing s with
  | nil => exact SameAB.rfl' s
  | cons c cs ih =>
    cases c with
    | emit e =>
      simp only [runConds]
      show SameAB s (M.bind (M.lift (evalI env e)) _ s).2
      simp only [M.bind, M.lift]
      cases evalI env e with
      | error er => exact SameAB.rfl' s
      | ok v =>
        simp only []
        show SameAB s (M.bind (M.trace (.emit v)) _ s).2
        simp only [M.bind, M.trace]
        exact SameAB.trans' ⟨rfl, rfl⟩ (ih { s with tr := s.tr ++ [Ev.emit v] })
    | test t =>
      simp only [runConds]
      show SameAB s (M.bind (M.lift (evalB env t)) _ s).2
      simp only [M.bind, M.lift]
      cases evalB env t with
      | error er => exact SameAB.rfl' s
      | ok v =>
        cases v
        · exact SameAB.rfl' s
        · exact ih s

end Verif.Proofs.Lang3

namespace Verif.Proofs.Lang3
open Verif.Model.Lang3.Cond

theorem mbind_def {α β : Type} (m : M α) (f : α → M β) (s : St) :
    (m >>= f) s = match m s with | (.ok v, s') => f v s' | (.error e, s') => (.error e, s') := rfl

theorem withB_env_same {x y : Int} {s t : St} (h : SameAB s t) (r : Option Int) (bs : List Int) :
    withB { envOf x y s with result := r } bs = withB { envOf x y t with result := r } bs := by
  simp [withB, envOf, h.1, h.2]

/-- inlining an enclosing layer into a function's own layer = wrapping the function with that layer,
provided the own layer's before statements never fault and its post-conditions only use its own
before-variables. -/
theorem merge_visit (outer inner : Layer) (x y : Int) (body : M Int)
    (hwf : LayerWf inner) (htot : LayerTotal inner) :
    visitFunctionBody (merge outer inner) x y body =
      visitFunctionBody outer x y (visitFunctionBody inner x y body) := by
  funext s
  obtain ⟨bsI, hI⟩ := htot (envOf x y s)
  have hlen : bsI.length = inner.befores.length := by
    simpa using evalBefores_length _ _ _ _ hI
  have hB : evalBefores (envOf x y s) (merge outer inner).befores [] =
      (evalBefores (envOf x y s) outer.befores []).map (bsI ++ ·) := by
    simp only [merge]
    rw [evalBefores_append, hI]
    show evalBefores (envOf x y s) (outer.befores.map (shiftI inner.befores.length)) bsI = _
    rw [← hlen]
    have := evalBefores_shift (envOf x y s) bsI outer.befores []
    simpa using this
  rw [visit_unfold, visit_unfold, hB]
  cases hO : evalBefores (envOf x y s) outer.befores [] with
  | error e => rfl
  | ok bsO =>
    simp only [Except.map]
    have hpre : (merge outer inner).pre = outer.pre ++ inner.pre := rfl
    have hpost : (merge outer inner).post = inner.post ++ outer.post.map (shiftC inner.befores.length) := rfl
    rw [hpre, hpost, runConds_append, mbind_def]
    have sab1 := runConds_sameAB false (envOf x y s) outer.pre s
    rcases h1 : runConds false (envOf x y s) outer.pre s with ⟨r1, s1⟩
    rw [h1] at sab1
    cases r1 with
    | error e => rfl
    | ok u1 =>
      simp only []
      -- the inner wrapper, entered in state s1
      rw [visit_unfold]
      have henv1 : envOf x y s1 = envOf x y s := (envOf_same sab1).symm
      rw [henv1, hI]
      simp only []
      rcases h2 : runConds false (envOf x y s) inner.pre s1 with ⟨r2, s2⟩
      cases r2 with
      | error e => rfl
      | ok u2 =>
        simp only []
        rcases h3 : body s2 with ⟨r3, s3⟩
        cases r3 with
        | error e => rfl
        | ok r =>
          simp only []
          rw [runConds_append, mbind_def]
          have hext := runConds_ext true { envOf x y s3 with result := some r } bsI bsO inner.post
            (by intro c hc; rw [hlen]; exact hwf c hc)
          rw [hext]
          have sab4 := runConds_sameAB true (withB { envOf x y s3 with result := some r } bsI) inner.post s3
          rcases h4 : runConds true (withB { envOf x y s3 with result := some r } bsI) inner.post s3 with ⟨r4, s4⟩
          rw [h4] at sab4
          cases r4 with
          | error e => rfl
          | ok u4 =>
            simp only []
            have hshift := runConds_shift true { envOf x y s3 with result := some r } bsI bsO outer.post
            rw [hlen] at hshift
            rw [hshift, withB_env_same sab4 (some r) bsO]
end Verif.Proofs.Lang3

namespace Verif.Proofs.Lang3
open Verif.Model.Lang3.Cond

theorem merge_wf (outer inner : Layer) (ho : LayerWf outer) (hi : LayerWf inner) : LayerWf (merge outer inner) := by
  intro c hc
  simp only [merge, List.mem_append, List.mem_map, List.length_append, List.length_map] at hc ⊢
  rcases hc with hc | ⟨c', hc', rfl⟩
  · exact boundC_mono (Nat.le_add_right _ _) c (hi c hc)
  · exact boundC_shift _ _ c' (ho c' hc')

theorem merge_total (outer inner : Layer) (ho : LayerTotal outer) (hi : LayerTotal inner) :
    LayerTotal (merge outer inner) := by
  intro env
  obtain ⟨bsI, hI⟩ := hi env
  obtain ⟨bsO, hO⟩ := ho env
  have hlen : bsI.length = inner.befores.length := by simpa using evalBefores_length _ _ _ _ hI
  refine ⟨bsI ++ bsO, ?_⟩
  simp only [merge]
  rw [evalBefores_append, hI]
  show evalBefores env (outer.befores.map (shiftI inner.befores.length)) bsI = _
  rw [← hlen]
  have := evalBefores_shift env bsI outer.befores []
  simp only [List.append_nil] at this
  rw [this, hO]; rfl

theorem desugarLayer_ok (inh : List Layer) (own : Layer)
    (h : ∀ L ∈ inh ++ [own], LayerWf L ∧ LayerTotal L) :
    LayerWf (desugarLayer inh own) ∧ LayerTotal (desugarLayer inh own) := by
  induction inh with
  | nil => exact h own (by simp)
  | cons L inh ih =>
    have ih' := ih (fun L' hL' => h L' (by simp at hL' ⊢; rcases hL' with h1 | h1 <;> simp [h1]))
    have hL := h L (by simp)
    exact ⟨merge_wf L _ hL.1 ih'.1, merge_total L _ hL.2 ih'.2⟩

/-- the desugared function (all inherited conditions inlined) runs like the wrapped function -/
theorem desugar_fn_equiv (call : String → Int → Int → M Int) (x y : Int) (inh : List Layer) (own : Layer)
    (body : Stmt) (h : ∀ L ∈ inh ++ [own], LayerWf L ∧ LayerTotal L) :
    (FnVal.base (desugarLayer inh own) body).run call x y = (wrapAll inh (.base own body)).run call x y := by
  induction inh with
  | nil => rfl
  | cons L inh ih =>
    have hrest : ∀ L' ∈ inh ++ [own], LayerWf L' ∧ LayerTotal L' :=
      fun L' hL' => h L' (by simp at hL' ⊢; rcases hL' with h1 | h1 <;> simp [h1])
    have hD := desugarLayer_ok inh own hrest
    show visitFunctionBody (merge L (desugarLayer inh own)) x y (runBody call x y body) =
      visitFunctionBody L x y ((wrapAll inh (.base own body)).run call x y)
    rw [merge_visit L _ x y _ hD.1 hD.2]
    congr 1
    exact ih hrest

/-- every condition layer of the program is well-formed and its before statements never fault -/
def LayersOk (p : Program) : Prop :=
  ∀ name, ∀ L ∈ layersInScope p name, LayerWf L ∧ LayerTotal L

/-- the two engines pick the same default implementation (the checker admits at most one) -/
def DefaultsAgree (p : Program) : Prop :=
  ∀ name, (p.defaults name).getLast? = (p.defaults name).head?

theorem table_equiv (p : Program) (hl : LayersOk p) (hd : DefaultsAgree p)
    (call : String → Int → Int → M Int) (name : String) (x y : Int) :
    (p.desugarFn name).map (fun fv => fv.run call x y) = (p.interpFn name).map (fun fv => fv.run call x y) := by
  unfold Program.desugarFn Program.interpFn
  have hscope := hl name
  unfold layersInScope ownLayer at hscope
  cases hf : p.funs.find? (·.name == name) with
  | some f =>
    simp only [hf] at hscope ⊢
    simp only [Option.map_some]
    congr 1
    exact desugar_fn_equiv call x y _ _ _ hscope
  | none =>
    simp only [hf] at hscope ⊢
    rw [hd name]
    cases (p.defaults name).head? with
    | none => rfl
    | some b =>
      simp only [Option.map_some]
      congr 1
      exact desugar_fn_equiv call x y _ _ _ hscope

theorem invoke_equiv (p : Program) (hl : LayersOk p) (hd : DefaultsAgree p) :
    ∀ fuel, invoke p.desugarFn fuel = invoke p.interpFn fuel := by
  intro fuel
  induction fuel with
  | zero => rfl
  | succ fuel ih =>
    funext name x y
    simp only [invoke]
    rw [ih]
    have := table_equiv p hl hd (invoke p.interpFn fuel) name x y
    cases h1 : p.desugarFn name <;> cases h2 : p.interpFn name <;> simp [h1, h2] at this ⊢
    exact this

end Verif.Proofs.Lang3

namespace Verif.Proofs.Lang3
open Verif.Model.Lang3.Cond

/-! ## a decidable sufficient condition for `LayersOk` -/

/-- cannot fault: no division, no `result`, no unrewritten `before` -/
def safeI : IExp → Bool
  | .div _ _ => false
  | .result => false
  | .before _ => false
  | .add l r | .sub l r | .mul l r => safeI l && safeI r
  | _ => true

theorem safeI_total (env : Env) (bs : List Int) (e : IExp) (hs : safeI e = true) (hb : boundI bs.length e = true) :
    ∃ v, evalI (withB env bs) e = .ok v := by
  induction e with
  | lit n => exact ⟨n, rfl⟩
  | x => exact ⟨env.x, rfl⟩
  | y => exact ⟨env.y, rfl⟩
  | a => exact ⟨env.a, rfl⟩
  | b => exact ⟨env.b, rfl⟩
  | result => simp [safeI] at hs
  | before e _ => simp [safeI] at hs
  | bvar k =>
    simp [boundI] at hb
    refine ⟨bs[k], ?_⟩
    simp [evalI, withB, List.getElem?_eq_getElem hb]
  | add l r ihl ihr =>
    simp [safeI] at hs; simp [boundI] at hb
    obtain ⟨u, hu⟩ := ihl hs.1 hb.1
    obtain ⟨v, hv⟩ := ihr hs.2 hb.2
    exact ⟨u + v, by simp [evalI, hu, hv, bind, Except.bind, pure, Except.pure]⟩
  | sub l r ihl ihr =>
    simp [safeI] at hs; simp [boundI] at hb
    obtain ⟨u, hu⟩ := ihl hs.1 hb.1
    obtain ⟨v, hv⟩ := ihr hs.2 hb.2
    exact ⟨u - v, by simp [evalI, hu, hv, bind, Except.bind, pure, Except.pure]⟩
  | mul l r ihl ihr =>
    simp [safeI] at hs; simp [boundI] at hb
    obtain ⟨u, hu⟩ := ihl hs.1 hb.1
    obtain ⟨v, hv⟩ := ihr hs.2 hb.2
    exact ⟨u * v, by simp [evalI, hu, hv, bind, Except.bind, pure, Except.pure]⟩
  | div l r _ _ => simp [safeI] at hs

def beforesSafe : List IExp → Nat → Bool
  | [], _ => true
  | e :: es, n => safeI e && boundI n e && beforesSafe es (n + 1)

theorem beforesSafe_total (env : Env) (l : List IExp) (acc : List Int) (h : beforesSafe l acc.length = true) :
    ∃ bs, evalBefores env l acc = .ok bs := by
  induction l generalizing acc with
  | nil => exact ⟨acc, rfl⟩
  | cons e es ih =>
    simp [beforesSafe] at h
    obtain ⟨v, hv⟩ := safeI_total env acc e h.1.1 h.1.2
    simp only [withB] at hv
    simp only [evalBefores, hv, bind, Except.bind]
    exact ih (acc ++ [v]) (by simpa using h.2)

def layerSafe (L : Layer) : Bool := beforesSafe L.befores 0 && L.post.all (boundC L.befores.length)

theorem layerSafe_ok (L : Layer) (h : layerSafe L = true) : LayerWf L ∧ LayerTotal L := by
  simp [layerSafe] at h
  exact ⟨fun c hc => h.2 c hc, fun env => beforesSafe_total env L.befores [] h.1⟩

/-- every declared condition block of the program is safe -/
def programSafe (p : Program) : Bool :=
  (p.ifaces.all fun it => it.funs.all fun f => layerSafe (rewrite f.conds)) &&
  (p.funs.all fun f => layerSafe (rewrite f.conds))

theorem programSafe_ok (p : Program) (h : programSafe p = true) : LayersOk p := by
  simp only [programSafe, Bool.and_eq_true, List.all_eq_true] at h
  intro name L hL
  unfold layersInScope at hL
  rcases List.mem_append.mp hL with hL | hL
  · unfold Program.inherited at hL
    rw [List.mem_filterMap] at hL
    obtain ⟨i, _, hi⟩ := hL
    unfold Program.ifun at hi
    cases hit : p.ifaces[i]? with
    | none => simp [hit] at hi
    | some it =>
      simp only [hit] at hi
      cases hf : it.funs.find? (·.name == name) with
      | none => simp [hf] at hi
      | some f =>
        simp only [hf] at hi
        split at hi
        · simp at hi
        · simp at hi; subst hi
          exact layerSafe_ok _ (h.1 it (List.mem_of_getElem? hit) f (List.mem_of_find?_eq_some hf))
  · simp only [List.mem_singleton] at hL
    subst hL
    unfold ownLayer
    cases hf : p.funs.find? (·.name == name) with
    | none => exact layerSafe_ok _ (by decide)
    | some f => exact layerSafe_ok _ (h.2 f (List.mem_of_find?_eq_some hf))

/-- decidable form of `DefaultsAgree` is not available for all names; for the names that matter: -/
def defaultsAgreeOn (p : Program) (names : List String) : Bool :=
  names.all fun n => (p.defaults n).length ≤ 1

end Verif.Proofs.Lang3

namespace Verif.Proofs.Lang3
open Verif.Model.Lang3.Cond

theorem defaultsAgree_of_le_one (p : Program) (h : ∀ name, (p.defaults name).length ≤ 1) : DefaultsAgree p := by
  intro name
  have := h name
  match hd : p.defaults name with
  | [] => rfl
  | [a] => rfl
  | a :: b :: rest => rw [hd] at this; simp at this

/-- a program whose interfaces declare at most one default implementation in total -/
def atMostOneDefault (p : Program) : Bool :=
  ((p.ifaces.flatMap fun it => it.funs.filter fun f => f.dflt.isSome).length ≤ 1) && p.confs.Nodup

end Verif.Proofs.Lang3

namespace Verif.Proofs.Lang3
open Verif.Model.Lang3.Cond

/-! ## `before` extraction produces well-formed layers -/

/-- source form: no synthetic before-variables -/
def srcI : IExp → Bool
  | .bvar _ => false
  | .before e => srcI e
  | .add l r | .sub l r | .mul l r | .div l r => srcI l && srcI r
  | _ => true

def srcB : BExp → Bool
  | .lt l r | .le l r | .eq l r => srcI l && srcI r
  | .and l r | .or l r => srcB l && srcB r
  | .not e => srcB e
  | _ => true

def srcC : Cond → Bool
  | .emit e => srcI e
  | .test t => srcB t

theorem extractI_bound (e : IExp) (acc : List IExp) (h : srcI e = true) :
    acc.length ≤ (extractI e acc).2.length ∧ boundI (extractI e acc).2.length (extractI e acc).1 = true := by
  induction e generalizing acc with
  | before e ih =>
    simp only [srcI] at h
    have := ih acc h
    simp only [extractI, List.length_append, List.length_singleton, boundI]
    exact ⟨by omega, by simp⟩
  | bvar k => simp [srcI] at h
  | add l r ihl ihr | sub l r ihl ihr | mul l r ihl ihr | div l r ihl ihr =>
    simp [srcI] at h
    have h1 := ihl acc h.1
    have h2 := ihr (extractI l acc).2 h.2
    simp only [extractI, boundI, Bool.and_eq_true]
    exact ⟨by omega, boundI_mono h2.1 _ h1.2, h2.2⟩
  | _ => simp [extractI, boundI]

theorem extractB_bound (e : BExp) (acc : List IExp) (h : srcB e = true) :
    acc.length ≤ (extractB e acc).2.length ∧ boundB (extractB e acc).2.length (extractB e acc).1 = true := by
  induction e generalizing acc with
  | lt l r | le l r | eq l r =>
    simp [srcB] at h
    have h1 := extractI_bound l acc h.1
    have h2 := extractI_bound r (extractI l acc).2 h.2
    simp only [extractB, boundB, Bool.and_eq_true]
    exact ⟨by omega, boundI_mono h2.1 _ h1.2, h2.2⟩
  | and l r ihl ihr | or l r ihl ihr =>
    simp [srcB] at h
    have h1 := ihl acc h.1
    have h2 := ihr (extractB l acc).2 h.2
    simp only [extractB, boundB, Bool.and_eq_true]
    exact ⟨by omega, boundB_mono h2.1 _ h1.2, h2.2⟩
  | not e ih =>
    simp [srcB] at h
    have h1 := ih acc h
    simp only [extractB, boundB]
    exact h1
  | _ => simp [extractB, boundB]

theorem extractConds_bound (cs : List Cond) (acc : List IExp) (h : ∀ c ∈ cs, srcC c = true) :
    acc.length ≤ (extractConds cs acc).2.length ∧
      ∀ c ∈ (extractConds cs acc).1, boundC (extractConds cs acc).2.length c = true := by
  induction cs generalizing acc with
  | nil => simp [extractConds]
  | cons c cs ih =>
    have hc := h c (List.mem_cons_self ..)
    have hrest := fun c' hc' => h c' (List.mem_cons_of_mem _ hc')
    cases c with
    | emit e =>
      have h1 := extractI_bound e acc hc
      have h2 := ih (extractI e acc).2 hrest
      simp only [extractConds]
      refine ⟨by omega, ?_⟩
      intro c' hc'
      simp only [List.mem_cons] at hc'
      rcases hc' with rfl | hc'
      · exact boundI_mono h2.1 _ h1.2
      · exact h2.2 c' hc'
    | test t =>
      have h1 := extractB_bound t acc hc
      have h2 := ih (extractB t acc).2 hrest
      simp only [extractConds]
      refine ⟨by omega, ?_⟩
      intro c' hc'
      simp only [List.mem_cons] at hc'
      rcases hc' with rfl | hc'
      · exact boundB_mono h2.1 _ h1.2
      · exact h2.2 c' hc'

/-- the layer produced by `before` extraction from source-level conditions is well-formed -/
theorem rewrite_wf (c : Conds) (h : ∀ d ∈ c.post, srcC d = true) : LayerWf (rewrite c) := by
  have := extractConds_bound c.post [] h
  intro d hd
  simp only [rewrite] at hd ⊢
  exact this.2 d hd

end Verif.Proofs.Lang3
