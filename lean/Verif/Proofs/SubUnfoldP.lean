/-
C08 helper lemmas, part 3: unfolding of the rule for parameterized super types `Capability<T>` and
`InclusiveRange<T>`.
-/
import Verif.Proofs.SubUnfoldC
namespace Verif.Proofs.SubUnfold
open Verif.Model.Types Verif.Model.Types.Struct Verif.Model.Auth

theorem forAll_one (k : Nat) (env : Env) (p : Pred) (a b : Ty) :
    forAllPairs R (k + 2) env p [a] [b] = evalPred R (k + 1) { env with source := .ty a, target := .ty b } p := by
  simp [forAllPairs]

/-- `Capability <: InclusiveRange<T>` fails (any fuel) -/
theorem isSub_capAny_range (k : Nat) (t : Ty) : isSub R k .capAny (.range t) = false := by
  have hne : (Ty.capAny == Ty.range t) = false := by simp [ty_beq]
  match k with
  | 0 => rfl
  | 1 => rw [isSub_one, hne]
  | 2 => rw [isSub_rule 0 _ _ _ (find_range t), hne]; simp [never, evalPred, ty_beq]
  | 3 => rw [isSub_rule 1 _ _ _ (find_range t), hne]; simp [never, evalPred, ty_beq, RulesPinned.rule25]
  | 4 => rw [isSub_rule 2 _ _ _ (find_range t), hne]; simp [never, evalPred, ty_beq, RulesPinned.rule25, evalExpr, Ty.isKind]
  | 5 => rw [isSub_rule 3 _ _ _ (find_range t), hne]; simp [never, evalPred, ty_beq, RulesPinned.rule25, evalExpr, Ty.isKind]
  | k + 6 => rw [isSub_rule (k + 4) _ _ _ (find_range t), hne]; simp [never, evalPred, ty_beq, RulesPinned.rule25, evalExpr, Ty.isKind, field, valEqOneOf, valEq]

theorem isSubC_cap (m : Nat) (a t' : Ty) :
    isSub R (m + 14) a (.cap t') = (a == .cap t' || (a == never ||
      match a with
      | .cap t => isSub R (m + 1) t t'
      | _ => false)) := by
  rw [isSub_rule (m + 12) a _ _ (find_cap t')]
  cases a <;> simp [RulesPinned.rule25, evalPred, evalExpr, field, Ty.isKind, subVal, valEqOneOf, valEq, isSub_self,
    isSub_IR_param _ _ (Or.inr (Or.inl ⟨_, rfl⟩)), isSub_IR_param _ _ (Or.inl rfl), isSub_capAny_cap, forAll_one, Pred.isSwitch]

theorem isSubC_range (m : Nat) (a t' : Ty) :
    isSub R (m + 14) a (.range t') = (a == .range t' || (a == never ||
      match a with
      | .range t => isSub R (m + 1) t t'
      | _ => false)) := by
  rw [isSub_rule (m + 12) a _ _ (find_range t')]
  cases a <;> simp [RulesPinned.rule25, evalPred, evalExpr, field, Ty.isKind, subVal, valEqOneOf, valEq, isSub_self,
    isSub_IR_param _ _ (Or.inr (Or.inr ⟨_, rfl⟩)), isSub_capAny_IR, isSub_capAny_range, forAll_one, Pred.isSwitch]

end Verif.Proofs.SubUnfold
