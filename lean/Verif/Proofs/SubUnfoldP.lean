/-
C08 helper lemmas, part 3: unfolding of the rule for parameterized super types `Capability<T>` and
`InclusiveRange<T>`.
-/
import Verif.Proofs.SubBase
namespace Verif.Proofs.SubUnfold
open Verif.Model.Types Verif.Model.Types.Struct Verif.Model.Auth

theorem find_capAny : R.find? (fun r => if r.complex then Ty.capAny.isKind r.super else Ty.capAny == .prim r.super) = some RulesPinned.rule25 := rfl
theorem find_cap (t : Ty) : R.find? (fun r => if r.complex then (Ty.cap t).isKind r.super else (Ty.cap t) == .prim r.super) = some RulesPinned.rule25 := rfl
theorem find_range (t : Ty) : R.find? (fun r => if r.complex then (Ty.range t).isKind r.super else (Ty.range t) == .prim r.super) = some RulesPinned.rule25 := rfl

/-! ### parameterized types: `Capability`, `Capability<T>`, `InclusiveRange<T>` -/

theorem find_IR : R.find? (fun r => if r.complex then (Ty.prim "InclusiveRange").isKind r.super else (Ty.prim "InclusiveRange") == .prim r.super) = none := rfl

theorem isSub_one (a b : Ty) : isSub R 1 a b = (a == b) := by simp [isSub, check]
theorem isSub_self (k : Nat) (t : Ty) : isSub R (k + 1) t t = true := by simp [isSub]

/-- the base type `InclusiveRange` is not below a parameterized type (any fuel) -/
theorem isSub_IR_param (k : Nat) (x : Ty) (hx : x = .capAny ∨ (∃ t, x = .cap t) ∨ ∃ t, x = .range t) :
    isSub R k (.prim "InclusiveRange") x = false := by
  have hf : R.find? (fun r => if r.complex then x.isKind r.super else x == .prim r.super) = some RulesPinned.rule25 := by
    rcases hx with rfl | ⟨t, rfl⟩ | ⟨t, rfl⟩ <;> rfl
  have hne : (Ty.prim "InclusiveRange" == x) = false := by
    rcases hx with rfl | ⟨t, rfl⟩ | ⟨t, rfl⟩ <;> rfl
  match k with
  | 0 => rfl
  | 1 => rw [isSub_one, hne]
  | 2 => rw [isSub_rule 0 _ _ _ hf, hne]; simp [never, evalPred]
  | 3 => rw [isSub_rule 1 _ _ _ hf, hne]; simp [never, evalPred, RulesPinned.rule25]
  | k + 4 => rw [isSub_rule (k + 2) _ _ _ hf, hne]; simp [never, evalPred, RulesPinned.rule25, evalExpr, Ty.isKind]

/-- `Capability` is not below `InclusiveRange` (any fuel) -/
theorem isSub_capAny_IR (k : Nat) : isSub R k .capAny (.prim "InclusiveRange") = false := by
  match k with
  | 0 => rfl
  | 1 => rw [isSub_one]; rfl
  | k + 2 => rw [isSub_norule k _ _ find_IR]; rfl

/-- `Capability <: Capability<T>` fails (any fuel) -/
theorem isSub_capAny_cap (k : Nat) (t : Ty) : isSub R k .capAny (.cap t) = false := by
  have hne : (Ty.capAny == Ty.cap t) = false := by simp [ty_beq]
  match k with
  | 0 => rfl
  | 1 => rw [isSub_one, hne]
  | 2 => rw [isSub_rule 0 _ _ _ (find_cap t), hne]; simp [never, evalPred, ty_beq]
  | 3 => rw [isSub_rule 1 _ _ _ (find_cap t), hne]; simp [never, evalPred, ty_beq, RulesPinned.rule25]
  | 4 => rw [isSub_rule 2 _ _ _ (find_cap t), hne]; simp [never, evalPred, ty_beq, RulesPinned.rule25, evalExpr, Ty.isKind]
  | 5 => rw [isSub_rule 3 _ _ _ (find_cap t), hne]; simp [never, evalPred, ty_beq, RulesPinned.rule25, evalExpr, Ty.isKind]
  | k + 6 => rw [isSub_rule (k + 4) _ _ _ (find_cap t), hne]; simp [never, evalPred, ty_beq, RulesPinned.rule25, evalExpr, Ty.isKind, field, valEqOneOf, valEq]

theorem isSubC_capAny (m : Nat) (a : Ty) :
    isSub R (m + 12) a .capAny = (a == .capAny || (a == never ||
      match a with
      | .cap _ => true
      | _ => false)) := by
  rw [isSub_rule (m + 10) a _ _ find_capAny]
  cases a <;> simp [RulesPinned.rule25, evalPred, evalExpr, field, Ty.isKind, subVal, valEqOneOf, valEq, isSub_self,
    isSub_IR_param _ _ (Or.inl rfl)]

theorem forAll_one (k : Nat) (env : Env) (p : Pred) (a b : Ty) :
    forAllPairs R (k + 2) env p [a] [b] = evalPred R (k + 1) { env with source := .ty a, target := .ty b } p := by
  simp [forAllPairs]

/-- `Capability <: InclusiveRange<T>` fails (any fuel) -/
theorem isSub_capAny_range (k : Nat) (t : Ty) : isSub R k .capAny (.range t) = false := by
  have hne : (Ty.capAny == Ty.range t) = false := by simp [ty_beq]
  match k with
  | 0 => rfl
  | 1 => rw [isSub_one, hne]
  | 2 => rw [isSub_rule 0 _ _ _ (find_range t), hne]; simp [never, evalPred, ty_beq]
  | 3 => rw [isSub_rule 1 _ _ _ (find_range t), hne]; simp [never, evalPred, ty_beq, RulesPinned.rule25]
  | 4 => rw [isSub_rule 2 _ _ _ (find_range t), hne]; simp [never, evalPred, ty_beq, RulesPinned.rule25, evalExpr, Ty.isKind]
  | 5 => rw [isSub_rule 3 _ _ _ (find_range t), hne]; simp [never, evalPred, ty_beq, RulesPinned.rule25, evalExpr, Ty.isKind]
  | k + 6 => rw [isSub_rule (k + 4) _ _ _ (find_range t), hne]; simp [never, evalPred, ty_beq, RulesPinned.rule25, evalExpr, Ty.isKind, field, valEqOneOf, valEq]

theorem isSubC_cap (m : Nat) (a t' : Ty) :
    isSub R (m + 14) a (.cap t') = (a == .cap t' || (a == never ||
      match a with
      | .cap t => isSub R (m + 1) t t'
      | _ => false)) := by
  rw [isSub_rule (m + 12) a _ _ (find_cap t')]
  cases a <;> simp [RulesPinned.rule25, evalPred, evalExpr, field, Ty.isKind, subVal, valEqOneOf, valEq, isSub_self,
    isSub_IR_param _ _ (Or.inr (Or.inl ⟨_, rfl⟩)), isSub_IR_param _ _ (Or.inl rfl), isSub_capAny_cap, forAll_one, Pred.isSwitch]

theorem isSubC_range (m : Nat) (a t' : Ty) :
    isSub R (m + 14) a (.range t') = (a == .range t' || (a == never ||
      match a with
      | .range t => isSub R (m + 1) t t'
      | _ => false)) := by
  rw [isSub_rule (m + 12) a _ _ (find_range t')]
  cases a <;> simp [RulesPinned.rule25, evalPred, evalExpr, field, Ty.isKind, subVal, valEqOneOf, valEq, isSub_self,
    isSub_IR_param _ _ (Or.inr (Or.inr ⟨_, rfl⟩)), isSub_capAny_IR, isSub_capAny_range, forAll_one, Pred.isSwitch]

end Verif.Proofs.SubUnfold
