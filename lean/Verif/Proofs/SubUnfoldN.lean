/-
C08 helper lemmas, part 2b: unfolding of the rules for nominal super types (composite, interface,
intersection).
-/
import Verif.Proofs.SubBase
namespace Verif.Proofs.SubUnfold
open Verif.Model.Types Verif.Model.Types.Struct Verif.Model.Auth

theorem find_comp (n : String) (k : Kind) (cs : List String) (b : Bool) : R.find? (fun r => if r.complex then (Ty.comp n k cs b).isKind r.super else (Ty.comp n k cs b) == .prim r.super) = some RulesPinned.rule21 := rfl
theorem find_iface (i : Iface) : R.find? (fun r => if r.complex then (Ty.iface i).isKind r.super else (Ty.iface i) == .prim r.super) = some RulesPinned.rule22 := rfl
theorem find_inter (is : List Iface) : R.find? (fun r => if r.complex then (Ty.inter is).isKind r.super else (Ty.inter is) == .prim r.super) = some RulesPinned.rule23 := rfl

theorem isSubC_comp (m : Nat) (a : Ty) (n : String) (k : Kind) (cs : List String) (b : Bool) :
    isSub R (m + 12) a (.comp n k cs b) = (a == .comp n k cs b || a == never) := by
  rw [isSub_rule (m + 10) a _ _ (find_comp n k cs b)]
  cases a <;> simp [RulesPinned.rule21, evalPred, evalExpr, field, Ty.isKind, Pred.isSwitch, valEqOneOf, valEq]

theorem isSubC_iface (m : Nat) (a : Ty) (i : Iface) :
    isSub R (m + 12) a (.iface i) = (a == .iface i || (a == never ||
      match a with
      | .comp _ k cs _ => k == i.kind && cs.contains i.name
      | .inter is => (interSet is).contains i.name
      | .iface j => j.confs.contains i.name
      | _ => false)) := by
  rw [isSub_rule (m + 10) a _ _ (find_iface i)]
  cases a <;> simp [RulesPinned.rule22, evalPred, evalExpr, field, Ty.isKind, Pred.isSwitch, valEqOneOf, valEq]

theorem isSubC_inter (m : Nat) (a : Ty) (sup : List Iface) :
    isSub R (m + 20) a (.inter sup) = (a == .inter sup || (a == never ||
      match a with
      | .inter sb => subset (interSet sup) (interSet sb)
      | .comp _ _ cs _ => subset (interSet sup) cs
      | .iface i => subset (interSet sup) i.confs
      | _ => false)) := by
  rw [isSub_rule (m + 18) a _ _ (find_inter sup)]
  cases a <;> simp [RulesPinned.rule23, evalPred, evalExpr, field, Ty.isKind, subVal, Pred.isSwitch, Expr.isOneOf, valEqOneOf, valEq, ty_beq, never]


end Verif.Proofs.SubUnfold
