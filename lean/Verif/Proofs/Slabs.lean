import Verif.Model.Slabs
/-! Helper lemmas for C23: every protocol operation preserves the reference-count invariant. -/
namespace Verif.Proofs.Slabs
open Verif.Model.Slabs

abbrev Slabs := List (SlabID × List SlabID)

theorem without_of_not_mem {ss : Slabs} {c : SlabID} (h : c ∉ ss.map Prod.fst) : without ss c = ss := by
  apply List.filter_eq_self.2
  intro a ha
  simp only [bne_iff_ne, ne_eq]
  intro e
  exact h (e ▸ List.mem_map_of_mem ha)

/-- a slab found by its identifier can be split off (identifiers are distinct) -/
theorem split {ss : Slabs} {c : SlabID} {cs : List SlabID} (hn : (ss.map Prod.fst).Nodup)
    (h : (ss.find? (·.1 == c)).map (·.2) = some cs) : ss.Perm ((c, cs) :: without ss c) := by
  induction ss with
  | nil => simp at h
  | cons s ss ih =>
    simp only [List.map_cons, List.nodup_cons] at hn
    by_cases e : s.1 = c
    · simp only [List.find?, e, beq_self_eq_true, Option.map_some, Option.some.injEq] at h
      have hs : s = (c, cs) := by rw [← h, ← e]
      have hc : c ∉ ss.map Prod.fst := e ▸ hn.1
      have : without (s :: ss) c = ss := by
        simp only [without, List.filter_cons, e, bne_self_eq_false, Bool.false_eq_true, if_false]
        exact without_of_not_mem hc
      rw [this, hs]
    · have hb : (s.1 == c) = false := by simp [e]
      simp only [List.find?, hb] at h
      have hw : without (s :: ss) c = s :: without ss c := by
        simp [without, List.filter_cons, e]
      rw [hw]
      exact ((ih hn.2 h).cons s).trans (List.Perm.swap _ _ _)

theorem ids_without_lt {ss : Slabs} {c n : SlabID} (h : ∀ i ∈ ss.map Prod.fst, i < n) :
    ∀ i ∈ (without ss c).map Prod.fst, i < n := by
  intro i hi
  apply h
  simp only [without, List.mem_map, List.mem_filter] at hi ⊢
  obtain ⟨a, ⟨ha, _⟩, e⟩ := hi
  exact ⟨a, ha, e⟩

theorem inv_empty : RefInv Heap.empty := by
  simp [RefInv, Heap.empty, Heap.ids, Heap.refs, Heap.childRefs]

theorem fresh_not_mem {h : Heap} (h3 : ∀ i ∈ h.ids, i < h.next) : h.next ∉ h.ids :=
  fun hm => Nat.lt_irrefl _ (h3 _ hm)

theorem lt_succ_of_mem_cons {l : List Nat} {n : Nat} (h3 : ∀ i ∈ l, i < n) : ∀ i ∈ n :: l, i < n + 1 := by
  intro i hm
  simp only [List.mem_cons] at hm
  rcases hm with rfl | hm
  · exact Nat.lt_succ_self _
  · exact Nat.lt_succ_of_lt (h3 _ hm)

theorem inv_create {h : Heap} (hi : RefInv h) : RefInv (create h) := by
  obtain ⟨h1, h2, h3, h4⟩ := hi
  refine ⟨?_, ?_, ?_, h4⟩
  · simp only [create, Heap.ids, List.map_cons, List.nodup_cons]
    exact ⟨fresh_not_mem h3, h1⟩
  · simp only [create, Heap.ids, Heap.refs, Heap.childRefs, List.flatMap_cons, List.nil_append, List.map_cons] at *
    rw [List.perm_iff_count] at *
    intro a
    have := h2 a
    simp only [List.count_append, List.count_cons] at *
    omega
  · exact lt_succ_of_mem_cons h3

theorem inv_newRoot {h : Heap} (a : Account) (hi : RefInv h) : RefInv (newRoot h a) := by
  unfold newRoot
  split
  · exact hi
  · next hna =>
    obtain ⟨h1, h2, h3, h4⟩ := hi
    refine ⟨?_, ?_, ?_, ?_⟩
    · simp only [Heap.ids, List.map_cons, List.nodup_cons]
      exact ⟨fresh_not_mem h3, h1⟩
    · simp only [Heap.ids, Heap.refs, Heap.childRefs, List.flatMap_cons, List.nil_append, List.map_cons] at *
      rw [List.perm_iff_count] at *
      intro a
      have := h2 a
      simp only [List.count_append, List.count_cons] at *
      omega
    · exact lt_succ_of_mem_cons h3
    · simp only [List.map_cons, List.nodup_cons]
      exact ⟨hna, h4⟩

/-- replacing the child list of slab `p`, with a matching adjustment of the held values -/
theorem inv_update {h : Heap} {p : SlabID} {cs cs' held' : List SlabID} (hi : RefInv h)
    (hc : h.children p = some cs)
    (hp : (cs' ++ held').Perm (cs ++ h.held)) :
    RefInv { h with slabs := (p, cs') :: without h.slabs p, held := held' } := by
  obtain ⟨h1, h2, h3, h4⟩ := hi
  have hs := split h1 hc
  have hids : h.ids.Perm (p :: (without h.slabs p).map Prod.fst) := hs.map Prod.fst
  have hcr : h.childRefs.Perm (cs ++ (without h.slabs p).flatMap Prod.snd) := hs.flatMap_right Prod.snd
  refine ⟨?_, ?_, ?_, h4⟩
  · exact (hids.nodup_iff).1 h1
  · simp only [Heap.refs, Heap.childRefs, Heap.ids, List.flatMap_cons, List.map_cons] at *
    rw [List.perm_iff_count] at *
    intro a
    have := h2 a; have := hids a; have := hcr a; have := hp a
    simp only [List.count_append, List.count_cons] at *
    omega
  · intro i hm
    exact h3 _ (hids.mem_iff.2 hm)

theorem inv_insert {h : Heap} (p c : SlabID) (hi : RefInv h) : RefInv (insertChild h p c) := by
  unfold insertChild
  split
  · next cs hc =>
    split
    · next hm =>
      apply inv_update hi hc
      have hh : h.held.Perm (c :: h.held.erase c) := List.perm_cons_erase hm
      rw [List.perm_iff_count] at *
      intro a
      have := hh a
      simp only [List.count_append, List.count_cons] at *
      omega
    · exact hi
  · exact hi

theorem inv_remove {h : Heap} (p c : SlabID) (hi : RefInv h) : RefInv (removeChild h p c) := by
  unfold removeChild
  split
  · next cs hc =>
    split
    · next hm =>
      apply inv_update hi hc
      have hh : cs.Perm (c :: cs.erase c) := List.perm_cons_erase hm
      rw [List.perm_iff_count] at *
      intro a
      have := hh a
      simp only [List.count_append, List.count_cons] at *
      omega
    · exact hi
  · exact hi

theorem inv_dissolve {h : Heap} (c : SlabID) (hi : RefInv h) : RefInv (dissolve h c) := by
  unfold dissolve
  split
  · next cs hc =>
    split
    · next hm =>
      obtain ⟨h1, h2, h3, h4⟩ := hi
      have hs := split h1 hc
      have hids : h.ids.Perm (c :: (without h.slabs c).map Prod.fst) := hs.map Prod.fst
      have hcr : h.childRefs.Perm (cs ++ (without h.slabs c).flatMap Prod.snd) := hs.flatMap_right Prod.snd
      have hn' := (hids.nodup_iff).1 h1
      simp only [List.nodup_cons] at hn'
      have hh : h.held.Perm (c :: h.held.erase c) := List.perm_cons_erase hm
      refine ⟨hn'.2, ?_, ids_without_lt h3, h4⟩
      simp only [Heap.refs, Heap.childRefs, Heap.ids] at *
      rw [List.perm_iff_count] at *
      intro a
      have := h2 a; have := hids a; have := hcr a; have := hh a
      simp only [List.count_append, List.count_cons] at *
      omega
    · exact hi
  · exact hi

theorem inv_destroyAll (f : Nat) (w : List SlabID) {h : Heap} (hi : RefInv h) : RefInv (destroyAll f w h) := by
  induction f generalizing w h with
  | zero => cases w <;> exact hi
  | succ f ih =>
    cases w with
    | nil => exact hi
    | cons c w => exact ih _ (inv_dissolve c hi)

theorem inv_step {h : Heap} (op : Op) (hi : RefInv h) : RefInv (step h op) := by
  cases op with
  | create => exact inv_create hi
  | newRoot a => exact inv_newRoot a hi
  | insert p c => exact inv_insert p c hi
  | remove p c => exact inv_remove p c hi
  | destroy c => exact inv_destroyAll _ _ hi
  | move p q c => exact inv_insert q c (inv_remove p c hi)
  | overwrite p old new => exact inv_insert p new (inv_destroyAll _ _ (inv_remove p old hi))

theorem inv_run (ops : List Op) {h : Heap} (hi : RefInv h) : RefInv (run h ops) := by
  induction ops generalizing h with
  | nil => exact hi
  | cons op ops ih => exact ih (inv_step op hi)

end Verif.Proofs.Slabs
