import Verif.Model.Rlp
import Verif.Spec.Rlp
namespace Verif.Proofs.Rlp
open Verif.Model.Rlp

/-- `Post P o`: the outcome is a returned error, or a value satisfying `P`
    (in particular: no Go panic, no divergence). -/
def Post {α} (P : α → Prop) : Out α → Prop
  | .ok a => P a
  | .err _ => True
  | .goPanic => False
  | .diverge => False

@[simp] theorem post_ok {α} (P : α → Prop) (a : α) : Post P (Out.ok a) ↔ P a := Iff.rfl
@[simp] theorem post_err {α} (P : α → Prop) (e : Err) : Post P (Out.err e : Out α) := trivial
@[simp] theorem post_pure {α} (P : α → Prop) (a : α) : Post P (pure a : Out α) ↔ P a := Iff.rfl
@[simp] theorem post_panic {α} (P : α → Prop) : ¬ Post P (Out.goPanic : Out α) := id
@[simp] theorem post_diverge {α} (P : α → Prop) : ¬ Post P (Out.diverge : Out α) := id

theorem post_bind {α β} {P : α → Prop} {Q : β → Prop} {x : Out α} {f : α → Out β}
    (hx : Post P x) (hf : ∀ a, P a → Post Q (f a)) : Post Q (x >>= f) := by
  cases x with
  | ok a => exact hf a hx
  | err e => trivial
  | goPanic => exact hx
  | diverge => exact hx

theorem post_mono {α} {P Q : α → Prop} {x : Out α} (h : Post P x) (hpq : ∀ a, P a → Q a) : Post Q x := by
  cases x <;> simp_all [Post]

theorem post_idx (inp : Bytes) (i : Nat) (h : i < inp.length) :
    Post (fun b => b = inp[i]) (idx inp i) := by
  simp [idx, h]

theorem post_slice (inp : Bytes) (a b : Nat) (h1 : a ≤ b) (h2 : b ≤ inp.length) :
    Post (fun s => s = (inp.take b).drop a) (slice inp a b) := by
  simp [slice, h1, h2]

/-- What `readSize` guarantees about a successful result. -/
structure ReadOk (inp : Bytes) (st : Nat) (r : Bool × Nat × Nat) : Prop where
  st_lt : st < inp.length
  ds_le : r.2.1 ≤ inp.length
  st_le : st ≤ r.2.1
  ds_bound : r.2.1 ≤ st + 9
  adv : r.2.1 = st → r.2.2 = 1

set_option maxRecDepth 4000 in
theorem readSize_post (inp : Bytes) (st : Nat) : Post (ReadOk inp st) (readSize inp st) := by
  unfold readSize
  split
  · simp
  split
  · simp
  rename_i h0 h1
  have hst : st < inp.length := by omega
  apply post_bind (post_idx inp st hst)
  intro fb hfb
  subst hfb
  have hb : inp[st].toNat < 256 := inp[st].toNat_lt
  simp only []
  generalize hbl : (if inp[st].toNat ≥ 248 then inp[st].toNat - 247 else inp[st].toNat - 183) = bl
  split
  · exact ⟨hst, by simp <;> omega, by simp, by simp <;> omega, by simp⟩
  split
  · exact ⟨hst, by simp <;> omega, by simp, by simp, by simp⟩
  split
  · exact ⟨hst, by simp <;> omega, by simp, by simp, by simp⟩
  rename_i c1 c2 c3
  have hbl2 : 1 ≤ bl ∧ bl ≤ 8 := by
    subst hbl
    split <;> omega
  split
  · simp
  rename_i hlen
  have hst1 : st + 1 < inp.length := by omega
  split
  · apply post_bind (post_idx inp (st+1) hst1)
    intro l hl
    skip
    split
    · simp
    · exact ⟨hst, by simp <;> omega, by simp <;> omega, by simp, by simp <;> omega⟩
  · apply post_bind (post_idx inp (st+1) hst1)
    intro b0 hb0
    split
    · simp
    split
    · simp
    rename_i hend
    apply post_bind (post_slice inp _ _ (by omega) (by omega))
    intro lb hlb
    skip
    split
    · simp
    · exact ⟨hst, by simp <;> omega, by simp <;> omega, by simp <;> omega, by simp <;> omega⟩

theorem decodeString_post (inp : Bytes) (st : Nat) :
    Post (fun r => r.2 ≤ inp.length - st ∧ 1 ≤ r.2) (decodeString inp st) := by
  unfold decodeString
  apply post_bind (readSize_post inp st)
  rintro ⟨isString, ds, sz⟩ h
  have h1 := h.st_lt; have h2 := h.ds_le; have h3 := h.st_le; have h4 := h.adv
  simp only [] at h1 h2 h3 h4 ⊢
  split
  · simp
  split
  · simp
  rename_i hb
  split
  · rename_i hc
    apply post_bind (post_idx inp ds (by omega))
    intro b hb
    simp; omega
  · rename_i hc
    have hfirst : Post (fun _ => True) (if sz = 1 then idx inp ds else pure 0) := by
      split
      · exact post_mono (post_idx inp ds (by omega)) (fun _ _ => trivial)
      · simp
    apply post_bind hfirst
    intro first _
    split
    · simp
    apply post_bind (post_slice inp _ _ (by omega) (by omega))
    intro sl hsl
    simp
    by_cases hds : ds = st
    · have := h4 hds; omega
    · omega

/-- loop invariant: `itemStart ≤ len`, fuel exceeds the remaining input -/
theorem decodeListLoop_post (inp : Bytes) (lds : Nat) (fuel itemStart itemEnd read : Nat) (acc : List Bytes)
    (hfuel : inp.length - itemStart < fuel) (hs : itemStart ≤ inp.length) (he : itemEnd ≤ inp.length) :
    Post (fun r => r.2.1 ≤ inp.length) (decodeListLoop inp lds fuel itemStart itemEnd read acc) := by
  induction fuel generalizing itemStart itemEnd read acc with
  | zero => omega
  | succ fuel ih =>
    unfold decodeListLoop
    split
    · apply post_bind (readSize_post inp itemStart)
      rintro ⟨isString, ds, sz⟩ h
      have h1 := h.st_lt; have h2 := h.ds_le; have h3 := h.st_le; have h4 := h.adv
      simp only [] at h1 h2 h3 h4 ⊢
      split
      · simp
      rename_i hb
      apply post_bind (post_slice inp _ _ (by omega) (by omega))
      intro item _
      apply ih
      · by_cases hds : ds = itemStart
        · have := h4 hds; omega
        · omega
      · omega
      · omega
    · simpa using he

theorem decodeList_post (inp : Bytes) (st : Nat) :
    Post (fun r => r.2 ≤ inp.length) (decodeList inp st) := by
  unfold decodeList
  apply post_bind (readSize_post inp st)
  rintro ⟨isString, ds, sz⟩ h
  have h1 := h.st_lt; have h2 := h.ds_le
  simp only [] at h1 h2 ⊢
  split
  · simp
  split
  · simp; omega
  split
  · simp
  apply post_bind (decodeListLoop_post inp sz (inp.length + 1) ds 0 0 [] (by omega) h2 (by omega))
  rintro ⟨items, ie, rd⟩ hie
  simp only [] at hie ⊢
  split
  · simp
  · simp; omega

end Verif.Proofs.Rlp
