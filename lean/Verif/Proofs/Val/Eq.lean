import Verif.Proofs.Val.Types
/-! `eq` is an equivalence on well-formed dictionary-free values; equal values have equal hash input (C18). -/
namespace Verif.Proofs.Val
open Verif.Model.Val

mutual
theorem eq_refl : ∀ (a : Val), a.wf = true → a.dictFree = true → eq a a = true
  | .bool _, _, _ | .str _, _, _ | .char _, _, _ | .addr _, _, _ | .nil, _, _ => by simp [eq]
  | .path _ _, _, _ => by simp [eq]
  | .num _ _, _, _ => by simp [eq]
  | .enum _ _ _, _, _ => by simp [eq]
  | .type none, w, _ => by simp [Val.wf] at w
  | .type (some t), _, _ => by simp [eq, STy.equal_refl]
  | .some v, w, d => by
    simp [Val.wf] at w; simp [Val.dictFree] at d
    simp [eq, eq_refl v w d]
  | .arr t vs, w, d => by
    simp [Val.wf] at w; simp [Val.dictFree] at d
    simp [eq, STy.equal_refl, eqList_refl vs w.2 d]
  | .dict _ _, _, d => by simp [Val.dictFree] at d
theorem eqList_refl : ∀ (vs : List Val), wfList vs = true → dictFreeList vs = true → eqList vs vs = true
  | [], _, _ => by simp [eqList]
  | v :: vs, w, d => by
    simp [wfList] at w; simp [dictFreeList] at d
    simp [eqList, eq_refl v w.1 d.1, eqList_refl vs w.2 d.2]
end

mutual
theorem eq_symm : ∀ (a b : Val), a.wf = true → b.wf = true → a.dictFree = true → eq a b = true → eq b a = true
  | .bool _, b, _, _, _, h => by cases b <;> simp [eq] at h; simp [eq, h]
  | .str _, b, _, _, _, h => by cases b <;> simp [eq] at h; simp [eq, h]
  | .char _, b, _, _, _, h => by cases b <;> simp [eq] at h; simp [eq, h]
  | .addr _, b, _, _, _, h => by cases b <;> simp [eq] at h; simp [eq, h]
  | .nil, b, _, _, _, h => by cases b <;> simp [eq] at h; simp [eq]
  | .path _ _, b, _, _, _, h => by cases b <;> simp [eq] at h; simp [eq, h]
  | .num _ _, b, _, _, _, h => by cases b <;> simp [eq] at h; simp [eq, h]
  | .enum _ _ _, b, _, _, _, h => by cases b <;> simp [eq] at h; simp [eq, h]
  | .type none, _, w, _, _, _ => by simp [Val.wf] at w
  | .type (some s), b, wa, wb, _, h => by
    cases b <;> try (simp [eq] at h; done)
    rename_i t
    cases t with
    | none => simp [Val.wf] at wb
    | some t =>
      simp [eq] at h ⊢; simp [Val.wf] at wa wb
      exact STy.equal_symm s t wa wb h
  | .some v, b, wa, wb, d, h => by
    cases b <;> simp [eq] at h
    simp [Val.wf] at wa wb; simp [Val.dictFree] at d
    simp [eq, eq_symm v _ wa wb d h]
  | .arr t vs, b, wa, wb, d, h => by
    cases b <;> try (simp [eq] at h; done)
    rename_i t' ws
    simp [Val.wf] at wa wb; simp [Val.dictFree] at d
    simp only [eq] at h ⊢
    split at h
    · simp at h
    · rename_i hl
      split at h
      · simp at h
      · rename_i ht
        have hl : vs.length = ws.length := by simpa using hl
        have ht : t.equal t' = true := by simpa using ht
        simp [hl, STy.equal_symm t t' wa.1 wb.1 ht, eqList_symm vs ws wa.2 wb.2 d hl h]
  | .dict _ _, _, _, _, d, _ => by simp [Val.dictFree] at d
theorem eqList_symm : ∀ (vs ws : List Val), wfList vs = true → wfList ws = true → dictFreeList vs = true →
    vs.length = ws.length → eqList vs ws = true → eqList ws vs = true
  | [], [], _, _, _, _, _ => by simp [eqList]
  | [], _ :: _, _, _, _, hl, _ => by simp at hl
  | _ :: _, [], _, _, _, hl, _ => by simp at hl
  | v :: vs, w :: ws, wa, wb, d, hl, h => by
    simp [wfList] at wa wb; simp [dictFreeList] at d; simp [eqList] at h
    simp [eqList, eq_symm v w wa.1 wb.1 d.1 h.1, eqList_symm vs ws wa.2 wb.2 d.2 (by simpa using hl) h.2]
end

mutual
theorem eq_trans : ∀ (a b c : Val), a.wf = true → b.wf = true → c.wf = true → a.dictFree = true →
    eq a b = true → eq b c = true → eq a c = true
  | .bool _, b, c, _, _, _, _, h1, h2 => by cases b <;> simp [eq] at h1; cases c <;> simp [eq] at h2; simp [eq, h1, h2]
  | .str _, b, c, _, _, _, _, h1, h2 => by cases b <;> simp [eq] at h1; cases c <;> simp [eq] at h2; simp [eq, h1, h2]
  | .char _, b, c, _, _, _, _, h1, h2 => by cases b <;> simp [eq] at h1; cases c <;> simp [eq] at h2; simp [eq, h1, h2]
  | .addr _, b, c, _, _, _, _, h1, h2 => by cases b <;> simp [eq] at h1; cases c <;> simp [eq] at h2; simp [eq, h1, h2]
  | .nil, b, c, _, _, _, _, h1, h2 => by cases b <;> simp [eq] at h1; cases c <;> simp [eq] at h2; simp [eq]
  | .path _ _, b, c, _, _, _, _, h1, h2 => by cases b <;> simp [eq] at h1; cases c <;> simp [eq] at h2; simp [eq, h1, h2]
  | .num _ _, b, c, _, _, _, _, h1, h2 => by cases b <;> simp [eq] at h1; cases c <;> simp [eq] at h2; simp [eq, h1, h2]
  | .enum _ _ _, b, c, _, _, _, _, h1, h2 => by cases b <;> simp [eq] at h1; cases c <;> simp [eq] at h2; simp [eq, h1, h2]
  | .type none, _, _, w, _, _, _, _, _ => by simp [Val.wf] at w
  | .type (some s), b, c, wa, wb, wc, _, h1, h2 => by
    cases b <;> try (simp [eq] at h1; done)
    rename_i t
    cases t with
    | none => simp [Val.wf] at wb
    | some t =>
      cases c <;> try (simp [eq] at h2; done)
      rename_i u
      cases u with
      | none => simp [Val.wf] at wc
      | some u =>
        simp [eq] at h1 h2 ⊢; simp [Val.wf] at wa wb wc
        exact STy.equal_trans s t u wa wb wc h1 h2
  | .some v, b, c, wa, wb, wc, d, h1, h2 => by
    cases b <;> simp [eq] at h1
    cases c <;> simp [eq] at h2
    simp [Val.wf] at wa wb wc; simp [Val.dictFree] at d
    simp [eq, eq_trans v _ _ wa wb wc d h1 h2]
  | .arr t vs, b, c, wa, wb, wc, d, h1, h2 => by
    cases b <;> try (simp [eq] at h1; done)
    cases c <;> try (simp [eq] at h2; done)
    rename_i t' ws t'' us
    simp [Val.wf] at wa wb wc; simp [Val.dictFree] at d
    simp only [eq] at h1 h2 ⊢
    split at h1
    · simp at h1
    · rename_i hl1
      split at h1
      · simp at h1
      · rename_i ht1
        split at h2
        · simp at h2
        · rename_i hl2
          split at h2
          · simp at h2
          · rename_i ht2
            have hl1 : vs.length = ws.length := by simpa using hl1
            have hl2 : ws.length = us.length := by simpa using hl2
            have ht1 : t.equal t' = true := by simpa using ht1
            have ht2 : t'.equal t'' = true := by simpa using ht2
            simp [hl1.trans hl2, STy.equal_trans t t' t'' wa.1 wb.1 wc.1 ht1 ht2,
              eqList_trans vs ws us wa.2 wb.2 wc.2 d hl1 hl2 h1 h2]
  | .dict _ _, _, _, _, _, _, d, _, _ => by simp [Val.dictFree] at d
theorem eqList_trans : ∀ (vs ws us : List Val), wfList vs = true → wfList ws = true → wfList us = true →
    dictFreeList vs = true → vs.length = ws.length → ws.length = us.length →
    eqList vs ws = true → eqList ws us = true → eqList vs us = true
  | [], _, [], _, _, _, _, _, _, _, _ => by simp [eqList]
  | [], [], _ :: _, _, _, _, _, _, hl, _, _ => by simp at hl
  | [], _ :: _, _, _, _, _, _, hl, _, _, _ => by simp at hl
  | _ :: _, [], _, _, _, _, _, hl, _, _, _ => by simp at hl
  | _ :: _, _ :: _, [], _, _, _, _, _, hl, _, _ => by simp at hl
  | v :: vs, w :: ws, u :: us, wa, wb, wc, d, hl1, hl2, h1, h2 => by
    simp [wfList] at wa wb wc; simp [dictFreeList] at d; simp [eqList] at h1 h2
    simp [eqList, eq_trans v w u wa.1 wb.1 wc.1 d.1 h1.1 h2.1,
      eqList_trans vs ws us wa.2 wb.2 wc.2 d.2 (by simpa using hl1) (by simpa using hl2) h1.2 h2.2]
end

/-- equal values have the same hash input (both hashable or both not) -/
theorem hash_of_eq : ∀ (a b : Val), a.wf = true → b.wf = true → eq a b = true → hashInput a = hashInput b
  | .type none, _, w, _, _ => by simp [Val.wf] at w
  | .type (some s), b, wa, wb, h => by
    cases b <;> try (simp [eq] at h; done)
    rename_i t
    cases t with
    | none => simp [Val.wf] at wb
    | some t =>
      simp [eq] at h; simp [Val.wf] at wa wb
      simp [hashInput, STy.id_of_equal s t wa wb h]
  | .bool _, b, _, _, h => by cases b <;> simp [eq] at h; simp [hashInput, h]
  | .str _, b, _, _, h => by cases b <;> simp [eq] at h; simp [hashInput, h]
  | .char _, b, _, _, h => by cases b <;> simp [eq] at h; simp [hashInput, h]
  | .addr _, b, _, _, h => by cases b <;> simp [eq] at h; simp [hashInput, h]
  | .path _ _, b, _, _, h => by cases b <;> simp [eq] at h; simp [hashInput, h]
  | .num _ _, b, _, _, h => by cases b <;> simp [eq] at h; simp [hashInput, h]
  | .enum _ _ _, b, _, _, h => by cases b <;> simp [eq] at h; simp [hashInput, h]
  | .nil, b, _, _, h => by cases b <;> simp [eq] at h; rfl
  | .some _, b, _, _, h => by cases b <;> simp [eq] at h; rfl
  | .arr _ _, b, _, _, h => by cases b <;> simp [eq] at h; rfl
  | .dict _ _, b, _, _, h => by cases b <;> simp [eq] at h; rfl

end Verif.Proofs.Val
