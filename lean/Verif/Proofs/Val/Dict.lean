import Verif.Spec.KeyDict
/-! Equal keys are interchangeable in the association-list dictionary, for any equality test that is an
equivalence on the keys satisfying `P`. -/
namespace Verif.Proofs.Val
open Verif.Spec Verif.Spec.KeyDict

variable {K V : Type}

theorem insert_insert_eq (eqf : K → K → Bool) (P : K → Prop)
    (refl : ∀ a, P a → eqf a a = true)
    (symm : ∀ a b, P a → P b → eqf a b = true → eqf b a = true)
    (trans : ∀ a b c, P a → P b → P c → eqf a b = true → eqf b c = true → eqf a c = true)
    (a b : K) (x y : V) (pa : P a) (pb : P b) (hab : eqf a b = true) :
    ∀ (d : List (K × V)), (∀ e ∈ d, P e.1) →
      (KeyDict.insert eqf b y (KeyDict.insert eqf a x d)).length = (KeyDict.insert eqf a x d).length ∧
      KeyDict.lookup eqf a (KeyDict.insert eqf b y (KeyDict.insert eqf a x d)) = some y ∧
      KeyDict.lookup eqf b (KeyDict.insert eqf b y (KeyDict.insert eqf a x d)) = some y
  | [], _ => by
    have hba := symm a b pa pb hab
    simp [KeyDict.insert, KeyDict.lookup, hba, refl a pa]
  | (k', v') :: rest, hd => by
    have pk : P k' := hd (k', v') (by simp)
    have hrest : ∀ e ∈ rest, P e.1 := fun e he => hd e (by simp [he])
    have hba := symm a b pa pb hab
    by_cases h : eqf a k' = true
    · have hbk : eqf b k' = true := trans b a k' pb pa pk hba h
      simp [KeyDict.insert, KeyDict.lookup, h, hbk]
    · have hbk : ¬ eqf b k' = true := fun hbk => h (trans a b k' pa pb pk hab hbk)
      have ih := insert_insert_eq eqf P refl symm trans a b x y pa pb hab rest hrest
      simp [KeyDict.insert, KeyDict.lookup, h, hbk, ih]

/-- inserting a key that equals no present key adds one entry -/
theorem insert_fresh_length (eqf : K → K → Bool) (k : K) (v : V) :
    ∀ (d : List (K × V)), (∀ e ∈ d, eqf k e.1 = false) → (KeyDict.insert eqf k v d).length = d.length + 1
  | [], _ => by simp [KeyDict.insert]
  | (k', v') :: rest, h => by
    have h1 : eqf k k' = false := h (k', v') (by simp)
    have ih := insert_fresh_length eqf k v rest (fun e he => h e (by simp [he]))
    simp [KeyDict.insert, h1, ih]

end Verif.Proofs.Val
