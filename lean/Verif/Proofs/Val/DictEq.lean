import Verif.Proofs.Val.Eq
/-! `eq` is an equivalence on all well-formed values, dictionaries included (C18).

`DictionaryValue.Equal` compares the counts and then looks every entry of the receiver up in the other
dictionary: a one-sided inclusion test.  With pairwise unequal (hashable) keys on both sides the
inclusion of equally many entries is a bijection (counting argument `match_surj`), which gives
symmetry; reflexivity and transitivity follow from the uniqueness of the entry a key finds. -/
namespace Verif.Proofs.Val
open Verif.Model.Val

/-! ### an induction principle that hands out the hypothesis for every element / entry value -/

def isLeaf : Val → Bool
  | .some _ | .arr _ _ | .dict _ _ => false
  | _ => true

theorem leaf_dictFree {a : Val} (h : isLeaf a = true) : a.dictFree = true := by
  cases a <;> simp [isLeaf] at h <;> rfl

section induct
variable {motive : Val → Prop} (leaf : ∀ a, isLeaf a = true → motive a)
  (some : ∀ v, motive v → motive (.some v))
  (arr : ∀ t vs, (∀ v ∈ vs, motive v) → motive (.arr t vs))
  (dict : ∀ t es, (∀ e ∈ es, motive e.2) → motive (.dict t es))
include leaf some arr dict

mutual
theorem val_induct : ∀ a, motive a
  | .some v => some v (val_induct v)
  | .arr t vs => arr t vs (val_induct_list vs)
  | .dict t es => dict t es (val_induct_entries es)
  | .bool _ => leaf _ rfl
  | .str _ => leaf _ rfl
  | .char _ => leaf _ rfl
  | .addr _ => leaf _ rfl
  | .path _ _ => leaf _ rfl
  | .num _ _ => leaf _ rfl
  | .enum _ _ _ => leaf _ rfl
  | .type _ => leaf _ rfl
  | .nil => leaf _ rfl
theorem val_induct_list : ∀ (vs : List Val), ∀ v ∈ vs, motive v
  | [], _, h => nomatch h
  | v :: vs, x, h => by
    cases h with
    | head => exact val_induct v
    | tail _ h' => exact val_induct_list vs x h'
theorem val_induct_entries : ∀ (es : List (Val × Val)), ∀ e ∈ es, motive e.2
  | [], _, h => nomatch h
  | (k, v) :: es, x, h => by
    cases h with
    | head => exact val_induct v
    | tail _ h' => exact val_induct_entries es x h'
end
end induct

/-! ### the well-formedness predicates as statements about members -/

theorem wfList_iff : ∀ vs, wfList vs = true ↔ ∀ v ∈ vs, v.wf = true
  | [] => by simp [wfList]
  | v :: vs => by simp [wfList, wfList_iff vs]

theorem keysOKList_iff : ∀ vs, keysOKList vs = true ↔ ∀ v ∈ vs, v.keysOK = true
  | [] => by simp [keysOKList]
  | v :: vs => by simp [keysOKList, keysOKList_iff vs]

theorem wfEntries_iff : ∀ es, wfEntries es = true ↔ ∀ e ∈ es, e.1.wf = true ∧ e.2.wf = true
  | [] => by simp [wfEntries]
  | (k, v) :: es => by simp [wfEntries, wfEntries_iff es, and_assoc]

theorem keysOKEntries_iff : ∀ es, keysOKEntries es = true ↔
    ∀ e ∈ es, (hashInput e.1).isSome = true ∧ e.2.keysOK = true
  | [] => by simp [keysOKEntries]
  | (k, v) :: es => by simp [keysOKEntries, keysOKEntries_iff es, and_assoc]

theorem distinctKeys_iff : ∀ es, distinctKeys es = true ↔ es.Pairwise (fun e f => eq e.1 f.1 = false)
  | [] => by simp [distinctKeys]
  | (k, v) :: es => by simp [distinctKeys, distinctKeys_iff es]

theorem dictFree_of_hashable {a : Val} (h : (hashInput a).isSome = true) : a.dictFree = true := by
  cases a <;> simp [hashInput] at h <;> rfl

/-- well-formed, and every dictionary inside has hashable, pairwise unequal keys -/
def W (a : Val) : Prop := a.wf = true ∧ a.keysOK = true

/-- the entries of a dictionary: keys well-formed and dictionary-free, pairwise unequal -/
def EOK (es : List (Val × Val)) : Prop :=
  (∀ e ∈ es, e.1.wf = true ∧ e.1.dictFree = true) ∧ es.Pairwise (fun e f => eq e.1 f.1 = false)

theorem W_some {v : Val} : W (.some v) ↔ W v := by simp [W, Val.wf, Val.keysOK]

theorem W_arr {t : STy} {vs : List Val} : W (.arr t vs) ↔ t.wf = true ∧ ∀ v ∈ vs, W v := by
  simp only [W, Val.wf, Val.keysOK, Bool.and_eq_true, wfList_iff, keysOKList_iff]
  constructor
  · rintro ⟨⟨ht, h1⟩, h2⟩; exact ⟨ht, fun v hv => ⟨h1 v hv, h2 v hv⟩⟩
  · rintro ⟨ht, h⟩; exact ⟨⟨ht, fun v hv => (h v hv).1⟩, fun v hv => (h v hv).2⟩

theorem W_dict {t : STy} {es : List (Val × Val)} (h : W (.dict t es)) :
    t.wf = true ∧ EOK es ∧ ∀ e ∈ es, W e.2 := by
  simp only [W, Val.wf, Val.keysOK, Bool.and_eq_true, wfEntries_iff, keysOKEntries_iff, distinctKeys_iff] at h
  obtain ⟨⟨ht, h1⟩, h2, h3⟩ := h
  exact ⟨ht, ⟨fun e he => ⟨(h1 e he).1, dictFree_of_hashable (h2 e he).1⟩, h3⟩,
    fun e he => ⟨(h1 e he).2, (h2 e he).2⟩⟩

/-! ### entries with pairwise unequal keys -/

theorem pairwise_cases {α : Type} {R : α → α → Prop} {l : List α} (h : l.Pairwise R) {a b : α}
    (ha : a ∈ l) (hb : b ∈ l) : a = b ∨ R a b ∨ R b a := by
  induction h with
  | nil => cases ha
  | cons hx _ ih =>
    cases ha with
    | head =>
      cases hb with
      | head => exact .inl rfl
      | tail _ hb => exact .inr (.inl (hx _ hb))
    | tail _ ha =>
      cases hb with
      | head => exact .inr (.inr (hx _ ha))
      | tail _ hb => exact ih ha hb

/-- two entries of one dictionary with equal keys are the same entry -/
theorem same_entry {fs : List (Val × Val)} (ok : EOK fs) {f g : Val × Val} (hf : f ∈ fs) (hg : g ∈ fs)
    (h : eq f.1 g.1 = true) : f = g := by
  rcases pairwise_cases ok.2 hf hg with e | r | r
  · exact e
  · rw [h] at r; cases r
  · have := eq_symm f.1 g.1 (ok.1 f hf).1 (ok.1 g hg).1 (ok.1 f hf).2 h
    rw [this] at r; cases r

/-- `Get`: the lookup of a key finds the one entry whose key it equals -/
theorem find_unique {fs : List (Val × Val)} (ok : EOK fs) {k : Val} (wk : k.wf = true) (dk : k.dictFree = true)
    {f : Val × Val} (hf : f ∈ fs) (h : eq k f.1 = true) : fs.find? (fun kv => eq k kv.1) = some f := by
  cases hfind : fs.find? (fun kv => eq k kv.1) with
  | none =>
    have := List.find?_eq_none.1 hfind f hf
    simp [h] at this
  | some g =>
    have hg := List.mem_of_find?_eq_some hfind
    have hkg : eq k g.1 = true := by have := List.find?_some hfind; simpa using this
    have hfk := eq_symm k f.1 wk (ok.1 f hf).1 dk h
    have := eq_trans f.1 k g.1 (ok.1 f hf).1 wk (ok.1 g hg).1 (ok.1 f hf).2 hfk hkg
    rw [same_entry ok hf hg this]

theorem entries_elim : ∀ {es fs : List (Val × Val)}, eqEntries es fs = true →
    ∀ e ∈ es, ∃ f ∈ fs, eq e.1 f.1 = true ∧ eq e.2 f.2 = true
  | [], _, _, _, he => nomatch he
  | (k, v) :: es, fs, h, e, he => by
    simp only [eqEntries, Bool.and_eq_true] at h
    cases he with
    | head =>
      cases hfind : fs.find? (fun kv => eq k kv.1) with
      | none => rw [hfind] at h; simp at h
      | some g =>
        rw [hfind] at h
        exact ⟨g, List.mem_of_find?_eq_some hfind, by have := List.find?_some hfind; simpa using this, h.1⟩
    | tail _ he' => exact entries_elim h.2 e he'

theorem entries_intro {fs : List (Val × Val)} (ok : EOK fs) : ∀ {es : List (Val × Val)},
    (∀ e ∈ es, (e.1.wf = true ∧ e.1.dictFree = true) ∧ ∃ f ∈ fs, eq e.1 f.1 = true ∧ eq e.2 f.2 = true) →
    eqEntries es fs = true
  | [], _ => by simp [eqEntries]
  | (k, v) :: es, h => by
    obtain ⟨⟨wk, dk⟩, f, hf, h1, h2⟩ := h (k, v) (by simp)
    simp only [eqEntries, Bool.and_eq_true]
    rw [find_unique ok wk dk hf h1]
    exact ⟨h2, entries_intro ok (fun e he => h e (List.mem_cons_of_mem _ he))⟩

/-- the counting argument: between two lists of pairwise unequal keys of the same length, an
inclusion (every key of the first equals a key of the second) is onto -/
theorem match_surj : ∀ (es fs : List (Val × Val)), EOK es → EOK fs → es.length = fs.length →
    (∀ e ∈ es, ∃ f ∈ fs, eq e.1 f.1 = true) → ∀ f ∈ fs, ∃ e ∈ es, eq e.1 f.1 = true
  | [], fs, _, _, hl, _, f, hf => by
    have : fs = [] := List.length_eq_zero_iff.1 hl.symm
    subst this; cases hf
  | e :: es, fs, oe, ofs, hl, hm, f, hf => by
    obtain ⟨f0, hf0, h0⟩ := hm e (by simp)
    obtain ⟨s, t, rfl⟩ := List.append_of_mem hf0
    have oe' : EOK es := ⟨fun x hx => oe.1 x (List.mem_cons_of_mem _ hx), (List.pairwise_cons.1 oe.2).2⟩
    have sub : (s ++ t).Sublist (s ++ f0 :: t) := List.Sublist.append_left (List.sublist_cons_self _ _) _
    have ofs' : EOK (s ++ t) := ⟨fun x hx => ofs.1 x (sub.subset hx), ofs.2.sublist sub⟩
    have hl' : es.length = (s ++ t).length := by
      simp only [List.length_cons, List.length_append] at hl ⊢; omega
    have hm' : ∀ e' ∈ es, ∃ f ∈ s ++ t, eq e'.1 f.1 = true := by
      intro e' he'
      obtain ⟨f1, hf1, h1⟩ := hm e' (List.mem_cons_of_mem _ he')
      by_cases hEq : f1 = f0
      · subst hEq
        have w_e := oe.1 e (by simp)
        have w_e' := oe.1 e' (List.mem_cons_of_mem _ he')
        have w_f := ofs.1 f1 hf1
        have h10 := eq_symm e'.1 f1.1 w_e'.1 w_f.1 w_e'.2 h1
        have := eq_trans e.1 f1.1 e'.1 w_e.1 w_f.1 w_e'.1 w_e.2 h0 h10
        have hne := (List.pairwise_cons.1 oe.2).1 e' he'
        rw [this] at hne; cases hne
      · refine ⟨f1, ?_, h1⟩
        simp only [List.mem_append, List.mem_cons] at hf1 ⊢
        rcases hf1 with h | h | h
        · exact .inl h
        · exact absurd h hEq
        · exact .inr h
    have ih := match_surj es (s ++ t) oe' ofs' hl' hm'
    simp only [List.mem_append, List.mem_cons] at hf
    have lift : (∃ e' ∈ es, eq e'.1 f.1 = true) → ∃ e' ∈ e :: es, eq e'.1 f.1 = true := by
      rintro ⟨e', he', h⟩; exact ⟨e', List.mem_cons_of_mem _ he', h⟩
    rcases hf with h | h | h
    · exact lift (ih f (List.mem_append.2 (.inl h)))
    · subst h; exact ⟨e, by simp, h0⟩
    · exact lift (ih f (List.mem_append.2 (.inr h)))

/-! ### unfolding `eq` on arrays and dictionaries -/

theorem eq_dict_iff {t t' : STy} {es fs : List (Val × Val)} :
    eq (.dict t es) (.dict t' fs) = true ↔
      es.length = fs.length ∧ t.equal t' = true ∧ eqEntries es fs = true := by
  simp only [eq]
  by_cases h1 : es.length = fs.length <;> by_cases h2 : t.equal t' = true <;> simp [h1, h2]

theorem eq_arr_iff {t t' : STy} {vs ws : List Val} :
    eq (.arr t vs) (.arr t' ws) = true ↔
      vs.length = ws.length ∧ t.equal t' = true ∧ eqList vs ws = true := by
  simp only [eq]
  by_cases h1 : vs.length = ws.length <;> by_cases h2 : t.equal t' = true <;> simp [h1, h2]

theorem eqList_refl_of : ∀ (vs : List Val), (∀ v ∈ vs, eq v v = true) → eqList vs vs = true
  | [], _ => by simp [eqList]
  | v :: vs, h => by
    simp only [eqList, Bool.and_eq_true]
    exact ⟨h v (by simp), eqList_refl_of vs (fun x hx => h x (List.mem_cons_of_mem _ hx))⟩

theorem eqList_symm_of : ∀ (vs ws : List Val),
    (∀ v ∈ vs, ∀ b, W v → W b → eq v b = true → eq b v = true) →
    (∀ v ∈ vs, W v) → (∀ w ∈ ws, W w) → vs.length = ws.length →
    eqList vs ws = true → eqList ws vs = true
  | [], [], _, _, _, _, _ => by simp [eqList]
  | [], _ :: _, _, _, _, hl, _ => by simp at hl
  | _ :: _, [], _, _, _, hl, _ => by simp at hl
  | v :: vs, w :: ws, ih, wa, wb, hl, h => by
    simp only [eqList, Bool.and_eq_true] at h ⊢
    exact ⟨ih v (by simp) w (wa v (by simp)) (wb w (by simp)) h.1,
      eqList_symm_of vs ws (fun x hx => ih x (List.mem_cons_of_mem _ hx))
        (fun x hx => wa x (List.mem_cons_of_mem _ hx)) (fun x hx => wb x (List.mem_cons_of_mem _ hx))
        (by simpa using hl) h.2⟩

theorem eqList_trans_of : ∀ (vs ws us : List Val),
    (∀ v ∈ vs, ∀ b c, W v → W b → W c → eq v b = true → eq b c = true → eq v c = true) →
    (∀ v ∈ vs, W v) → (∀ w ∈ ws, W w) → (∀ u ∈ us, W u) → vs.length = ws.length → ws.length = us.length →
    eqList vs ws = true → eqList ws us = true → eqList vs us = true
  | [], _, [], _, _, _, _, _, _, _, _ => by simp [eqList]
  | [], [], _ :: _, _, _, _, _, _, hl, _, _ => by simp at hl
  | [], _ :: _, _, _, _, _, _, hl, _, _, _ => by simp at hl
  | _ :: _, [], _, _, _, _, _, hl, _, _, _ => by simp at hl
  | _ :: _, _ :: _, [], _, _, _, _, _, hl, _, _ => by simp at hl
  | v :: vs, w :: ws, u :: us, ih, wa, wb, wc, hl1, hl2, h1, h2 => by
    simp only [eqList, Bool.and_eq_true] at h1 h2 ⊢
    exact ⟨ih v (by simp) w u (wa v (by simp)) (wb w (by simp)) (wc u (by simp)) h1.1 h2.1,
      eqList_trans_of vs ws us (fun x hx => ih x (List.mem_cons_of_mem _ hx))
        (fun x hx => wa x (List.mem_cons_of_mem _ hx)) (fun x hx => wb x (List.mem_cons_of_mem _ hx))
        (fun x hx => wc x (List.mem_cons_of_mem _ hx)) (by simpa using hl1) (by simpa using hl2) h1.2 h2.2⟩

/-! ### the equivalence -/

theorem eqK_refl (a : Val) : W a → eq a a = true := by
  induction a using val_induct with
  | leaf a hl => intro w; exact eq_refl a w.1 (leaf_dictFree hl)
  | some v ih => intro w; simp only [eq]; exact ih (W_some.1 w)
  | arr t vs ih =>
    intro w
    have w := W_arr.1 w
    exact eq_arr_iff.2 ⟨rfl, STy.equal_refl t, eqList_refl_of vs (fun v hv => ih v hv (w.2 v hv))⟩
  | dict t es ih =>
    intro w
    obtain ⟨_, ok, wv⟩ := W_dict w
    refine eq_dict_iff.2 ⟨rfl, STy.equal_refl t, entries_intro ok (fun e he => ⟨ok.1 e he, e, he, ?_, ih e he (wv e he)⟩)⟩
    exact eq_refl e.1 (ok.1 e he).1 (ok.1 e he).2

theorem eqK_symm (a : Val) : ∀ b, W a → W b → eq a b = true → eq b a = true := by
  induction a using val_induct with
  | leaf a hl => intro b wa wb h; exact eq_symm a b wa.1 wb.1 (leaf_dictFree hl) h
  | some v ih =>
    intro b wa wb h
    cases b <;> simp only [eq] at h <;> try (cases h; done)
    simp only [eq]
    exact ih _ (W_some.1 wa) (W_some.1 wb) h
  | arr t vs ih =>
    intro b wa wb h
    cases b <;> try (simp [eq] at h; done)
    rename_i t' ws
    have wa := W_arr.1 wa
    have wb := W_arr.1 wb
    obtain ⟨hl, ht, he⟩ := eq_arr_iff.1 h
    exact eq_arr_iff.2 ⟨hl.symm, STy.equal_symm t t' wa.1 wb.1 ht, eqList_symm_of vs ws ih wa.2 wb.2 hl he⟩
  | dict t es ih =>
    intro b wa wb h
    cases b <;> try (simp [eq] at h; done)
    rename_i t' fs
    obtain ⟨wt, oe, wve⟩ := W_dict wa
    obtain ⟨wt', ofs, wvf⟩ := W_dict wb
    obtain ⟨hl, ht, he⟩ := eq_dict_iff.1 h
    have hel := entries_elim he
    have surj := match_surj es fs oe ofs hl (fun e hee => by
      obtain ⟨f, hf, h1, _⟩ := hel e hee; exact ⟨f, hf, h1⟩)
    refine eq_dict_iff.2 ⟨hl.symm, STy.equal_symm t t' wt wt' ht, entries_intro oe (fun f hf => ⟨ofs.1 f hf, ?_⟩)⟩
    obtain ⟨e, hee, hk⟩ := surj f hf
    obtain ⟨f', hf', hk', hv'⟩ := hel e hee
    -- `e` finds `f'`, and its key equals the key of `f`: the same entry
    have hff : eq f'.1 f.1 = true :=
      eq_trans f'.1 e.1 f.1 (ofs.1 f' hf').1 (oe.1 e hee).1 (ofs.1 f hf).1 (ofs.1 f' hf').2
        (eq_symm e.1 f'.1 (oe.1 e hee).1 (ofs.1 f' hf').1 (oe.1 e hee).2 hk') hk
    have := same_entry ofs hf' hf hff
    subst this
    exact ⟨e, hee, eq_symm e.1 f'.1 (oe.1 e hee).1 (ofs.1 f' hf').1 (oe.1 e hee).2 hk',
      ih e hee f'.2 (wve e hee) (wvf f' hf') hv'⟩

theorem eqK_trans (a : Val) : ∀ b c, W a → W b → W c → eq a b = true → eq b c = true → eq a c = true := by
  induction a using val_induct with
  | leaf a hl => intro b c wa wb wc h1 h2; exact eq_trans a b c wa.1 wb.1 wc.1 (leaf_dictFree hl) h1 h2
  | some v ih =>
    intro b c wa wb wc h1 h2
    cases b <;> simp only [eq] at h1 <;> try (cases h1; done)
    cases c <;> simp only [eq] at h2 <;> try (cases h2; done)
    simp only [eq]
    exact ih _ _ (W_some.1 wa) (W_some.1 wb) (W_some.1 wc) h1 h2
  | arr t vs ih =>
    intro b c wa wb wc h1 h2
    cases b <;> try (simp [eq] at h1; done)
    cases c <;> try (simp [eq] at h2; done)
    rename_i t' ws t'' us
    have wa := W_arr.1 wa
    have wb := W_arr.1 wb
    have wc := W_arr.1 wc
    obtain ⟨hl1, ht1, he1⟩ := eq_arr_iff.1 h1
    obtain ⟨hl2, ht2, he2⟩ := eq_arr_iff.1 h2
    exact eq_arr_iff.2 ⟨hl1.trans hl2, STy.equal_trans t t' t'' wa.1 wb.1 wc.1 ht1 ht2,
      eqList_trans_of vs ws us ih wa.2 wb.2 wc.2 hl1 hl2 he1 he2⟩
  | dict t es ih =>
    intro b c wa wb wc h1 h2
    cases b <;> try (simp [eq] at h1; done)
    cases c <;> try (simp [eq] at h2; done)
    rename_i t' fs t'' gs
    obtain ⟨wt, oe, wve⟩ := W_dict wa
    obtain ⟨wt', ofs, wvf⟩ := W_dict wb
    obtain ⟨wt'', ogs, wvg⟩ := W_dict wc
    obtain ⟨hl1, ht1, he1⟩ := eq_dict_iff.1 h1
    obtain ⟨hl2, ht2, he2⟩ := eq_dict_iff.1 h2
    refine eq_dict_iff.2 ⟨hl1.trans hl2, STy.equal_trans t t' t'' wt wt' wt'' ht1 ht2,
      entries_intro ogs (fun e hee => ⟨oe.1 e hee, ?_⟩)⟩
    obtain ⟨f, hf, hk1, hv1⟩ := entries_elim he1 e hee
    obtain ⟨g, hg, hk2, hv2⟩ := entries_elim he2 f hf
    exact ⟨g, hg, eq_trans e.1 f.1 g.1 (oe.1 e hee).1 (ofs.1 f hf).1 (ogs.1 g hg).1 (oe.1 e hee).2 hk1 hk2,
      ih e hee f.2 g.2 (wve e hee) (wvf f hf) (wvg g hg) hv1 hv2⟩

/-- dictionary-free values satisfy the key condition vacuously -/
theorem keysOK_of_dictFree (a : Val) : a.dictFree = true → a.keysOK = true := by
  induction a using val_induct with
  | leaf a hl => intro _; cases a <;> simp [isLeaf] at hl <;> rfl
  | some v ih => intro d; simp only [Val.dictFree] at d; simp only [Val.keysOK]; exact ih d
  | arr t vs ih =>
    intro d
    simp only [Val.dictFree] at d
    simp only [Val.keysOK, keysOKList_iff]
    intro v hv
    refine ih v hv ?_
    clear ih
    induction vs with
    | nil => cases hv
    | cons x xs ihx =>
      simp only [dictFreeList, Bool.and_eq_true] at d
      cases hv with
      | head => exact d.1
      | tail _ h => exact ihx d.2 h
  | dict t es ih => intro d; simp [Val.dictFree] at d

end Verif.Proofs.Val
