import Verif.Model.Val.Hashable
/-! Lemmas about the bytewise order (`bytesCmp`) — core only. -/
namespace Verif.Proofs.Val
open Verif.Model.Val

theorem bytesCmp_eq_iff : ∀ (a b : Bytes), bytesCmp a b = .eq ↔ a = b
  | [], [] => by simp [bytesCmp]
  | [], _ :: _ => by simp [bytesCmp]
  | _ :: _, [] => by simp [bytesCmp]
  | a :: as, b :: bs => by
    have ih := bytesCmp_eq_iff as bs
    simp only [bytesCmp]
    split
    · rename_i h; simp; intro e; subst e; omega
    · split
      · rename_i h; simp; intro e; subst e; omega
      · rename_i h1 h2
        have : a = b := UInt8.toNat_inj.mp (by omega)
        simp [ih, this]

theorem bytesCmp_refl (a : Bytes) : bytesCmp a a = .eq := (bytesCmp_eq_iff a a).2 rfl

theorem bytesCmp_swap : ∀ (a b : Bytes), bytesCmp b a = (bytesCmp a b).swap
  | [], [] => by simp [bytesCmp]
  | [], _ :: _ => by simp [bytesCmp]
  | _ :: _, [] => by simp [bytesCmp]
  | a :: as, b :: bs => by
    have ih := bytesCmp_swap as bs
    simp only [bytesCmp]
    by_cases h1 : a.toNat < b.toNat
    · have : ¬ b.toNat < a.toNat := by omega
      simp [h1, this]
    · by_cases h2 : b.toNat < a.toNat
      · simp [h1, h2]
      · simp [h1, h2, ih]

theorem bytesCmp_lt_trans : ∀ (a b c : Bytes), bytesCmp a b = .lt → bytesCmp b c = .lt → bytesCmp a c = .lt
  | [], [], _ => by simp [bytesCmp]
  | [], _ :: _, [] => by simp [bytesCmp]
  | [], _ :: _, _ :: _ => by simp [bytesCmp]
  | _ :: _, [], _ => by simp [bytesCmp]
  | _ :: _, _ :: _, [] => by simp [bytesCmp]
  | a :: as, b :: bs, c :: cs => by
    have ih := bytesCmp_lt_trans as bs cs
    simp only [bytesCmp]
    intro h1 h2
    by_cases ab : a.toNat < b.toNat
    · by_cases bc : b.toNat < c.toNat
      · have : a.toNat < c.toNat := by omega
        simp [this]
      · by_cases cb : c.toNat < b.toNat
        · simp [bc, cb] at h2
        · have : a.toNat < c.toNat := by omega
          simp [this]
    · by_cases ba : b.toNat < a.toNat
      · simp [ab, ba] at h1
      · simp [ab, ba] at h1
        by_cases bc : b.toNat < c.toNat
        · have : a.toNat < c.toNat := by omega
          simp [this]
        · by_cases cb : c.toNat < b.toNat
          · simp [bc, cb] at h2
          · simp [bc, cb] at h2
            have e1 : ¬ a.toNat < c.toNat := by omega
            have e2 : ¬ c.toNat < a.toNat := by omega
            simp [e1, e2, ih h1 h2]

theorem bytesCmp_gt_iff (a b : Bytes) : bytesCmp a b = .gt ↔ bytesCmp b a = .lt := by
  rw [bytesCmp_swap a b]; cases bytesCmp a b <;> simp [Ordering.swap]

/-- trichotomy of the bytewise order, with the mirrored comparison -/
theorem bytes_tri (x y : Bytes) :
    (bytesCmp x y = .lt ∧ x ≠ y ∧ bytesCmp y x = .gt) ∨
    (bytesCmp x y = .eq ∧ x = y ∧ bytesCmp y x = .eq) ∨
    (bytesCmp x y = .gt ∧ x ≠ y ∧ bytesCmp y x = .lt) := by
  have e := bytesCmp_eq_iff x y
  have s := bytesCmp_swap x y
  cases hc : bytesCmp x y
  · left; refine ⟨rfl, ?_, by simp [s, hc, Ordering.swap]⟩
    intro h; have := e.2 h; rw [hc] at this; exact absurd this (by simp)
  · right; left; exact ⟨rfl, e.1 hc, by simp [s, hc, Ordering.swap]⟩
  · right; right; refine ⟨rfl, ?_, by simp [s, hc, Ordering.swap]⟩
    intro h; have := e.2 h; rw [hc] at this; exact absurd this (by simp)

/-- `bytesLe` is a total preorder, antisymmetric: what sorting needs -/
theorem bytesLe_total (a b : Bytes) : (bytesLe a b || bytesLe b a) = true := by
  unfold bytesLe; rw [bytesCmp_swap a b]; cases bytesCmp a b <;> simp [Ordering.swap]

theorem bytesLe_antisymm (a b : Bytes) (h1 : bytesLe a b = true) (h2 : bytesLe b a = true) : a = b := by
  unfold bytesLe at h1 h2
  rw [bytesCmp_swap a b] at h2
  apply (bytesCmp_eq_iff a b).1
  revert h1 h2; cases bytesCmp a b <;> simp [Ordering.swap]

theorem bytesLe_trans (a b c : Bytes) (h1 : bytesLe a b = true) (h2 : bytesLe b c = true) : bytesLe a c = true := by
  unfold bytesLe at *
  cases hab : bytesCmp a b with
  | gt => simp [hab] at h1
  | eq => have := (bytesCmp_eq_iff a b).1 hab; subst this; exact h2
  | lt =>
    cases hbc : bytesCmp b c with
    | gt => simp [hbc] at h2
    | eq => have := (bytesCmp_eq_iff b c).1 hbc; subst this; simp [hab]
    | lt => simp [bytesCmp_lt_trans a b c hab hbc]

theorem insertID_perm (a : Bytes) : ∀ l : List Bytes, (insertID a l).Perm (a :: l)
  | [] => by simp [insertID]
  | b :: bs => by
    simp only [insertID]
    split
    · exact List.Perm.refl _
    · exact ((insertID_perm a bs).cons b).trans (List.Perm.swap a b bs)

theorem sortIDs_perm_self : ∀ l : List Bytes, (sortIDs l).Perm l
  | [] => by simp [sortIDs]
  | a :: l => by
    have ih := sortIDs_perm_self l
    simp only [sortIDs, List.foldr_cons] at ih ⊢
    exact (insertID_perm a _).trans (ih.cons a)

theorem insertID_pairwise (a : Bytes) : ∀ l : List Bytes, l.Pairwise (fun x y => bytesLe x y = true) →
    (insertID a l).Pairwise (fun x y => bytesLe x y = true)
  | [], _ => by simp [insertID]
  | b :: bs, h => by
    simp only [insertID]
    have hb := List.pairwise_cons.1 h
    split
    · rename_i hab
      refine List.pairwise_cons.2 ⟨?_, h⟩
      intro x hx
      rcases List.mem_cons.1 hx with e | e
      · subst e; exact hab
      · exact bytesLe_trans a b x hab (hb.1 x e)
    · rename_i hab
      have hba : bytesLe b a = true := by
        have := bytesLe_total a b; simp at this; rcases this with t | t
        · exact absurd t hab
        · exact t
      refine List.pairwise_cons.2 ⟨?_, insertID_pairwise a bs hb.2⟩
      intro x hx
      rcases List.mem_cons.1 ((insertID_perm a bs).mem_iff.1 hx) with e | e
      · subst e; exact hba
      · exact hb.1 x e

theorem sortIDs_pairwise : ∀ l : List Bytes, (sortIDs l).Pairwise (fun x y => bytesLe x y = true)
  | [] => by simp [sortIDs]
  | a :: l => by
    have ih := sortIDs_pairwise l
    simp only [sortIDs, List.foldr_cons] at ih ⊢
    exact insertID_pairwise a _ ih

/-- sorting is invariant under permutation of the input -/
theorem sortIDs_perm {xs ys : List Bytes} (h : xs.Perm ys) : sortIDs xs = sortIDs ys :=
  List.Perm.eq_of_pairwise (fun a b _ _ h1 h2 => bytesLe_antisymm a b h1 h2)
    (sortIDs_pairwise xs) (sortIDs_pairwise ys)
    ((sortIDs_perm_self xs).trans (h.trans (sortIDs_perm_self ys).symm))

end Verif.Proofs.Val
