import Verif.Proofs.BytesBE
import Verif.Model.Val.Hashable
/-! `HashInput` is injective up to `eq` on hashable values other than type values (C18). -/
namespace Verif.Proofs.Val
open Verif.Model.Val Verif.Gen Verif.Proofs.BytesBE

/-! ### the model's encoders are the generic ones -/

theorem natBytesAux_eq (f n : Nat) : natBytesAux f n = minBEAux f n := by
  induction f generalizing n with
  | zero => rfl
  | succ f ih => simp only [natBytesAux, minBEAux, ih]

theorem beVal_natBytesBE (n : Nat) : beVal (natBytesBE n) = n := by
  unfold natBytesBE
  rw [natBytesAux_eq]
  exact beVal_minBEAux _ _ (lt_pow_log2 n)

theorem natBytesFixed_eq (k n : Nat) : natBytesFixed k n = fixedBE k n := by
  induction k generalizing n with
  | zero => rfl
  | succ k ih => simp only [natBytesFixed, fixedBE, ih]

theorem signedBytes_eq (x : Int) : signedBytes x = signedEnc natBytesBE x := by
  unfold signedBytes signedEnc
  split_ifs with h1 h2
  · simp only
    generalize (natBytesBE (-x - 1).toNat).map (fun b => b ^^^ 0xff) = bs
    cases bs with
    | nil => rfl
    | cons b t => by_cases hb : b &&& 0x80 = 0 <;> simp [hb]
  · rfl
  · simp only
    generalize natBytesBE x.toNat = bs
    cases bs with
    | nil => rfl
    | cons b t => by_cases hb : b &&& 0x80 = 0 <;> simp [hb]

theorem signedBytes_inj {x y : Int} (h : signedBytes x = signedBytes y) : x = y := by
  rw [signedBytes_eq, signedBytes_eq] at h
  exact signedEnc_injective natBytesBE beVal_natBytesBE h

theorem beVal_unsignedBytes (x : Int) : beVal (unsignedBytes x) = x.toNat := by
  unfold unsignedBytes
  split_ifs with h
  · subst h; rfl
  · exact beVal_natBytesBE _

theorem unsignedBytes_inj {x y : Int} (hx : 0 ≤ x) (hy : 0 ≤ y) (h : unsignedBytes x = unsignedBytes y) : x = y := by
  have := congrArg beVal h
  rw [beVal_unsignedBytes, beVal_unsignedBytes] at this
  omega

theorem beVal_fixedBytes (len : Nat) (x : Int) : beVal (fixedBytes len x) = (x % (2 ^ (8 * len) : Nat)).toNat := by
  unfold fixedBytes
  rw [natBytesFixed_eq, beVal_fixedBE]
  have e : (256 : Nat) ^ len = 2 ^ (8 * len) := by rw [Nat.pow_mul]
  rw [e]
  apply Nat.mod_eq_of_lt
  have hpos : (0 : Int) < ((2 ^ (8 * len) : Nat) : Int) := by exact_mod_cast Nat.two_pow_pos _
  have := Int.emod_lt_of_pos x hpos
  have := Int.emod_nonneg x (by omega : ((2 ^ (8 * len) : Nat) : Int) ≠ 0)
  omega

/-- two's-complement patterns of `len` bytes tell apart the numbers of any window of width `2^(8 len)` -/
theorem fixedBytes_inj (len : Nat) {x y : Int} (lo : Int) (hx : lo ≤ x ∧ x < lo + (2 ^ (8 * len) : Nat))
    (hy : lo ≤ y ∧ y < lo + (2 ^ (8 * len) : Nat)) (h : fixedBytes len x = fixedBytes len y) : x = y := by
  have := congrArg beVal h
  rw [beVal_fixedBytes, beVal_fixedBytes] at this
  generalize ((2 ^ (8 * len) : Nat) : Int) = M at *
  have hM : 0 < M := by omega
  have h1 := Int.emod_nonneg x (by omega : M ≠ 0)
  have h2 := Int.emod_nonneg y (by omega : M ≠ 0)
  have hmod : x % M = y % M := by omega
  have hd : M ∣ x - y := Int.dvd_of_emod_eq_zero (by rw [Int.sub_emod, hmod]; simp)
  obtain ⟨c, hc⟩ := hd
  have : c = 0 := by
    rcases Int.lt_trichotomy c 0 with h | h | h
    · have : M * c ≤ M * (-1) := Int.mul_le_mul_of_nonneg_left (by omega) (by omega)
      omega
    · exact h
    · have : M * 1 ≤ M * c := Int.mul_le_mul_of_nonneg_left (by omega) (by omega)
      omega
  subst this
  omega

theorem fixedBytes_inj' (len : Nat) {x y : Int} (lo hi : Int) (hw : hi - lo = ((2 ^ (8 * len) : Nat) : Int))
    (hx : lo ≤ x ∧ x < hi) (hy : lo ≤ y ∧ y < hi) (h : fixedBytes len x = fixedBytes len y) : x = y :=
  fixedBytes_inj len lo ⟨hx.1, by omega⟩ ⟨hy.1, by omega⟩ h

theorem inRange_iff (k : NumKind) (n : Int) :
    k.inRange n = true ↔ (∀ l, k.lo = some l → l ≤ n) ∧ (∀ h, k.hi = some h → n < h) := by
  unfold NumKind.inRange
  generalize k.lo = lo
  generalize k.hi = hi
  cases lo <;> cases hi <;> simp

/-- the serialisation of a number after its tag byte determines the number, within its kind's range -/
theorem numBytes_inj (k : NumKind) {x y : Int} (hx : k.inRange x = true) (hy : k.inRange y = true)
    (h : numBytes k x = numBytes k y) : x = y := by
  rw [inRange_iff] at hx hy
  cases k <;> simp only [numBytes, NumKind.enc] at h
  case int | int128 | int256 => exact signedBytes_inj h
  case uint | uint128 | uint256 | word128 | word256 =>
    exact unsignedBytes_inj (hx.1 _ rfl) (hy.1 _ rfl) h
  all_goals
    refine fixedBytes_inj' _ _ _ ?_ ⟨hx.1 _ rfl, hx.2 _ rfl⟩ ⟨hy.1 _ rfl, hy.2 _ rfl⟩ h
    omega

/-! ### tags -/

theorem tagByte_inj {a b : Nat} (ha : a < 256) (hb : b < 256) (h : tagByte a = tagByte b) : a = b := by
  have := congrArg UInt8.toNat h
  simp only [tagByte, UInt8.toNat_ofNat'] at this
  omega

theorem numTag_range (k : NumKind) : 10 ≤ k.tag ∧ k.tag ≤ 47 := by cases k <;> decide

theorem intTag_le (k : NumKind) (h : k.isInteger = true) : k.tag ≤ 32 := by
  cases k <;> first | decide | (simp [NumKind.isInteger] at h)

/-- the kind a tag byte stands for -/
def kindOfTag (t : Nat) : Option NumKind :=
  [NumKind.int, .int8, .int16, .int32, .int64, .int128, .int256, .uint, .uint8, .uint16, .uint32, .uint64,
   .uint128, .uint256, .word8, .word16, .word32, .word64, .word128, .word256, .fix64, .fix128, .ufix64,
   .ufix128].find? (fun k => k.tag == t)

theorem kindOfTag_tag (k : NumKind) : kindOfTag k.tag = some k := by cases k <;> decide

theorem numTag_inj {k k' : NumKind} (h : k.tag = k'.tag) : k = k' := by
  have := kindOfTag_tag k
  rw [h, kindOfTag_tag] at this
  exact (Option.some.inj this).symm

/-- `tid ++ tag :: rest` can be split again when no byte of the ID can be a tag -/
theorem append_tag_inj : ∀ {t1 t2 : List UInt8} {x1 x2 : UInt8} {r1 r2 : List UInt8},
    (∀ c ∈ t1, 32 < c.toNat) → (∀ c ∈ t2, 32 < c.toNat) → x1.toNat ≤ 32 → x2.toNat ≤ 32 →
    t1 ++ x1 :: r1 = t2 ++ x2 :: r2 → t1 = t2 ∧ x1 = x2 ∧ r1 = r2
  | [], [], _, _, _, _, _, _, _, _, h => by
    simp only [List.nil_append, List.cons.injEq] at h; exact ⟨rfl, h.1, h.2⟩
  | [], c :: t2, x1, _, _, _, _, h2, hx1, _, h => by
    simp only [List.nil_append, List.cons_append, List.cons.injEq] at h
    have := h2 c (by simp)
    rw [← h.1] at this; omega
  | c :: t1, [], _, x2, _, _, h1, _, _, hx2, h => by
    simp only [List.nil_append, List.cons_append, List.cons.injEq] at h
    have := h1 c (by simp)
    rw [h.1] at this; omega
  | c :: t1, d :: t2, _, _, _, _, h1, h2, hx1, hx2, h => by
    simp only [List.cons_append, List.cons.injEq] at h
    obtain ⟨e1, e2, e3⟩ := append_tag_inj (fun c hc => h1 c (List.mem_cons_of_mem _ hc))
      (fun c hc => h2 c (List.mem_cons_of_mem _ hc)) hx1 hx2 h.2
    exact ⟨by rw [h.1, e1], e2, e3⟩

theorem tagByte_toNat {n : Nat} (h : n < 256) : (tagByte n).toNat = n := by
  simp only [tagByte, UInt8.toNat_ofNat']; omega

/-! ### injectivity -/

/-- the tag a hashable value starts its hash input with -/
def tagOf : Val → Nat
  | .bool _ => HashTags.tagBool
  | .str _ => HashTags.tagString
  | .char _ => HashTags.tagCharacter
  | .addr _ => HashTags.tagAddress
  | .path _ _ => HashTags.tagPath
  | .num k _ => k.tag
  | .enum _ _ _ => HashTags.tagEnum
  | _ => HashTags.tagType

theorem tagOf_lt (a : Val) : tagOf a < 256 := by
  cases a with
  | num k n => have := numTag_range k; simp only [tagOf]; omega
  | _ => simp only [tagOf]; decide

theorem hashInput_head {a : Val} {bs : Model.Val.Bytes} (h : hashInput a = some bs) : ∃ rest, bs = tagByte (tagOf a) :: rest := by
  cases a <;> simp only [hashInput] at h <;> try (cases h; done)
  all_goals first
    | (cases h; exact ⟨_, rfl⟩)
    | (rename_i t; cases t <;> simp only [hashInput] at h <;> cases h; exact ⟨_, rfl⟩)

local macro "mismatch" htag:ident : tactic => `(tactic|
  (simp [tagOf, HashTags.tagBool, HashTags.tagString, HashTags.tagCharacter, HashTags.tagAddress,
      HashTags.tagPath, HashTags.tagEnum, HashTags.tagType] at $htag:ident; done))

local macro "mismatchNum" htag:ident k:ident : tactic => `(tactic|
  (have := numTag_range $k
   simp [tagOf, HashTags.tagBool, HashTags.tagString, HashTags.tagCharacter, HashTags.tagAddress,
      HashTags.tagPath, HashTags.tagEnum, HashTags.tagType] at $htag:ident
   omega))

/-- **`HashInput` is injective up to `eq`** on well-formed hashable values that are not type values:
equal hash inputs come from equal values (whatever their kinds: the tag byte tells the kind). -/
theorem hash_inj (a b : Val) (wa : a.wf = true) (wb : b.wf = true)
    (pa : a.idPrintable = true) (pb : b.idPrintable = true) (nt : ∀ t, a ≠ .type t)
    (hs : (hashInput a).isSome = true) (h : hashInput a = hashInput b) : eq a b = true := by
  obtain ⟨bs, hbs⟩ := Option.isSome_iff_exists.1 hs
  obtain ⟨r1, e1⟩ := hashInput_head hbs
  obtain ⟨r2, e2⟩ := hashInput_head (h ▸ hbs)
  have htag : tagOf a = tagOf b :=
    tagByte_inj (tagOf_lt a) (tagOf_lt b) (by rw [e1] at e2; exact (List.cons.inj e2).1)
  clear e1 e2 hbs
  cases a with
  | nil => simp [hashInput] at hs
  | some _ => simp [hashInput] at hs
  | arr _ _ => simp [hashInput] at hs
  | dict _ _ => simp [hashInput] at hs
  | type t => exact absurd rfl (nt t)
  | bool x =>
    cases b with
    | bool y => cases x <;> cases y <;> simp [hashInput, eq] at h ⊢
    | num k0 _ => mismatchNum htag k0
    | _ => mismatch htag
  | str x =>
    cases b with
    | str y => simp only [hashInput, Option.some.injEq, List.cons.injEq, true_and] at h; simp [eq, h]
    | num k0 _ => mismatchNum htag k0
    | _ => mismatch htag
  | char x =>
    cases b with
    | char y => simp only [hashInput, Option.some.injEq, List.cons.injEq, true_and] at h; simp [eq, h]
    | num k0 _ => mismatchNum htag k0
    | _ => mismatch htag
  | addr x =>
    cases b with
    | addr y => simp only [hashInput, Option.some.injEq, List.cons.injEq, true_and] at h; simp [eq, h]
    | num k0 _ => mismatchNum htag k0
    | _ => mismatch htag
  | path d i =>
    cases b with
    | path d' i' =>
      simp only [hashInput, Option.some.injEq, List.cons.injEq, true_and] at h
      simp only [Val.wf, decide_eq_true_eq] at wa wb
      have hd : d = d' := by
        have := congrArg UInt8.toNat h.1
        simp only [UInt8.toNat_ofNat'] at this; omega
      simp [eq, hd, h.2]
    | num k0 _ => mismatchNum htag k0
    | _ => mismatch htag
  | num k n =>
    cases b with
    | num k' n' =>
      have hk : k = k' := numTag_inj htag
      subst hk
      simp only [hashInput, Option.some.injEq, List.cons.injEq, true_and] at h
      simp only [Val.wf] at wa wb
      have := numBytes_inj k wa wb h
      simp [eq, this]
    | _ => mismatchNum htag k
  | enum tid k n =>
    cases b with
    | enum tid' k' n' =>
      simp only [hashInput, Option.some.injEq, List.cons.injEq, true_and] at h
      simp only [Val.wf, Bool.and_eq_true] at wa wb
      simp only [Val.idPrintable, List.all_eq_true, decide_eq_true_eq] at pa pb
      have l1 := intTag_le k wa.1
      have l2 := intTag_le k' wb.1
      obtain ⟨e1, e2, e3⟩ := append_tag_inj pa pb (by rw [tagByte_toNat (by omega)]; exact l1)
        (by rw [tagByte_toNat (by omega)]; exact l2) h
      have hk : k = k' := numTag_inj (tagByte_inj (by omega) (by omega) e2)
      subst hk
      have := numBytes_inj k wa.2 wb.2 e3
      simp [eq, e1, this]
    | num k0 _ => mismatchNum htag k0
    | _ => mismatch htag

end Verif.Proofs.Val
