import Verif.Proofs.Val.Order
import Batteries.Data.List.Perm
/-! Lemmas about `STy.equal` / `STy.id` / `Auth` (C18). -/
namespace Verif.Proofs.Val
open Verif.Model.Val

/-- the member test of `IntersectionStaticType.Equal` / `EntitlementSetAuthorization.Equal` -/
theorem all_any_iff (xs ys : List Bytes) :
    (xs.all fun x => ys.any fun y => y == x) = true ↔ xs ⊆ ys := by
  simp only [List.all_eq_true, List.any_eq_true, beq_iff_eq]
  constructor
  · intro h x hx; obtain ⟨y, hy, e⟩ := h x hx; exact e ▸ hy
  · intro h x hx; exact ⟨x, h hx, rfl⟩

theorem all_contains_iff (xs ys : List Bytes) :
    (ys.all fun e => xs.contains e) = true ↔ ys ⊆ xs := by
  simp only [List.all_eq_true, List.contains_iff_mem]
  exact Iff.rfl

/-- equal length + inclusion + no duplicates ⇒ permutation -/
theorem perm_of_subset_length {xs ys : List Bytes} (nd : xs.Nodup) (sub : xs ⊆ ys)
    (len : xs.length = ys.length) : xs.Perm ys :=
  (List.subperm_of_subset nd sub).perm_of_length_le (by omega)

theorem Auth.equal_refl (a : Auth) : a.equal a = true := by
  cases a with
  | unauth => rfl
  | map i => simp [Auth.equal]
  | set d ids => simp [Auth.equal]

theorem Auth.equal_perm {a b : Auth} (wa : a.wf = true) (wb : b.wf = true) (h : a.equal b = true) :
    (a = b) ∨ (∃ d xs ys, a = .set d xs ∧ b = .set d ys ∧ xs.Perm ys) := by
  cases a <;> cases b <;> simp [Auth.equal] at h
  · exact .inl rfl
  · rename_i d xs d' ys
    simp [Auth.wf] at wa wb
    obtain ⟨hd, hl, hs⟩ := h
    subst hd
    refine .inr ⟨d, xs, ys, rfl, rfl, ?_⟩
    have sub : ys ⊆ xs := fun e he => hs e he
    exact (perm_of_subset_length wb sub hl).symm
  · exact .inl (by rw [h])

theorem Auth.equal_symm {a b : Auth} (wa : a.wf = true) (wb : b.wf = true) (h : a.equal b = true) :
    b.equal a = true := by
  rcases Auth.equal_perm wa wb h with e | ⟨d, xs, ys, rfl, rfl, p⟩
  · subst e; exact Auth.equal_refl _
  · simp [Auth.equal, p.length_eq]
    intro e he; exact p.mem_iff.1 he

theorem Auth.equal_trans {a b c : Auth} (wa : a.wf = true) (wb : b.wf = true) (wc : c.wf = true)
    (h1 : a.equal b = true) (h2 : b.equal c = true) : a.equal c = true := by
  rcases Auth.equal_perm wa wb h1 with e | ⟨d, xs, ys, rfl, rfl, p⟩
  · subst e; exact h2
  · rcases Auth.equal_perm wb wc h2 with e | ⟨d', ys', zs, e1, rfl, q⟩
    · subst e; exact h1
    · cases e1
      simp [Auth.equal, (p.trans q).length_eq]
      intro e he; exact (p.trans q).mem_iff.2 he

theorem Auth.id_of_equal {a b : Auth} (wa : a.wf = true) (wb : b.wf = true) (h : a.equal b = true) :
    a.id = b.id ∧ (a = .unauth ↔ b = .unauth) := by
  rcases Auth.equal_perm wa wb h with e | ⟨d, xs, ys, rfl, rfl, p⟩
  · subst e; exact ⟨rfl, Iff.rfl⟩
  · simp [Auth.id, formatEntitlementSet, sortIDs_perm p]

theorem interID_perm {xs ys : List Bytes} (p : xs.Perm ys) : interID xs = interID ys := by
  unfold interID
  match xs, ys, p with
  | [x], ys, p =>
    have := List.singleton_perm.mp p  -- [x] ~ ys ↔ ys = [x]
    subst this; rfl
  | [], ys, p => have := p.symm.eq_nil; subst this; rfl
  | x :: y :: xs, ys, p =>
    match ys, p with
    | [], p => exact absurd p.eq_nil (by simp)
    | [z], p => exact absurd p.length_eq (by simp)
    | z :: w :: zs, p => simp only [sortIDs_perm p]

theorem STy.equal_refl : ∀ (t : STy), t.equal t = true
  | .prim _ | .comp _ | .iface _ | .cap0 => by simp [STy.equal]
  | .opt t | .varr t | .cap t | .range t => by simp [STy.equal, STy.equal_refl t]
  | .carr n t => by simp [STy.equal, STy.equal_refl t]
  | .dict k v => by simp [STy.equal, STy.equal_refl k, STy.equal_refl v]
  | .inter xs => by
    simp only [STy.equal, bne_self_eq_false, Bool.false_eq_true, if_false]
    exact (all_any_iff xs xs).2 (fun _ h => h)
  | .ref a t => by simp [STy.equal, STy.equal_refl t, Auth.equal_refl]

/-- on well-formed types `Equal` implies equal IDs -/
theorem STy.id_of_equal : ∀ (s t : STy), s.wf = true → t.wf = true → s.equal t = true → s.id = t.id := by
  intro s
  induction s with
  | prim a => intro t _ _ h; cases t <;> simp [STy.equal] at h; simp [STy.id, h]
  | comp a => intro t _ _ h; cases t <;> simp [STy.equal] at h; simp [STy.id, h]
  | iface a => intro t _ _ h; cases t <;> simp [STy.equal] at h; simp [STy.id, h]
  | cap0 => intro t _ _ h; cases t <;> simp [STy.equal] at h; rfl
  | opt s ih => intro t ws wt h; cases t <;> simp [STy.equal] at h; simp [STy.wf] at ws wt; simp [STy.id, ih _ ws wt h]
  | varr s ih => intro t ws wt h; cases t <;> simp [STy.equal] at h; simp [STy.wf] at ws wt; simp [STy.id, ih _ ws wt h]
  | cap s ih => intro t ws wt h; cases t <;> simp [STy.equal] at h; simp [STy.wf] at ws wt; simp [STy.id, ih _ ws wt h]
  | range s ih => intro t ws wt h; cases t <;> simp [STy.equal] at h; simp [STy.wf] at ws wt; simp [STy.id, ih _ ws wt h]
  | carr n s ih =>
    intro t ws wt h; cases t <;> simp [STy.equal] at h; simp [STy.wf] at ws wt
    simp [STy.id, ih _ ws wt h.2, h.1]
  | dict k v ihk ihv =>
    intro t ws wt h; cases t <;> simp [STy.equal] at h; simp [STy.wf] at ws wt
    simp [STy.id, ihk _ ws.1 wt.1 h.1, ihv _ ws.2 wt.2 h.2]
  | inter xs =>
    intro t ws wt h; cases t <;> simp only [STy.equal, Bool.false_eq_true] at h
    rename_i ys
    simp [STy.wf] at ws
    split at h
    · exact absurd h (by simp)
    · rename_i hl
      have hl : xs.length = ys.length := by simpa using hl
      have p := perm_of_subset_length ws ((all_any_iff xs ys).1 h) hl
      simp [STy.id, interID_perm p]
  | ref a s ih =>
    intro t ws wt h; cases t <;> simp [STy.equal] at h; simp [STy.wf] at ws wt
    rename_i a' t'
    have ⟨e1, e2⟩ := Auth.id_of_equal ws.1 wt.1 h.1
    have e3 := ih _ ws.2 wt.2 h.2
    simp only [STy.id, e3]
    congr 1
    cases a <;> cases a' <;> simp_all

theorem STy.equal_symm : ∀ (s t : STy), s.wf = true → t.wf = true → s.equal t = true → t.equal s = true := by
  intro s
  induction s with
  | prim a => intro t _ _ h; cases t <;> simp [STy.equal] at h; simp [STy.equal, h]
  | comp a => intro t _ _ h; cases t <;> simp [STy.equal] at h; simp [STy.equal, h]
  | iface a => intro t _ _ h; cases t <;> simp [STy.equal] at h; simp [STy.equal, h]
  | cap0 => intro t _ _ h; cases t <;> simp [STy.equal] at h; rfl
  | opt s ih => intro t ws wt h; cases t <;> simp [STy.equal] at h; simp [STy.wf] at ws wt; simp [STy.equal, ih _ ws wt h]
  | varr s ih => intro t ws wt h; cases t <;> simp [STy.equal] at h; simp [STy.wf] at ws wt; simp [STy.equal, ih _ ws wt h]
  | cap s ih => intro t ws wt h; cases t <;> simp [STy.equal] at h; simp [STy.wf] at ws wt; simp [STy.equal, ih _ ws wt h]
  | range s ih => intro t ws wt h; cases t <;> simp [STy.equal] at h; simp [STy.wf] at ws wt; simp [STy.equal, ih _ ws wt h]
  | carr n s ih =>
    intro t ws wt h; cases t <;> simp [STy.equal] at h; simp [STy.wf] at ws wt
    simp [STy.equal, ih _ ws wt h.2, h.1]
  | dict k v ihk ihv =>
    intro t ws wt h; cases t <;> simp [STy.equal] at h; simp [STy.wf] at ws wt
    simp [STy.equal, ihk _ ws.1 wt.1 h.1, ihv _ ws.2 wt.2 h.2]
  | inter xs =>
    intro t ws wt h; cases t <;> simp only [STy.equal, Bool.false_eq_true] at h
    rename_i ys
    simp [STy.wf] at ws
    split at h
    · exact absurd h (by simp)
    · rename_i hl
      have hl : xs.length = ys.length := by simpa using hl
      have p := perm_of_subset_length ws ((all_any_iff xs ys).1 h) hl
      simp only [STy.equal, hl, bne_self_eq_false, Bool.false_eq_true, if_false]
      exact (all_any_iff ys xs).2 (fun e he => p.mem_iff.2 he)
  | ref a s ih =>
    intro t ws wt h; cases t <;> simp [STy.equal] at h; simp [STy.wf] at ws wt
    simp [STy.equal, ih _ ws.2 wt.2 h.2, Auth.equal_symm ws.1 wt.1 h.1]

theorem STy.equal_trans : ∀ (s t u : STy), s.wf = true → t.wf = true → u.wf = true →
    s.equal t = true → t.equal u = true → s.equal u = true := by
  intro s
  induction s with
  | prim a => intro t u _ _ _ h1 h2; cases t <;> simp [STy.equal] at h1; cases u <;> simp [STy.equal] at h2; simp [STy.equal, h1, h2]
  | comp a => intro t u _ _ _ h1 h2; cases t <;> simp [STy.equal] at h1; cases u <;> simp [STy.equal] at h2; simp [STy.equal, h1, h2]
  | iface a => intro t u _ _ _ h1 h2; cases t <;> simp [STy.equal] at h1; cases u <;> simp [STy.equal] at h2; simp [STy.equal, h1, h2]
  | cap0 => intro t u _ _ _ h1 h2; cases t <;> simp [STy.equal] at h1; cases u <;> simp [STy.equal] at h2; rfl
  | opt s ih =>
    intro t u ws wt wu h1 h2; cases t <;> simp [STy.equal] at h1; cases u <;> simp [STy.equal] at h2
    simp [STy.wf] at ws wt wu; simp [STy.equal, ih _ _ ws wt wu h1 h2]
  | varr s ih =>
    intro t u ws wt wu h1 h2; cases t <;> simp [STy.equal] at h1; cases u <;> simp [STy.equal] at h2
    simp [STy.wf] at ws wt wu; simp [STy.equal, ih _ _ ws wt wu h1 h2]
  | cap s ih =>
    intro t u ws wt wu h1 h2; cases t <;> simp [STy.equal] at h1; cases u <;> simp [STy.equal] at h2
    simp [STy.wf] at ws wt wu; simp [STy.equal, ih _ _ ws wt wu h1 h2]
  | range s ih =>
    intro t u ws wt wu h1 h2; cases t <;> simp [STy.equal] at h1; cases u <;> simp [STy.equal] at h2
    simp [STy.wf] at ws wt wu; simp [STy.equal, ih _ _ ws wt wu h1 h2]
  | carr n s ih =>
    intro t u ws wt wu h1 h2; cases t <;> simp [STy.equal] at h1; cases u <;> simp [STy.equal] at h2
    simp [STy.wf] at ws wt wu; simp [STy.equal, ih _ _ ws wt wu h1.2 h2.2, h1.1, h2.1]
  | dict k v ihk ihv =>
    intro t u ws wt wu h1 h2; cases t <;> simp [STy.equal] at h1; cases u <;> simp [STy.equal] at h2
    simp [STy.wf] at ws wt wu
    simp [STy.equal, ihk _ _ ws.1 wt.1 wu.1 h1.1 h2.1, ihv _ _ ws.2 wt.2 wu.2 h1.2 h2.2]
  | inter xs =>
    intro t u ws wt wu h1 h2
    cases t <;> simp only [STy.equal, Bool.false_eq_true] at h1
    cases u <;> simp only [STy.equal, Bool.false_eq_true] at h2
    rename_i ys zs
    split at h1
    · exact absurd h1 (by simp)
    · split at h2
      · exact absurd h2 (by simp)
      · rename_i l1 l2
        have l1 : xs.length = ys.length := by simpa using l1
        have l2 : ys.length = zs.length := by simpa using l2
        simp only [STy.equal, l1.trans l2, bne_self_eq_false, Bool.false_eq_true, if_false]
        exact (all_any_iff xs zs).2 (fun e he => (all_any_iff ys zs).1 h2 ((all_any_iff xs ys).1 h1 he))
  | ref a s ih =>
    intro t u ws wt wu h1 h2; cases t <;> simp [STy.equal] at h1; cases u <;> simp [STy.equal] at h2
    simp [STy.wf] at ws wt wu
    simp [STy.equal, ih _ _ ws.2 wt.2 wu.2 h1.2 h2.2, Auth.equal_trans ws.1 wt.1 wu.1 h1.1 h2.1]

end Verif.Proofs.Val
