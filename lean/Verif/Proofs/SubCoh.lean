/-
C08 helper lemmas: the executable hypothesis checks of `Model/Types/CoherentB.lean` imply the Prop-valued
hypotheses `Coh`, `nomOK`, `authOK`, `Good`.
-/
import Verif.Model.Types.CoherentB
namespace Verif.Proofs.SubCoh
open Verif.Model.Types Verif.Model.Auth

theorem coh_of_cohB (D : List Iface) (h : cohB D = true) : Coh D := by
  simp only [cohB, Bool.and_eq_true, List.all_eq_true, List.any_eq_true, Bool.or_eq_true, bne_iff_ne, ne_eq,
    beq_iff_eq, List.contains_iff_mem] at h
  obtain ⟨⟨h1, h2⟩, h3⟩ := h
  refine ⟨fun i hi j hj hn => ?_, fun i hi x hx => ?_, h3⟩
  · rcases h1 i hi j hj with h | h
    · exact absurd hn h
    · exact h
  · obtain ⟨j, hj, ⟨hjn, hjk⟩, hjc⟩ := h2 i hi x hx
    exact ⟨j, hj, hjn, hjk, hjc⟩

theorem nomOK_of_b (D : List Iface) : ∀ t : Ty, nomOKb D t = true → nomOK D t := by
  intro t
  induction t with
  | iface i => intro h; simpa [nomOKb, nomOK] using h
  | inter is =>
    intro h
    simp only [nomOKb, Bool.and_eq_true, Bool.not_eq_true', List.all_eq_true, beq_iff_eq, List.contains_iff_mem] at h
    refine ⟨fun he => by simp [he] at h, fun i hi => ⟨(h.2 i hi).1, fun j hj => (h.2 i hi).2 j hj⟩⟩
  | comp n k cs b =>
    intro h
    simp only [nomOKb, Bool.and_eq_true, List.all_eq_true, List.any_eq_true, beq_iff_eq, List.contains_iff_mem] at h
    intro x hx
    obtain ⟨j, hj, ⟨hjn, hjk⟩, hjc⟩ := h x hx
    exact ⟨j, hj, hjn, hjk, hjc⟩
  | opt t ih => intro h; exact ih h
  | varArr t ih => intro h; exact ih h
  | constArr t _ ih => intro h; exact ih h
  | ref _ t ih => intro h; exact ih h
  | cap t ih => intro h; exact ih h
  | range t ih => intro h; exact ih h
  | dict k v ihk ihv => intro h; simp only [nomOKb, Bool.and_eq_true] at h; exact ⟨ihk h.1, ihv h.2⟩
  | fn _ p r ihp ihr => intro h; simp only [nomOKb, Bool.and_eq_true] at h; exact ⟨ihp h.1, ihr h.2⟩
  | consT t r iht ihr => intro h; simp only [nomOKb, Bool.and_eq_true] at h; exact ⟨iht h.1, ihr h.2⟩
  | prim => intro _; trivial
  | nilT => intro _; trivial
  | capAny => intro _; trivial

theorem isAuth_of_b (a : Access String) (h : isAuthB a = true) : Verif.Spec.Auth.IsAuth a := by
  cases a with
  | prim p => simpa [isAuthB, Verif.Spec.Auth.IsAuth] using h
  | set k es => simp [isAuthB] at h; simpa [Verif.Spec.Auth.IsAuth] using h
  | map m => simp [isAuthB] at h

theorem authOK_of_b : ∀ t : Ty, authOKb t = true → authOK t := by
  intro t
  induction t with
  | ref a t ih => intro h; simp only [authOKb, Bool.and_eq_true] at h; exact ⟨isAuth_of_b a h.1, ih h.2⟩
  | opt t ih => intro h; exact ih h
  | varArr t ih => intro h; exact ih h
  | constArr t _ ih => intro h; exact ih h
  | cap t ih => intro h; exact ih h
  | range t ih => intro h; exact ih h
  | dict k v ihk ihv => intro h; simp only [authOKb, Bool.and_eq_true] at h; exact ⟨ihk h.1, ihv h.2⟩
  | fn _ p r ihp ihr => intro h; simp only [authOKb, Bool.and_eq_true] at h; exact ⟨ihp h.1, ihr h.2⟩
  | consT t r iht ihr => intro h; simp only [authOKb, Bool.and_eq_true] at h; exact ⟨iht h.1, ihr h.2⟩
  | prim => intro _; trivial
  | nilT => intro _; trivial
  | capAny => intro _; trivial
  | comp => intro _; trivial
  | iface => intro _; trivial
  | inter => intro _; trivial

theorem good_of_b (D : List Iface) (t : Ty) (h : goodB D t = true) : Good D t := by
  simp only [goodB, Bool.and_eq_true] at h
  exact ⟨h.1.1.1, h.1.1.2, nomOK_of_b D t h.1.2, authOK_of_b t h.2⟩

end Verif.Proofs.SubCoh
