import Verif.Proofs.Text
import Verif.Proofs.BytesBE
/-! C17: `fromBigEndianBytes (toBigEndianBytes x) = x` for the types that are not read through
`padWithZeroes`: `Int`, `UInt` (minimal encodings) and the 128/256-bit integers and words. -/
namespace Verif.Proofs.Text
open Verif.Model.NumT Verif.Model.Text Verif.Proofs.BytesBE

theorem ofBeBytes_eq (b : List UInt8) : ofBeBytes b = beVal b := rfl

theorem beBytes_eq (k n : Nat) : beBytes k n = fixedBE k n := by
  induction k generalizing n with
  | zero => rfl
  | succ k ih => simp only [beBytes, fixedBE, ih]

theorem beVal_minBytes (n : Nat) : beVal (minBytes n) = n := by
  induction n using Nat.strongRecOn with
  | _ n ih =>
    rw [minBytes]
    split
    · rename_i h; subst h; rfl
    · rename_i h
      rw [beVal_append_singleton, ih (n / 256) (by omega), ofNat_toNat_mod]
      omega

theorem bytesToSigned_eq (b : List UInt8) : bytesToSigned b = signedDec b := rfl

theorem roundtrip_int (x : Int) : fromBigEndianBytes .int (toBigEndianBytes .int x) = some x := by
  have e : toBigEndianBytes .int x = signedEnc minBytes x := rfl
  have d : ∀ b, fromBigEndianBytes .int b = some (signedDec b) := fun b => rfl
  rw [e, d, signedDec_signedEnc minBytes beVal_minBytes]

theorem roundtrip_uint (x : Int) (h : 0 ≤ x) : fromBigEndianBytes .uint (toBigEndianBytes .uint x) = some x := by
  have d : ∀ b, fromBigEndianBytes .uint b = some ((beVal b : Nat) : Int) := fun b => rfl
  have e : toBigEndianBytes .uint x = if x = 0 then [0] else minBytes x.toNat := rfl
  rw [d, e]
  split
  · rename_i h0; subst h0; rfl
  · rw [beVal_minBytes]; congr 1; omega

/-- unsigned 128/256-bit types: fixed width out, plain magnitude in -/
theorem roundtrip_ubig (t : NumTy) (k : Nat) (hk : t.byteSize = k) (hbits : t.bits = 8 * k) (hb : t.bits ≠ 0)
    (hbig : t.bits > 64 ∧ t.fixed = false) (hs : t.signed = false) (x : Int)
    (h0 : 0 ≤ x) (h1 : x < (2 : Int) ^ (8 * k)) :
    fromBigEndianBytes t (toBigEndianBytes t x) = some x := by
  unfold fromBigEndianBytes toBigEndianBytes
  rw [if_pos hb, beBytes_eq, hk, hbits]
  have hlen := fixedBE_length k (x % (2 : Int) ^ (8 * k)).toNat
  rw [if_neg (by rw [hlen]; omega), if_pos (Or.inr ⟨by omega, by simp [hbig.2]⟩), hs]
  simp only [Bool.false_eq_true, if_false, ofBeBytes_eq, beVal_fixedBE]
  have e : (256 : Nat) ^ k = 2 ^ (8 * k) := by rw [Nat.pow_mul]
  rw [e]
  have hx : x % (2 : Int) ^ (8 * k) = x := Int.emod_eq_of_lt h0 h1
  rw [hx]
  have : (x.toNat % 2 ^ (8 * k) : Nat) = x.toNat := by
    apply Nat.mod_eq_of_lt
    have : ((x.toNat : Nat) : Int) < ((2 ^ (8 * k) : Nat) : Int) := by
      rw [Int.toNat_of_nonneg h0]; exact_mod_cast h1
    exact_mod_cast this
  rw [this, Int.toNat_of_nonneg h0]

/-- signed 128/256-bit types: fixed-width two's complement out, signed reading in -/
theorem roundtrip_sbig (t : NumTy) (k : Nat) (hk : t.byteSize = k) (hbits : t.bits = 8 * k) (hk0 : 0 < k)
    (hbig : t.bits > 64 ∧ t.fixed = false) (hs : t.signed = true) (x : Int)
    (h0 : -(2 : Int) ^ (8 * k - 1) ≤ x) (h1 : x < (2 : Int) ^ (8 * k - 1)) :
    fromBigEndianBytes t (toBigEndianBytes t x) = some x := by
  unfold fromBigEndianBytes toBigEndianBytes
  have hb : t.bits ≠ 0 := by omega
  rw [if_pos hb, beBytes_eq, hk, hbits]
  have hlen := fixedBE_length k (x % (2 : Int) ^ (8 * k)).toNat
  rw [if_neg (by rw [hlen]; omega), if_pos (Or.inr ⟨by omega, by simp [hbig.2]⟩), hs]
  simp only [if_true, bytesToSigned_eq]
  have hne : fixedBE k (x % (2 : Int) ^ (8 * k)).toNat ≠ [] := by
    intro hnil; rw [hnil] at hlen; simp at hlen; omega
  rw [signedDec_eq _ hne, hlen, beVal_fixedBE]
  have e : (256 : Nat) ^ k = 2 ^ (8 * k) := by rw [Nat.pow_mul]
  rw [e]
  -- M = 2^(8k), H = 2^(8k-1), M = 2H
  have hM : (2 : Int) ^ (8 * k) = 2 * (2 : Int) ^ (8 * k - 1) := by
    have : 8 * k = (8 * k - 1) + 1 := by omega
    conv => lhs; rw [this, Int.pow_succ]
    omega
  have hMn : ((2 ^ (8 * k) : Nat) : Int) = (2 : Int) ^ (8 * k) := by push_cast; rfl
  have hHpos : (0 : Int) < (2 : Int) ^ (8 * k - 1) := Int.pow_pos (by omega)
  generalize hH : (2 : Int) ^ (8 * k - 1) = H at *
  have hmod_nonneg := Int.emod_nonneg x (show (2 : Int) ^ (8 * k) ≠ 0 by omega)
  have hmod_lt := Int.emod_lt_of_pos x (show (0 : Int) < (2 : Int) ^ (8 * k) by omega)
  have hidem : ((x % (2 : Int) ^ (8 * k)).toNat % 2 ^ (8 * k) : Nat) = (x % (2 : Int) ^ (8 * k)).toNat := by
    apply Nat.mod_eq_of_lt
    have : (((x % (2 : Int) ^ (8 * k)).toNat : Nat) : Int) < ((2 ^ (8 * k) : Nat) : Int) := by
      rw [Int.toNat_of_nonneg hmod_nonneg, hMn]; exact hmod_lt
    exact_mod_cast this
  rw [hidem]
  have hcast : (((x % (2 : Int) ^ (8 * k)).toNat : Nat) : Int) = x % (2 : Int) ^ (8 * k) :=
    Int.toNat_of_nonneg hmod_nonneg
  by_cases hx : 0 ≤ x
  · have hxm : x % (2 : Int) ^ (8 * k) = x := Int.emod_eq_of_lt hx (by omega)
    have hcond : ¬ (2 ^ (8 * k) ≤ 2 * (x % (2 : Int) ^ (8 * k)).toNat) := by
      intro hc
      have : ((2 ^ (8 * k) : Nat) : Int) ≤ ((2 * (x % (2 : Int) ^ (8 * k)).toNat : Nat) : Int) := by exact_mod_cast hc
      rw [hMn] at this; push_cast at this; rw [hcast, hxm] at this; omega
    rw [if_neg hcond, hcast, hxm]
  · have hxm : x % (2 : Int) ^ (8 * k) = x + (2 : Int) ^ (8 * k) := by
      have : (x + (2 : Int) ^ (8 * k)) % (2 : Int) ^ (8 * k) = x + (2 : Int) ^ (8 * k) :=
        Int.emod_eq_of_lt (by omega) (by omega)
      rw [← this, Int.add_emod_right]
    have hcond : (2 ^ (8 * k) ≤ 2 * (x % (2 : Int) ^ (8 * k)).toNat) := by
      have : ((2 ^ (8 * k) : Nat) : Int) ≤ ((2 * (x % (2 : Int) ^ (8 * k)).toNat : Nat) : Int) := by
        rw [hMn]; push_cast; rw [hcast, hxm]; omega
      exact_mod_cast this
    rw [if_pos hcond, hcast, hxm, hMn]
    congr 1; omega

end Verif.Proofs.Text
