import Verif.Model.Metered
/-! Helper lemmas for C30.  Core only. -/
namespace Verif.Proofs.Metered
open Verif.Model.Metered

variable {σ : Type}

/-- potential argument: `K·remaining + μ s + 1` steps always suffice, `K = c + 1` -/
theorem exec_terminates (step : σ → Step σ) (c : Nat) (μ : σ → Nat) (hd : Disciplined step c μ) :
    ∀ fuel s remaining, (c + 1) * remaining + μ s + 1 ≤ fuel →
      ∃ o n, exec step fuel s remaining = some (o, n) ∧ n ≤ (c + 1) * remaining + μ s + 1 := by
  intro fuel
  induction fuel with
  | zero => intro s remaining h; omega
  | succ fuel ih =>
    intro s remaining h
    unfold exec
    cases hs : step s with
    | halt ok =>
      cases ok
      · exact ⟨.userError, 1, rfl, by omega⟩
      · exact ⟨.ok, 1, rfl, by omega⟩
    | uncharged s' =>
      have hlt := hd.uncharged_decreases s s' hs
      obtain ⟨o, n, he, hn⟩ := ih s' remaining (by omega)
      exact ⟨o, n + 1, by simp [he], by omega⟩
    | charged cost s' =>
      have hpos := hd.charged_positive s cost s' hs
      have hb := hd.bounded s'
      by_cases hc : cost > remaining
      · exact ⟨.limitError, 1, by simp [hc], by omega⟩
      · have hle : remaining - cost + 1 ≤ remaining := by omega
        have hm : (c + 1) * (remaining - cost + 1) ≤ (c + 1) * remaining := Nat.mul_le_mul_left _ hle
        have hexp : (c + 1) * (remaining - cost + 1) = (c + 1) * (remaining - cost) + (c + 1) := by
          rw [Nat.mul_succ]
        obtain ⟨o, n, he, hn⟩ := ih s' (remaining - cost) (by omega)
        exact ⟨o, n + 1, by simp [hc, he], by omega⟩

theorem depthRun_le (limit : Nat) : ∀ es d, d ≤ limit → ∀ d', depthRun (interpCall limit) es d = some d' → d' ≤ limit := by
  intro es
  induction es with
  | nil => intro d h d' he; simp [depthRun] at he; omega
  | cons e es ih =>
    intro d h d' he
    cases e with
    | call =>
      simp only [depthRun, interpCall] at he
      by_cases hc : d + 1 > limit
      · simp [hc] at he
      · simp [hc] at he; exact ih (d + 1) (by omega) d' he
    | ret => simp only [depthRun] at he; exact ih (d - 1) (by omega) d' he
    | other => simp only [depthRun] at he; exact ih d h d' he

theorem depthRun_calls (limit : Nat) : ∀ n d, d ≤ limit →
    depthRun (interpCall limit) (List.replicate n Ev.call) d = if d + n ≤ limit then some (d + n) else none := by
  intro n
  induction n with
  | zero => intro d h; simp [depthRun, h]
  | succ n ih =>
    intro d h
    simp only [List.replicate_succ, depthRun, interpCall]
    by_cases hc : d + 1 > limit
    · have : ¬ (d + (n + 1) ≤ limit) := by omega
      simp [hc, this]
    · simp only [hc, if_false]
      rw [ih (d + 1) (by omega)]
      have : (d + 1 + n ≤ limit) ↔ (d + (n + 1) ≤ limit) := by omega
      by_cases h2 : d + (n + 1) ≤ limit
      · simp [h2, this.mpr h2]; omega
      · have h3 : ¬ (d + 1 + n ≤ limit) := fun h => h2 (this.mp h)
        simp [h2, h3]

theorem depthRun_calls_vm (limit : Nat) : ∀ n d, d ≤ limit →
    depthRun (vmCall limit) (List.replicate n Ev.call) d = if d + n ≤ limit then some (d + n) else none := by
  intro n
  induction n with
  | zero => intro d h; simp [depthRun, h]
  | succ n ih =>
    intro d h
    by_cases hc : d = limit
    · have h2 : ¬ (d + (n + 1) ≤ limit) := by omega
      have hv : vmCall limit d = none := by simp [vmCall, hc]
      simp only [List.replicate_succ, depthRun, hv, h2, if_false]
    · have hv : vmCall limit d = some (d + 1) := by simp [vmCall, hc]
      simp only [List.replicate_succ, depthRun, hv]
      rw [ih (d + 1) (by omega)]
      have : (d + 1 + n ≤ limit) ↔ (d + (n + 1) ≤ limit) := by omega
      by_cases h2 : d + (n + 1) ≤ limit
      · simp [h2, this.mpr h2]; omega
      · have h3 : ¬ (d + 1 + n ≤ limit) := fun h => h2 (this.mp h)
        simp [h2, h3]

theorem depthRun_append (call : Nat → Option Nat) : ∀ (es fs : List Ev) (d : Nat),
    depthRun call (es ++ fs) d = (depthRun call es d).bind (depthRun call fs) := by
  intro es
  induction es with
  | nil => intro fs d; simp [depthRun]
  | cons e es ih =>
    intro fs d
    cases e with
    | call =>
      simp only [List.cons_append, depthRun]
      cases call d with
      | none => simp
      | some d' => simp [ih]
    | ret => simp only [List.cons_append, depthRun]; exact ih fs (d - 1)
    | other => simp only [List.cons_append, depthRun]; exact ih fs d

/-- `k` sequential counted invocations from depth `d`: back at `d` when one more level fits, the call-depth
error (if there is any invocation at all) when it does not — whatever `k` is -/
theorem depthRun_seq_interp (limit d : Nat) : ∀ k,
    depthRun (interpCall limit) (List.replicate k seqCounted).flatten d =
      if k = 0 ∨ d + 1 ≤ limit then some d else none := by
  intro k
  induction k with
  | zero => simp [depthRun]
  | succ k ih =>
    simp only [List.replicate_succ, List.flatten_cons, seqCounted, List.cons_append, List.nil_append, depthRun,
      interpCall]
    by_cases hc : d + 1 > limit
    · have : ¬ (d + 1 ≤ limit) := by omega
      simp [hc, this]
    · have h2 : d + 1 ≤ limit := by omega
      simp only [hc, if_false, Nat.add_sub_cancel]
      have := ih
      simp only [seqCounted] at this
      rw [this]; simp [h2]

theorem depthRun_seq_vm (limit d : Nat) (hd : d ≤ limit) : ∀ k,
    depthRun (vmCall limit) (List.replicate k seqCounted).flatten d =
      if k = 0 ∨ d + 1 ≤ limit then some d else none := by
  intro k
  induction k with
  | zero => simp [depthRun]
  | succ k ih =>
    simp only [List.replicate_succ, List.flatten_cons, seqCounted, List.cons_append, List.nil_append, depthRun]
    by_cases hc : d = limit
    · have : ¬ (d + 1 ≤ limit) := by omega
      have hv : vmCall limit d = none := by simp [vmCall, hc]
      simp [hv, this]
    · have h2 : d + 1 ≤ limit := by omega
      have hv : vmCall limit d = some (d + 1) := by simp [vmCall, hc]
      simp only [hv, Nat.add_sub_cancel]
      have := ih
      simp only [seqCounted] at this
      rw [this]; simp [h2]

theorem depthRun_uncounted (call : Nat → Option Nat) (d : Nat) : ∀ k,
    depthRun call (List.replicate k seqUncounted).flatten d = some d := by
  intro k
  induction k with
  | zero => simp [depthRun]
  | succ k ih =>
    simp only [List.replicate_succ, List.flatten_cons, seqUncounted, List.cons_append, List.nil_append, depthRun]
    simpa [seqUncounted] using ih

theorem depthRun_destroyEv_vm (limit d : Nat) (hd : d + 2 ≤ limit) : ∀ k,
    depthRun (vmCall limit) (List.replicate k destroyEvVM).flatten d = some d := by
  intro k
  induction k with
  | zero => simp [depthRun]
  | succ k ih =>
    have h1 : vmCall limit d = some (d + 1) := by
      have : d ≠ limit := by omega
      simp [vmCall, this]
    have h2 : vmCall limit (d + 1) = some (d + 1 + 1) := by
      have : d + 1 ≠ limit := by omega
      simp [vmCall, this]
    simp only [List.replicate_succ, List.flatten_cons, destroyEvVM, List.cons_append, List.nil_append, depthRun,
      h1, h2, Nat.add_sub_cancel]
    simpa [destroyEvVM] using ih

end Verif.Proofs.Metered
