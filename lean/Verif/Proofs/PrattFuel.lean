import Verif.Model.Front.Pratt
/-!
C38 — the fuel of the parser port is an artefact: more fuel never changes a result.
-/
namespace Verif.Proofs.PrattFuel
open Verif.Model.Front.Syn

theorem map_mono {α β : Type} {p q : Option α} {g : α → β} {r : β}
    (hm : ∀ x, p = some x → q = some x) (h : p.map g = some r) : q.map g = some r := by
  cases hp : p with
  | none => simp [hp] at h
  | some x => rw [hm x hp]; simpa [hp] using h

theorem bind_mono {α β : Type} {p q : Option α} {k k' : α → Option β} {r : β}
    (hm : ∀ x, p = some x → q = some x) (hk : ∀ x, k x = some r → k' x = some r)
    (h : p.bind k = some r) : q.bind k' = some r := by
  cases hp : p with
  | none => simp [hp] at h
  | some x => rw [hm x hp]; simp only [hp, Option.bind_some] at h ⊢; exact hk x h

theorem parseNominalRest_mono : ∀ f acc ts r, parseNominalRest f acc ts = some r →
    parseNominalRest (f + 1) acc ts = some r := by
  intro f
  induction f with
  | zero => intro acc ts r h; simp [parseNominalRest] at h
  | succ f ih =>
    intro acc ts r
    rw [parseNominalRest, parseNominalRest]
    split
    · exact ih _ _ _
    · exact id

theorem nudBody_mono {pe pe' : Nat → List Tok → Option (Expr × List Tok)}
    (hm : ∀ a ts r, pe a ts = some r → pe' a ts = some r) (ts : List Tok) (r : Expr × List Tok) :
    nudBody pe ts = some r → nudBody pe' ts = some r := by
  unfold nudBody
  repeat' split
  all_goals first
    | exact id
    | exact map_mono (hm _ _)
    | exact bind_mono (hm _ _) (fun _ hx => hx)

theorem argTail_mono {pas pas' : List Tok → Option (Expr × List Tok)}
    (hs : ∀ ts r, pas ts = some r → pas' ts = some r) (label : String) (e : Expr) (ts : List Tok) (r : Expr × List Tok) :
    argTail pas label e ts = some r → argTail pas' label e ts = some r := by
  unfold argTail
  split
  · exact map_mono (hs _)
  · exact id

theorem argsBody_mono {pe pe' : Nat → List Tok → Option (Expr × List Tok)}
    {pas pas' : List Tok → Option (Expr × List Tok)}
    (hm : ∀ a ts r, pe a ts = some r → pe' a ts = some r)
    (hs : ∀ ts r, pas ts = some r → pas' ts = some r) (ts : List Tok) (r : Expr × List Tok) :
    argsBody pe pas ts = some r → argsBody pe' pas' ts = some r := by
  unfold argsBody
  split
  · exact id
  · refine bind_mono (hm _ _) (fun x => ?_)
    repeat' split
    all_goals first
      | exact id
      | exact argTail_mono hs _ _ _ _
      | exact bind_mono (hm _ _) (fun y => argTail_mono hs _ _ _ _)

theorem ledBody_mono {pe pe' : Nat → List Tok → Option (Expr × List Tok)}
    {pa pa' : List Tok → Option (Bool × Ty × List Tok)} {pas pas' : List Tok → Option (Expr × List Tok)}
    (hm : ∀ a ts r, pe a ts = some r → pe' a ts = some r)
    (ha : ∀ ts r, pa ts = some r → pa' ts = some r)
    (hs : ∀ ts r, pas ts = some r → pas' ts = some r) (left : Expr) (ts : List Tok) (r : Expr × List Tok) :
    ledBody pe pa pas left ts = some r → ledBody pe' pa' pas' left ts = some r := by
  unfold ledBody
  repeat' split
  all_goals first
    | exact id
    | exact map_mono (hm _ _)
    | exact map_mono (ha _)
    | exact map_mono (hs _)
    | exact bind_mono (hm _ _) (fun _ hx => hx)
    | exact bind_mono (hm _ _) (fun _ => bind_mono (fun _ hx => hx) (fun _ => map_mono (hm _ _)))

theorem parseTyBody_mono {pn pn' : List String → List Tok → Option (List String × List Tok)}
    {pt pt' : Nat → List Tok → Option (Ty × List Tok)} {tl tl' : Nat → Ty → List Tok → Option (Ty × List Tok)}
    (hn : ∀ a ts r, pn a ts = some r → pn' a ts = some r)
    (hp : ∀ a ts r, pt a ts = some r → pt' a ts = some r)
    (hl : ∀ a t ts r, tl a t ts = some r → tl' a t ts = some r) (rbp : Nat) (ts : List Tok) (r : Ty × List Tok) :
    parseTyBody pn pt tl rbp ts = some r → parseTyBody pn' pt' tl' rbp ts = some r := by
  unfold parseTyBody
  repeat' split
  all_goals first
    | exact id
    | exact bind_mono (hn _ _) (fun _ => hl _ _ _ _)
    | exact bind_mono (hp _ _) (fun _ => hl _ _ _ _)
    | exact bind_mono (hp _ _) (fun _ => bind_mono (fun _ hx => hx) (fun _ => hl _ _ _ _))

theorem tyLoopBody_mono {tl tl' : Nat → Ty → List Tok → Option (Ty × List Tok)}
    (hl : ∀ a t ts r, tl a t ts = some r → tl' a t ts = some r) (rbp : Nat) (left : Ty) (ts : List Tok)
    (r : Ty × List Tok) :
    tyLoopBody tl rbp left ts = some r → tyLoopBody tl' rbp left ts = some r := by
  unfold tyLoopBody
  repeat' split
  all_goals first
    | exact id
    | exact hl _ _ _ _

/-- one more unit of fuel: types -/
theorem ty_mono_step : ∀ f,
    (∀ rbp ts r, parseTy f rbp ts = some r → parseTy (f + 1) rbp ts = some r) ∧
    (∀ rbp t ts r, tyLoop f rbp t ts = some r → tyLoop (f + 1) rbp t ts = some r) := by
  intro f
  induction f with
  | zero => exact ⟨fun _ _ _ h => by simp [parseTy] at h, fun _ _ _ _ h => by simp [tyLoop] at h⟩
  | succ f ih =>
    refine ⟨fun rbp ts r h => ?_, fun rbp t ts r h => ?_⟩
    · rw [parseTy] at h ⊢
      exact parseTyBody_mono (parseNominalRest_mono f) ih.1 ih.2 _ _ _ h
    · rw [tyLoop] at h ⊢
      exact tyLoopBody_mono ih.2 _ _ _ _ h

theorem parseAnn_mono_step (f : Nat) (ts : List Tok) (r : Bool × Ty × List Tok) :
    parseAnn f ts = some r → parseAnn (f + 1) ts = some r := by
  unfold parseAnn
  split
  · exact map_mono ((ty_mono_step f).1 _ _)
  · exact map_mono ((ty_mono_step f).1 _ _)

/-- one more unit of fuel: expressions -/
theorem expr_mono_step : ∀ f,
    (∀ rbp ts r, parseExpr f rbp ts = some r → parseExpr (f + 1) rbp ts = some r) ∧
    (∀ ts r, nud f ts = some r → nud (f + 1) ts = some r) ∧
    (∀ rbp l ts r, loop f rbp l ts = some r → loop (f + 1) rbp l ts = some r) ∧
    (∀ l ts r, led f l ts = some r → led (f + 1) l ts = some r) ∧
    (∀ ts r, parseArgs f ts = some r → parseArgs (f + 1) ts = some r) := by
  intro f
  induction f with
  | zero =>
    exact ⟨fun _ _ _ h => by simp [parseExpr] at h, fun _ _ h => by simp [nud] at h,
      fun _ _ _ _ h => by simp [loop] at h, fun _ _ _ h => by simp [led] at h, fun _ _ h => by simp [parseArgs] at h⟩
  | succ f ih =>
    obtain ⟨ihE, ihN, ihL, ihD, ihA⟩ := ih
    refine ⟨fun rbp ts r h => ?_, fun ts r h => ?_, fun rbp l ts r h => ?_, fun l ts r h => ?_, fun ts r h => ?_⟩
    · rw [parseExpr] at h ⊢
      cases hn : nud f ts with
      | none => simp [hn] at h
      | some x =>
        rw [ihN _ _ hn]
        simp only [hn] at h ⊢
        exact ihL _ _ _ _ h
    · rw [nud] at h ⊢
      exact nudBody_mono ihE _ _ h
    · rw [loop] at h ⊢
      split
      · simpa [*] using h
      · next hc =>
        simp only [hc, if_false] at h
        cases hd : led f l ts with
        | none => simp [hd] at h
        | some x =>
          rw [ihD _ _ _ hd]
          simp only [hd] at h ⊢
          exact ihL _ _ _ _ h
    · rw [led] at h ⊢
      exact ledBody_mono ihE (parseAnn_mono_step f) ihA _ _ _ h
    · rw [parseArgs] at h ⊢
      exact argsBody_mono ihE ihA _ _ h

theorem parseExpr_mono {f f' : Nat} (hf : f ≤ f') {rbp ts r} (h : parseExpr f rbp ts = some r) :
    parseExpr f' rbp ts = some r := by
  induction hf with
  | refl => exact h
  | step _ ih => exact (expr_mono_step _).1 _ _ _ ih

theorem loop_mono {f f' : Nat} (hf : f ≤ f') {rbp l ts r} (h : loop f rbp l ts = some r) :
    loop f' rbp l ts = some r := by
  induction hf with
  | refl => exact h
  | step _ ih => exact (expr_mono_step _).2.2.1 _ _ _ _ ih

theorem parseArgs_mono {f f' : Nat} (hf : f ≤ f') {ts r} (h : parseArgs f ts = some r) :
    parseArgs f' ts = some r := by
  induction hf with
  | refl => exact h
  | step _ ih => exact (expr_mono_step _).2.2.2.2 _ _ ih

theorem parseTy_mono {f f' : Nat} (hf : f ≤ f') {rbp ts r} (h : parseTy f rbp ts = some r) :
    parseTy f' rbp ts = some r := by
  induction hf with
  | refl => exact h
  | step _ ih => exact (ty_mono_step _).1 _ _ _ ih

theorem tyLoop_mono {f f' : Nat} (hf : f ≤ f') {rbp t ts r} (h : tyLoop f rbp t ts = some r) :
    tyLoop f' rbp t ts = some r := by
  induction hf with
  | refl => exact h
  | step _ ih => exact (ty_mono_step _).2 _ _ _ _ ih

theorem parseAnn_mono {f f' : Nat} (hf : f ≤ f') {ts r} (h : parseAnn f ts = some r) :
    parseAnn f' ts = some r := by
  induction hf with
  | refl => exact h
  | step _ ih => exact parseAnn_mono_step _ _ _ ih

theorem parseNominalRest_mono' {f f' : Nat} (hf : f ≤ f') {acc ts r} (h : parseNominalRest f acc ts = some r) :
    parseNominalRest f' acc ts = some r := by
  induction hf with
  | refl => exact h
  | step _ ih => exact parseNominalRest_mono _ _ _ _ ih

end Verif.Proofs.PrattFuel
