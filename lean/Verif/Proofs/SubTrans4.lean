/-
C08 helper lemmas, part 9: `trans_in` (the induction) and `trans_top` (chains whose types may be `Any`
as a whole).
-/
import Verif.Proofs.SubTrans3
import Verif.Proofs.SubStruct
namespace Verif.Proofs.SubTrans
open Verif.Model.Types Verif.Model.Types.Struct Verif.Model.Auth Verif.Proofs.SubUnfold Verif.Proofs.SubNominal

theorem In.opt {D : List Iface} {t : Ty} (h : In D (.opt t)) : In D t :=
  ⟨by simpa [Ty.wf] using h.wf, by simpa [Ty.noAny] using h.noAny, h.nom, h.auth⟩
theorem In.varArr {D : List Iface} {t : Ty} (h : In D (.varArr t)) : In D t :=
  ⟨by simpa [Ty.wf] using h.wf, by simpa [Ty.noAny] using h.noAny, h.nom, h.auth⟩
theorem In.constArr {D : List Iface} {t : Ty} {k : Nat} (h : In D (.constArr t k)) : In D t :=
  ⟨by simpa [Ty.wf] using h.wf, by simpa [Ty.noAny] using h.noAny, h.nom, h.auth⟩
theorem In.cap {D : List Iface} {t : Ty} (h : In D (.cap t)) : In D t :=
  ⟨by simpa [Ty.wf] using h.wf, by simpa [Ty.noAny] using h.noAny, h.nom, h.auth⟩
theorem In.range {D : List Iface} {t : Ty} (h : In D (.range t)) : In D t :=
  ⟨by simpa [Ty.wf] using h.wf, by simpa [Ty.noAny] using h.noAny, h.nom, h.auth⟩
theorem In.ref {D : List Iface} {t : Ty} {au : Access String} (h : In D (.ref au t)) : In D t :=
  ⟨by simpa [Ty.wf] using h.wf, by simpa [Ty.noAny] using h.noAny, h.nom, h.auth.2⟩
theorem In.dictK {D : List Iface} {k v : Ty} (h : In D (.dict k v)) : In D k := by
  have w := h.wf; have n := h.noAny; have m := h.nom; have a := h.auth
  simp only [Ty.wf, Ty.noAny, nomOK, authOK, Bool.and_eq_true] at w n m a
  exact ⟨w.1, n.1, m.1, a.1⟩
theorem In.dictV {D : List Iface} {k v : Ty} (h : In D (.dict k v)) : In D v := by
  have w := h.wf; have n := h.noAny; have m := h.nom; have a := h.auth
  simp only [Ty.wf, Ty.noAny, nomOK, authOK, Bool.and_eq_true] at w n m a
  exact ⟨w.2, n.2, m.2, a.2⟩
theorem In.fnP {D : List Iface} {v : Bool} {p r : Ty} (h : In D (.fn v p r)) : InP D p := by
  have w := h.wf; have n := h.noAny; have m := h.nom; have a := h.auth
  simp only [Ty.wf, Ty.noAny, nomOK, authOK, Bool.and_eq_true] at w n m a
  exact ⟨w.1, n.1, m.1, a.1⟩
theorem In.fnR {D : List Iface} {v : Bool} {p r : Ty} (h : In D (.fn v p r)) : In D r := by
  have w := h.wf; have n := h.noAny; have m := h.nom; have a := h.auth
  simp only [Ty.wf, Ty.noAny, nomOK, authOK, Bool.and_eq_true] at w n m a
  exact ⟨w.2, n.2, m.2, a.2⟩

theorem trans_in (D : List Iface) (hD : Coh D) : ∀ N, TransAt D N := by
  intro N
  induction N with
  | zero => intro a b c hs; have := size_pos a; have := size_pos b; omega
  | succ N ih =>
    intro a b c hs ha hb hc hsta hstc hab hbc
    by_cases hab' : a = b
    · rw [hab']; exact hbc
    by_cases han : a = never
    · rw [han]; exact sub_never c
    by_cases hbc' : b = c
    · rw [← hbc']; exact hab
    by_cases hbn : b = never
    · rw [hbn] at hab; exact absurd (sub_never_right a ha.wf hab) han
    have h1 : chk a b = true := ((sub_cases hab).resolve_left hab').resolve_left han
    have h2 : chk b c = true := ((sub_cases hbc).resolve_left hbc').resolve_left hbn
    cases c with
    | prim n =>
      have hn := prim_wf hc.wf
      by_cases hsp : n ∈ specials
      · have hres := res_mono D hD _ a b (Nat.le_refl _) ha hb hsta han hab
        rw [chk_prim] at h2
        apply sub_of_chk
        rw [chk_prim]
        simp only [specials, List.mem_cons, List.not_mem_nil, or_false] at hsp
        rcases hsp with rfl | rfl | rfl | rfl | rfl | rfl
        · simp [chkPrim]
        · simp [chkPrim] at h2 ⊢; exact ⟨by rw [hres]; exact h2.1, noAny_ne_any ha.noAny⟩
        · simp [chkPrim] at h2 ⊢; rw [hres]; exact h2
        · simp [chkPrim] at h2 ⊢; exact ⟨att_mono a b ha.wf hb.wf han hab h2.1, by rw [hres]; exact h2.2⟩
        · simp [chkPrim] at h2 ⊢; exact ⟨att_mono a b ha.wf hb.wf han hab h2.1, by rw [hres]; exact h2.2⟩
        · simp [chkPrim] at h2 ⊢; exact hash_mono a b ha.wf hb.wf han hab h2
      · rcases prim_or_not b with ⟨m, rfl⟩ | hnpb
        · have hm := prim_wf hb.wf
          have hmn : m ≠ "Never" := fun h' => hbn (by rw [h']; rfl)
          rw [sub_prim_prim m n hm hn] at hbc
          rcases prim_or_not a with ⟨l, rfl⟩ | hnpa
          · have hl := prim_wf ha.wf
            rw [sub_prim_prim l m hl hm] at hab
            rw [sub_prim_prim l n hl hn]
            exact Verif.Proofs.SubStruct.psub_trans l m n hl hm hn hab hbc
          · rw [chk_prim] at h1
            exact absurd ((facts m n hm hn hbc hmn).2.2.2.1 (special_of_np hnpa h1)) hsp
        · rw [chk_prim] at h2; exact absurd (special_of_np hnpb h2) hsp
    | opt s =>
      have hcs := hc.opt
      have hsts : stab false s = true := by simpa [stab] using hstc
      by_cases hbo : ∃ y, b = .opt y
      · obtain ⟨y, rfl⟩ := hbo
        rw [chk_opt] at h2 h1
        simp only [] at h2
        apply sub_of_chk
        rw [chk_opt]
        cases a with
        | opt x =>
          simp only [] at h1 ⊢
          simp only [stab, Bool.and_eq_true] at hsta
          exact ih x y s (by simp only [Ty.size] at hs; omega) ha.opt hb.opt hcs hsta.2 hsts h1 h2
        | _ =>
          simp only [] at h1 ⊢
          exact ih _ y s (by simp only [Ty.size] at hs ⊢; omega) ha hb.opt hcs hsta hsts h1 h2
      · have hbo' : ∀ y, b ≠ .opt y := fun y h' => hbo ⟨y, h'⟩
        have h2' : Struct.sub b s = true := by
          rw [chk_opt] at h2
          cases b <;> first | exact absurd rfl (hbo' _) | exact h2
        apply sub_of_chk
        rw [chk_opt]
        cases a with
        | opt x =>
          simp only []
          obtain ⟨m, rfl⟩ := opt_below x b hbo' h1
          have hxm := opt_below_prim x m ha.opt.noAny h1
          simp only [stab, Bool.and_eq_true] at hsta
          exact ih x (.prim m) s (by simp only [Ty.size] at hs ⊢; omega) ha.opt hb hcs hsta.2 hsts hxm h2'
        | _ =>
          simp only []
          exact ih _ b s (by simp only [Ty.size] at hs ⊢; omega) ha hb hcs hsta hsts hab h2'
    | varArr s =>
      rw [chk_varArr] at h2
      cases b with
      | varArr y =>
        rw [chk_varArr] at h1
        cases a with
        | varArr x =>
          simp only [] at h1 h2
          simp only [stab, Bool.and_eq_true] at hsta hstc
          apply sub_of_chk; rw [chk_varArr]; simp only []
          exact ih x y s (by simp only [Ty.size] at hs; omega) ha.varArr hb.varArr hc.varArr hsta.2 hstc.2 h1 h2
        | _ => simp at h1
      | _ => simp at h2
    | constArr s k =>
      rw [chk_constArr] at h2
      cases b with
      | constArr y k' =>
        rw [chk_constArr] at h1
        cases a with
        | constArr x k'' =>
          simp only [Bool.and_eq_true, beq_iff_eq] at h1 h2
          simp only [stab, Bool.and_eq_true] at hsta hstc
          apply sub_of_chk; rw [chk_constArr]; simp only [Bool.and_eq_true, beq_iff_eq]
          exact ⟨h2.1.trans h1.1, ih x y s (by simp only [Ty.size] at hs; omega) ha.constArr hb.constArr hc.constArr hsta.2 hstc.2 h1.2 h2.2⟩
        | _ => simp at h1
      | _ => simp at h2
    | dict k v =>
      rw [chk_dict] at h2
      cases b with
      | dict k1 v1 =>
        rw [chk_dict] at h1
        cases a with
        | dict k0 v0 =>
          simp only [Bool.and_eq_true] at h1 h2
          simp only [stab, Bool.and_eq_true] at hsta hstc
          apply sub_of_chk; rw [chk_dict]; simp only [Bool.and_eq_true]
          simp only [Ty.size] at hs
          exact ⟨ih v0 v1 v (by omega) ha.dictV hb.dictV hc.dictV hsta.2 hstc.2 h1.1 h2.1,
                 ih k0 k1 k (by omega) ha.dictK hb.dictK hc.dictK hsta.1.2 hstc.1.2 h1.2 h2.2⟩
        | _ => simp at h1
      | _ => simp at h2
    | ref au s =>
      rw [chk_ref] at h2
      cases b with
      | ref au1 y =>
        rw [chk_ref] at h1
        cases a with
        | ref au0 x =>
          simp only [Bool.and_eq_true] at h1 h2
          simp only [stab] at hsta hstc
          apply sub_of_chk; rw [chk_ref]; simp only [Bool.and_eq_true]
          exact ⟨permits_trans' au au1 au0 hc.auth.1 hb.auth.1 ha.auth.1 h2.1 h1.1,
                 ih x y s (by simp only [Ty.size] at hs; omega) ha.ref hb.ref hc.ref hsta hstc h1.2 h2.2⟩
        | _ => simp at h1
      | _ => simp at h2
    | comp => rw [chk_comp] at h2; cases h2
    | iface i =>
      have hbn' : (∃ i, b = .iface i) ∨ (∃ is, b = .inter is) := by
        rw [chk_iface] at h2
        cases b <;> simp at h2
        · rw [chk_comp] at h1; cases h1
        · exact Or.inl ⟨_, rfl⟩
        · exact Or.inr ⟨_, rfl⟩
      exact sub_of_chk (nom_trans D hD a b _ ha.nom hb.nom hc.nom hbn' (Or.inl ⟨_, rfl⟩) h1 h2)
    | inter sup =>
      have hbn' : (∃ i, b = .iface i) ∨ (∃ is, b = .inter is) := by
        rw [chk_inter] at h2
        cases b <;> simp at h2
        · rw [chk_comp] at h1; cases h1
        · exact Or.inl ⟨_, rfl⟩
        · exact Or.inr ⟨_, rfl⟩
      exact sub_of_chk (nom_trans D hD a b _ ha.nom hb.nom hc.nom hbn' (Or.inr ⟨_, rfl⟩) h1 h2)
    | fn v2 p2 r2 =>
      rw [chk_fn] at h2
      cases b with
      | fn v1 p1 r1 =>
        rw [chk_fn] at h1
        cases a with
        | fn v0 p0 r0 =>
          simp only [Bool.and_eq_true] at h1 h2
          simp only [stab, Bool.and_eq_true, Bool.not_true, Bool.not_false] at hsta hstc
          apply sub_of_chk; rw [chk_fn]; simp only [Bool.and_eq_true]
          simp only [Ty.size] at hs
          refine ⟨⟨?_, params_trans D N ih p2 p1 p0 (by omega) hc.fnP hb.fnP ha.fnP hstc.1 hsta.1 h2.1.2 h1.1.2⟩,
            ih r0 r1 r2 (by omega) ha.fnR hb.fnR hc.fnR hsta.2 hstc.2 h1.2 h2.2⟩
          have e1 := h1.1.1; have e2 := h2.1.1
          revert e1 e2; cases v0 <;> cases v1 <;> cases v2 <;> decide
        | _ => simp at h1
      | _ => simp at h2
    | nilT => have := hc.wf; simp [Ty.wf] at this
    | consT => have := hc.wf; simp [Ty.wf] at this
    | capAny =>
      rw [chk_capAny] at h2
      cases b with
      | cap y =>
        rw [chk_cap] at h1
        cases a with
        | cap x => apply sub_of_chk; rw [chk_capAny]
        | _ => simp at h1
      | _ => simp at h2
    | cap s =>
      rw [chk_cap] at h2
      cases b with
      | cap y =>
        rw [chk_cap] at h1
        cases a with
        | cap x =>
          simp only [] at h1 h2
          simp only [stab] at hsta hstc
          apply sub_of_chk; rw [chk_cap]; simp only []
          exact ih x y s (by simp only [Ty.size] at hs; omega) ha.cap hb.cap hc.cap hsta hstc h1 h2
        | _ => simp at h1
      | _ => simp at h2
    | range s =>
      rw [chk_range] at h2
      cases b with
      | range y =>
        rw [chk_range] at h1
        cases a with
        | range x =>
          simp only [] at h1 h2
          simp only [stab] at hsta hstc
          apply sub_of_chk; rw [chk_range]; simp only []
          exact ih x y s (by simp only [Ty.size] at hs; omega) ha.range hb.range hc.range hsta hstc h1 h2
        | _ => simp at h1
      | _ => simp at h2


theorem sub_any_right (a : Ty) : Struct.sub a any = true := by
  rw [sub_def, any, chk_prim]; simp [chkPrim]

theorem in_of_good {D : List Iface} {t : Ty} (h : Good D t) (hne : t ≠ any) : In D t := by
  refine ⟨h.wf, ?_, h.nom, h.auth⟩
  have := h.anyTop
  simp only [Ty.anyTop, Bool.or_eq_true, beq_iff_eq] at this
  exact this.resolve_left hne

/-- transitivity of the structured relation; `Any` may occur as a whole type of the chain -/
theorem trans_top (D : List Iface) (hD : Coh D) (a b c : Ty) (ha : Good D a) (hb : Good D b) (hc : Good D c)
    (hsta : stab true a = true) (hstc : stab false c = true)
    (hab : Struct.sub a b = true) (hbc : Struct.sub b c = true) : Struct.sub a c = true := by
  by_cases hca : c = any
  · rw [hca]; exact sub_any_right a
  have hc' := in_of_good hc hca
  by_cases hba : b = any
  · rw [hba, sub_any_left c hc'.wf hc'.noAny] at hbc; cases hbc
  have hb' := in_of_good hb hba
  by_cases haa : a = any
  · rw [haa, sub_any_left b hb'.wf hb'.noAny] at hab; cases hab
  exact trans_in D hD _ a b c (Nat.le_refl _) (in_of_good ha haa) hb' hc' hsta hstc hab hbc

end Verif.Proofs.SubTrans
