/-
C51 — lemmas for the bidirectional map: abstraction relation between the code-shaped model
(`Model.DS.BiMap`) and the one-to-one relation spec (`Spec.DS.BM`), simulation per method.
-/
import Verif.Proofs.DS.OrderedMap
import Verif.Model.DS.BiMap
namespace Verif.Proofs.DS.BM
open Verif.DS Verif.Model.DS Verif.Model.DS.BiMap Verif.Proofs.DS.OM
open Verif.Spec.DS.BM renaming get → sget, getInverse → sgetInverse, insert → sinsert, delete → sdelete,
  deleteInverse → sdeleteInverse, step → sstep, run → srun, after → safter

set_option linter.unusedSectionVars false
variable {K V : Type} [DecidableEq K] [DecidableEq V]

theorem mem_delete {α β : Type} [DecidableEq α] (m : List (α × β)) (k : α) (p : α × β) :
    p ∈ GoMap.delete m k ↔ p ∈ m ∧ p.1 ≠ k := by
  simp [GoMap.delete, List.mem_filter]

theorem mem_put {α β : Type} [DecidableEq α] (m : List (α × β)) (k : α) (v : β) (p : α × β) :
    p ∈ GoMap.put m k v ↔ p = (k, v) ∨ (p ∈ m ∧ p.1 ≠ k) := by
  simp [GoMap.put, mem_delete]

theorem keys_put_nodup {α β : Type} [DecidableEq α] {m : List (α × β)} (hm : (m.map Prod.fst).Nodup)
    (k : α) (v : β) : ((GoMap.put m k v).map Prod.fst).Nodup := by
  simp only [GoMap.put, List.map_cons, List.nodup_cons]
  exact ⟨not_mem_keys_delete m k, keys_delete_nodup hm k⟩

theorem sget_eq (s : List (K × V)) (k : K) : sget s k = GoMap.get s k := by
  induction s with
  | nil => rfl
  | cons p t ih =>
    by_cases h : p.1 = k
    · simp [sget, GoMap.get, h]
    · simp only [sget, GoMap.get, h, if_false] at ih ⊢
      rw [List.find?_cons_of_neg (by simpa using h)]; exact ih

theorem sgetInverse_eq (s : List (K × V)) (v : V) :
    sgetInverse s v = GoMap.get (s.map Prod.swap) v := by
  induction s with
  | nil => rfl
  | cons p t ih =>
    by_cases h : p.2 = v
    · simp [sgetInverse, GoMap.get, h]
    · simp only [sgetInverse, GoMap.get, List.map_cons, Prod.fst_swap, h, if_false] at ih ⊢
      rw [List.find?_cons_of_neg (by simpa using h)]; exact ih

/-- `R m s`: the two Go maps represent the one-to-one relation `s` and its converse. -/
def R : BM K V → List (K × V) → Prop
  | .zero, _ => False
  | .mk f b, s =>
    (f.map Prod.fst).Nodup ∧ (b.map Prod.fst).Nodup ∧ (∀ k v, (k, v) ∈ f ↔ (k, v) ∈ s) ∧
    (∀ k v, (v, k) ∈ b ↔ (k, v) ∈ s) ∧ Verif.Spec.DS.BM.OneToOne s

theorem R_new : R (new : BM K V) [] := by simp [R, new, Verif.Spec.DS.BM.OneToOne]

theorem keys_swap (s : List (K × V)) : (s.map Prod.swap).map Prod.fst = s.map Prod.snd := by
  rw [List.map_map]; rfl

theorem uniq_val {s : List (K × V)} (h : (s.map Prod.fst).Nodup) {k : K} {v1 v2 : V}
    (h1 : (k, v1) ∈ s) (h2 : (k, v2) ∈ s) : v1 = v2 := by
  have a := (get_some_iff h k v1).2 h1
  have b := (get_some_iff h k v2).2 h2
  rw [a] at b; exact Option.some.inj b

theorem uniq_key {s : List (K × V)} (h : (s.map Prod.snd).Nodup) {k1 k2 : K} {v : V}
    (h1 : (k1, v) ∈ s) (h2 : (k2, v) ∈ s) : k1 = k2 := by
  have hs : ((s.map Prod.swap).map Prod.fst).Nodup := by rw [keys_swap]; exact h
  exact uniq_val hs (k := v) (by simpa using h1) (by simpa using h2)

section
variable {f : List (K × V)} {b : List (V × K)} {s : List (K × V)} (h : R (.mk f b) s)
include h

theorem R.getF (k : K) (v : V) : GoMap.get f k = some v ↔ (k, v) ∈ s := by
  rw [get_some_iff h.1, h.2.2.1]
theorem R.getB (v : V) (k : K) : GoMap.get b v = some k ↔ (k, v) ∈ s := by
  rw [get_some_iff h.2.1, h.2.2.2.1]

theorem R.get_eq (k : K) : GoMap.get f k = sget s k := by
  rw [sget_eq]
  exact get_congr h.1 h.2.2.2.2.1 (fun p => h.2.2.1 p.1 p.2) k

theorem R.getInv_eq (v : V) : GoMap.get b v = sgetInverse s v := by
  rw [sgetInverse_eq]
  refine get_congr h.2.1 (by rw [keys_swap]; exact h.2.2.2.2.2) (fun p => ?_) v
  rw [show p = (p.1, p.2) from rfl, h.2.2.2.1]
  simp [List.mem_map]

theorem R.size_eq : f.length = s.length :=
  length_eq_of_mem_iff h.1 h.2.2.2.2.1 (fun p => h.2.2.1 p.1 p.2)

end

theorem oneToOne_filter {s : List (K × V)} (h : Verif.Spec.DS.BM.OneToOne s) (q : K × V → Bool) :
    Verif.Spec.DS.BM.OneToOne (s.filter q) :=
  ⟨List.Nodup.sublist (List.filter_sublist.map _) h.1, List.Nodup.sublist (List.filter_sublist.map _) h.2⟩


/-! ### Insert -/

/-- `b.backward` after the first `if` of `Insert` -/
def b1 (f : List (K × V)) (b : List (V × K)) (k : K) : List (V × K) :=
  match GoMap.get f k with | some existing => GoMap.delete b existing | none => b
/-- `b.forward` after the second `if` of `Insert` -/
def f1 (f : List (K × V)) (b : List (V × K)) (k : K) (v : V) : List (K × V) :=
  match GoMap.get (b1 f b k) v with | some existing => GoMap.delete f existing | none => f

theorem insert_eq (f : List (K × V)) (b : List (V × K)) (k : K) (v : V) :
    insert (.mk f b) k v = some (.mk (GoMap.put (f1 f b k v) k v) (GoMap.put (b1 f b k) v k)) := rfl

section
variable {f : List (K × V)} {b : List (V × K)} {s : List (K × V)} (h : R (.mk f b) s)
include h

theorem b1_nodup (k : K) : ((b1 f b k).map Prod.fst).Nodup := by
  unfold b1; split
  · exact keys_delete_nodup h.2.1 _
  · exact h.2.1

theorem b1_mem (k : K) (v' : V) (k' : K) : (v', k') ∈ b1 f b k ↔ (k', v') ∈ s ∧ (k, v') ∉ s := by
  unfold b1
  cases hg : GoMap.get f k with
  | none =>
    have : ∀ x, (k, x) ∉ s := by
      intro x hx
      rw [get_none_iff] at hg
      exact hg (List.mem_map_of_mem (f := Prod.fst) ((h.2.2.1 k x).2 hx))
    simp [h.2.2.2.1, this]
  | some e0 =>
    have he0 : (k, e0) ∈ s := (h.getF k e0).1 hg
    have hu : ∀ x, (k, x) ∈ s → x = e0 := fun x hx => uniq_val h.2.2.2.2.1 hx he0
    simp only [mem_delete, h.2.2.2.1]
    grind

theorem f1_nodup (k : K) (v : V) : ((f1 f b k v).map Prod.fst).Nodup := by
  unfold f1; split
  · exact keys_delete_nodup h.1 _
  · exact h.1

theorem f1_mem (k : K) (v : V) (k' : K) (v' : V) :
    (k', v') ∈ f1 f b k v ↔ (k', v') ∈ s ∧ (v, k') ∉ b1 f b k := by
  unfold f1
  cases hg : GoMap.get (b1 f b k) v with
  | none =>
    have : ∀ x, (v, x) ∉ b1 f b k := by
      intro x hx
      rw [get_none_iff] at hg
      exact hg (List.mem_map_of_mem (f := Prod.fst) hx)
    simp [h.2.2.1, this]
  | some e =>
    have he : (v, e) ∈ b1 f b k := (get_some_iff (b1_nodup h k) v e).1 hg
    have hu : ∀ x, (v, x) ∈ b1 f b k → x = e := fun x hx => uniq_val (b1_nodup h k) hx he
    simp only [mem_delete, h.2.2.1]
    grind

theorem insert_sim (k : K) (v : V) :
    R (.mk (GoMap.put (f1 f b k v) k v) (GoMap.put (b1 f b k) v k)) (sinsert s k v) := by
  have uv : ∀ {a : K} {x y : V}, (a, x) ∈ s → (a, y) ∈ s → x = y := fun h1 h2 => uniq_val h.2.2.2.2.1 h1 h2
  have uk : ∀ {a c : K} {x : V}, (a, x) ∈ s → (c, x) ∈ s → a = c := fun h1 h2 => uniq_key h.2.2.2.2.2 h1 h2
  have hs' : ∀ k' v', (k', v') ∈ sinsert s k v ↔ ((k', v') ∈ s ∧ k' ≠ k ∧ v' ≠ v) ∨ (k', v') = (k, v) := by
    intro k' v'
    simp [sinsert, List.mem_filter]
  refine ⟨keys_put_nodup (f1_nodup h k v) k v, keys_put_nodup (b1_nodup h k) v k, ?_, ?_, ?_, ?_⟩
  · intro k' v'
    rw [mem_put, f1_mem h, b1_mem h, hs']
    simp only [Prod.mk.injEq]
    grind
  · intro k' v'
    rw [mem_put, b1_mem h, hs']
    simp only [Prod.mk.injEq]
    grind
  · simp only [sinsert, List.map_append, List.map_cons, List.map_nil, List.nodup_append]
    refine ⟨(oneToOne_filter h.2.2.2.2 _).1, by simp, ?_⟩
    intro a ha c hc
    simp only [List.mem_singleton] at hc
    subst hc
    simp only [List.mem_map, List.mem_filter] at ha
    obtain ⟨p, ⟨_, hp⟩, rfl⟩ := ha
    simp at hp; exact hp.1
  · simp only [sinsert, List.map_append, List.map_cons, List.map_nil, List.nodup_append]
    refine ⟨(oneToOne_filter h.2.2.2.2 _).2, by simp, ?_⟩
    intro a ha c hc
    simp only [List.mem_singleton] at hc
    subst hc
    simp only [List.mem_map, List.mem_filter] at ha
    obtain ⟨p, ⟨_, hp⟩, rfl⟩ := ha
    simp at hp; exact hp.2

end


/-! ### reads, Delete, DeleteInverse -/

theorem get_mk (f : List (K × V)) (b : List (V × K)) (k : K) : get (.mk f b) k = GoMap.get f k := by
  cases hg : GoMap.get f k <;> simp [BiMap.get, exists_, forward, hg]

theorem getInverse_mk (f : List (K × V)) (b : List (V × K)) (v : V) :
    getInverse (.mk f b) v = GoMap.get b v := by
  cases hg : GoMap.get b v <;> simp [getInverse, existsInverse, backward, hg]

section
variable {f : List (K × V)} {b : List (V × K)} {s : List (K × V)} (h : R (.mk f b) s)
include h

theorem delete_sim (k : K) : R (delete (.mk f b) k) (sdelete s k) := by
  have uv : ∀ {a : K} {x y : V}, (a, x) ∈ s → (a, y) ∈ s → x = y := fun h1 h2 => uniq_val h.2.2.2.2.1 h1 h2
  have uk : ∀ {a c : K} {x : V}, (a, x) ∈ s → (c, x) ∈ s → a = c := fun h1 h2 => uniq_key h.2.2.2.2.2 h1 h2
  have hs' : ∀ k' v', (k', v') ∈ sdelete s k ↔ (k', v') ∈ s ∧ k' ≠ k := by
    intro k' v'; simp [sdelete, List.mem_filter]
  cases hg : GoMap.get f k with
  | none =>
    have hno : ∀ x, (k, x) ∉ s := by
      intro x hx
      rw [get_none_iff] at hg
      exact hg (List.mem_map_of_mem (f := Prod.fst) ((h.2.2.1 k x).2 hx))
    have : delete (.mk f b) k = .mk f b := by simp [delete, exists_, forward, hg]
    rw [this]
    refine ⟨h.1, h.2.1, ?_, ?_, oneToOne_filter h.2.2.2.2 _⟩
    · intro k' v'; rw [hs', h.2.2.1]; grind
    · intro k' v'; rw [hs', h.2.2.2.1]; grind
  | some val =>
    have hval : (k, val) ∈ s := (h.getF k val).1 hg
    have : delete (.mk f b) k = .mk (GoMap.delete f k) (GoMap.delete b val) := by
      simp [delete, get_mk, exists_, forward, hg]
    rw [this]
    refine ⟨keys_delete_nodup h.1 _, keys_delete_nodup h.2.1 _, ?_, ?_, oneToOne_filter h.2.2.2.2 _⟩
    · intro k' v'; rw [hs', mem_delete, h.2.2.1]
    · intro k' v'; rw [hs', mem_delete, h.2.2.2.1]; simp only; grind

theorem deleteInverse_sim (v : V) : R (deleteInverse (.mk f b) v) (sdeleteInverse s v) := by
  have uv : ∀ {a : K} {x y : V}, (a, x) ∈ s → (a, y) ∈ s → x = y := fun h1 h2 => uniq_val h.2.2.2.2.1 h1 h2
  have uk : ∀ {a c : K} {x : V}, (a, x) ∈ s → (c, x) ∈ s → a = c := fun h1 h2 => uniq_key h.2.2.2.2.2 h1 h2
  have hs' : ∀ k' v', (k', v') ∈ sdeleteInverse s v ↔ (k', v') ∈ s ∧ v' ≠ v := by
    intro k' v'; simp [sdeleteInverse, List.mem_filter]
  cases hg : GoMap.get b v with
  | none =>
    have hno : ∀ x, (x, v) ∉ s := by
      intro x hx
      rw [get_none_iff] at hg
      exact hg (List.mem_map_of_mem (f := Prod.fst) ((h.2.2.2.1 x v).2 hx))
    have : deleteInverse (.mk f b) v = .mk f b := by simp [deleteInverse, existsInverse, backward, hg]
    rw [this]
    refine ⟨h.1, h.2.1, ?_, ?_, oneToOne_filter h.2.2.2.2 _⟩
    · intro k' v'; rw [hs', h.2.2.1]; grind
    · intro k' v'; rw [hs', h.2.2.2.1]; grind
  | some key =>
    have hkey : (key, v) ∈ s := (h.getB v key).1 hg
    have : deleteInverse (.mk f b) v = .mk (GoMap.delete f key) (GoMap.delete b v) := by
      simp [deleteInverse, getInverse_mk, existsInverse, backward, hg]
    rw [this]
    refine ⟨keys_delete_nodup h.1 _, keys_delete_nodup h.2.1 _, ?_, ?_, oneToOne_filter h.2.2.2.2 _⟩
    · intro k' v'; rw [hs', mem_delete, h.2.2.1]; simp only; grind
    · intro k' v'; rw [hs', mem_delete, h.2.2.2.1]

end

/-! ### op sequences -/

theorem R.not_zero {m : BM K V} {s} (h : R m s) : ∃ f b, m = .mk f b := by
  cases m with
  | zero => exact h.elim
  | mk f b => exact ⟨f, b, rfl⟩

theorem step_sim {m : BM K V} {s} (h : R m s) (op : BMOp K V) :
    R (step m op).1 (sstep s op).1 ∧ (step m op).2 = (sstep s op).2 := by
  obtain ⟨f, b, rfl⟩ := h.not_zero
  cases op with
  | insert k v => simp only [step, sstep, insert_eq]; exact ⟨insert_sim h k v, trivial⟩
  | exists_ k => simp only [step, sstep, exists_, forward, h.get_eq]; exact ⟨h, trivial⟩
  | existsInverse v => simp only [step, sstep, existsInverse, backward, h.getInv_eq]; exact ⟨h, trivial⟩
  | get k => simp only [step, sstep, get_mk, h.get_eq]; exact ⟨h, trivial⟩
  | getInverse v => simp only [step, sstep, getInverse_mk, h.getInv_eq]; exact ⟨h, trivial⟩
  | delete k => exact ⟨delete_sim h k, rfl⟩
  | deleteInverse v => exact ⟨deleteInverse_sim h v, rfl⟩
  | size => simp only [step, sstep, size, forward, GoMap.len, h.size_eq]; exact ⟨h, trivial⟩

theorem run_sim {m : BM K V} {s} (h : R m s) (ops : List (BMOp K V)) : run m ops = srun s ops := by
  induction ops generalizing m s with
  | nil => rfl
  | cons op ops ih =>
    have := step_sim h op
    simp only [run, srun, this.2, ih this.1]

theorem after_sim {m : BM K V} {s} (h : R m s) (ops : List (BMOp K V)) : R (after m ops) (safter s ops) := by
  induction ops generalizing m s with
  | nil => exact h
  | cons op ops ih => exact ih (step_sim h op).1


/-! ### consequences used by the property theorems -/

theorem inverse_of_R {m : BM K V} {s} (h : R m s) (k : K) (v : V) :
    get m k = some v ↔ getInverse m v = some k := by
  obtain ⟨f, b, rfl⟩ := h.not_zero
  rw [get_mk, getInverse_mk, h.getF, h.getB]

theorem insert_evicts_of_R {m : BM K V} {s} (h : R m s) (k : K) (v : V) :
    ∃ m', insert m k v = some m' ∧ get m' k = some v ∧ getInverse m' v = some k ∧
      (∀ v0, get m k = some v0 → v0 ≠ v → getInverse m' v0 = none) ∧
      (∀ k0, getInverse m v = some k0 → k0 ≠ k → get m' k0 = none) ∧
      (∀ k' v', k' ≠ k → v' ≠ v → (get m' k' = some v' ↔ get m k' = some v')) := by
  obtain ⟨f, b, rfl⟩ := h.not_zero
  have h' := insert_sim h k v
  refine ⟨_, insert_eq f b k v, ?_⟩
  have uv : ∀ {a : K} {x y : V}, (a, x) ∈ s → (a, y) ∈ s → x = y := fun h1 h2 => uniq_val h.2.2.2.2.1 h1 h2
  have uk : ∀ {a c : K} {x : V}, (a, x) ∈ s → (c, x) ∈ s → a = c := fun h1 h2 => uniq_key h.2.2.2.2.2 h1 h2
  have hs' : ∀ k' v', (k', v') ∈ sinsert s k v ↔ ((k', v') ∈ s ∧ k' ≠ k ∧ v' ≠ v) ∨ (k', v') = (k, v) := by
    intro k' v'
    simp [sinsert, List.mem_filter]
  have none_of : ∀ {α : Type} (o : Option α), (∀ x, o ≠ some x) → o = none := by
    intro α o ho; cases o with | none => rfl | some x => exact absurd rfl (ho x)
  refine ⟨?_, ?_, ?_, ?_, ?_⟩
  · rw [get_mk, h'.getF, hs']; exact .inr rfl
  · rw [getInverse_mk, h'.getB, hs']; exact .inr rfl
  · intro v0 hv0 hne
    rw [get_mk, h.getF] at hv0
    apply none_of; intro x hx
    rw [getInverse_mk, h'.getB, hs'] at hx
    simp only [Prod.mk.injEq] at hx
    grind
  · intro k0 hk0 hne
    rw [getInverse_mk, h.getB] at hk0
    apply none_of; intro x hx
    rw [get_mk, h'.getF, hs'] at hx
    simp only [Prod.mk.injEq] at hx
    grind
  · intro k' v' hk hv
    rw [get_mk, get_mk, h'.getF, h.getF, hs']
    simp only [Prod.mk.injEq]
    grind


theorem after_zero (ops : List (BMOp K V)) : after (BM.zero : BM K V) ops = .zero := by
  induction ops with
  | nil => rfl
  | cons op ops ih =>
    cases op <;> simp [after, step, BiMap.insert, BiMap.delete, BiMap.deleteInverse, exists_, existsInverse, forward, backward, GoMap.get, ih]

end Verif.Proofs.DS.BM
