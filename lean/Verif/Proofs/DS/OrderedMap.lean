/-
C51 — lemmas for the ordered map: the abstraction relation between the code-shaped model
(`Model.DS.OrderedMap`) and the association-list spec (`Spec.DS.OM`), one simulation lemma per method,
and the generic op-sequence simulation theorem.
-/
import Mathlib.Data.List.Nodup
import Verif.Model.DS.OrderedMap
import Verif.Spec.DS
namespace Verif.Proofs.DS.OM
open Verif.DS Verif.Model.DS Verif.Model.DS.OrderedMap
open Verif.Spec.DS.OM renaming lookup → slookup, hasKey → shasKey, setValue → ssetValue, set → sset,
  delete → sdelete, next → snext, prev → sprev, setAll → ssetAll

set_option linter.unusedSectionVars false
variable {K V : Type} [DecidableEq K]

/-! ### Go map lemmas -/

theorem get_eq_lookup (m : List (K × V)) (k : K) : GoMap.get m k = slookup m k := by
  induction m with
  | nil => rfl
  | cons p t ih => simp [GoMap.get, slookup, ih]

theorem get_none_iff (m : List (K × V)) (k : K) : GoMap.get m k = none ↔ k ∉ m.map Prod.fst := by
  induction m with
  | nil => simp [GoMap.get]
  | cons p t ih =>
    by_cases h : p.1 = k
    · simp [GoMap.get, h]
    · have h' : ¬ k = p.1 := fun e => h e.symm
      simp [GoMap.get, h, h', ih]

theorem get_some_iff {m : List (K × V)} (hm : (m.map Prod.fst).Nodup) (k : K) (v : V) :
    GoMap.get m k = some v ↔ (k, v) ∈ m := by
  induction m with
  | nil => simp [GoMap.get]
  | cons p t ih =>
    obtain ⟨pk, pv⟩ := p
    simp only [List.map_cons, List.nodup_cons] at hm
    by_cases h : pk = k
    · subst h
      have : ∀ v', (pk, v') ∉ t := fun v' hv => hm.1 (List.mem_map_of_mem (f := Prod.fst) hv)
      simp [GoMap.get, this, eq_comm]
    · have h' : ¬ k = pk := fun e => h e.symm
      simp [GoMap.get, h, h', ih hm.2]

theorem mem_keys_iff (m : List (K × V)) (k : K) : k ∈ m.map Prod.fst ↔ ∃ v, (k, v) ∈ m := by
  simp [List.mem_map]

theorem get_congr {m s : List (K × V)} (hm : (m.map Prod.fst).Nodup) (hs : (s.map Prod.fst).Nodup)
    (h : ∀ p, p ∈ m ↔ p ∈ s) (k : K) : GoMap.get m k = GoMap.get s k := by
  cases hg : GoMap.get m k with
  | none =>
    symm
    rw [get_none_iff] at hg ⊢
    rw [mem_keys_iff] at hg ⊢
    simpa [h] using hg
  | some v =>
    symm
    rw [get_some_iff hm] at hg
    rw [get_some_iff hs]
    exact (h _).1 hg

theorem length_eq_of_mem_iff {m s : List (K × V)} (hm : (m.map Prod.fst).Nodup) (hs : (s.map Prod.fst).Nodup)
    (h : ∀ p, p ∈ m ↔ p ∈ s) : m.length = s.length :=
  ((List.perm_ext_iff_of_nodup (List.Nodup.of_map _ hm) (List.Nodup.of_map _ hs)).2 h).length_eq


/-! ### the abstraction relation -/

/-- `R om s`: the model state `om` represents the association list `s`. -/
def R : OM K V → List (K × V) → Prop
  | .uninit, s => s = []
  | .init ps l, s =>
    l = s.map Prod.fst ∧ (s.map Prod.fst).Nodup ∧ (ps.map Prod.fst).Nodup ∧ ∀ p, p ∈ ps ↔ p ∈ s

theorem R_new : R (new : OM K V) [] := by simp [R, new]
theorem R_zero : R (zero : OM K V) [] := rfl

theorem R_ensure {m : OM K V} {s} (h : R m s) :
    R (.init (ensureInitialized m).1 (ensureInitialized m).2) s := by
  cases m with
  | uninit => simp [R] at h; subst h; simp [R, ensureInitialized]
  | init ps l => exact h

section init
variable {ps : List (K × V)} {l : List K} {s : List (K × V)} (h : R (.init ps l) s)
include h

theorem R.get (k : K) : GoMap.get ps k = slookup s k :=
  (get_congr h.2.2.1 h.2.1 h.2.2.2 k).trans (get_eq_lookup s k)

theorem R.pairOf_mem {p : K × V} (hp : p ∈ s) : pairOf ps p.1 = some p := by
  have : GoMap.get ps p.1 = some p.2 := (get_some_iff h.2.2.1 _ _).2 ((h.2.2.2 p).2 hp)
  simp [pairOf, this]

theorem R.pairOf_not_mem {k : K} (hk : k ∉ s.map Prod.fst) : pairOf ps k = none := by
  have : GoMap.get ps k = none := by
    rw [h.get, ← get_eq_lookup, get_none_iff]; exact hk
  simp [pairOf, this]

theorem R.pairOf (k : K) : pairOf ps k = (slookup s k).map (fun v => (k, v)) := by
  simp [OrderedMap.pairOf, h.get]

end init

theorem filterMap_eq_self {α : Type} (f : α → Option α) (l : List α) (h : ∀ x ∈ l, f x = some x) :
    l.filterMap f = l := by
  induction l with
  | nil => rfl
  | cons a t ih =>
    rw [List.filterMap_cons, h a (by simp)]
    simp [ih (fun x hx => h x (by simp [hx]))]

theorem foreach_sim {m : OM K V} {s} (h : R m s) : foreach m = s := by
  cases m with
  | uninit => exact h.symm
  | init ps l =>
    simp only [foreach]
    rw [h.1, List.filterMap_map]
    exact filterMap_eq_self _ _ (fun p hp => h.pairOf_mem hp)

theorem get_sim {m : OM K V} {s} (h : R m s) (k : K) : get m k = slookup s k := by
  cases m with
  | uninit => simp [R] at h; subst h; rfl
  | init ps l => exact h.get k

theorem contains_sim {m : OM K V} {s} (h : R m s) (k : K) : contains m k = shasKey s k := by
  cases m with
  | uninit => simp [R] at h; subst h; rfl
  | init ps l => simp [contains, shasKey, h.get]

theorem getPair_sim {m : OM K V} {s} (h : R m s) (k : K) :
    getPair m k = (slookup s k).map (fun v => (k, v)) := by
  cases m with
  | uninit => simp [R] at h; subst h; rfl
  | init ps l => exact h.pairOf k

theorem len_sim {m : OM K V} {s} (h : R m s) : len m = s.length := by
  cases m with
  | uninit => simp [R] at h; subst h; rfl
  | init ps l => exact length_eq_of_mem_iff h.2.2.1 h.2.1 h.2.2.2

theorem clear_sim {m : OM K V} {s} (_h : R m s) : R (clear m) [] := by
  cases m with
  | uninit => rfl
  | init ps l => simp [clear, R]

theorem keys_setValue (s : List (K × V)) (k : K) (v : V) :
    (ssetValue s k v).map Prod.fst = s.map Prod.fst := by
  simp only [ssetValue, List.map_map]
  apply List.map_congr_left
  intro p _
  by_cases hp : p.1 = k <;> simp [hp]

theorem keys_delete_nodup {m : List (K × V)} (hm : (m.map Prod.fst).Nodup) (k : K) :
    ((GoMap.delete m k).map Prod.fst).Nodup :=
  List.Nodup.sublist (List.filter_sublist.map _) hm

theorem not_mem_keys_delete (m : List (K × V)) (k : K) : k ∉ (GoMap.delete m k).map Prod.fst := by
  simp [GoMap.delete, List.mem_map, List.mem_filter]

theorem set_sim {m : OM K V} {s} (h : R m s) (k : K) (v : V) :
    R (set m k v).1 (sset s k v).1 ∧ (set m k v).2 = (sset s k v).2 := by
  have h' := R_ensure h
  simp only [OrderedMap.set, sset]
  generalize (ensureInitialized m).1 = ps at h' ⊢
  generalize (ensureInitialized m).2 = l at h' ⊢
  rw [h'.get k]
  cases hl : slookup s k with
  | some old =>
    refine ⟨?_, rfl⟩
    refine ⟨?_, ?_, ?_, ?_⟩
    · rw [keys_setValue]; exact h'.1
    · rw [keys_setValue]; exact h'.2.1
    · have : setPairValue ps k v = ssetValue ps k v := rfl
      rw [this, keys_setValue]; exact h'.2.2.1
    · intro p
      simp only [setPairValue, ssetValue, List.mem_map, h'.2.2.2]
  | none =>
    have hk : k ∉ s.map Prod.fst := by
      rw [← get_eq_lookup, get_none_iff] at hl; exact hl
    refine ⟨?_, rfl⟩
    refine ⟨?_, ?_, ?_, ?_⟩
    · simp [h'.1]
    · rw [List.map_append, List.nodup_append]
      refine ⟨h'.2.1, by simp, ?_⟩
      intro a ha b hb
      simp at hb; subst hb
      exact fun e => hk (e ▸ ha)
    · simp only [GoMap.put, List.map_cons, List.nodup_cons]
      exact ⟨not_mem_keys_delete ps k, keys_delete_nodup h'.2.2.1 k⟩
    · intro p
      have hne : p ∈ s → p.1 ≠ k := fun hp e => hk (e ▸ List.mem_map_of_mem (f := Prod.fst) hp)
      simp only [GoMap.put, GoMap.delete, List.mem_cons, List.mem_filter, List.mem_append,
        List.not_mem_nil, or_false, h'.2.2.2, decide_eq_true_eq]
      constructor
      · rintro (e | ⟨hp, _⟩)
        · exact .inr e
        · exact .inl hp
      · rintro (hp | e)
        · exact .inr ⟨hp, hne hp⟩
        · exact .inl e

theorem delete_sim {m : OM K V} {s} (h : R m s) (k : K) :
    R (delete m k).1 (sdelete s k).1 ∧ (delete m k).2 = (sdelete s k).2 := by
  cases m with
  | uninit => simp [R] at h; subst h; exact ⟨rfl, rfl⟩
  | init ps l =>
    simp only [delete, sdelete]
    rw [h.get k]
    cases hl : slookup s k with
    | none => exact ⟨h, rfl⟩
    | some old =>
      refine ⟨⟨?_, ?_, ?_, ?_⟩, rfl⟩
      · rw [h.1, List.Nodup.erase_eq_filter h.2.1, List.filter_map]
        congr 1
        apply List.filter_congr
        intro p _
        by_cases hp : p.1 = k <;> simp [hp]
      · exact List.Nodup.sublist (List.filter_sublist.map _) h.2.1
      · exact keys_delete_nodup h.2.2.1 k
      · intro p
        simp only [GoMap.delete, List.mem_filter, h.2.2.2]


theorem oldest_sim {m : OM K V} {s} (h : R m s) : oldest m = s.head? := by
  cases m with
  | uninit => simp [R] at h; subst h; rfl
  | init ps l =>
    simp only [oldest, h.1, List.head?_map]
    cases s with
    | nil => rfl
    | cons p t => simpa using h.pairOf_mem (p := p) (by simp)

theorem newest_sim {m : OM K V} {s} (h : R m s) : newest m = s.getLast? := by
  cases m with
  | uninit => simp [R] at h; subst h; rfl
  | init ps l =>
    simp only [newest, h.1, List.getLast?_map]
    cases hs : s.getLast? with
    | none => rfl
    | some p => simpa using h.pairOf_mem (List.mem_of_getLast? hs)

theorem dropWhile_eq_nil {α : Type} (p : α → Bool) (l : List α) (h : l.dropWhile p = []) :
    ∀ x ∈ l, p x = true := by
  induction l with
  | nil => simp
  | cons a t ih =>
    by_cases ha : p a = true
    · simp only [List.dropWhile_cons, ha, if_true] at h
      intro x hx
      rcases List.mem_cons.1 hx with rfl | hx
      · exact ha
      · exact ih h x hx
    · simp [ha] at h

/-- `Next`, for any list of pairs whose keys are `l` and whose members are found by `pairOf` -/
theorem next_aux {ps : List (K × V)} {l : List K} {s : List (K × V)} (hl : l = s.map Prod.fst)
    (hmem : ∀ p ∈ s, pairOf ps p.1 = some p) (hnot : ∀ k, k ∉ s.map Prod.fst → pairOf ps k = none) (k : K) :
    (match pairOf ps k with
      | none => none
      | some _ => some (match elementAfter l k with | none => none | some k' => pairOf ps k')) = snext s k := by
  have hd : l.dropWhile (fun x => decide (x ≠ k)) = (s.dropWhile (fun p => decide (p.1 ≠ k))).map Prod.fst := by
    rw [hl, List.dropWhile_map]; rfl
  simp only [snext, elementAfter, hd]
  have hsuf : ∀ p ∈ s.dropWhile (fun p => decide (p.1 ≠ k)), p ∈ s :=
    fun p hp => (List.dropWhile_suffix _).subset hp
  cases hdw : s.dropWhile (fun p => decide (p.1 ≠ k)) with
  | nil =>
    have : k ∉ s.map Prod.fst := by
      have hdw' := dropWhile_eq_nil _ _ hdw
      simp only [List.mem_map, not_exists, not_and]
      intro p hp e
      have := hdw' p hp
      simp [e] at this
    simp [hnot k this]
  | cons p0 rest =>
    have hp0 : p0.1 = k := by
      have := List.head?_dropWhile_not (fun p : K × V => decide (p.1 ≠ k)) s
      rw [hdw] at this
      simpa using this
    rw [hdw] at hsuf
    have : pairOf ps k = some p0 := hp0 ▸ hmem p0 (hsuf p0 (by simp))
    rw [this]
    cases rest with
    | nil => rfl
    | cons p1 rest' => simp [hmem p1 (hsuf p1 (by simp))]

theorem next_sim {m : OM K V} {s} (h : R m s) (k : K) : next m k = snext s k := by
  cases m with
  | uninit => simp [R] at h; subst h; rfl
  | init ps l => exact next_aux h.1 (fun p hp => h.pairOf_mem hp) (fun k hk => h.pairOf_not_mem hk) k

theorem prev_sim {m : OM K V} {s} (h : R m s) (k : K) : prev m k = sprev s k := by
  cases m with
  | uninit => simp [R] at h; subst h; rfl
  | init ps l =>
    refine next_aux (s := s.reverse) (by rw [h.1, List.map_reverse])
      (fun p hp => h.pairOf_mem (by simpa using hp)) (fun k hk => h.pairOf_not_mem (by simpa using hk)) k

theorem foreachWithIndex_sim {m : OM K V} {s} (h : R m s) : foreachWithIndex m = withIndex 0 s := by
  cases m with
  | uninit => simp [R] at h; subst h; rfl
  | init ps l => simp only [foreachWithIndex, foreach_sim h]

theorem foreachWithError_sim {m : OM K V} {s} (h : R m s) (stop : K → Bool) :
    foreachWithError m stop = ((visitUntil (fun p => stop p.1) s).2, (visitUntil (fun p => stop p.1) s).1) := by
  cases m with
  | uninit => simp [R] at h; subst h; rfl
  | init ps l => simp only [foreachWithError, foreach_sim h]

theorem forAllKeys_sim {m : OM K V} {s} (h : R m s) (p : K → Bool) :
    forAllKeys m p = (!(visitUntil (fun k => !p k) (s.map Prod.fst)).1, (visitUntil (fun k => !p k) (s.map Prod.fst)).2) := by
  cases m with
  | uninit => simp [R] at h; subst h; rfl
  | init ps l => simp only [forAllKeys, foreach_sim h]

theorem forAnyKey_sim {m : OM K V} {s} (h : R m s) (p : K → Bool) :
    forAnyKey m p = visitUntil p (s.map Prod.fst) := by
  cases m with
  | uninit => simp [R] at h; subst h; rfl
  | init ps l => simp only [forAnyKey, foreach_sim h]

theorem foldl_and_eq_all {α : Type} (g : α → Bool) (l : List α) (acc : Bool) :
    l.foldl (fun acc p => acc && g p) acc = (acc && l.all g) := by
  induction l generalizing acc with
  | nil => simp
  | cons a t ih => simp [ih, Bool.and_assoc]

theorem disj_sim {m o : OM K V} {s t} (h : R m s) (ho : R o t) :
    keySetIsDisjointFrom m o = s.all (fun p => !shasKey t p.1) := by
  simp only [keySetIsDisjointFrom, foreach_sim h, contains_sim ho]
  have := foldl_and_eq_all (fun p : K × V => !shasKey t p.1) s true
  simpa using this

theorem foldl_set_sim (ol : List (K × V)) {m : OM K V} {s} (h : R m s) :
    R (ol.foldl (fun m p => (set m p.1 p.2).1) m) (ol.foldl (fun s p => (sset s p.1 p.2).1) s) := by
  induction ol generalizing m s with
  | nil => exact h
  | cons p t ih => exact ih (set_sim h p.1 p.2).1

theorem setAll_sim {m : OM K V} {s} (h : R m s) {o : Option (OM K V)} {t : Option (List (K × V))}
    (ho : match o, t with | none, none => True | some o, some t => R o t | _, _ => False) :
    R (setAll m o) (ssetAll s t) := by
  match o, t, ho with
  | none, none, _ => exact h
  | some o, some t, ho =>
    simp only [setAll, ssetAll, foreach_sim ho]
    exact foldl_set_sim t h

theorem union_sim {m o : OM K V} {s t} (h : R m s) (ho : R o t) :
    R (keySetUnion m o) (ssetAll (ssetAll [] (some s)) (some t)) :=
  setAll_sim (setAll_sim R_new (o := some m) (t := some s) h) (o := some o) (t := some t) ho

/-- spec level: setting the entries of a key-distinct list whose keys are new appends them -/
theorem foldl_sset_append (t acc : List (K × V)) (ht : (t.map Prod.fst).Nodup)
    (hd : ∀ k ∈ t.map Prod.fst, k ∉ acc.map Prod.fst) :
    t.foldl (fun s p => (sset s p.1 p.2).1) acc = acc ++ t := by
  induction t generalizing acc with
  | nil => simp
  | cons p t ih =>
    simp only [List.map_cons, List.nodup_cons] at ht
    have hp : slookup acc p.1 = none := by
      rw [← get_eq_lookup, get_none_iff]; exact hd p.1 (by simp)
    have hset : (sset acc p.1 p.2).1 = acc ++ [p] := by simp [sset, hp]
    simp only [List.foldl_cons, hset]
    rw [ih _ ht.2]
    · simp
    · intro k hk
      simp only [List.map_append, List.map_cons, List.map_nil, List.mem_append, List.mem_singleton, not_or]
      exact ⟨hd k (by simp [hk]), fun e => ht.1 (e ▸ hk)⟩

theorem inter_sim {m o : OM K V} {s t} (h : R m s) (ho : R o t) (hs : (s.map Prod.fst).Nodup) :
    R (keySetIntersection m o) (s.filter (fun p => shasKey t p.1)) := by
  simp only [keySetIntersection, foreach_sim h, contains_sim ho]
  have key : ∀ (l : List (K × V)) {m' : OM K V} {s'}, R m' s' →
      R (l.foldl (fun m p => if shasKey t p.1 then (set m p.1 p.2).1 else m) m')
        ((l.filter (fun p => shasKey t p.1)).foldl (fun s p => (sset s p.1 p.2).1) s') := by
    intro l
    induction l with
    | nil => intro m' s' h'; exact h'
    | cons p l ih =>
      intro m' s' h'
      by_cases hp : shasKey t p.1
      · simp only [List.foldl_cons, hp, if_true, List.filter_cons_of_pos]
        exact ih (set_sim h' p.1 p.2).1
      · simp only [List.foldl_cons, hp, List.filter_cons_of_neg, Bool.false_eq_true, if_false, not_false_eq_true]
        exact ih h'
  have := key s R_new
  rwa [foldl_sset_append _ [] (List.Nodup.sublist (List.filter_sublist.map _) hs) (by simp), List.nil_append] at this

/-- the relation invariant gives key-distinctness of the spec list, except for the zero value -/
theorem R.nodup {m : OM K V} {s} (h : R m s) : (s.map Prod.fst).Nodup := by
  cases m with
  | uninit => simp [R] at h; subst h; simp
  | init ps l => exact h.2.1


theorem visitUntil_fst {α : Type} (stop : α → Bool) (l : List α) : (visitUntil stop l).1 = l.any stop := by
  induction l with
  | nil => rfl
  | cons a t ih => by_cases h : stop a <;> simp [visitUntil, h, ih]

theorem visitUntil_not_fst {α : Type} (p : α → Bool) (l : List α) :
    (!(visitUntil (fun k => !p k) l).1) = l.all p := by
  induction l with
  | nil => rfl
  | cons a t ih => by_cases h : p a <;> simp [visitUntil, h, ← ih]

/-! ### op-sequence simulation, generic in the two implementations -/

/-- per-method simulation conditions between two implementations of the ordered-map interface -/
structure Sim (I J : OMImpl K V) (R : I.M → J.M → Prop) : Prop where
  new : R I.new J.new
  zero : R I.zero J.zero
  set : ∀ {m s}, R m s → ∀ k v, R (I.set m k v).1 (J.set s k v).1 ∧ (I.set m k v).2 = (J.set s k v).2
  get : ∀ {m s}, R m s → ∀ k, I.get m k = J.get s k
  contains : ∀ {m s}, R m s → ∀ k, I.contains m k = J.contains s k
  getPair : ∀ {m s}, R m s → ∀ k, I.getPair m k = J.getPair s k
  delete : ∀ {m s}, R m s → ∀ k, R (I.delete m k).1 (J.delete s k).1 ∧ (I.delete m k).2 = (J.delete s k).2
  len : ∀ {m s}, R m s → I.len m = J.len s
  oldest : ∀ {m s}, R m s → I.oldest m = J.oldest s
  newest : ∀ {m s}, R m s → I.newest m = J.newest s
  next : ∀ {m s}, R m s → ∀ k, I.next m k = J.next s k
  prev : ∀ {m s}, R m s → ∀ k, I.prev m k = J.prev s k
  foreach : ∀ {m s}, R m s → I.foreach m = J.foreach s
  foreachWithIndex : ∀ {m s}, R m s → I.foreachWithIndex m = J.foreachWithIndex s
  foreachWithError : ∀ {m s}, R m s → ∀ stop, I.foreachWithError m stop = J.foreachWithError s stop
  forAllKeys : ∀ {m s}, R m s → ∀ p, I.forAllKeys m p = J.forAllKeys s p
  forAnyKey : ∀ {m s}, R m s → ∀ p, I.forAnyKey m p = J.forAnyKey s p
  disj : ∀ {m s o t}, R m s → R o t → I.keySetIsDisjointFrom m o = J.keySetIsDisjointFrom s t
  inter : ∀ {m s o t}, R m s → R o t → R (I.keySetIntersection m o) (J.keySetIntersection s t)
  union : ∀ {m s o t}, R m s → R o t → R (I.keySetUnion m o) (J.keySetUnion s t)
  setAllNone : ∀ {m s}, R m s → R (I.setAll m none) (J.setAll s none)
  setAllSome : ∀ {m s o t}, R m s → R o t → R (I.setAll m (some o)) (J.setAll s (some t))
  clear : ∀ {m s}, R m s → R (I.clear m) (J.clear s)

theorem regs_put {α β : Type} {R : α → β → Prop} {ra : Regs α} {rb : Regs β} (h : ∀ r, R (ra r) (rb r))
    (t : Nat) {x : α} {y : β} (hxy : R x y) : ∀ r, R (ra.put t x r) (rb.put t y r) := by
  intro r
  by_cases hr : r = t <;> simp [Regs.put, hr, hxy, h r]

theorem Sim.step {I J : OMImpl K V} {R : I.M → J.M → Prop} (S : Sim I J R) {ra : Regs I.M} {rb : Regs J.M}
    (h : ∀ r, R (ra r) (rb r)) (op : OMOp K V) :
    (∀ r, R ((I.step ra op).1 r) ((J.step rb op).1 r)) ∧ (I.step ra op).2 = (J.step rb op).2 := by
  cases op with
  | set r k v => exact ⟨regs_put h r (S.set (h r) k v).1, by simp [OMImpl.step, (S.set (h r) k v).2]⟩
  | get r k => exact ⟨h, by simp [OMImpl.step, S.get (h r) k]⟩
  | has r k => exact ⟨h, by simp [OMImpl.step, S.contains (h r) k]⟩
  | pair r k => exact ⟨h, by simp [OMImpl.step, S.getPair (h r) k]⟩
  | del r k => exact ⟨regs_put h r (S.delete (h r) k).1, by simp [OMImpl.step, (S.delete (h r) k).2]⟩
  | len r => exact ⟨h, by simp [OMImpl.step, S.len (h r)]⟩
  | oldest r => exact ⟨h, by simp [OMImpl.step, S.oldest (h r)]⟩
  | newest r => exact ⟨h, by simp [OMImpl.step, S.newest (h r)]⟩
  | next r k => exact ⟨h, by simp [OMImpl.step, S.next (h r) k]⟩
  | prev r k => exact ⟨h, by simp [OMImpl.step, S.prev (h r) k]⟩
  | each r => exact ⟨h, by simp [OMImpl.step, S.foreach (h r)]⟩
  | eachIdx r => exact ⟨h, by simp [OMImpl.step, S.foreachWithIndex (h r)]⟩
  | eachErr r stop => exact ⟨h, by simp [OMImpl.step, S.foreachWithError (h r) stop]⟩
  | all r p => exact ⟨h, by simp [OMImpl.step, S.forAllKeys (h r) p]⟩
  | any r p => exact ⟨h, by simp [OMImpl.step, S.forAnyKey (h r) p]⟩
  | disj r s => exact ⟨h, by simp [OMImpl.step, S.disj (h r) (h s)]⟩
  | inter r s t => exact ⟨regs_put h t (S.inter (h r) (h s)), rfl⟩
  | union r s t => exact ⟨regs_put h t (S.union (h r) (h s)), rfl⟩
  | setAll r s =>
    cases s with
    | none => exact ⟨regs_put h r (S.setAllNone (h r)), rfl⟩
    | some s => exact ⟨regs_put h r (S.setAllSome (h r) (h s)), rfl⟩
  | clear r => exact ⟨regs_put h r (S.clear (h r)), rfl⟩

theorem Sim.run_eq {I J : OMImpl K V} {R : I.M → J.M → Prop} (S : Sim I J R) (ops : List (OMOp K V))
    {ra : Regs I.M} {rb : Regs J.M} (h : ∀ r, R (ra r) (rb r)) : I.run ra ops = J.run rb ops := by
  induction ops generalizing ra rb with
  | nil => rfl
  | cons op ops ih =>
    have := S.step h op
    simp only [OMImpl.run, this.2, ih this.1]

theorem Sim.init {I J : OMImpl K V} {R : I.M → J.M → Prop} (S : Sim I J R) (z : Nat → Bool) :
    ∀ r, R (I.init z r) (J.init z r) := by
  intro r
  by_cases hz : z r <;> simp [OMImpl.init, hz, S.new, S.zero]

/-- the code-shaped model simulates the association-list spec -/
theorem model_sim : Sim (OrderedMap.impl K V) (Verif.Spec.DS.OM.impl K V) R where
  new := R_new
  zero := R_zero
  set := fun h k v => set_sim h k v
  get := fun h k => get_sim h k
  contains := fun h k => contains_sim h k
  getPair := fun h k => getPair_sim h k
  delete := fun h k => delete_sim h k
  len := fun h => len_sim h
  oldest := fun h => oldest_sim h
  newest := fun h => newest_sim h
  next := fun h k => next_sim h k
  prev := fun h k => prev_sim h k
  foreach := fun h => foreach_sim h
  foreachWithIndex := fun h => foreachWithIndex_sim h
  foreachWithError := fun h stop => foreachWithError_sim h stop
  forAllKeys := fun h p => forAllKeys_sim h p
  forAnyKey := fun h p => forAnyKey_sim h p
  disj := fun h ho => disj_sim h ho
  inter := fun h ho => inter_sim h ho h.nodup
  union := fun h ho => union_sim h ho
  setAllNone := fun h => h
  setAllSome := fun h ho => setAll_sim h (o := some _) (t := some _) ho
  clear := fun h => clear_sim h

/-- every spec state reachable through the relation is key-distinct (insertion-ordered *map*) -/
theorem spec_keys_nodup {m : OM K V} {s} (h : R m s) : (s.map Prod.fst).Nodup := h.nodup

end Verif.Proofs.DS.OM
