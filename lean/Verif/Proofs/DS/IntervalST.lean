/-
C51 — lemmas for the interval tree: the invariant (every node caches size and max of its subtree;
the in-order entries are sorted by `(min, max)`), its preservation by `rootInsert` and
`randomizedInsert` under every oracle, and correctness of the searches.
-/
import Mathlib.Data.List.Nodup
import Verif.Model.DS.IntervalST
namespace Verif.Proofs.DS.IST
open Verif.Model.DS Verif.Model.DS.IntervalST

variable {T : Type}

/-- `a ≤ b` in the order of `Interval.Compare` -/
def ile (a b : Interval) : Prop := a.min < b.min ∨ (a.min = b.min ∧ a.max ≤ b.max)

theorem compare_lt_iff (a b : Interval) :
    a.compare b = .lt ↔ (a.min < b.min ∨ (a.min = b.min ∧ a.max < b.max)) := by
  unfold Interval.compare
  split_ifs <;> simp <;> omega

theorem compare_gt_iff (a b : Interval) :
    a.compare b = .gt ↔ (b.min < a.min ∨ (a.min = b.min ∧ b.max < a.max)) := by
  unfold Interval.compare
  split_ifs <;> simp <;> omega

theorem compare_eq_iff (a b : Interval) : a.compare b = .eq ↔ a = b := by
  constructor
  · intro h
    unfold Interval.compare at h
    split_ifs at h
    obtain ⟨a1, a2⟩ := a; obtain ⟨b1, b2⟩ := b
    simp only [Interval.mk.injEq] at *
    omega
  · rintro rfl
    simp [Interval.compare]

theorem ile_of_lt {a b : Interval} (h : a.compare b = .lt) : ile a b := by
  rw [compare_lt_iff] at h; unfold ile; omega
theorem ile_of_not_lt {a b : Interval} (h : ¬ a.compare b = .lt) : ile b a := by
  rw [compare_lt_iff] at h; unfold ile; omega
theorem ile_trans {a b c : Interval} (h1 : ile a b) (h2 : ile b c) : ile a c := by
  unfold ile at *; omega

/-- `a ≤ b` on positions with `none` = MinPosition -/
def ple : Option Int → Option Int → Prop
  | none, _ => True
  | some _, none => False
  | some a, some b => a ≤ b

theorem pcmp_ne_lt_iff (a b : Option Int) : pcmp a b ≠ .lt ↔ ple b a := by
  cases a <;> cases b <;> simp [pcmp, ple]
  split_ifs <;> simp <;> omega

theorem pcmp_lt_some_iff (m : Option Int) (p : Int) : pcmp m (some p) = .lt ↔ ∀ x, m = some x → x < p := by
  cases m <;> simp [pcmp]
  split_ifs <;> simp <;> omega

theorem ple_refl (a : Option Int) : ple a a := by cases a <;> simp [ple]
theorem ple_trans {a b c : Option Int} (h1 : ple a b) (h2 : ple b c) : ple a c := by
  cases a <;> cases b <;> cases c <;> simp_all [ple]; omega
theorem ple_total (a b : Option Int) : ple a b ∨ ple b a := by
  cases a <;> cases b <;> simp [ple]; omega

theorem max3_spec (a b c : Option Int) :
    (max3 a b c = a ∨ max3 a b c = b ∨ max3 a b c = c) ∧
    ple a (max3 a b c) ∧ ple b (max3 a b c) ∧ ple c (max3 a b c) := by
  unfold max3
  split_ifs with h1 h2
  · exact ⟨.inr (.inl rfl), (pcmp_ne_lt_iff _ _).1 h1.1, ple_refl _, (pcmp_ne_lt_iff _ _).1 h1.2⟩
  · exact ⟨.inr (.inr rfl), (pcmp_ne_lt_iff _ _).1 h2.1, (pcmp_ne_lt_iff _ _).1 h2.2, ple_refl _⟩
  · have h1' : ¬ (ple a b ∧ ple c b) := fun h => h1 ⟨(pcmp_ne_lt_iff _ _).2 h.1, (pcmp_ne_lt_iff _ _).2 h.2⟩
    have h2' : ¬ (ple a c ∧ ple b c) := fun h => h2 ⟨(pcmp_ne_lt_iff _ _).2 h.1, (pcmp_ne_lt_iff _ _).2 h.2⟩
    refine ⟨.inl rfl, ple_refl _, ?_, ?_⟩ <;>
    · cases a <;> cases b <;> cases c <;> simp_all [ple] <;> omega

/-! ### the invariant -/

/-- every node caches the size and the max endpoint of its subtree (`fix` would not change it) -/
def Fixed : Tree T → Prop
  | .nil => True
  | .node i _ m l r n => Fixed l ∧ Fixed r ∧ m = max3 (some i.max) l.maxPos r.maxPos ∧ n = 1 + l.size + r.size

/-- BST order: the in-order entries are sorted by `(min, max)` (non-strict: duplicates allowed) -/
def Sorted (t : Tree T) : Prop := (entries t).Pairwise (fun a b => ile a.1 b.1)

def Inv (t : Tree T) : Prop := Fixed t ∧ Sorted t

theorem entries_fix (t : Tree T) : entries t.fix = entries t := by cases t <;> rfl

theorem fixed_fix_node {i : Interval} {v : T} {m : Option Int} {l r : Tree T} {n : Nat}
    (hl : Fixed l) (hr : Fixed r) : Fixed (Tree.node i v m l r n).fix := ⟨hl, hr, rfl, rfl⟩

theorem entries_rotR (t : Tree T) : entries t.rotR = entries t := by
  unfold Tree.rotR
  split
  · simp [Tree.fix, entries]
  · rfl

theorem entries_rotL (t : Tree T) : entries t.rotL = entries t := by
  unfold Tree.rotL
  split
  · simp [Tree.fix, entries]
  · rfl

theorem fixed_rotR {i : Interval} {v : T} {m : Option Int} {l r : Tree T} {n : Nat}
    (hl : Fixed l) (hr : Fixed r) (hne : l ≠ .nil) : Fixed (Tree.node i v m l r n).rotR := by
  cases l with
  | nil => exact absurd rfl hne
  | node xi xv xm xl xr xn =>
    exact fixed_fix_node (m := xm) (n := xn) hl.1 (fixed_fix_node (m := m) (n := n) hl.2.1 hr)

theorem fixed_rotL {i : Interval} {v : T} {m : Option Int} {l r : Tree T} {n : Nat}
    (hl : Fixed l) (hr : Fixed r) (hne : r ≠ .nil) : Fixed (Tree.node i v m l r n).rotL := by
  cases r with
  | nil => exact absurd rfl hne
  | node xi xv xm xl xr xn =>
    exact fixed_fix_node (m := xm) (n := xn) (fixed_fix_node (m := m) (n := n) hl hr.1) hr.2.1

theorem rootInsert_ne_nil (t : Tree T) (i : Interval) (v : T) : rootInsert t i v ≠ .nil := by
  cases t with
  | nil => simp [rootInsert, newNode]
  | node xi xv xm l r n =>
    unfold rootInsert
    split
    · have := rootInsert_ne_nil l i v
      cases h : rootInsert l i v with
      | nil => exact absurd h this
      | node => simp [Tree.rotR, Tree.fix]
    · have := rootInsert_ne_nil r i v
      cases h : rootInsert r i v with
      | nil => exact absurd h this
      | node => simp [Tree.rotL, Tree.fix]

theorem fixed_rootInsert {t : Tree T} (h : Fixed t) (i : Interval) (v : T) : Fixed (rootInsert t i v) := by
  induction t with
  | nil => exact ⟨trivial, trivial, by simp [Tree.maxPos, max3, pcmp], rfl⟩
  | node xi xv xm l r n ihl ihr =>
    unfold rootInsert
    split
    · exact fixed_rotR (ihl h.1) h.2.1 (rootInsert_ne_nil l i v)
    · exact fixed_rotL h.1 (ihr h.2.1) (rootInsert_ne_nil r i v)


theorem fixed_randomizedInsert {t : Tree T} (h : Fixed t) (i : Interval) (v : T) (o : List Bool) :
    Fixed (randomizedInsert t i v o) := by
  induction t generalizing o with
  | nil => exact fixed_rootInsert (t := .nil) trivial i v
  | node xi xv xm l r n ihl ihr =>
    unfold randomizedInsert
    split
    · exact fixed_rootInsert h i v
    · split
      · exact fixed_fix_node (ihl h.1 _) h.2.1
      · exact fixed_fix_node h.1 (ihr h.2.1 _)

/-! ### entries: insertion adds exactly one entry -/

theorem entries_rootInsert (t : Tree T) (i : Interval) (v : T) :
    (entries (rootInsert t i v)).Perm ((i, v) :: entries t) := by
  induction t with
  | nil => simp [rootInsert, newNode, entries]
  | node xi xv xm l r n ihl ihr =>
    unfold rootInsert
    split
    · rw [entries_rotR]
      simp only [entries]
      exact (ihl.append_right _).trans (by simp)
    · rw [entries_rotL]
      simp only [entries]
      refine ((ihr.cons (xi, xv)).append_left (entries l)).trans ?_
      refine (List.perm_middle (l₁ := entries l ++ [(xi, xv)]) (a := (i, v)) (l₂ := entries r) |> fun h => ?_)
      simpa using h

theorem entries_randomizedInsert (t : Tree T) (i : Interval) (v : T) (o : List Bool) :
    (entries (randomizedInsert t i v o)).Perm ((i, v) :: entries t) := by
  induction t generalizing o with
  | nil => simp [randomizedInsert, newNode, entries]
  | node xi xv xm l r n ihl ihr =>
    unfold randomizedInsert
    split
    · exact entries_rootInsert _ i v
    · split
      · rw [entries_fix]
        simp only [entries]
        exact ((ihl _).append_right _).trans (by simp)
      · rw [entries_fix]
        simp only [entries]
        refine (((ihr _).cons (xi, xv)).append_left (entries l)).trans ?_
        have h := List.perm_middle (l₁ := entries l ++ [(xi, xv)]) (a := (i, v)) (l₂ := entries r)
        simpa using h

/-! ### sortedness -/

theorem sorted_node_iff (xi : Interval) (xv : T) (xm : Option Int) (l r : Tree T) (n : Nat) :
    Sorted (.node xi xv xm l r n) ↔
      Sorted l ∧ Sorted r ∧ (∀ a ∈ entries l, ile a.1 xi) ∧ (∀ b ∈ entries r, ile xi b.1) ∧
      (∀ a ∈ entries l, ∀ b ∈ entries r, ile a.1 b.1) := by
  simp only [Sorted, entries, List.pairwise_append, List.pairwise_cons, List.mem_cons]
  constructor
  · rintro ⟨hl, ⟨hx, hr⟩, hlr⟩
    exact ⟨hl, hr, fun a ha => hlr a ha _ (.inl rfl), hx, fun a ha b hb => hlr a ha b (.inr hb)⟩
  · rintro ⟨hl, hr, hlx, hxr, hlr⟩
    refine ⟨hl, ⟨hxr, hr⟩, ?_⟩
    rintro a ha b (rfl | hb)
    · exact hlx a ha
    · exact hlr a ha b hb

/-- a tree that has the same shape at the root and whose subtrees are sorted with the right bounds -/
theorem sorted_insert_left {xi : Interval} {xv : T} {xm xm' : Option Int} {l l' r : Tree T} {n n' : Nat}
    {i : Interval} {v : T} (h : Sorted (.node xi xv xm l r n)) (hl' : Sorted l')
    (hp : (entries l').Perm ((i, v) :: entries l)) (hlt : i.compare xi = .lt) :
    Sorted (.node xi xv xm' l' r n') := by
  rw [sorted_node_iff] at h ⊢
  obtain ⟨_, hr, hlx, hxr, hlr⟩ := h
  refine ⟨hl', hr, ?_, hxr, ?_⟩
  · intro a ha
    rcases List.mem_cons.1 (hp.mem_iff.1 ha) with rfl | ha
    · exact ile_of_lt hlt
    · exact hlx a ha
  · intro a ha b hb
    rcases List.mem_cons.1 (hp.mem_iff.1 ha) with rfl | ha
    · exact ile_trans (ile_of_lt hlt) (hxr b hb)
    · exact hlr a ha b hb

theorem sorted_insert_right {xi : Interval} {xv : T} {xm xm' : Option Int} {l r r' : Tree T} {n n' : Nat}
    {i : Interval} {v : T} (h : Sorted (.node xi xv xm l r n)) (hr' : Sorted r')
    (hp : (entries r').Perm ((i, v) :: entries r)) (hge : ¬ i.compare xi = .lt) :
    Sorted (.node xi xv xm' l r' n') := by
  rw [sorted_node_iff] at h ⊢
  obtain ⟨hl, _, hlx, hxr, hlr⟩ := h
  refine ⟨hl, hr', hlx, ?_, ?_⟩
  · intro b hb
    rcases List.mem_cons.1 (hp.mem_iff.1 hb) with rfl | hb
    · exact ile_of_not_lt hge
    · exact hxr b hb
  · intro a ha b hb
    rcases List.mem_cons.1 (hp.mem_iff.1 hb) with rfl | hb
    · exact ile_trans (hlx a ha) (ile_of_not_lt hge)
    · exact hlr a ha b hb

theorem sorted_of_entries_eq {t t' : Tree T} (h : entries t' = entries t) (hs : Sorted t) : Sorted t' := by
  unfold Sorted at *; rw [h]; exact hs

theorem sorted_rootInsert {t : Tree T} (h : Sorted t) (i : Interval) (v : T) : Sorted (rootInsert t i v) := by
  induction t with
  | nil => simp [Sorted, rootInsert, newNode, entries]
  | node xi xv xm l r n ihl ihr =>
    have hs := (sorted_node_iff xi xv xm l r n).1 h
    unfold rootInsert
    split
    next hlt =>
      exact sorted_of_entries_eq (entries_rotR _)
        (sorted_insert_left (xm' := xm) (n' := n) h (ihl hs.1) (entries_rootInsert l i v) hlt)
    next hge =>
      exact sorted_of_entries_eq (entries_rotL _)
        (sorted_insert_right (xm' := xm) (n' := n) h (ihr hs.2.1) (entries_rootInsert r i v) hge)

theorem sorted_randomizedInsert {t : Tree T} (h : Sorted t) (i : Interval) (v : T) (o : List Bool) :
    Sorted (randomizedInsert t i v o) := by
  induction t generalizing o with
  | nil => simp [Sorted, randomizedInsert, newNode, entries]
  | node xi xv xm l r n ihl ihr =>
    have hs := (sorted_node_iff xi xv xm l r n).1 h
    unfold randomizedInsert
    split
    · exact sorted_rootInsert h i v
    · split
      next hlt =>
        exact sorted_of_entries_eq (entries_fix _)
          (sorted_insert_left (xm' := xm) (n' := n) h (ihl hs.1 _) (entries_randomizedInsert l i v _) hlt)
      next hge =>
        exact sorted_of_entries_eq (entries_fix _)
          (sorted_insert_right (xm' := xm) (n' := n) h (ihr hs.2.1 _) (entries_randomizedInsert r i v _) hge)

/-! ### what the cached fields mean -/

theorem size_eq_length {t : Tree T} (h : Fixed t) : t.size = (entries t).length := by
  induction t with
  | nil => rfl
  | node xi xv xm l r n ihl ihr =>
    have h1 := ihl h.1
    have h2 := ihr h.2.1
    have h3 : (Tree.node xi xv xm l r n).size = 1 + l.size + r.size := h.2.2.2
    rw [h3]
    simp only [entries, List.length_append, List.length_cons]
    omega

/-- the cached max is an upper bound of all right endpoints in the subtree, and is attained -/
theorem maxPos_spec {t : Tree T} (h : Fixed t) :
    (∀ e ∈ entries t, ple (some e.1.max) t.maxPos) ∧
    (t ≠ .nil → ∃ e ∈ entries t, t.maxPos = some e.1.max) := by
  induction t with
  | nil => simp [entries]
  | node xi xv xm l r n ihl ihr =>
    obtain ⟨hl, hr, hm, _⟩ := h
    have ms := max3_spec (some xi.max) l.maxPos r.maxPos
    simp only [Tree.maxPos, hm]
    constructor
    · intro e he
      simp only [entries, List.mem_append, List.mem_cons] at he
      rcases he with he | rfl | he
      · exact ple_trans ((ihl hl).1 e he) ms.2.2.1
      · exact ms.2.1
      · exact ple_trans ((ihr hr).1 e he) ms.2.2.2
    · intro _
      rcases ms.1 with h1 | h1 | h1
      · exact ⟨(xi, xv), by simp [entries], h1⟩
      · by_cases hn : l = .nil
        · subst hn
          have := ms.2.1
          rw [h1] at this
          simp [Tree.maxPos, ple] at this
        · obtain ⟨e, he, hmax⟩ := (ihl hl).2 hn
          exact ⟨e, by simp [entries, he], h1.trans hmax⟩
      · by_cases hn : r = .nil
        · subst hn
          have := ms.2.1
          rw [h1] at this
          simp [Tree.maxPos, ple] at this
        · obtain ⟨e, he, hmax⟩ := (ihr hr).2 hn
          exact ⟨e, by simp [entries, he], h1.trans hmax⟩


/-! ### searches -/

theorem leftBelow_iff {l : Tree T} (h : Fixed l) (p : Int) :
    leftBelow l p = true ↔ ∀ e ∈ entries l, e.1.max < p := by
  cases l with
  | nil => simp [leftBelow, entries]
  | node xi xv xm ll lr n =>
    have ms := maxPos_spec h
    simp only [leftBelow, decide_eq_true_eq, pcmp_lt_some_iff]
    simp only [Tree.maxPos] at ms
    constructor
    · intro hm e he
      have := ms.1 e he
      cases hxm : xm with
      | none => rw [hxm] at this; simp [ple] at this
      | some x =>
        rw [hxm] at this
        have := hm x hxm
        simp [ple] at *; omega
    · intro hall x hx
      obtain ⟨e, he, hmax⟩ := ms.2 (by simp)
      have := hall e he
      rw [hx] at hmax
      simp at hmax; omega

theorem inv_left {xi : Interval} {xv : T} {xm : Option Int} {l r : Tree T} {n : Nat}
    (h : Inv (.node xi xv xm l r n)) : Inv l := ⟨h.1.1, ((sorted_node_iff ..).1 h.2).1⟩
theorem inv_right {xi : Interval} {xv : T} {xm : Option Int} {l r : Tree T} {n : Nat}
    (h : Inv (.node xi xv xm l r n)) : Inv r := ⟨h.1.2.1, ((sorted_node_iff ..).1 h.2).2.1⟩

theorem search_sound {t : Tree T} {p : Int} {e : Interval × T} (h : search t p = some e) :
    e ∈ entries t ∧ e.1.contains p = true := by
  induction t with
  | nil => simp [search] at h
  | node xi xv xm l r n ihl ihr =>
    unfold search at h
    split at h
    next hc => cases h; exact ⟨by simp [entries], hc⟩
    next =>
      split at h
      · have := ihr h; exact ⟨by simp [entries, this.1], this.2⟩
      · have := ihl h; exact ⟨by simp [entries, this.1], this.2⟩

theorem search_complete {t : Tree T} (hinv : Inv t) {p : Int}
    (hex : ∃ e ∈ entries t, e.1.contains p = true) : (search t p).isSome = true := by
  induction t with
  | nil => simp [entries] at hex
  | node xi xv xm l r n ihl ihr =>
    obtain ⟨e, he, hc⟩ := hex
    have hs := (sorted_node_iff ..).1 hinv.2
    unfold search
    split
    · rfl
    next hx =>
      simp only [entries, List.mem_append, List.mem_cons] at he
      split
      next hb =>
        have hall := (leftBelow_iff hinv.1.1 p).1 hb
        rcases he with he | rfl | he
        · have := hall e he
          simp [Interval.contains] at hc; omega
        · exact absurd hc hx
        · exact ihr (inv_right hinv) ⟨e, he, hc⟩
      next hb =>
        have : ∃ e0 ∈ entries l, p ≤ e0.1.max := by
          by_contra hno
          exact hb ((leftBelow_iff hinv.1.1 p).2 (fun e0 he0 => by
            by_contra hlt; exact hno ⟨e0, he0, by omega⟩))
        obtain ⟨e0, he0, hmax⟩ := this
        by_cases hc0 : e0.1.contains p = true
        · exact ihl (inv_left hinv) ⟨e0, he0, hc0⟩
        · have hmin : p < e0.1.min := by simp [Interval.contains] at hc0; omega
          rcases he with he | rfl | he
          · exact ihl (inv_left hinv) ⟨e, he, hc⟩
          · exact absurd hc hx
          · have := hs.2.2.2.2 e0 he0 e he
            unfold ile at this
            simp [Interval.contains] at hc; omega

theorem searchInterval_sound {t : Tree T} {q : Interval} {e : Interval × T} (h : searchInterval t q = some e) :
    e ∈ entries t ∧ e.1.intersects q = true := by
  induction t with
  | nil => simp [searchInterval] at h
  | node xi xv xm l r n ihl ihr =>
    unfold searchInterval at h
    split at h
    next hc => cases h; exact ⟨by simp [entries], hc⟩
    next =>
      split at h
      · have := ihr h; exact ⟨by simp [entries, this.1], this.2⟩
      · have := ihl h; exact ⟨by simp [entries, this.1], this.2⟩

theorem searchInterval_complete {t : Tree T} (hinv : Inv t) {q : Interval}
    (hex : ∃ e ∈ entries t, e.1.intersects q = true) : (searchInterval t q).isSome = true := by
  induction t with
  | nil => simp [entries] at hex
  | node xi xv xm l r n ihl ihr =>
    obtain ⟨e, he, hc⟩ := hex
    have hs := (sorted_node_iff ..).1 hinv.2
    unfold searchInterval
    split
    · rfl
    next hx =>
      simp only [entries, List.mem_append, List.mem_cons] at he
      split
      next hb =>
        have hall := (leftBelow_iff hinv.1.1 q.min).1 hb
        rcases he with he | rfl | he
        · have := hall e he
          simp [Interval.intersects] at hc; omega
        · exact absurd hc hx
        · exact ihr (inv_right hinv) ⟨e, he, hc⟩
      next hb =>
        have : ∃ e0 ∈ entries l, q.min ≤ e0.1.max := by
          by_contra hno
          exact hb ((leftBelow_iff hinv.1.1 q.min).2 (fun e0 he0 => by
            by_contra hlt; exact hno ⟨e0, he0, by omega⟩))
        obtain ⟨e0, he0, hmax⟩ := this
        by_cases hc0 : e0.1.intersects q = true
        · exact ihl (inv_left hinv) ⟨e0, he0, hc0⟩
        · have hmin : q.max < e0.1.min := by simp [Interval.intersects] at hc0; omega
          rcases he with he | rfl | he
          · exact ihl (inv_left hinv) ⟨e, he, hc⟩
          · exact absurd hc hx
          · have := hs.2.2.2.2 e0 he0 e he
            unfold ile at this
            simp [Interval.intersects] at hc; omega

theorem get_sound {t : Tree T} {q : Interval} {v : T} (h : IntervalST.get t q = some v) : (q, v) ∈ entries t := by
  induction t with
  | nil => simp [IntervalST.get] at h
  | node xi xv xm l r n ihl ihr =>
    unfold IntervalST.get at h
    split at h
    · simp [entries, ihl h]
    · simp [entries, ihr h]
    next heq =>
      cases h
      rw [compare_eq_iff] at heq
      simp [entries, heq]

theorem get_complete {t : Tree T} (hinv : Inv t) {q : Interval} (hex : ∃ v, (q, v) ∈ entries t) :
    (IntervalST.get t q).isSome = true := by
  induction t with
  | nil => simp [entries] at hex
  | node xi xv xm l r n ihl ihr =>
    obtain ⟨v, he⟩ := hex
    have hs := (sorted_node_iff ..).1 hinv.2
    simp only [entries, List.mem_append, List.mem_cons] at he
    unfold IntervalST.get
    split
    next hlt =>
      rw [compare_lt_iff] at hlt
      rcases he with he | he | he
      · exact ihl (inv_left hinv) ⟨v, he⟩
      · cases he; omega
      · have := hs.2.2.2.1 _ he; unfold ile at this; simp at this; omega
    next hgt =>
      rw [compare_gt_iff] at hgt
      rcases he with he | he | he
      · have := hs.2.2.1 _ he; unfold ile at this; simp at this; omega
      · cases he; omega
      · exact ihr (inv_right hinv) ⟨v, he⟩
    · rfl

/-! ### `searchAll` is exact -/

/-- the entries in the order `searchAll` visits them: node, left subtree, right subtree -/
def preorder : Tree T → List (Interval × T)
  | .nil => []
  | .node xi xv _ l r _ => (xi, xv) :: (preorder l ++ preorder r)

theorem preorder_perm (t : Tree T) : (preorder t).Perm (entries t) := by
  induction t with
  | nil => exact List.Perm.refl _
  | node xi xv xm l r n ihl ihr =>
    simp only [preorder, entries]
    exact ((ihl.append ihr).cons _).trans List.perm_middle.symm

/-- the entries containing `p`, in visiting order -/
def hits (t : Tree T) (p : Int) : List (Interval × T) := (preorder t).filter (fun e => e.1.contains p)

theorem hits_eq_nil_iff (t : Tree T) (p : Int) :
    hits t p = [] ↔ ∀ e ∈ entries t, e.1.contains p = false := by
  unfold hits
  rw [List.filter_eq_nil_iff]
  constructor
  · intro h e he; simpa using h e ((preorder_perm t).mem_iff.2 he)
  · intro h e he; simpa using h e ((preorder_perm t).mem_iff.1 he)

theorem searchAll_exact {t : Tree T} (hinv : Inv t) (p : Int) (acc : List (Interval × T)) :
    searchAll t p acc = (!(hits t p).isEmpty, acc ++ hits t p) := by
  induction t generalizing acc with
  | nil => simp [searchAll, hits, preorder]
  | node xi xv xm l r n ihl ihr =>
    have hs := (sorted_node_iff ..).1 hinv.2
    have ihl := ihl (inv_left hinv)
    have ihr := ihr (inv_right hinv)
    have hL : leftBelow l p = true → hits l p = [] := by
      intro hb
      have hall := (leftBelow_iff hinv.1.1 p).1 hb
      rw [hits_eq_nil_iff]
      intro e he
      have := hall e he
      simp [Interval.contains]; omega
    have hR : leftBelow l p = false → hits l p = [] → hits r p = [] := by
      intro hb hl
      have : ∃ e0 ∈ entries l, p ≤ e0.1.max := by
        by_contra hno
        have := (leftBelow_iff hinv.1.1 p).2 (fun e0 he0 => by
          by_contra hlt; exact hno ⟨e0, he0, by omega⟩)
        rw [hb] at this; cases this
      obtain ⟨e0, he0, hmax⟩ := this
      have hc0 := (hits_eq_nil_iff l p).1 hl e0 he0
      have hmin : p < e0.1.min := by simp [Interval.contains] at hc0; omega
      rw [hits_eq_nil_iff]
      intro e he
      have := hs.2.2.2.2 e0 he0 e he
      unfold ile at this
      simp [Interval.contains]; omega
    have hh : hits (.node xi xv xm l r n) p =
        (if xi.contains p then [(xi, xv)] else []) ++ (hits l p ++ hits r p) := by
      simp only [hits, preorder, List.filter_cons, List.filter_append]
      split <;> simp
    rw [hh]
    unfold searchAll
    cases hb : leftBelow l p
    · simp only [Bool.not_false, if_true, ihl]
      by_cases hl : hits l p = []
      · have hr := hR hb hl
        simp only [hl, hr]
        by_cases hc : xi.contains p = true <;> simp [hc]
      · simp only [ihr]
        by_cases hc : xi.contains p = true <;> cases hhl : hits l p <;> simp_all
    · have hl := hL hb
      simp only [hl, ihr]
      by_cases hc : xi.contains p = true <;> simp [hc]

theorem searchAllTop_exact {t : Tree T} (hinv : Inv t) (p : Int) : searchAllTop t p = hits t p := by
  simp [searchAllTop, searchAll_exact hinv]

theorem hits_perm (t : Tree T) (p : Int) :
    (hits t p).Perm ((entries t).filter (fun e => e.1.contains p)) := (preorder_perm t).filter _

end Verif.Proofs.DS.IST
