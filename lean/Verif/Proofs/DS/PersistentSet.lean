/-
C51 — persistent ordered set: the `items` field of the code-shaped model (nil or an ordered map that
starts as the zero value) simulates the plain list of the spec.  The set-level methods are written
once against the `items` interface (`PSItems` in `Model/DS/Ops.lean`), so this is the only place where
model and spec differ.
-/
import Verif.Proofs.DS.OrderedMap
import Verif.Model.DS.PersistentSet
namespace Verif.Proofs.DS.PS
open Verif.DS Verif.Model.DS Verif.Proofs.DS.OM

variable {T : Type} [DecidableEq T]

def unitPairs (l : List T) : List (T × Unit) := l.map (fun x => (x, ()))

/-- the relation between the model's `items` and the spec's list -/
def RI : Option (OrderedMap.OM T Unit) → List T → Prop
  | none, l => l = []
  | some om, l => R om (unitPairs l)

theorem lookup_unitPairs (l : List T) (x : T) :
    (Verif.Spec.DS.OM.lookup (unitPairs l) x).isSome = l.contains x := by
  induction l with
  | nil => rfl
  | cons a t ih =>
    by_cases h : a = x
    · simp [unitPairs, Verif.Spec.DS.OM.lookup, h]
    · have h' : ¬ x = a := fun e => h e.symm
      have e : Verif.Spec.DS.OM.lookup (unitPairs (a :: t)) x = Verif.Spec.DS.OM.lookup (unitPairs t) x := by
        simp [unitPairs, Verif.Spec.DS.OM.lookup, h]
      rw [e, ih]; simp [List.contains_cons, h']

theorem items_contains {i : Option (OrderedMap.OM T Unit)} {l : List T} (h : RI i l) (x : T) :
    (PersistentSet.items T).contains i x = (Verif.Spec.DS.PS.items T).contains l x := by
  cases i with
  | none => simp [RI] at h; subst h; rfl
  | some om =>
    show OrderedMap.contains om x = l.contains x
    rw [contains_sim h, ← lookup_unitPairs]; rfl

theorem items_add {i : Option (OrderedMap.OM T Unit)} {l : List T} (h : RI i l) (x : T)
    (hc : (PersistentSet.items T).contains i x = false) :
    RI ((PersistentSet.items T).add i x) ((Verif.Spec.DS.PS.items T).add l x) := by
  have hl : Verif.Spec.DS.OM.lookup (unitPairs l) x = none := by
    have := items_contains h x
    rw [hc] at this
    have h2 := lookup_unitPairs l x
    show Verif.Spec.DS.OM.lookup (unitPairs l) x = none
    cases hh : Verif.Spec.DS.OM.lookup (unitPairs l) x with
    | none => rfl
    | some u =>
      rw [hh] at h2
      simp at h2
      have : (Verif.Spec.DS.PS.items T).contains l x = true := by
        show l.contains x = true
        simpa using h2
      simp_all
  have key : ∀ {om : OrderedMap.OM T Unit}, R om (unitPairs l) → R (OrderedMap.set om x ()).1 (unitPairs (l ++ [x])) := by
    intro om hr
    have := (set_sim hr x ()).1
    have e : (Verif.Spec.DS.OM.set (unitPairs l) x ()).1 = unitPairs (l ++ [x]) := by
      unfold Verif.Spec.DS.OM.set
      rw [hl]
      simp [unitPairs]
    rwa [e] at this
  cases i with
  | none =>
    simp [RI] at h; subst h
    exact key (om := OrderedMap.zero) (by simpa [unitPairs] using (R_zero : R (OrderedMap.zero : OrderedMap.OM T Unit) []))
  | some om => exact key h

theorem items_list {i : Option (OrderedMap.OM T Unit)} {l : List T} (h : RI i l) :
    (PersistentSet.items T).list i = (Verif.Spec.DS.PS.items T).list l := by
  cases i with
  | none => simp [RI] at h; subst h; rfl
  | some om =>
    show (OrderedMap.foreach om).map Prod.fst = l
    rw [foreach_sim h]; simp only [unitPairs, List.map_map]; exact List.map_id' l |> fun e => by simpa [Function.comp_def] using e

theorem items_nonEmpty {i : Option (OrderedMap.OM T Unit)} {l : List T} (h : RI i l) :
    (PersistentSet.items T).nonEmpty i = (Verif.Spec.DS.PS.items T).nonEmpty l := by
  cases i with
  | none => simp [RI] at h; subst h; rfl
  | some om =>
    show (OrderedMap.oldest om).isSome = !l.isEmpty
    rw [oldest_sim h]; cases l <;> simp [unitPairs]

end Verif.Proofs.DS.PS
