/-
C51 — persistent ordered set: the `items` field of the code-shaped model (nil or an ordered map that
starts as the zero value) simulates the plain list of the spec.  The set-level methods are written
once against the `items` interface (`PSItems` in `Model/DS/Ops.lean`), so this is the only place where
model and spec differ.
-/
import Verif.Proofs.DS.OrderedMap
import Verif.Model.DS.PersistentSet
namespace Verif.Proofs.DS.PS
open Verif.DS Verif.Model.DS Verif.Proofs.DS.OM

variable {T : Type} [DecidableEq T]

def unitPairs (l : List T) : List (T × Unit) := l.map (fun x => (x, ()))

/-- the relation between the model's `items` and the spec's list -/
def RI : Option (OrderedMap.OM T Unit) → List T → Prop
  | none, l => l = []
  | some om, l => R om (unitPairs l)

theorem lookup_unitPairs (l : List T) (x : T) :
    (Verif.Spec.DS.OM.lookup (unitPairs l) x).isSome = l.contains x := by
  induction l with
  | nil => rfl
  | cons a t ih =>
    by_cases h : a = x
    · simp [unitPairs, Verif.Spec.DS.OM.lookup, h]
    · have h' : ¬ x = a := fun e => h e.symm
      have e : Verif.Spec.DS.OM.lookup (unitPairs (a :: t)) x = Verif.Spec.DS.OM.lookup (unitPairs t) x := by
        simp [unitPairs, Verif.Spec.DS.OM.lookup, h]
      rw [e, ih]; simp [List.contains_cons, h']

theorem items_contains {i : Option (OrderedMap.OM T Unit)} {l : List T} (h : RI i l) (x : T) :
    (PersistentSet.items T).contains i x = (Verif.Spec.DS.PS.items T).contains l x := by
  cases i with
  | none => simp [RI] at h; subst h; rfl
  | some om =>
    show OrderedMap.contains om x = l.contains x
    rw [contains_sim h, ← lookup_unitPairs]; rfl

theorem items_add {i : Option (OrderedMap.OM T Unit)} {l : List T} (h : RI i l) (x : T)
    (hc : (PersistentSet.items T).contains i x = false) :
    RI ((PersistentSet.items T).add i x) ((Verif.Spec.DS.PS.items T).add l x) := by
  have hl : Verif.Spec.DS.OM.lookup (unitPairs l) x = none := by
    have := items_contains h x
    rw [hc] at this
    have h2 := lookup_unitPairs l x
    show Verif.Spec.DS.OM.lookup (unitPairs l) x = none
    cases hh : Verif.Spec.DS.OM.lookup (unitPairs l) x with
    | none => rfl
    | some u =>
      rw [hh] at h2
      simp at h2
      have : (Verif.Spec.DS.PS.items T).contains l x = true := by
        show l.contains x = true
        simpa using h2
      simp_all
  have key : ∀ {om : OrderedMap.OM T Unit}, R om (unitPairs l) → R (OrderedMap.set om x ()).1 (unitPairs (l ++ [x])) := by
    intro om hr
    have := (set_sim hr x ()).1
    have e : (Verif.Spec.DS.OM.set (unitPairs l) x ()).1 = unitPairs (l ++ [x]) := by
      unfold Verif.Spec.DS.OM.set
      rw [hl]
      simp [unitPairs]
    rwa [e] at this
  cases i with
  | none =>
    simp [RI] at h; subst h
    exact key (om := OrderedMap.zero) (by simpa [unitPairs] using (R_zero : R (OrderedMap.zero : OrderedMap.OM T Unit) []))
  | some om => exact key h

theorem items_list {i : Option (OrderedMap.OM T Unit)} {l : List T} (h : RI i l) :
    (PersistentSet.items T).list i = (Verif.Spec.DS.PS.items T).list l := by
  cases i with
  | none => simp [RI] at h; subst h; rfl
  | some om =>
    show (OrderedMap.foreach om).map Prod.fst = l
    rw [foreach_sim h]; simp only [unitPairs, List.map_map]; exact List.map_id' l |> fun e => by simpa [Function.comp_def] using e

theorem items_nonEmpty {i : Option (OrderedMap.OM T Unit)} {l : List T} (h : RI i l) :
    (PersistentSet.items T).nonEmpty i = (Verif.Spec.DS.PS.items T).nonEmpty l := by
  cases i with
  | none => simp [RI] at h; subst h; rfl
  | some om =>
    show (OrderedMap.oldest om).isSome = !l.isEmpty
    rw [oldest_sim h]; cases l <;> simp [unitPairs]

/-! ### lifting the `items` simulation through heaps, parent chains and operation sequences -/

section lift
variable {T : Type} (I J : PSItems T) (R : I.I → J.I → Prop)

/-- what the lifting needs from the two `items` implementations -/
structure ItemsSim : Prop where
  nil : R I.nil J.nil
  contains : ∀ i j, R i j → ∀ x, I.contains i x = J.contains j x
  add : ∀ i j, R i j → ∀ x, I.contains i x = false → R (I.add i x) (J.add j x)
  list : ∀ i j, R i j → I.list i = J.list j
  nonEmpty : ∀ i j, R i j → I.nonEmpty i = J.nonEmpty j

def OR (o : I.Obj) (p : J.Obj) : Prop := o.parent = p.parent ∧ R o.items p.items
abbrev HR (h : I.Heap) (k : J.Heap) : Prop := List.Forall₂ (OR I J R) h k

variable {I J R}

theorem HR.getElem? {h : I.Heap} {k : J.Heap} (hr : HR I J R h k) (a : Nat) :
    (h[a]? = none ∧ k[a]? = none) ∨ ∃ o p, h[a]? = some o ∧ k[a]? = some p ∧ OR I J R o p := by
  induction hr generalizing a with
  | nil => left; simp
  | cons hop _ ih =>
    cases a with
    | zero => right; exact ⟨_, _, by simp, by simp, hop⟩
    | succ a => simpa using ih a

theorem HR.set {h : I.Heap} {k : J.Heap} (hr : HR I J R h k) (a : Nat) {o : I.Obj} {p : J.Obj}
    (hop : OR I J R o p) : HR I J R (h.set a o) (k.set a p) := by
  induction hr generalizing a with
  | nil => simp
  | cons hop' _ ih =>
    cases a with
    | zero => exact List.Forall₂.cons hop ‹_›
    | succ a => exact List.Forall₂.cons hop' (ih a)

theorem chain_sim {h : I.Heap} {k : J.Heap} (hr : HR I J R h k) (fuel : Nat) (s : Option Nat) :
    List.Forall₂ (OR I J R) (PSItems.chain I h fuel s) (PSItems.chain J k fuel s) := by
  induction fuel generalizing s with
  | zero => simp [PSItems.chain]
  | succ n ih =>
    cases s with
    | none => simp [PSItems.chain]
    | some a =>
      rcases hr.getElem? a with ⟨e1, e2⟩ | ⟨o, p, e1, e2, hop⟩
      · simp [PSItems.chain, e1, e2]
      · simp only [PSItems.chain, e1, e2]
        refine List.Forall₂.cons hop ?_
        rw [hop.1]; exact ih _

theorem chainOf_sim {h : I.Heap} {k : J.Heap} (hr : HR I J R h k) (s : Option Nat) :
    List.Forall₂ (OR I J R) (PSItems.chainOf I h s) (PSItems.chainOf J k s) := by
  unfold PSItems.chainOf
  rw [hr.length_eq]; exact chain_sim hr _ s

theorem any_forall₂ {α β : Type} {r : α → β → Prop} {f : α → Bool} {g : β → Bool}
    (hfg : ∀ a b, r a b → f a = g b) {l : List α} {m : List β} (h : List.Forall₂ r l m) :
    l.any f = m.any g := by
  induction h with
  | nil => rfl
  | cons hab _ ih => simp [List.any_cons, hfg _ _ hab, ih]

theorem flatMap_forall₂ {α β γ : Type} {r : α → β → Prop} {f : α → List γ} {g : β → List γ}
    (hfg : ∀ a b, r a b → f a = g b) {l : List α} {m : List β} (h : List.Forall₂ r l m) :
    l.flatMap f = m.flatMap g := by
  induction h with
  | nil => rfl
  | cons hab _ ih => simp [List.flatMap_cons, hfg _ _ hab, ih]

variable (S : ItemsSim I J R)
include S

theorem setContains_sim {h : I.Heap} {k : J.Heap} (hr : HR I J R h k) (s : Option Nat) (x : T) :
    PSItems.setContains I h s x = PSItems.setContains J k s x :=
  any_forall₂ (fun _ _ hop => S.contains _ _ hop.2 x) (chainOf_sim hr s)

theorem forEach_sim {h : I.Heap} {k : J.Heap} (hr : HR I J R h k) (s : Option Nat) :
    PSItems.forEach I h s = PSItems.forEach J k s :=
  flatMap_forall₂ (fun _ _ hop => S.list _ _ hop.2) (chainOf_sim hr s)

theorem isEmpty_sim {h : I.Heap} {k : J.Heap} (hr : HR I J R h k) (s : Option Nat) :
    PSItems.isEmpty I h s = PSItems.isEmpty J k s := by
  unfold PSItems.isEmpty
  rw [any_forall₂ (fun _ _ hop => S.nonEmpty _ _ hop.2) (chainOf_sim hr s)]

theorem newSet_sim {h : I.Heap} {k : J.Heap} (hr : HR I J R h k) (parent : Option Nat) :
    HR I J R (PSItems.newSet I h parent).1 (PSItems.newSet J k parent).1 ∧
      (PSItems.newSet I h parent).2 = (PSItems.newSet J k parent).2 := by
  refine ⟨?_, hr.length_eq⟩
  show List.Forall₂ _ (h ++ _) (k ++ _)
  exact List.rel_append hr (List.Forall₂.cons ⟨rfl, S.nil⟩ List.Forall₂.nil)

/-- both fail (nil-pointer dereference) or both succeed with related heaps -/
def OptHR : Option I.Heap → Option J.Heap → Prop
  | none, none => True
  | some h, some k => HR I J R h k
  | _, _ => False

theorem setAdd_sim {h : I.Heap} {k : J.Heap} (hr : HR I J R h k) (s : Option Nat) (x : T) :
    OptHR (R := R) (PSItems.setAdd I h s x) (PSItems.setAdd J k s x) := by
  unfold PSItems.setAdd
  rw [← setContains_sim S hr s x]
  by_cases hc : PSItems.setContains I h s x = true
  · simp only [hc, if_true]; exact hr
  · simp only [hc]
    cases s with
    | none => trivial
    | some a =>
      rcases hr.getElem? a with ⟨e1, e2⟩ | ⟨o, p, e1, e2, hop⟩
      · simp only [e1, e2]; trivial
      · simp only [e1, e2]
        have hown : I.contains o.items x = false := by
          have hc' : PSItems.setContains I h (some a) x = false := by simpa using hc
          unfold PSItems.setContains PSItems.chainOf at hc'
          simp only [PSItems.chain, e1, List.any_cons, Bool.or_eq_false_iff] at hc'
          exact hc'.1
        exact hr.set a ⟨hop.1, S.add _ _ hop.2 x hown⟩

theorem addIntersection_sim {h : I.Heap} {k : J.Heap} (hr : HR I J R h k) (s a b : Option Nat) :
    OptHR (R := R) (PSItems.addIntersection I h s a b) (PSItems.addIntersection J k s a b) := by
  unfold PSItems.addIntersection
  rw [← forEach_sim S hr a]
  have gen : ∀ (l : List T) (acc1 : Option I.Heap) (acc2 : Option J.Heap), OptHR (R := R) acc1 acc2 →
      OptHR (R := R)
        (l.foldl (fun acc x => acc.bind (fun h' => if PSItems.setContains I h' b x then PSItems.setAdd I h' s x else some h')) acc1)
        (l.foldl (fun acc x => acc.bind (fun h' => if PSItems.setContains J h' b x then PSItems.setAdd J h' s x else some h')) acc2) := by
    intro l
    induction l with
    | nil => intro _ _ h; exact h
    | cons x t ih =>
      intro acc1 acc2 hacc
      simp only [List.foldl_cons]
      apply ih
      cases acc1 <;> cases acc2 <;> simp only [OptHR] at hacc
      · trivial
      · rename_i h' k'
        simp only [Option.bind_some]
        rw [← setContains_sim S hacc b x]
        split
        · exact setAdd_sim S hacc s x
        · exact hacc
  exact gen _ _ _ hr

/-- states: related heaps, equal registers -/
def SR (st : I.State) (su : J.State) : Prop := HR I J R st.heap su.heap ∧ st.regs = su.regs

theorem step_sim {st : I.State} {su : J.State} (h : SR (R := R) st su) (op : PSOp T) :
    SR (R := R) (I.step st op).1 (J.step su op).1 ∧ (I.step st op).2 = (J.step su op).2 := by
  obtain ⟨h1, r1⟩ := st
  obtain ⟨h2, r2⟩ := su
  obtain ⟨hr, hregs⟩ := h
  simp only at hr hregs
  subst hregs
  cases op with
  | mk t parent =>
    have := newSet_sim S hr (parent.bind r1)
    exact ⟨⟨this.1, congrArg (fun a => Regs.put r1 t (some a)) this.2⟩, rfl⟩
  | clone t r =>
    have := newSet_sim S hr (r1 r)
    exact ⟨⟨this.1, congrArg (fun a => Regs.put r1 t (some a)) this.2⟩, rfl⟩
  | add r x =>
    have := setAdd_sim S hr (r1 r) x
    simp only [PSItems.step]
    cases e1 : PSItems.setAdd I h1 (r1 r) x <;> cases e2 : PSItems.setAdd J h2 (r1 r) x <;>
      rw [e1, e2] at this <;> simp only [OptHR] at this
    · exact ⟨⟨hr, rfl⟩, rfl⟩
    · exact ⟨⟨this, rfl⟩, rfl⟩
  | has r x =>
    refine ⟨⟨hr, rfl⟩, ?_⟩
    show PSObs.bool _ = PSObs.bool _
    rw [setContains_sim S hr]
  | each r =>
    refine ⟨⟨hr, rfl⟩, ?_⟩
    show PSObs.items _ = PSObs.items _
    rw [forEach_sim S hr]
  | eachErr r stop =>
    refine ⟨⟨hr, rfl⟩, ?_⟩
    show PSObs.itemsErr (visitUntil stop (PSItems.forEach I h1 (r1 r))).2 _ = PSObs.itemsErr (visitUntil stop (PSItems.forEach J h2 (r1 r))).2 _
    rw [forEach_sim S hr]
  | addInter r a b =>
    have := addIntersection_sim S hr (r1 r) (a.bind r1) (b.bind r1)
    simp only [PSItems.step]
    cases e1 : PSItems.addIntersection I h1 (r1 r) (a.bind r1) (b.bind r1) <;>
      cases e2 : PSItems.addIntersection J h2 (r1 r) (a.bind r1) (b.bind r1) <;>
      rw [e1, e2] at this <;> simp only [OptHR] at this
    · exact ⟨⟨hr, rfl⟩, rfl⟩
    · exact ⟨⟨this, rfl⟩, rfl⟩
  | isEmpty r =>
    refine ⟨⟨hr, rfl⟩, ?_⟩
    show PSObs.bool _ = PSObs.bool _
    rw [isEmpty_sim S hr]

theorem run_sim {st : I.State} {su : J.State} (h : SR (R := R) st su) (ops : List (PSOp T)) :
    I.run st ops = J.run su ops := by
  induction ops generalizing st su with
  | nil => rfl
  | cons op ops ih =>
    have := step_sim S h op
    simp only [PSItems.run, this.2, ih this.1]

omit S in
theorem init_sim : SR (R := R) I.init J.init := ⟨List.Forall₂.nil, rfl⟩

end lift

/-- the ordered-map `items` field simulates the plain list -/
theorem model_itemsSim {T : Type} [DecidableEq T] :
    ItemsSim (PersistentSet.items T) (Verif.Spec.DS.PS.items T) (RI (T := T)) :=
  ⟨rfl, fun _ _ h => items_contains h, fun _ _ h => items_add h, fun _ _ h => items_list h,
    fun _ _ h => items_nonEmpty h⟩


/-! ### the spec machine in closed form -/

theorem spec_contains {T : Type} [DecidableEq T] (h : (Verif.Spec.DS.PS.items T).Heap) (s : Option Nat) (x : T) :
    PSItems.setContains (Verif.Spec.DS.PS.items T) h s x =
      (PSItems.forEach (Verif.Spec.DS.PS.items T) h s).contains x := by
  unfold PSItems.setContains PSItems.forEach
  generalize PSItems.chainOf (Verif.Spec.DS.PS.items T) h s = c
  induction c with
  | nil => rfl
  | cons o t ih =>
    rw [List.any_cons, List.flatMap_cons, ih]
    obtain ⟨par, (its : List T)⟩ := o
    show (its.contains x || _) = (its ++ _).contains x
    rw [List.contains_eq_mem, List.contains_eq_mem, List.contains_eq_mem]
    simp only [List.mem_append, Bool.decide_or]

theorem spec_isEmpty {T : Type} [DecidableEq T] (h : (Verif.Spec.DS.PS.items T).Heap) (s : Option Nat) :
    PSItems.isEmpty (Verif.Spec.DS.PS.items T) h s =
      (PSItems.forEach (Verif.Spec.DS.PS.items T) h s).isEmpty := by
  unfold PSItems.isEmpty PSItems.forEach
  generalize PSItems.chainOf (Verif.Spec.DS.PS.items T) h s = c
  induction c with
  | nil => rfl
  | cons o t ih =>
    rw [List.any_cons, List.flatMap_cons, Bool.not_or, ih]
    obtain ⟨par, (its : List T)⟩ := o
    show (!(!its.isEmpty) && _) = (its ++ _).isEmpty
    cases its with
    | nil => simp
    | cons a l => rfl

end Verif.Proofs.DS.PS
