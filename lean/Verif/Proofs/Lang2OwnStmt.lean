import Verif.Proofs.Lang2OwnEval
/-
Single-owner invariant (C02) through the resource-moving core of the L2 evaluator: source expressions
(`Src`), targets (`Tgt`), `destroy`, and the statements built from them (`Core`).
Core Lean only.
-/
namespace Verif.Model.Lang2

variable (p : Program)

/-! ### triples from the step lemmas -/

theorem Trip.quiet {α} {P : State → Prop} {m : M α} (hq : Quiet m) :
    Trip P m (fun a s => P s ∧ (m s).out = .ok a) := by
  intro s hp a ha
  rw [hq s]; exact ⟨hp, ha⟩

theorem Trip.pure' {α} {P : State → Prop} (a : α) : Trip P (Pure.pure a : M α) (fun _ s => P s) :=
  fun _ hp _ _ => hp

theorem Trip.ret {α} {Q : α → State → Prop} (a : α) : Trip (fun s => Q a s) (Pure.pure a : M α) Q := by
  intro s hp b hb
  simp only [Pure.pure, M.pure] at hb ⊢
  cases hb; exact hp

theorem trip_transferTo (ty : Ty) (v : Val) (fl : List Val) :
    Trip (fun s => Held s (v :: fl)) (transferTo ty v) (fun v' s => Held s (v' :: fl)) :=
  fun _ h _ hok => transferTo_held h hok

theorem trip_transfer (v : Val) (fl : List Val) :
    Trip (fun s => Held s (v :: fl)) (transfer v) (fun v' s => Held s (v' :: fl)) :=
  fun _ h _ hok => transfer_held h hok

theorem trip_declVar (x : String) (v : Val) (fl : List Val) :
    Trip (fun s => Held s (v :: fl)) (declVar x v) (fun _ s => Held s fl) :=
  fun s h _ _ => h.sub (sub_declVar s x v fl)

theorem trip_writeLoc (l : Loc) (v : Val) (fl : List Val) :
    Trip (fun s => Held s (v :: fl)) (writeLoc l v) (fun _ s => Held s fl) :=
  fun s h _ hok => h.sub (writeLoc_sub l v s fl hok)

theorem trip_vacate (l : Loc) (old : Val) (fl : List Val) (hl : l.isTemp = false) :
    Trip (fun s => Held s fl ∧ (readLoc l s).out = .ok old) (vacate l old) (fun _ s => Held s (old :: fl)) :=
  fun _ h _ hok => vacate_held hl h.2 hok h.1

/-! ### variables and literals -/

theorem eval_var_quiet (n : Nat) (x : String) : Quiet (eval p n (.var x)) := by
  cases n with
  | zero => intro s; rfl
  | succ n => simp only [eval]; exact Quiet.getVar x

theorem eval_var_ok {n : Nat} {x : String} {s : State} {v : Val} (h : (eval p n (.var x) s).out = .ok v) :
    (readLoc (.var x) s).out = .ok v := by
  cases n with
  | zero => simp [eval, M.outOfFuel] at h
  | succ n => simpa only [eval, readLoc] using h

/-! ### sources: expressions whose value is owned by nobody else afterwards -/

inductive Src : Expr → Prop where
  | nil : Src .nilLit
  | moveVar (x : String) : Src (.move (.var x))
  | moveForceVar (x : String) : Src (.move (.force (.var x)))
  | create (f : String) (cd : CompDecl) (hf : p.findFun f = none)
      (hb : f ≠ "log" ∧ f ≠ "panic" ∧ f ≠ "assert") (hcd : p.findComp f = some cd) (hinit : cd.init = none) :
      Src (.create f [])
  | load (ty : Ty) (path : String) : Src (.sto .load ty path)
  | force (e : Expr) : Src e → Src (.force e)

theorem callNamed_create {n : Nat} {f : String} {cd : CompDecl} (s : State) (hf : p.findFun f = none)
    (hb : f ≠ "log" ∧ f ≠ "panic" ∧ f ≠ "assert") (hcd : p.findComp f = some cd) (hinit : cd.init = none) :
    (callNamed p (n + 1) f [] s).out = .ok (.ptr s.heap.length) ∧
    (callNamed p (n + 1) f [] s).st.env = s.env ∧ (callNamed p (n + 1) f [] s).st.stack = s.stack ∧
    (callNamed p (n + 1) f [] s).st.storage = s.storage ∧
    ∃ c : Cell, (∀ id, occ id c.obj.vals = 0) ∧ (callNamed p (n + 1) f [] s).st.heap = s.heap ++ [c] := by
  obtain ⟨h1, h2, h3⟩ := hb
  unfold callNamed
  cases hr : cd.isRes <;>
    (split <;> simp_all [bind, M.bind, M.get, M.modify, alloc, pure, M.pure]) <;>
    (intro id; simp [Obj.vals, occ1, Val.ptrs])

/-- allocation: the new cell is owned by the pointer in flight only -/
theorem held_alloc {s s' : State} {c : Cell} {fl : List Val} (h : Held s fl)
    (he : s'.env = s.env) (hs : s'.stack = s.stack) (hst : s'.storage = s.storage)
    (hh : s'.heap = s.heap ++ [c]) (hc : ∀ id, occ id c.obj.vals = 0) :
    Held s' (.ptr s.heap.length :: fl) := by
  intro id
  have hh' := h id
  have h1 : occ1 id (Val.ptr s.heap.length) = if id = s.heap.length then 1 else 0 := by
    simp only [occ1, Val.ptrs, List.count_singleton, beq_iff_eq]
    by_cases e : id = s.heap.length <;> simp [e, eq_comm]
  have h2 : occ id (heapSlots [c]) = 0 := by simpa [heapSlots, Cell.slots] using hc id
  simp only [List.cons_append, occ_cons, occ_append, occ_slots, he, hs, hst, hh, heapSlots_append, h1, h2,
    List.length_append, List.length_cons, List.length_nil] at hh' ⊢
  refine ⟨fun hl => ?_, fun hlen => ?_⟩
  · by_cases hlt : id < s.heap.length
    · have := hh'.1 (liveRes_append_old hlt hl)
      split <;> omega
    · have := hh'.2 (by omega)
      split <;> omega
  · have := hh'.2 (by omega)
    split <;> omega

theorem src_held {e : Expr} (hs : Src p e) : ∀ (n : Nat) (fl : List Val),
    Trip (fun s => Held s fl) (eval p n e) (fun v s => Held s (v :: fl)) := by
  induction hs with
  | nil =>
    intro n fl s h v hok
    cases n with
    | zero => simp [eval, M.outOfFuel] at hok
    | succ n =>
      simp only [eval, Pure.pure, M.pure] at hok ⊢
      cases hok
      exact h.congr fun id => by simp
  | moveVar x =>
    intro n fl
    cases n with
    | zero => intro s _ v hok; simp [eval, M.outOfFuel] at hok
    | succ n =>
      simp only [eval]
      refine Trip.bind (Trip.quiet (eval_var_quiet p n x)) fun v => ?_
      refine Trip.bind (Q := fun _ s => Held s (v :: fl)) ?_ fun _ => Trip.ret (Q := fun w s => Held s (w :: fl)) v
      intro s ⟨h, hv⟩ _ hok
      exact vacate_held rfl (eval_var_ok p hv) hok h
  | moveForceVar x =>
    intro n fl
    cases n with
    | zero => intro s _ v hok; simp [eval, M.outOfFuel] at hok
    | succ n =>
      simp only [eval]
      cases n with
      | zero => intro s _ v hok; simp [eval, M.outOfFuel, bind, M.bind] at hok
      | succ n =>
        simp only [eval]
        -- the variable's content `va`, the unwrapped value `v`
        have hq : Quiet (eval p n (.var x) >>= fun va => match va with
            | .some v => (Pure.pure v : M Val) | .nil => M.userErr (.base .forceNil) | v => Pure.pure v) :=
          Quiet.bind (eval_var_quiet p n x) fun va => by
            cases va <;> first | exact Quiet.pure _ | exact Quiet.userErr _
        refine Trip.bind (Trip.quiet hq) fun v => ?_
        refine Trip.bind (Q := fun _ s => Held s (v :: fl)) ?_ fun _ => Trip.ret (Q := fun w s => Held s (w :: fl)) v
        intro s ⟨h, hv⟩ _ hok
        obtain ⟨va, hva, hm, _⟩ := bind_quiet_inv (eval_var_quiet p n x) hv
        have hl := (getVar_ok (eval_var_ok p hva)).1
        have hocc : ∀ id, occ1 id v = occ1 id va := by
          intro id
          cases va <;> simp_all [Pure.pure, M.pure, M.userErr]
        unfold vacate at hok ⊢
        by_cases hres : isResVal s.heap v = true
        · simp only [hres, if_true, writeLocRaw, setVarRaw] at hok ⊢
          split at hok
          · next env' hu =>
            exact (h.sub (sub_vacateVar fl hl hu)).congr fun id => by simp [hocc id]
          · cases hok
        · simp only [hres]
          refine h.dup_nonres (by simpa using hres) fun id => ?_
          have := occ_lookup_le hl id
          rw [hocc id, occ_append, occ_slots]; omega
  | create f cd hf hb hcd hinit =>
    intro n fl s h v hok
    cases n with
    | zero => simp [eval, M.outOfFuel] at hok
    | succ n =>
      simp only [eval] at hok ⊢
      cases n with
      | zero => simp [evalArgs, M.outOfFuel, bind, M.bind] at hok
      | succ n =>
        have ha : evalArgs p (n + 1) [] = (Pure.pure [] : M (List Val)) := by simp only [evalArgs]
        rw [ha] at hok ⊢
        have hb' : ((Pure.pure [] : M (List Val)) >>= fun vs => callNamed p (n + 1) f vs) s = callNamed p (n + 1) f [] s := by
          simp [bind, M.bind, Pure.pure, M.pure]
        rw [hb'] at hok ⊢
        obtain ⟨ho, he, hs, hst, c, hc, hh⟩ := callNamed_create p (n := n) s hf hb hcd hinit
        rw [ho] at hok; cases hok
        exact held_alloc h he hs hst hh hc
  | load ty path =>
    intro n fl s h v hok
    cases n with
    | zero => simp [eval, M.outOfFuel] at hok
    | succ n =>
      simp only [eval] at hok ⊢
      obtain ⟨old, hold, hb, hst⟩ := bind_quiet_inv (Quiet.storageGet path) hok
      rw [hst]
      cases old with
      | none =>
        simp only [Pure.pure, M.pure] at hb ⊢; cases hb
        exact h.congr fun id => by simp
      | some sv =>
        simp only at hb ⊢
        obtain ⟨s0, hs0, hb1, hst1⟩ := bind_quiet_inv Quiet.get hb
        rw [hst1]
        simp only [M.get] at hs0; cases hs0
        split at hb1
        · simp [M.userErr] at hb1
        · next hconf =>
          rw [if_neg hconf]
          obtain ⟨_, _, hb2, hst2⟩ := bind_inv hb1
          rw [hst2]
          have hfind : (s.storage.find? (·.1 == path)).map (·.2) = some sv := by
            simpa [storageGet] using hold
          simp only [Option.map_eq_some_iff] at hfind
          obtain ⟨q, hq, rfl⟩ := hfind
          have hsub : Sub s fl (storageRemove path s).st (q.2 :: fl) := by
            simp only [storageRemove, M.modify]
            refine Sub.of_storage fun id => ?_
            have := occ_filter_not_find id s.storage (fun x => x.1 == path) q hq
            simp only [envSlots, occ_cons] at this ⊢
            have e : (s.storage.filter fun x => x.1 != path) = s.storage.filter fun x => !(x.1 == path) := rfl
            rw [e]; omega
          have h1 := h.sub hsub
          obtain ⟨v', hv', hb3, hst3⟩ := bind_inv hb2
          rw [hst3]
          simp only [Pure.pure, M.pure] at hb3 ⊢; cases hb3
          exact (transfer_held h1 hv').congr fun id => by simp
  | force e _ ih =>
    intro n fl s h v hok
    cases n with
    | zero => simp [eval, M.outOfFuel] at hok
    | succ n =>
      simp only [eval] at hok ⊢
      obtain ⟨va, hva, hb, hst⟩ := bind_inv hok
      rw [hst]
      have h1 := ih n fl s h va hva
      cases va <;> simp_all [Pure.pure, M.pure, M.userErr] <;>
        exact h1.congr fun id => by simp


/-! ### targets -/

inductive Tgt : Expr → Prop where
  | var (x : String) : Tgt (.var x)
  | field (ar : Bool) (h f : String) : Tgt (.member false ar (.var h) f)

theorem tgt_quiet {t : Expr} (ht : Tgt t) (n : Nat) : Quiet (evalTarget p n t) := by
  cases n with
  | zero => intro s; rfl
  | succ n =>
    cases ht with
    | var x => simp only [evalTarget]; exact Quiet.pure _
    | field ar h f =>
      simp only [evalTarget]
      refine Quiet.bind (eval_var_quiet p n h) fun va0 => Quiet.bind (Quiet.deref va0) fun va => ?_
      cases va <;> first | exact Quiet.pure _ | exact Quiet.internalErr _

theorem tgt_notTemp {t : Expr} (ht : Tgt t) {n : Nat} {s : State} {l : Loc}
    (hok : (evalTarget p n t s).out = .ok l) : l.isTemp = false := by
  cases n with
  | zero => simp [evalTarget, M.outOfFuel] at hok
  | succ n =>
    cases ht with
    | var x => simp only [evalTarget, Pure.pure, M.pure] at hok; cases hok; rfl
    | field ar h f =>
      simp only [evalTarget] at hok
      obtain ⟨va0, _, hb, _⟩ := bind_quiet_inv (eval_var_quiet p n h) hok
      obtain ⟨va, _, hb2, _⟩ := bind_quiet_inv (Quiet.deref va0) hb
      cases va <;> simp_all [Pure.pure, M.pure, M.internalErr]
      subst hb2; rfl

theorem tgt_trip {t : Expr} (ht : Tgt t) (n : Nat) (P : State → Prop) :
    Trip P (evalTarget p n t) (fun l s => P s ∧ l.isTemp = false) := by
  intro s hp l hok
  rw [tgt_quiet p ht n s]
  exact ⟨hp, tgt_notTemp p ht hok⟩

theorem Trip.pre_pure {α} {P : State → Prop} {φ : Prop} {m : M α} {Q : α → State → Prop}
    (h : φ → Trip P m Q) : Trip (fun s => P s ∧ φ) m Q :=
  fun s hp a ha => h hp.2 s hp.1 a ha

/-! ### destroy -/

def QuietOk {α} (m : M α) : Prop := ∀ s a, (m s).out = .ok a → (m s).st = s

theorem QuietOk.elim {α} {m : M α} {s : State} {a : α} (hev : (m s).out = .ok a) (h : QuietOk m) :
    (m s).st = s := h s a hev

/-- the default-argument expressions of destruction events do not change the state (they are reads
of `self`'s fields and literals; see `eventsQuiet_of_simple`) -/
def EventsQuiet : Prop :=
  ∀ (name : String) (params : List (String × Expr)), (p.findComp name).bind (·.destroyEvent) = some params →
    ∀ (n id : Nat) (s : State) (args : List String),
      (evalEventArgs p n id params s).out = .ok args → (evalEventArgs p n id params s).st = s

/-- default-argument expressions as the checker allows them: literals and field reads -/
def SimpleArg : Expr → Bool
  | .intLit .. | .boolLit _ | .strLit _ | .nilLit | .var _ => true
  | .member false _ (.var _) _ => true
  | _ => false

theorem eval_simple_quiet {e : Expr} (he : SimpleArg e = true) (n : Nat) : Quiet (eval p n e) := by
  cases n with
  | zero => intro s; rfl
  | succ n =>
    cases e with
    | intLit k v => simp only [eval]; exact Quiet.pure _
    | boolLit b => simp only [eval]; exact Quiet.pure _
    | strLit b => simp only [eval]; exact Quiet.pure _
    | nilLit => simp only [eval]; exact Quiet.pure _
    | var x => exact eval_var_quiet p (n + 1) x
    | member opt ar a f =>
      cases opt with
      | true => simp [SimpleArg] at he
      | false =>
        cases a with
        | var x =>
          simp only [eval, Bool.false_eq_true, if_false]
          refine Quiet.bind (eval_var_quiet p n x) fun va0 => Quiet.bind (Quiet.deref va0) fun v => ?_
          cases v <;> first
            | exact Quiet.internalErr _
            | exact Quiet.bind (Quiet.memberOf _ f) fun r => Quiet.bind Quiet.get fun _ => Quiet.pure _
        | _ => simp [SimpleArg] at he
    | _ => simp [SimpleArg] at he

theorem evalEventArgs_simple_quiet : ∀ (params : List (String × Expr)), (∀ q ∈ params, SimpleArg q.2 = true) →
    ∀ (n id : Nat) (s : State) (args : List String),
      (evalEventArgs p n id params s).out = .ok args → (evalEventArgs p n id params s).st = s
  | _, _, 0, _, _, _, hok => by simp [evalEventArgs, M.outOfFuel] at hok
  | [], _, _ + 1, _, _, _, _ => by simp only [evalEventArgs]; rfl
  | (name, e) :: rest, hall, n + 1, id, s, args, hok => by
    have hqe := eval_simple_quiet p (hall (name, e) (List.mem_cons_self ..)) n
      { s with env := [("self", .ptr id)], stack := s.env :: s.stack }
    simp only [evalEventArgs] at hok ⊢
    cases ho : (eval p n e { s with env := [("self", .ptr id)], stack := s.env :: s.stack }).out with
    | ok v =>
      simp only [ho, hqe] at hok ⊢
      have ih := evalEventArgs_simple_quiet rest (fun q h => hall q (List.mem_cons_of_mem _ h)) n id s
      cases ho2 : (evalEventArgs p n id rest s).out with
      | ok args2 => simp only [ho2] at hok ⊢; exact ih args2 ho2
      | userErr k => simp [ho2] at hok
      | internalErr k => simp [ho2] at hok
      | outOfFuel => simp [ho2] at hok
    | userErr k => simp [ho] at hok
    | internalErr k => simp [ho] at hok
    | outOfFuel => simp [ho] at hok

theorem eventsQuiet_of_simple
    (h : ∀ name params, (p.findComp name).bind (·.destroyEvent) = some params → ∀ q ∈ params, SimpleArg q.2 = true) :
    EventsQuiet p :=
  fun name params hf n id s args hok => evalEventArgs_simple_quiet p params (h name params hf) n id s args hok

theorem Sub.of_events {s : State} (fl : List Val) (ev : List String) : Sub s fl { s with events := ev } fl :=
  ⟨fun _ => Nat.le_refl _, rfl, fun _ h => h⟩

mutual
/-- `destroy` only marks cells dead and appends events: nothing new is owned -/
theorem destroyVal_sub (hq : EventsQuiet p) : ∀ (n : Nat) (v : Val) (s : State) (fl : List Val),
    (destroyVal p n v s).out = .ok () → Sub s fl (destroyVal p n v s).st fl
  | 0, _, _, _, hok => by simp [destroyVal, M.outOfFuel] at hok
  | n + 1, v, s, fl, hok => by
    cases v with
    | some w => simp only [destroyVal] at hok ⊢; exact destroyVal_sub hq n w s fl hok
    | ptr id =>
      simp only [destroyVal] at hok ⊢
      obtain ⟨c, hc, hb, hst⟩ := bind_quiet_inv (Quiet.getCell id) hok
      rw [hst]
      split at hb
      · simp [M.userErr] at hb
      · next halive =>
        rw [if_neg halive]
        split at hb
        · next hres => rw [if_pos hres]; exact Sub.refl s fl
        · next hres =>
          rw [if_neg hres]
          obtain ⟨ev, hev, hb1, hst1⟩ := bind_inv hb
          rw [hst1]
          -- the event arguments leave the state as it is
          have hevst := QuietOk.elim hev (by
            split
            · split
              · next params hf =>
                intro s' a ha
                obtain ⟨args, h1, _, hst'⟩ := bind_inv ha
                rw [hst', hq _ _ hf _ _ _ _ h1]; rfl
              · intro s' a _; rfl
            · intro s' a _; rfl)
          rw [hevst] at hb1 ⊢
          obtain ⟨_, hda, hb2, hst2⟩ := bind_inv hb1
          rw [hst2]
          have s1 := destroyAll_sub hq n c.obj.vals s fl hda
          obtain ⟨_, hk, hb3, hst3⟩ := bind_inv hb2
          rw [hst3]
          have s2 : Sub (destroyAll p n c.obj.vals s).st fl
              ((M.modify fun s => match s.heap[id]? with
                | some c' => { s with heap := s.heap.set id { c' with alive := false, gen := c'.gen + 1 } }
                | none => s) (destroyAll p n c.obj.vals s).st).st fl := by
            simp only [M.modify]
            split
            · next c' hc' => exact sub_kill hc' fl
            · exact Sub.refl _ fl
          refine (s1.trans s2).trans ?_
          cases ev with
          | none => simp only [Pure.pure, M.pure]; exact Sub.refl _ fl
          | some line => simp only [M.modify]; exact Sub.of_events fl _
    | nil => simp only [destroyVal, Pure.pure, M.pure]; exact Sub.refl s fl
    | int _ _ | bool _ | str _ | void | ref _ _ | sref _ _ | invalid | account =>
      simp only [destroyVal, Pure.pure, M.pure]; exact Sub.refl s fl
theorem destroyAll_sub (hq : EventsQuiet p) : ∀ (n : Nat) (vs : List Val) (s : State) (fl : List Val),
    (destroyAll p n vs s).out = .ok () → Sub s fl (destroyAll p n vs s).st fl
  | 0, _, _, _, hok => by simp [destroyAll, M.outOfFuel] at hok
  | _ + 1, [], s, fl, _ => by simp only [destroyAll, Pure.pure, M.pure]; exact Sub.refl s fl
  | n + 1, v :: vs, s, fl, hok => by
    simp only [destroyAll] at hok ⊢
    obtain ⟨_, hv, hb, hst⟩ := bind_inv hok
    rw [hst]
    exact (destroyVal_sub hq n v s fl hv).trans (destroyAll_sub hq n vs _ fl hb)
end


/-! ### the resource-moving core statements -/

inductive Core : Stmt → Prop where
  | decl (k : Bool) (x : String) (ty : Ty) (e : Expr) : Src p e → Core (.decl k x ty e)
  | assign (op : Bool) (t : Expr) (ty : Ty) (e : Expr) : Tgt t → Src p e → Core (.assign op t ty e)
  | decl2 (x : String) (ty ty2 : Ty) (t e : Expr) : Tgt t → Src p e → Core (.decl2 x ty ty2 t e)
  | destroyVar (x : String) : Core (.expr (.destroy (.var x)))
  | save (path : String) (e : Expr) : Src p e → Core (.expr (.save path e))

theorem core_held (hq : EventsQuiet p) {st : Stmt} (hc : Core p st) (n : Nat) (retTy : Ty) :
    Trip (fun s => Held s []) (exec p n retTy st) (fun _ s => Held s []) := by
  cases n with
  | zero => intro s _ a hok; simp [exec, M.outOfFuel] at hok
  | succ n =>
    cases hc with
    | decl k x ty e hs =>
      simp only [exec]
      exact Trip.bind (src_held p hs n []) fun v => Trip.bind (trip_transferTo ty v []) fun v' =>
        Trip.bind (trip_declVar x v' []) fun _ => Trip.pure' _
    | assign op t ty e ht hs =>
      simp only [exec]
      refine Trip.bind (tgt_trip p ht n _) fun l => Trip.pre_pure fun _ => ?_
      exact Trip.bind (src_held p hs n []) fun v => Trip.bind (trip_transferTo ty v []) fun v' =>
        Trip.bind (trip_writeLoc l v' []) fun _ => Trip.pure' _
    | decl2 x ty ty2 t e ht hs =>
      simp only [exec]
      refine Trip.bind (tgt_trip p ht n _) fun l => Trip.pre_pure fun hl => ?_
      refine Trip.bind (Trip.quiet (Quiet.readLoc l)) fun old => ?_
      refine Trip.bind (trip_vacate l old [] hl) fun _ => ?_
      refine Trip.bind (trip_transferTo ty old []) fun old' => ?_
      refine Trip.bind (src_held p hs n [old']) fun v => ?_
      refine Trip.bind (trip_transferTo ty2 v [old']) fun v' => ?_
      refine Trip.bind (trip_writeLoc l v' [old']) fun _ => ?_
      exact Trip.bind (trip_declVar x old' []) fun _ => Trip.pure' _
    | destroyVar x =>
      simp only [exec]
      refine Trip.bind (Q := fun _ s => Held s []) ?_ fun _ => Trip.pure' _
      cases n with
      | zero => intro s _ a hok; simp [eval, M.outOfFuel] at hok
      | succ n =>
        simp only [eval]
        refine Trip.bind (Trip.quiet (eval_var_quiet p n x)) fun v => ?_
        refine Trip.bind (Q := fun _ s => Held s []) ?_ fun _ =>
          Trip.bind (Q := fun _ s => Held s []) ?_ fun _ => Trip.pure' _
        · intro s ⟨h, _⟩ _ hok
          exact h.sub (destroyVal_sub p hq n v s [] hok)
        · intro s h _ hok
          unfold vacate at hok ⊢
          split
          · next hres =>
            simp only [hres, if_true, writeLocRaw, setVarRaw] at hok ⊢
            split at hok
            · next env' hu => exact h.sub (sub_setVar_invalid [] hu)
            · cases hok
          · exact h
    | save path e hs =>
      simp only [exec]
      refine Trip.bind (Q := fun _ s => Held s []) ?_ fun _ => Trip.pure' _
      cases n with
      | zero => intro s _ a hok; simp [eval, M.outOfFuel] at hok
      | succ n =>
        simp only [eval]
        refine Trip.bind (src_held p hs n []) fun v => ?_
        refine Trip.bind (Trip.quiet (Quiet.storageGet path)) fun old => ?_
        cases old with
        | some o => intro s _ a hok; simp [M.userErr] at hok
        | none =>
          simp only
          refine Trip.bind (Trip.weaken (trip_transfer v []) (fun s h => h.1) fun _ _ h => h) fun v' => ?_
          refine Trip.bind (Q := fun _ s => Held s []) ?_ fun _ => Trip.pure' _
          intro s h _ _
          simp only [storagePut, M.modify]
          refine h.sub (Sub.of_storage fun id => ?_)
          have := occ_filter_snd_le id s.storage (fun x => x.1 != path)
          simp only [envSlots, List.map_append, List.map_cons, List.map_nil, occ_append, occ_cons, occ_nil] at this ⊢
          omega

/-- a sequence of core statements -/
theorem core_block_held (hq : EventsQuiet p) : ∀ (ss : List Stmt), (∀ st ∈ ss, Core p st) → ∀ (n : Nat) (retTy : Ty),
    Trip (fun s => Held s []) (execStmts p n retTy ss) (fun _ s => Held s [])
  | _, _, 0, _ => by intro s _ a hok; simp [execStmts, M.outOfFuel] at hok
  | [], _, n + 1, _ => by simp only [execStmts]; exact Trip.pure' _
  | st :: rest, hall, n + 1, retTy => by
    simp only [execStmts]
    refine Trip.bind (core_held p hq (hall st (List.mem_cons_self ..)) n retTy) fun f => ?_
    cases f with
    | normal => exact core_block_held hq rest (fun st' h => hall st' (List.mem_cons_of_mem _ h)) n retTy
    | _ => exact Trip.pure' _


/-! ### the destruction event of a resource without nested containers -/

theorem destroyVal_noptr_quiet : ∀ (n : Nat) (v : Val), v.ptrs = [] → Quiet (destroyVal p n v)
  | 0, _, _ => fun _ => rfl
  | n + 1, v, hv => by
    cases v with
    | some w => simp only [destroyVal]; exact destroyVal_noptr_quiet n w (by simpa [Val.ptrs] using hv)
    | ptr id => simp [Val.ptrs] at hv
    | nil => simp only [destroyVal]; exact Quiet.pure _
    | int _ _ | bool _ | str _ | void | ref _ _ | sref _ _ | invalid | account =>
      simp only [destroyVal]; exact Quiet.pure _

theorem destroyAll_noptr_quiet : ∀ (n : Nat) (vs : List Val), (∀ v ∈ vs, v.ptrs = []) → Quiet (destroyAll p n vs)
  | 0, _, _ => fun _ => rfl
  | _ + 1, [], _ => by simp only [destroyAll]; exact Quiet.pure _
  | n + 1, v :: vs, h => by
    simp only [destroyAll]
    exact Quiet.bind (destroyVal_noptr_quiet p n v (h v (List.mem_cons_self ..))) fun _ =>
      destroyAll_noptr_quiet n vs fun w hw => h w (List.mem_cons_of_mem _ hw)

/-- destroying a live resource whose fields hold no containers: exactly one event is appended, the
cell is dead afterwards, nothing else changes -/
theorem destroy_leaf (hq : EventsQuiet p) (n id : Nat) (c : Cell) (name : String) (fs : List (String × Val))
    (params : List (String × Expr)) (s : State)
    (hc : s.heap[id]? = some c) (halive : c.alive = true) (hres : c.res = true) (ho : c.obj = .comp name fs)
    (hleaf : ∀ v ∈ c.obj.vals, v.ptrs = []) (hev : (p.findComp name).bind (·.destroyEvent) = some params)
    (hok : (destroyVal p (n + 1) (.ptr id) s).out = .ok ()) :
    ∃ line, (destroyVal p (n + 1) (.ptr id) s).st =
      { s with heap := s.heap.set id { c with alive := false, gen := c.gen + 1 }, events := s.events ++ [line] } := by
  simp only [destroyVal] at hok ⊢
  obtain ⟨c2, hc2, hb, hst⟩ := bind_quiet_inv (Quiet.getCell id) hok
  have := getCell_ok hc2; rw [hc] at this; cases this
  rw [hst]
  have h1 : ¬ ((!c.alive) = true) := by simp [halive]
  have h2 : ¬ ((!c.res) = true) := by simp [hres]
  rw [if_neg h1, if_neg h2] at hb ⊢
  simp only [ho, hev] at hb ⊢
  obtain ⟨ev, hevo, hb1, hst1⟩ := bind_inv hb
  rw [hst1]
  obtain ⟨args, ha, hp, hst2⟩ := bind_inv hevo
  have hs2 := hq name params hev n id s args ha
  simp only [Pure.pure, M.pure] at hp; cases hp
  have hst2' : ((evalEventArgs p n id params >>= fun args =>
      (Pure.pure (some (name ++ ".ResourceDestroyed(" ++ ", ".intercalate args ++ ")")) : M (Option String))) s).st = s := by
    rw [hst2]; exact hs2
  rw [hst2'] at hb1 ⊢
  have hvals : (Obj.comp name fs).vals = c.obj.vals := by rw [ho]
  have hqa := destroyAll_noptr_quiet p n (Obj.comp name fs).vals (by rw [hvals]; exact hleaf)
  obtain ⟨_, _, hb2, hst3⟩ := bind_quiet_inv hqa hb1
  rw [hst3]
  refine ⟨name ++ ".ResourceDestroyed(" ++ ", ".intercalate args ++ ")", ?_⟩
  simp only [bind, M.bind, M.modify, hc, ho]

end Verif.Model.Lang2
